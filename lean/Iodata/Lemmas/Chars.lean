/- Lemmas about `Model/Chars.lean`: tokenizer, strip, slices of concatenated fixed-width fields. -/
import Iodata.Model.Chars
namespace Iodata.Chars

theorem allWs_nil : AllWs [] := by intro c h; cases h
theorem noWs_nil : NoWs [] := by intro c h; cases h
theorem allWs_spaces (n : Nat) : AllWs (spaces n) := by
  intro c h; simp [spaces] at h; rw [h.2]; decide
theorem allWs_append {a b : Str} (ha : AllWs a) (hb : AllWs b) : AllWs (a ++ b) := by
  intro c h; rcases List.mem_append.mp h with h | h; exact ha c h; exact hb c h
theorem noWs_append {a b : Str} (ha : NoWs a) (hb : NoWs b) : NoWs (a ++ b) := by
  intro c h; rcases List.mem_append.mp h with h | h; exact ha c h; exact hb c h
theorem allWs_cons {c : Char} {s : Str} (hc : isWs c = true) (hs : AllWs s) : AllWs (c :: s) := by
  intro x h; rcases List.mem_cons.mp h with h | h; rw [h]; exact hc; exact hs x h
theorem noWs_cons {c : Char} {s : Str} (hc : isWs c = false) (hs : NoWs s) : NoWs (c :: s) := by
  intro x h; rcases List.mem_cons.mp h with h | h; rw [h]; exact hc; exact hs x h
theorem allWs_nl : AllWs ['\n'] := by decide

/-- the string is empty or starts with a blank (so a token before it is terminated) -/
def Brk (s : Str) : Prop := s = [] ∨ ∃ c r, s = c :: r ∧ isWs c = true

theorem brk_nil : Brk [] := Or.inl rfl
theorem brk_of_brkB {s : Str} (h : brkB s = true) : Brk s := by
  cases s with
  | nil => exact Or.inl rfl
  | cons c r => exact Or.inr ⟨c, r, rfl, h⟩
theorem brk_cons {c : Char} (r : Str) (h : isWs c = true) : Brk (c :: r) := Or.inr ⟨c, r, rfl, h⟩
theorem brk_space (r : Str) : Brk (' ' :: r) := brk_cons r (by decide)
theorem brk_nl (r : Str) : Brk ('\n' :: r) := brk_cons r (by decide)
theorem brk_allWs_append {p : Str} (r : Str) (hp : AllWs p) (hr : Brk r) : Brk (p ++ r) := by
  cases p with
  | nil => simpa using hr
  | cons c p => exact brk_cons _ (hp c (List.mem_cons_self))
theorem brk_allWs_ne_nil_append {p : Str} (r : Str) (hp : AllWs p) (hne : p ≠ []) : Brk (p ++ r) := by
  cases p with
  | nil => exact absurd rfl hne
  | cons c p => exact brk_cons _ (hp c (List.mem_cons_self))
theorem brk_of_allWs {p : Str} (hp : AllWs p) : Brk p := by
  have := brk_allWs_append [] hp brk_nil; simpa using this

/-! ### split -/

theorem splitGo_tok (t : Str) : ∀ (cur rest : Str), NoWs t → splitGo cur (t ++ rest) = splitGo (cur ++ t) rest := by
  induction t with
  | nil => intro cur rest _; simp
  | cons c t ih =>
    intro cur rest h
    have hc : isWs c = false := h c (List.mem_cons_self)
    have ht : NoWs t := fun x hx => h x (List.mem_cons_of_mem _ hx)
    simp only [List.cons_append, splitGo, hc]
    rw [ih (cur ++ [c]) rest ht]
    simp

theorem splitGo_ws (p : Str) : ∀ (rest : Str), AllWs p → splitGo [] (p ++ rest) = splitGo [] rest := by
  induction p with
  | nil => intro rest _; rfl
  | cons c p ih =>
    intro rest h
    have hc : isWs c = true := h c (List.mem_cons_self)
    have hp : AllWs p := fun x hx => h x (List.mem_cons_of_mem _ hx)
    simp only [List.cons_append, splitGo, hc, if_true, List.isEmpty_nil]
    exact ih rest hp

theorem splitGo_brk (t rest : Str) (ht : t ≠ []) (hr : Brk rest) :
    splitGo t rest = t :: splitGo [] rest := by
  have hne : t.isEmpty = false := by cases t; exact absurd rfl ht; rfl
  rcases hr with h | ⟨c, r, h, hc⟩
  · subst h; simp [splitGo, hne]
  · subst h; simp [splitGo, hc, hne]

/-- one field: padding, a blank-free token, then a break -/
theorem splitWs_field (p t rest : Str) (hp : AllWs p) (ht : NoWs t) (hne : t ≠ []) (hr : Brk rest) :
    splitWs (p ++ (t ++ rest)) = t :: splitWs rest := by
  unfold splitWs
  rw [splitGo_ws p _ hp, splitGo_tok t [] rest ht]
  simpa using splitGo_brk t rest hne hr

theorem splitWs_allWs (p : Str) (hp : AllWs p) : splitWs p = [] := by
  have := splitGo_ws p [] hp
  simpa [splitWs, splitGo] using this

theorem splitWs_tok (t rest : Str) (ht : NoWs t) (hne : t ≠ []) (hr : Brk rest) :
    splitWs (t ++ rest) = t :: splitWs rest := by
  simpa using splitWs_field [] t rest allWs_nil ht hne hr

/-- `" ".join(ts).split() == ts` for non-empty blank-free tokens -/
theorem splitWs_joinSp (ts : List Str) (h : ∀ t ∈ ts, NoWs t ∧ t ≠ []) :
    splitWs (List.intercalate [' '] ts) = ts := by
  induction ts with
  | nil => rfl
  | cons t ts ih =>
    have ht := h t (List.mem_cons_self)
    have hts : ∀ t ∈ ts, NoWs t ∧ t ≠ [] := fun x hx => h x (List.mem_cons_of_mem _ hx)
    cases ts with
    | nil =>
      have := splitWs_tok t [] ht.1 ht.2 brk_nil
      simpa [List.intercalate, splitWs_allWs [] allWs_nil] using this
    | cons u us =>
      have e : List.intercalate [' '] (t :: u :: us) = t ++ (' ' :: List.intercalate [' '] (u :: us)) := by
        simp [List.intercalate]
      rw [e, splitWs_tok t _ ht.1 ht.2 (brk_space _)]
      have : splitWs (' ' :: List.intercalate [' '] (u :: us)) = splitWs (List.intercalate [' '] (u :: us)) := by
        have := splitGo_ws [' '] (List.intercalate [' '] (u :: us)) (by decide)
        simpa [splitWs] using this
      rw [this, ih hts]

/-! ### strip -/

theorem lstrip_allWs_append (p s : Str) (hp : AllWs p) : lstrip (p ++ s) = lstrip s := by
  induction p with
  | nil => rfl
  | cons c p ih =>
    have hc : isWs c = true := hp c (List.mem_cons_self)
    have hp' : AllWs p := fun x hx => hp x (List.mem_cons_of_mem _ hx)
    simp only [lstrip, List.cons_append, List.dropWhile_cons, hc, if_true]
    exact ih hp'

theorem rstrip_allWs (q : Str) (hq : AllWs q) : rstrip q = [] := by
  induction q with
  | nil => rfl
  | cons c q ih =>
    have hc : isWs c = true := hq c (List.mem_cons_self)
    have hq' : AllWs q := fun x hx => hq x (List.mem_cons_of_mem _ hx)
    simp [rstrip, ih hq', hc]

theorem rstrip_append_allWs (t q : Str) (hq : AllWs q) : rstrip (t ++ q) = rstrip t := by
  induction t with
  | nil => simpa [rstrip] using rstrip_allWs q hq
  | cons c t ih => simp [rstrip, ih]

theorem lstrip_append_of_fix (t q : Str) (ht : lstrip t = t) (hq : AllWs q) :
    lstrip (t ++ q) = if t = [] then [] else t ++ q := by
  cases t with
  | nil =>
    simp only [List.nil_append, if_true]
    have := lstrip_allWs_append q [] hq
    simpa [lstrip] using this
  | cons c t =>
    have hc : isWs c = false := by
      cases h : isWs c with
      | false => rfl
      | true =>
        simp only [lstrip, List.dropWhile_cons, h, if_true] at ht
        have hl := congrArg List.length ht
        have := (List.dropWhile_sublist isWs (l := t)).length_le
        simp at hl; omega
    simp [lstrip, hc]

/-- `(pad + t + pad').strip() == t` for a trimmed `t` -/
theorem strip_pad (p t q : Str) (hp : AllWs p) (hq : AllWs q) (ht : Trimmed t) :
    strip (p ++ (t ++ q)) = t := by
  unfold strip
  rw [lstrip_allWs_append p _ hp, lstrip_append_of_fix t q ht.1 hq]
  by_cases h : t = []
  · subst h; simp [rstrip]
  · simp only [h, if_false]; rw [rstrip_append_allWs t q hq]; exact ht.2

theorem lstrip_noWs (t : Str) (h : NoWs t) : lstrip t = t := by
  cases t with
  | nil => rfl
  | cons c t => simp [lstrip, h c (List.mem_cons_self)]

theorem rstrip_noWs (t : Str) (h : NoWs t) : rstrip t = t := by
  induction t with
  | nil => rfl
  | cons c t ih =>
    have hc : isWs c = false := h c (List.mem_cons_self)
    have ht : NoWs t := fun x hx => h x (List.mem_cons_of_mem _ hx)
    simp [rstrip, ih ht, hc]

theorem trimmed_of_noWs (t : Str) (h : NoWs t) : Trimmed t := ⟨lstrip_noWs t h, rstrip_noWs t h⟩

/-- a trimmed non-empty string has a token: `split()` of it is non-empty (used for `words[0]`) -/
theorem strip_noWs_pad (p t q : Str) (hp : AllWs p) (hq : AllWs q) (ht : NoWs t) :
    strip (p ++ (t ++ q)) = t := strip_pad p t q hp hq (trimmed_of_noWs t ht)

/-! ### slices -/

theorem slice_mid (a b : Nat) (x y z : Str) (hx : x.length = a) (hy : y.length = b - a) :
    slice a b (x ++ (y ++ z)) = y := by
  unfold slice
  rw [List.drop_append_of_le_length (by omega)]
  have : List.drop a x = [] := by apply List.drop_eq_nil_of_le; omega
  rw [this, List.nil_append, List.take_append_of_le_length (by omega)]
  apply List.take_of_length_le; omega

theorem slice_zero (b : Nat) (y z : Str) (hy : y.length = b) : slice 0 b (y ++ z) = y := by
  have := slice_mid 0 b [] y z rfl (by simpa using hy); simpa using this

theorem sliceFrom_append (a : Nat) (x z : Str) (hx : x.length = a) : sliceFrom a (x ++ z) = z := by
  unfold sliceFrom; subst hx; simp

/-- cutting one field out of a record written field by field -/
theorem slice_flatten (pre : List Str) (f : Str) (post : List Str) (a b : Nat)
    (ha : pre.flatten.length = a) (hb : b = a + f.length) :
    slice a b ((pre ++ f :: post).flatten) = f := by
  have : (pre ++ f :: post).flatten = pre.flatten ++ (f ++ post.flatten) := by simp
  rw [this]
  exact slice_mid a b _ _ _ ha (by omega)

/-- `(s + r).split() == s.split() + r.split()` when `r` is empty or starts with a blank -/
theorem splitGo_append_brk (s r : Str) (hr : Brk r) : ∀ cur, splitGo cur (s ++ r) = splitGo cur s ++ splitGo [] r := by
  induction s with
  | nil =>
    intro cur
    rcases hr with h | ⟨c, r', h, hc⟩
    · subst h; simp [splitGo]
    · subst h
      by_cases hcur : cur.isEmpty = true <;> simp [splitGo, hc, hcur]
  | cons c s ih =>
    intro cur
    by_cases hc : isWs c = true
    · by_cases hcur : cur.isEmpty = true <;> simp [splitGo, hc, hcur, ih]
    · simp [splitGo, hc, ih]

theorem splitWs_append_brk (s r : Str) (hr : Brk r) : splitWs (s ++ r) = splitWs s ++ splitWs r :=
  splitGo_append_brk s r hr []

theorem length_spaces (n : Nat) : (spaces n).length = n := by simp [spaces]
theorem length_rjust (w : Nat) (s : Str) (h : s.length ≤ w) : (rjust w s).length = w := by
  simp [rjust, spaces]; omega
theorem length_ljust (w : Nat) (s : Str) (h : s.length ≤ w) : (ljust w s).length = w := by
  simp [ljust, spaces]; omega

theorem brk_rjust_append (w : Nat) (t r : Str) (h : t.length < w) : Brk (rjust w t ++ r) := by
  unfold rjust
  obtain ⟨n, hn⟩ : ∃ n, w - t.length = n + 1 := ⟨w - t.length - 1, by omega⟩
  rw [hn]; simp only [spaces, List.replicate_succ, List.cons_append]
  exact brk_space _

/-! ### lines -/

theorem splitLinesGo_body (b : Str) : ∀ (cur rest : Str), '\n' ∉ b →
    splitLinesGo cur (b ++ rest) = splitLinesGo (cur ++ b) rest := by
  induction b with
  | nil => intro cur rest _; simp
  | cons c b ih =>
    intro cur rest h
    have hc : (c == '\n') = false := by
      have : c ≠ '\n' := fun e => h (e ▸ List.mem_cons_self)
      simpa using this
    have hb : '\n' ∉ b := fun hx => h (List.mem_cons_of_mem _ hx)
    simp only [List.cons_append, splitLinesGo, hc]
    rw [ih (cur ++ [c]) rest hb]; simp

/-- the bytes of a file written line by line with `print` split back into exactly those lines -/
theorem splitLines_flatten (bodies : List Str) (h : ∀ b ∈ bodies, '\n' ∉ b) :
    splitLines ((bodies.map ln).flatten) = bodies.map ln := by
  unfold splitLines
  induction bodies with
  | nil => rfl
  | cons b bs ih =>
    have hb := h b (List.mem_cons_self)
    have hbs : ∀ b ∈ bs, '\n' ∉ b := fun x hx => h x (List.mem_cons_of_mem _ hx)
    simp only [List.map_cons, List.flatten_cons, ln, List.append_assoc]
    rw [splitLinesGo_body b [] _ hb]
    simp only [List.nil_append, List.cons_append, splitLinesGo]
    simp [ih hbs]

end Iodata.Chars
