/- Helper lemmas for C19 (`Iodata/Props/C19.lean`). -/
import Iodata.Model.Inputs
import Mathlib.Data.Rat.Floor
import Mathlib.Tactic.Linarith
import Mathlib.Data.List.Basic

set_option linter.unusedSimpArgs false

namespace Iodata.Inputs
open Iodata.Select (Str)

lemma lookup_append (a b : Fields) (k : Str) :
    lookup (a ++ b) k = (lookup a k).orElse (fun _ => lookup b k) := by
  unfold lookup
  rw [List.find?_append]
  cases h : a.find? (fun e => e.1 == k) <;> simp

lemma lookup_cons_self (k : Str) (v : Val) (fs : Fields) : lookup ((k, v) :: fs) k = some v := by
  simp [lookup]

lemma lookup_cons_ne (k k' : Str) (v : Val) (fs : Fields) (h : k' ≠ k) :
    lookup ((k', v) :: fs) k = lookup fs k := by
  have : (k' == k) = false := by simpa using h
  simp [lookup, List.find?_cons, this]

lemma allSome_eq_some {α : Type} (l : List (Option α)) (r : List α) :
    allSome l = some r ↔ l = r.map some := by
  induction l generalizing r with
  | nil => cases r <;> simp [allSome]
  | cons x xs ih =>
    cases x with
    | none => cases r <;> simp [allSome]
    | some a =>
      cases h : allSome xs with
      | none =>
        simp only [allSome, h, reduceCtorEq, false_iff]
        intro hh
        cases r with
        | nil => simp at hh
        | cons b r' =>
          simp only [List.map_cons, List.cons.injEq] at hh
          have := (ih r').mpr hh.2
          rw [h] at this; cases this
      | some r0 =>
        simp only [allSome, h, Option.some.injEq]
        have h0 := (ih r0).mp h
        constructor
        · rintro rfl; simp [h0]
        · intro hh
          cases r with
          | nil => simp at hh
          | cons b r' =>
            simp only [List.map_cons, List.cons.injEq, Option.some.injEq] at hh
            have := (ih r').mpr hh.2
            rw [h] at this
            cases this
            rw [hh.1]

/-- split at every `\n` (what a reader of the file does) -/
def splitNl : Str → List Str
  | [] => [[]]
  | c :: s =>
    match splitNl s with
    | [] => [[]]   -- unreachable: `splitNl` never returns `[]`
    | l :: ls => if c = '\n' then [] :: l :: ls else (c :: l) :: ls

lemma splitNl_append_nl (l : Str) (hl : '\n' ∉ l) (s : Str) :
    splitNl (l ++ '\n' :: s) = l :: splitNl s := by
  induction l with
  | nil =>
    simp only [List.nil_append, splitNl]
    cases h : splitNl s <;> simp
  | cons c l ih =>
    have hc : c ≠ '\n' := fun h => hl (by simp [h])
    have hl' : '\n' ∉ l := fun h => hl (by simp [h])
    simp only [List.cons_append, splitNl, ih hl', hc, if_false]

lemma splitNl_noNl (l : Str) (hl : '\n' ∉ l) : splitNl l = [l] := by
  induction l with
  | nil => rfl
  | cons c l ih =>
    have hc : c ≠ '\n' := fun h => hl (by simp [h])
    have hl' : '\n' ∉ l := fun h => hl (by simp [h])
    simp only [splitNl, ih hl', hc, if_false]

lemma splitNl_joinNl (ls : List Str) (hne : ls ≠ []) (h : ∀ l ∈ ls, '\n' ∉ l) :
    splitNl (joinNl ls) = ls := by
  induction ls with
  | nil => exact absurd rfl hne
  | cons l ls ih =>
    cases ls with
    | nil => simp only [joinNl]; exact splitNl_noNl l (h l (by simp))
    | cons l2 ls' =>
      simp only [joinNl]
      rw [splitNl_append_nl l (h l (by simp))]
      congr 1
      exact ih (by simp) (fun x hx => h x (by simp [hx]))

/-! ### splitting text that may itself contain newlines -/

lemma splitNl_ne_nil (s : Str) : splitNl s ≠ [] := by
  cases s with
  | nil => simp [splitNl]
  | cons c s =>
    simp only [splitNl]
    cases splitNl s with
    | nil => simp
    | cons l ls => by_cases h : c = '\n' <;> simp [h]

/-- no hypothesis on `l`: a reader sees the lines of `l` followed by the lines of `s` -/
lemma splitNl_append_nl' (l s : Str) : splitNl (l ++ '\n' :: s) = splitNl l ++ splitNl s := by
  induction l with
  | nil =>
    simp only [List.nil_append, splitNl]
    cases h : splitNl s with
    | nil => exact absurd h (splitNl_ne_nil s)
    | cons a b => simp
  | cons c l ih =>
    simp only [List.cons_append, splitNl, ih]
    cases h : splitNl l with
    | nil => exact absurd h (splitNl_ne_nil l)
    | cons a b => by_cases hc : c = '\n' <;> simp [hc]

lemma splitNl_joinNl_flatMap (ls : List Str) (hne : ls ≠ []) :
    splitNl (joinNl ls) = ls.flatMap splitNl := by
  induction ls with
  | nil => exact absurd rfl hne
  | cons l ls ih =>
    cases ls with
    | nil => simp [joinNl]
    | cons l2 ls' =>
      simp only [joinNl, splitNl_append_nl', List.flatMap_cons]
      rw [ih (by simp)]
      simp [List.flatMap_cons]

lemma length_splitNl (s : Str) : (splitNl s).length = s.count '\n' + 1 := by
  induction s with
  | nil => simp [splitNl]
  | cons c s ih =>
    simp only [splitNl]
    cases h : splitNl s with
    | nil => exact absurd h (splitNl_ne_nil s)
    | cons a b =>
      rw [h] at ih
      by_cases hc : c = '\n'
      · subst hc; simp only [if_true, List.length_cons, List.count_cons_self] at ih ⊢; omega
      · have : (c == '\n') = false := by simpa using hc
        simp only [hc, if_false, List.length_cons, List.count_cons, this] at ih ⊢
        simpa using ih

lemma length_flatMap_splitNl (ls : List Str) :
    (ls.flatMap splitNl).length = ls.length + (ls.map (List.count '\n')).sum := by
  induction ls with
  | nil => simp
  | cons l ls ih =>
    simp only [List.flatMap_cons, List.length_append, ih, length_splitNl, List.length_cons, List.map_cons,
      List.sum_cons]
    omega

lemma sum_count_nl_eq_zero (ls : List Str) :
    (ls.map (List.count '\n')).sum = 0 ↔ ∀ l ∈ ls, '\n' ∉ l := by
  induction ls with
  | nil => simp
  | cons l ls ih =>
    simp only [List.map_cons, List.sum_cons, Nat.add_eq_zero_iff, ih, List.mem_cons, forall_eq_or_imp,
      List.count_eq_zero]

/-! ### the comprehension over callback results -/

lemma allSome_eq_none {α : Type} (l : List (Option α)) : allSome l = none ↔ none ∈ l := by
  induction l with
  | nil => simp [allSome]
  | cons x xs ih =>
    cases x with
    | none => simp [allSome]
    | some a =>
      cases h : allSome xs with
      | none => simp [allSome, h, ih.mp h]
      | some r =>
        have : ¬ none ∈ xs := fun hh => by rw [ih.mpr hh] at h; cases h
        simp [allSome, h, this]

lemma allSome_map_some {α : Type} (r : List α) : allSome (r.map some) = some r :=
  (allSome_eq_some _ _).mpr rfl

/-- the comprehension yields `str` items only, exactly when every call returned a `str` -/
lemma collect_ok_lines (rs : List LineRes) (lines : List Str) :
    (∃ items, collect rs = .ok items ∧ allSome items = some lines) ↔ rs = lines.map .line := by
  induction rs generalizing lines with
  | nil =>
    cases lines with
    | nil => simp [collect, allSome]
    | cons l ls =>
      simp only [collect, Except.ok.injEq, exists_eq_left', allSome, List.map_cons]
      simp
  | cons r rs ih =>
    cases r with
    | raises e => cases lines <;> simp [collect]
    | nonStr =>
      cases lines with
      | nil =>
        simp only [collect, List.map_nil, reduceCtorEq, iff_false, not_exists, not_and]
        intro items h
        cases hc : collect rs with
        | error e => rw [hc] at h; cases h
        | ok it => rw [hc] at h; cases h; simp [allSome]
      | cons l ls =>
        simp only [collect, List.map_cons, List.cons.injEq, reduceCtorEq, false_and, iff_false, not_exists,
          not_and]
        intro items h
        cases hc : collect rs with
        | error e => rw [hc] at h; cases h
        | ok it => rw [hc] at h; cases h; simp [allSome]
    | line s =>
      cases lines with
      | nil =>
        simp only [collect, List.map_nil, reduceCtorEq, iff_false, not_exists, not_and]
        intro items h
        cases hc : collect rs with
        | error e => rw [hc] at h; cases h
        | ok it =>
          rw [hc] at h; cases h
          cases ha : allSome it <;> simp [allSome, ha]
      | cons l ls =>
        simp only [collect, List.map_cons, List.cons.injEq, LineRes.line.injEq]
        rw [← ih ls]
        constructor
        · rintro ⟨items, h, ha⟩
          cases hc : collect rs with
          | error e => rw [hc] at h; cases h
          | ok it =>
            rw [hc] at h; cases h
            cases hs : allSome it with
            | none => simp [allSome, hs] at ha
            | some r0 =>
              simp only [allSome, hs, Option.some.injEq, List.cons.injEq] at ha
              exact ⟨ha.1, it, rfl, by rw [← ha.2]; exact hs⟩
        · rintro ⟨rfl, it, hc, hs⟩
          exact ⟨some s :: it, by simp [hc, Except.map], by simp [allSome, hs]⟩

def LineRes.isRaise : LineRes → Bool
  | .raises _ => true
  | _ => false

/-- what the comprehension stores for a call that returned -/
def LineRes.item : LineRes → Option Str
  | .line s => some s
  | _ => none

/-- the first raising call at position `k`: the comprehension ends with that exception -/
lemma collect_raise (rs : List LineRes) (k : Nat) (hk : k < rs.length) (r : Raised) (hr : rs[k] = .raises r)
    (hpre : ∀ j (hj : j < k), rs[j].isRaise = false) : collect rs = .error r := by
  induction rs generalizing k with
  | nil => simp at hk
  | cons x xs ih =>
    cases k with
    | zero => simp only [List.getElem_cons_zero] at hr; subst hr; simp [collect]
    | succ k =>
      have h0 := hpre 0 (by omega)
      simp only [List.getElem_cons_zero] at h0
      have ih' := ih k (by simpa using hk) (by simpa using hr)
        (fun j hj => by have := hpre (j + 1) (by omega); simpa using this)
      cases x with
      | raises e => simp [LineRes.isRaise] at h0
      | line s => simp [collect, ih', Except.map]
      | nonStr => simp [collect, ih', Except.map]

lemma callsMade_raise (f : Nat → LineRes) (is : List Nat) (k : Nat) (hk : k < is.length)
    (hr : (f is[k]).isRaise = true) (hpre : ∀ j (hj : j < k), (f is[j]).isRaise = false) :
    callsMade f is = is.take (k + 1) := by
  induction is generalizing k with
  | nil => simp at hk
  | cons x xs ih =>
    cases k with
    | zero =>
      simp only [List.getElem_cons_zero] at hr
      cases hx : f x with
      | raises e => simp [callsMade, hx]
      | line s => simp [hx, LineRes.isRaise] at hr
      | nonStr => simp [hx, LineRes.isRaise] at hr
    | succ k =>
      have h0 := hpre 0 (by omega)
      simp only [List.getElem_cons_zero] at h0
      have ih' := ih k (by simpa using hk) (by simpa using hr)
        (fun j hj => by have := hpre (j + 1) (by omega); simpa using this)
      cases hx : f x with
      | raises e => simp [hx, LineRes.isRaise] at h0
      | line s => simp [callsMade, hx, ih']
      | nonStr => simp [callsMade, hx, ih']

lemma callsMade_noraise (f : Nat → LineRes) (is : List Nat) (h : ∀ i ∈ is, (f i).isRaise = false) :
    callsMade f is = is := by
  induction is with
  | nil => rfl
  | cons x xs ih =>
    have h0 := h x (by simp)
    have ih' := ih (fun i hi => h i (by simp [hi]))
    cases hx : f x with
    | raises e => simp [hx, LineRes.isRaise] at h0
    | line s => simp [callsMade, hx, ih']
    | nonStr => simp [callsMade, hx, ih']

lemma collect_noraise (rs : List LineRes) (h : ∀ r ∈ rs, r.isRaise = false) :
    collect rs = .ok (rs.map LineRes.item) := by
  induction rs with
  | nil => rfl
  | cons x xs ih =>
    have h0 := h x (by simp)
    have ih' := ih (fun i hi => h i (by simp [hi]))
    cases x with
    | raises e => simp [LineRes.isRaise] at h0
    | line s => simp [collect, ih', Except.map, LineRes.item]
    | nonStr => simp [collect, ih', Except.map, LineRes.item]

/-- calls are always made for an initial segment of the index list -/
lemma callsMade_prefix (f : Nat → LineRes) (is : List Nat) : ∃ k, k ≤ is.length ∧ callsMade f is = is.take k := by
  induction is with
  | nil => exact ⟨0, by simp, rfl⟩
  | cons x xs ih =>
    obtain ⟨k, hk, he⟩ := ih
    cases hx : f x with
    | raises e => exact ⟨1, by simp, by simp [callsMade, hx]⟩
    | line s => exact ⟨k + 1, by simpa using hk, by simp [callsMade, hx, he]⟩
    | nonStr => exact ⟨k + 1, by simpa using hk, by simp [callsMade, hx, he]⟩

/-! ### the default callback -/

lemma range_map_default (t : List (Nat × Str)) (m : Mol) :
    (List.range m.atoms.length).map (defaultAtomLine t m) = m.atoms.map (defaultRes t) := by
  apply List.ext_getElem (by simp)
  intro i h1 h2
  have hi : i < m.atoms.length := by simpa using h1
  simp [defaultAtomLine, List.getElem?_eq_getElem hi]

lemma collect_default (t : List (Nat × Str)) (atoms : List Atom) :
    collect (atoms.map (defaultRes t)) =
      match allSome (atoms.map (atomLine t)) with
      | some lines => .ok (lines.map some)
      | none => .error (.exception sKeyError) := by
  induction atoms with
  | nil => simp [collect, allSome]
  | cons a as ih =>
    simp only [List.map_cons, defaultRes]
    cases ha : atomLine t a with
    | none => simp [collect, allSome]
    | some l =>
      simp only [collect, ih, allSome]
      cases allSome (as.map (atomLine t)) <;> simp [Except.map]

lemma geomOf_default (t : List (Nat × Str)) (atoms : List Atom) :
    geomOf (atoms.map (defaultRes t)) =
      match geometry t atoms with
      | some g => .ok g
      | none => .raised (.exception sKeyError) := by
  unfold geomOf geometry
  rw [collect_default]
  cases allSome (atoms.map (atomLine t)) with
  | none => simp
  | some lines => simp [allSome_map_some]

lemma natDigits_isDigit (n : Nat) : ∀ c ∈ natDigits n, c.isDigit = true := by
  intro c hc
  unfold natDigits at hc
  rw [Nat.toString_eq_ofList_toDigits] at hc
  simp only [String.toList_ofList] at hc
  exact Nat.isDigit_of_mem_toDigits (by norm_num) (by norm_num) hc

lemma nl_not_digit : ('\n').isDigit = false := by decide

lemma natDigits_noNl (n : Nat) : '\n' ∉ natDigits n := by
  intro h
  have := natDigits_isDigit n _ h
  rw [nl_not_digit] at this; cases this

lemma fmtFix6_noNl (k : Int) : '\n' ∉ fmtFix6 k := by
  unfold fmtFix6 padLeft fmtFix6.padLeftZero
  intro h
  simp only [List.mem_append, List.mem_replicate, List.mem_cons] at h
  have d1 := natDigits_noNl (k.natAbs / 1000000)
  have d2 := natDigits_noNl (k.natAbs % 1000000)
  split at h
  · simp only [List.mem_cons, List.mem_append, List.mem_replicate] at h
    rcases h with ⟨_, h⟩ | h | h | h | ⟨_, h⟩ | h
    all_goals first | exact absurd h (by decide) | exact d1 h | exact d2 h
  · simp only [List.mem_cons, List.mem_append, List.mem_replicate] at h
    rcases h with ⟨_, h⟩ | h | h | ⟨_, h⟩ | h
    all_goals first | exact absurd h (by decide) | exact d1 h | exact d2 h

end Iodata.Inputs
