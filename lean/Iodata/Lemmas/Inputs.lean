/- Helper lemmas for C19 (`Iodata/Props/C19.lean`). -/
import Iodata.Model.Inputs
import Mathlib.Data.Rat.Floor
import Mathlib.Tactic.Linarith
import Mathlib.Data.List.Basic

set_option linter.unusedSimpArgs false

namespace Iodata.Inputs
open Iodata.Select (Str)

lemma lookup_append (a b : Fields) (k : Str) :
    lookup (a ++ b) k = (lookup a k).orElse (fun _ => lookup b k) := by
  unfold lookup
  rw [List.find?_append]
  cases h : a.find? (fun e => e.1 == k) <;> simp

lemma lookup_cons_self (k : Str) (v : Val) (fs : Fields) : lookup ((k, v) :: fs) k = some v := by
  simp [lookup]

lemma lookup_cons_ne (k k' : Str) (v : Val) (fs : Fields) (h : k' ≠ k) :
    lookup ((k', v) :: fs) k = lookup fs k := by
  have : (k' == k) = false := by simpa using h
  simp [lookup, List.find?_cons, this]

lemma allSome_eq_some {α : Type} (l : List (Option α)) (r : List α) :
    allSome l = some r ↔ l = r.map some := by
  induction l generalizing r with
  | nil => cases r <;> simp [allSome]
  | cons x xs ih =>
    cases x with
    | none => cases r <;> simp [allSome]
    | some a =>
      cases h : allSome xs with
      | none =>
        simp only [allSome, h, reduceCtorEq, false_iff]
        intro hh
        cases r with
        | nil => simp at hh
        | cons b r' =>
          simp only [List.map_cons, List.cons.injEq] at hh
          have := (ih r').mpr hh.2
          rw [h] at this; cases this
      | some r0 =>
        simp only [allSome, h, Option.some.injEq]
        have h0 := (ih r0).mp h
        constructor
        · rintro rfl; simp [h0]
        · intro hh
          cases r with
          | nil => simp at hh
          | cons b r' =>
            simp only [List.map_cons, List.cons.injEq, Option.some.injEq] at hh
            have := (ih r').mpr hh.2
            rw [h] at this
            cases this
            rw [hh.1]

/-- split at every `\n` (what a reader of the file does) -/
def splitNl : Str → List Str
  | [] => [[]]
  | c :: s =>
    match splitNl s with
    | [] => [[]]   -- unreachable: `splitNl` never returns `[]`
    | l :: ls => if c = '\n' then [] :: l :: ls else (c :: l) :: ls

lemma splitNl_append_nl (l : Str) (hl : '\n' ∉ l) (s : Str) :
    splitNl (l ++ '\n' :: s) = l :: splitNl s := by
  induction l with
  | nil =>
    simp only [List.nil_append, splitNl]
    cases h : splitNl s <;> simp
  | cons c l ih =>
    have hc : c ≠ '\n' := fun h => hl (by simp [h])
    have hl' : '\n' ∉ l := fun h => hl (by simp [h])
    simp only [List.cons_append, splitNl, ih hl', hc, if_false]

lemma splitNl_noNl (l : Str) (hl : '\n' ∉ l) : splitNl l = [l] := by
  induction l with
  | nil => rfl
  | cons c l ih =>
    have hc : c ≠ '\n' := fun h => hl (by simp [h])
    have hl' : '\n' ∉ l := fun h => hl (by simp [h])
    simp only [splitNl, ih hl', hc, if_false]

lemma splitNl_joinNl (ls : List Str) (hne : ls ≠ []) (h : ∀ l ∈ ls, '\n' ∉ l) :
    splitNl (joinNl ls) = ls := by
  induction ls with
  | nil => exact absurd rfl hne
  | cons l ls ih =>
    cases ls with
    | nil => simp only [joinNl]; exact splitNl_noNl l (h l (by simp))
    | cons l2 ls' =>
      simp only [joinNl]
      rw [splitNl_append_nl l (h l (by simp))]
      congr 1
      exact ih (by simp) (fun x hx => h x (by simp [hx]))

lemma natDigits_isDigit (n : Nat) : ∀ c ∈ natDigits n, c.isDigit = true := by
  intro c hc
  unfold natDigits at hc
  rw [Nat.toString_eq_ofList_toDigits] at hc
  simp only [String.toList_ofList] at hc
  exact Nat.isDigit_of_mem_toDigits (by norm_num) (by norm_num) hc

lemma nl_not_digit : ('\n').isDigit = false := by decide

lemma natDigits_noNl (n : Nat) : '\n' ∉ natDigits n := by
  intro h
  have := natDigits_isDigit n _ h
  rw [nl_not_digit] at this; cases this

lemma fmtFix6_noNl (k : Int) : '\n' ∉ fmtFix6 k := by
  unfold fmtFix6 padLeft fmtFix6.padLeftZero
  intro h
  simp only [List.mem_append, List.mem_replicate, List.mem_cons] at h
  have d1 := natDigits_noNl (k.natAbs / 1000000)
  have d2 := natDigits_noNl (k.natAbs % 1000000)
  split at h
  · simp only [List.mem_cons, List.mem_append, List.mem_replicate] at h
    rcases h with ⟨_, h⟩ | h | h | h | ⟨_, h⟩ | h
    all_goals first | exact absurd h (by decide) | exact d1 h | exact d2 h
  · simp only [List.mem_cons, List.mem_append, List.mem_replicate] at h
    rcases h with ⟨_, h⟩ | h | h | ⟨_, h⟩ | h
    all_goals first | exact absurd h (by decide) | exact d1 h | exact d2 h

end Iodata.Inputs
