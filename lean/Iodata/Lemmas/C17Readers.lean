/-
Helpers for `Props/C17Readers.lean` ("guaranteed ⇒ set" for the formats with a raw reader model):
the predicates of the statements, the table of keys each reader model returns, and — per reader — the
*form* of a returned object, obtained from the structure of the reader (bind inversion), for every input.
-/
import Iodata.Lemmas.C07Readers
import Iodata.Model.Select

set_option linter.unusedSimpArgs false
set_option linter.unusedVariables false

namespace Iodata.Rd
open Iodata.Chars Iodata.Fmt

/-! ### predicates -/

/-- `a` is a key of the result dictionary `o` (value not `None`); `false` for every name the model's object does
not represent (so a statement "`a` is a key" about such a name cannot be proved) -/
def hasKeyB (o : RObj) (a : Str) : Bool :=
  match accessor? a with
  | some f => f o
  | none => false

/-- `getattr(IOData(**o), a) is not None`; `false` for a name the model's object does not represent -/
def isSetB (o : RObj) (a : Str) : Bool :=
  match accessor? a with
  | some f => o.attrSet a f
  | none => false

/-- the `guaranteed` list that the source attaches to entry point `e` of module `m` (`none`: no such entry point) -/
def guaranteedOf (decl : List Iodata.Select.Declared) (m e : Str) : Option (List Str) :=
  (decl.find? fun d => d.module == m && d.entry == e).map (·.guaranteed)

/-- the keys of `o` are at least `B` and at most `B ++ S` -/
def KeysBetween (o : RObj) (B S : List Str) : Prop :=
  (∀ k ∈ B, k ∈ o.keys) ∧ (∀ k ∈ o.keys, k ∈ B ∨ k ∈ S)

def fXyz : Str := ['x','y','z']
def fSdf : Str := ['s','d','f']
def fMol2 : Str := ['m','o','l','2']
def fPdb : Str := ['p','d','b']
def fCube : Str := ['c','u','b','e']
def fGro : Str := ['g','r','o','m','a','c','s']
def fPoscar : Str := ['p','o','s','c','a','r']
def fChgcar : Str := ['c','h','g','c','a','r']
def fLocpot : Str := ['l','o','c','p','o','t']
/-- the CHARMM CRD reader lives in the module `charmm` -/
def fCrd : Str := ['c','h','a','r','m','m']
def eLoadOne : Str := ['l','o','a','d','_','o','n','e']
def eLoadMany : Str := ['l','o','a','d','_','m','a','n','y']

/-- keys every object returned by the reader model has -/
def xyzB : List Str := [kAtcoords, kAtnums, kTitle]
def sdfB : List Str := [kAtcoords, kAtnums, kBonds, kTitle]
def mol2B : List Str := [kAtcoords, kAtnums, kAtcharges, kAtffparams, kTitle]
def pdbB : List Str := [kAtcoords, kAtnums, kAtffparams, kExtra, kTitle]
def cubeB : List Str := [kAtcoords, kAtnums, kAtcorenums, kCellvecs, kCube, kTitle]
def groB : List Str := [kAtcoords, kAtffparams, kCellvecs, kExtra, kTitle]
def poscarB : List Str := [kAtcoords, kAtnums, kCellvecs, kTitle]
def vaspGridB : List Str := [kAtcoords, kAtnums, kCellvecs, kCube, kTitle]
def crdB : List Str := [kAtcoords, kAtffparams, kAtmasses, kExtra, kTitle]

/-- (format, keys of every returned object, keys of some returned objects only) of the reader models;
`Props/C17Readers` proves each row about the model and compares the table with the one extracted from the source -/
def modelKeys : List (Str × List Str × List Str) :=
  [(fXyz, xyzB, []), (fSdf, sdfB, []), (fMol2, mol2B, [kBonds]), (fPdb, pdbB, [kBonds]), (fCube, cubeB, []),
   (fGro, groB, []), (fPoscar, poscarB, []), (fChgcar, vaspGridB, []), (fLocpot, vaspGridB, []),
   (fCrd, crdB, [])]

/-- same members -/
def sameSet (a b : List Str) : Bool := a.all (b.contains ·) && b.all (a.contains ·)

/-- every guaranteed name of the modelled modules' `load_one`/`load_many`, with the module and entry point -/
def guaranteedNames (decl : List Iodata.Select.Declared) : List (Str × Str × Str) :=
  (decl.filter fun d => (modelKeys.map (·.1)).contains d.module && [eLoadOne, eLoadMany].contains d.entry).flatMap
    fun d => d.guaranteed.map fun a => (d.module, d.entry, a)

/-- guaranteed names (of the modelled modules) that the model's result object does not represent -/
def uncovered (decl : List Iodata.Select.Declared) : List (Str × Str × Str) :=
  (guaranteedNames decl).filter fun t => (accessor? t.2.2).isNone

/-! ### generic facts -/

theorem mem_of_lookup {α β} [BEq α] [LawfulBEq α] : ∀ (l : List (α × β)) (a : α) (b : β),
    l.lookup a = some b → (a, b) ∈ l := by
  intro l
  induction l with
  | nil => intro a b h; cases h
  | cons p l ih =>
    intro a b h
    rcases p with ⟨k, v⟩
    simp only [List.lookup] at h
    cases hk : (a == k) with
    | true =>
      rw [hk] at h
      have := eq_of_beq hk
      subst this
      injection h with h
      subst h
      exact List.mem_cons_self
    | false =>
      rw [hk] at h
      exact List.mem_cons_of_mem _ (ih a b h)

theorem mem_keys_iff (o : RObj) (a : Str) : a ∈ o.keys ↔ hasKeyB o a = true := by
  unfold RObj.keys hasKeyB accessor?
  simp only [List.mem_map, List.mem_filter]
  constructor
  · rintro ⟨p, ⟨hp, hpo⟩, rfl⟩
    simp only [accessors, List.mem_cons, List.not_mem_nil, or_false] at hp
    rcases hp with rfl | rfl | rfl | rfl | rfl | rfl | rfl | rfl | rfl | rfl | rfl <;> exact hpo
  · intro h
    split at h
    · next f hf => exact ⟨(a, f), ⟨mem_of_lookup _ _ _ hf, h⟩, rfl⟩
    · cases h

/-- a key passed to the constructor is set on the object -/
theorem isSet_of_hasKey (o : RObj) (a : Str) (h : hasKeyB o a = true) : isSetB o a = true := by
  unfold hasKeyB at h
  unfold isSetB
  split at h
  · next f hf => simp [hf, RObj.attrSet, h]
  · cases h

theorem keysBetween_of_eq {o : RObj} {B S ks : List Str} (h : o.keys = ks) (h1 : ∀ k ∈ B, k ∈ ks)
    (h2 : ∀ k ∈ ks, k ∈ B ∨ k ∈ S) : KeysBetween o B S := by
  subst h; exact ⟨h1, h2⟩

theorem guaranteed_of_keys {o : RObj} {B S g : List Str} (hk : KeysBetween o B S) (hg : ∀ a ∈ g, a ∈ B) :
    ∀ a ∈ g, hasKeyB o a = true ∧ isSetB o a = true := by
  intro a ha
  have h := (mem_keys_iff o a).mp (hk.1 a (hg a ha))
  exact ⟨h, isSet_of_hasKey o a h⟩

/-! ### the form of a returned object, per reader (all inputs) -/

theorem xyz_form (T : Tables) (ls : List Str) (o : RObj) (h : (Xyz.read T ls).res = .ok o) :
    ∃ n : Nat, o = { atnums := some [n], atcoords := some [n, 3], hasTitle := true } := by
  unfold Xyz.read run at h
  rcases hm : Xyz.loadOne T ⟨ls, 0⟩ with ⟨r, l'⟩
  rw [hm] at h
  simp only at h
  subst h
  unfold Xyz.loadOne at hm
  obtain ⟨_, _, -, hm⟩ := bind_ok hm
  obtain ⟨natom, _, -, hm⟩ := bind_ok hm
  obtain ⟨_, _, -, hm⟩ := bind_ok hm
  obtain ⟨_, _, -, hm⟩ := bind_ok hm
  obtain ⟨_, _, -, hm⟩ := bind_ok hm
  obtain ⟨_, _, -, hm⟩ := bind_ok hm
  obtain ⟨ho, -⟩ := pure_ok hm
  exact ⟨natom.toNat, ho.symm⟩

theorem sdf_form (T : Tables) (L : Sdf.Layout) (ls : List Str) (o : RObj) (h : (Sdf.read T L ls).res = .ok o) :
    ∃ n m : Nat, o = { atcoords := some [n, 3], atnums := some [n], bonds := some [m, 3], hasTitle := true } := by
  unfold Sdf.read run at h
  rcases hm : Sdf.loadOne T L ⟨ls, 0⟩ with ⟨r, l'⟩
  rw [hm] at h
  simp only at h
  subst h
  unfold Sdf.loadOne at hm
  obtain ⟨_, _, -, hm⟩ := bind_ok hm
  obtain ⟨_, _, -, hm⟩ := bind_ok hm
  obtain ⟨_, _, -, hm⟩ := bind_ok hm
  obtain ⟨_, _, -, hm⟩ := bind_ok hm
  obtain ⟨natom, _, -, hm⟩ := bind_ok hm
  obtain ⟨nbond, _, -, hm⟩ := bind_ok hm
  obtain ⟨_, _, -, hm⟩ := bind_ok hm
  obtain ⟨_, _, -, hm⟩ := bind_ok hm
  obtain ⟨_, _, -, hm⟩ := bind_ok hm
  obtain ⟨_, _, -, hm⟩ := bind_ok hm
  obtain ⟨_, _, -, hm⟩ := bind_ok hm
  obtain ⟨_, _, -, hm⟩ := bind_ok hm
  obtain ⟨_, _, -, hm⟩ := bind_ok hm
  obtain ⟨ho, -⟩ := pure_ok hm
  exact ⟨natom.toNat, nbond.toNat, ho.symm⟩

theorem mol2_form (ls : List Str) (o : RObj) (h : (Mol2.read ls).res = .ok o) :
    ∃ (n : Nat) (b : Option Nat), o = { atcoords := some [n, 3], atnums := some [n], atcharges := [n], atffparams := [n], bonds := b.map fun m => [m, 3], hasTitle := true, hasAtcharges := true, hasAtffparams := true } := by
  have key : ∀ st, Mol2.finish st = .ok o → ∃ (n : Nat) (b : Option Nat),
      o = { atcoords := some [n, 3], atnums := some [n], atcharges := [n], atffparams := [n], bonds := b.map fun m => [m, 3], hasTitle := true, hasAtcharges := true, hasAtffparams := true } := by
    intro st hf
    unfold Mol2.finish at hf
    split at hf
    · cases hf
    · cases hf
    · rename_i n _ nb _ _
      split at hf
      · cases hf
      · injection hf with hf
        exact ⟨n, st.bonds, hf.symm⟩
  unfold Mol2.read Mol2.loadOneF at h
  cases hl : Mol2.loop (ls.length + 1) {} ⟨ls, 0⟩ with
  | none => rw [hl] at h; cases h
  | some p =>
    rw [hl] at h
    rcases p with ⟨r, l'⟩
    cases r with
    | ok st => exact key st h
    | error e => cases h

theorem pdb_form (L : Pdb.Layout) (ls : List Str) (o : RObj) (h : (Pdb.read L ls).res = .ok o) :
    ∃ (n : Nat) (x : List Nat) (b : Option (List Nat)), o = { atcoords := some [n, 3], atnums := some [n], atffparams := [n, n, n], extraAtom := x, bonds := b, hasTitle := true, hasAtffparams := true, hasExtra := true } := by
  have key : ∀ acc, Pdb.finish acc = .ok o → ∃ (n : Nat) (x : List Nat) (b : Option (List Nat)),
      o = { atcoords := some [n, 3], atnums := some [n], atffparams := [n, n, n], extraAtom := x, bonds := b, hasTitle := true, hasAtffparams := true, hasExtra := true } := by
    intro acc hf
    unfold Pdb.finish at hf
    split at hf
    · cases hf
    · injection hf with hf
      exact ⟨_, _, _, hf.symm⟩
  unfold Pdb.read run Pdb.loadOne at h
  dsimp only at h
  rcases hl : Pdb.loop L ls 0 {} with ⟨r, l'⟩
  rw [hl] at h
  cases r with
  | ok acc => exact key acc h
  | error e => cases h

theorem cube_form (ls : List Str) (o : RObj) (h : (Cube.read ls).res = .ok o) :
    ∃ (n : Nat) (s : List Nat), o = { atcoords := some [n, 3], atnums := some [n], atcorenums := some [n], cellvecs := some [3, 3], cube := some s, hasTitle := true } := by
  unfold Cube.read run at h
  rcases hm : Cube.loadOne ⟨ls, 0⟩ with ⟨r, l'⟩
  rw [hm] at h
  simp only at h
  subst h
  unfold Cube.loadOne at hm
  obtain ⟨_, _, -, hm⟩ := bind_ok hm
  obtain ⟨_, _, -, hm⟩ := bind_ok hm
  obtain ⟨_, _, -, hm⟩ := bind_ok hm
  obtain ⟨natom, _, -, hm⟩ := bind_ok hm
  obtain ⟨_, _, -, hm⟩ := bind_ok hm
  obtain ⟨s0, _, -, hm⟩ := bind_ok hm
  obtain ⟨_, _, -, hm⟩ := bind_ok hm
  obtain ⟨s1, _, -, hm⟩ := bind_ok hm
  obtain ⟨_, _, -, hm⟩ := bind_ok hm
  obtain ⟨s2, _, -, hm⟩ := bind_ok hm
  obtain ⟨_, _, -, hm⟩ := bind_ok hm
  obtain ⟨_, _, -, hm⟩ := bind_ok hm
  obtain ⟨_, _, -, hm⟩ := bind_ok hm
  obtain ⟨_, _, -, hm⟩ := bind_ok hm
  obtain ⟨_, _, -, hm⟩ := bind_ok hm
  obtain ⟨_, _, -, hm⟩ := bind_ok hm
  obtain ⟨_, _, -, hm⟩ := bind_ok hm
  obtain ⟨ho, -⟩ := pure_ok hm
  exact ⟨natom.toNat, _, ho.symm⟩

theorem gro_form (ls : List Str) (o : RObj) (h : (Gro.read ls).res = .ok o) :
    ∃ n : Nat, o = { atcoords := some [n, 3], atffparams := [n, n, n], extraAtom := [n], cellvecs := some [3, 3], hasTitle := true, hasAtffparams := true, hasExtra := true } := by
  unfold Gro.read run at h
  rcases hm : Gro.loadOne ⟨ls, 0⟩ with ⟨r, l'⟩
  rw [hm] at h
  simp only at h
  subst h
  unfold Gro.loadOne at hm
  obtain ⟨_, _, -, hm⟩ := bind_ok hm
  obtain ⟨_, _, -, hm⟩ := bind_ok hm
  obtain ⟨_, _, -, hm⟩ := bind_ok hm
  obtain ⟨natoms, _, -, hm⟩ := bind_ok hm
  obtain ⟨_, _, -, hm⟩ := bind_ok hm
  obtain ⟨_, _, -, hm⟩ := bind_ok hm
  obtain ⟨_, _, -, hm⟩ := bind_ok hm
  obtain ⟨_, _, -, hm⟩ := bind_ok hm
  obtain ⟨_, _, -, hm⟩ := bind_ok hm
  obtain ⟨ho, -⟩ := pure_ok hm
  exact ⟨natoms.toNat, ho.symm⟩

theorem poscar_form (T : Tables) (ls : List Str) (o : RObj) (h : (Vasp.readPoscar T ls).res = .ok o) :
    ∃ (s : List Nat) (n k : Nat), o = { atcoords := some s, atnums := some [n], cellvecs := some [3, k], hasTitle := true } := by
  unfold Vasp.readPoscar run at h
  rcases hm : Vasp.loadPoscar T ⟨ls, 0⟩ with ⟨r, l'⟩
  rw [hm] at h
  simp only at h
  subst h
  unfold Vasp.loadPoscar at hm
  obtain ⟨hd, _, -, hm⟩ := bind_ok hm
  obtain ⟨ho, -⟩ := pure_ok hm
  exact ⟨hd.coordShape, hd.natom, hd.cellK, ho.symm⟩

/-- CHGCAR and LOCPOT (`_load_vasp_grid`) -/
theorem vasp_grid_form (T : Tables) (ls : List Str) (o : RObj) (h : (run (Vasp.loadGrid T) ls).res = .ok o) :
    ∃ (s c : List Nat) (n k : Nat), o = { atcoords := some s, atnums := some [n], cellvecs := some [3, k], cube := some c, hasTitle := true } := by
  unfold run at h
  rcases hm : Vasp.loadGrid T ⟨ls, 0⟩ with ⟨r, l'⟩
  rw [hm] at h
  simp only at h
  subst h
  unfold Vasp.loadGrid at hm
  obtain ⟨hd, _, -, hm⟩ := bind_ok hm
  obtain ⟨g, _, -, hm⟩ := bind_ok hm
  obtain ⟨ho, -⟩ := pure_ok hm
  exact ⟨hd.coordShape, g.1, hd.natom, hd.cellK, ho.symm⟩

theorem crd_form (ls : List Str) (o : RObj) (h : (Crd.read ls).res = .ok o) :
    ∃ n : Nat, o = { atcoords := some [n, 3], atmasses := some [n], atffparams := [n, n, n], extraAtom := [n, n], hasTitle := true, hasAtffparams := true, hasExtra := true } := by
  unfold Crd.read run at h
  rcases hm : Crd.loadOne ⟨ls, 0⟩ with ⟨r, l'⟩
  rw [hm] at h
  simp only at h
  subst h
  unfold Crd.loadOne Crd.helper at hm
  obtain ⟨_, _, -, hm⟩ := bind_ok hm
  obtain ⟨_, _, -, hm⟩ := bind_ok hm
  obtain ⟨natom, _, -, hm⟩ := bind_ok hm
  obtain ⟨_, _, -, hm⟩ := bind_ok hm
  obtain ⟨_, _, -, hm⟩ := bind_ok hm
  obtain ⟨ho, -⟩ := pure_ok hm
  exact ⟨natom.toNat, ho.symm⟩

/-! ### witness files (non-vacuity examples of `Props/C17Readers`) -/

/-- the reader returned an object with exactly the keys `keys`, the constructor accepts it, `m.e` is a declared
entry point and every name of its guaranteed list is a key of the object and set on the constructed object -/
def witnessOk (decl : List Iodata.Select.Declared) (r : Out RObj) (m e : Str) (keys : List Str) : Bool :=
  match r.res with
  | .ok o =>
    o.keys == keys && ctorOk o && (guaranteedOf decl m e).isSome &&
      ((guaranteedOf decl m e).getD []).all fun a => hasKeyB o a && isSetB o a
  | .error _ => false

def xyzH2 : List Str :=
  [['2','\n'],
   ['h','y','d','r','o','g','e','n','\n'],
   ['H',' ','0','.','0',' ','0','.','0',' ','0','.','0','\n'],
   ['h',' ','0','.','0',' ','0','.','0',' ','0','.','7','4','\n']]

def sdfIon : List Str :=
  [['x','\n'],
   ['\n'],
   ['\n'],
   [' ',' ','1',' ',' ','0',' ','v','2','0','0','0','\n'],
   [' ',' ',' ',' ','1','.','0',' ',' ',' ',' ',' ',' ',' ','2','.','0',' ',' ',' ',' ',' ',' ',' ','3','.','0',' ',' ',' ',' ','c','l','\n'],
   ['M',' ',' ','E','N','D','\n'],
   ['$','$','$','$','\n']]

def sdfOH : List Str :=
  [['o','h','\n'],
   ['\n'],
   ['\n'],
   [' ',' ','2',' ',' ','1',' ',' ','0',' ',' ','0',' ',' ','0',' ',' ','0',' ',' ','0',' ',' ','0',' ',' ','0',' ',' ','0','9','9','9',' ','V','2','0','0','0','\n'],
   [' ',' ',' ',' ','0','.','0','0','0','0',' ',' ',' ',' ','0','.','0','0','0','0',' ',' ',' ',' ','0','.','1','0','0','0',' ','O',' ',' ',' ','0','\n'],
   [' ',' ',' ',' ','0','.','7','0','0','0',' ',' ',' ',' ','0','.','0','0','0','0',' ',' ',' ','-','0','.','4','0','0','0',' ','H',' ',' ',' ','0','\n'],
   [' ',' ','1',' ',' ','2',' ',' ','1',' ',' ','0','\n'],
   ['M',' ',' ','E','N','D','\n'],
   ['$','$','$','$','\n']]

def mol2NoBond : List Str :=
  [['@','<','T','R','I','P','O','S','>','M','O','L','E','C','U','L','E','\n'],
   ['m','\n'],
   [' ','1',' ','0','\n'],
   ['@','<','T','R','I','P','O','S','>','A','T','O','M','\n'],
   [' ','1',' ','C','L','1',' ','1','.','0',' ','2','.','0',' ','3','.','0',' ','C','l','\n']]

def mol2Bond : List Str :=
  [['@','<','T','R','I','P','O','S','>','M','O','L','E','C','U','L','E','\n'],
   ['m','\n'],
   [' ','2',' ','1','\n'],
   ['@','<','T','R','I','P','O','S','>','A','T','O','M','\n'],
   [' ','1',' ','O','1',' ','0',' ','0',' ','0','.','1',' ','O','.','3',' ','1',' ','W',' ','-','0','.','4','\n'],
   [' ','2',' ','H','1',' ','0','.','7',' ','0',' ','-','0','.','4',' ','H',' ','1',' ','W',' ','0','.','4','\n'],
   ['@','<','T','R','I','P','O','S','>','B','O','N','D','\n'],
   [' ','1',' ','1',' ','2',' ','1','\n']]

def pdbNoBond : List Str :=
  [['A','T','O','M',' ',' ',' ',' ',' ',' ','1',' ','C','L',' ',' ',' ','U','N','K',' ',' ',' ',' ',' ','1',' ',' ',' ',' ',' ',' ',' ','1','.','0','0','0',' ',' ',' ','2','.','0','0','0',' ',' ',' ','3','.','0','0','0',' ',' ','0','.','5','0',' ','1','0','.','0','0','\n'],
   ['E','N','D','\n']]

def pdbBond : List Str :=
  [['H','E','T','A','T','M',' ',' ',' ',' ','1',' ',' ','O',' ',' ',' ','H','O','H',' ','A',' ',' ',' ','1',' ',' ',' ',' ',' ',' ',' ','0','.','0','0','0',' ',' ',' ','0','.','0','0','0',' ',' ',' ','0','.','1','0','0',' ',' ','1','.','0','0',' ',' ','0','.','0','0',' ',' ',' ',' ',' ',' ',' ',' ',' ',' ',' ','O',' ',' ','\n'],
   ['H','E','T','A','T','M',' ',' ',' ',' ','2',' ',' ','H','1',' ',' ','H','O','H',' ','A',' ',' ',' ','1',' ',' ',' ',' ',' ',' ',' ','0','.','7','0','0',' ',' ',' ','0','.','0','0','0',' ',' ','-','0','.','4','0','0',' ',' ','1','.','0','0',' ',' ','0','.','0','0',' ',' ',' ',' ',' ',' ',' ',' ',' ',' ',' ','H',' ',' ','\n'],
   ['C','O','N','E','C','T',' ',' ',' ',' ','1',' ',' ',' ',' ','2','\n'],
   ['E','N','D','\n']]

def cubeH : List Str :=
  [['t','\n'],
   ['c','\n'],
   [' ','1',' ','0',' ','0',' ','0','\n'],
   [' ','1',' ','1',' ','0',' ','0','\n'],
   [' ','1',' ','0',' ','1',' ','0','\n'],
   [' ','2',' ','0',' ','0',' ','1','\n'],
   [' ','1',' ','1','.','0',' ','0',' ','0',' ','0','\n'],
   [' ','1','.','5',' ','-','2','.','5','\n']]

def groSol : List Str :=
  [['n','o',' ','t','i','m','e','\n'],
   [' ','2','\n'],
   [' ',' ',' ',' ','1','S','O','L',' ',' ',' ',' ',' ','O','W',' ',' ',' ',' ','1',' ',' ',' ','1','.','0','0','0','0',' ',' ',' ','2','.','0','0','0','0',' ',' ',' ','3','.','0','0','0','0','\n'],
   [' ',' ',' ',' ','1','S','O','L',' ',' ',' ',' ','H','W','1',' ',' ',' ',' ','2',' ',' ',' ','1','.','1','0','0','0',' ',' ',' ','2','.','1','0','0','0',' ',' ',' ','3','.','1','0','0','0','\n'],
   [' ',' ',' ','1','.','0',' ','2','.','0',' ','3','.','0','\n']]

def poscarBN : List Str :=
  [['c','u','b','i','c',' ','B','N','\n'],
   [' ','3','.','5','7','\n'],
   [' ','0','.','0',' ','0','.','5',' ','0','.','5','\n'],
   [' ','0','.','5',' ','0','.','0',' ','0','.','5','\n'],
   [' ','0','.','5',' ','0','.','5',' ','0','.','0','\n'],
   [' ','B',' ','N','\n'],
   [' ','1',' ','1','\n'],
   ['S','e','l','e','c','t','i','v','e','\n'],
   ['C','a','r','t','e','s','i','a','n','\n'],
   [' ','0','.','0','0',' ','0','.','0','0',' ','0','.','0','0',' ','T',' ','T',' ','F','\n'],
   [' ','0','.','2','5',' ','0','.','2','5',' ','0','.','2','5',' ','F',' ','F',' ','F','\n']]

def chgcarO : List Str :=
  [['O',' ','a','t','o','m','\n'],
   [' ','1','.','0','\n'],
   [' ','1','0','.','0',' ','0','.','0',' ','0','.','0','\n'],
   [' ','0','.','0',' ','1','0','.','0',' ','0','.','0','\n'],
   [' ','0','.','0',' ','0','.','0',' ','1','0','.','0','\n'],
   [' ','O','\n'],
   [' ','1','\n'],
   ['D','i','r','e','c','t','\n'],
   [' ','0','.','0',' ','0','.','0',' ','0','.','0','\n'],
   [' ','\n'],
   [' ','2',' ','1',' ','2','\n'],
   [' ','0','.','7','8','E','+','0','4',' ','0','.','7','6','E','+','0','4',' ','0','.','6','9','E','+','0','4','\n'],
   [' ','0','.','5','7','E','+','0','4','\n'],
   ['a','u','g','m','e','n','t','a','t','i','o','n','\n']]

def crdTwo : List Str :=
  [['*',' ','t','w','o',' ','a','t','o','m','s','\n'],
   ['*','\n'],
   [' ',' ',' ',' ','2','\n'],
   [' ','1',' ','1',' ','T','H','R',' ','N',' ','-','3','.','8','5',' ','-','7','.','0','4',' ','4','.','6','2',' ','M','A','I','N',' ','1',' ','1','4','.','0','0','7','\n'],
   [' ','2',' ','1',' ','T','H','R',' ','H','T','1',' ','-','4','.','1','5',' ','-','6','.','5','6',' ','5','.','4','9',' ','M','A','I','N',' ','1',' ','1','.','0','0','8','\n']]

end Iodata.Rd
