/- Helper lemmas for C08 (dump side of the API flow): later-frame loop, writer of `dump_many`, master
   characterisations of `dump_one`, `dump_many`, `write_input`. -/
import Iodata.Lemmas.Flow
set_option linter.unusedSimpArgs false
namespace Iodata.Flow
open Ref

theorem hasattrB_prepare (b : Beh) : hasattrB b "prepare_dump" = b.hasPrepare := by simp [hasattrB]

theorem outOf_ne_ret (o : Option Exc) : outOf o ≠ .ret := by cases o <;> simp [outOf]

theorem doWrites_eq (path : Nat) (w : WriteB) (st : St) :
    doWrites path w st = (outOf w.fail, { st with fs := appendToks st.fs path st.nw w.n,
                                                   trace := wEvs st.nw w.n ++ st.trace, nw := st.nw + w.n }) := by
  unfold doWrites; rw [writeN_eq]; cases w.fail <;> rfl

/-- events that are neither `open` nor `close` -/
def MidEvs (evs : List Ev) : Prop := ∀ ev ∈ evs, ev ≠ .openW ∧ ev ≠ .close

theorem MidEvs.nil : MidEvs [] := by intro _ h; cases h
theorem MidEvs.append {a b : List Ev} (ha : MidEvs a) (hb : MidEvs b) : MidEvs (a ++ b) := by
  intro ev h; rcases List.mem_append.mp h with h | h
  · exact ha ev h
  · exact hb ev h
theorem MidEvs.wEvs (k n : Nat) : MidEvs (wEvs k n) := by
  intro ev h; obtain ⟨t, rfl⟩ := mem_wEvs k n ev h; simp
theorem MidEvs.ofPre {evs : List Ev} (h : PreEvs evs) : MidEvs evs := by
  intro ev hm; rcases h ev hm with rfl | rfl <;> simp

/-- raw exception of processing one later frame in `checking_iterator` + the writer's work on it -/
def frameExc (b : Beh) (f : Frame) : Option Exc :=
  match preFault b f with
  | some e => some e
  | none => f.w.fail

def frameWrites (b : Beh) (f : Frame) : Nat :=
  match preFault b f with
  | some _ => 0
  | none => f.w.n

theorem exec_later (env : Env) (f : Frame) (s : St) :
    ∃ s', exec env laterBody { s with cur := f } = (outOf (frameExc env.b f), s')
      ∧ s'.fs = appendToks s.fs env.path s.nw (frameWrites env.b f)
      ∧ s'.nw = s.nw + frameWrites env.b f
      ∧ ∃ evs, s'.trace = evs ++ s.trace ∧ MidEvs evs := by
  obtain ⟨k, hk⟩ := checkSt_trace f.attrs { s with cur := f }
  dsimp only at hk
  have hrep : MidEvs (List.replicate k Ev.getattr) := by
    intro ev hev; rw [List.eq_of_mem_replicate hev]; simp
  have hrep1 : MidEvs (Ev.prep :: List.replicate k Ev.getattr) := by
    intro ev hev
    rcases List.mem_cons.mp hev with rfl | h
    · simp
    · exact hrep ev h
  unfold laterBody
  rw [exec_seq]
  have hin : exec env (.inl "_check_required" ["filename", "other", "format_module.dump_many"] checkRequired)
      { s with cur := f } = (outOf (checkExc f.attrs), checkSt f.attrs { s with cur := f }) := by
    rw [exec, exec_check]; cases checkExc f.attrs <;> rfl
  rw [hin]
  cases hc : checkExc f.attrs with
  | some e =>
    have h1 : frameExc env.b f = some e := by simp [frameExc, preFault, hc]
    have h2 : frameWrites env.b f = 0 := by simp [frameWrites, preFault, hc]
    rw [h1, h2]
    exact ⟨_, rfl, by simp [appendToks], by simp, _, hk, hrep⟩
  | none =>
    dsimp only [outOf]
    rw [exec_seq]
    cases hp : env.b.hasPrepare with
    | false =>
      have h1 : frameExc env.b f = f.w.fail := by simp [frameExc, preFault, hc, hp]
      have h2 : frameWrites env.b f = f.w.n := by simp [frameWrites, preFault, hc, hp]
      rw [h1, h2]
      simp only [exec, hasattrB_prepare, hp, ↓reduceIte, Bool.false_eq_true, doWrites_eq, checkSt_cur, checkSt_fs, checkSt_nw]
      refine ⟨_, rfl, rfl, rfl, wEvs s.nw f.w.n ++ List.replicate k Ev.getattr, ?_, (MidEvs.wEvs _ _).append hrep⟩
      simp [hk]
    | true =>
      cases hq : f.prep with
      | some e =>
        have h1 : frameExc env.b f = some e := by simp [frameExc, preFault, hc, hp, hq]
        have h2 : frameWrites env.b f = 0 := by simp [frameWrites, preFault, hc, hp, hq]
        rw [h1, h2]
        simp only [exec, hasattrB_prepare, hp, ↓reduceIte, Bool.false_eq_true, execCall, raiseB, checkSt_cur, hq]
        exact ⟨_, rfl, by simp [appendToks], by simp, .prep :: List.replicate k Ev.getattr, by simp [hk], hrep1⟩
      | none =>
        have h1 : frameExc env.b f = f.w.fail := by simp [frameExc, preFault, hc, hp, hq]
        have h2 : frameWrites env.b f = f.w.n := by simp [frameWrites, preFault, hc, hp, hq]
        rw [h1, h2]
        simp only [exec, hasattrB_prepare, hp, ↓reduceIte, Bool.false_eq_true, execCall, raiseB, checkSt_cur, hq, doWrites_eq, checkSt_fs, checkSt_nw]
        exact ⟨_, rfl, rfl, rfl, wEvs s.nw f.w.n ++ .prep :: List.replicate k Ev.getattr, by simp [hk],
          (MidEvs.wEvs _ _).append hrep1⟩

def loopExc (b : Beh) : List Frame → Option Exc
  | [] => none
  | f :: fs =>
    match frameExc b f with
    | some e => some e
    | none => loopExc b fs

def loopWrites (b : Beh) : List Frame → Nat
  | [] => 0
  | f :: fs =>
    frameWrites b f + (match frameExc b f with
      | some _ => 0
      | none => loopWrites b fs)

theorem later_loop (env : Env) (frames : List Frame) (s : St) :
    ∃ s', loopL (fun f s => exec env laterBody { s with cur := f }) frames s = (outOf (loopExc env.b frames), s')
      ∧ s'.fs = appendToks s.fs env.path s.nw (loopWrites env.b frames)
      ∧ s'.nw = s.nw + loopWrites env.b frames
      ∧ ∃ evs, s'.trace = evs ++ s.trace ∧ MidEvs evs := by
  induction frames generalizing s with
  | nil => exact ⟨s, rfl, rfl, rfl, [], rfl, MidEvs.nil⟩
  | cons f fs ih =>
    obtain ⟨s1, h1, hfs1, hnw1, evs1, htr1, hm1⟩ := exec_later env f s
    simp only [loopL, h1, loopExc, loopWrites]
    cases hf : frameExc env.b f with
    | some e => exact ⟨s1, by simp [outOf], by simpa using hfs1, by simpa using hnw1, evs1, htr1, hm1⟩
    | none =>
      obtain ⟨s2, h2, hfs2, hnw2, evs2, htr2, hm2⟩ := ih s1
      refine ⟨s2, by simp [outOf, h2], ?_, ?_, evs2 ++ evs1, ?_, hm2.append hm1⟩
      · rw [hfs2, hfs1, hnw1, appendToks_add]
      · rw [hnw2, hnw1]; simp [Nat.add_assoc]
      · rw [htr2, htr1]; simp

/-- `except (PrepareDumpError, DumpError): raise / except Exception: raise DumpError` -/
def funnelMany (e : Exc) : Exc :=
  if e = .prepareDump then .prepareDump else if e.isException then .dump else e

theorem execH_many (env : Env) (e : Exc) (st : St) :
    ∃ st', execH env manyHandlers e none st = (.raised (funnelMany e) none, st')
      ∧ st'.fs = st.fs ∧ st'.trace = st.trace := by
  cases e <;> simp [manyHandlers, execH, Pat.matches, Exc.isException, funnelMany, exec]

def seqRes (a b : Option Exc × Nat) : Option Exc × Nat :=
  match a.1 with
  | some e => (some e, a.2)
  | none => (b.1, a.2 + b.2)

/-- raw exception leaving the writer of `dump_many` and the number of completed `write` calls -/
def consumeRes (b : Beh) (f0 : Frame) (rest : List Frame) : Option Exc × Nat :=
  seqRes (b.pre.fail, b.pre.n) (seqRes (f0.w.fail, f0.w.n)
    (seqRes (loopExc b rest, loopWrites b rest) (seqRes (endOf b.iterEnd, 0) (b.post.fail, b.post.n))))

theorem exec_forEach_iter (env : Env) (v : String) (body : Stmt) (st : St) :
    exec env (.forEach .iterData v body) st =
      match loopL (fun f s => exec env body { s with cur := f }) st.rest { st with rest := [] } with
      | (.normal, st') => raiseB (endOf env.b.iterEnd) st'
      | r => r := by
  rw [exec]
  rcases loopL (fun f s => exec env body { s with cur := f }) st.rest { st with rest := [] } with ⟨o, s⟩
  cases o <;> rfl

theorem exec_consume (env : Env) (c : Callee) (args : List String) (st : St) :
    ∃ st', exec env (.consume c args checkingIterator) st = (outOf (consumeRes env.b st.cur st.rest).1, st')
      ∧ st'.fs = appendToks st.fs env.path st.nw (consumeRes env.b st.cur st.rest).2
      ∧ ∃ evs, st'.trace = evs ++ st.trace ∧ MidEvs evs := by
  unfold consumeRes
  rw [exec, doWrites_eq]
  cases hpre : env.b.pre.fail with
  | some e =>
    exact ⟨_, rfl, by simp [seqRes], _, rfl, MidEvs.wEvs _ _⟩
  | none =>
    dsimp only [outOf]
    unfold checkingIterator
    rw [exec_seq, exec, doWrites_eq]
    dsimp only
    cases hf0 : st.cur.w.fail with
    | some e =>
      refine ⟨_, rfl, by simp [seqRes, hf0, appendToks_add], wEvs (st.nw + env.b.pre.n) st.cur.w.n ++ wEvs st.nw env.b.pre.n,
        by simp, (MidEvs.wEvs _ _).append (MidEvs.wEvs _ _)⟩
    | none =>
      dsimp only [outOf]
      rw [exec_forEach_iter]
      dsimp only
      obtain ⟨s2, h2, hfs2, hnw2, evs2, htr2, hm2⟩ := later_loop env st.rest
        { fs := appendToks (appendToks st.fs env.path st.nw env.b.pre.n) env.path (st.nw + env.b.pre.n) st.cur.w.n,
          trace := wEvs (st.nw + env.b.pre.n) st.cur.w.n ++ (wEvs st.nw env.b.pre.n ++ st.trace),
          nw := st.nw + env.b.pre.n + st.cur.w.n, cur := st.cur, rest := [], attr := st.attr, item := st.item,
          lit := st.lit, yields := st.yields, exc := st.exc }
      dsimp only at hfs2 hnw2 htr2
      rw [h2]
      have hm12 : MidEvs (evs2 ++ (wEvs (st.nw + env.b.pre.n) st.cur.w.n ++ wEvs st.nw env.b.pre.n)) :=
        hm2.append ((MidEvs.wEvs _ _).append (MidEvs.wEvs _ _))
      cases hl : loopExc env.b st.rest with
      | some e =>
        refine ⟨s2, rfl, ?_, _, by rw [htr2]; simp, hm12⟩
        rw [hfs2]; simp [seqRes, hf0, hl, appendToks_add, Nat.add_assoc]
      | none =>
        dsimp only [outOf]
        cases hi : endOf env.b.iterEnd with
        | some e =>
          refine ⟨s2, rfl, ?_, _, by rw [htr2]; simp, hm12⟩
          rw [hfs2]; simp [seqRes, hf0, hl, hi, appendToks_add, Nat.add_assoc]
        | none =>
          dsimp only [raiseB]
          rw [doWrites_eq]
          refine ⟨_, rfl, ?_, wEvs s2.nw env.b.post.n ++ (evs2 ++ (wEvs (st.nw + env.b.pre.n) st.cur.w.n ++ wEvs st.nw env.b.pre.n)),
            by simp [htr2], (MidEvs.wEvs _ _).append hm12⟩
          simp only [hfs2, hnw2]
          simp [seqRes, hf0, hl, hi, appendToks_add, Nat.add_assoc]


def firstNextExc (b : Beh) : Exc :=
  match b.iterEnd with
  | none => .dump
  | some e => if e = .stopIter then .dump else e

def manyOut (b : Beh) (frames : List Frame) : Out :=
  match b.select with
  | some e => .raised e none
  | none =>
    match frames with
    | [] => .raised (firstNextExc b) none
    | f0 :: rest =>
      match preExc b f0 with
      | some e => .raised e none
      | none =>
        match b.openFail with
        | some e => .raised e none
        | none =>
          match (consumeRes b f0 rest).1 with
          | none => .normal
          | some e => .raised (funnelMany e) none

theorem exec_try (env : Env) (body : Stmt) (hs : Handlers) (st : St) :
    exec env (.try_ body hs) st = match exec env body st with
      | (.raised e ln, st') => execH env hs e ln st'
      | r => r := by
  rw [exec]; rcases exec env body st with ⟨o, s⟩; cases o <;> rfl

theorem dump_many_master (b : Beh) (frames : List Frame) (path : Nat) (fs : FS) :
    ∃ st', runMany dumpMany b frames path fs = (manyOut b frames, st') ∧
      match frames with
      | [] => st'.fs = fs ∧ st'.trace = []
      | f0 :: rest =>
        ∃ evs, PreEvs evs ∧
          if (b.select.isNone && (preExc b f0).isNone && b.openFail.isNone) = true then
            st'.fs = appendToks (fsSet fs path []) path 0 (consumeRes b f0 rest).2 ∧
            ∃ mid, MidEvs mid ∧ st'.trace = .close :: (mid ++ .openW :: evs)
          else st'.fs = fs ∧ st'.trace = evs := by
  unfold runMany dumpMany manyOut
  have hnil : PreEvs [] := by intro _ h; cases h
  cases hs : b.select with
  | some e =>
    refine ⟨{ fs := fs, rest := frames }, ?_, ?_⟩
    · rw [exec_seq]; simp [exec, execCall, raiseB, hs]
    · cases frames with
      | nil => exact ⟨rfl, rfl⟩
      | cons f0 rest => exact ⟨[], hnil, by simp⟩
  | none =>
    have e1 : exec { b := b, path := path } (.call (.select "dump_many") ["filename", "'dump_many'", "fmt"] "format_module")
        { fs := fs, rest := frames } = (.normal, { fs := fs, rest := frames }) := by
      simp [exec, execCall, raiseB, hs]
    have e2 : exec { b := b, path := path } (.call .iterOf ["iter_data"] "iter_data")
        { fs := fs, rest := frames } = (.normal, { fs := fs, rest := frames }) := by
      simp [exec, execCall]
    rw [exec_seq, e1]; dsimp only
    rw [exec_seq, e2]; dsimp only
    rw [exec_seq, exec_try]
    cases frames with
    | nil =>
      refine ⟨{ fs := fs, rest := [], exc := if firstNextExc b = .dump ∧ b.iterEnd.getD .stopIter = .stopIter
                                         then some (.stopIter, none) else none }, ?_, rfl, rfl⟩
      cases hi : b.iterEnd with
      | none => simp [exec, execCall, execH, Pat.matches, firstNextExc, hi]
      | some e => cases e <;> simp [exec, execCall, execH, Pat.matches, firstNextExc, hi]
    | cons f0 rest =>
      have e3 : exec { b := b, path := path } (.call .nextFrame ["iter_data"] "first") { fs := fs, rest := f0 :: rest }
          = (.normal, { fs := fs, cur := f0, rest := rest }) := by
        simp [exec, execCall]
      rw [e3]; dsimp only
      obtain ⟨st1, h1, hfs, hnw, hcur, hrest, evs, htr, hev⟩ :=
        exec_preflight { b := b, path := path } "first" "format_module.dump_many" "first" { fs := fs, cur := f0, rest := rest }
      dsimp only at h1 hfs hnw hcur hrest htr
      rw [exec_seq, h1]
      cases hp : preExc b f0 with
      | some e =>
        refine ⟨st1, by simp [outOf], evs, hev, ?_⟩
        simp [hfs, htr]
      | none =>
        dsimp only [outOf]
        cases ho : b.openFail with
        | some e =>
          refine ⟨st1, by simp [exec, ho], evs, hev, ?_⟩
          simp [hfs, htr]
        | none =>
          rw [exec]; dsimp only; rw [ho]; dsimp only
          rw [exec_try]
          obtain ⟨st2, h2, hfs2, mid, htr2, hmid⟩ := exec_consume { b := b, path := path }
            (.writer "dump_many") ["f", "checking_iterator()", "**kwargs"] (openFile path .w st1)
          have hc1 : (openFile path .w st1).cur = f0 := hcur
          have hr1 : (openFile path .w st1).rest = rest := hrest
          have hf1 : (openFile path .w st1).fs = fsSet fs path [] := by
            show fsSet st1.fs path [] = _; rw [hfs]
          have hn1 : (openFile path .w st1).nw = 0 := hnw
          have ht1 : (openFile path .w st1).trace = .openW :: evs := by
            show Ev.openW :: st1.trace = _; rw [htr]; simp
          dsimp only at h2 hfs2
          rw [hc1, hr1] at h2
          rw [hc1, hr1, hf1, hn1] at hfs2
          rw [ht1] at htr2
          rw [h2]
          cases hc : (consumeRes b f0 rest).1 with
          | none =>
            refine ⟨_, rfl, evs, hev, ?_⟩
            simp only [Option.isNone_none, Bool.and_self, if_true]
            exact ⟨hfs2, mid, hmid, by simp [outOf, htr2]⟩
          | some e =>
            dsimp only [outOf]
            obtain ⟨st3, h3, hfs3, htr3⟩ := execH_many { b := b, path := path } e st2
            rw [h3]
            refine ⟨_, rfl, evs, hev, ?_⟩
            simp only [Option.isNone_none, Bool.and_self, if_true]
            exact ⟨by rw [hfs3, hfs2], mid, hmid, by simp [htr3, htr2]⟩


/-- `except Exception: raise WriteInputError` -/
def funnelInput (e : Exc) : Exc := if e.isException then .writeInput else e

def inputOut (b : Beh) (f : Frame) : Out :=
  match b.select with
  | some e => .raised e none
  | none =>
    match b.openFail with
    | some e => .raised e none
    | none =>
      match f.w.fail with
      | none => .normal
      | some e => .raised (funnelInput e) none

theorem write_input_master (b : Beh) (f : Frame) (path : Nat) (fs : FS) :
    ∃ st', runOne writeInput b f path fs = (inputOut b f, st') ∧
      if (b.select.isNone && b.openFail.isNone) = true then
        st'.fs = appendToks (fsSet fs path []) path 0 f.w.n ∧
        st'.trace = .close :: (wEvs 0 f.w.n ++ [.openW])
      else st'.fs = fs ∧ st'.trace = [] := by
  unfold runOne writeInput inputOut
  cases hs : b.select with
  | some e =>
    refine ⟨{ fs := fs, cur := f }, ?_, by simp⟩
    rw [exec_seq]; simp [exec, execCall, raiseB, hs]
  | none =>
    have e1 : exec { b := b, path := path } (.call .selectInput ["filename", "fmt"] "input_module")
        { fs := fs, cur := f } = (.normal, { fs := fs, cur := f }) := by
      simp [exec, execCall, raiseB, hs]
    rw [exec_seq, e1]; dsimp only
    cases ho : b.openFail with
    | some e => exact ⟨{ fs := fs, cur := f }, by simp [exec, ho], by simp⟩
    | none =>
      cases hf : f.w.fail with
      | none =>
        refine ⟨_, by simp [exec, ho, execCall, doWrites_eq, hf, outOf, openFile]; rfl, ?_⟩
        simp
      | some e =>
        cases e <;>
        exact ⟨_, by simp [exec, ho, execCall, doWrites_eq, hf, outOf, openFile, execH, Pat.matches,
          Exc.isException, funnelInput]; rfl, by simp⟩

end Iodata.Flow
