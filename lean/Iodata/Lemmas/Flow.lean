/-
Reference terms (hand-written transcription of api.py, the terms the inductive proofs are about; the
generated terms of `Gen/ApiFlow.lean` are tied to them by `decide` in the Props files) and helper lemmas
about the semantics of `Model/Flow.lean`.
-/
import Iodata.Model.Flow

namespace Iodata.Flow.Ref
open Iodata.Flow

/-- api.py `_check_required` -/
def checkRequired : Stmt :=
  .forEach .required "dump_func.required -> attr_name"
    (.ifNone "getattr(data, attr_name)" (.raise_ .prepareDump ["filename"]))

def preflightHandlers : Handlers :=
  .cons (.cls [.prepareDump]) .reraise
    (.cons .anyException (.raise_ .prepareDump ["filename", "from exc"]) .nil)

/-- the pre-flight block of `dump_one` / `dump_many` -/
def preflight (obj fn tgt : String) : Stmt :=
  .try_
    (.seq (.inl "_check_required" ["filename", obj, fn] checkRequired)
      (.ifHasattr "format_module" "prepare_dump"
        (.call .prepare [obj, "allow_changes", "filename"] tgt) .skip))
    preflightHandlers

/-- api.py `dump_one` -/
def dumpOne : Stmt :=
  .seq (.call (.select "dump_one") ["filename", "'dump_one'", "fmt"] "format_module")
  (.seq (preflight "data" "format_module.dump_one" "data")
  (.seq (.withOpen .w "filename" "f"
      (.try_ (.call (.writer "dump_one") ["f", "data", "**kwargs"] "")
        (.cons (.cls [.dump]) .reraise
          (.cons .anyException (.raise_ .dump ["filename", "from exc"]) .nil))))
    (.ret "data")))

/-- the body of the local generator `checking_iterator` of `dump_many` -/
def laterBody : Stmt :=
  .seq (.inl "_check_required" ["filename", "other", "format_module.dump_many"] checkRequired)
    (.seq (.ifHasattr "format_module" "prepare_dump"
        (.call .prepare ["other", "allow_changes", "filename"] "") .skip)
      (.yield_ .writer
        "format_module.prepare_dump(other, allow_changes, filename) if hasattr(format_module, 'prepare_dump') else other"))

def checkingIterator : Stmt :=
  .seq (.yield_ .writer "first") (.forEach .iterData "iter_data -> other" laterBody)

def manyHandlers : Handlers :=
  .cons (.cls [.prepareDump, .dump]) .reraise
    (.cons .anyException (.raise_ .dump ["filename", "from exc"]) .nil)

/-- api.py `dump_many` -/
def dumpMany : Stmt :=
  .seq (.call (.select "dump_many") ["filename", "'dump_many'", "fmt"] "format_module")
  (.seq (.call .iterOf ["iter_data"] "iter_data")
  (.seq (.try_ (.call .nextFrame ["iter_data"] "first")
      (.cons (.cls [.stopIter]) (.raise_ .dump ["filename", "from exc"]) .nil))
  (.seq (preflight "first" "format_module.dump_many" "first")
    (.withOpen .w "filename" "f"
      (.try_ (.consume (.writer "dump_many") ["f", "checking_iterator()", "**kwargs"] checkingIterator)
        manyHandlers)))))

/-- api.py `write_input` -/
def writeInput : Stmt :=
  .seq (.call .selectInput ["filename", "fmt"] "input_module")
    (.withOpen .w "filename" "fh"
      (.try_ (.call (.writer "write_input") ["fh", "data", "template", "atom_line", "**kwargs"] "")
        (.cons .anyException (.raise_ .writeInput ["filename", "from exc"]) .nil)))

/-- api.py `load_one` -/
def loadOne : Stmt :=
  .seq (.call (.select "load_one") ["filename", "'load_one'", "fmt"] "format_module")
    (.withOpen .r "filename" "lit"
      (.try_
        (.seq (.call (.parse "load_one") ["lit", "**kwargs"] "")
          (.seq (.call .ctor ["**format_module.load_one(lit, **kwargs)"] "")
            (.ret "IOData(**format_module.load_one(lit, **kwargs))")))
        (.cons (.cls [.load]) .reraise
          (.cons (.cls [.stopIter]) (.raise_ .load ["lit", "from exc"])
            (.cons .anyException (.raise_ .load ["lit", "from exc"]) .nil)))))

def loadManyHandlers : Handlers :=
  .cons (.cls [.stopIter]) (.ret "")
    (.cons (.cls [.load]) .reraise
      (.cons .anyException (.raise_ .load ["lit", "from exc"]) .nil))

def loadManyBody : Stmt :=
  .seq (.call .ctor ["**data"] "") (.yield_ .user "IOData(**data)")

/-- api.py `load_many` -/
def loadMany : Stmt :=
  .seq (.call (.select "load_many") ["filename", "'load_many'", "fmt"] "format_module")
    (.withOpen .r "filename" "lit"
      (.try_ (.forEach .fmtMany "format_module.load_many(lit, **kwargs) -> data" loadManyBody)
        loadManyHandlers))

end Iodata.Flow.Ref

namespace Iodata.Flow
open Ref

/-- outcome of the `_check_required` loop -/
def checkExc : List AttrB → Option Exc
  | [] => none
  | .val :: as => checkExc as
  | .none :: _ => some .prepareDump
  | .raises e :: _ => some e

/-- state after the `_check_required` loop -/
def checkSt : List AttrB → St → St
  | [], st => st
  | .val :: as, st => checkSt as { st with attr := .val, trace := .getattr :: st.trace }
  | a :: _, st => { st with attr := a, trace := .getattr :: st.trace }

def outOf : Option Exc → Out
  | none => .normal
  | some e => .raised e none

def checkStep (env : Env) (x : String) : AttrB → St → Res :=
  fun a s => exec env (.ifNone x (.raise_ .prepareDump ["filename"])) { s with attr := a }

theorem check_loop (env : Env) (x : String) (as : List AttrB) (st : St) :
    loopL (checkStep env x) as st = (outOf (checkExc as), checkSt as st) := by
  induction as generalizing st with
  | nil => rfl
  | cons a as ih =>
    cases a with
    | val =>
      have h : checkStep env x .val st = (.normal, { st with attr := .val, trace := .getattr :: st.trace }) := by
        simp [checkStep, exec]
      simp only [loopL, h, ih, checkExc, checkSt]
    | none =>
      have h : checkStep env x .none st = (.raised .prepareDump none, { st with attr := .none, trace := .getattr :: st.trace }) := by
        simp [checkStep, exec]
      simp only [loopL, h, checkExc, checkSt, outOf]
    | raises e =>
      have h : checkStep env x (.raises e) st = (.raised e none, { st with attr := .raises e, trace := .getattr :: st.trace }) := by
        simp [checkStep, exec]
      simp only [loopL, h, checkExc, checkSt, outOf]

theorem exec_check (env : Env) (st : St) :
    exec env checkRequired st = (outOf (checkExc st.cur.attrs), checkSt st.cur.attrs st) := by
  show loopL (checkStep env "getattr(data, attr_name)") st.cur.attrs st = _
  exact check_loop env _ _ st

@[simp] theorem checkSt_fs (as : List AttrB) (st : St) : (checkSt as st).fs = st.fs := by
  induction as generalizing st with
  | nil => rfl
  | cons a as ih => cases a <;> simp [checkSt, ih]
@[simp] theorem checkSt_nw (as : List AttrB) (st : St) : (checkSt as st).nw = st.nw := by
  induction as generalizing st with
  | nil => rfl
  | cons a as ih => cases a <;> simp [checkSt, ih]
@[simp] theorem checkSt_cur (as : List AttrB) (st : St) : (checkSt as st).cur = st.cur := by
  induction as generalizing st with
  | nil => rfl
  | cons a as ih => cases a <;> simp [checkSt, ih]
@[simp] theorem checkSt_rest (as : List AttrB) (st : St) : (checkSt as st).rest = st.rest := by
  induction as generalizing st with
  | nil => rfl
  | cons a as ih => cases a <;> simp [checkSt, ih]
theorem checkSt_trace (as : List AttrB) (st : St) :
    ∃ k, (checkSt as st).trace = List.replicate k .getattr ++ st.trace := by
  induction as generalizing st with
  | nil => exact ⟨0, rfl⟩
  | cons a as ih =>
    cases a with
    | val =>
      obtain ⟨k, hk⟩ := ih { st with attr := .val, trace := .getattr :: st.trace }
      refine ⟨k + 1, ?_⟩
      simp only [checkSt, hk]
      rw [List.replicate_succ', List.append_assoc]; rfl
    | none => exact ⟨1, rfl⟩
    | raises e => exact ⟨1, rfl⟩


/-- what the two `except` clauses of the pre-flight block make of an exception -/
def funnelPre (e : Exc) : Exc := if e.isException then .prepareDump else e

/-- outcome of the pre-flight block (`_check_required` + `prepare_dump` under the funnel) -/
def preExc (b : Beh) (f : Frame) : Option Exc :=
  match checkExc f.attrs with
  | some e => some (funnelPre e)
  | none => if b.hasPrepare then f.prep.map funnelPre else none

def PreEvs (evs : List Ev) : Prop := ∀ ev ∈ evs, ev = .getattr ∨ ev = .prep

theorem exec_preflight (env : Env) (obj fn tgt : String) (st : St) :
    ∃ st', exec env (preflight obj fn tgt) st = (outOf (preExc env.b st.cur), st')
      ∧ st'.fs = st.fs ∧ st'.nw = st.nw ∧ st'.cur = st.cur ∧ st'.rest = st.rest
      ∧ ∃ evs, st'.trace = evs ++ st.trace ∧ PreEvs evs := by
  obtain ⟨k, hk⟩ := checkSt_trace st.cur.attrs st
  have hrep : PreEvs (List.replicate k Ev.getattr) := by
    intro ev hev; exact Or.inl (List.eq_of_mem_replicate hev)
  have hrep1 : PreEvs (Ev.prep :: List.replicate k Ev.getattr) := by
    intro ev hev
    rcases List.mem_cons.mp hev with h | h
    · exact Or.inr h
    · exact Or.inl (List.eq_of_mem_replicate h)
  simp only [preflight, preflightHandlers, exec, exec_check, preExc]
  cases hc : checkExc st.cur.attrs with
  | some e =>
    cases e <;> simp [outOf, execH, Pat.matches, Exc.isException, funnelPre, exec] <;>
      exact ⟨_, hk, hrep⟩
  | none =>
    cases hp : env.b.hasPrepare with
    | false => simp [outOf, hasattrB, hp]; exact ⟨_, hk, hrep⟩
    | true =>
      cases hq : st.cur.prep with
      | none =>
        simp [outOf, hasattrB, hp, execCall, raiseB, hq]
        exact ⟨_, by rw [hk]; rfl, hrep1⟩
      | some e =>
        cases e <;> simp [outOf, hasattrB, hp, exec, execCall, raiseB, hq, execH, Pat.matches,
          Exc.isException, funnelPre] <;> exact ⟨_, by rw [hk]; rfl, hrep1⟩

end Iodata.Flow

namespace Iodata.Flow
open Ref

/-! ### writes -/

/-- file system after `n` further `write` calls (tokens `k, k+1, …`) on `path` -/
def appendToks (fs : FS) (path : Nat) : Nat → Nat → FS
  | _, 0 => fs
  | k, n + 1 => appendToks (fsAppend fs path k) path (k + 1) n

/-- the `write` events of those calls, newest first -/
def wEvs : Nat → Nat → List Ev
  | _, 0 => []
  | k, n + 1 => wEvs (k + 1) n ++ [.write k]

theorem writeN_eq (path n : Nat) (st : St) :
    writeN path n st = { st with fs := appendToks st.fs path st.nw n,
                                 trace := wEvs st.nw n ++ st.trace, nw := st.nw + n } := by
  induction n generalizing st with
  | zero => simp [writeN, appendToks, wEvs]
  | succ n ih =>
    simp only [writeN, ih, write1, appendToks, wEvs]
    simp [Nat.add_assoc, Nat.add_comm 1 n]

theorem appendToks_other (fs : FS) (path q k n : Nat) (h : q ≠ path) :
    appendToks fs path k n q = fs q := by
  induction n generalizing fs k with
  | zero => rfl
  | succ n ih => simp [appendToks, ih, fsAppend, h]

theorem appendToks_at (fs : FS) (path k n : Nat) :
    appendToks fs path k n path = if n = 0 then fs path else some ((fs path).getD [] ++ List.range' k n) := by
  induction n generalizing fs k with
  | zero => rfl
  | succ n ih =>
    simp only [appendToks, ih]
    cases n with
    | zero => simp [fsAppend]
    | succ m => simp [fsAppend, List.range'_succ]

theorem appendToks_add (fs : FS) (path k n m : Nat) :
    appendToks (appendToks fs path k n) path (k + n) m = appendToks fs path k (n + m) := by
  induction n generalizing fs k with
  | zero => simp [appendToks]
  | succ n ih =>
    have : n + 1 + m = (n + m) + 1 := by omega
    simp only [appendToks, this]
    rw [← ih]; congr 1; omega

theorem mem_wEvs (k n : Nat) (ev : Ev) (h : ev ∈ wEvs k n) : ∃ t, ev = .write t := by
  induction n generalizing k with
  | zero => simp [wEvs] at h
  | succ n ih =>
    simp only [wEvs, List.mem_append, List.mem_singleton] at h
    rcases h with h | h
    · exact ih _ h
    · exact ⟨k, h⟩

end Iodata.Flow

namespace Iodata.Flow
open Ref

/-- raw exception of the pre-flight steps (before the funnel) -/
def preFault (b : Beh) (f : Frame) : Option Exc :=
  match checkExc f.attrs with
  | some e => some e
  | none => if b.hasPrepare then f.prep else none

theorem preExc_eq (b : Beh) (f : Frame) : preExc b f = (preFault b f).map funnelPre := by
  unfold preExc preFault
  cases checkExc f.attrs <;> simp
  cases b.hasPrepare <;> simp

/-- what the `except DumpError: raise / except Exception: raise DumpError` funnel makes of an exception -/
def funnelDump (e : Exc) : Exc := if e.isException then .dump else e

/-- the write-phase block shared by `dump_one` (and, with another class, `write_input`) -/
theorem exec_writeOne (env : Env) (fn v : String) (args : List String) (st : St)
    (hopen : env.b.openFail = none) :
    exec env (.withOpen .w "filename" v
      (.try_ (.call (.writer fn) args "")
        (.cons (.cls [.dump]) .reraise
          (.cons .anyException (.raise_ .dump ["filename", "from exc"]) .nil)))) st
    = (outOf (st.cur.w.fail.map funnelDump),
       { st with fs := appendToks (fsSet st.fs env.path []) env.path st.nw st.cur.w.n,
                 trace := .close :: (wEvs st.nw st.cur.w.n ++ .openW :: st.trace),
                 nw := st.nw + st.cur.w.n,
                 exc := match st.cur.w.fail with
                        | none => st.exc
                        | some e => if e.isException then some (e, none) else st.exc }) := by
  simp only [exec, hopen, execCall, doWrites, writeN_eq, openFile, raiseB]
  cases hf : st.cur.w.fail with
  | none => simp [outOf]
  | some e => cases e <;> simp [outOf, execH, Pat.matches, Exc.isException, funnelDump, exec]

def dumpOneOut (b : Beh) (f : Frame) : Out :=
  match b.select with
  | some e => .raised e none
  | none =>
    match preExc b f with
    | some e => .raised e none
    | none =>
      match b.openFail with
      | some e => .raised e none
      | none =>
        match f.w.fail with
        | none => .ret
        | some e => .raised (funnelDump e) none

/-- did the call get as far as opening the target? -/
def opened (b : Beh) (f : Frame) : Bool := b.select.isNone && (preExc b f).isNone && b.openFail.isNone

theorem exec_seq (env : Env) (a b : Stmt) (st : St) :
    exec env (.seq a b) st = match exec env a st with
      | (.normal, st') => exec env b st'
      | r => r := by
  rw [exec]; rcases exec env a st with ⟨o, s⟩; cases o <;> rfl

theorem dump_one_master (b : Beh) (f : Frame) (path : Nat) (fs : FS) :
    ∃ st', runOne dumpOne b f path fs = (dumpOneOut b f, st') ∧
      ∃ evs, PreEvs evs ∧
        if opened b f then
          st'.fs = appendToks (fsSet fs path []) path 0 f.w.n ∧
          st'.trace = .close :: (wEvs 0 f.w.n ++ .openW :: evs)
        else st'.fs = fs ∧ st'.trace = evs := by
  unfold runOne dumpOne dumpOneOut opened
  have hnil : PreEvs [] := by intro _ h; cases h
  cases hs : b.select with
  | some e =>
    refine ⟨{ fs := fs, cur := f }, ?_, [], hnil, by simp⟩
    rw [exec_seq]; simp [exec, execCall, raiseB, hs]
  | none =>
    obtain ⟨st1, h1, hfs, hnw, hcur, -, evs, htr, hev⟩ :=
      exec_preflight { b := b, path := path } "data" "format_module.dump_one" "data" { fs := fs, cur := f }
    dsimp only at h1 hfs hnw hcur htr
    have e1 : exec { b := b, path := path } (.call (.select "dump_one") ["filename", "'dump_one'", "fmt"] "format_module")
        { fs := fs, cur := f } = (.normal, { fs := fs, cur := f }) := by
      simp [exec, execCall, raiseB, hs]
    rw [exec_seq, e1]; dsimp only
    rw [exec_seq, h1]
    cases hp : preExc b f with
    | some e =>
      refine ⟨st1, by simp [outOf], evs, hev, ?_⟩
      simp [hfs, htr]
    | none =>
      dsimp only [outOf]
      rw [exec_seq]
      cases ho : b.openFail with
      | some e =>
        refine ⟨st1, by simp [exec, ho], evs, hev, ?_⟩
        simp [hfs, htr]
      | none =>
        rw [exec_writeOne { b := b, path := path } "dump_one" "f" ["f", "data", "**kwargs"] st1 ho]
        cases hf : f.w.fail with
        | none =>
          refine ⟨_, by simp [outOf, hcur, hf, exec]; rfl, evs, hev, ?_⟩
          simp [hfs, hnw, htr]
        | some e =>
          refine ⟨_, by simp [outOf, hcur, hf]; rfl, evs, hev, ?_⟩
          simp [hfs, hnw, htr]

end Iodata.Flow
