/- Round-trip lemmas for `Model/Decimal.lean`, for all values, under the exact side conditions. -/
import Iodata.Lemmas.Chars
import Iodata.Model.Decimal
namespace Iodata.Decimal
open Iodata.Chars

def digitChars : List Char := ['0','1','2','3','4','5','6','7','8','9']

theorem digitChar_mem (n : Nat) : digitChar n ∈ digitChars := by
  unfold digitChar digitChars; split <;> simp

theorem digitChar_prop (P : Char → Prop) (h : ∀ c ∈ digitChars, P c) (n : Nat) : P (digitChar n) :=
  h _ (digitChar_mem n)

theorem isDigitA_digitChar (n : Nat) : isDigitA (digitChar n) = true :=
  digitChar_prop (fun c => isDigitA c = true) (by decide) n
theorem isWs_digitChar (n : Nat) : isWs (digitChar n) = false :=
  digitChar_prop (fun c => isWs c = false) (by decide) n
theorem digitChar_ne_nl (n : Nat) : digitChar n ≠ '\n' :=
  digitChar_prop (fun c => c ≠ '\n') (by decide) n
theorem digitChar_not_sign (n : Nat) : (digitChar n == '-') = false ∧ (digitChar n == '+') = false :=
  digitChar_prop (fun c => (c == '-') = false ∧ (c == '+') = false) (by decide) n

theorem charDigit_digitChar : ∀ n, n < 10 → charDigit? (digitChar n) = some n := by decide

/-- a string of decimal digits -/
def AllDigits (s : Str) : Prop := ∀ c ∈ s, c ∈ digitChars

theorem allDigits_append {a b : Str} (ha : AllDigits a) (hb : AllDigits b) : AllDigits (a ++ b) := by
  intro c h; rcases List.mem_append.mp h with h | h; exact ha c h; exact hb c h
theorem allDigits_single (n : Nat) : AllDigits [digitChar n] := by
  intro c h; simp at h; rw [h]; exact digitChar_mem n

theorem AllDigits.noWs {s : Str} (h : AllDigits s) : NoWs s := fun c hc =>
  (show ∀ c ∈ digitChars, isWs c = false by decide) c (h c hc)
theorem AllDigits.digitA {s : Str} (h : AllDigits s) : ∀ c ∈ s, isDigitA c = true := fun c hc =>
  (show ∀ c ∈ digitChars, isDigitA c = true by decide) c (h c hc)
theorem AllDigits.no_nl {s : Str} (h : AllDigits s) : '\n' ∉ s := fun hc =>
  absurd (h _ hc) (by decide)

theorem allDigits_natToDecF : ∀ f n, AllDigits (natToDecF f n) := by
  intro f; induction f with
  | zero => intro n c h; cases h
  | succ f ih =>
    intro n; unfold natToDecF; split
    · exact allDigits_single n
    · exact allDigits_append (ih _) (allDigits_single _)

theorem allDigits_natToDec (n : Nat) : AllDigits (natToDec n) := allDigits_natToDecF _ _

theorem allDigits_digitsW : ∀ w n, AllDigits (digitsW w n) := by
  intro w; induction w with
  | zero => intro n c h; cases h
  | succ w ih => intro n; exact allDigits_append (ih _) (allDigits_single _)

theorem length_digitsW : ∀ w n, (digitsW w n).length = w := by
  intro w; induction w with
  | zero => intro n; rfl
  | succ w ih => intro n; simp [digitsW, ih]

theorem natToDecF_ne_nil (f n : Nat) : natToDecF (f + 1) n ≠ [] := by
  unfold natToDecF; split <;> simp

theorem natToDec_ne_nil (n : Nat) : natToDec n ≠ [] := natToDecF_ne_nil n n

/-- the first character of `str(n)` is a digit -/
theorem natToDec_head (n : Nat) : ∃ c r, natToDec n = c :: r ∧ c ∈ digitChars := by
  have h := natToDec_ne_nil n
  cases e : natToDec n with
  | nil => exact absurd e h
  | cons c r => exact ⟨c, r, rfl, by have := allDigits_natToDec n; rw [e] at this; exact this c List.mem_cons_self⟩

theorem digitsValGo_append (a b : Str) : ∀ acc, digitsValGo acc (a ++ b) = (digitsValGo acc a).bind (fun x => digitsValGo x b) := by
  induction a with
  | nil => intro acc; rfl
  | cons c a ih =>
    intro acc; simp only [List.cons_append, digitsValGo]
    cases charDigit? c with
    | none => rfl
    | some d => exact ih _

theorem digitsVal_natToDecF : ∀ f n, n < f → digitsVal (natToDecF f n) = some n := by
  intro f; induction f with
  | zero => intro n h; omega
  | succ f ih =>
    intro n h; unfold natToDecF; split
    · rename_i h10; simp [digitsVal, digitsValGo, charDigit_digitChar n h10]
    · rename_i h10
      have h1 : n / 10 < f := by omega
      have := ih (n / 10) h1
      unfold digitsVal at this ⊢
      rw [digitsValGo_append, this]
      simp only [Option.bind, digitsValGo, charDigit_digitChar (n % 10) (by omega)]
      congr 1; omega

/-- `int(str(n)) == n` -/
theorem digitsVal_natToDec (n : Nat) : digitsVal (natToDec n) = some n :=
  digitsVal_natToDecF (n + 1) n (by omega)

theorem decToNat_natToDec (n : Nat) : decToNat? (natToDec n) = some n := by
  unfold decToNat?
  have : (natToDec n).isEmpty = false := by
    cases e : natToDec n with
    | nil => exact absurd e (natToDec_ne_nil n)
    | cons _ _ => rfl
  simp [this, digitsVal_natToDec]

theorem digitsVal_digitsW : ∀ w n, digitsVal (digitsW w n) = some (n % 10 ^ w) := by
  intro w; induction w with
  | zero => intro n; simp [digitsW, digitsVal, digitsValGo, Nat.mod_one]
  | succ w ih =>
    intro n
    have := ih (n / 10)
    unfold digitsVal at this ⊢
    simp only [digitsW]
    rw [digitsValGo_append, this]
    simp only [Option.bind, digitsValGo, charDigit_digitChar (n % 10) (by omega)]
    congr 1
    rw [Nat.pow_succ, Nat.mul_comm (10 ^ w) 10, Nat.mod_mul]; omega

theorem digitsVal_digitsW_lt (w n : Nat) (h : n < 10 ^ w) : digitsVal (digitsW w n) = some n := by
  rw [digitsVal_digitsW, Nat.mod_eq_of_lt h]

/-! ### takeWhile / dropWhile over a digit run -/

theorem takeWhile_run (p : Char → Bool) (a r : Str) (x : Char) (ha : ∀ c ∈ a, p c = true) (hx : p x = false) :
    (a ++ x :: r).takeWhile p = a ∧ (a ++ x :: r).dropWhile p = x :: r := by
  induction a with
  | nil => simp [hx]
  | cons c a ih =>
    have hc := ha c List.mem_cons_self
    have := ih (fun y hy => ha y (List.mem_cons_of_mem _ hy))
    simp [hc, this.1, this.2]

theorem takeWhile_all (p : Char → Bool) (a : Str) (ha : ∀ c ∈ a, p c = true) :
    a.takeWhile p = a ∧ a.dropWhile p = [] := by
  induction a with
  | nil => simp
  | cons c a ih =>
    have hc := ha c List.mem_cons_self
    have := ih (fun y hy => ha y (List.mem_cons_of_mem _ hy))
    simp [hc, this.1, this.2]

/-! ### signs -/

theorem splitSign_digits (s : Str) (h : ∃ c r, s = c :: r ∧ c ∈ digitChars) : splitSign s = (false, s) := by
  obtain ⟨c, r, rfl, hc⟩ := h
  have := (show ∀ c ∈ digitChars, (c == '-') = false ∧ (c == '+') = false by decide) c hc
  simp [splitSign, this.1, this.2]

theorem splitSign_neg (s : Str) : splitSign ('-' :: s) = (true, s) := by simp [splitSign]

/-! ### integers -/

theorem intToDec_noWs (i : Int) : NoWs (intToDec i) := by
  cases i with
  | ofNat n => exact (allDigits_natToDec n).noWs
  | negSucc n => exact noWs_cons (by decide) (allDigits_natToDec _).noWs

theorem intToDec_ne_nil (i : Int) : intToDec i ≠ [] := by
  cases i with
  | ofNat n => exact natToDec_ne_nil n
  | negSucc n => simp [intToDec]

theorem intToDec_no_nl (i : Int) : '\n' ∉ intToDec i := by
  cases i with
  | ofNat n => exact (allDigits_natToDec n).no_nl
  | negSucc n =>
    intro h; rcases List.mem_cons.mp h with h | h
    · exact absurd h (by decide)
    · exact (allDigits_natToDec _).no_nl h

/-- `int(pad + f"{i:d}" + pad') == i` for every integer -/
theorem pyInt_intToDec (p q : Str) (i : Int) (hp : AllWs p) (hq : AllWs q) :
    pyInt (p ++ (intToDec i ++ q)) = some i := by
  unfold pyInt
  rw [strip_noWs_pad p _ q hp hq (intToDec_noWs i)]
  cases i with
  | ofNat n =>
    simp [intToDec, splitSign_digits _ (natToDec_head n), decToNat_natToDec]
  | negSucc n =>
    simp [intToDec, splitSign_neg, decToNat_natToDec]
    rfl

theorem length_natToDecF_le : ∀ f n w, n < f → n < 10 ^ w → 0 < w → (natToDecF f n).length ≤ w := by
  intro f; induction f with
  | zero => intro n w h; omega
  | succ f ih =>
    intro n w h hw hpos; unfold natToDecF; split
    · simp; omega
    · rename_i h10
      obtain ⟨v, rfl⟩ : ∃ v, w = v + 1 := ⟨w - 1, by omega⟩
      have hv : 0 < v := by
        rcases Nat.eq_zero_or_pos v with h0 | h0
        · subst h0; simp at hw; omega
        · exact h0
      have : n / 10 < 10 ^ v := by
        rw [Nat.pow_succ] at hw; omega
      have := ih (n / 10) v (by omega) this hv
      simp; omega

/-- `str(n)` has at most `w` characters when `n < 10^w` -/
theorem length_natToDec_le (n w : Nat) (h : n < 10 ^ w) (hw : 0 < w) : (natToDec n).length ≤ w :=
  length_natToDecF_le (n + 1) n w (by omega) h hw

/-! ### fixed point -/

theorem fixDigits_noWs (d m : Nat) : NoWs (fixDigits d m) := by
  unfold fixDigits
  apply noWs_append (allDigits_natToDec _).noWs
  split
  · exact noWs_nil
  · exact noWs_cons (by decide) (allDigits_digitsW _ _).noWs

theorem fixDigits_head (d m : Nat) : ∃ c r, fixDigits d m = c :: r ∧ c ∈ digitChars := by
  obtain ⟨c, r, h, hc⟩ := natToDec_head (m / 10 ^ d)
  exact ⟨c, r ++ _, by unfold fixDigits; rw [h]; rfl, hc⟩

/-- parsing the digits part -/
theorem pyFix_digits (neg : Bool) (d m : Nat) :
    (let u := fixDigits d m
     let ip := u.takeWhile isDigitA
     match u.dropWhile isDigitA with
     | [] => if ip.isEmpty then none else (digitsVal ip).map (fun a => (⟨neg, a * 10 ^ d⟩ : Fx))
     | '.' :: fp =>
       if (ip.isEmpty && fp.isEmpty) || decide (d < fp.length) then none else
       match digitsVal ip, digitsVal fp with
       | some a, some b => some ⟨neg, a * 10 ^ d + b * 10 ^ (d - fp.length)⟩
       | _, _ => none
     | _ => none) = some ⟨neg, m⟩ := by
  have hA := (allDigits_natToDec (m / 10 ^ d)).digitA
  have hne : (natToDec (m / 10 ^ d)).isEmpty = false := by
    cases e : natToDec (m / 10 ^ d) with
    | nil => exact absurd e (natToDec_ne_nil _)
    | cons _ _ => rfl
  by_cases hd : d = 0
  · subst hd
    have := takeWhile_all isDigitA _ hA
    simp only [fixDigits, if_true, List.append_nil, this.1, this.2, hne]
    simp [digitsVal_natToDec]
  · have := takeWhile_run isDigitA (natToDec (m / 10 ^ d)) (digitsW d (m % 10 ^ d)) '.' hA (by decide)
    simp only [fixDigits, hd, if_false, this.1, this.2, hne, length_digitsW, Bool.false_and,
      Bool.false_or, Nat.lt_irrefl, decide_false, digitsVal_natToDec,
      digitsVal_digitsW_lt d (m % 10 ^ d) (Nat.mod_lt _ (Nat.pow_pos (by omega)))]
    simp only [Nat.sub_self, Nat.pow_zero, Nat.mul_one, Bool.false_eq_true, if_false]
    congr 2
    exact Nat.div_add_mod' m (10 ^ d)

/-- `float(pad + f"{x:w.df}" + pad')` re-quantised at `d` decimals is `x`, for every `x`
(any width, any padding, with or without the `' '` sign flag, including `-0.000`) -/
theorem pyFix_fixCore (sp : Bool) (d : Nat) (x : Fx) (p q : Str) (hp : AllWs p) (hq : AllWs q) :
    pyFix d (p ++ (fixCore sp d x ++ q)) = some x := by
  obtain ⟨neg, m⟩ := x
  have hstrip : strip (p ++ (fixCore sp d ⟨neg, m⟩ ++ q)) = (if neg then ['-'] else []) ++ fixDigits d m := by
    cases neg with
    | true =>
      simp only [fixCore, signStr, if_true]
      exact strip_noWs_pad p _ q hp hq (noWs_cons (by decide) (fixDigits_noWs d m))
    | false =>
      cases sp with
      | false =>
        simp only [fixCore, signStr, if_false, Bool.false_eq_true, List.nil_append]
        exact strip_noWs_pad p _ q hp hq (fixDigits_noWs d m)
      | true =>
        simp only [fixCore, signStr, if_true, if_false, Bool.false_eq_true, List.nil_append]
        have : p ++ ([' '] ++ fixDigits d m ++ q) = (p ++ [' ']) ++ (fixDigits d m ++ q) := by simp
        rw [this]
        exact strip_noWs_pad (p ++ [' ']) _ q (allWs_append hp (by decide)) hq (fixDigits_noWs d m)
  unfold pyFix
  rw [hstrip]
  cases neg with
  | true =>
    simp only [if_true, List.singleton_append, splitSign_neg]
    exact pyFix_digits true d m
  | false =>
    simp only [if_false, Bool.false_eq_true, List.nil_append, splitSign_digits _ (fixDigits_head d m)]
    exact pyFix_digits false d m

theorem pyFix_fmtFix (sp : Bool) (w d : Nat) (x : Fx) (q : Str) (hq : AllWs q) :
    pyFix d (fmtFix sp w d x ++ q) = some x := by
  unfold fmtFix rjust
  rw [List.append_assoc]
  exact pyFix_fixCore sp d x _ q (allWs_spaces _) hq

/-- no blank inside a rendered number without sign flag: it is one token for `split()` -/
theorem fixCore_noWs (d : Nat) (x : Fx) : NoWs (fixCore false d x) := by
  unfold fixCore signStr
  apply noWs_append _ (fixDigits_noWs d x.mag)
  cases x.neg <;> simp <;> first | exact noWs_nil | exact noWs_cons (by decide) noWs_nil

theorem fixCore_ne_nil (sp : Bool) (d : Nat) (x : Fx) : fixCore sp d x ≠ [] := by
  obtain ⟨c, r, h, _⟩ := fixDigits_head d x.mag
  unfold fixCore; rw [h]; simp

theorem length_fixDigits_le (d m v : Nat) (h : m < 10 ^ (v + d)) (hv : 0 < v) :
    (fixDigits d m).length ≤ v + (if d = 0 then 0 else d + 1) := by
  have : m / 10 ^ d < 10 ^ v := by
    rw [Nat.div_lt_iff_lt_mul (Nat.pow_pos (by omega)), ← Nat.pow_add]; exact h
  have := length_natToDec_le _ v this hv
  unfold fixDigits
  split <;> simp [length_digitsW] <;> omega

end Iodata.Decimal
