/- Helper lemmas for the VASP readers (C07, parser part): row counting of the coordinate loop, the shapes numpy
   builds, the value counter of the grid loop, and the line-counter bound of the grid part (the `for line in lit`
   loop swallows the end of the file, so one more read can follow: `N + 2`), and the exception classes each piece
   can raise (`Raises`). -/
import Iodata.Lemmas.C07Readers
set_option linter.unusedSimpArgs false
set_option linter.unusedVariables false

namespace Iodata.Rd.Vasp
open Iodata.Chars Iodata.Rd Iodata.Fmt

/-! ### header -/

theorem atomStep_good (rows : List Nat) : Good (atomStep rows) := by
  unfold atomStep
  exact good_bind good_next fun _ => good_bind (good_liftE _) fun _ => good_pure _

/-- every iteration of the coordinate loop appends exactly one row -/
theorem foldN_atomStep_len : ∀ (n : Nat) (rows rows' : List Nat) (l l' : Lit),
    foldN atomStep n rows l = (.ok rows', l') → rows'.length = rows.length + n := by
  intro n
  induction n with
  | zero =>
    intro rows rows' l l' h
    obtain ⟨h1, -⟩ := pure_ok h
    subst h1; rfl
  | succ n ih =>
    intro rows rows' l l' h
    unfold foldN at h
    obtain ⟨r1, l1, h1, h2⟩ := bind_ok h
    unfold atomStep at h1
    obtain ⟨_, _, -, h1⟩ := bind_ok h1
    obtain ⟨m, _, -, h1⟩ := bind_ok h1
    obtain ⟨h1, -⟩ := pure_ok h1
    subst h1
    have := ih _ _ _ _ h2
    simp only [List.length_cons] at this
    omega

theorem arrayRows_ok {rows a : List Nat} (h : arrayRows rows = .ok a) :
    (rows = [] ∧ a = [0]) ∨ (0 < rows.length ∧ ∃ m, a = [rows.length, m]) := by
  cases rows with
  | nil => left; simp [arrayRows] at h; exact ⟨rfl, h.symm⟩
  | cons m r =>
    right
    simp only [arrayRows] at h
    by_cases hall : (r.all (· == m)) = true
    · simp only [hall, if_true] at h
      injection h with h; subst h; exact ⟨by simp, m, by simp⟩
    · simp only [hall] at h; cases h

theorem dotE_ok {a b : List Nat} {k : Nat} (h : dotE a k = .ok b) : ∃ n, a = [n, 3] ∧ b = [n, k] := by
  unfold dotE at h
  split at h
  · rename_i n m
    split at h
    · rename_i hm
      injection h with h
      exact ⟨n, by simp at hm; rw [hm], h.symm⟩
    · cases h
  · cases h

theorem header_good (T : Tables) : Good (loadHeader T) := by
  unfold loadHeader
  refine good_bind good_next fun _ =>
    good_bind good_next fun _ => good_bind (good_liftE _) fun _ =>
    good_bind good_next fun _ => good_bind (good_liftE _) fun _ =>
    good_bind good_next fun _ => good_bind (good_liftE _) fun _ =>
    good_bind good_next fun _ => good_bind (good_liftE _) fun _ =>
    good_bind (good_liftE _) fun _ =>
    good_bind good_next fun _ => good_bind (good_liftE _) fun _ =>
    good_bind good_next fun _ => good_bind (good_liftE _) fun _ =>
    good_bind (good_liftE _) fun _ =>
    good_bind good_next fun _ => good_bind (good_liftE _) fun _ =>
    good_bind (good_ite good_next (good_pure _)) fun _ =>
    good_bind (good_liftE _) fun _ =>
    good_bind (good_foldN atomStep_good _ _) fun _ =>
    good_bind (good_liftE _) fun _ => good_bind (good_liftE _) fun _ => good_pure _

/-- what a returned header looks like: `len(atnums)` rows of one common length (`(0,)` without atoms), and in
fractional mode three columns multiplied with the `(3, k)` cell -/
theorem header_shapes (T : Tables) (l l' : Lit) (h : Hdr) (hm : loadHeader T l = (.ok h, l')) :
    (h.natom = 0 ∧ h.coordShape = [0]) ∨ (0 < h.natom ∧ ∃ m, h.coordShape = [h.natom, m]) := by
  unfold loadHeader at hm
  obtain ⟨_, _, -, hm⟩ := bind_ok hm
  obtain ⟨_, _, -, hm⟩ := bind_ok hm
  obtain ⟨_, _, -, hm⟩ := bind_ok hm
  obtain ⟨_, _, -, hm⟩ := bind_ok hm
  obtain ⟨k0, _, -, hm⟩ := bind_ok hm
  obtain ⟨_, _, -, hm⟩ := bind_ok hm
  obtain ⟨k1, _, -, hm⟩ := bind_ok hm
  obtain ⟨_, _, -, hm⟩ := bind_ok hm
  obtain ⟨k2, _, -, hm⟩ := bind_ok hm
  obtain ⟨_, _, -, hm⟩ := bind_ok hm
  obtain ⟨_, _, -, hm⟩ := bind_ok hm
  obtain ⟨zs, _, -, hm⟩ := bind_ok hm
  obtain ⟨_, _, -, hm⟩ := bind_ok hm
  obtain ⟨cs, _, -, hm⟩ := bind_ok hm
  obtain ⟨nz, _, -, hm⟩ := bind_ok hm
  obtain ⟨_, _, -, hm⟩ := bind_ok hm
  obtain ⟨sel, _, -, hm⟩ := bind_ok hm
  obtain ⟨_, _, -, hm⟩ := bind_ok hm
  obtain ⟨cart, _, -, hm⟩ := bind_ok hm
  obtain ⟨rows, _, hrows, hm⟩ := bind_ok hm
  obtain ⟨a, _, ha, hm⟩ := bind_ok hm
  obtain ⟨cshape, _, hc, hm⟩ := bind_ok hm
  obtain ⟨ho, -⟩ := pure_ok hm
  subst ho
  have hlen := foldN_atomStep_len _ _ _ _ _ hrows
  simp only [List.length_nil, Nat.zero_add] at hlen
  obtain ⟨ha, -⟩ := liftE_ok ha
  obtain ⟨hc, -⟩ := liftE_ok hc
  dsimp only
  rcases arrayRows_ok ha with ⟨hr, ha0⟩ | ⟨hpos, m, ham⟩
  · subst hr
    simp only [List.length_nil] at hlen
    left
    refine ⟨hlen.symm, ?_⟩
    by_cases hcart : cart = true
    · simp only [hcart, if_true] at hc; injection hc with hc; rw [← hc, ha0]
    · simp only [hcart] at hc
      obtain ⟨n, han, -⟩ := dotE_ok hc
      rw [ha0] at han; cases han
  · right
    rw [hlen] at hpos ham
    refine ⟨hpos, ?_⟩
    by_cases hcart : cart = true
    · simp only [hcart, if_true] at hc; injection hc with hc; exact ⟨m, by rw [← hc, ham]⟩
    · simp only [hcart] at hc
      obtain ⟨n, han, hb⟩ := dotE_ok hc
      rw [ham] at han
      injection han with h1 h2
      exact ⟨k0, by rw [hb, ← h1]⟩

/-! ### grid -/

theorem dataLoop_good : ∀ (n : Nat) (ws : List Str) (acc : Nat), Good (dataLoop n ws acc) := by
  intro n
  induction n with
  | zero => intro ws acc; unfold dataLoop; exact good_pure _
  | succ n ih =>
    intro ws acc
    cases ws with
    | cons w ws => unfold dataLoop; exact good_bind (good_liftE _) fun _ => ih ws _
    | nil =>
      unfold dataLoop
      refine good_bind good_next fun line => ?_
      split
      · exact good_raise _
      · exact good_bind (good_liftE _) fun _ => ih _ _

/-- the grid loop stores exactly as many values as it was asked for -/
theorem dataLoop_count : ∀ (n : Nat) (ws : List Str) (acc c : Nat) (l l' : Lit),
    dataLoop n ws acc l = (.ok c, l') → c = acc + n := by
  intro n
  induction n with
  | zero =>
    intro ws acc c l l' h
    unfold dataLoop at h
    obtain ⟨h1, -⟩ := pure_ok h
    omega
  | succ n ih =>
    intro ws acc c l l' h
    cases ws with
    | cons w ws =>
      unfold dataLoop at h
      obtain ⟨_, _, -, h⟩ := bind_ok h
      have := ih _ _ _ _ _ h
      omega
    | nil =>
      unfold dataLoop at h
      obtain ⟨line, l1, -, h⟩ := bind_ok h
      cases hsp : splitWs line with
      | nil => rw [hsp] at h; simp [raise] at h
      | cons w ws =>
        rw [hsp] at h
        obtain ⟨_, _, -, h⟩ := bind_ok h
        have := ih _ _ _ _ _ h
        omega

/-- at the end of the file the grid loop makes at most one more read (which raises) -/
theorem dataLoop_eof : ∀ (n : Nat) (ws : List Str) (acc : Nat) (l : Lit), l.rest = [] →
    (dataLoop n ws acc l).2.lineno ≤ l.lineno + 1 := by
  intro n
  induction n with
  | zero => intro ws acc l _; unfold dataLoop; simp [RM.pure]
  | succ n ih =>
    intro ws acc l hl
    cases ws with
    | cons w ws =>
      unfold dataLoop
      unfold RM.bind
      cases hfe : floatE w with
      | ok u => simp only [liftE, RM.pure]; exact ih ws _ l hl
      | error e => simp [liftE, raise]
    | nil =>
      unfold dataLoop
      unfold RM.bind
      rcases l with ⟨rest, k⟩
      simp only at hl
      subst hl
      simp [nextLine]

theorem wf_lineno_le {total : Nat} {l : Lit} (h : Wf total l) : l.lineno ≤ total + 1 := by
  rcases h with h | ⟨_, h⟩
  · simp only [Clean] at h; omega
  · omega

theorem shapeLoopGo_wf : ∀ (rest : List Str) (k : Nat) (last : Option (List Int)),
    Wf (k + rest.length) (shapeLoopGo rest k last).2 := by
  intro rest
  induction rest with
  | nil => intro k last; exact Or.inr ⟨rfl, by simp [shapeLoopGo]⟩
  | cons x r ih =>
    intro k last
    unfold shapeLoopGo
    have hc : Wf (k + (x :: r).length) ⟨r, k + 1⟩ := Or.inl (by simp [Clean]; omega)
    cases intsAll (splitWs x) with
    | error e => exact hc
    | ok vs =>
      dsimp only
      split
      · exact hc
      · have := ih (k + 1) (some vs)
        have e : k + 1 + r.length = k + (x :: r).length := by simp; omega
        rw [e] at this; exact this

/-- the state after `gridTail` is the state before it, or the state the grid loop left -/
theorem gridTail_state (cellK : Nat) (vals : List Int) (l : Lit) :
    (gridTail cellK vals l).2 = l ∨ ∃ n, (gridTail cellK vals l).2 = (dataLoop n [] 0 l).2 := by
  unfold gridTail RM.bind
  cases hz : zerosE vals with
  | error e => left; simp [liftE, raise]
  | ok u =>
    simp only [liftE, RM.pure]
    rcases vals with _ | ⟨s0, _ | ⟨s1, _ | ⟨s2, more⟩⟩⟩
    · left; rfl
    · left; rfl
    · left; rfl
    · right
      refine ⟨s0.toNat * s1.toNat * s2.toNat, ?_⟩
      dsimp only
      rcases hd : dataLoop (s0.toNat * s1.toNat * s2.toNat) [] 0 l with ⟨r, l1⟩
      cases r with
      | error e => rfl
      | ok cnt =>
        dsimp only
        split
        · rfl
        · split <;> rfl

/-- the read bound of the grid part: started in a consistent state it ends with `lineno ≤ N + 2` -/
theorem gridPart_bound (cellK : Nat) (total : Nat) (l : Lit) (hl : Clean total l) :
    (gridPart cellK l).2.lineno ≤ total + 2 := by
  unfold gridPart RM.bind
  have hw : Wf total (shapeLoop l).2 := by
    have := shapeLoopGo_wf l.rest l.lineno none
    simp only [Clean] at hl
    rw [hl] at this
    exact this
  rcases hs : shapeLoop l with ⟨r, l1⟩
  rw [hs] at hw
  simp only at hw
  cases r with
  | error e => exact Nat.le_succ_of_le (wf_lineno_le hw)
  | ok last =>
    dsimp only
    cases last with
    | none => exact Nat.le_succ_of_le (wf_lineno_le hw)
    | some vals =>
      dsimp only
      rcases gridTail_state cellK vals l1 with h | ⟨n, h⟩
      · rw [h]; exact Nat.le_succ_of_le (wf_lineno_le hw)
      · rw [h]
        rcases hw with hc | ⟨he, hk⟩
        · exact Nat.le_succ_of_le (wf_lineno_le ((dataLoop_good n [] 0).fin total l1 hc))
        · have := dataLoop_eof n [] 0 l1 he
          omega

/-- a returned grid: exactly three dimensions, as many values stored as their product, a `(3, 3)` cell -/
theorem gridPart_ok (cellK : Nat) (l l' : Lit) (g : List Nat × Nat) (h : gridPart cellK l = (.ok g, l')) :
    cellK = 3 ∧ ∃ a b c, g.1 = [a, b, c] ∧ g.2 = a * b * c := by
  unfold gridPart at h
  obtain ⟨last, l1, -, h⟩ := bind_ok h
  cases last with
  | none => simp [raise] at h
  | some vals =>
    dsimp only at h
    unfold gridTail at h
    obtain ⟨_, l2, -, h⟩ := bind_ok h
    split at h
    · rename_i s0 s1 s2 more
      obtain ⟨cnt, l3, hd, h⟩ := bind_ok h
      have hc := dataLoop_count _ _ _ _ _ _ hd
      split at h
      · simp [raise] at h
      · split at h
        · simp [raise] at h
        · rename_i hk
          obtain ⟨hg, -⟩ := pure_ok h
          subst hg
          refine ⟨by simpa using hk, _, _, _, rfl, by simpa using hc⟩
    · simp [raise] at h

end Iodata.Rd.Vasp

namespace Iodata.Rd
open Iodata.Chars Iodata.Fmt

/-! ### which classes a reader piece can raise -/

/-- every exception that leaves `m` is in `S` -/
def Raises {α} (S : List Cls) (m : RM α) : Prop := ∀ l c l', m l = (.error c, l') → c ∈ S

theorem raises_pure {α} (S : List Cls) (a : α) : Raises S (RM.pure a : RM α) := by
  intro l c l' h; simp [RM.pure] at h

theorem raises_raise {α} {S : List Cls} {c : Cls} (h : c ∈ S) : Raises S (raise c : RM α) := by
  intro l c' l' h'; simp [raise] at h'; rw [← h'.1]; exact h

theorem raises_next {S : List Cls} (h : Cls.stopIter ∈ S) : Raises S nextLine := by
  intro l c l' h'
  unfold nextLine at h'
  split at h'
  · simp at h'; rw [← h'.1]; exact h
  · simp at h'

theorem raises_liftE {α} {S : List Cls} {e : Except Cls α} (h : ∀ c, e = .error c → c ∈ S) : Raises S (liftE e) := by
  intro l c l' h'
  cases e with
  | ok a => simp [liftE, RM.pure] at h'
  | error c0 => simp [liftE, raise] at h'; rw [← h'.1]; exact h c0 rfl

theorem raises_bind {α β} {S : List Cls} {m : RM α} {f : α → RM β} (hm : Raises S m) (hf : ∀ a, Raises S (f a)) :
    Raises S (RM.bind m f) := by
  intro l c l' h
  unfold RM.bind at h
  rcases hml : m l with ⟨r, l1⟩
  rw [hml] at h
  cases r with
  | ok a => exact hf a l1 c l' h
  | error e => simp at h; rw [← h.1]; exact hm l e l1 hml

theorem raises_ite {α} {S : List Cls} {c : Prop} [Decidable c] {a b : RM α} (ha : Raises S a) (hb : Raises S b) :
    Raises S (if c then a else b) := by
  by_cases h : c <;> simp [h, ha, hb]

theorem raises_foldN {σ} {S : List Cls} {body : σ → RM σ} (hb : ∀ s, Raises S (body s)) (n : Nat) (s : σ) :
    Raises S (foldN body n s) := by
  induction n generalizing s with
  | zero => exact raises_pure S s
  | succ n ih => exact raises_bind (hb s) (fun s' => ih s')

theorem run_error_mem {α} {S : List Cls} {m : RM α} (h : Raises S m) (ls : List Str) (c : Cls)
    (hr : (run m ls).res = .error c) : c ∈ S := by
  unfold run at hr
  rcases hm : m ⟨ls, 0⟩ with ⟨r, l'⟩
  rw [hm] at hr
  simp only at hr
  subst hr
  exact h _ _ _ hm

namespace Vasp

theorem floatE_cls {s : Str} {c : Cls} (h : floatE s = .error c) : c = .value := by
  unfold floatE at h; split at h <;> simp at h; exact h.symm

theorem floatsAll_cls : ∀ (ws : List Str) (c : Cls), floatsAll ws = .error c → c = .value := by
  intro ws
  induction ws with
  | nil => intro c h; simp [floatsAll] at h
  | cons w ws ih =>
    intro c h
    unfold floatsAll at h
    cases hf : floatE w with
    | error e => rw [hf] at h; simp at h; subst h; exact floatE_cls hf
    | ok u => rw [hf] at h; exact ih c h

theorem intsAll_cls : ∀ (ws : List Str) (c : Cls), intsAll ws = .error c → c = .value := by
  intro ws
  induction ws with
  | nil => intro c h; simp [intsAll] at h
  | cons w ws ih =>
    intro c h
    unfold intsAll at h
    cases hp : pyInt w with
    | none => rw [hp] at h; simp at h; exact h.symm
    | some v =>
      rw [hp] at h
      dsimp only at h
      cases hi : intsAll ws with
      | error e => rw [hi] at h; simp at h; subst h; exact ih e hi
      | ok vs => rw [hi] at h; simp at h

theorem symsAll_cls (T : Tables) : ∀ (ws : List Str) (c : Cls), symsAll T ws = .error c → c = .key := by
  intro ws
  induction ws with
  | nil => intro c h; simp [symsAll] at h
  | cons w ws ih =>
    intro c h
    unfold symsAll at h
    cases hp : T.num? w with
    | none => rw [hp] at h; simp at h; exact h.symm
    | some v =>
      rw [hp] at h
      dsimp only at h
      cases hi : symsAll T ws with
      | error e => rw [hi] at h; simp at h; subst h; exact ih e hi
      | ok vs => rw [hi] at h; simp at h

theorem cellRow_cls {line : Str} {c : Cls} (h : cellRow line = .error c) : c = .value := by
  unfold cellRow at h
  dsimp only at h
  cases hf : floatsAll (splitWs line) with
  | error e => rw [hf] at h; simp at h; subst h; exact floatsAll_cls _ _ hf
  | ok u => rw [hf] at h; simp at h

theorem atomRow_cls {line : Str} {c : Cls} (h : atomRow line = .error c) : c = .value := by
  unfold atomRow at h
  dsimp only at h
  cases hf : floatsAll ((splitWs line).take 3) with
  | error e => rw [hf] at h; simp at h; subst h; exact floatsAll_cls _ _ hf
  | ok u => rw [hf] at h; simp at h

theorem arrayRows_cls {rows : List Nat} {c : Cls} (h : arrayRows rows = .error c) : c = .value := by
  cases rows with
  | nil => simp [arrayRows] at h
  | cons m r =>
    simp only [arrayRows] at h
    split at h <;> simp at h
    exact h.symm

theorem dotE_cls {a : List Nat} {k : Nat} {c : Cls} (h : dotE a k = .error c) : c = .value := by
  unfold dotE at h
  split at h
  · split at h <;> simp at h; exact h.symm
  · simp at h; exact h.symm

theorem firstIn_cls {line : Str} {cs : List Char} {c : Cls} (h : firstIn line cs = .error c) : c = .index := by
  unfold firstIn at h
  split at h <;> simp at h
  exact h.symm

theorem extendE_cls : ∀ (zs : List Nat) (cs : List Int) (acc : Nat × Nat) (c : Cls),
    extendE zs cs acc = .error c → c = .overflow ∨ c = .memory := by
  intro zs
  induction zs with
  | nil => intro cs acc c h; simp [extendE] at h
  | cons z zs ih =>
    intro cs acc c h
    cases cs with
    | nil => simp [extendE] at h
    | cons v cs =>
      rcases acc with ⟨n, s⟩
      simp only [extendE] at h
      split at h
      · simp at h; exact Or.inl h.symm
      · split at h
        · simp at h; exact Or.inr h.symm
        · exact ih _ _ _ h

theorem allocE_cls {dims : List Int} {c : Cls} (h : allocE dims = .error c) : c = .value ∨ c = .memory := by
  unfold allocE at h
  split at h
  · simp at h; exact Or.inl h.symm
  · split at h
    · simp at h; exact Or.inl h.symm
    · dsimp only at h
      split at h
      · simp at h; exact Or.inl h.symm
      · split at h <;> simp at h
        exact Or.inr h.symm

theorem zerosE_cls {vals : List Int} {c : Cls} (h : zerosE vals = .error c) :
    c = .value ∨ c = .type ∨ c = .memory := by
  unfold zerosE at h
  split at h
  · simp at h
  · split at h
    · simp at h; exact Or.inl h.symm
    · split at h
      · simp at h; exact Or.inl h.symm
      · split at h
        · simp at h; exact Or.inr (Or.inl h.symm)
        · cases ha : allocE vals with
          | error e =>
            rw [ha] at h; simp at h; subst h
            rcases allocE_cls ha with h1 | h1
            · exact Or.inl h1
            · exact Or.inr (Or.inr h1)
          | ok u =>
            rw [ha] at h
            dsimp only at h
            split at h <;> simp at h
            exact Or.inl h.symm

/-- the classes `_load_vasp_header` (hence `poscar.load_one`) can raise -/
def headerClasses : List Cls := [.stopIter, .value, .key, .index, .overflow, .memory]
/-- the classes `_load_vasp_grid` (hence `chgcar.load_one`, `locpot.load_one`) can raise -/
def gridClasses : List Cls := [.stopIter, .value, .key, .index, .overflow, .memory, .type, .name]

theorem header_raises (T : Tables) : Raises headerClasses (loadHeader T) := by
  have hv : ∀ c : Cls, c = .value → c ∈ headerClasses := by intro c h; subst h; decide
  have hn : Raises headerClasses nextLine := raises_next (by decide)
  unfold loadHeader
  refine raises_bind hn fun _ =>
    raises_bind hn fun _ => raises_bind (raises_liftE fun c h => hv c (floatE_cls h)) fun _ =>
    raises_bind hn fun _ => raises_bind (raises_liftE fun c h => hv c (cellRow_cls h)) fun _ =>
    raises_bind hn fun _ => raises_bind (raises_liftE fun c h => hv c (cellRow_cls h)) fun _ =>
    raises_bind hn fun _ => raises_bind (raises_liftE fun c h => hv c (cellRow_cls h)) fun _ =>
    raises_bind (raises_liftE fun c h => hv c (arrayRows_cls h)) fun _ =>
    raises_bind hn fun _ => raises_bind (raises_liftE fun c h => by rw [symsAll_cls T _ _ h]; decide) fun _ =>
    raises_bind hn fun _ => raises_bind (raises_liftE fun c h => hv c (intsAll_cls _ _ h)) fun _ =>
    raises_bind (raises_liftE fun c h => by rcases extendE_cls _ _ _ _ h with h | h <;> (subst h; decide)) fun _ =>
    raises_bind hn fun _ => raises_bind (raises_liftE fun c h => by rw [firstIn_cls h]; decide) fun _ =>
    raises_bind (raises_ite hn (raises_pure _ _)) fun _ =>
    raises_bind (raises_liftE fun c h => by rw [firstIn_cls h]; decide) fun _ =>
    raises_bind (raises_foldN (fun rows => ?_) _ _) fun _ =>
    raises_bind (raises_liftE fun c h => hv c (arrayRows_cls h)) fun _ =>
    raises_bind (raises_liftE fun c h => ?_) fun _ => raises_pure _ _
  · unfold atomStep
    exact raises_bind hn fun _ => raises_bind (raises_liftE fun c h => hv c (atomRow_cls h)) fun _ => raises_pure _ _
  · split at h
    · simp at h
    · exact hv c (dotE_cls h)

theorem raises_mono {α} {S S' : List Cls} {m : RM α} (h : Raises S m) (hs : ∀ c ∈ S, c ∈ S') : Raises S' m :=
  fun l c l' hm => hs c (h l c l' hm)

theorem dataLoop_raises : ∀ (n : Nat) (ws : List Str) (acc : Nat), Raises gridClasses (dataLoop n ws acc) := by
  intro n
  induction n with
  | zero => intro ws acc; unfold dataLoop; exact raises_pure _ _
  | succ n ih =>
    intro ws acc
    cases ws with
    | cons w ws =>
      unfold dataLoop
      exact raises_bind (raises_liftE fun c h => by rw [floatE_cls h]; decide) fun _ => ih ws _
    | nil =>
      unfold dataLoop
      refine raises_bind (raises_next (by decide)) fun line => ?_
      cases splitWs line with
      | nil => exact raises_raise (by decide)
      | cons w ws => exact raises_bind (raises_liftE fun c h => by rw [floatE_cls h]; decide) fun _ => ih _ _

theorem shapeLoop_raises : Raises gridClasses shapeLoop := by
  have key : ∀ (rest : List Str) (k : Nat) (last : Option (List Int)) (c : Cls) (l' : Lit),
      shapeLoopGo rest k last = (.error c, l') → c = .value := by
    intro rest
    induction rest with
    | nil => intro k last c l' h; simp [shapeLoopGo] at h
    | cons x r ih =>
      intro k last c l' h
      unfold shapeLoopGo at h
      cases hi : intsAll (splitWs x) with
      | error e => rw [hi] at h; simp at h; rw [← h.1]; exact intsAll_cls _ _ hi
      | ok vs =>
        rw [hi] at h
        dsimp only at h
        split at h
        · simp at h
        · exact ih _ _ _ _ h
  intro l c l' h
  rw [key _ _ _ _ _ h]; decide

theorem gridPart_raises (cellK : Nat) : Raises gridClasses (gridPart cellK) := by
  unfold gridPart
  refine raises_bind shapeLoop_raises fun last => ?_
  cases last with
  | none => exact raises_raise (by decide)
  | some vals =>
    dsimp only
    unfold gridTail
    refine raises_bind (raises_liftE fun c h => by
      rcases zerosE_cls h with h | h | h <;> (subst h; decide)) fun _ => ?_
    rcases vals with _ | ⟨s0, _ | ⟨s1, _ | ⟨s2, more⟩⟩⟩
    · exact raises_raise (by decide)
    · exact raises_raise (by decide)
    · exact raises_raise (by decide)
    · dsimp only
      refine raises_bind (dataLoop_raises _ _ _) fun cnt => ?_
      exact raises_ite (raises_raise (by decide)) (raises_ite (raises_raise (by decide)) (raises_pure _ _))

theorem poscar_raises (T : Tables) : Raises headerClasses (loadPoscar T) := by
  unfold loadPoscar
  exact raises_bind (header_raises T) fun _ => raises_pure _ _

theorem grid_raises (T : Tables) : Raises gridClasses (loadGrid T) := by
  unfold loadGrid
  exact raises_bind (raises_mono (header_raises T) (by decide)) fun h =>
    raises_bind (gridPart_raises _) fun _ => raises_pure _ _

end Vasp
end Iodata.Rd
