/- Helper lemmas for the per-format `prepare_dump` decisions (C08; model: `Iodata/Model/Prepare.lean`). -/
import Iodata.Model.Prepare
import Iodata.Lemmas.Segment
import Iodata.Lemmas.Flow2
import Mathlib.Data.Rat.Floor
import Mathlib.Algebra.Order.Field.Rat
import Mathlib.Tactic.Linarith
set_option linter.unusedSimpArgs false
set_option linter.unusedVariables false
namespace Iodata.Prep
open Iodata.Orb Iodata.Seg

/-! ### FCHK: "fully occupied orbitals followed by fully virtual ones" -/

/-- `k` ones followed by zeros -/
def Aufbau (o : List Rat) : Prop :=
  ∃ k, k ≤ o.length ∧ o = List.replicate k 1 ++ List.replicate (o.length - k) 0

theorem pyIdx_le (n : Nat) (i : Int) : pyIdx n i ≤ n := by
  unfold pyIdx; split <;> omega

theorem pyIdx_nat (n k : Nat) (h : k ≤ n) : pyIdx n (k : Int) = k := by
  unfold pyIdx; split <;> omega

theorem all_beq_replicate (l : List Rat) (a : Rat) (h : l.all (· == a) = true) : l = List.replicate l.length a := by
  rw [List.eq_replicate_iff]
  refine ⟨rfl, fun b hb => ?_⟩
  have := List.all_eq_true.mp h b hb
  simpa using this

theorem sum_replicate_one (k : Nat) : Orb.sum (List.replicate k (1 : Rat)) = (k : Rat) := by
  induction k with
  | zero => simp [Orb.sum]
  | succ k ih => rw [List.replicate_succ, sum_cons, ih]; push_cast; ring

theorem sum_replicate_zero (k : Nat) : Orb.sum (List.replicate k (0 : Rat)) = 0 := by
  induction k with
  | zero => simp [Orb.sum]
  | succ k ih => rw [List.replicate_succ, sum_cons, ih]; simp

theorem roundHalfEven_nat (k : Nat) : roundHalfEven (k : Rat) = (k : Int) := by
  unfold roundHalfEven
  have hf : ((k : Rat)).floor = (k : Int) := by
    have : ((k : Rat)) = ((k : Int) : Rat) := by simp
    rw [this, ← Rat.floor_intCast (k : Int)]
    simp
  simp only [hf]
  simp

theorem aufbauOk_replicate (k j : Nat) : aufbauOk (List.replicate k 1 ++ List.replicate j 0) = true := by
  unfold aufbauOk
  have hs : Orb.sum (List.replicate k (1 : Rat) ++ List.replicate j 0) = (k : Rat) := by
    rw [sum_append, sum_replicate_one, sum_replicate_zero]; simp
  simp only [hs, roundHalfEven_nat]
  have hl : (List.replicate k (1 : Rat) ++ List.replicate j 0).length = k + j := by simp
  rw [hl, pyIdx_nat (k + j) k (by omega)]
  simp [List.take_append, List.drop_append]

/-- the transcribed FCHK test (`np.round(np.sum(o))`, the two slices, including negative slice bounds)
accepts exactly the lists "ones, then zeros" -/
theorem aufbauOk_iff (o : List Rat) : aufbauOk o = true ↔ Aufbau o := by
  constructor
  · intro h
    unfold aufbauOk at h
    simp only [Bool.and_eq_true] at h
    generalize hk : pyIdx o.length (roundHalfEven (Orb.sum o)) = k at h
    have hkn : k ≤ o.length := hk ▸ pyIdx_le _ _
    have h1 := all_beq_replicate _ _ h.1
    have h2 := all_beq_replicate _ _ h.2
    rw [List.length_take, Nat.min_eq_left hkn] at h1
    rw [List.length_drop] at h2
    exact ⟨k, hkn, by rw [← h1, ← h2, List.take_append_drop]⟩
  · rintro ⟨k, _, ho⟩
    rw [ho]; exact aufbauOk_replicate k _

/-- what a spin channel must deliver to pass: occupations exist and are in aufbau form -/
def SpinAufbau (x : Except Err (Option (List Rat))) : Prop := ∃ o, x = .ok (some o) ∧ Aufbau o

theorem spinCheck_pass_iff (x : Except Err (Option (List Rat))) : spinCheck x = .pass ↔ SpinAufbau x := by
  unfold SpinAufbau
  rcases x with e | (_ | o)
  · simp [spinCheck]
  · simp [spinCheck]
  · by_cases h : aufbauOk o = true
    · simp [spinCheck, h, (aufbauOk_iff o).mp h]
    · have : ¬ Aufbau o := fun ha => h ((aufbauOk_iff o).mpr ha)
      simp [spinCheck, h, this]

/-- the block `if data.mo is not None` of `fchk.prepare_dump` lets exactly these orbitals through -/
theorem fchkMo_none_iff (m : MO) :
    fchkMo m = none ↔ m.kind ≠ .generalized ∧ SpinAufbau (occsa m) ∧ SpinAufbau (occsb m) := by
  unfold fchkMo
  by_cases hg : m.kind = .generalized
  · simp [hg]
  · simp only [hg, if_false, ne_eq, not_false_eq_true, true_and]
    rw [← spinCheck_pass_iff, ← spinCheck_pass_iff]
    cases ha : spinCheck (occsa m) <;> simp
    cases hb : spinCheck (occsb m) <;> simp

/-- which class the orbital block raises: `PrepareDumpError` from its own `raise` statements, the getter's /
numpy's exception when the occupations cannot be summed -/
theorem fchkMo_some_cases (m : MO) (c : Cls) (r : Reason) (h : fchkMo m = some (c, r)) :
    (c = .prepareDump ∧ (r = .generalizedMo ∨ r = .alphaAufbau ∨ r = .betaAufbau)) ∨
    (∃ e, c = .err e ∧ (r = .alphaUnavailable ∨ r = .betaUnavailable)) := by
  unfold fchkMo at h
  by_cases hg : m.kind = .generalized
  · simp [hg] at h; simp [← h.1, ← h.2]
  · simp only [hg, if_false] at h
    cases ha : spinCheck (occsa m) with
    | err e => simp [ha] at h; right; exact ⟨e, h.1.symm, Or.inl h.2.symm⟩
    | fail => simp [ha] at h; simp [← h.1, ← h.2]
    | pass =>
      simp only [ha] at h
      cases hb : spinCheck (occsb m) with
      | err e => simp [hb] at h; right; exact ⟨e, h.1.symm, Or.inr h.2.symm⟩
      | fail => simp [hb] at h; simp [← h.1, ← h.2]
      | pass => simp [hb] at h

/-- the statements of `fchk.prepare_dump` after the orbital block -/
def fchkTail (allow : Bool) (d : Obj) : Outcome :=
  if (d.postScf && !lotNamesPostScf d.lot) = true then .raised .prepareDump .postScfLot
  else prepS true allow d true []

theorem fchk_eq_none (allow : Bool) (d : Obj) (hm : d.mo = none) : fchk allow d = fchkTail allow d := by
  unfold fchk fchkTail; simp [hm]

theorem fchk_eq_some (allow : Bool) (d : Obj) (m : MO) (hm : d.mo = some m) :
    fchk allow d = match fchkMo m with
      | some p => .raised p.1 p.2
      | none => fchkTail allow d := by
  unfold fchk fchkTail
  simp only [hm]
  cases fchkMo m with
  | none => rfl
  | some p => rfl

/-! ### the two helpers -/

/-- a shell `prepare_segmented` leaves alone -/
def needS (keepSp : Bool) (b : Basis) : Bool := !(b.all (isKept keepSp))

theorem prepS_eq (keepSp allow : Bool) (d : Obj) (same : Bool) (ws : List Warn) :
    prepS keepSp allow d same ws =
      match d.obasis with
      | none => .raised (.err .valueError) .sNoObasis
      | some b =>
        if needS keepSp b = false then .ret d same ws
        else if allow = false then .raised .prepareDump .sContraction
        else .ret { d with obasis := some (segment keepSp b) } false (ws ++ [.segmented]) := by
  unfold prepS prepareSegmented needS
  cases d.obasis with
  | none => rfl
  | some b =>
    by_cases hk : b.all (isKept keepSp) = true
    · simp [hk]
    · cases allow <;> simp [hk]

/-- orbitals `prepare_unrestricted_aminusb` converts (kind restricted by the class invariant) -/
def needU (m : MO) : Bool := m.aminusb.isSome && m.kind != .unrestricted

theorem needU_iff_of_inv {m : MO} (hi : Inv m) : needU m = true ↔ m.aminusb ≠ none := by
  unfold needU
  cases hd : m.aminusb with
  | none => simp
  | some x =>
    have := hi.2.2 (by simp [hd])
    simp [this]

theorem prepU_eq (allow : Bool) (d : Obj) (m : MO) (hm : d.mo = some m) (hg : m.kind ≠ .generalized)
    (same : Bool) (ws : List Warn) :
    prepU allow d same ws =
      if needU m = false then .ret d same ws
      else if allow = false then .raised .prepareDump .uAminusb
      else
        match toUnrestricted m with
        | .ok p => .ret { d with mo := some p.1 } false (ws ++ [.unrestricted])
        | .error e => .raised (.err e) .uConvert := by
  unfold prepU prepareUnrestricted needU
  rw [hm]
  simp only [hg, if_false]
  by_cases hu : m.kind = .unrestricted
  · simp [hu]
  · cases hd : m.aminusb with
    | none => simp [hu, hd]
    | some x =>
      cases allow
      · simp [hu, hd]
      · cases ht : toUnrestricted m with
        | ok p => simp [hu, hd, ht, Except.map]
        | error e => simp [hu, hd, ht, Except.map]

/-! ### molden / molekel / wfn / wfx: the complete decision table -/

theorem moBasis_eq (cartOnly allow : Bool) (d : Obj) (m : MO) (b : Basis) (hm : d.mo = some m)
    (hb : d.obasis = some b) (hi : Inv m) :
    moBasis cartOnly allow d =
      if m.kind = .generalized then .raised .prepareDump .generalizedMo
      else if (cartOnly && hasNonCart b) = true then .raised .prepareDump .pureFunctions
      else if needU m = true then
        if allow = false then .raised .prepareDump .uAminusb
        else
          match toUnrestricted m with
          | .ok p =>
            if needS false b = false then .ret { d with mo := some p.1 } false [.unrestricted]
            else .ret { d with mo := some p.1, obasis := some (segment false b) } false [.unrestricted, .segmented]
          | .error e => .raised (.err e) .uConvert
      else if needS false b = false then .ret d true []
      else if allow = false then .raised .prepareDump .sContraction
      else .ret { d with obasis := some (segment false b) } false [.segmented] := by
  unfold moBasis
  simp only [hm, hb]
  by_cases hg : m.kind = .generalized
  · simp [hg]
  · simp only [hg, if_false]
    by_cases hp : (cartOnly && hasNonCart b) = true
    · simp [hp]
    · simp only [hp, if_false]
      rw [prepU_eq allow d m hm hg]
      by_cases hu : needU m = true
      · simp only [hu, if_true, Bool.true_eq_false, if_false]
        cases allow
        · simp
        · simp only [Bool.true_eq_false, if_false]
          cases ht : toUnrestricted m with
          | error e => simp
          | ok p =>
            simp only [List.nil_append]
            rw [prepS_eq]
            simp only [hb]
            by_cases hs : needS false b = false
            · simp [hs]
            · simp [hs]
      · have hu' : needU m = false := by simpa using hu
        simp only [hu', if_true, Bool.false_eq_true, if_false]
        rw [prepS_eq]
        simp only [hb]
        by_cases hs : needS false b = false
        · simp [hs]
        · cases allow <;> simp [hs, hm, hb]


/-- reasons of the Molden-like body that no conversion can remove -/
def moHard (cartOnly : Bool) (m : MO) (b : Basis) : Bool := m.kind == .generalized || (cartOnly && hasNonCart b)

/-- the object after the allowed conversions -/
def moConverted (d : Obj) (m : MO) (b : Basis) (m' : MO) : Obj :=
  { d with mo := if needU m then some m' else d.mo, obasis := if needS false b then some (segment false b) else d.obasis }

/-- the warnings of the allowed conversions, in the order they are issued -/
def moWarns (m : MO) (b : Basis) : List Warn :=
  (if needU m then [.unrestricted] else []) ++ (if needS false b then [.segmented] else [])

theorem moBasis_table (cartOnly allow : Bool) (d : Obj) (m : MO) (b : Basis) (hm : d.mo = some m)
    (hb : d.obasis = some b) (hi : Inv m) :
    (moHard cartOnly m b = true → ∃ r, moBasis cartOnly allow d = .raised .prepareDump r) ∧
    (moHard cartOnly m b = false → allow = false → (needU m || needS false b) = true →
        ∃ r, moBasis cartOnly allow d = .raised .prepareDump r) ∧
    (moHard cartOnly m b = false → (needU m || needS false b) = false → moBasis cartOnly allow d = .ret d true []) ∧
    (moHard cartOnly m b = false → allow = true → (needU m || needS false b) = true →
        ∃ m', (needU m = true → toUnrestricted m = .ok (m', false)) ∧
          moBasis cartOnly allow d = .ret (moConverted d m b m') false (moWarns m b)) := by
  rw [moBasis_eq cartOnly allow d m b hm hb hi]
  have hard_iff : moHard cartOnly m b = false ↔ m.kind ≠ .generalized ∧ (cartOnly && hasNonCart b) = false := by
    unfold moHard; simp
  refine ⟨fun h => ?_, fun h ha hn => ?_, fun h hn => ?_, fun h ha hn => ?_⟩
  · by_cases hg : m.kind = .generalized
    · exact ⟨.generalizedMo, by simp [hg]⟩
    · have hp : (cartOnly && hasNonCart b) = true := by
        cases hq : (cartOnly && hasNonCart b) with
        | true => rfl
        | false => rw [hard_iff.mpr ⟨hg, hq⟩] at h; cases h
      exact ⟨.pureFunctions, by simp [hg, hp]⟩
  · obtain ⟨hg, hp⟩ := hard_iff.mp h
    simp only [hg, hp, if_false, Bool.false_eq_true]
    by_cases hu : needU m = true
    · exact ⟨.uAminusb, by simp [hu, ha]⟩
    · have hu' : needU m = false := by simpa using hu
      have hs : needS false b = true := by simpa [hu'] using hn
      exact ⟨.sContraction, by simp [hu', hs, ha]⟩
  · obtain ⟨hg, hp⟩ := hard_iff.mp h
    simp only [Bool.or_eq_false_iff] at hn
    simp [hg, hp, hn.1, hn.2]
  · obtain ⟨hg, hp⟩ := hard_iff.mp h
    simp only [hg, hp, if_false, Bool.false_eq_true, ha, Bool.true_eq_false]
    unfold moConverted moWarns
    by_cases hu : needU m = true
    · have hr : m.kind = .restricted := hi.2.2 ((needU_iff_of_inv hi).mp hu)
      obtain ⟨m', h1, -⟩ := toUnrestricted_restricted hi hr
      refine ⟨m', fun _ => h1, ?_⟩
      simp only [hu, if_true, h1]
      by_cases hs : needS false b = true
      · simp [hs]
      · have hs' : needS false b = false := by simpa using hs
        simp [hs', hb]
    · have hu' : needU m = false := by simpa using hu
      have hs : needS false b = true := by simpa [hu'] using hn
      refine ⟨m, fun h => ?_, by simp [hu', hs, hm]⟩
      rw [hu'] at h; cases h

theorem fns_segment (k : Bool) (b : Basis) : fns (segment k b) = fns b := by
  simp [fns, contractions_segment]

/-! ### molekel: the electron-count guard in front of the Molden body -/

/-- the formats with the Molden-like body and whether they have the Cartesian-only loop -/
def IsMoBasis (f : Fmt) : Prop := f = .molden ∨ f = .molekel ∨ f = .wfn ∨ f = .wfx
def cartOnly : Fmt → Bool
  | .wfn => true | .wfx => true | _ => false

/-- the guard of `molekel.prepare_dump` is reached and fires -/
def fracReject (f : Fmt) (d : Obj) : Bool :=
  f == .molekel && (match d.mo, d.obasis with
    | some m, some _ => m.kind != .generalized && fractionalNelec m
    | _, _ => false)

theorem fracReject_iff (f : Fmt) (d : Obj) :
    fracReject f d = true ↔
      f = .molekel ∧ ∃ m b, d.mo = some m ∧ d.obasis = some b ∧ m.kind ≠ .generalized ∧ fractionalNelec m = true := by
  unfold fracReject
  cases hm : d.mo with
  | none => simp
  | some m =>
    cases hb : d.obasis with
    | none => simp
    | some b => simp

theorem molekel_eq (allow : Bool) (d : Obj) :
    molekel allow d =
      if fracReject .molekel d = true then .raised .prepareDump .fractionalNelec else moBasis false allow d := by
  unfold molekel moBasis fracReject
  cases hm : d.mo with
  | none => simp
  | some m =>
    cases hb : d.obasis with
    | none => simp
    | some b =>
      by_cases hg : m.kind = .generalized
      · simp [hg]
      · by_cases hf : fractionalNelec m = true
        · simp [hg, hf]
        · simp [hg, hf]

theorem prepareDump_mo (s : Bool) (f : Fmt) (hf : IsMoBasis f) (allow : Bool) (d : Obj) :
    prepareDump s f allow d =
      if fracReject f d = true then .raised .prepareDump .fractionalNelec else moBasis (cartOnly f) allow d := by
  rcases hf with rfl | rfl | rfl | rfl
  · simp [prepareDump, fracReject, cartOnly]
  · simp only [prepareDump, cartOnly]; exact molekel_eq allow d
  · simp [prepareDump, fracReject, cartOnly]
  · simp [prepareDump, fracReject, cartOnly]

theorem roundHalfEven_int (k : Int) : roundHalfEven (k : Rat) = k := by
  unfold roundHalfEven
  have hf : ((k : Rat)).floor = k := Rat.floor_intCast k
  simp only [hf]
  simp

/-- an integer electron count is never "fractional" -/
theorem fractionalNelec_int (m : MO) (o : List Rat) (ho : m.occs = some o) (k : Int) (hk : Orb.sum o = (k : Rat)) :
    fractionalNelec m = false := by
  unfold fractionalNelec nelec
  simp only [ho, Option.map_some, hk, roundHalfEven_int]
  simp [absR, tolNelec]
  norm_num

/-! ### the funnel of `api.dump_one` -/

/-- the class of the model's exception as the API flow sees it (`Other` = any other `Exception`) -/
def clsExc : Cls → Flow.Exc
  | .prepareDump => .prepareDump
  | .err _ => .other

theorem clsExc_isException (c : Cls) : (clsExc c).isException = true := by cases c <;> rfl

/-- the behaviour of the callee `prepare_dump` in the flow model of `api.py` -/
def prepBeh : Outcome → Option Flow.Exc
  | .raised c _ => some (clsExc c)
  | .ret _ _ _ => none

end Iodata.Prep
