/- Helper lemmas for C01 (wavefunction conversion). -/
import Iodata.Lemmas.Conv
import Iodata.Model.Wf

set_option linter.unusedSectionVars false
set_option linter.unusedSimpArgs false
set_option linter.unusedVariables false

namespace Iodata.Wf
open Iodata.Conv

/-! ### conventions step -/

theorem shellDen_convert {c1 c2 : List (Bool × Label)} (h : Compatible c1 c2) (s : Shell) (v : List Int) (κ : PKey) :
    shellDen s c2 (apply (convFwd c1 c2) v) κ = shellDen s c1 v κ := by
  unfold shellDen; rw [val_apply_convFwd h]

theorem den_convert_aux (cv1 cv2 : Cv) : ∀ (shells : List Shell),
    (∀ s ∈ shells, Compatible (cv1 s.key) (cv2 s.key)) →
    ∀ (coeffs : List Int) (κ : PKey), den cv2 shells (convert cv1 cv2 shells coeffs) κ = den cv1 shells coeffs κ
  | [], _, _, _ => by simp [den]
  | s :: ss, hc, coeffs, κ => by
    have h := hc s (by simp)
    have hlen : (apply (convFwd (cv1 s.key) (cv2 s.key)) (coeffs.take (cv1 s.key).length)).length
        = (cv2 s.key).length := by simp
    simp only [den, convert]
    rw [List.take_left' hlen, List.drop_left' hlen, shellDen_convert h]
    rw [den_convert_aux cv1 cv2 ss (fun t ht => hc t (by simp [ht]))]

/-! ### rows: zip / map / getD -/
section generic
variable {β : Type} [DecidableEq β]

theorem getD_zipmap (f : Int × β → Int) (hf : ∀ l, f (0, l) = 0) (w : List Int) (L : List β) (i : Nat)
    (hi : i < L.length) : ((w.zip L).map f).getD i 0 = f (w.getD i 0, L[i]) := by
  rw [List.getD_eq_getElem?_getD, List.getD_eq_getElem?_getD, List.getElem?_map]
  by_cases hw : i < w.length
  · have : (w.zip L)[i]? = some (w[i], L[i]) := by
      rw [List.getElem?_zip_eq_some]; simp [hw, hi]
    simp [this, hw]
  · have : (w.zip L)[i]? = none := by
      rw [List.getElem?_eq_none_iff]; simp; omega
    have hw' : w[i]? = none := by rw [List.getElem?_eq_none_iff]; omega
    simp [this, hw', hf]

/-- value of the unsigned function `x` in a row built by zipping with the convention's own labels -/
theorem val_zipmap (g : Int → β → Int) (hg : ∀ l, g 0 l = 0)
    (c : List (Bool × β)) (w : List Int) (x : β) :
    val c ((w.zip (labels c)).map fun p => g p.1 p.2) x
      = (signs c).getD ((labels c).idxOf x) 0 * g (w.getD ((labels c).idxOf x) 0) x := by
  unfold val
  by_cases hx : x ∈ labels c
  · have hi : (labels c).idxOf x < (labels c).length := List.idxOf_lt_length_iff.mpr hx
    rw [getD_zipmap (fun p => g p.1 p.2) (by simpa using hg) w (labels c) _ hi]
    have : (labels c)[(labels c).idxOf x] = x := List.getElem_idxOf _
    simp only [this]
  · have e1 : (labels c).idxOf x = (labels c).length := List.idxOf_eq_length hx
    have : (signs c).getD ((labels c).idxOf x) 0 = 0 := by
      rw [e1]; simp [List.getD_eq_getElem?_getD]
    rw [this]; simp

end generic

theorem val_scaleRow (N : Nat → Label → Int) (e : Nat) (d : Int) (c : List (Bool × Label)) (w : List Int)
    (x : Label) : val c (scaleRow N e d w (labels c)) x = val c w x * d * N e x := by
  unfold scaleRow
  rw [val_zipmap (fun a l => a * d * N e l) (by simp)]
  unfold val
  simp [Int.mul_assoc]

/-! ### conventions without sign flips -/
section generic2
variable {β : Type} [DecidableEq β]

def plusG (L : List β) : List (Bool × β) := L.map fun x => (false, x)

/-- conventions without sign flips -/
def Pos (c : List (Bool × β)) : Prop := ∀ p ∈ c, p.1 = false

theorem pos_plusG (L : List β) : Pos (plusG L) := by
  intro p hp; simp [plusG] at hp; obtain ⟨_, _, rfl⟩ := hp; rfl

theorem labels_plusG (L : List β) : labels (plusG L) = L := by
  simp [labels, plusG, List.map_map, Function.comp_def]

theorem plusG_labels (c : List (Bool × β)) (h : Pos c) : plusG (labels c) = c := by
  simp only [plusG, labels, List.map_map, Function.comp_def]
  conv => rhs; rw [← List.map_id c]
  apply List.map_congr_left
  intro p hp
  have := h p hp
  cases p; simp_all

theorem signs_pos_getD (c : List (Bool × β)) (h : Pos c) (i : Nat) :
    (signs c).getD i 0 = if i < (labels c).length then 1 else 0 := by
  simp only [signs, labels, List.length_map, List.getD_eq_getElem?_getD, List.getElem?_map]
  by_cases hi : i < c.length
  · have := h c[i] (List.getElem_mem hi)
    simp [hi, sgnB, this]
  · have : c[i]? = none := by rw [List.getElem?_eq_none_iff]; omega
    simp [hi, this]

theorem val_pos (c : List (Bool × β)) (h : Pos c) (w : List Int) (x : β) :
    val c w x = if (labels c).idxOf x < (labels c).length then w.getD ((labels c).idxOf x) 0 else 0 := by
  unfold val
  rw [signs_pos_getD c h]; split <;> simp

theorem val_divRow (N : Nat → β → Int) (e : Nat) (c : List (Bool × β)) (h : Pos c)
    (u : List Int) (x : β) :
    val c ((u.zip (labels c)).map fun p => p.1 / N e p.2) x = val c u x / N e x := by
  rw [val_zipmap (fun a l => a / N e l) (by simp)]
  rw [val_pos c h u x, signs_pos_getD c h]; split <;> simp

end generic2

theorem plus_labels (c : List (Bool × Label)) (h : Pos c) : plus (labels c) = c := plusG_labels c h

/-! ### WFN/WFX writer -/

theorem fileDen_append (a b : List Batch) (κ : PKey) : fileDen (a ++ b) κ = fileDen a κ + fileDen b κ := by
  simp [fileDen, List.sum_append]

theorem sum_prims (B : Bool) (A : Int) (ke : Nat) (F : Nat → Int) : ∀ (prims : List (Nat × Int)),
    (prims.map fun p => if (B && decide (ke = p.1)) = true then A * p.2 * F p.1 else 0).sum
      = if B = true then A * expSum prims ke * F ke else 0
  | [] => by simp [expSum]
  | p :: ps => by
    simp only [List.map_cons, List.sum_cons, sum_prims B A ke F ps, expSum]
    cases B <;> simp
    by_cases h : ke = p.1
    · subst h; simp; grind
    · have h' : ¬ (p.1 = ke) := fun e => h e.symm
      simp [h, h']

theorem batchDen_wfn (N : Nat → Label → Int) (c1 c2 : List (Bool × Label)) (s : Shell) (v : List Int)
    (hk : s.kind = 'c') (hp : Pos c2) (hc : Compatible c1 c2) (p : Nat × Int) (κ : PKey) :
    batchDen (wfnBatch N s (labels c2) (labels c2) (apply (convFwd c1 c2) v) p) κ
      = if (onShell s κ && decide (κ.2.1 = p.1)) = true then val c1 v κ.2.2.2.2 * p.2 * N p.1 κ.2.2.2.2 else 0 := by
  unfold batchDen onShell wfnBatch
  simp only [hk]
  rw [plus_labels c2 hp, val_scaleRow, val_apply_convFwd hc]

theorem fileDen_wfnShell (N : Nat → Label → Int) (c1 c2 : List (Bool × Label)) (s : Shell) (v : List Int)
    (hk : s.kind = 'c') (hp : Pos c2) (hc : Compatible c1 c2) (κ : PKey) :
    fileDen (wfnShell false N c1 c2 s v) κ = shellDen s c1 v κ * N κ.2.1 κ.2.2.2.2 := by
  unfold wfnShell fileDen
  simp only [List.map_map, Function.comp_def, Bool.false_eq_true, if_false]
  have : (fun p : Nat × Int => batchDen (wfnBatch N s (labels c2) (labels c2) (apply (convFwd c1 c2) v) p) κ)
      = fun p => if (onShell s κ && decide (κ.2.1 = p.1)) = true then val c1 v κ.2.2.2.2 * p.2 * N p.1 κ.2.2.2.2 else 0 := by
    funext p; exact batchDen_wfn N c1 c2 s v hk hp hc p κ
  rw [this, sum_prims (onShell s κ) (val c1 v κ.2.2.2.2) κ.2.1 (fun e => N e κ.2.2.2.2)]
  unfold shellDen
  cases onShell s κ <;> simp

/-! ### WFN/WFX reader -/

/-- denotation of the object the reader builds, batch by batch -/
def loadDen (N : Nat → Label → Int) (cvW : Cv) (bs : List Batch) (κ : PKey) : Int :=
  (bs.map fun b => shellDen (loadBatch N (cvW (b.l, 'c')) b).1 (cvW (b.l, 'c')) (loadBatch N (cvW (b.l, 'c')) b).2 κ).sum

theorem loadBatch_length (N : Nat → Label → Int) (cW : List (Bool × Label)) (b : Batch) :
    (loadBatch N cW b).2.length = cW.length := by
  simp [loadBatch]

theorem loadBatch_key (N : Nat → Label → Int) (cW : List (Bool × Label)) (b : Batch) :
    (loadBatch N cW b).1.key = (b.l, 'c') := by
  simp [loadBatch, Shell.key]

theorem den_wfnLoad (N : Nat → Label → Int) (cvW : Cv) : ∀ (bs : List Batch) (κ : PKey),
    den cvW (wfnLoad N cvW bs).1 (wfnLoad N cvW bs).2 κ = loadDen N cvW bs κ
  | [], κ => by simp [wfnLoad, den, loadDen]
  | b :: bs, κ => by
    have ih := den_wfnLoad N cvW bs κ
    simp only [wfnLoad, List.map_cons, List.flatMap_cons, den, loadDen, List.sum_cons] at ih ⊢
    rw [loadBatch_key]
    rw [List.take_left' (loadBatch_length N _ b), List.drop_left' (loadBatch_length N _ b), ih]

theorem loadDen_append (N : Nat → Label → Int) (cvW : Cv) (a b : List Batch) (κ : PKey) :
    loadDen N cvW (a ++ b) κ = loadDen N cvW a κ + loadDen N cvW b κ := by
  simp [loadDen, List.sum_append]

theorem Compatible_refl_of {c1 c2 : List (Bool × Label)} (h : Compatible c1 c2) : Compatible c2 c2 :=
  h.symm.trans h

theorem loadBatch_wfn (N : Nat → Label → Int) (hN : ∀ e l, N e l ≠ 0) (c1 c2 : List (Bool × Label)) (s : Shell)
    (v : List Int) (hk : s.kind = 'c') (hp : Pos c2) (hc : Compatible c1 c2) (p : Nat × Int) (κ : PKey) :
    shellDen (loadBatch N c2 (wfnBatch N s (labels c2) (labels c2) (apply (convFwd c1 c2) v) p)).1 c2
        (loadBatch N c2 (wfnBatch N s (labels c2) (labels c2) (apply (convFwd c1 c2) v) p)).2 κ
      = if (onShell s κ && decide (κ.2.1 = p.1)) = true then val c1 v κ.2.2.2.2 * p.2 * 1 else 0 := by
  unfold shellDen loadBatch wfnBatch onShell
  simp only [hk]
  rw [val_divRow N p.1 c2 hp, plus_labels c2 hp, val_apply_convFwd (Compatible_refl_of hc), val_scaleRow,
    val_apply_convFwd hc, Int.mul_ediv_cancel _ (hN _ _)]
  simp only [expSum, List.map_cons, List.map_nil, List.sum_cons, List.sum_nil]
  by_cases h : κ.2.1 = p.1
  · simp [h]
  · have h' : ¬ (p.1 = κ.2.1) := fun e => h e.symm
    simp [h, h']

theorem loadDen_wfnShell (N : Nat → Label → Int) (hN : ∀ e l, N e l ≠ 0) (cvW : Cv) (c1 c2 : List (Bool × Label))
    (s : Shell) (v : List Int) (hk : s.kind = 'c') (hp : Pos c2) (hc : Compatible c1 c2)
    (hcv : cvW (s.l, 'c') = c2) (κ : PKey) :
    loadDen N cvW (wfnShell false N c1 c2 s v) κ = shellDen s c1 v κ := by
  unfold wfnShell loadDen
  simp only [List.map_map, Function.comp_def, Bool.false_eq_true, if_false]
  have : (fun p : Nat × Int =>
      shellDen (loadBatch N (cvW ((wfnBatch N s (labels c2) (labels c2) (apply (convFwd c1 c2) v) p).l, 'c'))
          (wfnBatch N s (labels c2) (labels c2) (apply (convFwd c1 c2) v) p)).1
        (cvW ((wfnBatch N s (labels c2) (labels c2) (apply (convFwd c1 c2) v) p).l, 'c'))
        (loadBatch N (cvW ((wfnBatch N s (labels c2) (labels c2) (apply (convFwd c1 c2) v) p).l, 'c'))
          (wfnBatch N s (labels c2) (labels c2) (apply (convFwd c1 c2) v) p)).2 κ)
      = fun p => if (onShell s κ && decide (κ.2.1 = p.1)) = true then val c1 v κ.2.2.2.2 * p.2 * 1 else 0 := by
    funext p
    have hl : (wfnBatch N s (labels c2) (labels c2) (apply (convFwd c1 c2) v) p).l = s.l := rfl
    rw [hl, hcv]
    exact loadBatch_wfn N hN c1 c2 s v hk hp hc p κ
  rw [this, sum_prims (onShell s κ) (val c1 v κ.2.2.2.2) κ.2.1 (fun _ => 1)]
  unfold shellDen
  cases onShell s κ <;> simp

/-! ### Molden: sorting (shell, block) pairs -/


/-- denotation of a list of (shell, coefficient block) pairs -/
def denPairs (cv : Cv) (ps : List (Shell × List Int)) (κ : PKey) : Int :=
  (ps.map fun p => shellDen p.1 (cv p.1.key) p.2 κ).sum

theorem den_eq_denPairs (cv : Cv) : ∀ (shells : List Shell) (coeffs : List Int) (κ : PKey),
    den cv shells coeffs κ = denPairs cv (blocks cv shells coeffs) κ
  | [], _, _ => by simp [den, blocks, denPairs]
  | s :: ss, coeffs, κ => by
    have ih := den_eq_denPairs cv ss (coeffs.drop (cv s.key).length) κ
    simp only [den, blocks, denPairs, List.map_cons, List.sum_cons] at ih ⊢
    rw [ih]

theorem denPairs_insert (cv : Cv) (p : Shell × List Int) (κ : PKey) : ∀ (ps : List (Shell × List Int)),
    denPairs cv (insertPair p ps) κ = shellDen p.1 (cv p.1.key) p.2 κ + denPairs cv ps κ
  | [] => by simp [insertPair, denPairs]
  | t :: ts => by
    simp only [insertPair]
    split
    · simp [denPairs]
    · have ih := denPairs_insert cv p κ ts
      simp only [denPairs, List.map_cons, List.sum_cons] at ih ⊢
      rw [ih]; omega

theorem denPairs_sort (cv : Cv) (κ : PKey) : ∀ (ps : List (Shell × List Int)),
    denPairs cv (sortPairs ps) κ = denPairs cv ps κ
  | [] => rfl
  | p :: ps => by
    simp only [sortPairs, denPairs_insert, denPairs_sort cv κ ps]
    simp [denPairs]

def GoodBlocks (cv : Cv) (ps : List (Shell × List Int)) : Prop := ∀ p ∈ ps, p.2.length = (cv p.1.key).length

theorem den_of_pairs (cv : Cv) : ∀ (ps : List (Shell × List Int)), GoodBlocks cv ps → ∀ κ,
    den cv (ps.map (·.1)) (ps.flatMap (·.2)) κ = denPairs cv ps κ
  | [], _, _ => by simp [den, denPairs]
  | p :: ps, h, κ => by
    have hp := h p (by simp)
    have ih := den_of_pairs cv ps (fun q hq => h q (by simp [hq])) κ
    simp only [List.map_cons, List.flatMap_cons, den, denPairs, List.sum_cons] at ih ⊢
    rw [List.take_left' hp, List.drop_left' hp, ih]

theorem mem_insertPair (p q : Shell × List Int) : ∀ (ps : List (Shell × List Int)),
    q ∈ insertPair p ps → q = p ∨ q ∈ ps
  | [], h => by simp [insertPair] at h; exact Or.inl h
  | t :: ts, h => by
    simp only [insertPair] at h
    split at h
    · simp at h; rcases h with h | h | h <;> simp [h]
    · simp at h
      rcases h with h | h
      · simp [h]
      · rcases mem_insertPair p q ts h with h' | h' <;> simp [h']

theorem good_sort (cv : Cv) : ∀ (ps : List (Shell × List Int)), GoodBlocks cv ps → GoodBlocks cv (sortPairs ps)
  | [], h => by intro q hq; simp [sortPairs] at hq
  | p :: ps, h => by
    intro q hq
    simp only [sortPairs] at hq
    rcases mem_insertPair p q _ hq with rfl | h'
    · exact h _ (by simp)
    · exact good_sort cv ps (fun r hr => h r (by simp [hr])) q h'

theorem good_blocks_convert (cv1 cv2 : Cv) : ∀ (shells : List Shell) (coeffs : List Int),
    GoodBlocks cv2 (blocks cv2 shells (convert cv1 cv2 shells coeffs))
  | [], _ => by intro q hq; simp [blocks] at hq
  | s :: ss, coeffs => by
    have hlen : (apply (convFwd (cv1 s.key) (cv2 s.key)) (coeffs.take (cv1 s.key).length)).length
        = (cv2 s.key).length := by simp
    intro q hq
    simp only [blocks, convert, List.take_left' hlen, List.drop_left' hlen, List.mem_cons] at hq
    rcases hq with rfl | hq
    · exact hlen
    · exact good_blocks_convert cv1 cv2 ss _ q hq



theorem map_fst_insertPair (p : Shell × List Int) : ∀ (ps : List (Shell × List Int)),
    (insertPair p ps).map (·.1) = insertByCenter p.1 (ps.map (·.1))
  | [] => rfl
  | t :: ts => by
    simp only [insertPair, List.map_cons, insertByCenter]
    split
    · simp
    · simp [map_fst_insertPair p ts]

theorem map_fst_sortPairs : ∀ (ps : List (Shell × List Int)),
    (sortPairs ps).map (·.1) = sortByCenter (ps.map (·.1))
  | [] => rfl
  | p :: ps => by
    simp only [sortPairs, List.map_cons, sortByCenter, map_fst_insertPair, map_fst_sortPairs ps]

theorem map_fst_blocks (cv : Cv) : ∀ (shells : List Shell) (coeffs : List Int),
    (blocks cv shells coeffs).map (·.1) = shells
  | [], _ => rfl
  | s :: ss, coeffs => by simp [blocks, map_fst_blocks cv ss]

end Iodata.Wf
