/- SDF: the splitting reader on the column writer's output. -/
import Iodata.Lemmas.Fmt.Core
import Iodata.Model.Fmt.Sdf
namespace Iodata.Fmt.Sdf
open Iodata.Chars Iodata.Decimal Iodata.Fmt

/-- a right-justified token as a padded field -/
def padR (w : Nat) (t : Str) : Padded := ⟨spaces (w - t.length), t, []⟩

theorem padR_render (w : Nat) (t : Str) : (padR w t).render = rjust w t := by simp [padR, Padded.render, rjust]
theorem padR_ok (w : Nat) (t : Str) (h : NoWs t) (hne : t ≠ []) : (padR w t).OK :=
  ⟨allWs_spaces _, h, hne, allWs_nil⟩
theorem padR_pre (w : Nat) (t : Str) (h : t.length < w) : (padR w t).pre ≠ [] := by
  simp only [padR, spaces]; intro e
  have := congrArg List.length e; simp at this; omega

theorem pyNat_natToDec (e : LErr) (n : Nat) : pyNat e (natToDec n) = .ok n := by
  have := pyInt_intToDec [] [] (Int.ofNat n) allWs_nil allWs_nil
  simp only [intToDec, List.nil_append, List.append_nil] at this
  simp [pyNat, this]

theorem pyFix_core (d : Nat) (v : Fx) : pyFix d (fixCore false d v) = some v := by
  have := pyFix_fixCore false d v [] [] allWs_nil allWs_nil
  simpa using this

theorem okZ_spec {T : Tables} {L : Layout} {z : Nat} (h : okZ T L z = true) :
    ∃ s, T.sym? z = some s ∧ NoWs s ∧ s.length ≤ L.symW ∧ T.num? (title s) = some z := by
  unfold okZ at h
  cases e : T.sym? z with
  | none => simp [e] at h
  | some s =>
    simp only [e, Bool.and_eq_true, decide_eq_true_eq, beq_iff_eq] at h
    exact ⟨s, rfl, h.1.1, h.1.2, h.2⟩

theorem length_fmtFix {L : Layout} {v : Fx} (h : fitsFx L v = true) :
    (fmtFix false L.coordW L.coordD v).length = L.coordW := by
  simp only [fitsFx, decide_eq_true_eq] at h
  exact length_rjust _ _ h

theorem length_fmtNat {w n : Nat} (h : fitsNat w n = true) : (fmtNat w n).length = w := by
  simp only [fitsNat, decide_eq_true_eq] at h
  exact length_rjust _ _ h

theorem pyFix_fmtFix' (w d : Nat) (v : Fx) : pyFix d (fmtFix false w d v) = some v := by
  have := pyFix_fmtFix false w d v [] allWs_nil
  simpa using this

theorem pyNat_fmtNat (e : LErr) (w n : Nat) : pyNat e (fmtNat w n) = .ok n := by
  have := pyInt_intToDec (spaces (w - (natToDec n).length)) [] (Int.ofNat n) (allWs_spaces _) allWs_nil
  simp only [intToDec, List.append_nil] at this
  simp [pyNat, fmtNat, rjust, this]

theorem loadAtom_dumpAtom (T : Tables) (L : Layout) (hL : LayoutOK L) (a : Atom)
    (hz : okZ T L a.zn = true) (hx : fitsFx L a.x = true) (hy : fitsFx L a.y = true) (hzz : fitsFx L a.z = true) :
    loadAtom T L (dumpAtom T L a) = .ok a := by
  obtain ⟨s, hs, hnw, hlen, hback⟩ := okZ_spec hz
  have hsym : T.sym a.zn = s := by simp [Tables.sym, hs]
  obtain ⟨_, _, _, _, _, _, _, _, _, _, _, hsX, hsY, hsZ, hsS, _, _, _⟩ := hL
  let X := fmtFix false L.coordW L.coordD a.x
  let Y := fmtFix false L.coordW L.coordD a.y
  let Z := fmtFix false L.coordW L.coordD a.z
  let S := ljust L.symW s
  have lX : X.length = L.coordW := length_fmtFix hx
  have lY : Y.length = L.coordW := length_fmtFix hy
  have lZ : Z.length = L.coordW := length_fmtFix hzz
  have lS : S.length = L.symW := length_ljust _ _ hlen
  have e0 : dumpAtom T L a = ([] ++ X :: [Y, Z, L.symGap, S, L.atomTail, ['\n']]).flatten := by
    simp [dumpAtom, ln, X, Y, Z, S, hsym]
  have e1 : dumpAtom T L a = ([X] ++ Y :: [Z, L.symGap, S, L.atomTail, ['\n']]).flatten := by
    simp [dumpAtom, ln, X, Y, Z, S, hsym]
  have e2 : dumpAtom T L a = ([X, Y] ++ Z :: [L.symGap, S, L.atomTail, ['\n']]).flatten := by
    simp [dumpAtom, ln, X, Y, Z, S, hsym]
  have e3 : dumpAtom T L a = ([X, Y, Z, L.symGap] ++ S :: [L.atomTail, ['\n']]).flatten := by
    simp [dumpAtom, ln, X, Y, Z, S, hsym]
  have sx : sl L.sX (dumpAtom T L a) = X := by
    rw [e0, hsX]; exact slice_flatten _ _ _ _ _ (by simp) (by simp [lX])
  have sy : sl L.sY (dumpAtom T L a) = Y := by
    rw [e1, hsY]; exact slice_flatten _ _ _ _ _ (by simp [lX]) (by simp [lY]; omega)
  have sz : sl L.sZ (dumpAtom T L a) = Z := by
    rw [e2, hsZ]; exact slice_flatten _ _ _ _ _ (by simp [lX, lY]; omega) (by simp [lZ]; omega)
  have ss : sl L.sSym (dumpAtom T L a) = S := by
    rw [e3, hsS]; exact slice_flatten _ _ _ _ _ (by simp [lX, lY, lZ]; omega) (by simp [lS])
  have hstrip : strip S = s := by
    have := strip_noWs_pad [] s (spaces (L.symW - s.length)) allWs_nil (allWs_spaces _) hnw
    simpa [S, ljust] using this
  unfold loadAtom
  rw [sx, sy, sz, ss, hstrip]
  simp [X, Y, Z, pyFix_fmtFix', hback]

theorem loadBond_dumpBond (L : Layout) (hL : LayoutOK L) (b : Bond)
    (hi : fitsNat L.bondW (b.i + 1) = true) (hj : fitsNat L.bondW (b.j + 1) = true) (ht : fitsNat L.bondW b.t = true) :
    loadBond L (dumpBond L b) = .ok b := by
  obtain ⟨_, _, _, _, _, _, _, _, _, _, _, _, _, _, _, h1, h2, h3⟩ := hL
  let A := fmtNat L.bondW (b.i + 1)
  let B := fmtNat L.bondW (b.j + 1)
  let C := fmtNat L.bondW b.t
  have lA : A.length = L.bondW := length_fmtNat hi
  have lB : B.length = L.bondW := length_fmtNat hj
  have lC : C.length = L.bondW := length_fmtNat ht
  have e0 : dumpBond L b = ([] ++ A :: [B, C, L.bondTail, ['\n']]).flatten := by simp [dumpBond, ln, A, B, C]
  have e1 : dumpBond L b = ([A] ++ B :: [C, L.bondTail, ['\n']]).flatten := by simp [dumpBond, ln, A, B, C]
  have e2 : dumpBond L b = ([A, B] ++ C :: [L.bondTail, ['\n']]).flatten := by simp [dumpBond, ln, A, B, C]
  have s1 : sl L.sB1 (dumpBond L b) = A := by
    rw [e0, h1]; exact slice_flatten _ _ _ _ _ (by simp) (by simp [lA])
  have s2 : sl L.sB2 (dumpBond L b) = B := by
    rw [e1, h2]; exact slice_flatten _ _ _ _ _ (by simp [lA]) (by simp [lB]; omega)
  have s3 : sl L.sBt (dumpBond L b) = C := by
    rw [e2, h3]; exact slice_flatten _ _ _ _ _ (by simp [lA, lB]; omega) (by simp [lC]; omega)
  unfold loadBond
  rw [s1, s2, s3]
  simp [A, B, C, pyNat_fmtNat]

theorem brk_tail_nl {t : Str} (h : brkB t = true) : Brk (t ++ ['\n']) := by
  rcases brk_of_brkB h with h | ⟨c, r, h, hc⟩
  · rw [h]; exact brk_nl []
  · rw [h]; exact brk_cons _ hc

theorem counts_line (L : Layout) (hL : LayoutOK L) (na nb : Nat)
    (ha : fitsNat L.cntW na = true) (hb : fitsNat L.cntW nb = true) :
    pyNat .int (sl L.sNatom (countsLine L na nb)) = .ok na ∧ pyNat .int (sl L.sNbond (countsLine L na nb)) = .ok nb ∧
    ∃ wl, (splitWs (countsLine L na nb)).getLast? = some wl ∧ upper wl = "V2000".toList := by
  obtain ⟨_, _, _, _, hbrk, _, _, hlast, _, h1, h2, _⟩ := hL
  let A := fmtNat L.cntW na
  let B := fmtNat L.cntW nb
  have lA : A.length = L.cntW := length_fmtNat ha
  have lB : B.length = L.cntW := length_fmtNat hb
  have e0 : countsLine L na nb = ([] ++ A :: [B, L.countsTail, ['\n']]).flatten := by simp [countsLine, ln, A, B]
  have e1 : countsLine L na nb = ([A] ++ B :: [L.countsTail, ['\n']]).flatten := by simp [countsLine, ln, A, B]
  have s1 : sl L.sNatom (countsLine L na nb) = A := by
    rw [e0, h1]; exact slice_flatten _ _ _ _ _ (by simp) (by simp [lA])
  have s2 : sl L.sNbond (countsLine L na nb) = B := by
    rw [e1, h2]; exact slice_flatten _ _ _ _ _ (by simp [lA]) (by simp [lB]; omega)
  refine ⟨by rw [s1]; exact pyNat_fmtNat _ _ _, by rw [s2]; exact pyNat_fmtNat _ _ _, ?_⟩
  have e2 : countsLine L na nb = (A ++ B) ++ (L.countsTail ++ ['\n']) := by simp [countsLine, ln, A, B]
  rw [e2, splitWs_append_brk _ _ (brk_tail_nl hbrk)]
  simp only [ln] at hlast
  cases e : splitWs (L.countsTail ++ ['\n']) with
  | nil => rw [e] at hlast; simp at hlast
  | cons w ws =>
    rw [e] at hlast
    obtain ⟨wl, hwl, hup⟩ := Option.map_eq_some_iff.mp hlast
    refine ⟨wl, ?_, hup⟩
    rw [List.getLast?_append, hwl]; rfl

theorem okTitle_spec {t : Str} (h : okTitle t = true) : Trimmed t ∧ '\n' ∉ t := by
  unfold okTitle at h
  simp only [Bool.and_eq_true, decide_eq_true_eq, Bool.not_eq_true'] at h
  refine ⟨h.1, ?_⟩
  intro hc
  have : t.contains '\n' = true := by simpa using hc
  rw [this] at h; exact absurd h.2 (by decide)

theorem okTitle_outTitle (L : Layout) (hL : LayoutOK L) (t : Str) (h : okTitle t = true) :
    okTitle (outTitle L t) = true := by
  unfold outTitle; split
  · exact hL.1
  · exact h

theorem strip_ln (t : Str) (h : Trimmed t) : strip (ln t) = t := by
  have := strip_pad [] t ['\n'] allWs_nil allWs_nl h
  simpa [ln] using this

/-- C02 for SDF: every object the V2000 columns can hold -/
theorem load_dump (T : Tables) (L : Layout) (hL : LayoutOK L) (o : Obj) (h : Dom T L o) :
    load T L (dump T L o) = .ok (norm L o) := by
  obtain ⟨ht, hna, hnb, hat, hbd⟩ := h
  have htt := okTitle_spec (okTitle_outTitle L hL o.title ht)
  obtain ⟨c1, c2, wl, hlast, hup⟩ := counts_line L hL o.atoms.length o.bonds.length hna hnb
  have hatoms := readN_map (loadAtom T L) (dumpAtom T L) id o.atoms
    (o.bonds.map (dumpBond L) ++ [ln L.endLine, ln L.sepLine])
    (fun a ha => by
      simpa using loadAtom_dumpAtom T L hL a (hat a ha).1 (hat a ha).2.1 (hat a ha).2.2.1 (hat a ha).2.2.2)
  have hbonds := readN_map (loadBond L) (dumpBond L) id o.bonds [ln L.endLine, ln L.sepLine]
    (fun b hb => by simpa using loadBond_dumpBond L hL b (hbd b hb).1 (hbd b hb).2.1 (hbd b hb).2.2)
  simp only [List.map_id] at hatoms hbonds
  have hend : hasEnd "$$$$".toList [ln L.endLine, ln L.sepLine] = true := by
    simp [hasEnd, hL.2.2.2.2.2.2.2.2.1]
  unfold dump load
  simp only [c1, c2, hlast, hup, bne_self_eq_false, Bool.false_eq_true, if_false, hatoms, hbonds, hend, if_true,
    strip_ln _ htt.1, norm]

/-! ### C15 -/

theorem outTitle_idem (L : Layout) (hL : LayoutOK L) (t : Str) : outTitle L (outTitle L t) = outTitle L t := by
  unfold outTitle
  by_cases h : t.isEmpty = true
  · have : L.defaultTitle.isEmpty = false := by
      cases e : L.defaultTitle with
      | nil => exact absurd e hL.2.1
      | cons _ _ => rfl
    simp [h, this]
  · simp [h]

theorem norm_idem (L : Layout) (hL : LayoutOK L) (o : Obj) : norm L (norm L o) = norm L o := by
  simp [norm, outTitle_idem L hL]

theorem dom_norm (T : Tables) (L : Layout) (hL : LayoutOK L) (o : Obj) (h : Dom T L o) : Dom T L (norm L o) :=
  ⟨okTitle_outTitle L hL o.title h.1, h.2⟩

end Iodata.Fmt.Sdf

namespace Iodata.Fmt.Sdf
open Iodata.Chars Iodata.Decimal Iodata.Fmt

/-- the reader depends on the layout only through its slices and the number of decimals -/
theorem load_congr (T : Tables) (L L' : Layout) (h : L.coordD = L'.coordD)
    (hs : readerColumns L = readerColumns L') (ls : List Str) :
    load T L ls = load T L' ls := by
  simp only [readerColumns, List.cons.injEq, and_true] at hs
  obtain ⟨h1, h2, h3, h4, h5, h6, h7, h8, h9⟩ := hs
  have ha : loadAtom T L = loadAtom T L' := by funext line; unfold loadAtom; rw [h, h3, h4, h5, h6]
  have hb : loadBond L = loadBond L' := by funext line; unfold loadBond; rw [h7, h8, h9]
  unfold load; rw [ha, hb, h1, h2]

end Iodata.Fmt.Sdf
