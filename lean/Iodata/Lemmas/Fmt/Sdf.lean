/- SDF: the splitting reader on the column writer's output. -/
import Iodata.Lemmas.Fmt.Core
import Iodata.Model.Fmt.Sdf
namespace Iodata.Fmt.Sdf
open Iodata.Chars Iodata.Decimal Iodata.Fmt

/-- a right-justified token as a padded field -/
def padR (w : Nat) (t : Str) : Padded := ⟨spaces (w - t.length), t, []⟩

theorem padR_render (w : Nat) (t : Str) : (padR w t).render = rjust w t := by simp [padR, Padded.render, rjust]
theorem padR_ok (w : Nat) (t : Str) (h : NoWs t) (hne : t ≠ []) : (padR w t).OK :=
  ⟨allWs_spaces _, h, hne, allWs_nil⟩
theorem padR_pre (w : Nat) (t : Str) (h : t.length < w) : (padR w t).pre ≠ [] := by
  simp only [padR, spaces]; intro e
  have := congrArg List.length e; simp at this; omega

theorem pyNat_natToDec (e : LErr) (n : Nat) : pyNat e (natToDec n) = .ok n := by
  have := pyInt_intToDec [] [] (Int.ofNat n) allWs_nil allWs_nil
  simp only [intToDec, List.nil_append, List.append_nil] at this
  simp [pyNat, this]

theorem pyFix_core (d : Nat) (v : Fx) : pyFix d (fixCore false d v) = some v := by
  have := pyFix_fixCore false d v [] [] allWs_nil allWs_nil
  simpa using this

theorem okZ_spec {T : Tables} {z : Nat} (h : okZ T z = true) :
    ∃ s, T.sym? z = some s ∧ NoWs s ∧ s ≠ [] ∧ T.num? (title s) = some z := by
  unfold okZ at h
  cases e : T.sym? z with
  | none => simp [e] at h
  | some s =>
    simp only [e, Bool.and_eq_true, decide_eq_true_eq, Bool.not_eq_true', beq_iff_eq] at h
    refine ⟨s, rfl, h.1.1, ?_, h.2⟩
    intro hs; subst hs; simp at h

theorem loadAtom_dumpAtom (T : Tables) (L : Layout) (hL : LayoutOK L) (a : Atom)
    (hz : okZ T a.zn = true) (hy : narrowFx L a.y = true) (hzz : narrowFx L a.z = true) :
    loadAtom T L (dumpAtom T L a) = .ok a := by
  obtain ⟨s, hs, hnw, hne, hback⟩ := okZ_spec hz
  have hsym : T.sym a.zn = s := by simp [Tables.sym, hs]
  simp only [narrowFx, decide_eq_true_eq] at hy hzz
  let cx := fixCore false L.coordD a.x
  let cy := fixCore false L.coordD a.y
  let cz := fixCore false L.coordD a.z
  let pads : List Padded := [padR L.coordW cx, padR L.coordW cy, padR L.coordW cz, ⟨L.symGap, s, spaces (L.symW - s.length)⟩]
  have hrender : dumpAtom T L a = (pads.map Padded.render).flatten ++ (L.atomTail ++ ['\n']) := by
    simp [dumpAtom, ln, pads, cx, cy, cz, hsym, Padded.render, padR, fmtFix, rjust, ljust]
  have hok : ∀ x ∈ pads, x.OK := by
    intro x hx
    simp only [pads, List.mem_cons, List.mem_nil_iff, or_false] at hx
    rcases hx with h | h | h | h <;> subst h
    · exact padR_ok _ _ (fixCore_noWs _ _) (fixCore_ne_nil _ _ _)
    · exact padR_ok _ _ (fixCore_noWs _ _) (fixCore_ne_nil _ _ _)
    · exact padR_ok _ _ (fixCore_noWs _ _) (fixCore_ne_nil _ _ _)
    · exact ⟨hL.2.2.1, hnw, hne, allWs_spaces _⟩
  have hsep : ∀ x ∈ pads.tail, x.pre ≠ [] := by
    intro x hx
    simp only [pads, List.tail_cons, List.mem_cons, List.mem_nil_iff, or_false] at hx
    rcases hx with h | h | h <;> subst h
    · exact padR_pre _ _ hy
    · exact padR_pre _ _ hzz
    · exact hL.2.2.2.1
  have hb : Brk (L.atomTail ++ ['\n']) := by
    have := brk_of_brkB hL.2.2.2.2.2.1
    rcases this with h | ⟨c, r, h, hc⟩
    · rw [h]; exact brk_nl []
    · rw [h]; exact brk_cons _ hc
  have hsplit := splitWs_fields pads _ hok hsep hb
  unfold loadAtom
  rw [hrender, hsplit]
  simp [pads, padR, cx, cy, cz, pyFix_core, hback]

theorem brk_tail_nl {t : Str} (h : brkB t = true) : Brk (t ++ ['\n']) := by
  rcases brk_of_brkB h with h | ⟨c, r, h, hc⟩
  · rw [h]; exact brk_nl []
  · rw [h]; exact brk_cons _ hc

theorem loadBond_dumpBond (L : Layout) (hL : LayoutOK L) (b : Bond)
    (hj : narrowNat L.bondW (b.j + 1) = true) (ht : narrowNat L.bondW b.t = true) :
    loadBond (dumpBond L b) = .ok b := by
  simp only [narrowNat, decide_eq_true_eq] at hj ht
  let pads : List Padded := [padR L.bondW (natToDec (b.i + 1)), padR L.bondW (natToDec (b.j + 1)), padR L.bondW (natToDec b.t)]
  have hrender : dumpBond L b = (pads.map Padded.render).flatten ++ (L.bondTail ++ ['\n']) := by
    simp [dumpBond, ln, pads, Padded.render, padR, fmtNat, rjust]
  have hok : ∀ x ∈ pads, x.OK := by
    intro x hx
    simp only [pads, List.mem_cons, List.mem_nil_iff, or_false] at hx
    rcases hx with h | h | h <;> subst h <;>
      exact padR_ok _ _ (allDigits_natToDec _).noWs (natToDec_ne_nil _)
  have hsep : ∀ x ∈ pads.tail, x.pre ≠ [] := by
    intro x hx
    simp only [pads, List.tail_cons, List.mem_cons, List.mem_nil_iff, or_false] at hx
    rcases hx with h | h <;> subst h
    · exact padR_pre _ _ hj
    · exact padR_pre _ _ ht
  have hsplit := splitWs_fields pads _ hok hsep (brk_tail_nl hL.2.2.2.2.2.2.1)
  unfold loadBond
  rw [hrender, hsplit]
  simp [pads, padR, pyNat_natToDec]

theorem counts_split (L : Layout) (hL : LayoutOK L) (na nb : Nat) (hb : narrowNat L.cntW nb = true) :
    ∃ rest wl, splitWs (countsLine L na nb) = natToDec na :: natToDec nb :: rest ∧
      (natToDec na :: natToDec nb :: rest).getLast? = some wl ∧ upper wl = "V2000".toList := by
  simp only [narrowNat, decide_eq_true_eq] at hb
  let pads : List Padded := [padR L.cntW (natToDec na), padR L.cntW (natToDec nb)]
  have hrender : countsLine L na nb = (pads.map Padded.render).flatten ++ (L.countsTail ++ ['\n']) := by
    simp [countsLine, ln, pads, Padded.render, padR, fmtNat, rjust]
  have hok : ∀ x ∈ pads, x.OK := by
    intro x hx
    simp only [pads, List.mem_cons, List.mem_nil_iff, or_false] at hx
    rcases hx with h | h <;> subst h <;>
      exact padR_ok _ _ (allDigits_natToDec _).noWs (natToDec_ne_nil _)
  have hsep : ∀ x ∈ pads.tail, x.pre ≠ [] := by
    intro x hx
    simp only [pads, List.tail_cons, List.mem_cons, List.mem_nil_iff, or_false] at hx
    subst hx; exact padR_pre _ _ hb
  have hsplit := splitWs_fields pads _ hok hsep (brk_tail_nl hL.2.2.2.2.1)
  have hlast := hL.2.2.2.2.2.2.2.1
  simp only [ln] at hlast
  cases e : splitWs (L.countsTail ++ ['\n']) with
  | nil => rw [e] at hlast; simp at hlast
  | cons w ws =>
    rw [e] at hlast
    obtain ⟨wl, hwl, hup⟩ := Option.map_eq_some_iff.mp hlast
    refine ⟨w :: ws, wl, ?_, ?_, hup⟩
    · rw [hrender, hsplit, e]; simp [pads, padR]
    · simpa [List.getLast?_cons_cons] using hwl

theorem okTitle_spec {t : Str} (h : okTitle t = true) : Trimmed t ∧ '\n' ∉ t := by
  unfold okTitle at h
  simp only [Bool.and_eq_true, decide_eq_true_eq, Bool.not_eq_true'] at h
  refine ⟨h.1, ?_⟩
  intro hc
  have : t.contains '\n' = true := by simpa using hc
  rw [this] at h; exact absurd h.2 (by decide)

theorem okTitle_outTitle (L : Layout) (hL : LayoutOK L) (t : Str) (h : okTitle t = true) :
    okTitle (outTitle L t) = true := by
  unfold outTitle; split
  · exact hL.1
  · exact h

theorem strip_ln (t : Str) (h : Trimmed t) : strip (ln t) = t := by
  have := strip_pad [] t ['\n'] allWs_nil allWs_nl h
  simpa [ln] using this

/-- C02 for SDF on the domain where no field fills its column after another one -/
theorem load_dump (T : Tables) (L : Layout) (hL : LayoutOK L) (o : Obj) (h : Dom T L o) :
    load T L (dump T L o) = .ok (norm L o) := by
  obtain ⟨ht, hnb, hat, hbd⟩ := h
  have htt := okTitle_spec (okTitle_outTitle L hL o.title ht)
  obtain ⟨rest, wl, hsplit, hlast, hup⟩ := counts_split L hL o.atoms.length o.bonds.length hnb
  have hatoms := readN_map (loadAtom T L) (dumpAtom T L) id o.atoms
    (o.bonds.map (dumpBond L) ++ [ln L.endLine, ln L.sepLine])
    (fun a ha => by simpa using loadAtom_dumpAtom T L hL a (hat a ha).1 (hat a ha).2.1 (hat a ha).2.2)
  have hbonds := readN_map loadBond (dumpBond L) id o.bonds [ln L.endLine, ln L.sepLine]
    (fun b hb => by simpa using loadBond_dumpBond L hL b (hbd b hb).1 (hbd b hb).2)
  simp only [List.map_id] at hatoms hbonds
  have hend : hasEnd "$$$$".toList [ln L.endLine, ln L.sepLine] = true := by
    simp [hasEnd, hL.2.2.2.2.2.2.2.2]
  unfold dump load
  simp only [hsplit, hlast]
  simp only [List.getElem?_cons_zero, List.getElem?_cons_succ, pyNat_natToDec, hup, bne_self_eq_false,
    Bool.false_eq_true, if_false, hatoms, hbonds, hend, if_true, strip_ln _ htt.1, norm]

/-! ### C15 -/

theorem outTitle_idem (L : Layout) (hL : LayoutOK L) (t : Str) : outTitle L (outTitle L t) = outTitle L t := by
  unfold outTitle
  by_cases h : t.isEmpty = true
  · have : L.defaultTitle.isEmpty = false := by
      cases e : L.defaultTitle with
      | nil => exact absurd e hL.2.1
      | cons _ _ => rfl
    simp [h, this]
  · simp [h]

theorem norm_idem (L : Layout) (hL : LayoutOK L) (o : Obj) : norm L (norm L o) = norm L o := by
  simp [norm, outTitle_idem L hL]

theorem dom_norm (T : Tables) (L : Layout) (hL : LayoutOK L) (o : Obj) (h : Dom T L o) : Dom T L (norm L o) :=
  ⟨okTitle_outTitle L hL o.title h.1, h.2⟩

end Iodata.Fmt.Sdf

namespace Iodata.Fmt.Sdf
open Iodata.Chars Iodata.Decimal Iodata.Fmt

/-- the reader depends on the layout only through the number of decimals it re-quantises to -/
theorem load_congr (T : Tables) (L L' : Layout) (h : L.coordD = L'.coordD) (ls : List Str) :
    load T L ls = load T L' ls := by
  have : loadAtom T L = loadAtom T L' := by funext line; unfold loadAtom; rw [h]
  unfold load; rw [this]

end Iodata.Fmt.Sdf
