/- FCHK field layer: chunking for all sizes, token reading across lines, header words, whole files; index shuffles. -/
import Iodata.Lemmas.Fmt.Core
import Iodata.Lemmas.DecimalSci
import Iodata.Model.Fmt.Fchk
namespace Iodata.Fmt.Fchk
open Iodata.Chars Iodata.Decimal Iodata.Fmt

/-! ### chunks of `k`, all sizes -/

theorem chunkF_spec {α} (k : Nat) (hk : 0 < k) : ∀ (f : Nat) (l : List α), l.length ≤ f → l ≠ [] →
    (chunkF k f l).flatten = l ∧ ∀ ch ∈ chunkF k f l, ch ≠ [] ∧ ch.length ≤ k := by
  intro f; induction f with
  | zero => intro l h hne; exact absurd (List.length_eq_zero_iff.mp (by omega)) hne
  | succ f ih =>
    intro l h hne
    unfold chunkF
    by_cases hl : l.length ≤ k
    · simp only [hl, if_true]
      refine ⟨by simp, ?_⟩
      intro ch hch; simp at hch; subst hch; exact ⟨hne, hl⟩
    · simp only [hl, if_false]
      have hd : (l.drop k).length ≤ f := by simp; omega
      have hdne : l.drop k ≠ [] := by
        intro e; have := congrArg List.length e; simp at this; omega
      obtain ⟨h1, h2⟩ := ih (l.drop k) hd hdne
      refine ⟨by simp [h1], ?_⟩
      intro ch hch
      rcases List.mem_cons.mp hch with e | hm
      · subst e
        have hlen : (l.take k).length = k := by rw [List.length_take]; omega
        refine ⟨?_, by omega⟩
        intro e; rw [e] at hlen; simp at hlen; omega
      · exact h2 ch hm

/-- the lines of an array hold its elements in order, `k` per line, no line empty — for every length ≥ 1 -/
theorem chunks_spec {α} (k : Nat) (hk : 0 < k) (l : List α) (hne : l ≠ []) :
    (chunks k l).flatten = l ∧ ∀ ch ∈ chunks k l, ch ≠ [] ∧ ch.length ≤ k :=
  chunkF_spec k hk l.length l (Nat.le_refl _) hne

/-- the last line is ragged exactly when `k` does not divide the length; all others are full -/
theorem chunkF_lengths {α} (k : Nat) (hk : 0 < k) : ∀ (f : Nat) (l : List α), l.length ≤ f → l ≠ [] →
    (chunkF k f l).map List.length = List.replicate ((l.length - 1) / k) k ++ [(l.length - 1) % k + 1] := by
  intro f; induction f with
  | zero => intro l h hne; exact absurd (List.length_eq_zero_iff.mp (by omega)) hne
  | succ f ih =>
    intro l h hne
    have hpos : 0 < l.length := List.length_pos_iff.mpr hne
    unfold chunkF
    by_cases hl : l.length ≤ k
    · simp only [hl, if_true]
      have h1 : (l.length - 1) / k = 0 := Nat.div_eq_of_lt (by omega)
      have h2 : (l.length - 1) % k = l.length - 1 := Nat.mod_eq_of_lt (by omega)
      simp [h1, h2]; omega
    · simp only [hl, if_false]
      have hd : (l.drop k).length ≤ f := by simp; omega
      have hdne : l.drop k ≠ [] := by
        intro e; have := congrArg List.length e; simp at this; omega
      have := ih (l.drop k) hd hdne
      simp only [List.map_cons, this, List.length_take, List.length_drop]
      have e1 : (l.length - 1) / k = (l.length - k - 1) / k + 1 := by
        have : l.length - 1 = (l.length - k - 1) + k := by omega
        rw [this, Nat.add_div_right _ hk]
      have e2 : (l.length - 1) % k = (l.length - k - 1) % k := by
        have : l.length - 1 = (l.length - k - 1) + k := by omega
        rw [this, Nat.add_mod_right]
      rw [e1, e2, List.replicate_succ]
      simp; omega

/-! ### reading tokens across lines -/

def Res.prepend {β γ} (vs : List β) : Res (List β × γ) → Res (List β × γ)
  | .ok (us, r) => .ok (vs ++ us, r)
  | .stop => .stop
  | .err => .err

theorem Res.prepend_nil {β γ} (r : Res (List β × γ)) : Res.prepend [] r = r := by
  cases r with
  | ok a => obtain ⟨us, r⟩ := a; rfl
  | stop => rfl
  | err => rfl

theorem Res.consFst_prepend {β γ} (v : β) (vs : List β) (r : Res (List β × γ)) :
    (Res.prepend vs r).consFst v = Res.prepend (v :: vs) r := by
  cases r with
  | ok a => obtain ⟨us, r⟩ := a; rfl
  | stop => rfl
  | err => rfl

/-- the words of one line are consumed in order -/
theorem readTok_words {β} (conv : Str → Option β) (tok : β → Str) : ∀ (vs : List β) (n : Nat) (ls : List Str),
    (∀ v ∈ vs, conv (tok v) = some v) →
    readTok conv (vs.length + n) (vs.map tok) ls = Res.prepend vs (readTok conv n [] ls) := by
  intro vs; induction vs with
  | nil => intro n ls _; simp [Res.prepend_nil]
  | cons v vs ih =>
    intro n ls h
    have hv := h v List.mem_cons_self
    have e : (v :: vs).length + n = (vs.length + n) + 1 := by simp; omega
    rw [e]
    simp only [List.map_cons, readTok, hv]
    rw [ih n ls (fun x hx => h x (List.mem_cons_of_mem _ hx)), Res.consFst_prepend]

theorem readTok_line {β} (conv : Str → Option β) (n : Nat) (l : Str) (ls : List Str) (h : splitWs l ≠ []) :
    readTok conv (n + 1) [] (l :: ls) = readTok conv (n + 1) (splitWs l) ls := by
  cases e : splitWs l with
  | nil => exact absurd e h
  | cons w ws => simp [readTok, e]

/-- all lines of an array: every element comes back, in order, and the lines after the array are left unread -/
theorem readTok_lines {β} (conv : Str → Option β) (tok : β → Str) (line : List β → Str) :
    ∀ (chs : List (List β)) (rest : List Str),
    (∀ ch ∈ chs, ch ≠ [] ∧ splitWs (line ch) = ch.map tok ∧ ∀ v ∈ ch, conv (tok v) = some v) →
    readTok conv chs.flatten.length [] (chs.map line ++ rest) = .ok (chs.flatten, rest) := by
  intro chs; induction chs with
  | nil => intro rest _; rfl
  | cons ch chs ih =>
    intro rest h
    obtain ⟨hne, hsp, hconv⟩ := h ch List.mem_cons_self
    have hlen : (ch :: chs).flatten.length = (ch.length - 1 + chs.flatten.length) + 1 := by
      have : 0 < ch.length := List.length_pos_iff.mpr hne
      simp; omega
    have hsne : splitWs (line ch) ≠ [] := by
      rw [hsp]; intro e; exact hne (List.map_eq_nil_iff.mp e)
    simp only [List.map_cons, List.cons_append]
    rw [hlen, readTok_line conv _ _ _ hsne, hsp]
    have e2 : ch.length - 1 + chs.flatten.length + 1 = ch.length + chs.flatten.length := by
      have : 0 < ch.length := List.length_pos_iff.mpr hne
      omega
    rw [e2, readTok_words conv tok ch _ _ hconv, ih rest (fun c hc => h c (List.mem_cons_of_mem _ hc))]
    simp [Res.prepend]

/-! ### index shuffles -/

theorem triIdx_le {i j : Nat} (h : j ≤ i) : triIdx i j = i * (i + 1) / 2 + j := by
  simp [triIdx, Nat.max_eq_left h, Nat.min_eq_right h]

theorem tri_succ (n : Nat) : (n + 1) * (n + 2) / 2 = n * (n + 1) / 2 + (n + 1) := by
  have h : (n + 1) * (n + 2) = n * (n + 1) + 2 * (n + 1) := by
    simp [Nat.mul_add, Nat.add_mul]; omega
  rw [h, Nat.add_mul_div_left _ _ (by omega : 0 < 2)]

theorem map_getD_range {α} (d : α) (t : List α) (a k : Nat) (h : a + k ≤ t.length) :
    ((List.range k).map fun j => t.getD (a + j) d) = (t.drop a).take k := by
  apply List.ext_getElem
  · simp; omega
  · intro i h1 h2
    simp at h1
    simp [List.getD, List.getElem?_eq_getElem (by omega : a + i < t.length)]

theorem tril_dense_take {α} (d : α) (t : List α) : ∀ n m, n ≤ m → n * (n + 1) / 2 ≤ t.length →
    ((List.range n).flatMap fun i => ((List.range m).map fun j => t.getD (triIdx i j) d).take (i + 1))
      = t.take (n * (n + 1) / 2) := by
  intro n; induction n with
  | zero => intro m _ _; simp
  | succ n ih =>
    intro m hm hlen
    rw [tri_succ] at hlen
    rw [List.range_succ, List.flatMap_append, ih m (by omega) (by omega)]
    simp only [List.flatMap_cons, List.flatMap_nil, List.append_nil]
    rw [← List.map_take, List.take_range, Nat.min_eq_left (by omega)]
    have : ((List.range (n + 1)).map fun j => t.getD (triIdx n j) d)
        = (List.range (n + 1)).map fun j => t.getD (n * (n + 1) / 2 + j) d := by
      apply List.map_congr_left
      intro j hj
      rw [triIdx_le (by have := List.mem_range.mp hj; omega)]
    rw [this, map_getD_range d t _ _ (by omega), tri_succ]
    exact List.take_add.symm

theorem zipIdx_map_range' {β} (f : Nat → β) (n : Nat) :
    ((List.range n).map f).zipIdx = (List.range n).map fun a => (f a, a) := by
  apply List.ext_getElem
  · simp
  · intro i h1 h2; simp

/-- `tril ∘ _triangle_to_dense = id`, for every matrix size -/
theorem tril_dense {α} (d : α) (n : Nat) (t : List α) (h : t.length = n * (n + 1) / 2) : tril (dense d n t) = t := by
  unfold tril dense
  rw [zipIdx_map_range', List.flatMap_map]
  have := tril_dense_take d t n n (Nat.le_refl _) (by omega)
  simp only at this ⊢
  rw [this, ← h, List.take_length]

/-- the dense matrix is symmetric -/
theorem dense_symm {α} (d : α) (n : Nat) (t : List α) (i j : Nat) :
    ((dense d n t).getD i []).getD j d = ((dense d n t).getD j []).getD i d := by
  unfold dense
  by_cases hi : i < n <;> by_cases hj : j < n <;>
    simp [List.getD, hi, hj, triIdx, Nat.max_comm i j, Nat.min_comm i j]

/-! ### words of a header line and of a data line -/

theorem splitWs_nl : splitWs ['\n'] = [] := splitWs_allWs _ allWs_nl

theorem words2 (ty : Char) (hty : isWs ty = false) (p t : Str) (hp : AllWs p) (hpne : p ≠ []) (ht : NoWs t) (htne : t ≠ []) :
    splitWs ([ty] ++ (p ++ (t ++ ['\n']))) = [[ty], t] := by
  rw [splitWs_tok [ty] _ (noWs_cons hty noWs_nil) (by simp) (brk_allWs_ne_nil_append _ hp hpne),
    splitWs_field p t _ hp ht htne (brk_nl _), splitWs_nl]

theorem words3 (ty : Char) (hty : isWs ty = false) (p q t : Str) (hp : AllWs p) (hpne : p ≠ []) (hq : AllWs q) (hqne : q ≠ [])
    (ht : NoWs t) (htne : t ≠ []) :
    splitWs ([ty] ++ (p ++ (nEq ++ (q ++ (t ++ ['\n']))))) = [[ty], nEq, t] := by
  rw [splitWs_tok [ty] _ (noWs_cons hty noWs_nil) (by simp) (brk_allWs_ne_nil_append _ hp hpne),
    splitWs_field p nEq _ hp (by decide) (by decide) (brk_allWs_ne_nil_append _ hq hqne),
    splitWs_field q t _ hq ht htne (brk_nl _), splitWs_nl]

theorem dataLine_words {β} (render tok pre : β → Str) (ch : List β)
    (h : ∀ v ∈ ch, render v = pre v ++ tok v ∧ AllWs (pre v) ∧ pre v ≠ [] ∧ NoWs (tok v) ∧ tok v ≠ []) :
    splitWs (dataLine render ch) = ch.map tok := by
  have e : ch.map render = (ch.map fun v => Padded.mk (pre v) (tok v) []).map Padded.render := by
    rw [List.map_map]
    apply List.map_congr_left
    intro v hv
    simp [Padded.render, (h v hv).1]
  unfold dataLine
  rw [e, splitWs_fields _ ['\n'] ?_ ?_ (brk_nl _), splitWs_nl]
  · simp
  · intro x hx
    simp only [List.mem_map] at hx
    obtain ⟨v, hv, rfl⟩ := hx
    obtain ⟨_, h2, _, h4, h5⟩ := h v hv
    exact ⟨h2, h4, h5, allWs_nil⟩
  · intro x hx
    have hx' := List.mem_of_mem_tail hx
    simp only [List.mem_map] at hx'
    obtain ⟨v, hv, rfl⟩ := hx'
    exact (h v hv).2.2.1

/-! ### the pieces of a rendered number -/

theorem fmtInt_split (w : Nat) (i : Int) : fmtInt w i = spaces (w - (intToDec i).length) ++ intToDec i := rfl

theorem spaces_ne_nil {n : Nat} (h : 0 < n) : spaces n ≠ [] := by
  intro e; have := congrArg List.length e; simp [spaces] at this; omega

/-- the token of a real: sign (only `-`) and digits -/
def realTok (d : Nat) (x : Sci) : Str := sciCoreC false 'E' d x

def realPre (w d : Nat) (x : Sci) : Str := spaces (w - (sciCore true true d x).length) ++ (if x.neg then [] else [' '])

theorem fmtSci_split (w d : Nat) (x : Sci) : fmtSci true true w d x = realPre w d x ++ realTok d x := by
  unfold fmtSci rjust realPre realTok sciCore sciCoreC signStr
  cases x.neg <;> simp

theorem realPre_allWs (w d : Nat) (x : Sci) : AllWs (realPre w d x) := by
  unfold realPre
  apply allWs_append (allWs_spaces _)
  split
  · exact allWs_nil
  · decide

theorem realPre_ne_nil (w d : Nat) (x : Sci) (h : (sciCore true true d x).length < w) : realPre w d x ≠ [] := by
  unfold realPre
  intro e
  have := (List.append_eq_nil_iff.mp e).1
  exact spaces_ne_nil (by omega) this

theorem realTok_noWs (d : Nat) (x : Sci) : NoWs (realTok d x) := by
  unfold realTok sciCoreC
  apply noWs_append
  · unfold signStr; cases x.neg <;> simp <;> first | exact noWs_nil | exact noWs_cons (by decide) noWs_nil
  · exact sciBody_noWs 'E' (by decide) d x.man x.exp

theorem realTok_ne_nil (d : Nat) (x : Sci) : realTok d x ≠ [] := by
  obtain ⟨c, r, h, _⟩ := manDigits_head d x.man
  unfold realTok sciCoreC; rw [h]; simp

theorem pySci_realTok (d : Nat) (x : Sci) (hd : 0 < d) (hm : x.man < 10 ^ (d + 1)) : pySci d (realTok d x) = some x := by
  have := pySci_sciCoreC false 'E' (Or.inl rfl) d x hd hm [] [] allWs_nil allWs_nil
  simpa [realTok] using this

theorem pyInt_tok (i : Int) : pyInt (intToDec i) = some i := by
  have := pyInt_intToDec [] [] i allWs_nil allWs_nil
  simpa using this

/-! ### one field -/

theorem okLabel_spec {L : Layout} {s : Str} (h : okLabel L s = true) : Trimmed s ∧ s.length ≤ L.labelW := by
  simp only [okLabel, Bool.and_eq_true, decide_eq_true_eq] at h
  exact ⟨h.1.1, h.1.2⟩

theorem head_label (L : Layout) (hL : LayoutOK L) (label : Str) (ty : Char) (tl : Str) (hl : okLabel L label = true) :
    strip (slice 0 L.reader.cut (head L label ty ++ tl)) = label ∧ sliceFrom L.reader.cut (head L label ty ++ tl) = [ty] ++ tl := by
  obtain ⟨ht, hlen⟩ := okLabel_spec hl
  have hcut : L.reader.cut = L.labelW + L.gap := hL.1
  have hx : (ljust L.labelW label ++ spaces L.gap).length = L.reader.cut := by
    rw [List.length_append, length_ljust _ _ hlen, length_spaces, hcut]
  have e : head L label ty ++ tl = (ljust L.labelW label ++ spaces L.gap) ++ ([ty] ++ tl) := by simp [head]
  rw [e]
  refine ⟨?_, sliceFrom_append _ _ _ hx⟩
  rw [slice_zero _ _ _ hx]
  have := strip_pad [] label (spaces (L.labelW - label.length) ++ spaces L.gap) allWs_nil
    (allWs_append (allWs_spaces _) (allWs_spaces _)) ht
  simpa [ljust] using this

theorem tyI : isWs 'I' = false := by decide
theorem tyR : isWs 'R' = false := by decide

theorem loadField_int (L : Layout) (hL : LayoutOK L) (keep : Str → Bool) (label : Str) (i : Int) (rest : List Str)
    (hl : okLabel L label = true) (hk : keep label = true) :
    loadField L.reader keep (scalarILine L label i :: rest) = .ok ((label, .int i), rest) := by
  obtain ⟨h1, h2⟩ := head_label L hL label 'I' (spaces L.padS ++ (fmtInt L.intW i ++ ['\n'])) hl
  have hw : splitWs (['I'] ++ (spaces L.padS ++ (fmtInt L.intW i ++ ['\n']))) = [['I'], intToDec i] := by
    rw [fmtInt_split]
    have := words2 'I' tyI (spaces L.padS ++ spaces (L.intW - (intToDec i).length)) (intToDec i)
      (allWs_append (allWs_spaces _) (allWs_spaces _))
      (by intro e; exact spaces_ne_nil hL.2.1 (List.append_eq_nil_iff.mp e).1) (intToDec_noWs i) (intToDec_ne_nil i)
    simpa using this
  unfold loadField scalarILine
  simp only [h1, h2, hw, hk]
  simp [tI, tR, pyInt_tok]

theorem loadField_real (L : Layout) (hL : LayoutOK L) (keep : Str → Bool) (label : Str) (x : Sci) (rest : List Str)
    (hl : okLabel L label = true) (hk : keep label = true) (hm : x.man < 10 ^ (L.sD + 1)) :
    loadField L.reader keep (scalarRLine L label x :: rest) = .ok ((label, .real x), rest) := by
  obtain ⟨h1, h2⟩ := head_label L hL label 'R' (spaces L.padS ++ (fmtSci true true L.sW L.sD x ++ ['\n'])) hl
  have hw : splitWs (['R'] ++ (spaces L.padS ++ (fmtSci true true L.sW L.sD x ++ ['\n']))) = [['R'], realTok L.sD x] := by
    rw [fmtSci_split]
    have := words2 'R' tyR (spaces L.padS ++ realPre L.sW L.sD x) (realTok L.sD x)
      (allWs_append (allWs_spaces _) (realPre_allWs _ _ _))
      (by intro e; exact spaces_ne_nil hL.2.1 (List.append_eq_nil_iff.mp e).1) (realTok_noWs _ _) (realTok_ne_nil _ _)
    simpa using this
  unfold loadField scalarRLine
  simp only [h1, h2, hw, hk]
  have hd : 0 < L.sD := hL.2.2.2.2.2.1
  simp [tI, tR, Layout.reader, pySci_realTok L.sD x hd hm]

theorem arrayHead_words (L : Layout) (hL : LayoutOK L) (ty : Char) (hty : isWs ty = false) (n : Nat) (hn : n < 10 ^ (L.intW - 1)) :
    splitWs ([ty] ++ (spaces L.padA ++ (nEq ++ (fmtInt L.intW n ++ ['\n'])))) = [[ty], nEq, natToDec n] := by
  have hlen : (natToDec n).length < L.intW := by
    have h1 : 1 < L.intW := hL.2.2.2.2.2.2.2.1
    have := length_natToDec_le n (L.intW - 1) hn (by omega)
    omega
  have e : fmtInt L.intW (n : Int) = spaces (L.intW - (natToDec n).length) ++ natToDec n := rfl
  rw [e]
  have := words3 ty hty (spaces L.padA) (spaces (L.intW - (natToDec n).length)) (natToDec n) (allWs_spaces _)
    (spaces_ne_nil hL.2.2.1) (allWs_spaces _) (spaces_ne_nil (by omega)) (allDigits_natToDec n).noWs (natToDec_ne_nil n)
  simpa using this

theorem okInt_spec {L : Layout} {i : Int} (h : okInt L i = true) : (intToDec i).length < L.intW := by
  simp only [okInt, Bool.and_eq_true, decide_eq_true_eq] at h; exact h.1.1

theorem pyInt64_tok {L : Layout} {i : Int} (h : okInt L i = true) : pyInt64 (intToDec i) = some i := by
  simp only [okInt, Bool.and_eq_true, decide_eq_true_eq] at h
  simp [pyInt64, pyInt_tok, h.1.2, h.2]

theorem okSci_spec {w d : Nat} {x : Sci} (h : okSci w d x = true) : x.man < 10 ^ (d + 1) ∧ (sciCore true true d x).length < w := by
  simpa [okSci] using h

theorem loadField_ints (L : Layout) (hL : LayoutOK L) (keep : Str → Bool) (label : Str) (l : List Int) (rest : List Str)
    (hl : okLabel L label = true) (hk : keep label = true) (hne : l ≠ []) (hok : ∀ i ∈ l, okInt L i = true)
    (hn : l.length < 10 ^ (L.intW - 1)) :
    loadField L.reader keep ((arrayHead L label 'I' l.length :: (chunks L.perI l).map (dataLine (fmtInt L.intW))) ++ rest)
      = .ok ((label, .ints l), rest) := by
  obtain ⟨h1, h2⟩ := head_label L hL label 'I' (spaces L.padA ++ (nEq ++ (fmtInt L.intW l.length ++ ['\n']))) hl
  have hw : splitWs ('I' :: (spaces L.padA ++ (nEq ++ (fmtInt L.intW l.length ++ ['\n'])))) = [['I'], nEq, natToDec l.length] :=
    arrayHead_words L hL 'I' tyI l.length hn
  obtain ⟨hflat, hch⟩ := chunks_spec L.perI hL.2.2.2.1 l hne
  have hread := readTok_lines pyInt64 intToDec (dataLine (fmtInt L.intW)) (chunks L.perI l) rest (by
    intro ch hc
    refine ⟨(hch ch hc).1, ?_, fun v hv => pyInt64_tok (hok v (by rw [← hflat]; exact List.mem_flatten.mpr ⟨ch, hc, hv⟩))⟩
    apply dataLine_words (fmtInt L.intW) intToDec (fun i => spaces (L.intW - (intToDec i).length))
    intro v hv
    have hvl : v ∈ l := by rw [← hflat]; exact List.mem_flatten.mpr ⟨ch, hc, hv⟩
    have := okInt_spec (hok v hvl)
    exact ⟨rfl, allWs_spaces _, spaces_ne_nil (by omega), intToDec_noWs v, intToDec_ne_nil v⟩)
  rw [hflat] at hread
  unfold arrayHead
  simp only [List.cons_append, List.nil_append, loadField, h1, h2, hk]
  rw [hw]
  have hpi : pyInt (natToDec l.length) = some (l.length : Int) := by
    have := pyInt_tok (Int.ofNat l.length); simpa [intToDec] using this
  simp [tI, tR, hpi, hread]

theorem loadField_reals (L : Layout) (hL : LayoutOK L) (keep : Str → Bool) (label : Str) (l : List Sci) (rest : List Str)
    (hl : okLabel L label = true) (hk : keep label = true) (hne : l ≠ []) (hok : ∀ x ∈ l, okSci L.aW L.aD x = true)
    (hn : l.length < 10 ^ (L.intW - 1)) :
    loadField L.reader keep ((arrayHead L label 'R' l.length :: (chunks L.perR l).map (dataLine (fmtSci true true L.aW L.aD))) ++ rest)
      = .ok ((label, .reals l), rest) := by
  obtain ⟨h1, h2⟩ := head_label L hL label 'R' (spaces L.padA ++ (nEq ++ (fmtInt L.intW l.length ++ ['\n']))) hl
  have hw : splitWs ('R' :: (spaces L.padA ++ (nEq ++ (fmtInt L.intW l.length ++ ['\n'])))) = [['R'], nEq, natToDec l.length] :=
    arrayHead_words L hL 'R' tyR l.length hn
  have hd : 0 < L.aD := hL.2.2.2.2.2.2.1
  obtain ⟨hflat, hch⟩ := chunks_spec L.perR hL.2.2.2.2.1 l hne
  have hread := readTok_lines (pySci L.aD) (realTok L.aD) (dataLine (fmtSci true true L.aW L.aD)) (chunks L.perR l) rest (by
    intro ch hc
    have hmem : ∀ v ∈ ch, v ∈ l := fun v hv => by rw [← hflat]; exact List.mem_flatten.mpr ⟨ch, hc, hv⟩
    refine ⟨(hch ch hc).1, ?_, fun v hv => pySci_realTok L.aD v hd (okSci_spec (hok v (hmem v hv))).1⟩
    apply dataLine_words (fmtSci true true L.aW L.aD) (realTok L.aD) (realPre L.aW L.aD)
    intro v hv
    have := okSci_spec (hok v (hmem v hv))
    exact ⟨fmtSci_split _ _ _, realPre_allWs _ _ _, realPre_ne_nil _ _ _ this.2, realTok_noWs _ _, realTok_ne_nil _ _⟩)
  rw [hflat] at hread
  unfold arrayHead
  simp only [List.cons_append, List.nil_append, loadField, h1, h2, hk]
  rw [hw]
  have hpi : pyInt (natToDec l.length) = some (l.length : Int) := by
    have := pyInt_tok (Int.ofNat l.length); simpa [intToDec] using this
  simp [tI, tR, Layout.reader, hpi, hread]

/-! ### all fields -/

theorem dumpField_empty (L : Layout) (f : Fld) (h : nonEmpty f = false) : dumpField L f = [] := by
  obtain ⟨label, v⟩ := f
  cases v with
  | int i => simp [nonEmpty] at h
  | real x => simp [nonEmpty] at h
  | ints l => simp [nonEmpty] at h; simp [dumpField, h]
  | reals l => simp [nonEmpty] at h; simp [dumpField, h]

theorem dumpField_ne (L : Layout) (f : Fld) (h : nonEmpty f = true) : dumpField L f ≠ [] := by
  obtain ⟨label, v⟩ := f
  cases v with
  | int i => simp [dumpField]
  | real x => simp [dumpField]
  | ints l => simp [nonEmpty] at h; simp [dumpField, h]
  | reals l => simp [nonEmpty] at h; simp [dumpField, h]

theorem loadField_dumpField (L : Layout) (hL : LayoutOK L) (keep : Str → Bool) (f : Fld) (rest : List Str)
    (hl : okLabel L f.1 = true) (hv : okValue L f.2 = true) (hk : keep f.1 = true) (hne : nonEmpty f = true) :
    loadField L.reader keep (dumpField L f ++ rest) = .ok (f, rest) := by
  obtain ⟨label, v⟩ := f
  cases v with
  | int i => exact loadField_int L hL keep label i rest hl hk
  | real x => exact loadField_real L hL keep label x rest hl hk (by simpa [okValue] using hv)
  | ints l =>
    have hne' : l ≠ [] := by simpa [nonEmpty] using hne
    have hie : l.isEmpty = false := by simpa using hne'
    simp only [okValue, Bool.and_eq_true, List.all_eq_true, decide_eq_true_eq] at hv
    simp only [dumpField, hie]
    exact loadField_ints L hL keep label l rest hl hk hne' hv.1 hv.2
  | reals l =>
    have hne' : l ≠ [] := by simpa [nonEmpty] using hne
    have hie : l.isEmpty = false := by simpa using hne'
    simp only [okValue, Bool.and_eq_true, List.all_eq_true, decide_eq_true_eq] at hv
    simp only [dumpField, hie]
    exact loadField_reals L hL keep label l rest hl hk hne' hv.1 hv.2

theorem dictSet_new (d : List Fld) (f : Fld) (h : f.1 ∉ d.map (·.1)) : dictSet d f = d ++ [f] := by
  unfold dictSet
  have : d.any (fun e => e.1 == f.1) = false := by
    rw [List.any_eq_false]; intro e he hc
    exact h (List.mem_map.mpr ⟨e, he, by simpa using hc⟩)
  simp [this]

theorem loadFieldsF_dump (L : Layout) (hL : LayoutOK L) (keep : Str → Bool) : ∀ (fs acc : List Fld) (fuel : Nat),
    (fs.filter nonEmpty).length < fuel →
    (∀ f ∈ fs, okLabel L f.1 = true ∧ okValue L f.2 = true ∧ keep f.1 = true) →
    (acc.map (·.1) ++ fs.map (·.1)).Nodup →
    loadFieldsF L.reader keep fuel acc (fs.flatMap (dumpField L)) = .ok (acc ++ fs.filter nonEmpty) := by
  intro fs; induction fs with
  | nil =>
    intro acc fuel hf _ _
    obtain ⟨g, rfl⟩ : ∃ g, fuel = g + 1 := ⟨fuel - 1, by simp at hf; omega⟩
    simp [loadFieldsF, loadField]
  | cons f fs ih =>
    intro acc fuel hf hok hnd
    have hfs : ∀ g ∈ fs, okLabel L g.1 = true ∧ okValue L g.2 = true ∧ keep g.1 = true :=
      fun g hg => hok g (List.mem_cons_of_mem _ hg)
    by_cases hne : nonEmpty f = true
    · obtain ⟨g, rfl⟩ : ∃ g, fuel = g + 1 := ⟨fuel - 1, by omega⟩
      obtain ⟨h1, h2, h3⟩ := hok f List.mem_cons_self
      have hnew : f.1 ∉ acc.map (·.1) := by
        intro hc
        rw [List.nodup_append] at hnd
        exact hnd.2.2 _ hc _ (by simp) rfl
      simp only [List.flatMap_cons, loadFieldsF, loadField_dumpField L hL keep f _ h1 h2 h3 hne, dictSet_new acc f hnew]
      rw [ih (acc ++ [f]) g (by simp [hne] at hf; omega) hfs (by simpa [List.append_assoc] using hnd)]
      simp [hne]
    · have hne' : nonEmpty f = false := by simpa using hne
      simp only [List.flatMap_cons, dumpField_empty L f hne', List.nil_append, List.filter_cons, hne', Bool.false_eq_true, if_false]
      apply ih acc fuel (by simpa [List.filter_cons, hne'] using hf) hfs
      rw [List.nodup_append] at hnd ⊢
      refine ⟨hnd.1, (List.nodup_cons.mp hnd.2.1).2, ?_⟩
      intro a ha b hb
      exact hnd.2.2 a ha b (List.mem_cons_of_mem _ hb)

theorem lines_ge (L : Layout) : ∀ fs : List Fld, (fs.filter nonEmpty).length ≤ (fs.flatMap (dumpField L)).length := by
  intro fs; induction fs with
  | nil => simp
  | cons f fs ih =>
    rw [List.flatMap_cons, List.length_append]
    by_cases hne : nonEmpty f = true
    · have := dumpField_ne L f hne
      have : 0 < (dumpField L f).length := List.length_pos_iff.mpr this
      rw [List.filter_cons_of_pos hne, List.length_cons]; omega
    · rw [List.filter_cons_of_neg hne]; omega

/-! ### header words -/

theorem vis_noWs : ∀ c ∈ visChars, isWs c = false := by decide
theorem vis_upper : ∀ c ∈ visChars, upperC c ∈ visChars := by decide
theorem vis_lower : ∀ c ∈ visChars, lowerC c ∈ visChars := by decide
theorem vis_ulu : ∀ c ∈ visChars, upperC (lowerC (upperC c)) = upperC c := by decide

def AllVis (s : Str) : Prop := ∀ c ∈ s, c ∈ visChars

theorem okWord_spec {w : Nat} {s : Str} (h : okWord w s = true) : AllVis s ∧ s.length < w := by
  simp only [okWord, Bool.and_eq_true, List.all_eq_true, decide_eq_true_eq] at h
  refine ⟨fun c hc => ?_, h.2⟩
  have := h.1 c hc
  simpa [isVis] using this

theorem okWord_of {w : Nat} {s : Str} (h1 : AllVis s) (h2 : s.length < w) : okWord w s = true := by
  simp only [okWord, Bool.and_eq_true, List.all_eq_true, decide_eq_true_eq]
  exact ⟨fun c hc => by simpa [isVis] using h1 c hc, h2⟩

theorem AllVis.noWs {s : Str} (h : AllVis s) : NoWs s := fun c hc => vis_noWs c (h c hc)
theorem AllVis.upper {s : Str} (h : AllVis s) : AllVis (upper s) := by
  intro c hc; simp only [Chars.upper, List.mem_map] at hc
  obtain ⟨a, ha, rfl⟩ := hc; exact vis_upper a (h a ha)
theorem AllVis.lower {s : Str} (h : AllVis s) : AllVis (lower s) := by
  intro c hc; simp only [Chars.lower, List.mem_map] at hc
  obtain ⟨a, ha, rfl⟩ := hc; exact vis_lower a (h a ha)
theorem lulu {s : Str} (h : AllVis s) : lower (upper (lower (upper s))) = lower (upper s) := by
  simp only [Chars.lower, Chars.upper, List.map_map]
  apply List.map_congr_left
  intro c hc
  simp [vis_ulu c (h c hc)]

theorem length_upper (s : Str) : (upper s).length = s.length := by simp [Chars.upper]
theorem length_lower (s : Str) : (lower s).length = s.length := by simp [Chars.lower]

theorem header_words (L : Layout) (c l b : Str) (hc : AllVis c ∧ c.length < L.cmdW ∧ c ≠ []) (hl : AllVis l ∧ l.length < L.lotW ∧ l ≠ [])
    (hb : AllVis b ∧ b ≠ []) :
    splitWs (ljust L.cmdW c ++ (ljust L.lotW l ++ (rjust L.basW b ++ ['\n']))) = [c, l, b] := by
  have e : ljust L.cmdW c ++ (ljust L.lotW l ++ (rjust L.basW b ++ ['\n']))
      = ([Padded.mk [] c [], Padded.mk (spaces (L.cmdW - c.length)) l [],
          Padded.mk (spaces (L.lotW - l.length) ++ spaces (L.basW - b.length)) b []].map Padded.render).flatten ++ ['\n'] := by
    simp [Padded.render, ljust, rjust]
  rw [e, splitWs_fields _ ['\n'] ?_ ?_ (brk_nl _), splitWs_nl]
  · simp
  · intro x hx
    simp only [List.mem_cons, List.not_mem_nil, or_false] at hx
    rcases hx with rfl | rfl | rfl
    · exact ⟨allWs_nil, hc.1.noWs, hc.2.2, allWs_nil⟩
    · exact ⟨allWs_spaces _, hl.1.noWs, hl.2.2, allWs_nil⟩
    · exact ⟨allWs_append (allWs_spaces _) (allWs_spaces _), hb.1.noWs, hb.2, allWs_nil⟩
  · intro x hx
    simp only [List.tail_cons, List.mem_cons, List.not_mem_nil, or_false] at hx
    rcases hx with rfl | rfl
    · exact spaces_ne_nil (by omega)
    · intro e2; exact spaces_ne_nil (by omega) (List.append_eq_nil_iff.mp e2).1

theorem lookupK_mem {κ ν} [BEq κ] (t : List (κ × ν)) (k : κ) (v : ν) (h : lookupK t k = some v) : ∃ e ∈ t, e.2 = v := by
  unfold lookupK at h
  cases hf : t.find? (fun e => e.1 == k) with
  | none => simp [hf] at h
  | some e =>
    simp [hf] at h
    exact ⟨e, List.mem_of_find?_eq_some hf, h⟩

theorem layout_absent {L : Layout} (hL : LayoutOK L) : AllVis L.absent ∧ L.absent.length < min L.cmdW (min L.lotW L.basW) ∧ L.absent ≠ [] :=
  ⟨(okWord_spec hL.2.2.2.2.2.2.2.2.2.2.1).1, (okWord_spec hL.2.2.2.2.2.2.2.2.2.2.1).2, hL.2.2.2.2.2.2.2.2.2.2.2⟩

theorem orNA_spec (L : Layout) (hL : LayoutOK L) (w : Nat) (hw : min L.cmdW (min L.lotW L.basW) ≤ w) (s : Option Str) (h : optWord w s = true) :
    AllVis (orNA L s) ∧ (orNA L s).length < w ∧ orNA L s ≠ [] := by
  obtain ⟨a1, a2, a3⟩ := layout_absent hL
  cases s with
  | none => exact ⟨a1, by simp only [orNA]; omega, a3⟩
  | some r =>
    simp only [orNA]
    by_cases he : r.isEmpty = true
    · simp only [he, if_true]; exact ⟨a1, by omega, a3⟩
    · simp only [he, if_false, Bool.false_eq_true]
      obtain ⟨h1, h2⟩ := okWord_spec h
      exact ⟨h1, h2, by intro e; subst e; simp at he⟩

theorem commandOf_spec (L : Layout) (hL : LayoutOK L) (R : RunTypes) (hR : RunTypesOK L R) (rt : Option Str) (h : optWord L.cmdW rt = true) :
    AllVis (commandOf L R rt) ∧ (commandOf L R rt).length < L.cmdW ∧ commandOf L R rt ≠ [] := by
  have hs := orNA_spec L hL L.cmdW (Nat.min_le_left _ _) rt h
  have e : commandOf L R rt = (lookupK R.writer (orNA L rt)).getD (upper (orNA L rt)) := by
    cases rt <;> rfl
  rw [e]
  cases hl : lookupK R.writer (orNA L rt) with
  | none =>
    simp only [Option.getD]
    exact ⟨hs.1.upper, by rw [length_upper]; exact hs.2.1, by
      intro e2; have := congrArg List.length e2; rw [length_upper] at this
      exact hs.2.2 (List.length_eq_zero_iff.mp this)⟩
  | some v =>
    obtain ⟨e1, he1, rfl⟩ := lookupK_mem _ _ _ hl
    obtain ⟨h1, h2⟩ := hR.1 e1 he1
    simp only [Option.getD]
    exact ⟨(okWord_spec h1).1, (okWord_spec h1).2, h2⟩

theorem okTitle_spec {t : Str} (h : okTitle t = true) : Trimmed t := by
  simp only [okTitle, Bool.and_eq_true, decide_eq_true_eq] at h; exact h.1

theorem okTitle_outTitle (L : Layout) (hL : LayoutOK L) (t : Str) (h : okTitle t = true) : okTitle (outTitle L t) = true := by
  unfold outTitle; split
  · exact hL.2.2.2.2.2.2.2.2.1
  · exact h

/-- C02 at the field layer: a whole file (two header lines and any list of fields) is read back as written -/
theorem load_dump (L : Layout) (hL : LayoutOK L) (R : RunTypes) (hR : RunTypesOK L R) (keep : Str → Bool) (o : Obj) (h : Dom L o)
    (hk : ∀ f ∈ o.fields, keep f.1 = true) : load L.reader R keep (dump L R o) = .ok (norm L R o) := by
  obtain ⟨ht, hrt, hlot, hbas, hf, hnd⟩ := h
  have hc := commandOf_spec L hL R hR o.runType hrt
  have hl := orNA_spec L hL L.lotW (Nat.le_trans (Nat.min_le_right _ _) (Nat.min_le_left _ _)) o.lot hlot
  have hb := orNA_spec L hL L.basW (Nat.le_trans (Nat.min_le_right _ _) (Nat.min_le_right _ _)) o.basis hbas
  have hw := header_words L (commandOf L R o.runType) (upper (orNA L o.lot)) (upper (orNA L o.basis)) hc
    ⟨hl.1.upper, by rw [length_upper]; exact hl.2.1, by
      intro e; have := congrArg List.length e; rw [length_upper] at this; exact hl.2.2 (List.length_eq_zero_iff.mp this)⟩
    ⟨hb.1.upper, by
      intro e; have := congrArg List.length e; rw [length_upper] at this; exact hb.2.2 (List.length_eq_zero_iff.mp this)⟩
  have htitle : strip (ljust L.titleW (outTitle L o.title) ++ ['\n']) = outTitle L o.title := by
    have := strip_pad [] (outTitle L o.title) (spaces (L.titleW - (outTitle L o.title).length) ++ ['\n']) allWs_nil
      (allWs_append (allWs_spaces _) allWs_nl) (okTitle_spec (okTitle_outTitle L hL _ ht))
    simpa [ljust] using this
  have hfields := loadFieldsF_dump L hL keep o.fields [] ((o.fields.flatMap (dumpField L)).length + 1)
    (by have := lines_ge L o.fields; omega) (fun f hf' => ⟨(hf f hf').1, (hf f hf').2, hk f hf'⟩) (by simpa using hnd)
  unfold load dump headerLines
  simp only [List.cons_append, List.nil_append, hw, htitle, hfields]
  simp [norm]

/-! ### C15 -/

theorem outTitle_idem (L : Layout) (hL : LayoutOK L) (t : Str) : outTitle L (outTitle L t) = outTitle L t := by
  unfold outTitle
  by_cases h : t.isEmpty = true
  · have : L.defaultTitle.isEmpty = false := by
      cases e : L.defaultTitle with
      | nil => exact absurd e hL.2.2.2.2.2.2.2.2.2.1
      | cons _ _ => rfl
    simp [h, this]
  · simp [h]

theorem orNA_some_ne (L : Layout) (s : Str) (h : s ≠ []) : orNA L (some s) = s := by
  cases s with
  | nil => exact absurd rfl h
  | cons _ _ => rfl

theorem lu_ne {s : Str} (h : s ≠ []) : lower (upper s) ≠ [] := by
  intro e; have := congrArg List.length e; rw [length_lower, length_upper] at this
  exact h (List.length_eq_zero_iff.mp this)

theorem runType_idem (L : Layout) (R : RunTypes) (hR : RunTypesOK L R) (rt : Option Str) :
    lookupK R.reader (commandOf L R (lookupK R.reader (commandOf L R rt))) = lookupK R.reader (commandOf L R rt) := by
  cases h : lookupK R.reader (commandOf L R rt) with
  | none => exact hR.2.1
  | some k =>
    obtain ⟨e, he, rfl⟩ := lookupK_mem _ _ _ h
    exact (hR.2.2 e he).1

theorem norm_idem (L : Layout) (hL : LayoutOK L) (R : RunTypes) (hR : RunTypesOK L R) (o : Obj) (h : Dom L o) :
    norm L R (norm L R o).obj = norm L R o := by
  obtain ⟨_, _, hlot, hbas, _, _⟩ := h
  have hl := orNA_spec L hL L.lotW (Nat.le_trans (Nat.min_le_right _ _) (Nat.min_le_left _ _)) o.lot hlot
  have hb := orNA_spec L hL L.basW (Nat.le_trans (Nat.min_le_right _ _) (Nat.min_le_right _ _)) o.basis hbas
  simp only [norm, Loaded.obj, outTitle_idem L hL, runType_idem L R hR, orNA_some_ne L _ (lu_ne hl.2.2),
    orNA_some_ne L _ (lu_ne hb.2.2), lulu hl.1, lulu hb.1, List.filter_filter, Bool.and_self]

theorem dom_norm (L : Layout) (hL : LayoutOK L) (R : RunTypes) (hR : RunTypesOK L R) (o : Obj) (h : Dom L o) :
    Dom L (norm L R o).obj := by
  obtain ⟨ht, hrt, hlot, hbas, hf, hnd⟩ := h
  have hl := orNA_spec L hL L.lotW (Nat.le_trans (Nat.min_le_right _ _) (Nat.min_le_left _ _)) o.lot hlot
  have hb := orNA_spec L hL L.basW (Nat.le_trans (Nat.min_le_right _ _) (Nat.min_le_right _ _)) o.basis hbas
  refine ⟨okTitle_outTitle L hL _ ht, ?_, ?_, ?_, ?_, ?_⟩
  · simp only [norm, Loaded.obj]
    cases hk : lookupK R.reader (commandOf L R o.runType) with
    | none => rfl
    | some k =>
      obtain ⟨e, he, rfl⟩ := lookupK_mem _ _ _ hk
      exact (hR.2.2 e he).2
  · exact okWord_of hl.1.upper.lower (by simp only [norm]; rw [length_lower, length_upper]; exact hl.2.1)
  · exact okWord_of hb.1.upper.lower (by rw [length_lower, length_upper]; exact hb.2.1)
  · intro f hf'
    exact hf f (List.mem_filter.mp hf').1
  · exact List.Pairwise.sublist ((List.filter_sublist).map _) hnd

end Iodata.Fmt.Fchk
