/- POSCAR text layer: number lines, element/count lines, the switches, C02 and C15 on top of the structure layer. -/
import Iodata.Lemmas.Fmt.Poscar
import Iodata.Lemmas.Fmt.Fchk
import Iodata.Model.Fmt.PoscarW
namespace Iodata.Fmt.PoscarW
open Iodata.Chars Iodata.Decimal Iodata.Fmt Iodata.Fmt.Poscar

/-! ### numbers -/

def numPre (L : Layout) (x : Fx) : Str := spaces (L.w - (fixCore true L.d x).length) ++ (if x.neg then [] else [' '])

theorem num_split (L : Layout) (x : Fx) : num L x = numPre L x ++ fixCore false L.d x := by
  unfold num fmtFix rjust numPre fixCore signStr
  cases x.neg <;> simp

theorem numPre_allWs (L : Layout) (x : Fx) : AllWs (numPre L x) := by
  unfold numPre
  apply allWs_append (allWs_spaces _)
  split
  · exact allWs_nil
  · decide

theorem pyFix_tok (d : Nat) (x : Fx) : pyFix d (fixCore false d x) = some x := by
  have := pyFix_fixCore false d x [] [] allWs_nil allWs_nil
  simpa using this

def nP (L : Layout) (pre : Str) (x : Fx) : Padded := ⟨pre ++ numPre L x, fixCore false L.d x, []⟩

theorem nP_ok (L : Layout) (pre : Str) (hp : AllWs pre) (x : Fx) : (nP L pre x).OK :=
  ⟨allWs_append hp (numPre_allWs L x), fixCore_noWs L.d x, fixCore_ne_nil false L.d x, allWs_nil⟩

/-- the words of `lead ++ "{a: w.df} {b: w.df} {c: w.df}" ++ tail` -/
theorem vec3_words (L : Layout) (lead : Str) (hl : AllWs lead) (v : V3) (tail : Str) (ht : Brk tail) :
    splitWs (lead ++ (vec3 L v ++ tail)) =
      [fixCore false L.d v.a, fixCore false L.d v.b, fixCore false L.d v.c] ++ splitWs tail := by
  have e : lead ++ (vec3 L v ++ tail) = (([nP L lead v.a, nP L [' '] v.b, nP L [' '] v.c]).map Padded.render).flatten ++ tail := by
    simp [vec3, nP, Padded.render, num_split]
  rw [e, splitWs_fields _ tail ?_ ?_ ht]
  · simp [nP]
  · intro p hp
    simp only [List.mem_cons, List.not_mem_nil, or_false] at hp
    rcases hp with rfl | rfl | rfl
    · exact nP_ok L lead hl v.a
    · exact nP_ok L [' '] (by decide) v.b
    · exact nP_ok L [' '] (by decide) v.c
  · intro p hp
    simp only [List.tail_cons, List.mem_cons, List.not_mem_nil, or_false] at hp
    rcases hp with rfl | rfl <;> simp [nP]

theorem optAll_toks (d : Nat) (v : V3) :
    optAll (pyFix d) [fixCore false d v.a, fixCore false d v.b, fixCore false d v.c] = some [v.a, v.b, v.c] := by
  simp [optAll, pyFix_tok]

theorem readVec_cellLine (L : Layout) (v : V3) : readVec L.d (splitWs (cellLine L v)) = .ok v := by
  have h := vec3_words L [] allWs_nil v ['\n'] (brk_nl _)
  simp only [List.nil_append] at h
  unfold cellLine readVec
  rw [h, Fchk.splitWs_nl, List.append_nil, optAll_toks]

theorem readPos_atomLine (L : Layout) (hlead : AllWs L.lead) (htail : brkB (L.tail ++ ['\n']) = true) (a : Atom) :
    readPos L.d (atomLine L a) = .ok a.pos := by
  have h := vec3_words L L.lead hlead a.pos (L.tail ++ ['\n']) (brk_of_brkB htail)
  unfold atomLine readPos readVec
  rw [h]
  have : ([fixCore false L.d a.pos.a, fixCore false L.d a.pos.b, fixCore false L.d a.pos.c] ++ splitWs (L.tail ++ ['\n'])).take 3
      = [fixCore false L.d a.pos.a, fixCore false L.d a.pos.b, fixCore false L.d a.pos.c] := by
    simp
  rw [this, optAll_toks]

/-! ### element and count lines -/

theorem okZ_spec {T : Tables} {z : Nat} (h : okZ T z = true) :
    ∃ s, T.sym? z = some s ∧ NoWs s ∧ s ≠ [] ∧ T.num? s = some z := by
  unfold okZ at h
  cases e : T.sym? z with
  | none => simp [e] at h
  | some s =>
    simp only [e, Bool.and_eq_true, decide_eq_true_eq, Bool.not_eq_true', beq_iff_eq] at h
    refine ⟨s, rfl, h.1.1, ?_, h.2⟩
    intro hs; subst hs; simp at h

theorem optAll_map {α β γ} (f : α → Option β) (g : γ → α) (k : γ → β) : ∀ (l : List γ), (∀ x ∈ l, f (g x) = some (k x)) →
    optAll f (l.map g) = some (l.map k) := by
  intro l
  induction l with
  | nil => intro _; rfl
  | cons x l ih =>
    intro h
    simp only [List.map_cons, optAll, h x List.mem_cons_self, ih (fun y hy => h y (List.mem_cons_of_mem _ hy))]

theorem elemLine_read (T : Tables) (L : Layout) (cs : List (Nat × Nat)) (h : ∀ p ∈ cs, okZ T p.1 = true) :
    optAll T.num? (splitWs (elemLine T L cs)) = some (cs.map (·.1)) := by
  let pads : List Padded := cs.map fun p => ⟨[], T.sym p.1, spaces (L.symW - (T.sym p.1).length)⟩
  have hr : elemLine T L cs = joinSp (pads.map Padded.render) ++ ['\n'] := by
    simp [elemLine, pads, Padded.render, ljust, List.map_map, Function.comp_def]
  have hok : ∀ x ∈ pads, x.OK := by
    intro x hx
    obtain ⟨p, hp, rfl⟩ := List.mem_map.mp hx
    obtain ⟨s, hs, hnw, hne, _⟩ := okZ_spec (h p hp)
    have : T.sym p.1 = s := by simp [Tables.sym, hs]
    exact ⟨allWs_nil, this ▸ hnw, this ▸ hne, allWs_spaces _⟩
  rw [hr, splitWs_joinSp_padded pads ['\n'] hok (brk_nl []), Fchk.splitWs_nl, List.append_nil]
  simp only [pads, List.map_map, Function.comp_def]
  apply optAll_map
  intro p hp
  obtain ⟨s, hs, _, _, hb⟩ := okZ_spec (h p hp)
  have : T.sym p.1 = s := by simp [Tables.sym, hs]
  rw [this, hb]

theorem countLine_read (L : Layout) (cs : List (Nat × Nat)) :
    optAll pyInt (splitWs (countLine L cs)) = some (cs.map fun p => (p.2 : Int)) := by
  let pads : List Padded := cs.map fun p => ⟨spaces (L.cntW - (intToDec (p.2 : Int)).length), intToDec (p.2 : Int), []⟩
  have hr : countLine L cs = joinSp (pads.map Padded.render) ++ ['\n'] := by
    simp [countLine, pads, Padded.render, fmtInt, rjust, List.map_map, Function.comp_def]
  have hok : ∀ x ∈ pads, x.OK := by
    intro x hx
    obtain ⟨p, _, rfl⟩ := List.mem_map.mp hx
    exact ⟨allWs_spaces _, intToDec_noWs (p.2 : Int), intToDec_ne_nil (p.2 : Int), allWs_nil⟩
  rw [hr, splitWs_joinSp_padded pads ['\n'] hok (brk_nl []), Fchk.splitWs_nl, List.append_nil]
  simp only [pads, List.map_map, Function.comp_def]
  apply optAll_map
  intro p _
  exact Fchk.pyInt_tok _

theorem zip_fst_snd (cs : List (Nat × Nat)) :
    ((cs.map (·.1)).zip (cs.map fun p => (p.2 : Int))).map (fun p => (p.1, p.2.toNat)) = cs := by
  induction cs with
  | nil => rfl
  | cons p cs ih => simp [ih]

theorem mkAtoms_map (as : List Atom) : mkAtoms (as.map (·.zn)) (as.map (·.pos)) = as := by
  induction as with
  | nil => rfl
  | cons a as ih => simp [mkAtoms, ih]

/-! ### C02 -/

theorem okTitle_spec {t : Str} (h : okTitle t = true) : Trimmed t := by
  simp only [okTitle, Bool.and_eq_true, decide_eq_true_eq] at h; exact h.1

theorem okTitle_outTitle (L : Layout) (hL : LayoutOK L) (t : Str) (h : okTitle t = true) : okTitle (outTitle L t) = true := by
  unfold outTitle; split
  · exact hL.2.2.2.2.2.1
  · exact h

theorem headIs_cons {p : Char → Bool} {s : Str} (h : headIs p s = true) : ∃ c r, s = c :: r ∧ p c = true := by
  cases s with
  | nil => simp [headIs] at h
  | cons c r => exact ⟨c, r, rfl, h⟩

/-- C02 for the POSCAR text: every title, every cell, every list of atoms (any number, any elements of the table, any
order): the numbers of the file are read back digit by digit and the atoms come back grouped by element -/
theorem load_dump (T : Tables) (L : Layout) (hL : LayoutOK L) (o : Obj) (h : Dom T o) :
    load T L (dump T L o) = .ok (norm L o) := by
  obtain ⟨ht, hc, hz⟩ := h
  obtain ⟨hscale, hsel, hdir, hlead, htail, _, _⟩ := hL
  obtain ⟨title, cell, atoms⟩ := o
  simp only at ht hc hz
  match cell, hc with
  | [r0, r1, r2], _ =>
    have htitle : strip (outTitle L title ++ ['\n']) = outTitle L title := by
      have := strip_pad [] (outTitle L title) ['\n'] allWs_nil allWs_nl
        (okTitle_spec (okTitle_outTitle L ⟨hscale, hsel, hdir, hlead, htail, ‹_›, ‹_›⟩ _ ht))
      simpa using this
    obtain ⟨sv, hsv⟩ := Option.isSome_iff_exists.mp hscale
    have hcs : ∀ p ∈ counts (·.zn) atoms, okZ T p.1 = true := by
      intro p hp
      simp only [counts, List.mem_map] at hp
      obtain ⟨z, hzm, rfl⟩ := hp
      obtain ⟨a, ha, rfl⟩ := List.mem_map.mp ((mem_uniqDesc _ z).mp hzm)
      exact hz a ha
    have hkeys := group_keys (·.zn) atoms
    obtain ⟨cs, rs, hse, hsp⟩ := headIs_cons hsel
    obtain ⟨cd, rd, hde, hdp⟩ := headIs_cons hdir
    simp only [Bool.and_eq_true, Bool.not_eq_true'] at hdp
    have hatoms := readN_map (readPos L.d) (atomLine L) (·.pos) (group (·.zn) atoms) []
      (fun a _ => readPos_atomLine L hlead htail a)
    simp only [List.append_nil] at hatoms
    have hlen : (expand (counts (·.zn) atoms)).length = (group (·.zn) atoms).length := by
      rw [← hkeys, List.length_map]
    simp only [dump, load, List.map_cons, List.map_nil, List.cons_append, List.nil_append, hsv, readVec_cellLine,
      elemLine_read T L _ hcs, countLine_read, zip_fst_snd, loadTail, hse, hde, hsp, if_true, hlen, hatoms]
    simp only [norm, scaleVal, hsv, Option.getD_some, htitle, hdp.2, ← hkeys, mkAtoms_map]

/-! ### C15 -/

theorem outTitle_idem (L : Layout) (hne : L.defaultTitle ≠ []) (t : Str) : outTitle L (outTitle L t) = outTitle L t := by
  unfold outTitle
  by_cases h : t.isEmpty = true
  · have : L.defaultTitle.isEmpty = false := by
      cases e : L.defaultTitle with
      | nil => exact absurd e hne
      | cons _ _ => rfl
    simp [h, this]
  · simp [h]

theorem norm_idem (L : Layout) (hL : LayoutOK L) (o : Obj) : norm L (norm L o).obj = norm L o := by
  simp [norm, Loaded.obj, outTitle_idem L hL.2.2.2.2.2.2, group_idem]

theorem dom_norm (T : Tables) (L : Layout) (hL : LayoutOK L) (o : Obj) (h : Dom T o) : Dom T (norm L o).obj := by
  obtain ⟨ht, hc, hz⟩ := h
  refine ⟨okTitle_outTitle L hL _ ht, hc, ?_⟩
  intro a ha
  have ha' : a ∈ group (fun x : Atom => x.zn) o.atoms := ha
  exact hz a ((group_perm (fun x : Atom => x.zn) o.atoms).mem_iff.mp ha')

end Iodata.Fmt.PoscarW
