/- WFN section layer: the cut loop, sections of every size, header lines by column, C02 and C15. -/
import Iodata.Lemmas.Fmt.Core
import Iodata.Lemmas.Fmt.Fchk
import Iodata.Lemmas.DecimalSci
import Iodata.Model.Fmt.WfnS
namespace Iodata.Fmt.WfnS
open Iodata.Chars Iodata.Decimal Iodata.Fmt

/-! ### the cut loop and sections of every size -/

theorem cutF_flatten {α} (step : Nat) (render : α → Str) (tail : Str) (ht : tail.length < step) :
    ∀ (xs : List α) (fuel : Nat), xs.length < fuel → (∀ x ∈ xs, (render x).length = step) →
    cutF step fuel ((xs.map render).flatten ++ tail) = xs.map render := by
  intro xs
  induction xs with
  | nil =>
    intro fuel hf _
    cases fuel with
    | zero => rfl
    | succ f => simp [cutF]; omega
  | cons x xs ih =>
    intro fuel hf hw
    cases fuel with
    | zero => simp at hf
    | succ f =>
      have hx := hw x List.mem_cons_self
      simp only [List.map_cons, List.flatten_cons, List.append_assoc, cutF]
      have hle : step ≤ (render x ++ ((xs.map render).flatten ++ tail)).length := by simp; omega
      rw [if_pos hle, List.take_left' hx, List.drop_left' hx]
      rw [ih f (by simpa using hf) (fun y hy => hw y (List.mem_cons_of_mem _ hy))]

theorem cut_line {α} (step : Nat) (hstep : 2 ≤ step) (render : α → Str) (xs : List α) (hw : ∀ x ∈ xs, (render x).length = step) :
    cut step ((xs.map render).flatten ++ ['\n']) = xs.map render := by
  unfold cut
  apply cutF_flatten step render ['\n'] (by simp; omega) xs _ _ hw
  have : ((xs.map render).flatten).length = xs.length * step := by
    induction xs with
    | nil => simp
    | cons x xs ih =>
      simp only [List.map_cons, List.flatten_cons, List.length_append, List.length_cons]
      rw [ih (fun y hy => hw y (List.mem_cons_of_mem _ hy)), hw x List.mem_cons_self]
      rw [Nat.add_mul]; omega
  simp only [List.length_append, this, List.length_cons, List.length_nil]
  have : xs.length * 2 ≤ xs.length * step := Nat.mul_le_mul_left _ hstep
  omega

theorem optAll_map {α β γ} (f : α → Option β) (g : γ → α) : ∀ (l : List γ) (k : γ → β), (∀ x ∈ l, f (g x) = some (k x)) →
    optAll f (l.map g) = some (l.map k) := by
  intro l
  induction l with
  | nil => intro _ _; rfl
  | cons x l ih =>
    intro k h
    simp only [List.map_cons, optAll, h x List.mem_cons_self, ih k (fun y hy => h y (List.mem_cons_of_mem _ hy))]

theorem startsWith_append (p a b : Str) (h : startsWith p a = true) : startsWith p (a ++ b) = true := by
  unfold startsWith at h ⊢
  rw [List.isPrefixOf_iff_prefix] at h ⊢
  exact h.trans (List.prefix_append a b)

def secLine {α} (hdr : Str) (render : α → Str) (ch : List α) : Str := hdr ++ ((ch.map render).flatten ++ ['\n'])

/-- reading back any number of section lines, whatever was read before and whatever follows -/
theorem readSecF_lines {α} (conv : Str → Option α) (start hdr : Str) (skip step : Nat) (render : α → Str) (hstep : 2 ≤ step)
    (hhdr : hdr.length = skip) (hst : startsWith start hdr = true) (rest : List Str) :
    ∀ (cs : List (List α)) (acc : List α) (fuel : Nat), cs.length < fuel → (∀ c ∈ cs, c ≠ []) →
    (∀ c ∈ cs, ∀ x ∈ c, (render x).length = step ∧ conv (replaceD (render x)) = some x) →
    readSecF conv start skip step (acc.length + cs.flatten.length) fuel acc (cs.map (secLine hdr render) ++ rest)
      = .ok (acc ++ cs.flatten, rest) := by
  intro cs
  induction cs with
  | nil =>
    intro acc fuel hf _ _
    cases fuel with
    | zero => simp at hf
    | succ f => simp [readSecF]
  | cons c cs ih =>
    intro acc fuel hf hne hx
    cases fuel with
    | zero => simp at hf
    | succ f =>
      have hc := hne c List.mem_cons_self
      have hcl : 0 < c.length := List.length_pos_iff.mpr hc
      have hlt : acc.length < acc.length + (c :: cs).flatten.length := by simp; omega
      simp only [List.map_cons, List.cons_append, readSecF, hlt, if_true]
      have hsw : startsWith start (secLine hdr render c) = true := startsWith_append _ _ _ hst
      have hdrop : (secLine hdr render c).drop skip = (c.map render).flatten ++ ['\n'] := List.drop_left' hhdr
      have hcut := cut_line step hstep render c (fun x hx' => (hx c List.mem_cons_self x hx').1)
      have hopt : optAll (fun w => conv (replaceD w)) (c.map render) = some (c.map id) :=
        optAll_map _ render c id (fun x hx' => (hx c List.mem_cons_self x hx').2)
      simp only [hsw, Bool.not_true, Bool.false_eq_true, if_false, hdrop, hcut, hopt, List.map_id]
      have := ih (acc ++ c) f (by simpa using hf) (fun d hd => hne d (List.mem_cons_of_mem _ hd))
        (fun d hd => hx d (List.mem_cons_of_mem _ hd))
      have e : (acc ++ c).length + cs.flatten.length = acc.length + (c :: cs).flatten.length := by simp; omega
      rw [e] at this
      rw [this]; simp

/-- C02 for one section: `_load_helper_section` on the lines of `_dump_helper_section` returns the items, for every number
of items (ragged last line included) -/
theorem readSecF_secLines {α} (conv : Str → Option α) (start header : Str) (skip step per : Nat) (render : α → Str)
    (hstep : 2 ≤ step) (hper : 0 < per) (hst : startsWith start (ljust skip (header.take skip)) = true)
    (items : List α) (hx : ∀ x ∈ items, (render x).length = step ∧ conv (replaceD (render x)) = some x) (rest : List Str)
    (fuel : Nat) (hf : (secLines header skip per render items).length < fuel) :
    readSecF conv start skip step items.length fuel [] (secLines header skip per render items ++ rest) = .ok (items, rest) := by
  unfold secLines at hf ⊢
  by_cases he : items = []
  · subst he
    cases fuel with
    | zero => simp at hf
    | succ f => simp [readSecF]
  · have hie : items.isEmpty = false := by cases items; exact absurd rfl he; rfl
    simp only [hie, Bool.false_eq_true, if_false] at hf ⊢
    obtain ⟨hflat, hne⟩ := Fchk.chunks_spec per hper items he
    have hlen : (ljust skip (header.take skip)).length = skip := length_ljust _ _ (List.length_take_le _ _)
    have := readSecF_lines conv start (ljust skip (header.take skip)) skip step render hstep hlen hst rest
      (Fchk.chunks per items) [] fuel (by simpa using hf) (fun c hc => (hne c hc).1)
      (fun c hc x hxc => hx x (by rw [← hflat]; exact List.mem_flatten.mpr ⟨c, hc, hxc⟩))
    simp only [List.length_nil, Nat.zero_add, hflat, List.nil_append] at this
    exact this

theorem readSec_secLines {α} (conv : Str → Option α) (start header : Str) (skip step per : Nat) (render : α → Str)
    (hstep : 2 ≤ step) (hper : 0 < per) (hst : startsWith start (ljust skip (header.take skip)) = true)
    (items : List α) (hx : ∀ x ∈ items, (render x).length = step ∧ conv (replaceD (render x)) = some x) (rest : List Str) :
    readSec conv start skip step items.length (secLines header skip per render items ++ rest) = .ok (items, rest) := by
  unfold readSec
  exact readSecF_secLines conv start header skip step per render hstep hper hst items hx rest _ (by simp; omega)

/-- a blank line inside a section without name is skipped -/
theorem readSecF_blank {α} (conv : Str → Option α) (step n : Nat) (hstep : 2 ≤ step) (f : Nat) (acc : List α) (ls : List Str)
    (h : acc.length < n) : readSecF conv [] 0 step n (f + 1) acc (['\n'] :: ls) = readSecF conv [] 0 step n f acc ls := by
  have hc : cut step (List.drop 0 ['\n']) = [] := by
    unfold cut; simp [cutF]; omega
  simp only [readSecF, h, if_true, startsWith, List.isPrefixOf, Bool.not_true, Bool.false_eq_true, if_false, hc, optAll, List.append_nil]

/-! ### numbers in columns -/

theorem length_fmtInt {w : Nat} {i : Int} (h : fitsI w i = true) : (fmtInt w i).length = w := by
  simp only [fitsI, decide_eq_true_eq] at h; exact length_rjust _ _ h

theorem length_fmtFix {w d : Nat} {x : Fx} (h : fitsF w d x = true) : (fmtFix false w d x).length = w := by
  simp only [fitsF, decide_eq_true_eq] at h; exact length_rjust _ _ h

theorem length_fmtSci {w d : Nat} {x : Sci} (h : fitsS w d x = true) : (fmtSci false true w d x).length = w := by
  simp only [fitsS, Bool.and_eq_true, decide_eq_true_eq] at h; exact length_rjust _ _ h.1

theorem pyInt_fmtInt (w : Nat) (i : Int) : pyInt (fmtInt w i) = some i := by
  have := pyInt_intToDec (spaces (w - (intToDec i).length)) [] i (allWs_spaces _) allWs_nil
  simpa [fmtInt, rjust] using this

theorem pyFix_fmtFix0 (w d : Nat) (x : Fx) : pyFix d (fmtFix false w d x) = some x := by
  have := pyFix_fmtFix false w d x [] allWs_nil
  simpa using this

theorem noD_spaces (n : Nat) : 'D' ∉ spaces n := by
  intro h; have := List.eq_of_mem_replicate h; revert this; decide

theorem replaceD_fmtInt (w : Nat) (i : Int) : replaceD (fmtInt w i) = fmtInt w i := by
  apply replaceD_id
  unfold fmtInt rjust
  intro h
  rcases List.mem_append.mp h with h | h
  · exact noD_spaces _ h
  · cases i with
    | ofNat n => exact (allDigits_natToDec n).no_D h
    | negSucc n =>
      rcases List.mem_cons.mp h with h | h
      · revert h; decide
      · exact (allDigits_natToDec _).no_D h

theorem pySci_fmtSci0 (w d : Nat) (hd : 0 < d) (x : Sci) (h : fitsS w d x = true) :
    pySci d (replaceD (fmtSci false true w d x)) = some x := by
  simp only [fitsS, Bool.and_eq_true, decide_eq_true_eq] at h
  have e : replaceD (fmtSci false true w d x) = fmtSci false true w d x := by
    apply replaceD_id
    unfold fmtSci rjust sciCore sciCoreC
    intro hm
    rcases List.mem_append.mp hm with hm | hm
    · exact noD_spaces _ hm
    · rcases List.mem_append.mp hm with hm | hm
      · unfold signStr at hm; split at hm
        · revert hm; decide
        · revert hm; simp
      · rcases List.mem_append.mp hm with hm | hm
        · exact manDigits_no_D d x.man hm
        · rcases List.mem_cons.mp hm with hm | hm
          · revert hm; decide
          · exact expStr_no_D x.exp hm
  rw [e]
  have := pySci_fmtSci false true w d x hd h.2 [] allWs_nil
  simpa using this

/-! ### header lines by column -/

theorem numLine_read (L : Layout) (hL : LayoutOK L) (a b c : Nat)
    (ha : fitsI L.moW a = true) (hb : fitsI L.primW b = true) (hc : fitsI L.natW c = true) :
    startsWith startG (numLine L a b c) = true ∧ pyInt (sl L.sMo (numLine L a b c)) = some (a : Int) ∧
    pyInt (sl L.sPrim (numLine L a b c)) = some (b : Int) ∧ pyInt (sl L.sNat (numLine L a b c)) = some (c : Int) := by
  obtain ⟨h1, h2, h3, _⟩ := hL
  let A := fmtInt L.moW a
  let B := fmtInt L.primW b
  let C := fmtInt L.natW c
  have lA : A.length = L.moW := length_fmtInt ha
  have lB : B.length = L.primW := length_fmtInt hb
  have lC : C.length = L.natW := length_fmtInt hc
  have e0 : numLine L a b c = ([lGauss] ++ A :: [lMol, B, lPrim, C, lNuc, ['\n']]).flatten := by simp [numLine, A, B, C]
  have e1 : numLine L a b c = ([lGauss, A, lMol] ++ B :: [lPrim, C, lNuc, ['\n']]).flatten := by simp [numLine, A, B, C]
  have e2 : numLine L a b c = ([lGauss, A, lMol, B, lPrim] ++ C :: [lNuc, ['\n']]).flatten := by simp [numLine, A, B, C]
  refine ⟨startsWith_append _ _ _ (by decide), ?_, ?_, ?_⟩
  · have : sl L.sMo (numLine L a b c) = A := by
      unfold sl; rw [e0, h1]; exact slice_flatten _ _ _ _ _ (by simp) (by simp [lA])
    rw [this]; exact pyInt_fmtInt _ _
  · have : sl L.sPrim (numLine L a b c) = B := by
      unfold sl; rw [e1, h2]; exact slice_flatten _ _ _ _ _ (by simp [lA]; omega) (by simp [lB])
    rw [this]; exact pyInt_fmtInt _ _
  · have : sl L.sNat (numLine L a b c) = C := by
      unfold sl; rw [e2, h3]; exact slice_flatten _ _ _ _ _ (by simp [lA, lB]; omega) (by simp [lC])
    rw [this]; exact pyInt_fmtInt _ _

/-! ### the symbol heuristic -/

theorem titleGo_length : ∀ (u : Str) (b : Bool), (titleGo b u).length = u.length := by
  intro u; induction u with
  | nil => intro b; rfl
  | cons c u ih => intro b; simp [titleGo, ih]

theorem titleGo_take : ∀ (u v : Str) (b : Bool), (titleGo b (u ++ v)).take u.length = titleGo b u := by
  intro u; induction u with
  | nil => intro v b; simp [titleGo]
  | cons c u ih => intro v b; simp [titleGo, ih]

theorem rstrip_append_noWs (u t : Str) (ht : NoWs t) (hne : t ≠ []) : rstrip (u ++ t) = u ++ t := by
  induction u with
  | nil => simpa using rstrip_noWs t ht
  | cons c u ih =>
    have : (u ++ t).isEmpty = false := by
      cases u with
      | nil => cases t with
        | nil => exact absurd rfl hne
        | cons _ _ => rfl
      | cons _ _ => rfl
    simp only [List.cons_append, rstrip, ih, this, Bool.false_and, Bool.false_eq_true, if_false]

theorem okZ_spec {T : Tables} {L : Layout} {z : Nat} (h : okZ T L z = true) :
    ∃ s, T.sym? z = some s ∧ NoWs s ∧ s ≠ [] ∧ s.length ≤ 2 ∧ s.length < L.symW ∧
      symLookup T (title ((s ++ [' ']).take 2)) = some z := by
  unfold okZ at h
  cases e : T.sym? z with
  | none => simp [e] at h
  | some s =>
    simp only [e, Bool.and_eq_true, decide_eq_true_eq, Bool.not_eq_true', beq_iff_eq] at h
    obtain ⟨⟨⟨⟨h1, h2⟩, h3⟩, h4⟩, h5⟩ := h
    exact ⟨s, rfl, h1, by intro hs; subst hs; simp at h2, h3, h4, h5⟩

/-- the first eight columns of an atom line give the element back, for every atom index that fits its column -/
theorem readSym_field (T : Tables) (L : Layout) (z i : Nat) (hz : okZ T L z = true) :
    readSym T (lAtm0 ++ (ljust L.symW (T.sym z) ++ fmtInt L.idxW ((i + 1 : Nat) : Int))) = some z := by
  obtain ⟨s, hs, hnw, hne, hl2, hlw, hlook⟩ := okZ_spec hz
  have hsym : T.sym z = s := by simp [Tables.sym, hs]
  rw [hsym]
  -- the field is `"  " ++ s ++ blanks ++ digits`, with at least one blank after the symbol
  let r : Str := spaces (L.symW - s.length - 1) ++ (spaces (L.idxW - (intToDec ((i + 1 : Nat) : Int)).length) ++ intToDec ((i + 1 : Nat) : Int))
  have hfield : lAtm0 ++ (ljust L.symW s ++ fmtInt L.idxW ((i + 1 : Nat) : Int)) = lAtm0 ++ ((s ++ ' ' :: r) ++ []) := by
    have : spaces (L.symW - s.length) = ' ' :: spaces (L.symW - s.length - 1) := by
      have : L.symW - s.length = (L.symW - s.length - 1) + 1 := by omega
      rw [this]; simp [spaces, List.replicate_succ]
    simp [ljust, fmtInt, rjust, r, this]
  have htrim : Trimmed (s ++ ' ' :: r) := by
    constructor
    · cases s with
      | nil => exact absurd rfl hne
      | cons c s' =>
        have hc : isWs c = false := hnw c List.mem_cons_self
        simp [lstrip, hc]
    · have : s ++ ' ' :: r = (s ++ ' ' :: (spaces (L.symW - s.length - 1) ++ spaces (L.idxW - (intToDec ((i + 1 : Nat) : Int)).length)))
          ++ intToDec ((i + 1 : Nat) : Int) := by simp [r]
      rw [this]
      exact rstrip_append_noWs _ _ (intToDec_noWs _) (intToDec_ne_nil _)
  unfold readSym
  rw [hfield, strip_pad lAtm0 _ [] (by decide) allWs_nil htrim]
  -- the first two characters of the title-cased field are those of the title-cased padded symbol
  have hsplit : s ++ ' ' :: r = (s ++ [' ']).take 2 ++ ((s ++ [' ']).drop 2 ++ r) := by
    rw [← List.append_assoc, List.take_append_drop]; simp
  have hlen : ((s ++ [' ']).take 2).length = 2 := by
    have : 1 ≤ s.length := List.length_pos_iff.mpr hne
    simp; omega
  have : (title (s ++ ' ' :: r)).take 2 = title ((s ++ [' ']).take 2) := by
    unfold Chars.title
    rw [hsplit]
    have := titleGo_take ((s ++ [' ']).take 2) ((s ++ [' ']).drop 2 ++ r) false
    rw [hlen] at this
    exact this
  rw [this]; exact hlook

theorem okAtom_spec {T : Tables} {L : Layout} {a : Atom} (h : okAtom T L a = true) :
    okZ T L a.zn = true ∧ fitsF L.cW L.cD a.x = true ∧ fitsF L.cW L.cD a.y = true ∧ fitsF L.cW L.cD a.z = true ∧
    fitsF L.chW L.chD ⟨false, a.zn * 10 ^ L.chD⟩ = true := by
  simp only [okAtom, Bool.and_eq_true] at h
  exact ⟨h.1.1.1.1, h.1.1.1.2, h.1.1.2, h.1.2, h.2⟩

theorem readAtom_atomLine (T : Tables) (L : Layout) (hL : LayoutOK L) (i : Nat) (a : Atom) (ha : okAtom T L a = true)
    (hi : i + 1 < 10 ^ L.idxW) : readAtom T L (atomLine T L i a) = .ok a := by
  obtain ⟨hz, hx, hy, hzz, hch⟩ := okAtom_spec ha
  obtain ⟨s, hs, hnw, hne, hl2, hlw, _⟩ := okZ_spec hz
  have hsym : T.sym a.zn = s := by simp [Tables.sym, hs]
  obtain ⟨_, _, _, h4, h5, h6, h7, _, _, _, _, _, _, _, _, _, _, _, _, _, _, _, hidx, _⟩ := hL
  let S := ljust L.symW (T.sym a.zn)
  let I := fmtInt L.idxW ((i + 1 : Nat) : Int)
  let X := fmtFix false L.cW L.cD a.x
  let Y := fmtFix false L.cW L.cD a.y
  let Z := fmtFix false L.cW L.cD a.z
  let C := fmtFix false L.chW L.chD ⟨false, a.zn * 10 ^ L.chD⟩
  have lS : S.length = L.symW := by simp only [S, hsym]; exact length_ljust _ _ (by omega)
  have lI : I.length = L.idxW := length_rjust _ _ (length_natToDec_le _ _ hi hidx)
  have lX : X.length = L.cW := length_fmtFix hx
  have lY : Y.length = L.cW := length_fmtFix hy
  have lZ : Z.length = L.cW := length_fmtFix hzz
  have e0 : atomLine T L i a = (lAtm0 ++ (S ++ I)) ++ [lAtm1, I, lAtm2, X, Y, Z, lAtm3, C, ['\n']].flatten := by
    simp [atomLine, S, I, X, Y, Z, C]
  have e1 : atomLine T L i a = ([lAtm0, S, I, lAtm1, I, lAtm2] ++ X :: [Y, Z, lAtm3, C, ['\n']]).flatten := by
    simp [atomLine, S, I, X, Y, Z, C]
  have e2 : atomLine T L i a = ([lAtm0, S, I, lAtm1, I, lAtm2, X] ++ Y :: [Z, lAtm3, C, ['\n']]).flatten := by
    simp [atomLine, S, I, X, Y, Z, C]
  have e3 : atomLine T L i a = ([lAtm0, S, I, lAtm1, I, lAtm2, X, Y] ++ Z :: [lAtm3, C, ['\n']]).flatten := by
    simp [atomLine, S, I, X, Y, Z, C]
  have s0 : slice 0 L.sSym (atomLine T L i a) = lAtm0 ++ (S ++ I) := by
    rw [e0]; exact slice_zero _ _ _ (by simp [lS, lI, h4]; omega)
  have sx : sl L.sX (atomLine T L i a) = X := by
    unfold sl; rw [e1, h5]; exact slice_flatten _ _ _ _ _ (by simp [lS, lI, h4]; omega) (by simp [lX])
  have sy : sl L.sY (atomLine T L i a) = Y := by
    unfold sl; rw [e2, h6, h5]; exact slice_flatten _ _ _ _ _ (by simp [lS, lI, lX, h4]; omega) (by simp [lY])
  have sz : sl L.sZ (atomLine T L i a) = Z := by
    unfold sl; rw [e3, h7, h6, h5]; exact slice_flatten _ _ _ _ _ (by simp [lS, lI, lX, lY, h4]; omega) (by simp [lZ])
  unfold readAtom
  rw [s0, sx, sy, sz, readSym_field T L a.zn i hz]
  simp [X, Y, Z, pyFix_fmtFix0]

theorem fitsS_spec {w d : Nat} {x : Sci} (h : fitsS w d x = true) : x.man < 10 ^ (d + 1) := by
  simp only [fitsS, Bool.and_eq_true, decide_eq_true_eq] at h; exact h.2

theorem okMO_spec {L : Layout} {n : Nat} {m : MO} (h : okMO L n m = true) :
    fitsF L.occW L.occD m.occ = true ∧ fitsF L.enW L.enD m.energy = true ∧ m.coeffs.length = n ∧
    ∀ c ∈ m.coeffs, fitsS L.coefW L.coefD c = true := by
  simp only [okMO, Bool.and_eq_true, decide_eq_true_eq, List.all_eq_true] at h
  exact ⟨h.1.1.1, h.1.1.2, h.1.2, h.2⟩

theorem readMO_moLines (L : Layout) (hL : LayoutOK L) (i nprim : Nat) (m : MO) (hm : okMO L nprim m = true)
    (hi : i + 1 < 10 ^ L.mnW) (rest : List Str) :
    readMO L nprim (moLines L i m ++ rest) = .ok (⟨((i + 1 : Nat) : Int), m.occ, m.energy, m.coeffs⟩, rest) := by
  obtain ⟨ho, he, hlen, hc⟩ := okMO_spec hm
  obtain ⟨_, _, _, _, _, _, _, h8, h9, h10, _, _, _, _, hcw, _, _, _, hcp, _, _, hcd, _, hmn, _, _, _, hz0, _⟩ := hL
  let N := fmtInt L.mnW ((i + 1 : Nat) : Int)
  let Z0 := fmtFix false L.zW L.zD ⟨false, 0⟩
  let O := fmtFix false L.occW L.occD m.occ
  let E := fmtFix false L.enW L.enD m.energy
  have lN : N.length = L.mnW := length_rjust _ _ (length_natToDec_le _ _ hi hmn)
  have lZ0 : Z0.length = L.zW := length_rjust _ _ hz0
  have lO : O.length = L.occW := length_fmtFix ho
  have lE : E.length = L.enW := length_fmtFix he
  have e0 : moHead L i m = ([lMO] ++ N :: [lMO1, Z0, lMO2, O, lMO3, E, ['\n']]).flatten := by simp [moHead, N, Z0, O, E]
  have e1 : moHead L i m = ([lMO, N, lMO1, Z0, lMO2] ++ O :: [lMO3, E, ['\n']]).flatten := by simp [moHead, N, Z0, O, E]
  have e2 : moHead L i m = ([lMO, N, lMO1, Z0, lMO2, O, lMO3] ++ E :: [['\n']]).flatten := by simp [moHead, N, Z0, O, E]
  have sn : sl L.sNum (moHead L i m) = N := by
    unfold sl; rw [e0, h8]; exact slice_flatten _ _ _ _ _ (by simp) (by simp [lN])
  have so : sl L.sOcc (moHead L i m) = O := by
    unfold sl; rw [e1, h9]; exact slice_flatten _ _ _ _ _ (by simp [lN, lZ0]; omega) (by simp [lO])
  have se : sl L.sEn (moHead L i m) = E := by
    unfold sl; rw [e2, h10, h9]; exact slice_flatten _ _ _ _ _ (by simp [lN, lZ0, lO]; omega) (by simp [lE])
  have hsw : startsWith lMO (moHead L i m) = true := by
    unfold moHead; exact startsWith_append _ _ _ (by decide)
  have hsec := readSec_secLines (pySci L.coefD) [] [] 0 L.coefW L.coefPer (fmtSci false true L.coefW L.coefD) hcw hcp (by rfl)
    m.coeffs (fun c hcm => ⟨length_fmtSci (hc c hcm), pySci_fmtSci0 _ _ hcd c (hc c hcm)⟩) rest
  rw [hlen] at hsec
  simp only [moLines, List.cons_append, readMO, hsw, Bool.not_true, Bool.false_eq_true, if_false, sn, so, se, N, O, E,
    pyInt_fmtInt, pyFix_fmtFix0, hsec]

theorem readMOs_lines (L : Layout) (hL : LayoutOK L) (nprim : Nat) (rest : List Str) :
    ∀ (ps : List (MO × Nat)), (∀ p ∈ ps, okMO L nprim p.1 = true ∧ p.2 + 1 < 10 ^ L.mnW) →
    readMOs L nprim ps.length (ps.flatMap (fun p => moLines L p.2 p.1) ++ rest)
      = .ok (ps.map (fun p => ⟨((p.2 + 1 : Nat) : Int), p.1.occ, p.1.energy, p.1.coeffs⟩), rest) := by
  intro ps
  induction ps with
  | nil => intro _; rfl
  | cons p ps ih =>
    intro h
    obtain ⟨h1, h2⟩ := h p List.mem_cons_self
    simp only [List.flatMap_cons, List.append_assoc, List.length_cons, readMOs, readMO_moLines L hL p.2 nprim p.1 h1 h2,
      ih (fun q hq => h q (List.mem_cons_of_mem _ hq)), List.map_cons]

/-! ### the energy line and the scans -/

theorem hasSub_append (k a b : Str) (h : hasSub k a = true) : hasSub k (a ++ b) = true := by
  induction a with
  | nil =>
    have hk : k = [] := by simpa [hasSub] using h
    subst hk
    cases b <;> simp [hasSub]
  | cons c a ih =>
    simp only [hasSub, Bool.or_eq_true] at h
    simp only [List.cons_append, hasSub, Bool.or_eq_true]
    rcases h with h | h
    · left
      have := startsWith_append k (c :: a) b h
      simpa [startsWith] using this
    · right; exact ih h

theorem fixCore_ne_nan (d : Nat) (x : Fx) : (fixCore false d x == kNan) = false := by
  simp only [beq_eq_false_iff_ne, ne_eq]
  intro h
  obtain ⟨c, r, hc, hm⟩ := fixDigits_head d x.mag
  unfold fixCore signStr at h
  rw [hc] at h
  cases hn : x.neg
  · rw [hn] at h
    have h' : c :: r = kNan := by simpa using h
    have : c = 'n' := (List.cons.inj h').1
    subst this; revert hm; decide
  · rw [hn] at h
    have h' : '-' :: c :: r = kNan := by simpa using h
    exact absurd (List.cons.inj h').1 (by decide)

theorem pyFixN_fmtFixN (w d : Nat) (x : Option Fx) : pyFixN d (fmtFixN w d x) = some x := by
  cases x with
  | none =>
    have : strip (rjust w kNan) = kNan := by
      have := strip_noWs_pad (spaces (w - kNan.length)) kNan [] (allWs_spaces _) allWs_nil (by decide)
      simpa [rjust] using this
    simp [pyFixN, fmtFixN, this]
  | some v =>
    have : strip (fmtFix false w d v) = fixCore false d v := by
      have := strip_noWs_pad (spaces (w - (fixCore false d v).length)) (fixCore false d v) [] (allWs_spaces _) allWs_nil (fixCore_noWs d v)
      simpa [fmtFix, rjust] using this
    simp [pyFixN, fmtFixN, this, fixCore_ne_nan, pyFix_fmtFix0]

theorem words_fmtFixN (w d : Nat) (x : Option Fx) : ∃ t, splitWs (fmtFixN w d x) = [t] ∧ pyFixN d t = some x := by
  cases x with
  | none =>
    refine ⟨kNan, ?_, by simp [pyFixN, show strip kNan = kNan by decide]⟩
    have := splitWs_field (spaces (w - kNan.length)) kNan [] (allWs_spaces _) (by decide) (by decide) brk_nil
    simpa [fmtFixN, rjust, splitWs_allWs [] allWs_nil] using this
  | some v =>
    refine ⟨fixCore false d v, ?_, ?_⟩
    · have := splitWs_field (spaces (w - (fixCore false d v).length)) (fixCore false d v) [] (allWs_spaces _) (fixCore_noWs d v)
        (fixCore_ne_nil false d v) brk_nil
      simpa [fmtFixN, fmtFix, rjust, splitWs_allWs [] allWs_nil] using this
    · have h1 : strip (fixCore false d v) = fixCore false d v := by
        have := strip_noWs_pad [] (fixCore false d v) [] allWs_nil allWs_nil (fixCore_noWs d v)
        simpa using this
      have h2 : pyFix d (fixCore false d v) = some v := by
        have := pyFix_fixCore false d v [] [] allWs_nil allWs_nil
        simpa using this
      simp [pyFixN, h1, fixCore_ne_nan, h2]

theorem length_fmtFixN {w d : Nat} (hn : kNan.length ≤ w) {x : Option Fx} (h : fitsFN w d x = true) : (fmtFixN w d x).length = w := by
  cases x with
  | none => exact length_rjust _ _ hn
  | some v => exact length_fmtFix h

theorem energyLine_read (L : Layout) (hL : LayoutOK L) (e v : Option Fx) (he : fitsFN L.teW L.teD e = true) (hv : fitsFN L.vrW L.vrD v = true) :
    hasSub kEnergy (energyLine L e v) = true ∧
    (splitWs (sl L.sTe (energyLine L e v))).head?.bind (pyFixN L.teD) = some e ∧ pyFixN L.vrD (sl L.sVr (energyLine L e v)) = some v := by
  obtain ⟨_, _, _, _, _, _, _, _, _, _, h11, h12, _, _, _, _, _, _, _, _, _, _, _, _, _, _, _, _, hn1, hn2, _⟩ := hL
  let E := fmtFixN L.teW L.teD e
  let V := fmtFixN L.vrW L.vrD v
  have lE : E.length = L.teW := length_fmtFixN hn1 he
  have lV : V.length = L.vrW := length_fmtFixN hn2 hv
  have e0 : energyLine L e v = ([lTe0] ++ E :: [lTe1, V, ['\n']]).flatten := by simp [energyLine, E, V]
  have e1 : energyLine L e v = ([lTe0, E, lTe1] ++ V :: [['\n']]).flatten := by simp [energyLine, E, V]
  have se : sl L.sTe (energyLine L e v) = E := by
    unfold sl; rw [e0, h11]; exact slice_flatten _ _ _ _ _ (by simp) (by simp [lE])
  have sv : sl L.sVr (energyLine L e v) = V := by
    unfold sl; rw [e1, h12]; exact slice_flatten _ _ _ _ _ (by simp [lE]; omega) (by simp [lV])
  refine ⟨?_, ?_, ?_⟩
  · unfold energyLine; exact hasSub_append _ _ _ (by decide)
  · obtain ⟨t, ht, hp⟩ := words_fmtFixN L.teW L.teD e
    rw [se]; simp only [E, ht, List.head?_cons, Option.bind_some, hp]
  · rw [sv]; exact pyFixN_fmtFixN _ _ _

/-! ### C02 -/

theorem okPrim_spec {L : Layout} {p : Nat × Nat × Sci} (h : okPrim L p = true) :
    fitsI L.intW ((p.1 + 1 : Nat) : Int) = true ∧ fitsI L.intW ((p.2.1 + 1 : Nat) : Int) = true ∧ fitsS L.expW L.expD p.2.2 = true := by
  simp only [okPrim, Bool.and_eq_true] at h; exact ⟨h.1.1, h.1.2, h.2⟩

theorem intSec (L : Layout) (hL : LayoutOK L) (header : Str) (hst : startsWith header (ljust L.intSkip (header.take L.intSkip)) = true)
    (items : List Int) (hx : ∀ x ∈ items, fitsI L.intW x = true) (rest : List Str) :
    readSec pyInt header L.intSkip L.intW items.length (secLines header L.intSkip L.intPer (fmtInt L.intW) items ++ rest) = .ok (items, rest) :=
  readSec_secLines pyInt header header L.intSkip L.intW L.intPer (fmtInt L.intW) hL.2.2.2.2.2.2.2.2.2.2.2.2.1
    hL.2.2.2.2.2.2.2.2.2.2.2.2.2.2.2.2.1 hst items
    (fun x hxm => ⟨length_fmtInt (hx x hxm), by rw [replaceD_fmtInt]; exact pyInt_fmtInt _ _⟩) rest

theorem spin_read (L : Layout) (hL : LayoutOK L) (l : List Int) (hne : l ≠ []) (hx : ∀ x ∈ l, fitsI L.spinW x = true) :
    readSec pyInt [] 0 L.spinW l.length ([['\n'], ['\n']] ++ secLines [] 0 L.spinPer (fmtInt L.spinW) l) = .ok (l, []) := by
  have h2 : 2 ≤ L.spinW := hL.2.2.2.2.2.2.2.2.2.2.2.2.2.2.2.1
  have hp : 0 < L.spinPer := hL.2.2.2.2.2.2.2.2.2.2.2.2.2.2.2.2.2.2.2.1
  have hpos : ([] : List Int).length < l.length := by
    simp only [List.length_nil]; exact List.length_pos_iff.mpr hne
  unfold readSec
  simp only [List.cons_append, List.nil_append, List.length_cons]
  rw [readSecF_blank pyInt L.spinW l.length h2 _ [] _ hpos, readSecF_blank pyInt L.spinW l.length h2 _ [] _ hpos]
  have := readSecF_secLines pyInt [] [] 0 L.spinW L.spinPer (fmtInt L.spinW) h2 hp (by rfl) l
    (fun x hxm => ⟨length_fmtInt (hx x hxm), by rw [replaceD_fmtInt]; exact pyInt_fmtInt _ _⟩) []
    ((secLines [] 0 L.spinPer (fmtInt L.spinW) l).length + 1) (by omega)
  simpa using this

theorem okSpin_spec {L : Layout} {n : Nat} {l : List Int} (h : okSpin L n (some l) = true) :
    l ≠ [] ∧ l.length = n ∧ ∀ x ∈ l, fitsI L.spinW x = true := by
  simp only [okSpin, Bool.and_eq_true, Bool.not_eq_true', decide_eq_true_eq, List.all_eq_true] at h
  exact ⟨by intro e; subst e; simp at h, h.1.2, h.2⟩

theorem okTitle_spec {t : Str} (h : okTitle t = true) : Trimmed t := by
  simp only [okTitle, Bool.and_eq_true, decide_eq_true_eq] at h; exact h.1

theorem okTitle_outTitle (L : Layout) (hL : LayoutOK L) (t : Str) (h : okTitle t = true) : okTitle (outTitle L t) = true := by
  unfold outTitle; split
  · exact hL.2.2.2.2.2.2.2.2.2.2.2.2.2.2.2.2.2.2.2.2.2.2.2.2.2.2.2.2.2.2.1
  · exact h

theorem map_pred {α} (f : α → Nat) (l : List α) :
    (l.map fun x => ((f x + 1 : Nat) : Int)).map (· - 1) = l.map fun x => ((f x : Nat) : Int) := by
  rw [List.map_map]; apply List.map_congr_left; intro n _; simp

/-- C02 for WFN files at the section level: every number of atoms (below 1000), primitives and orbitals, ragged last
lines of every section, `nan` energies, with or without the `$MOSPIN` section -/
theorem load_dump (T : Tables) (L : Layout) (hL : LayoutOK L) (o : Obj) (h : Dom T L o) : load T L (dump T L o) = .ok (norm L o) := by
  obtain ⟨ht, hmo, hpr, hna, hia, him, hat, hprims, hmos, hen, hvr, hsp⟩ := h
  obtain ⟨hG, p1, p2, p3⟩ := numLine_read L hL o.mos.length o.prims.length o.atoms.length hmo hpr hna
  have htitle : strip (' ' :: (outTitle L o.title ++ ['\n'])) = outTitle L o.title := by
    have := strip_pad [' '] (outTitle L o.title) ['\n'] (by decide) allWs_nl (okTitle_spec (okTitle_outTitle L hL _ ht))
    simpa using this
  -- atoms
  have hatoms := fun rest => readN_map (readAtom T L) (fun p : Atom × Nat => atomLine T L p.2 p.1) (·.1) o.atoms.zipIdx rest
    (by
      intro p hp
      obtain ⟨_, h2, h3⟩ := List.mem_zipIdx hp
      simp only [Nat.zero_add, Nat.sub_zero] at h2 h3
      have hm : p.1 ∈ o.atoms := by rw [h3]; exact List.getElem_mem _
      exact readAtom_atomLine T L hL p.2 p.1 (hat _ hm) (by omega))
  simp only [List.length_zipIdx, List.zipIdx_map_fst] at hatoms
  -- the three sections
  have hC := fun rest => intSec L hL hCentre hL.2.2.2.2.2.2.2.2.2.2.2.2.2.2.2.2.2.2.2.2.2.2.2.2.1
    (o.prims.map fun p => ((p.1 + 1 : Nat) : Int)) (by
      intro x hx; obtain ⟨p, hp, rfl⟩ := List.mem_map.mp hx; exact (okPrim_spec (hprims p hp)).1) rest
  have hT := fun rest => intSec L hL hType hL.2.2.2.2.2.2.2.2.2.2.2.2.2.2.2.2.2.2.2.2.2.2.2.2.2.1
    (o.prims.map fun p => ((p.2.1 + 1 : Nat) : Int)) (by
      intro x hx; obtain ⟨p, hp, rfl⟩ := List.mem_map.mp hx; exact (okPrim_spec (hprims p hp)).2.1) rest
  have hE := fun rest => readSec_secLines (pySci L.expD) hExp hExp L.expSkip L.expW L.expPer (fmtSci false true L.expW L.expD)
    hL.2.2.2.2.2.2.2.2.2.2.2.2.2.1 hL.2.2.2.2.2.2.2.2.2.2.2.2.2.2.2.2.2.1 hL.2.2.2.2.2.2.2.2.2.2.2.2.2.2.2.2.2.2.2.2.2.2.2.2.2.2.1
    (o.prims.map (·.2.2)) (by
      intro x hx; obtain ⟨p, hp, rfl⟩ := List.mem_map.mp hx
      exact ⟨length_fmtSci (okPrim_spec (hprims p hp)).2.2,
        pySci_fmtSci0 _ _ hL.2.2.2.2.2.2.2.2.2.2.2.2.2.2.2.2.2.2.2.2.1 _ (okPrim_spec (hprims p hp)).2.2⟩) rest
  simp only [List.length_map] at hC hT hE
  -- orbitals
  have hM := fun rest => readMOs_lines L hL o.prims.length rest o.mos.zipIdx (by
    intro p hp
    obtain ⟨_, h2, h3⟩ := List.mem_zipIdx hp
    simp only [Nat.zero_add, Nat.sub_zero] at h2 h3
    have hm : p.1 ∈ o.mos := by rw [h3]; exact List.getElem_mem _
    exact ⟨hmos _ hm, by omega⟩)
  simp only [List.length_zipIdx] at hM
  -- energy line and the scans
  obtain ⟨q1, q2, q3⟩ := energyLine_read L hL o.energy o.virial hen hvr
  have hfind : ∀ tail, findLine kEnergy ((lEnd ++ ['\n']) :: energyLine L o.energy o.virial :: tail)
      = some (energyLine L o.energy o.virial, tail) := by
    intro tail
    have : hasSub kEnergy (lEnd ++ ['\n']) = false := by decide
    simp [findLine, this, q1]
  have hneg : (decide ((o.mos.length : Int) < 0) || decide ((o.prims.length : Int) < 0) || decide ((o.atoms.length : Int) < 0)) = false := by
    simp
  unfold dump load
  simp only [List.cons_append, List.nil_append, hG, Bool.not_true, Bool.false_eq_true, if_false, p1, p2, p3, hneg, Int.toNat_natCast,
    hatoms, hC, hT, hE, hM, hfind, q2, q3]
  cases hs : o.mospin with
  | none =>
    simp only [spinLines, findLine, norm, htitle, hs, Option.getD_none,
      map_pred (fun p : Nat × Nat × Sci => p.1), map_pred (fun p : Nat × Nat × Sci => p.2.1)]
  | some l =>
    rw [hs] at hsp
    obtain ⟨hne, hlen, hfit⟩ := okSpin_spec hsp
    have hk : hasSub kSpin (lSpin ++ ['\n']) = true := by decide
    have hr := spin_read L hL l hne hfit
    rw [hlen] at hr
    simp only [spinLines, List.cons_append, List.nil_append, findLine, hk, if_true] at hr ⊢
    simp only [hr, norm, htitle, hs, Option.getD_some,
      map_pred (fun p : Nat × Nat × Sci => p.1), map_pred (fun p : Nat × Nat × Sci => p.2.1)]

/-! ### C15 -/

theorem zip3_map (l : List (Nat × Nat × Sci)) :
    zip3 (l.map fun p => ((p.1 : Nat) : Int)) (l.map fun p => ((p.2.1 : Nat) : Int)) (l.map (·.2.2)) = l := by
  induction l with
  | nil => rfl
  | cons p l ih => simp [zip3, ih]

theorem mos_back (l : List MO) :
    (l.zipIdx.map fun p => (⟨((p.2 + 1 : Nat) : Int), p.1.occ, p.1.energy, p.1.coeffs⟩ : LMO)).map (fun m => (⟨m.occ, m.energy, m.coeffs⟩ : MO)) = l := by
  rw [List.map_map]
  have : ((fun m : LMO => (⟨m.occ, m.energy, m.coeffs⟩ : MO)) ∘ fun p : MO × Nat => (⟨((p.2 + 1 : Nat) : Int), p.1.occ, p.1.energy, p.1.coeffs⟩ : LMO))
      = Prod.fst := by funext p; rfl
  rw [this, List.zipIdx_map_fst]

theorem outTitle_idem (L : Layout) (hne : L.defaultTitle ≠ []) (t : Str) : outTitle L (outTitle L t) = outTitle L t := by
  unfold outTitle
  by_cases h : t.isEmpty = true
  · have : L.defaultTitle.isEmpty = false := by
      cases e : L.defaultTitle with
      | nil => exact absurd e hne
      | cons _ _ => rfl
    simp [h, this]
  · simp [h]

/-- the reloaded arrays as an object: the object itself with the default title filled in (and an empty spin list dropped) -/
theorem obj_norm (L : Layout) (o : Obj) :
    (norm L o).obj = { o with title := outTitle L o.title, mospin := if (o.mospin.getD []).isEmpty then none else some (o.mospin.getD []) } := by
  simp only [norm, Loaded.obj, zip3_map, mos_back]
  rfl

theorem norm_idem (L : Layout) (hL : LayoutOK L) (o : Obj) : norm L (norm L o).obj = norm L o := by
  rw [obj_norm]
  have hne := hL.2.2.2.2.2.2.2.2.2.2.2.2.2.2.2.2.2.2.2.2.2.2.2.2.2.2.2.2.2.2.2
  simp only [norm, outTitle_idem L hne]
  congr 1
  cases o.mospin with
  | none => rfl
  | some l => cases l <;> rfl

theorem dom_norm (T : Tables) (L : Layout) (hL : LayoutOK L) (o : Obj) (h : Dom T L o) : Dom T L (norm L o).obj := by
  rw [obj_norm]
  obtain ⟨ht, hmo, hpr, hna, hia, him, hat, hprims, hmos, hen, hvr, hsp⟩ := h
  refine ⟨okTitle_outTitle L hL _ ht, hmo, hpr, hna, hia, him, hat, hprims, hmos, hen, hvr, ?_⟩
  simp only
  cases hs : o.mospin with
  | none => rfl
  | some l =>
    rw [hs] at hsp
    obtain ⟨hne, _, _⟩ := okSpin_spec hsp
    cases l with
    | nil => exact absurd rfl hne
    | cons a l => simpa using hsp

end Iodata.Fmt.WfnS