/- FCHK object layer: table lookups, inverse shuffles, C02 and C15 over the field layer. -/
import Iodata.Lemmas.Fmt.Fchk
import Iodata.Model.Fmt.FchkO
import Mathlib.Data.Nat.Basic
import Mathlib.Tactic.Ring
namespace Iodata.Fmt.FchkO
open Iodata.Chars Iodata.Decimal Iodata.Fmt Iodata.Fmt.Fchk

/-! ### association lists built by `filterMap` -/

theorem lookupK_filterMap_none {α ν} (l : List α) (f : α → Option (Str × ν)) (key : α → Str)
    (hf : ∀ a b, f a = some b → b.1 = key a) (k : Str) (h : k ∉ l.map key) : lookupK (l.filterMap f) k = none := by
  induction l with
  | nil => rfl
  | cons a l ih =>
    have hk : k ≠ key a := fun e => h (by simp [e])
    have hl : k ∉ l.map key := fun e => h (by simp only [List.map_cons]; exact List.mem_cons_of_mem _ e)
    simp only [List.filterMap_cons]
    cases e : f a with
    | none => exact ih hl
    | some b =>
      have hb := hf a b e
      simp only [lookupK, List.find?_cons]
      have : (b.1 == k) = false := by
        rw [hb]; simp only [beq_eq_false_iff_ne, ne_eq]; exact fun e' => hk e'.symm
      rw [this]
      exact ih hl

theorem lookupK_filterMap {α ν} (l : List α) (f : α → Option (Str × ν)) (key : α → Str)
    (hf : ∀ a b, f a = some b → b.1 = key a) (k : Str) (hn : (l.map key).Nodup) :
    lookupK (l.filterMap f) k = ((l.find? fun a => key a == k).bind f).map (·.2) := by
  induction l with
  | nil => rfl
  | cons a l ih =>
    simp only [List.map_cons, List.nodup_cons] at hn
    simp only [List.filterMap_cons, List.find?_cons]
    by_cases hk : key a = k
    · have hk' : (key a == k) = true := by simp [hk]
      rw [hk']
      simp only [Option.bind_some]
      cases e : f a with
      | none =>
        simp only [Option.map_none]
        exact lookupK_filterMap_none l f key hf k (hk ▸ hn.1)
      | some b =>
        have hb := hf a b e
        simp only [lookupK, List.find?_cons, Option.map_some]
        have : (b.1 == k) = true := by rw [hb]; simp [hk]
        rw [this]; rfl
    · have hk' : (key a == k) = false := by simp [hk]
      rw [hk']
      cases e : f a with
      | none => exact ih hn.2
      | some b =>
        have hb := hf a b e
        simp only [lookupK, List.find?_cons]
        have : (b.1 == k) = false := by rw [hb]; simp [hk]
        rw [this]
        exact ih hn.2

theorem find_self {α} (l : List α) (key : α → Str) (hn : (l.map key).Nodup) (r : α) (hr : r ∈ l) :
    (l.find? fun a => key a == key r) = some r := by
  induction l with
  | nil => cases hr
  | cons a l ih =>
    simp only [List.map_cons, List.nodup_cons] at hn
    simp only [List.find?_cons]
    rcases List.mem_cons.mp hr with rfl | hr
    · simp
    · have : key a ≠ key r := fun e => hn.1 (e ▸ List.mem_map_of_mem hr)
      have h' : (key a == key r) = false := by simp [this]
      rw [h']
      exact ih hn.2 hr

theorem filterMap_filter_none {α β} (p : α → Bool) (g : α → Option β) (h : ∀ a, p a = false → g a = none) :
    ∀ l : List α, l.filterMap g = (l.filter p).filterMap g := by
  intro l
  induction l with
  | nil => rfl
  | cons a l ih =>
    by_cases hp : p a = true
    · simp only [List.filter_cons, hp, if_true, List.filterMap_cons, ih]
    · have hp' : p a = false := by simpa using hp
      simp only [List.filter_cons, hp', Bool.false_eq_true, if_false, List.filterMap_cons, h a hp', ih]

theorem filterMap_sublist {α β} (f g : α → Option β) (h : ∀ a b, f a = some b → g a = some b) :
    ∀ l : List α, (l.filterMap f).Sublist (l.filterMap g) := by
  intro l
  induction l with
  | nil => exact List.Sublist.slnil
  | cons a l ih =>
    simp only [List.filterMap_cons]
    cases e : f a with
    | some b => rw [h a b e]; exact List.Sublist.cons_cons _ ih
    | none =>
      cases g a with
      | none => exact ih
      | some c => exact List.Sublist.cons _ ih

/-! ### shuffles -/

theorem tri_even (n : Nat) : 2 ∣ n * (n + 1) := by
  rcases Nat.even_or_odd n with ⟨k, hk⟩ | ⟨k, hk⟩
  · exact ⟨k * (n + 1), by subst hk; ring⟩
  · exact ⟨n * (k + 1), by subst hk; ring⟩

/-- `nrow = int(np.round((np.sqrt(1 + 8 * len(triangle)) - 1) / 2))` recovers the number of rows -/
theorem triRows_tri (n : Nat) : triRows (n * (n + 1) / 2) = n := by
  unfold triRows
  obtain ⟨k, hk⟩ := tri_even n
  have h8 : 1 + 8 * (n * (n + 1) / 2) = (2 * n + 1) * (2 * n + 1) := by
    rw [hk, Nat.mul_div_cancel_left _ (by decide : 0 < 2)]
    have : (2 * n + 1) * (2 * n + 1) = 4 * (n * (n + 1)) + 1 := by ring
    rw [this, hk]; ring
  rw [h8, Nat.sqrt_eq]
  omega

theorem getD_lt {α} (l : List α) (i : Nat) (d : α) (h : i < l.length) : l.getD i d = l[i] := by
  rw [List.getD_eq_getElem?_getD, List.getElem?_eq_getElem h]; rfl

theorem pick_pick (a b : List Nat) (h : pickInv a b = true) (l : List Sci) (hl : l.length = a.length) :
    pick zeroS b (pick zeroS a l) = l := by
  simp only [pickInv, Bool.and_eq_true, decide_eq_true_eq, List.all_eq_true, List.mem_range] at h
  obtain ⟨hab, hall⟩ := h
  unfold pick
  apply List.ext_getElem
  · simp; omega
  · intro i h1 h2
    simp only [List.length_map] at h1
    obtain ⟨hb, hi⟩ := hall i h1
    rw [getD_lt b i 0 h1] at hb hi
    simp only [List.getElem_map]
    have hlen : b[i] < (a.map fun k => l.getD k zeroS).length := by simpa using hb
    rw [getD_lt _ _ _ hlen]
    simp only [List.getElem_map]
    rw [getD_lt a _ 0 hb] at hi
    rw [hi]
    exact getD_lt l i zeroS h2

theorem appW_some (d : Nat) (tr : Tr) (v : AVal) (h : okVal tr v = true) : ∃ x, appW d tr v = some x := by
  cases tr <;> cases v <;> simp [okVal] at h <;> simp [appW]

/-- the reader's shuffle undoes the writer's -/
theorem appR_appW (d : Nat) (tw tr : Tr) (v : AVal) (x : Value) (hv : okVal tw v = true) (hi : invTr tw tr = true)
    (hx : appW d tw v = some x) : appR tr x = some v := by
  cases tw <;> cases tr <;> simp [invTr] at hi
  · cases v <;> simp [appW] at hx <;> subst hx <;> simp [appR]
  · cases v <;> simp [appW] at hx
    rename_i n t
    simp only [okVal, Bool.and_eq_true, decide_eq_true_eq] at hv
    subst hx
    rw [tril_dense zeroS n t hv.2]
    simp [appR, hv.2, triRows_tri]
  · rename_i a b
    cases v <;> simp [appW] at hx
    rename_i l
    simp only [okVal, Bool.and_eq_true, decide_eq_true_eq, Bool.not_eq_true'] at hv
    subst hx
    simp [appR, pick_pick a b hi l hv.2]

theorem emit_nonEmpty (d : Nat) (s : Store) (w : Row) (f : Fld) (hok : ∀ v, get s w.attr = some v → okVal w.tr v = true)
    (h : emit d s w = some f) : nonEmpty f = true := by
  unfold emit at h
  cases e : get s w.attr with
  | none => simp [e] at h
  | some v =>
    have hv := hok v e
    simp only [e, Option.bind_some, Option.map_eq_some_iff] at h
    obtain ⟨x, hx, rfl⟩ := h
    cases htr : w.tr <;> rw [htr] at hx hv <;> cases v <;> simp [appW] at hx <;> simp [okVal] at hv <;> subst hx <;>
      simp [nonEmpty]
    · assumption
    · assumption
    · rename_i n t
      rw [tril_dense zeroS n t hv.2]
      intro ht; subst ht
      have h0 : n * (n + 1) / 2 = 0 := by simpa using hv.2.symm
      have : 0 < n * (n + 1) / 2 := by
        obtain ⟨k, hk⟩ := tri_even n
        rw [hk, Nat.mul_div_cancel_left _ (by decide : 0 < 2)]
        have : 0 < n * (n + 1) := Nat.mul_pos hv.1 (by omega)
        omega
      omega
    · simp [pick]; exact hv.1
    · assumption

theorem okStore_spec {W : List Row} {s : Store} (h : okStore W s = true) :
    ∀ w ∈ W, ∀ v, get s w.attr = some v → okVal w.tr v = true := by
  intro w hw v hv
  have := (List.all_eq_true.mp h) w hw
  rw [hv] at this; exact this

/-! ### C02 -/

theorem filterMap_congr_mem {α β} {l : List α} {f g : α → Option β} (h : ∀ x ∈ l, f x = g x) : l.filterMap f = l.filterMap g := by
  induction l with
  | nil => rfl
  | cons a l ih =>
    simp only [List.filterMap_cons, h a List.mem_cons_self, ih (fun x hx => h x (List.mem_cons_of_mem _ hx))]

theorem emit_label (d : Nat) (s : Store) (w : Row) (f : Fld) (h : emit d s w = some f) : f.1 = w.label := by
  unfold emit at h
  cases e : get s w.attr with
  | none => simp [e] at h
  | some v =>
    simp only [e, Option.bind_some, Option.map_eq_some_iff] at h
    obtain ⟨x, _, rfl⟩ := h
    rfl

theorem fields_nonEmpty (d : Nat) (W : List Row) (s : Store) (hok : okStore W s = true) :
    (fieldsOf d W s).filter nonEmpty = fieldsOf d W s := by
  rw [List.filter_eq_self]
  intro f hf
  obtain ⟨w, hw, he⟩ := List.mem_filterMap.mp hf
  exact emit_nonEmpty d s w f (okStore_spec hok w hw) he

/-- reading the written fields through the reader table returns every shared attribute with its own value -/
theorem attrs_fields (d : Nat) (W R : List Row) (s : Store) (hT : TablesOK W R) (hok : okStore W s = true) :
    attrsOf R (fieldsOf d W s) = normStore W R s := by
  unfold attrsOf normStore
  apply filterMap_congr_mem
  intro r hr
  unfold absorb fieldsOf
  rw [lookupK_filterMap W (emit d s) (·.label) (emit_label d s) r.label hT.1]
  show ((findW W r.label).bind (emit d s) |>.map (·.2)).bind _ = _
  cases hfw : findW W r.label with
  | none => rfl
  | some w =>
    have hwm : w ∈ W := List.mem_of_find?_eq_some hfw
    have hwl : w.label = r.label := by
      have := List.find?_some hfw
      simpa using this
    obtain ⟨_, hinv, _⟩ := hT.2.1 r hr w hwm hwl
    simp only [Option.bind_some]
    unfold emit
    cases hg : get s w.attr with
    | none => rfl
    | some v =>
      have hv := okStore_spec hok w hwm v hg
      obtain ⟨x, hx⟩ := appW_some d w.tr v hv
      simp only [Option.bind_some, hx, Option.map_some, appR_appW d w.tr r.tr v x hv hinv hx]

theorem load_dump (L : Layout) (hL : LayoutOK L) (Rn : RunTypes) (hR : RunTypesOK L Rn) (W R : List Row) (o : Obj)
    (hT : TablesOK (resolve (levelOf L.absent o.lot) W) R) (h : Dom L W o) :
    load L Rn R (dump L Rn W o) = .ok (norm L Rn W R o) := by
  unfold load dump
  rw [Fchk.load_dump L hL Rn hR (fun _ => true) (toFields L W o) h.1 (fun _ _ => rfl)]
  simp only [norm]
  congr 2
  show attrsOf R ((fieldsOf L.aD _ o.store).filter nonEmpty) = _
  rw [fields_nonEmpty _ _ _ h.2.1, attrs_fields _ _ _ _ hT h.2.1]

/-! ### C15 -/

theorem get_normStore (W R : List Row) (s : Store) (a : Str) (v : AVal) (h : get (normStore W R s) a = some v)
    (hT : TablesOK W R) : get s a = some v := by
  unfold get lookupK at h
  simp only [Option.map_eq_some_iff] at h
  obtain ⟨e, he, rfl⟩ := h
  have hm := List.mem_of_find?_eq_some he
  have ha : e.1 = a := by have := List.find?_some he; simpa using this
  obtain ⟨r, hr, hre⟩ := List.mem_filterMap.mp hm
  cases hfw : findW W r.label with
  | none => simp [hfw] at hre
  | some w =>
    have hwm : w ∈ W := List.mem_of_find?_eq_some hfw
    have hwl : w.label = r.label := by have := List.find?_some hfw; simpa using this
    obtain ⟨hattr, _, _⟩ := hT.2.1 r hr w hwm hwl
    simp only [hfw, Option.bind_some, Option.map_eq_some_iff] at hre
    obtain ⟨v', hv', rfl⟩ := hre
    simp only at ha ⊢
    rw [← ha, ← hattr]; exact hv'

theorem get_normStore_row (W R : List Row) (s : Store) (hT : TablesOK W R) (r : Row) (hr : r ∈ R) (w : Row)
    (hfw : findW W r.label = some w) : get (normStore W R s) w.attr = get s w.attr := by
  have hwm : w ∈ W := List.mem_of_find?_eq_some hfw
  have hwl : w.label = r.label := by have := List.find?_some hfw; simpa using this
  obtain ⟨hattr, _, _⟩ := hT.2.1 r hr w hwm hwl
  let g : Row → Option (Str × AVal) := fun r => (findW W r.label).bind fun w => (get s w.attr).map fun v => (r.attr, v)
  have hg : ∀ a b, g a = some b → b.1 = a.attr := by
    intro a b hab
    simp only [g] at hab
    cases hf : findW W a.label with
    | none => simp [hf] at hab
    | some w' =>
      simp only [hf, Option.bind_some, Option.map_eq_some_iff] at hab
      obtain ⟨_, _, rfl⟩ := hab; rfl
  have hfil : normStore W R s = (R.filter (matched W)).filterMap g := by
    unfold normStore
    exact filterMap_filter_none (matched W) g (by
      intro a ha
      simp only [matched, Option.isSome_eq_false_iff, Option.isNone_iff_eq_none] at ha
      simp [g, ha]) R
  have hrm : r ∈ R.filter (matched W) := List.mem_filter.mpr ⟨hr, by simp [matched, hfw]⟩
  unfold get
  rw [hfil, lookupK_filterMap _ g (·.attr) hg w.attr hT.2.2, hattr, find_self _ (·.attr) hT.2.2 r hrm]
  simp only [Option.bind_some, g, hfw, Option.map_map]
  rw [← hattr]
  simp only [get]
  cases lookupK s w.attr <;> rfl

theorem normStore_idem (W R : List Row) (s : Store) (hT : TablesOK W R) :
    normStore W R (normStore W R s) = normStore W R s := by
  unfold normStore
  apply filterMap_congr_mem
  intro r hr
  cases hfw : findW W r.label with
  | none => rfl
  | some w =>
    simp only [Option.bind_some]
    have := get_normStore_row W R s hT r hr w hfw
    unfold normStore at this
    rw [this]

theorem upper_lower_upper {s : Str} (h : AllVis s) : upper (lower (upper s)) = upper s := by
  unfold Chars.upper Chars.lower
  rw [List.map_map, List.map_map]
  apply List.map_congr_left
  intro c hc
  exact vis_ulu c (h c hc)

/-- the level of theory read from the reloaded `lot` is the one read from the original `lot` -/
theorem level_stable (L : Layout) (hL : LayoutOK L) (hA : upper L.absent = L.absent) (lot : Option Str)
    (hw : optWord L.lotW lot = true) (hne : lot ≠ some []) :
    levelOf L.absent (some (lower (upper (orNA L lot)))) = levelOf L.absent lot := by
  obtain ⟨a1, _, _⟩ := layout_absent hL
  cases lot with
  | none =>
    have e : upper (lower (upper (orNA L none))) = L.absent := by
      simp only [orNA]; rw [upper_lower_upper a1, hA]
    simp only [levelOf, e]
  | some s =>
    have hs : s ≠ [] := fun e => hne (by rw [e])
    have e : upper (lower (upper (orNA L (some s)))) = upper s := by
      rw [orNA_some_ne L s hs]
      exact upper_lower_upper (okWord_spec hw).1
    simp only [levelOf, e]

theorem norm_hdr (L : Layout) (Rn : RunTypes) (t : Str) (r l b : Option Str) (f1 f2 : List Fld) :
    (Fchk.norm L Rn ⟨t, r, l, b, f1⟩).title = (Fchk.norm L Rn ⟨t, r, l, b, f2⟩).title ∧
    (Fchk.norm L Rn ⟨t, r, l, b, f1⟩).runType = (Fchk.norm L Rn ⟨t, r, l, b, f2⟩).runType ∧
    (Fchk.norm L Rn ⟨t, r, l, b, f1⟩).lot = (Fchk.norm L Rn ⟨t, r, l, b, f2⟩).lot ∧
    (Fchk.norm L Rn ⟨t, r, l, b, f1⟩).basis = (Fchk.norm L Rn ⟨t, r, l, b, f2⟩).basis := ⟨rfl, rfl, rfl, rfl⟩

theorem norm_idem (L : Layout) (hL : LayoutOK L) (hA : upper L.absent = L.absent) (Rn : RunTypes) (hR : RunTypesOK L Rn)
    (W R : List Row) (o : Obj) (hT : TablesOK (resolve (levelOf L.absent o.lot) W) R) (h : Dom L W o) :
    norm L Rn W R (norm L Rn W R o).obj = norm L Rn W R o := by
  have hid := Fchk.norm_idem L hL Rn hR (toFields L W o) h.1
  have hlv := level_stable L hL hA o.lot h.1.2.2.1 h.2.2
  have e1 : (norm L Rn W R o).obj.lot = some (lower (upper (orNA L o.lot))) := rfl
  have hs : normStore (resolve (levelOf L.absent (norm L Rn W R o).obj.lot) W) R (norm L Rn W R o).obj.store
      = normStore (resolve (levelOf L.absent o.lot) W) R o.store := by
    rw [e1, hlv]; exact normStore_idem _ _ _ hT
  have t1 := congrArg Fchk.Loaded.title hid
  have t2 := congrArg Fchk.Loaded.runType hid
  have t3 := congrArg Fchk.Loaded.lot hid
  have t4 := congrArg Fchk.Loaded.basis hid
  show (⟨_, _, _, _, _⟩ : Loaded) = ⟨_, _, _, _, _⟩
  congr 1

theorem dom_norm (L : Layout) (hL : LayoutOK L) (hA : upper L.absent = L.absent) (Rn : RunTypes) (hR : RunTypesOK L Rn)
    (W R : List Row) (o : Obj) (hT : TablesOK (resolve (levelOf L.absent o.lot) W) R) (h : Dom L W o) :
    Dom L W (norm L Rn W R o).obj := by
  obtain ⟨ht, hrt, hlot, hbas, hf, hnd⟩ := Fchk.dom_norm L hL Rn hR (toFields L W o) h.1
  have hlv := level_stable L hL hA o.lot h.1.2.2.1 h.2.2
  have e1 : (norm L Rn W R o).obj.lot = some (lower (upper (orNA L o.lot))) := rfl
  have hsub : (fieldsOf L.aD (resolve (levelOf L.absent o.lot) W) (normStore (resolve (levelOf L.absent o.lot) W) R o.store)).Sublist
      (fieldsOf L.aD (resolve (levelOf L.absent o.lot) W) o.store) := by
    apply filterMap_sublist
    intro w f hwf
    unfold emit at hwf ⊢
    cases hg : get (normStore (resolve (levelOf L.absent o.lot) W) R o.store) w.attr with
    | none => simp [hg] at hwf
    | some v => rw [get_normStore _ _ _ _ _ hg hT]; rw [hg] at hwf; exact hwf
  have hl : (norm L Rn W R o).obj.lot ≠ some [] := by
    rw [e1]
    intro e
    have hl := orNA_spec L hL L.lotW (Nat.le_trans (Nat.min_le_right _ _) (Nat.min_le_left _ _)) o.lot h.1.2.2.1
    exact lu_ne hl.2.2 (Option.some.inj e)
  refine ⟨⟨ht, hrt, hlot, hbas, ?_, ?_⟩, ?_, hl⟩
  · intro f hf'
    have hf'' : f ∈ fieldsOf L.aD (resolve (levelOf L.absent (norm L Rn W R o).obj.lot) W) (norm L Rn W R o).obj.store := hf'
    rw [e1, hlv] at hf''
    exact h.1.2.2.2.2.1 f (hsub.subset hf'')
  · show ((fieldsOf L.aD (resolve (levelOf L.absent (norm L Rn W R o).obj.lot) W) (norm L Rn W R o).obj.store).map (·.1)).Nodup
    rw [e1, hlv]
    exact List.Pairwise.sublist (hsub.map _) h.1.2.2.2.2.2
  · rw [e1, hlv]
    rw [okStore, List.all_eq_true]
    intro w hw
    cases hg : get (norm L Rn W R o).obj.store w.attr with
    | none => rfl
    | some v =>
      have : get o.store w.attr = some v := get_normStore _ _ _ _ _ hg hT
      exact okStore_spec h.2.1 w hw v this

end Iodata.Fmt.FchkO
