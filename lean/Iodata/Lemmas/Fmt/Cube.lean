/- Cube: header words, atom records, data lines for every shape (rows not divisible by six included). -/
import Iodata.Lemmas.Fmt.Fchk
import Iodata.Model.Fmt.Cube
namespace Iodata.Fmt.Cube
open Iodata.Chars Iodata.Decimal Iodata.Fmt

def fixTok (d : Nat) (x : Fx) : Str := fixCore false d x
def fixPre (L : Layout) (x : Fx) : Str := ' ' :: (spaces (L.hW - (fixCore true L.hD x).length) ++ (if x.neg then [] else [' ']))

theorem fx_split (L : Layout) (x : Fx) : fx L x = fixPre L x ++ fixTok L.hD x := by
  unfold fx fmtFix rjust fixPre fixTok fixCore signStr
  cases x.neg <;> simp

theorem fixPre_ok (L : Layout) (x : Fx) : AllWs (fixPre L x) ∧ fixPre L x ≠ [] := by
  refine ⟨?_, by simp [fixPre]⟩
  unfold fixPre
  apply allWs_cons (by decide)
  apply allWs_append (allWs_spaces _)
  split
  · exact allWs_nil
  · decide

theorem pyFix_tok (d : Nat) (x : Fx) : pyFix d (fixTok d x) = some x := by
  have := pyFix_fixCore false d x [] [] allWs_nil allWs_nil
  simpa [fixTok] using this

def fxP (L : Layout) (x : Fx) : Padded := ⟨fixPre L x, fixTok L.hD x, []⟩

theorem fxP_ok (L : Layout) (x : Fx) : (fxP L x).OK :=
  ⟨(fixPre_ok L x).1, fixCore_noWs _ _, fixCore_ne_nil _ _ _, allWs_nil⟩

def intP (w : Nat) (n : Int) : Padded := ⟨spaces (w - (intToDec n).length), intToDec n, []⟩

theorem intP_ok (w : Nat) (n : Int) : (intP w n).OK := ⟨allWs_spaces _, intToDec_noWs n, intToDec_ne_nil n, allWs_nil⟩

theorem words_of (L : Layout) (n : Int) (xs : List Fx) :
    splitWs (fmtInt L.natW n ++ ((xs.map (fx L)).flatten ++ ['\n'])) = intToDec n :: xs.map (fixTok L.hD) := by
  have e : fmtInt L.natW n ++ ((xs.map (fx L)).flatten ++ ['\n'])
      = ((intP L.natW n :: xs.map (fxP L)).map Padded.render).flatten ++ ['\n'] := by
    simp only [List.map_cons, List.flatten_cons, List.map_map, List.append_assoc]
    congr 1
    · simp [intP, Padded.render, fmtInt, rjust]
    · congr 2
      apply List.map_congr_left
      intro x _
      simp [fxP, Padded.render, fx_split]
  rw [e, splitWs_fields _ ['\n'] ?_ ?_ (brk_nl _), Fchk.splitWs_nl]
  · simp [intP, fxP, List.map_map, Function.comp_def]
  · intro p hp
    rcases List.mem_cons.mp hp with rfl | hp
    · exact intP_ok _ _
    · obtain ⟨x, _, rfl⟩ := List.mem_map.mp hp
      exact fxP_ok L x
  · intro p hp
    simp only [List.tail_cons] at hp
    obtain ⟨x, _, rfl⟩ := List.mem_map.mp hp
    exact (fixPre_ok L x).2

theorem pyInt_tok' (i : Int) : pyInt (intToDec i) = some i := Fchk.pyInt_tok i

theorem readGrid_gridLine (L : Layout) (n : Int) (v : Vec) : readGrid L.hD (gridLine L n v) = .ok (n, v) := by
  have h := words_of L n [v.x, v.y, v.z]
  have e : gridLine L n v = fmtInt L.natW n ++ (([v.x, v.y, v.z].map (fx L)).flatten ++ ['\n']) := by
    simp [gridLine]
  unfold readGrid
  rw [e, h]
  simp [pyInt_tok', pyFix_tok]

theorem readAtom_atomLine (L : Layout) (a : Atom) : readAtom L.hD (atomLine L a) = .ok (normAtom L a) := by
  have h := words_of L a.zn [a.q, a.x, a.y, a.z]
  have e : atomLine L a = fmtInt L.natW a.zn ++ (([a.q, a.x, a.y, a.z].map (fx L)).flatten ++ ['\n']) := by
    simp [atomLine]
  unfold readAtom
  rw [e, h]
  simp [pyInt_tok', pyFix_tok, normAtom]

/-! ### data -/

theorem flatten_flatMap {α β} (l : List α) (f : α → List (List β)) : (l.flatMap f).flatten = l.flatMap fun x => (f x).flatten := by
  induction l with
  | nil => rfl
  | cons a l ih => simp [ih]

theorem flatMap_congr'' {α β} {l : List α} {f g : α → List β} (h : ∀ x ∈ l, f x = g x) : l.flatMap f = l.flatMap g := by
  induction l with
  | nil => rfl
  | cons a l ih =>
    simp only [List.flatMap_cons, h a List.mem_cons_self, ih (fun x hx => h x (List.mem_cons_of_mem _ hx))]

theorem flatMap_id' {α} (l : List (List α)) : (l.flatMap fun x => x) = l.flatten := by
  induction l with
  | nil => rfl
  | cons a l ih => simp [ih]

/-- the data lines hold the values in order and none is empty, for every row length `bs ≥ 1` -/
theorem dataChunks_spec (L : Layout) (hL : LayoutOK L) (bs : Nat) (hbs : 0 < bs) (data : List Sci) :
    (dataChunks L bs data).flatten = data ∧ ∀ ch ∈ dataChunks L bs data, ch ≠ [] := by
  unfold dataChunks
  by_cases he : data.isEmpty = true
  · have : data = [] := by simpa using he
    subst this; simp
  · have hne : data ≠ [] := by intro e; subst e; simp at he
    simp only [he, if_false, Bool.false_eq_true]
    obtain ⟨h1, h2⟩ := Fchk.chunks_spec bs hbs data hne
    constructor
    · rw [flatten_flatMap]
      have : ∀ row ∈ Fchk.chunks bs data, (Fchk.chunks L.per row).flatten = row :=
        fun row hr => (Fchk.chunks_spec L.per hL.1 row (h2 row hr).1).1
      rw [flatMap_congr'' this, flatMap_id', h1]
    · intro ch hch
      obtain ⟨row, hr, hc⟩ := List.mem_flatMap.mp hch
      exact ((Fchk.chunks_spec L.per hL.1 row (h2 row hr).1).2 ch hc).1

def valPre (L : Layout) (v : Sci) : Str := ' ' :: Fchk.realPre L.dW L.dD v

theorem readData (L : Layout) (hL : LayoutOK L) (bs : Nat) (hbs : 0 < bs) (data : List Sci)
    (hm : ∀ v ∈ data, v.man < 10 ^ (L.dD + 1)) (rest : List Str) :
    Fchk.readTok (pySci L.dD) data.length [] (dataLines L bs data ++ rest) = .ok (data, rest) := by
  obtain ⟨hflat, hne⟩ := dataChunks_spec L hL bs hbs data
  have := Fchk.readTok_lines (pySci L.dD) (Fchk.realTok L.dD) (Fchk.dataLine (val L)) (dataChunks L bs data) rest (by
    intro ch hc
    have hmem : ∀ v ∈ ch, v ∈ data := fun v hv => by rw [← hflat]; exact List.mem_flatten.mpr ⟨ch, hc, hv⟩
    refine ⟨hne ch hc, ?_, fun v hv => Fchk.pySci_realTok L.dD v hL.2.1 (hm v (hmem v hv))⟩
    apply Fchk.dataLine_words (val L) (Fchk.realTok L.dD) (valPre L)
    intro v _
    refine ⟨by simp [val, valPre, Fchk.fmtSci_split], allWs_cons (by decide) (Fchk.realPre_allWs _ _ _), by simp [valPre],
      Fchk.realTok_noWs _ _, Fchk.realTok_ne_nil _ _⟩)
  rw [hflat] at this
  exact this

theorem okTitle_spec {t : Str} (h : okTitle t = true) : Trimmed t := by
  simp only [okTitle, Bool.and_eq_true, decide_eq_true_eq] at h; exact h.1

theorem okTitle_outTitle (L : Layout) (hL : LayoutOK L) (t : Str) (h : okTitle t = true) : okTitle (outTitle L t) = true := by
  unfold outTitle; split
  · exact hL.2.2.1
  · exact h

/-- C02 for cube files: every shape, every number of atoms, every value -/
theorem load_dump (L : Layout) (hL : LayoutOK L) (o : Obj) (h : Dom L o) : load L (dump L o) = .ok (norm L o) := by
  obtain ⟨ht, hs, hax, hm⟩ := h
  obtain ⟨title, origin, shape, axes, atoms, data⟩ := o
  simp only at ht hs hax hm
  match shape, axes, hs, hax with
  | [a, b, c], [v0, v1, v2], hs, _ =>
    simp only [okShape, Bool.and_eq_true, decide_eq_true_eq] at hs
    obtain ⟨⟨⟨ha, hb⟩, hc⟩, hlen⟩ := hs
    have htitle : strip (outTitle L title ++ ['\n']) = outTitle L title := by
      have := strip_pad [] (outTitle L title) ['\n'] allWs_nil allWs_nl (okTitle_spec (okTitle_outTitle L hL _ ht))
      simpa using this
    have hatoms := readN_map (readAtom L.hD) (atomLine L) (normAtom L) atoms
      (dataLines L (([a, b, c] : List Int).getD 2 0).toNat data) (fun x _ => readAtom_atomLine L x)
    have hdata : Fchk.readTok (pySci L.dD) (a * b * c).toNat [] (dataLines L c.toNat data ++ []) = .ok (data, []) := by
      rw [hlen]
      by_cases hd : data = []
      · subst hd; simp [dataLines, dataChunks, Fchk.readTok]
      · have hpos : 0 < c.toNat := by
          have : 0 < data.length := List.length_pos_iff.mpr hd
          rw [← hlen] at this
          by_cases hc' : 0 < c
          · omega
          · have : c = 0 := by omega
            subst this; simp at this
        exact readData L hL c.toNat hpos data hm []
    simp only [List.append_nil] at hdata
    have hna : ¬ ((atoms.length : Int) < 0) := by omega
    have hneg : (decide (a < 0) || decide (b < 0) || decide (c < 0)) = false := by
      simp; omega
    simp only [dump, load, List.zip_cons_cons, List.zip_nil_right, List.map_cons, List.map_nil, List.cons_append, List.nil_append,
      readGrid_gridLine, hna, if_false, Int.toNat_natCast, hatoms, hneg, Bool.false_eq_true]
    simp only [List.getD, List.getElem?_cons_succ, List.getElem?_cons_zero, Option.getD_some] at hdata ⊢
    rw [hdata]
    simp [norm, htitle]

theorem outTitle_idem (L : Layout) (hL : LayoutOK L) (t : Str) : outTitle L (outTitle L t) = outTitle L t := by
  unfold outTitle
  by_cases h : t.isEmpty = true
  · have : L.defaultTitle.isEmpty = false := by
      cases e : L.defaultTitle with
      | nil => exact absurd e hL.2.2.2
      | cons _ _ => rfl
    simp [h, this]
  · simp [h]

theorem normAtom_idem (L : Layout) (a : Atom) : normAtom L (normAtom L a) = normAtom L a := by
  unfold normAtom
  by_cases h : a.q.mag = 0
  · simp only [h, if_true]
    by_cases hz : a.zn.natAbs * 10 ^ L.hD = 0 <;> simp [hz]
  · simp [h]

theorem norm_idem (L : Layout) (hL : LayoutOK L) (o : Obj) : norm L (norm L o) = norm L o := by
  simp [norm, outTitle_idem L hL, normAtom_idem, Function.comp_def]

theorem dom_norm (L : Layout) (hL : LayoutOK L) (o : Obj) (h : Dom L o) : Dom L (norm L o) := by
  obtain ⟨ht, hs, hax, hm⟩ := h
  exact ⟨okTitle_outTitle L hL _ ht, hs, hax, hm⟩

end Iodata.Fmt.Cube
