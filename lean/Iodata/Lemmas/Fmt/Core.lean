/- Generic lemmas for the format models: record loops, padded tokens, table round trips. -/
import Iodata.Lemmas.Chars
import Iodata.Lemmas.Decimal
import Iodata.Model.Fmt.Core
namespace Iodata.Fmt
open Iodata.Chars Iodata.Decimal

/-- reading back `n` records written one per line, whatever follows -/
theorem readN_map {α β} (p : Str → R β) (w : α → Str) (g : α → β) (xs : List α) (rest : List Str)
    (h : ∀ x ∈ xs, p (w x) = .ok (g x)) :
    readN p xs.length (xs.map w ++ rest) = .ok (xs.map g, rest) := by
  induction xs with
  | nil => rfl
  | cons x xs ih =>
    have hx := h x List.mem_cons_self
    have := ih (fun y hy => h y (List.mem_cons_of_mem _ hy))
    simp only [List.length_cons, List.map_cons, List.cons_append, readN, hx, this]

/-- a token with blank padding on both sides -/
structure Padded where
  pre : Str
  tok : Str
  post : Str

def Padded.render (x : Padded) : Str := x.pre ++ (x.tok ++ x.post)
def Padded.OK (x : Padded) : Prop := AllWs x.pre ∧ NoWs x.tok ∧ x.tok ≠ [] ∧ AllWs x.post

theorem splitWs_allWs_append (p r : Str) (hp : AllWs p) : splitWs (p ++ r) = splitWs r := by
  unfold splitWs; exact splitGo_ws p r hp

/-- `(" ".join(padded words) + tail).split()` -/
theorem splitWs_joinSp_padded (xs : List Padded) (tail : Str) (h : ∀ x ∈ xs, x.OK) (ht : Brk tail) :
    splitWs (joinSp (xs.map Padded.render) ++ tail) = xs.map (·.tok) ++ splitWs tail := by
  unfold joinSp
  induction xs with
  | nil => simp [List.intercalate]
  | cons x xs ih =>
    have hx := h x List.mem_cons_self
    have hxs : ∀ y ∈ xs, y.OK := fun y hy => h y (List.mem_cons_of_mem _ hy)
    cases xs with
    | nil =>
      have e : List.intercalate [' '] ([x].map Padded.render) ++ tail = x.pre ++ (x.tok ++ (x.post ++ tail)) := by
        simp [List.intercalate, Padded.render]
      rw [e, splitWs_field _ _ _ hx.1 hx.2.1 hx.2.2.1 (brk_allWs_append _ hx.2.2.2 ht),
        splitWs_allWs_append _ _ hx.2.2.2]
      simp
    | cons y ys =>
      have e : List.intercalate [' '] ((x :: y :: ys).map Padded.render) ++ tail
          = x.pre ++ (x.tok ++ ((x.post ++ [' ']) ++ (List.intercalate [' '] ((y :: ys).map Padded.render) ++ tail))) := by
        simp [List.intercalate, Padded.render]
      have hq : AllWs (x.post ++ [' ']) := allWs_append hx.2.2.2 (by decide)
      rw [e, splitWs_field _ _ _ hx.1 hx.2.1 hx.2.2.1 (brk_allWs_ne_nil_append _ hq (by simp)),
        splitWs_allWs_append _ _ hq, ih hxs]
      simp

end Iodata.Fmt

namespace Iodata.Fmt
open Iodata.Chars Iodata.Decimal

/-- fields written one after the other, each (but possibly the first) preceded by at least one blank -/
theorem splitWs_fields (xs : List Padded) (tail : Str) (h : ∀ x ∈ xs, x.OK)
    (hsep : ∀ x ∈ xs.tail, x.pre ≠ []) (ht : Brk tail) :
    splitWs ((xs.map Padded.render).flatten ++ tail) = xs.map (·.tok) ++ splitWs tail := by
  induction xs with
  | nil => simp
  | cons x xs ih =>
    have hx := h x List.mem_cons_self
    have hxs : ∀ y ∈ xs, y.OK := fun y hy => h y (List.mem_cons_of_mem _ hy)
    have hsep' : ∀ y ∈ xs.tail, y.pre ≠ [] := fun y hy => hsep y (by
      simp only [List.tail_cons]; exact List.mem_of_mem_tail hy)
    have hb : Brk ((xs.map Padded.render).flatten ++ tail) := by
      cases xs with
      | nil => simpa using ht
      | cons y ys =>
        have hy := hxs y List.mem_cons_self
        have hne : y.pre ≠ [] := hsep y (by simp)
        simp only [List.map_cons, List.flatten_cons, Padded.render, List.append_assoc]
        exact brk_allWs_ne_nil_append _ hy.1 hne
    have e : ((x :: xs).map Padded.render).flatten ++ tail
        = x.pre ++ (x.tok ++ (x.post ++ ((xs.map Padded.render).flatten ++ tail))) := by
      simp [Padded.render]
    rw [e, splitWs_field _ _ _ hx.1 hx.2.1 hx.2.2.1 (brk_allWs_append _ hx.2.2.2 hb),
      splitWs_allWs_append _ _ hx.2.2.2, ih hxs hsep']
    simp

end Iodata.Fmt
