/- QCSchema molecule core: dictionary look-ups in the written file, value conversions, C02 and C15 (provenance excepted). -/
import Iodata.Lemmas.Fmt.FchkO
import Iodata.Model.Fmt.Qcs
namespace Iodata.Fmt.Qcs
open Iodata.Chars Iodata.Decimal Iodata.Fmt

/-! ### look-ups in the written dictionary -/

theorem keys_entriesAll (T : Tables) (K : Keys) (m : Mol) : (entriesAll T K m).map (·.1) = allKeys K ++ m.unparsed.map (·.1) := by
  simp [entriesAll, coreEntries, allKeys, List.map_map, Function.comp_def]

theorem keys_coreEntries (T : Tables) (K : Keys) (m : Mol) : (coreEntries T K m).map (·.1) = allKeys K := by
  simp [coreEntries, allKeys, List.map_map, Function.comp_def]

theorem fget_dump (T : Tables) (K : Keys) (m : Mol) (hn : ((entriesAll T K m).map (·.1)).Nodup) (k : Str) (o : Option V)
    (h : (k, o) ∈ entriesAll T K m) : fget (dump T K m) k = o := by
  unfold fget dump
  rw [FchkO.lookupK_filterMap (entriesAll T K m) (fun e => e.2.map fun v => (e.1, v)) (·.1) (by
    intro a b hab
    cases ha : a.2 with
    | none => simp [ha] at hab
    | some v => simp only [ha, Option.map_some, Option.some.injEq] at hab; rw [← hab]) k hn]
  have := FchkO.find_self (entriesAll T K m) (·.1) hn (k, o) h
  simp only at this
  rw [this]
  cases o <;> rfl

theorem fget_dump_none (T : Tables) (K : Keys) (m : Mol) (k : Str) (h : k ∉ (entriesAll T K m).map (·.1)) : fget (dump T K m) k = none := by
  unfold fget dump
  exact FchkO.lookupK_filterMap_none (entriesAll T K m) (fun e => e.2.map fun v => (e.1, v)) (·.1) (by
    intro a b hab
    cases ha : a.2 with
    | none => simp [ha] at hab
    | some v => simp only [ha, Option.map_some, Option.some.injEq] at hab; rw [← hab]) k h

/-! ### value conversions -/

theorem pred_succ (q : Q) : predQ (succQ q) = q := by
  cases q; simp [predQ, succQ]

theorem okZ_spec {T : Tables} {z : Nat} (h : okZ T z = true) : T.num? (title (T.sym z)) = some z := by
  unfold okZ at h
  cases e : T.sym? z with
  | none => simp [e] at h
  | some s => simp only [e, beq_iff_eq] at h; simpa [Tables.sym, e] using h

theorem optAll_syms (T : Tables) (zs : List Nat) (h : ∀ z ∈ zs, okZ T z = true) :
    optAll (fun s => T.num? (title s)) (zs.map T.sym) = some zs := by
  induction zs with
  | nil => rfl
  | cons z zs ih =>
    simp only [List.map_cons, optAll, okZ_spec (h z List.mem_cons_self), ih (fun y hy => h y (List.mem_cons_of_mem _ hy))]

theorem maskCore_bools (zs : List Nat) (qs : List Q) :
    maskCore zs (some (qs.map fun q => !isZero q)) = (zs.zip qs).map fun p => if isZero p.2 then ⟨false, 0, 1⟩ else floatQ p.1 := by
  simp only [maskCore, List.zip_map_right, List.map_map, Function.comp_def]
  apply List.map_congr_left
  intro p _
  cases h : isZero p.2 <;> simp [Prod.map, h]

/-! ### the unparsed keys -/

theorem filterMap_nil_of {α β} (l : List α) (g : α → Option β) (h : ∀ a ∈ l, g a = none) : l.filterMap g = [] := by
  rw [List.filterMap_eq_nil_iff]; exact h

theorem unparsedIn_dump (T : Tables) (K : Keys) (known : List Str) (m : Mol) (hk : ∀ k ∈ allKeys K, known.contains k = true)
    (hu : ∀ e ∈ m.unparsed, known.contains e.1 = false) : unparsedIn known (dump T K m) = m.unparsed := by
  unfold unparsedIn dump entriesAll
  rw [List.filterMap_filterMap, List.filterMap_append, filterMap_nil_of _ _ ?_, List.nil_append, List.filterMap_map]
  · have key : ∀ (l : List (Str × Str)), (∀ e ∈ l, known.contains e.1 = false) →
        l.filterMap ((fun e : Str × Option V => (e.2.map fun v => (e.1, v)).bind fun e : Str × V =>
          if known.contains e.1 = true then none else (rawOf e.2).map fun r => (e.1, r)) ∘ fun p : Str × Str => (p.1, some (V.raw p.2))) = l := by
      intro l
      induction l with
      | nil => intro _; rfl
      | cons p ps ih =>
        intro h
        have h1 := h p List.mem_cons_self
        simp only [List.filterMap_cons, Function.comp_def, Option.map_some, Option.bind_some, h1, Bool.false_eq_true, if_false, rawOf]
        have := ih (fun e he => h e (List.mem_cons_of_mem _ he))
        simp only [Function.comp_def, Option.map_some, Option.bind_some, rawOf] at this
        rw [this]
    exact key m.unparsed hu
  · intro e he
    have hm : e.1 ∈ allKeys K := by rw [← keys_coreEntries T K m]; exact List.mem_map_of_mem he
    have hkn := hk e.1 hm
    cases hv : e.2 with
    | none => rfl
    | some v => simp only [Option.map_some, Option.bind_some, hkn, if_true]

/-! ### C02 -/

theorem nodup_entries (T : Tables) (K : Keys) (known : List Str) (b : Bool) (m : Mol) (hK : KeysOK K K known) (h : Dom T K known b m) :
    ((entriesAll T K m).map (·.1)).Nodup := by
  rw [keys_entriesAll, List.nodup_append]
  refine ⟨hK.2.1, h.2.2.2.2.2.2, ?_⟩
  intro a ha b hb hab
  have h1 := hK.2.2.1 a ha
  obtain ⟨e, he, rfl⟩ := List.mem_map.mp hb
  have h2 := h.2.2.2.2.2.1 e he
  rw [hab, h2] at h1; cases h1

theorem passIn_dump (T : Tables) (K : Keys) (m : Mol) (hn : ((entriesAll T K m).map (·.1)).Nodup) :
    passIn K.pass (dump T K m) = K.pass.filterMap (fun p => (lookupK m.extra p.1).map fun r => (p.1, r)) := by
  unfold passIn
  apply FchkO.filterMap_congr_mem
  intro p hp
  have hm : (p.2, (lookupK m.extra p.1).map V.raw) ∈ entriesAll T K m := by
    simp only [entriesAll, coreEntries, List.mem_append, List.mem_cons, List.mem_map]
    exact Or.inl (Or.inr ⟨p, hp, rfl⟩)
  rw [fget_dump T K m hn _ _ hm]
  cases lookupK m.extra p.1 <;> rfl

/-- C02 for the QCSchema molecule core: every mapped key comes back under its attribute with its value -/
theorem load_dump (T : Tables) (K : Keys) (known : List Str) (b : Bool) (hK : KeysOK K K known) (m : Mol) (h : Dom T K known b m) :
    load T K known b (dump T K m) = .ok (norm K.pass m) := by
  have hn := nodup_entries T K known b m hK h
  have g := fun k o hm => fget_dump T K m hn k o hm
  have g1 := g K.symbols (some (.strs (m.atnums.map T.sym))) (by simp [entriesAll, coreEntries])
  have g2 := g K.geometry (some (.nums m.atcoords)) (by simp [entriesAll, coreEntries])
  have g3 := g K.charge (m.charge.map .num) (by simp [entriesAll, coreEntries])
  have g4 := g K.mult (m.spinpol.map fun s => .num (succQ s)) (by simp [entriesAll, coreEntries])
  have g5 := g K.name ((m.title.filter fun t => !t.isEmpty).map .str) (by simp [entriesAll, coreEntries])
  have g6 := g K.real (some (.bools (m.atcorenums.map fun q => !isZero q))) (by simp [entriesAll, coreEntries])
  have g7 := g K.masses (m.atmasses.map .nums) (by simp [entriesAll, coreEntries])
  have g8 := g K.connectivity (m.bonds.map .triples) (by simp [entriesAll, coreEntries])
  have g9 := g K.fixSymmetry ((m.grot.filter fun g => !isZero g).map .num) (by simp [entriesAll, coreEntries])
  have g10 := g K.provenance (some (provOut m.prov)) (by simp [entriesAll, coreEntries])
  have g11 := g kSchemaVersion (some (.num ⟨false, 2, 1⟩)) (by simp [entriesAll, coreEntries])
  have c1 : chargeOf (m.charge.map V.num) = .ok (m.charge.getD ⟨false, 0, 1⟩) := by cases m.charge <;> rfl
  have c2 : spinOf (m.spinpol.map fun s => V.num (succQ s)) = .ok ((m.spinpol.map fun s => predQ (succQ s)).getD ⟨true, 0, 1⟩) := by
    cases m.spinpol <;> rfl
  have c3 : provOf (some (provOut m.prov)) = .ok (provGrow m.prov) := by cases m.prov <;> rfl
  have c4 : strO ((m.title.filter fun t => !t.isEmpty).map V.str) = m.title.filter fun t => !t.isEmpty := by
    cases (m.title.filter fun t => !t.isEmpty) <;> rfl
  have c5 : numsO (m.atmasses.map V.nums) = m.atmasses := by cases m.atmasses <;> rfl
  have c6 : bondsOf b (m.bonds.map V.triples) = .ok m.bonds := by
    cases hb : m.bonds with
    | none => rfl
    | some l =>
      cases b with
      | true => simp [bondsOf]
      | false =>
        have : l ≠ [] := fun e => h.1 rfl (by rw [hb, e])
        have : l.isEmpty = false := by cases l; exact absurd rfl this; rfl
        simp [bondsOf, this]
  have c7 : numO ((m.grot.filter fun g => !isZero g).map V.num) = m.grot.filter fun g => !isZero g := by
    cases (m.grot.filter fun g => !isZero g) <;> rfl
  unfold load
  simp only [g1, g2, g3, g4, g5, g6, g7, g8, g9, g10, g11, optAll_syms T m.atnums h.2.1, c1, c2, c3, c4, c5, c6, c7, realOf,
    passIn_dump T K m hn, unparsedIn_dump T K known m hK.2.2.1 h.2.2.2.2.2.1]
  rfl

/-! ### C15: everything but the provenance trail is stable; the trail grows by one entry per cycle -/

def provLen : Prov → Nat
  | .none => 0
  | .one _ => 1
  | .many l => l.length

theorem provLen_grow (p : Prov) : provLen (provGrow p) = provLen p + 1 := by
  cases p <;> simp [provLen, provGrow]

theorem maskCore_idem (zs : List Nat) (bs : List Bool) :
    maskCore zs (some ((maskCore zs (some bs)).map fun q => !isZero q)) = maskCore zs (some bs) := by
  simp only [maskCore]
  induction zs generalizing bs with
  | nil => rfl
  | cons z zs ih =>
    cases bs with
    | nil => rfl
    | cons b bs =>
      simp only [List.zip_cons_cons, List.map_cons]
      rw [ih bs]
      congr 1
      cases b
      · simp [isZero]
      · by_cases hz : z = 0
        · subst hz; simp [isZero, floatQ]
        · have : isZero (floatQ z) = false := by simp [isZero, floatQ]; omega
          simp [this]

theorem extra_idem (tab : List (Str × Str)) (hn : (tab.map (·.1)).Nodup) (extra : List (Str × Str)) :
    tab.filterMap (fun p => (lookupK (tab.filterMap fun p => (lookupK extra p.1).map fun r => (p.1, r)) p.1).map fun r => (p.1, r))
      = tab.filterMap fun p => (lookupK extra p.1).map fun r => (p.1, r) := by
  apply FchkO.filterMap_congr_mem
  intro p hp
  rw [FchkO.lookupK_filterMap tab (fun p => (lookupK extra p.1).map fun r => (p.1, r)) (·.1) (by
    intro a b hab
    cases hl : lookupK extra a.1 with
    | none => simp [hl] at hab
    | some r => simp only [hl, Option.map_some, Option.some.injEq] at hab; rw [← hab]) p.1 hn]
  rw [FchkO.find_self tab (·.1) hn p hp]
  cases hl : lookupK extra p.1 <;> simp [hl]

theorem filter_idem {α} (p : α → Bool) (o : Option α) : (o.filter p).filter p = o.filter p := by
  cases o with
  | none => rfl
  | some a => by_cases h : p a = true <;> simp [Option.filter, h]

/-- C15 for the molecule core: a second cycle returns the same object except for the provenance trail, which is one
entry longer again -/
theorem norm_norm (tab : List (Str × Str)) (hn : (tab.map (·.1)).Nodup) (m : Mol) :
    (norm tab (norm tab m).mol).dropProv = (norm tab m).dropProv ∧
    (norm tab (norm tab m).mol).prov = provGrow (norm tab m).prov ∧ provLen (norm tab m).prov = provLen m.prov + 1 := by
  refine ⟨?_, rfl, provLen_grow m.prov⟩
  simp only [norm, Loaded.mol, Loaded.dropProv, Option.getD_some, Option.map_some, pred_succ, maskCore_idem, filter_idem,
    extra_idem tab hn]

theorem dom_norm (T : Tables) (K : Keys) (known : List Str) (b : Bool) (hK : KeysOK K K known) (m : Mol) (h : Dom T K known b m) :
    Dom T K known b (norm K.pass m).mol := by
  obtain ⟨h0, h1, h2, h3, h4, h5, h6⟩ := h
  refine ⟨h0, h1, ?_, ?_, ?_, h5, h6⟩
  · simp only [norm, Loaded.mol, maskCore, List.length_map, List.length_zip, h2, Nat.min_self]
  · intro e he
    simp only [norm, Loaded.mol, List.mem_filterMap] at he
    obtain ⟨p, hp, hpe⟩ := he
    cases hl : lookupK m.extra p.1 with
    | none => simp [hl] at hpe
    | some r =>
      simp only [hl, Option.map_some, Option.some.injEq] at hpe
      rw [← hpe]; exact List.mem_map_of_mem (f := (·.1)) hp
  · simp only [norm, Loaded.mol]
    have hsub : (K.pass.filterMap fun p => (lookupK m.extra p.1).map fun r => (p.1, r)).map (·.1) |>.Sublist (K.pass.map (·.1)) := by
      induction K.pass with
      | nil => exact List.Sublist.slnil
      | cons p ps ih =>
        simp only [List.filterMap_cons, List.map_cons]
        cases lookupK m.extra p.1 with
        | none => exact List.Sublist.cons _ ih
        | some r => exact List.Sublist.cons_cons _ ih
    exact List.Nodup.sublist hsub hK.2.2.2

end Iodata.Fmt.Qcs
