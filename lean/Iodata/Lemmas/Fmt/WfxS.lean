/- WFX section layer: the section state machine on the writer's output, number lines of every length, C02 / C15. -/
import Iodata.Lemmas.Fmt.Core
import Iodata.Lemmas.Fmt.Fchk
import Iodata.Lemmas.DecimalSci
import Iodata.Model.Fmt.WfxS
namespace Iodata.Fmt.WfxS
open Iodata.Chars Iodata.Decimal Iodata.Fmt

/-! ### dictionary updates -/

def keys (d : Dict) : List Str := d.map (·.1)

theorem dictAppend_notin (d : Dict) (k l : Str) (h : k ∉ keys d) : dictAppend d k l = d := by
  unfold dictAppend
  induction d with
  | nil => rfl
  | cons e d ih =>
    have h1 : (e.1 == k) = false := by
      simp only [beq_eq_false_iff_ne, ne_eq]; exact fun e' => h (by simp [keys, e'])
    have h2 : k ∉ keys d := fun e' => h (by simp only [keys, List.map_cons] at e' ⊢; exact List.mem_cons_of_mem _ e')
    simp only [List.map_cons, h1, Bool.false_eq_true, if_false]
    rw [ih h2]

theorem dictAppend_last (d : Dict) (k : Str) (acc : List Str) (l : Str) (h : k ∉ keys d) :
    dictAppend (d ++ [(k, acc)]) k l = d ++ [(k, acc ++ [l])] := by
  have := dictAppend_notin d k l h
  unfold dictAppend at this ⊢
  simp only [List.map_append, this, List.map_cons, List.map_nil, beq_self_eq_true, if_true]

theorem dictAppend_pair1 (d : Dict) (k k2 : Str) (acc acc2 : List Str) (l : Str) (h : k ∉ keys d) (hk : k2 ≠ k) :
    dictAppend (d ++ [(k, acc), (k2, acc2)]) k l = d ++ [(k, acc ++ [l]), (k2, acc2)] := by
  have := dictAppend_notin d k l h
  have hb : (k2 == k) = false := by simpa using hk
  unfold dictAppend at this ⊢
  simp only [List.map_append, this, List.map_cons, List.map_nil, beq_self_eq_true, if_true, hb, Bool.false_eq_true, if_false]

theorem dictAppend_pair2 (d : Dict) (k k2 : Str) (acc acc2 : List Str) (l : Str) (h : k2 ∉ keys d) (hk : k ≠ k2) :
    dictAppend (d ++ [(k, acc), (k2, acc2)]) k2 l = d ++ [(k, acc), (k2, acc2 ++ [l])] := by
  have := dictAppend_notin d k2 l h
  have hb : (k == k2) = false := by simpa using hk
  unfold dictAppend at this ⊢
  simp only [List.map_append, this, List.map_cons, List.map_nil, beq_self_eq_true, if_true, hb, Bool.false_eq_true, if_false]

/-! ### the body loop -/

/-- a body line that is neither a closing tag nor (inside the orbital section) an `<MO Number>` line is appended -/
def plain (k : Str) (l : Str) : Prop := startsWith ltSlash (strip l) = false ∧ ¬ (k = moTag ∧ strip l = moNumber)

theorem appendLoopD (D : List Str → Dict) (k : Str) (hD : ∀ acc l, dictAppend (D acc) k l = D (acc ++ [l])) (rest : List Str) :
    ∀ (ls : List Str) (acc : List Str) (fuel : Nat), (∀ l ∈ ls, plain k l) → (ls ++ rest).length < fuel →
    ∃ fuel', rest.length < fuel' ∧
      parseGo fuel (D acc) (some k) (ls ++ rest) = parseGo fuel' (D (acc ++ stripAll ls)) (some k) rest := by
  intro ls
  induction ls with
  | nil => intro acc fuel _ hf; exact ⟨fuel, by simpa using hf, by simp [stripAll]⟩
  | cons l ls ih =>
    intro acc fuel hp hf
    cases fuel with
    | zero => simp at hf
    | succ f =>
      obtain ⟨h1, h2⟩ := hp l List.mem_cons_self
      have hmo : (k == moTag && strip l == moNumber) = false := by
        rw [Bool.and_eq_false_iff]
        by_cases e : k = moTag
        · right; simp only [beq_eq_false_iff_ne, ne_eq]; exact fun e2 => h2 ⟨e, e2⟩
        · left; simpa using e
      obtain ⟨f', hf', he⟩ := ih (acc ++ [strip l]) f (fun x hx => hp x (List.mem_cons_of_mem _ hx))
        (by simp only [List.cons_append, List.length_cons] at hf; omega)
      refine ⟨f', hf', ?_⟩
      simp only [List.cons_append, parseGo, h1, Bool.false_eq_true, if_false, hmo, hD]
      rw [he]; simp [stripAll]

/-! ### number lines never look like tags -/

theorem strip_head (p : Str) (c : Char) (r : Str) (hp : AllWs p) (hc : isWs c = false) : ∃ r', strip (p ++ c :: r) = c :: r' := by
  have h1 : lstrip (p ++ c :: r) = c :: r := by
    rw [lstrip_allWs_append p _ hp]; simp [lstrip, hc]
  unfold strip
  rw [h1]
  exact ⟨rstrip r, by simp [rstrip, hc]⟩

/-- a rendered number: optional blanks, then a visible character that is not `<` -/
def TokOK {α} (render : α → Str) : Prop := ∀ x, ∃ p c r, render x = p ++ c :: r ∧ AllWs p ∧ isWs c = false ∧ c ≠ '<'

theorem plain_of_head (k : Str) (l : Str) (c : Char) (r : Str) (h : strip l = c :: r) (hc : c ≠ '<') : plain k l := by
  refine ⟨?_, ?_⟩
  · rw [h]; simp [startsWith, ltSlash, List.isPrefixOf]; intro e; exact absurd e.symm hc
  · rintro ⟨_, e⟩
    rw [h] at e
    have : c = '<' := by simpa [moNumber] using (List.cons.inj e).1
    exact hc this

theorem numLines_plain {α} (k : Str) (per : Nat) (hper : 0 < per) (render : α → Str) (ht : TokOK render) (l : List α) :
    ∀ line ∈ numLines per render l, plain k line := by
  intro line hl
  unfold numLines at hl
  by_cases he : l = []
  · subst he; simp at hl
  · have hie : l.isEmpty = false := by cases l; exact absurd rfl he; rfl
    simp only [hie, Bool.false_eq_true, if_false, List.mem_map] at hl
    obtain ⟨ch, hch, rfl⟩ := hl
    obtain ⟨_, hne⟩ := Fchk.chunks_spec per hper l he
    have hc := (hne ch hch).1
    cases ch with
    | nil => exact absurd rfl hc
    | cons x xs =>
      obtain ⟨p, c, r, hr, hp, hcw, hc'⟩ := ht x
      have : joinSp ((x :: xs).map render) ++ ['\n'] = p ++ c :: (r ++ ((xs.map render).flatMap (fun t => ' ' :: t) ++ ['\n'])) := by
        unfold joinSp
        cases xs with
        | nil => simp [List.intercalate, hr]
        | cons y ys =>
          simp only [List.map_cons, hr]
          have : ∀ (a : Str) (bs : List Str), List.intercalate [' '] (a :: bs) = a ++ bs.flatMap (fun t => ' ' :: t) := by
            intro a bs
            induction bs generalizing a with
            | nil => simp [List.intercalate]
            | cons b bs ih =>
              have := ih b
              simp only [List.intercalate] at this ⊢
              simp [List.intersperse, this]
          rw [this]; simp
      obtain ⟨r', hr'⟩ := strip_head p c _ hp hcw
      rw [this]
      exact plain_of_head k _ c r' hr' hc'

theorem digit_vis : ∀ c ∈ digitChars, isWs c = false ∧ c ≠ '<' ∧ c ≠ 'N' ∧ upperC c = c := by decide

theorem tokOK_int : TokOK intToDec := by
  intro i
  cases i with
  | ofNat n =>
    obtain ⟨c, r, h, hm⟩ := natToDec_head n
    exact ⟨[], c, r, by simpa [intToDec] using h, allWs_nil, (digit_vis c hm).1, (digit_vis c hm).2.1⟩
  | negSucc n => exact ⟨[], '-', natToDec (n + 1), rfl, allWs_nil, by decide, by decide⟩

/-! ### real tokens -/

def realPre : Option Sci → Str
  | none => [' ']
  | some x => if x.neg then [] else [' ']

def realTok (L : Layout) : Option Sci → Str
  | none => kNAN
  | some x => sciCoreC false 'E' L.d x

theorem real_split (L : Layout) (x : Option Sci) : real L x = realPre x ++ realTok L x := by
  cases x with
  | none => rfl
  | some v =>
    simp only [real, realPre, realTok, sciCoreC, signStr]
    cases v.neg <;> simp

theorem realTok_head (L : Layout) (x : Option Sci) :
    ∃ c r, realTok L x = c :: r ∧ isWs c = false ∧ c ≠ '<' ∧ (c = 'N' → x = none) ∧ upperC c = c := by
  cases x with
  | none => exact ⟨'N', ['A', 'N'], rfl, by decide, by decide, fun _ => rfl, by decide⟩
  | some v =>
    obtain ⟨c, r, h, hm⟩ := manDigits_head L.d v.man
    have e : realTok L (some v) = (if v.neg then ['-'] else []) ++ (manDigits L.d v.man ++ 'E' :: expStr v.exp) := by
      simp only [realTok, sciCoreC, signStr]; cases v.neg <;> rfl
    rw [e, h]
    cases v.neg
    · exact ⟨c, r ++ 'E' :: expStr v.exp, by simp, (digit_vis c hm).1, (digit_vis c hm).2.1, fun e => absurd e (digit_vis c hm).2.2.1,
        (digit_vis c hm).2.2.2⟩
    · exact ⟨'-', c :: r ++ 'E' :: expStr v.exp, by simp, by decide, by decide, fun e => absurd e (by decide), by decide⟩

theorem realTok_noWs (L : Layout) (x : Option Sci) : NoWs (realTok L x) := by
  cases x with
  | none => show NoWs kNAN; decide
  | some v =>
    simp only [realTok, sciCoreC, signStr]
    have hb := sciBody_noWs 'E' (by decide) L.d v.man v.exp
    cases v.neg
    · simpa using hb
    · simpa using noWs_cons (by decide) hb

theorem realPre_allWs (x : Option Sci) : AllWs (realPre x) := by
  cases x with
  | none => decide
  | some v => simp only [realPre]; split <;> decide

theorem tokOK_real (L : Layout) : TokOK (real L) := by
  intro x
  obtain ⟨c, r, h, hw, hc, _, _⟩ := realTok_head L x
  exact ⟨realPre x, c, r, by rw [real_split, h], realPre_allWs x, hw, hc⟩

theorem pyReal_tok (L : Layout) (hL : LayoutOK L) (x : Option Sci) (hx : okSci L x = true) : pyReal L.d (realTok L x) = some x := by
  cases x with
  | none => simp [pyReal, realTok, show strip kNAN = kNAN by decide, show upper kNAN = kNAN by decide]
  | some v =>
    have hm : v.man < 10 ^ (L.d + 1) := by simpa [okSci] using hx
    obtain ⟨c, r, h, _, _, hN, hup⟩ := realTok_head L (some v)
    have hs : strip (realTok L (some v)) = realTok L (some v) := by
      have := strip_noWs_pad [] _ [] allWs_nil allWs_nil (realTok_noWs L (some v))
      simpa using this
    have hne : (upper (strip (realTok L (some v))) == kNAN) = false := by
      rw [hs, h]
      simp only [beq_eq_false_iff_ne, ne_eq, Chars.upper, List.map_cons, kNAN]
      intro e
      have := (List.cons.inj e).1
      rw [hup] at this
      exact absurd (hN this) (by simp)
    have hp : pySci L.d (realTok L (some v)) = some v := by
      have := pySci_sciCoreC false 'E' (Or.inl rfl) L.d v hL hm [] [] allWs_nil allWs_nil
      simpa [realTok] using this
    simp only [pyReal, hne, Bool.false_eq_true, if_false, hp, Option.map_some]

/-! ### the tokens of the stripped body lines -/

theorem allWs_of_rstrip_nil : ∀ (t : Str), rstrip t = [] → AllWs t := by
  intro t
  induction t with
  | nil => intro _; exact allWs_nil
  | cons c cs ih =>
    intro h
    simp only [rstrip] at h
    by_cases hr : (rstrip cs).isEmpty = true ∧ isWs c = true
    · have : rstrip cs = [] := by simpa using hr.1
      exact allWs_cons hr.2 (ih this)
    · exfalso
      have : ((rstrip cs).isEmpty && isWs c) = false := by
        rw [Bool.and_eq_false_iff]
        by_cases h1 : (rstrip cs).isEmpty = true
        · right; by_cases h2 : isWs c = true
          · exact absurd ⟨h1, h2⟩ hr
          · simpa using h2
        · left; simpa using h1
      rw [this] at h; simp at h

theorem splitGo_allWs (p : Str) (hp : AllWs p) (cur : Str) : splitGo cur p = splitGo cur [] := by
  induction p generalizing cur with
  | nil => rfl
  | cons c p ih =>
    have hc : isWs c = true := hp c List.mem_cons_self
    have hp' : AllWs p := fun x hx => hp x (List.mem_cons_of_mem _ hx)
    simp only [splitGo, hc, if_true]
    by_cases he : cur.isEmpty = true
    · simp only [he, if_true]; rw [ih hp' []]; simp [splitGo]
    · have he' : cur.isEmpty = false := by simpa using he
      simp only [he', Bool.false_eq_true, if_false]; rw [ih hp' []]; simp [splitGo]

theorem splitGo_rstrip : ∀ (t cur : Str), splitGo cur (rstrip t) = splitGo cur t := by
  intro t
  induction t with
  | nil => intro cur; rfl
  | cons c cs ih =>
    intro cur
    by_cases hr : ((rstrip cs).isEmpty && isWs c) = true
    · have h1 : rstrip cs = [] := by
        simp only [Bool.and_eq_true] at hr; simpa using hr.1
      have h2 : isWs c = true := by simp only [Bool.and_eq_true] at hr; exact hr.2
      have : rstrip (c :: cs) = [] := by simp [rstrip, hr]
      rw [this]
      exact (splitGo_allWs (c :: cs) (allWs_cons h2 (allWs_of_rstrip_nil cs h1)) cur).symm
    · have hr' : ((rstrip cs).isEmpty && isWs c) = false := by simpa using hr
      have : rstrip (c :: cs) = c :: rstrip cs := by simp [rstrip, hr']
      rw [this]
      simp only [splitGo]
      split
      · split <;> simp [ih]
      · exact ih _

theorem allWs_takeWhile (s : Str) : AllWs (s.takeWhile isWs) := by
  induction s with
  | nil => exact allWs_nil
  | cons c s ih =>
    by_cases h : isWs c = true
    · simp only [List.takeWhile_cons, h, if_true]; exact allWs_cons h ih
    · have h' : isWs c = false := by simpa using h
      simp only [List.takeWhile_cons, h', Bool.false_eq_true, if_false]; exact allWs_nil

theorem splitWs_strip (s : Str) : splitWs (strip s) = splitWs s := by
  unfold strip splitWs
  rw [splitGo_rstrip]
  have : s = s.takeWhile isWs ++ lstrip s := by unfold lstrip; exact (List.takeWhile_append_dropWhile).symm
  conv => rhs; rw [this]
  exact (splitGo_ws _ _ (allWs_takeWhile s)).symm

theorem splitWs_joinSp_lines : ∀ (ls : List Str), splitWs (joinSp ls) = ls.flatMap splitWs := by
  intro ls
  unfold joinSp
  induction ls with
  | nil => rfl
  | cons a ls ih =>
    cases ls with
    | nil => simp [List.intercalate]
    | cons b bs =>
      have e : List.intercalate [' '] (a :: b :: bs) = a ++ (' ' :: List.intercalate [' '] (b :: bs)) := by
        simp [List.intercalate]
      rw [e, splitWs_append_brk a _ (brk_space _)]
      have : splitWs (' ' :: List.intercalate [' '] (b :: bs)) = splitWs (List.intercalate [' '] (b :: bs)) :=
        splitWs_allWs_append [' '] _ (by decide)
      rw [this, ih]; simp

theorem line_tokens {α} (render pre tok : α → Str) (hsplit : ∀ x, render x = pre x ++ tok x) (hpre : ∀ x, AllWs (pre x))
    (htok : ∀ x, NoWs (tok x) ∧ tok x ≠ []) (ch : List α) :
    splitWs (strip (joinSp (ch.map render) ++ ['\n'])) = ch.map tok := by
  rw [splitWs_strip]
  have := splitWs_joinSp_padded (ch.map fun x => (⟨pre x, tok x, []⟩ : Padded)) ['\n']
    (by
      intro p hp
      obtain ⟨x, _, rfl⟩ := List.mem_map.mp hp
      exact ⟨hpre x, (htok x).1, (htok x).2, allWs_nil⟩) (brk_nl [])
  simp only [List.map_map, Function.comp_def, Padded.render, List.append_nil, Fchk.splitWs_nl] at this
  have e : (ch.map fun x => pre x ++ tok x) = ch.map render := by
    apply List.map_congr_left; intro x _; exact (hsplit x).symm
  rw [e] at this
  exact this

theorem optAll_map {α β γ} (f : α → Option β) (g : γ → α) : ∀ (l : List γ) (k : γ → β), (∀ x ∈ l, f (g x) = some (k x)) →
    optAll f (l.map g) = some (l.map k) := by
  intro l
  induction l with
  | nil => intro _ _; rfl
  | cons x l ih =>
    intro k h
    simp only [List.map_cons, optAll, h x List.mem_cons_self, ih k (fun y hy => h y (List.mem_cons_of_mem _ hy))]

/-- the tokens of the stripped lines of a number section are the rendered numbers, in order, for every length -/
theorem numLines_tokens {α} (per : Nat) (hper : 0 < per) (render pre tok : α → Str) (hsplit : ∀ x, render x = pre x ++ tok x)
    (hpre : ∀ x, AllWs (pre x)) (htok : ∀ x, NoWs (tok x) ∧ tok x ≠ []) (l : List α) :
    splitWs (joinSp (stripAll (numLines per render l))) = l.map tok := by
  rw [splitWs_joinSp_lines]
  unfold numLines stripAll
  by_cases he : l = []
  · subst he; simp
  · have hie : l.isEmpty = false := by cases l; exact absurd rfl he; rfl
    simp only [hie, Bool.false_eq_true, if_false, List.map_map, List.flatMap_map, Function.comp_def]
    have : ∀ ch : List α, splitWs (strip (joinSp (ch.map render) ++ ['\n'])) = ch.map tok := line_tokens render pre tok hsplit hpre htok
    simp only [this]
    obtain ⟨hflat, _⟩ := Fchk.chunks_spec per hper l he
    conv => rhs; rw [← hflat]
    rw [List.map_flatten, List.flatMap_def]

/-- typed decoding: the integers of a section come back, for every number of them -/
theorem decodeInts_lines (per : Nat) (hper : 0 < per) (l : List Int) : decodeInts (stripAll (numLines per intToDec l)) = some l := by
  unfold decodeInts
  rw [numLines_tokens per hper intToDec (fun _ => []) intToDec (fun _ => rfl) (fun _ => allWs_nil)
    (fun x => ⟨intToDec_noWs x, intToDec_ne_nil x⟩) l]
  have := optAll_map pyInt intToDec l id (fun x _ => Fchk.pyInt_tok x)
  simpa using this

/-- typed decoding: the reals of a section come back digit by digit (NaN as NaN), for every number of them -/
theorem decodeReals_lines (L : Layout) (hL : LayoutOK L) (per : Nat) (hper : 0 < per) (l : List (Option Sci)) (hx : ∀ x ∈ l, okSci L x = true) :
    decodeReals L.d (stripAll (numLines per (real L) l)) = some l := by
  unfold decodeReals
  rw [numLines_tokens per hper (real L) realPre (realTok L) (real_split L) realPre_allWs
    (fun x => ⟨realTok_noWs L x, by obtain ⟨c, r, h, _⟩ := realTok_head L x; rw [h]; simp⟩) l]
  have := optAll_map (pyReal L.d) (realTok L) l id (fun x hxm => pyReal_tok L hL x (hx x hxm))
  simpa using this

/-! ### opening and closing a section -/

theorem okTag_shape {t : Str} (h : okTag t = true) : Trimmed t ∧ ∃ c r, t = '<' :: c :: r ∧ c ≠ '<' ∧ c ≠ '/' := by
  unfold okTag at h
  simp only [Bool.and_eq_true, decide_eq_true_eq] at h
  refine ⟨h.1.1, ?_⟩
  have h2 := h.2
  cases t with
  | nil => simp at h2
  | cons a t' =>
    cases t' with
    | nil => simp at h2
    | cons c r =>
      simp only [Bool.and_eq_true, bne_iff_ne, ne_eq, beq_iff_eq] at h2
      obtain ⟨⟨rfl, h3⟩, h4⟩ := h2
      exact ⟨c, r, rfl, h3, h4⟩

theorem strip_tag {t : Str} (h : okTag t = true) : strip (t ++ ['\n']) = t := by
  have := strip_pad [] t ['\n'] allWs_nil allWs_nl (okTag_shape h).1
  simpa using this

theorem closeTag_eq {t : Str} (h : okTag t = true) : closeTag t = endOf t := by
  obtain ⟨_, c, r, rfl, hc, _⟩ := okTag_shape h
  have : (c == '<') = false := by simpa using hc
  simp [closeTag, endOf, List.dropWhile, this]

theorem strip_close {t : Str} (h : okTag t = true) : strip (closeTag t ++ ['\n']) = closeTag t := by
  obtain ⟨⟨_, hr⟩, c, r, rfl, hc, _⟩ := okTag_shape h
  rw [closeTag_eq h]
  have hr2 : rstrip (c :: r) = c :: r := by
    have : rstrip ('<' :: c :: r) = '<' :: rstrip (c :: r) := by
      have : isWs '<' = false := by decide
      simp [rstrip, this]
    rw [this] at hr
    exact (List.cons.inj hr).2
  have htr : Trimmed (endOf ('<' :: c :: r)) := by
    refine ⟨by simp [endOf, lstrip, show isWs '<' = false by decide], ?_⟩
    have h1 : isWs '<' = false := by decide
    have h2 : isWs '/' = false := by decide
    show rstrip ('<' :: '/' :: c :: r) = '<' :: '/' :: c :: r
    have e1 : rstrip ('/' :: c :: r) = '/' :: c :: r := by
      have : rstrip ('/' :: (c :: r)) = '/' :: rstrip (c :: r) := by simp [rstrip, h2]
      rw [this, hr2]
    have : rstrip ('<' :: ('/' :: c :: r)) = '<' :: rstrip ('/' :: c :: r) := by simp [rstrip, h1]
    rw [this, e1]
  have := strip_pad [] _ ['\n'] allWs_nil allWs_nl htr
  simpa using this

theorem parse_open (f : Nat) (d : Dict) (t : Str) (h : okTag t = true) (hk : t ∉ keys d) (rest : List Str) :
    parseGo (f + 1) d none ((t ++ ['\n']) :: rest)
      = parseGo f (if t == moTag then d ++ [(t, []), (moNumbers, [])] else d ++ [(t, [])]) (some t) rest := by
  obtain ⟨_, c, r, rfl, _, _⟩ := okTag_shape h
  have hs : startsWith ltS ('<' :: c :: r) = true := by simp [startsWith, ltS, List.isPrefixOf]
  have hh : hasKey d ('<' :: c :: r) = false := by
    unfold hasKey
    rw [List.any_eq_false]
    intro e he heq
    exact hk (by
      have : e.1 = '<' :: c :: r := by simpa using heq
      rw [← this]; exact List.mem_map_of_mem he)
  simp only [parseGo, strip_tag h, hs, if_true, hh, Bool.false_eq_true, if_false]
  split <;> simp

theorem parse_close (f : Nat) (d : Dict) (t : Str) (h : okTag t = true) (rest : List Str) :
    parseGo (f + 1) d (some t) ((closeTag t ++ ['\n']) :: rest) = parseGo f d none rest := by
  have hs : startsWith ltSlash (closeTag t) = true := by simp [startsWith, ltSlash, closeTag, List.isPrefixOf]
  have hb : (noBlanks (closeTag t) != noBlanks (endOf t)) = false := by rw [closeTag_eq h]; simp
  simp only [parseGo, strip_close h, hs, if_true, hb, Bool.false_eq_true, if_false]

/-! ### the orbital section -/

theorem strip_digits (n : Nat) : strip (natToDec n ++ ['\n']) = natToDec n := by
  have := strip_noWs_pad [] (natToDec n) ['\n'] allWs_nil allWs_nl (allDigits_natToDec n).noWs
  simpa using this

theorem moLoop (L : Layout) (per : Nat) (hper : 0 < per) (d : Dict) (h1 : moTag ∉ keys d) (h2 : moNumbers ∉ keys d) (rest : List Str) :
    ∀ (orbs : List (List (Option Sci))) (i : Nat) (acc1 acc2 : List Str) (fuel : Nat),
    (moLines L per i orbs ++ rest).length < fuel →
    ∃ fuel', rest.length < fuel' ∧
      parseGo fuel (d ++ [(moTag, acc1), (moNumbers, acc2)]) (some moTag) (moLines L per i orbs ++ rest)
        = parseGo fuel' (d ++ [(moTag, acc1 ++ stripAll (orbs.flatMap fun cs => numLines per (real L) cs)),
            (moNumbers, acc2 ++ (List.range orbs.length).map fun j => natToDec (i + j + 1))]) (some moTag) rest := by
  intro orbs
  induction orbs with
  | nil => intro i acc1 acc2 fuel hf; exact ⟨fuel, by simpa [moLines] using hf, by simp [moLines, stripAll]⟩
  | cons cs orbs ih =>
    intro i acc1 acc2 fuel hf
    cases fuel with
    | zero => simp at hf
    | succ f =>
      have hne : moNumbers ≠ moTag := by decide
      have s1 : strip (moNumber ++ ['\n']) = moNumber := by decide
      have s2 : startsWith ltSlash moNumber = false := by decide
      -- the `<MO Number>` record
      have step : parseGo (f + 1) (d ++ [(moTag, acc1), (moNumbers, acc2)]) (some moTag) (moLines L per i (cs :: orbs) ++ rest)
          = parseGo f (d ++ [(moTag, acc1), (moNumbers, acc2 ++ [natToDec (i + 1)])]) (some moTag)
              (numLines per (real L) cs ++ (moLines L per (i + 1) orbs ++ rest)) := by
        simp only [moLines, List.cons_append, List.append_assoc, parseGo, s1, s2, Bool.false_eq_true, if_false, beq_self_eq_true,
          Bool.and_self, if_true, strip_digits, dictAppend_pair2 d moTag moNumbers acc1 acc2 _ h2 hne.symm]
      -- the coefficient lines
      obtain ⟨f1, hf1, e1⟩ := appendLoopD (fun acc => d ++ [(moTag, acc), (moNumbers, acc2 ++ [natToDec (i + 1)])]) moTag
        (fun acc l => dictAppend_pair1 d moTag moNumbers acc _ l h1 hne) (moLines L per (i + 1) orbs ++ rest)
        (numLines per (real L) cs) acc1 f (numLines_plain moTag per hper (real L) (tokOK_real L) cs)
        (by simp only [moLines, List.cons_append, List.length_cons, List.append_assoc] at hf; omega)
      obtain ⟨f2, hf2, e2⟩ := ih (i + 1) (acc1 ++ stripAll (numLines per (real L) cs)) (acc2 ++ [natToDec (i + 1)]) f1 hf1
      refine ⟨f2, hf2, ?_⟩
      rw [step, e1, e2]
      congr 3
      · simp [stripAll, List.flatMap_cons]
      · simp only [List.length_cons, List.range_succ_eq_map, List.map_cons, List.map_map, List.append_assoc, List.cons_append,
          List.nil_append, Function.comp_def]
        have e : ∀ j, i + 1 + j + 1 = i + j.succ + 1 := by intro j; omega
        simp only [e, Nat.add_zero]

/-! ### `strip` is a projection -/

theorem lstrip_append_allWs' (s q : Str) (hq : AllWs q) : ∃ q', AllWs q' ∧ lstrip (s ++ q) = lstrip s ++ q' := by
  induction s with
  | nil => exact ⟨[], allWs_nil, by simpa using lstrip_allWs_append q [] hq⟩
  | cons c s ih =>
    by_cases hc : isWs c = true
    · obtain ⟨q', h1, h2⟩ := ih
      refine ⟨q', h1, ?_⟩
      have e1 : lstrip (c :: s ++ q) = lstrip (s ++ q) := by simp [lstrip, List.dropWhile, hc]
      have e2 : lstrip (c :: s) = lstrip s := by simp [lstrip, List.dropWhile, hc]
      rw [e1, e2, h2]
    · have hc' : isWs c = false := by simpa using hc
      exact ⟨q, hq, by simp [lstrip, List.dropWhile, hc']⟩

theorem strip_append_allWs (s q : Str) (hq : AllWs q) : strip (s ++ q) = strip s := by
  obtain ⟨q', h1, h2⟩ := lstrip_append_allWs' s q hq
  unfold strip
  rw [h2, rstrip_append_allWs _ _ h1]

theorem rstrip_idem : ∀ u : Str, rstrip (rstrip u) = rstrip u := by
  intro u
  induction u with
  | nil => rfl
  | cons c cs ih =>
    by_cases h : ((rstrip cs).isEmpty && isWs c) = true
    · simp [rstrip, h]
    · have h' : ((rstrip cs).isEmpty && isWs c) = false := by simpa using h
      have e : rstrip (c :: cs) = c :: rstrip cs := by simp [rstrip, h']
      rw [e]
      simp only [rstrip, ih, h', Bool.false_eq_true, if_false]

theorem trimmed_strip (s : Str) : Trimmed (strip s) := by
  unfold strip
  refine ⟨?_, rstrip_idem _⟩
  -- `lstrip s` is empty or starts with a visible character, and `rstrip` keeps that character
  have hl : lstrip s = [] ∨ ∃ c r, lstrip s = c :: r ∧ isWs c = false := by
    unfold lstrip
    induction s with
    | nil => exact Or.inl rfl
    | cons c s ih =>
      by_cases hc : isWs c = true
      · simpa [List.dropWhile, hc] using ih
      · have hc' : isWs c = false := by simpa using hc
        exact Or.inr ⟨c, s, by simp [List.dropWhile, hc'], hc'⟩
  rcases hl with h | ⟨c, r, h, hc⟩
  · rw [h]; rfl
  · rw [h]
    have : rstrip (c :: r) = c :: rstrip r := by simp [rstrip, hc]
    rw [this]; simp [lstrip, List.dropWhile, hc]

theorem strip_line (l : Str) : strip (strip l ++ ['\n']) = strip l := by
  have := strip_pad [] (strip l) ['\n'] allWs_nil allWs_nl (trimmed_strip l)
  simpa using this

/-! ### C02: the whole file -/

theorem okText_plain (k : Str) (hk : k ≠ moTag) (l : Str) (h : okText l = true) : plain k (l ++ ['\n']) := by
  simp only [okText, Bool.and_eq_true, Bool.not_eq_true'] at h
  refine ⟨by rw [strip_append_allWs l _ allWs_nl]; exact h.2, fun e => hk e.1⟩

theorem body_plain (L : Layout) (s : Sec) (hb : okBody L s.body = true) (hm : isMo s.body = false) (hk : s.tag ≠ moTag) :
    ∀ l ∈ bodyLines L s.body, plain s.tag l := by
  intro l hl
  cases hbody : s.body with
  | text ls =>
    rw [hbody] at hl hb
    simp only [bodyLines, List.mem_map] at hl
    obtain ⟨x, hx, rfl⟩ := hl
    simp only [okBody, List.all_eq_true] at hb
    exact okText_plain _ hk x (hb x hx)
  | ints per li =>
    rw [hbody] at hl hb
    simp only [okBody, decide_eq_true_eq] at hb
    exact numLines_plain _ per hb intToDec tokOK_int li l hl
  | reals per lr =>
    rw [hbody] at hl hb
    simp only [okBody, Bool.and_eq_true, decide_eq_true_eq] at hb
    exact numLines_plain _ per hb.1 (real L) (tokOK_real L) lr l hl
  | mo per orbs => rw [hbody] at hm; simp [isMo] at hm

theorem keys_append (d e : Dict) : keys (d ++ e) = keys d ++ keys e := by simp [keys]

theorem parseGo_dump (L : Layout) : ∀ (secs : List Sec) (d : Dict) (fuel : Nat),
    (∀ s ∈ secs, okTag s.tag = true ∧ okBody L s.body = true ∧ (isMo s.body = true ↔ s.tag = moTag) ∧ s.tag ≠ moNumbers) →
    (secs.map (·.tag)).Nodup → (∀ s ∈ secs, s.tag ∉ keys d) → (moTag ∈ secs.map (·.tag) → moNumbers ∉ keys d) →
    (dump L secs).length < fuel → parseGo fuel d none (dump L secs) = .ok (d ++ norm L secs) := by
  intro secs
  induction secs with
  | nil =>
    intro d fuel _ _ _ _ hf
    cases fuel with
    | zero => simp at hf
    | succ f => simp [dump, norm, parseGo]
  | cons s secs ih =>
    intro d fuel hs hnd hk hmk hf
    obtain ⟨ht, hb, hmo, hnum⟩ := hs s List.mem_cons_self
    simp only [List.map_cons, List.nodup_cons] at hnd
    have hrest : ∀ s' ∈ secs, okTag s'.tag = true ∧ okBody L s'.body = true ∧ (isMo s'.body = true ↔ s'.tag = moTag) ∧ s'.tag ≠ moNumbers :=
      fun s' h' => hs s' (List.mem_cons_of_mem _ h')
    have hks : s.tag ∉ keys d := hk s List.mem_cons_self
    cases fuel with
    | zero => simp at hf
    | succ f =>
      have hd : dump L (s :: secs) = (s.tag ++ ['\n']) :: (bodyLines L s.body ++ ((closeTag s.tag ++ ['\n']) :: dump L secs)) := by
        simp [dump, dumpSec]
      rw [hd] at hf ⊢
      rw [parse_open f d s.tag ht hks]
      by_cases hm : isMo s.body = true
      · -- the orbital section
        have htag : s.tag = moTag := hmo.mp hm
        obtain ⟨per, orbs, hbody⟩ : ∃ per orbs, s.body = .mo per orbs := by
          cases hb' : s.body with
          | mo per orbs => exact ⟨per, orbs, rfl⟩
          | text _ => rw [hb'] at hm; simp [isMo] at hm
          | ints _ _ => rw [hb'] at hm; simp [isMo] at hm
          | reals _ _ => rw [hb'] at hm; simp [isMo] at hm
        have hper : 0 < per := by rw [hbody] at hb; simp only [okBody, Bool.and_eq_true, decide_eq_true_eq] at hb; exact hb.1
        have hmn : moNumbers ∉ keys d := hmk (by simp [htag])
        rw [htag] at hks ht ⊢
        simp only [beq_self_eq_true, if_true, hbody, bodyLines]
        obtain ⟨f1, hf1, e1⟩ := moLoop L per hper d hks hmn ((closeTag moTag ++ ['\n']) :: dump L secs) orbs 0 [] [] f
          (by rw [hbody, htag] at hf; simp only [bodyLines, List.length_cons, List.length_append] at hf ⊢; omega)
        rw [e1]
        cases f1 with
        | zero => simp at hf1
        | succ f2 =>
          rw [parse_close f2 _ moTag ht]
          have hent : entries L s = [(moTag, stripAll (orbs.flatMap fun cs => numLines per (real L) cs)),
              (moNumbers, (List.range orbs.length).map fun i => natToDec (i + 1))] := by
            simp [entries, hbody, htag]
          rw [ih _ f2 hrest hnd.2 ?_ ?_ (by simp only [List.length_cons] at hf1; omega)]
          · simp [norm, hent]
          · intro s' h'
            rw [keys_append]
            intro hmem
            rcases List.mem_append.mp hmem with hmem | hmem
            · exact hk s' (List.mem_cons_of_mem _ h') hmem
            · simp only [keys, List.map_cons, List.map_nil, List.mem_cons, List.not_mem_nil, or_false] at hmem
              rcases hmem with e | e
              · exact hnd.1 (by rw [htag, ← e]; exact List.mem_map_of_mem h')
              · exact (hrest s' h').2.2.2 e
          · intro hin
            exact absurd (htag ▸ hin) hnd.1
      · -- an ordinary section
        have hm' : isMo s.body = false := by simpa using hm
        have htag : s.tag ≠ moTag := fun e => hm (hmo.mpr e)
        have hbe : (s.tag == moTag) = false := by simpa using htag
        simp only [hbe, Bool.false_eq_true, if_false]
        obtain ⟨f1, hf1, e1⟩ := appendLoopD (fun acc => d ++ [(s.tag, acc)]) s.tag (fun acc l => dictAppend_last d s.tag acc l hks)
          ((closeTag s.tag ++ ['\n']) :: dump L secs) (bodyLines L s.body) [] f (body_plain L s hb hm' htag)
          (by simp only [List.length_cons, List.length_append] at hf ⊢; omega)
        rw [e1]
        cases f1 with
        | zero => simp at hf1
        | succ f2 =>
          rw [parse_close f2 _ s.tag ht]
          have hent : entries L s = [(s.tag, stripAll (bodyLines L s.body))] := by
            cases hb' : s.body with
            | mo _ _ => rw [hb'] at hm'; simp [isMo] at hm'
            | text _ => simp [entries, hb']
            | ints _ _ => simp [entries, hb']
            | reals _ _ => simp [entries, hb']
          rw [ih _ f2 hrest hnd.2 ?_ ?_ (by simp only [List.length_cons] at hf1; omega)]
          · simp [norm, hent]
          · intro s' h'
            rw [keys_append]
            intro hmem
            rcases List.mem_append.mp hmem with hmem | hmem
            · exact hk s' (List.mem_cons_of_mem _ h') hmem
            · simp only [keys, List.map_cons, List.map_nil, List.mem_cons, List.not_mem_nil, or_false] at hmem
              exact hnd.1 (by rw [← hmem]; exact List.mem_map_of_mem h')
          · intro hin
            rw [keys_append]
            intro hmem
            rcases List.mem_append.mp hmem with hmem | hmem
            · exact hmk (List.mem_cons_of_mem _ hin) hmem
            · simp only [keys, List.map_cons, List.map_nil, List.mem_cons, List.not_mem_nil, or_false] at hmem
              exact hnum hmem.symm

/-- C02 for WFX files at the section level: `parse_wfx` on the written file holds every section under its tag with its
lines, and the orbital numbers under `<MO Numbers>`, for every list of well-formed sections -/
theorem parse_dump (L : Layout) (secs : List Sec) (h : Dom L secs) : parse (dump L secs) = .ok (norm L secs) := by
  unfold parse
  have := parseGo_dump L secs [] ((dump L secs).length + 1) h.1 h.2 (fun _ _ => by simp [keys]) (fun _ => by simp [keys]) (by omega)
  simpa using this

/-! ### C15 -/

theorem entries_normSec (L : Layout) (s : Sec) : entries L (normSec s) = entries L s := by
  cases hb : s.body with
  | text ls =>
    simp only [entries, normSec, normBody, hb, bodyLines, stripAll, List.map_map, Function.comp_def, strip_line]
    congr 2
    apply List.map_congr_left
    intro l _
    exact (strip_append_allWs l _ allWs_nl).symm
  | ints _ _ => simp [entries, normSec, normBody, hb]
  | reals _ _ => simp [entries, normSec, normBody, hb]
  | mo _ _ => simp [entries, normSec, normBody, hb]

theorem norm_normSec (L : Layout) (secs : List Sec) : norm L (secs.map normSec) = norm L secs := by
  simp only [norm, List.flatMap_map, entries_normSec]

theorem normSec_idem (s : Sec) : normSec (normSec s) = normSec s := by
  cases hb : s.body with
  | text ls =>
    simp only [normSec, normBody, hb, List.map_map, Function.comp_def]
    congr 2
    apply List.map_congr_left
    intro l _
    have := strip_pad [] (strip l) [] allWs_nil allWs_nil (trimmed_strip l)
    simpa using this
  | ints _ _ => simp [normSec, normBody, hb]
  | reals _ _ => simp [normSec, normBody, hb]
  | mo _ _ => simp [normSec, normBody, hb]

theorem dom_normSec (L : Layout) (secs : List Sec) (h : Dom L secs) : Dom L (secs.map normSec) := by
  refine ⟨?_, by simpa [List.map_map, Function.comp_def, normSec] using h.2⟩
  intro s' hs'
  obtain ⟨s, hs, rfl⟩ := List.mem_map.mp hs'
  obtain ⟨h1, h2, h3, h4⟩ := h.1 s hs
  refine ⟨h1, ?_, ?_, h4⟩
  · cases hb : s.body with
    | text ls =>
      rw [hb] at h2
      simp only [okBody, List.all_eq_true] at h2
      simp only [normSec, normBody, hb, okBody, List.all_eq_true, List.mem_map]
      rintro _ ⟨l, hl, rfl⟩
      have := h2 l hl
      simp only [okText, Bool.and_eq_true, Bool.not_eq_true'] at this ⊢
      have hst : strip (strip l) = strip l := by
        have := strip_pad [] (strip l) [] allWs_nil allWs_nil (trimmed_strip l)
        simpa using this
      refine ⟨?_, by rw [hst]; exact this.2⟩
      -- a stripped single-line text is a single line
      have hsub : ∀ c ∈ strip l, c ∈ l := by
        intro c hc
        unfold strip at hc
        have h1 : ∀ (u : Str), ∀ c ∈ rstrip u, c ∈ u := by
          intro u
          induction u with
          | nil => intro c hc; exact hc
          | cons a u ih =>
            intro c hc
            simp only [rstrip] at hc
            split at hc
            · cases hc
            · rcases List.mem_cons.mp hc with rfl | hc
              · exact List.mem_cons_self
              · exact List.mem_cons_of_mem _ (ih c hc)
        exact (List.dropWhile_sublist _).subset (h1 _ c hc)
      have hn : l.contains '\n' = false := this.1
      have : (strip l).contains '\n' = false := by
        rw [Bool.eq_false_iff]
        intro hc
        have hc' : '\n' ∈ strip l := by simpa using hc
        have : l.contains '\n' = true := by simpa using hsub _ hc'
        rw [hn] at this; cases this
      exact this
    | ints _ _ => simpa [normSec, normBody, hb] using h2
    | reals _ _ => simpa [normSec, normBody, hb] using h2
    | mo _ _ => simpa [normSec, normBody, hb] using h2
  · cases hb : s.body <;> simpa [normSec, normBody, hb, isMo] using h3

end Iodata.Fmt.WfxS
