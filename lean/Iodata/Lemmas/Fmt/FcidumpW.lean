/- FCIDUMP, full file: header namelist, data lines, the data loop over the three groups of lines, C02 and C15. -/
import Iodata.Lemmas.Fmt.Fcidump
import Iodata.Lemmas.Fmt.Fchk
import Iodata.Lemmas.DecimalSci
import Iodata.Model.Fmt.FcidumpW
namespace Iodata.Fmt.FcidumpW
open Iodata.Chars Iodata.Decimal Iodata.Fmt Iodata.Helpers Iodata.Fmt.Fcidump

/-! ### `round` -/

theorem pyRound_int (k : Int) : pyRound k 1 = k := by
  simp [pyRound]

theorem roundOpt_int (k : Int) : roundOpt (some (k, 1)) = k := pyRound_int k

/-! ### `str.split(c)`, `str.count(c)` -/

theorem splitOnGo_sep (c : Char) (a rest : Str) (h : c ∉ a) : ∀ cur, splitOnGo c cur (a ++ c :: rest) = (cur ++ a) :: splitOnGo c [] rest := by
  induction a with
  | nil => intro cur; simp [splitOnGo]
  | cons x a ih =>
    intro cur
    have hx : (x == c) = false := by
      simp only [beq_eq_false_iff_ne, ne_eq]; intro e; exact h (by simp [e])
    have ha : c ∉ a := fun hc => h (List.mem_cons_of_mem _ hc)
    simp only [List.cons_append, splitOnGo, hx, Bool.false_eq_true, if_false]
    rw [ih ha]; simp

theorem splitOnGo_last (c : Char) (a : Str) (h : c ∉ a) : ∀ cur, splitOnGo c cur a = [cur ++ a] := by
  induction a with
  | nil => intro cur; simp [splitOnGo]
  | cons x a ih =>
    intro cur
    have hx : (x == c) = false := by
      simp only [beq_eq_false_iff_ne, ne_eq]; intro e; exact h (by simp [e])
    have ha : c ∉ a := fun hc => h (List.mem_cons_of_mem _ hc)
    simp only [splitOnGo, hx, Bool.false_eq_true, if_false]
    rw [ih ha]; simp

theorem countC_append (c : Char) (a b : Str) : countC c (a ++ b) = countC c a + countC c b := by
  simp [countC]

theorem countC_zero (c : Char) (a : Str) (h : c ∉ a) : countC c a = 0 := by
  unfold countC
  rw [List.length_eq_zero_iff, List.filter_eq_nil_iff]
  intro x hx hxc
  have : x = c := by simpa using hxc
  exact h (this ▸ hx)

theorem allDigits_not_mem {s : Str} (h : AllDigits s) (c : Char) (hc : c ∉ digitChars) : c ∉ s := fun hm => hc (h c hm)

theorem intToDec_not_mem (i : Int) (c : Char) (hc : c ∉ digitChars) (hm : c ≠ '-') : c ∉ intToDec i := by
  cases i with
  | ofNat n => exact allDigits_not_mem (allDigits_natToDec n) c hc
  | negSucc n =>
    intro h
    rcases List.mem_cons.mp h with h | h
    · exact hm h
    · exact allDigits_not_mem (allDigits_natToDec _) c hc h

theorem natToDec_eq_intToDec (n : Nat) : natToDec n = intToDec (n : Int) := rfl

/-! ### the header -/

def kv (k : Str) (v : Str) : Str := k ++ ('=' :: v)

theorem headerInfo_word (pre k : Str) (v : Str) (hk : '=' ∉ pre ++ k) (hv : '=' ∉ v) (hs : strip (pre ++ k) = k) (hvn : NoWs v) :
    headerWord (pre ++ k ++ '=' :: v) = some (k, v) := by
  unfold headerWord
  have hc : countC '=' (pre ++ k ++ '=' :: v) = 1 := by
    rw [countC_append, countC_zero _ _ hk]
    have : countC '=' ('=' :: v) = 1 + countC '=' v := by simp [countC]; omega
    rw [this, countC_zero _ _ hv]
  have hsplit : splitOn '=' (pre ++ k ++ '=' :: v) = [pre ++ k, v] := by
    unfold splitOn
    rw [splitOnGo_sep '=' (pre ++ k) v hk, splitOnGo_last '=' v hv]; simp
  rw [hc, hsplit]
  simp only [if_true, hs]
  have : strip v = v := by
    have := strip_noWs_pad [] v [] allWs_nil allWs_nil hvn
    simpa using this
  rw [this]

theorem headerInfo_headerLine (n : Nat) (ne ms : Int) :
    headerInfo (headerLine n ne ms) = [(kNorb, natToDec n), (kNelec, intToDec ne), (kMs2, intToDec ms)] := by
  have hcomma : ∀ i : Int, ',' ∉ intToDec i := fun i => intToDec_not_mem i ',' (by decide) (by decide)
  have heq : ∀ i : Int, '=' ∉ intToDec i := fun i => intToDec_not_mem i '=' (by decide) (by decide)
  have e : sliceFrom hdrCut (headerLine n ne ms)
      = ([' '] ++ kNorb ++ '=' :: intToDec (n : Int)) ++ ',' :: (([] ++ kNelec ++ '=' :: intToDec ne) ++ ',' :: (([] ++ kMs2 ++ '=' :: intToDec ms) ++ ',' :: ['\n'])) := by
    simp [headerLine, hdrStart, hdrNelec, hdrMs2, sliceFrom, hdrCut, kNorb, kNelec, kMs2, natToDec_eq_intToDec]
  unfold headerInfo splitOn
  rw [e]
  have m1 : ',' ∉ ([' '] ++ kNorb ++ '=' :: intToDec (n : Int)) := by
    intro h; simp only [List.mem_append, List.mem_cons] at h
    rcases h with (h | h) | h | h
    · revert h; decide
    · revert h; decide
    · revert h; decide
    · exact hcomma _ h
  have m2 : ',' ∉ ([] ++ kNelec ++ '=' :: intToDec ne) := by
    intro h; simp only [List.mem_append, List.mem_cons] at h
    rcases h with (h | h) | h | h
    · revert h; decide
    · revert h; decide
    · revert h; decide
    · exact hcomma _ h
  have m3 : ',' ∉ ([] ++ kMs2 ++ '=' :: intToDec ms) := by
    intro h; simp only [List.mem_append, List.mem_cons] at h
    rcases h with (h | h) | h | h
    · revert h; decide
    · revert h; decide
    · revert h; decide
    · exact hcomma _ h
  rw [splitOnGo_sep ',' _ _ m1, splitOnGo_sep ',' _ _ m2, splitOnGo_sep ',' _ _ m3, splitOnGo_last ',' ['\n'] (by decide)]
  have w1 := headerInfo_word [' '] kNorb (intToDec (n : Int)) (by decide) (heq _) (by decide) (intToDec_noWs _)
  have w2 := headerInfo_word [] kNelec (intToDec ne) (by decide) (heq _) (by decide) (intToDec_noWs _)
  have w3 := headerInfo_word [] kMs2 (intToDec ms) (by decide) (heq _) (by decide) (intToDec_noWs _)
  have w4 : headerWord ['\n'] = none := by decide
  simp only [List.nil_append] at w2 w3 ⊢
  simp only [List.filterMap_cons, List.filterMap_nil, w1, w2, w3, w4]
  rfl

theorem startsWith_headerLine (n : Nat) (ne ms : Int) : startsWith hdrStart (headerLine n ne ms) = true := by
  simp [startsWith, headerLine]

theorem dict_headerLine (n : Nat) (ne ms : Int) :
    (dictGet (headerInfo (headerLine n ne ms)) kNorb).bind pyInt = some (n : Int) ∧
    (dictGet (headerInfo (headerLine n ne ms)) kNelec).bind pyInt = some ne ∧
    (dictGet (headerInfo (headerLine n ne ms)) kMs2).bind pyInt = some ms := by
  rw [headerInfo_headerLine]
  have a : dictGet [(kNorb, natToDec n), (kNelec, intToDec ne), (kMs2, intToDec ms)] kNorb = some (natToDec n) := by
    simp [dictGet, kNorb, kNelec, kMs2]
  have b : dictGet [(kNorb, natToDec n), (kNelec, intToDec ne), (kMs2, intToDec ms)] kNelec = some (intToDec ne) := by
    simp [dictGet, kNorb, kNelec, kMs2]
  have c : dictGet [(kNorb, natToDec n), (kNelec, intToDec ne), (kMs2, intToDec ms)] kMs2 = some (intToDec ms) := by
    simp [dictGet, kNorb, kNelec, kMs2]
  rw [a, b, c]
  exact ⟨by simpa [natToDec_eq_intToDec] using Fchk.pyInt_tok (n : Int), by simpa using Fchk.pyInt_tok ne, by simpa using Fchk.pyInt_tok ms⟩

theorem skipHeader_tail (n : Nat) (data : List Str) :
    skipHeader (orbsymLine n :: (isymLine ++ ['\n']) :: (endLine ++ ['\n']) :: data) = .ok data := by
  have h1 : splitWs (orbsymLine n) = ['O','R','B','S','Y','M','='] :: splitWs (' ' :: (ones n ++ [',', '\n'])) := by
    have : orbsymLine n = [' ', ' '] ++ (['O','R','B','S','Y','M','='] ++ (' ' :: (ones n ++ [',', '\n']))) := by
      simp [orbsymLine, orbsymHead]
    rw [this]
    exact splitWs_field _ _ _ (by decide) (by decide) (by decide) (brk_space _)
  have h2 : splitWs (isymLine ++ ['\n']) = [['I','S','Y','M','=','1']] := by decide
  have h3 : splitWs (endLine ++ ['\n']) = [['&','E','N','D']] := by decide
  rw [skipHeader, h1]
  simp only
  rw [if_neg (by decide), skipHeader, h2]
  simp only
  rw [if_neg (by decide), skipHeader, h3]
  simp only
  rw [if_pos (by decide)]

/-! ### data lines -/

def vP (L : Layout) (v : Sci) : Padded := ⟨spaces (L.vW - (sciCore false false L.vD v).length), sciCore false false L.vD v, []⟩
def iP (L : Layout) (i : Nat) : Padded := ⟨' ' :: spaces (L.iW - (intToDec (i : Int)).length), intToDec (i : Int), []⟩

theorem sciCore_noWs (d : Nat) (v : Sci) : NoWs (sciCore false false d v) := by
  unfold sciCore sciCoreC signStr
  have hb := sciBody_noWs 'e' (by decide) d v.man v.exp
  cases v.neg
  · simpa using hb
  · simpa using noWs_cons (by decide) hb

theorem sciCore_ne_nil (d : Nat) (v : Sci) : sciCore false false d v ≠ [] := by
  unfold sciCore sciCoreC
  obtain ⟨c, r, h, _⟩ := manDigits_head d v.man
  rw [h]; cases v.neg <;> simp [signStr]

theorem pySci_core (d : Nat) (hd : 0 < d) (v : Sci) (hm : v.man < 10 ^ (d + 1)) : pySci d (sciCore false false d v) = some v := by
  have := pySci_sciCoreC false 'e' (Or.inr rfl) d v hd hm [] [] allWs_nil allWs_nil
  simpa [sciCore] using this

theorem vP_ok (L : Layout) (v : Sci) : (vP L v).OK := ⟨allWs_spaces _, sciCore_noWs L.vD v, sciCore_ne_nil L.vD v, allWs_nil⟩
theorem iP_ok (L : Layout) (i : Nat) : (iP L i).OK :=
  ⟨allWs_cons (by decide) (allWs_spaces _), intToDec_noWs (i : Int), intToDec_ne_nil (i : Int), allWs_nil⟩

theorem dataLine_words (L : Layout) (v : Sci) (a b c d : Nat) :
    splitWs (dataLine L v a b c d) = [sciCore false false L.vD v, natToDec a, natToDec b, natToDec c, natToDec d] := by
  have e : dataLine L v a b c d = (([vP L v, iP L a, iP L b, iP L c, iP L d]).map Padded.render).flatten ++ ['\n'] := by
    simp [dataLine, idx, vP, iP, Padded.render, fmtSci, fmtInt, rjust]
  rw [e, splitWs_fields _ ['\n'] ?_ ?_ (brk_nl _), Fchk.splitWs_nl]
  · simp [vP, iP, natToDec_eq_intToDec]
  · intro p hp
    simp only [List.mem_cons, List.not_mem_nil, or_false] at hp
    rcases hp with rfl | rfl | rfl | rfl | rfl
    · exact vP_ok L v
    all_goals exact iP_ok L _
  · intro p hp
    simp only [List.tail_cons, List.mem_cons, List.not_mem_nil, or_false] at hp
    rcases hp with rfl | rfl | rfl | rfl <;> simp [iP]

theorem natToDec_succ_ne_zero (k : Nat) : (natToDec (k + 1) != w0) = true := by
  simp only [bne_iff_ne, ne_eq]
  intro h
  have := decToNat_natToDec (k + 1)
  rw [h] at this
  have h0 : decToNat? w0 = some 0 := by decide
  rw [h0] at this
  simp at this

theorem natToDec_zero : natToDec 0 = w0 := by decide

theorem pyInt_nat (n : Nat) : pyInt (natToDec n) = some (n : Int) := Fchk.pyInt_tok (n : Int)

theorem parse_two (L : Layout) (hL : LayoutOK L) (v : Sci) (hv : okSci L v) (i j k l : Nat) :
    parseLine L.vD (dataLine L v (i + 1) (j + 1) (k + 1) (l + 1)) = .ok (.two v i j k l) := by
  unfold parseLine
  rw [dataLine_words]
  simp only [pySci_core L.vD hL v hv, natToDec_succ_ne_zero, if_true, pyInt_nat]
  simp

theorem parse_one (L : Layout) (hL : LayoutOK L) (v : Sci) (hv : okSci L v) (i j : Nat) :
    parseLine L.vD (dataLine L v (i + 1) (j + 1) 0 0) = .ok (.one v i j) := by
  unfold parseLine
  rw [dataLine_words]
  simp only [pySci_core L.vD hL v hv, natToDec_succ_ne_zero, natToDec_zero, bne_self_eq_false, Bool.false_eq_true, if_false,
    if_true, pyInt_nat]
  simp

theorem parse_core (L : Layout) (hL : LayoutOK L) (v : Sci) (hv : okSci L v) :
    parseLine L.vD (dataLine L v 0 0 0 0) = .ok (.core v) := by
  unfold parseLine
  rw [dataLine_words]
  simp only [pySci_core L.vD hL v hv, natToDec_zero, bne_self_eq_false, Bool.false_eq_true, if_false]

/-! ### the data loop -/

theorem dataLoop_map {α} (d n : Nat) (w : α → Str) (r : α → Rec) (f : St → α → St) (rest : List Str) :
    ∀ (xs : List α) (s : St), (∀ x ∈ xs, parseLine d (w x) = .ok (r x)) → (∀ x ∈ xs, ∀ s, applyRec n s (r x) = .ok (f s x)) →
    dataLoop d n s (xs.map w ++ rest) = dataLoop d n (xs.foldl f s) rest := by
  intro xs
  induction xs with
  | nil => intro s _ _; rfl
  | cons x xs ih =>
    intro s hp ha
    simp only [List.map_cons, List.cons_append, dataLoop, hp x List.mem_cons_self, ha x List.mem_cons_self s, List.foldl_cons]
    exact ih _ (fun y hy => hp y (List.mem_cons_of_mem _ hy)) (fun y hy => ha y (List.mem_cons_of_mem _ hy))

theorem inR_nat (n i : Nat) (h : i < n) : inR n (i : Int) = true := by
  simp [inR]; omega

def stepTwo (s : St) (e : Entry Sci) : St := { s with two := setFour s.two e.i0 e.i2 e.i1 e.i3 e.v }
def stepOne (s : St) (e : Sci × Nat × Nat) : St := { s with one := set2 s.one e.2.1 e.2.2 e.1 }

theorem foldl_stepTwo (es : List (Entry Sci)) : ∀ s : St,
    es.foldl stepTwo s = ⟨s.one, es.foldl (fun a e => setFour a e.i0 e.i2 e.i1 e.i3 e.v) s.two, s.core⟩ := by
  induction es with
  | nil => intro s; rfl
  | cons e es ih => intro s; simp only [List.foldl_cons]; rw [ih]; rfl

def fillOne (a : Nat → Nat → Sci) (es : List (Sci × Nat × Nat)) : Nat → Nat → Sci :=
  es.foldl (fun a e => set2 a e.2.1 e.2.2 e.1) a

theorem foldl_stepOne (es : List (Sci × Nat × Nat)) : ∀ s : St,
    es.foldl stepOne s = ⟨fillOne s.one es, s.two, s.core⟩ := by
  induction es with
  | nil => intro s; rfl
  | cons e es ih => intro s; simp only [List.foldl_cons]; rw [ih]; rfl

/-! ### the arrays the reader ends with -/

def covers (e : Sci × Nat × Nat) (i j : Nat) : Prop := (i = e.2.2 ∧ j = e.2.1) ∨ (i = e.2.1 ∧ j = e.2.2)

instance (e : Sci × Nat × Nat) (i j : Nat) : Decidable (covers e i j) := by unfold covers; infer_instance

theorem fillOne_val (x : Sci) (i j : Nat) : ∀ (es : List (Sci × Nat × Nat)) (a : Nat → Nat → Sci),
    (∀ e ∈ es, covers e i j → e.1 = x) →
    fillOne a es i j = x ∨ (fillOne a es i j = a i j ∧ ∀ e ∈ es, ¬ covers e i j) := by
  intro es
  induction es with
  | nil => intro a _; exact Or.inr ⟨rfl, fun _ h => by cases h⟩
  | cons e es ih =>
    intro a h
    rcases ih (set2 a e.2.1 e.2.2 e.1) (fun y hy => h y (List.mem_cons_of_mem _ hy)) with h1 | ⟨h1, h2⟩
    · exact Or.inl h1
    · by_cases hc : covers e i j
      · left
        show fillOne (set2 a e.2.1 e.2.2 e.1) es i j = x
        rw [h1]
        have : set2 a e.2.1 e.2.2 e.1 i j = e.1 := by
          unfold set2; unfold covers at hc; rw [if_pos hc]
        rw [this]; exact h e List.mem_cons_self hc
      · right
        refine ⟨?_, ?_⟩
        · show fillOne (set2 a e.2.1 e.2.2 e.1) es i j = a i j
          rw [h1]; unfold set2; unfold covers at hc; rw [if_neg hc]
        · intro y hy
          rcases List.mem_cons.mp hy with rfl | hy
          · exact hc
          · exact h2 y hy

theorem mem_oneEntries (n : Nat) (M : Nat → Nat → Sci) (e : Sci × Nat × Nat) :
    e ∈ oneEntries n M ↔ e.2.1 < n ∧ e.2.2 ≤ e.2.1 ∧ (M e.2.1 e.2.2).man ≠ 0 ∧ e.1 = M e.2.1 e.2.2 := by
  obtain ⟨v, i0, i1⟩ := e
  simp only [oneEntries, List.mem_flatMap, List.mem_range, List.mem_filterMap]
  constructor
  · rintro ⟨a, ha, b, hb, h⟩
    split at h
    · rename_i hc
      simp only [Option.some.injEq, Prod.mk.injEq] at h
      obtain ⟨rfl, rfl, rfl⟩ := h
      exact ⟨ha, by omega, hc, rfl⟩
    · cases h
  · rintro ⟨h0, h1, h2, h3⟩
    refine ⟨i0, h0, i1, by omega, ?_⟩
    simp [h2, h3]

theorem cz_of_ne {v : Sci} (h : v.man ≠ 0) : cz v = v := by simp [cz, h]
theorem cz_of_eq {v : Sci} (h : v.man = 0) : cz v = zero := by simp [cz, h]

/-- the one-electron matrix the reader ends with -/
theorem fillOne_entries (n : Nat) (M : Nat → Nat → Sci) (hs : ∀ i j, M i j = M j i) (i j : Nat) :
    fillOne (fun _ _ => zero) (oneEntries n M) i j = if i < n ∧ j < n then cz (M i j) else zero := by
  have hval : ∀ e ∈ oneEntries n M, covers e i j → e.1 = cz (M i j) := by
    intro e he hc
    obtain ⟨_, _, h2, h3⟩ := (mem_oneEntries n M e).mp he
    rcases hc with ⟨rfl, rfl⟩ | ⟨rfl, rfl⟩
    · rw [h3, hs e.2.2 e.2.1, cz_of_ne h2]
    · rw [h3, cz_of_ne h2]
  by_cases hr : i < n ∧ j < n
  · rw [if_pos hr]
    rcases fillOne_val (cz (M i j)) i j (oneEntries n M) (fun _ _ => zero) hval with h1 | ⟨h1, h2⟩
    · exact h1
    · rw [h1]
      by_cases hm : (M i j).man = 0
      · exact (cz_of_eq hm).symm
      · exfalso
        by_cases hij : j ≤ i
        · exact h2 (M i j, i, j) ((mem_oneEntries n M _).mpr ⟨hr.1, hij, hm, rfl⟩) (Or.inr ⟨rfl, rfl⟩)
        · have hm' : (M j i).man ≠ 0 := by rw [hs j i]; exact hm
          exact h2 (M j i, j, i) ((mem_oneEntries n M _).mpr ⟨hr.2, (by show i ≤ j; omega), hm', rfl⟩) (Or.inl ⟨rfl, rfl⟩)
  · rw [if_neg hr]
    -- outside the matrix no line covers the position
    rcases fillOne_val zero i j (oneEntries n M) (fun _ _ => zero) (by
      intro e he hc
      obtain ⟨b0, b1, _, _⟩ := (mem_oneEntries n M e).mp he
      exfalso; apply hr
      rcases hc with ⟨rfl, rfl⟩ | ⟨rfl, rfl⟩ <;> constructor <;> omega) with h3 | ⟨h3, _⟩
    · exact h3
    · exact h3

theorem written_range (n i j k l : Nat) (hi : i < n) (hj : j < n) (hk : k < n) (hl : l < n) (p : Idx) (hp : p ∈ written i j k l) :
    inRange n p := by
  simp only [written, List.mem_cons, List.not_mem_nil, or_false] at hp
  rcases hp with rfl | rfl | rfl | rfl | rfl | rfl | rfl | rfl <;> exact ⟨by assumption, by assumption, by assumption, by assumption⟩

theorem fill_untouched (es : List (Entry Sci)) (p : Idx) : ∀ (a : Idx → Sci),
    (∀ e ∈ es, p ∉ written e.i0 e.i2 e.i1 e.i3) →
    (es.foldl (fun a e => setFour a e.i0 e.i2 e.i1 e.i3 e.v) a) p = a p := by
  induction es with
  | nil => intro a _; rfl
  | cons e es ih =>
    intro a h
    simp only [List.foldl_cons]
    rw [ih _ (fun y hy => h y (List.mem_cons_of_mem _ hy)), setFour_mem, if_neg (h e List.mem_cons_self)]

theorem sym_cz (T : Idx → Sci) (h : Sym T) : Sym (fun p => cz (T p)) :=
  ⟨fun p => by simp only [h.1 p], fun p => by simp only [h.2.1 p], fun p => by simp only [h.2.2 p]⟩

/-- the two-electron array the reader ends with -/
theorem fill_two (n : Nat) (T : Idx → Sci) (h : Sym T) (p : Idx) :
    fill zero (entries zero n (fun p => cz (T p))) p = if inRange n p then cz (T p) else zero := by
  by_cases hr : inRange n p
  · rw [if_pos hr]
    exact fill_entries zero n _ (sym_cz T h) p hr
  · rw [if_neg hr]
    unfold fill
    rw [fill_untouched]
    intro e he hp
    obtain ⟨a, b, c, d⟩ := entries_in_range zero n _ e he
    exact hr (written_range n e.i0 e.i2 e.i1 e.i3 a c b d p hp)

/-! ### C02 -/

theorem dataLoop_dump (L : Layout) (hL : LayoutOK L) (o : Obj) (h : Dom L o) :
    dataLoop L.vD o.n st0 (twoLines L o.n o.two ++ (oneLines L o.n o.one ++ coreLines L o.core)) =
      .ok ⟨fillOne (fun _ _ => zero) (oneEntries o.n o.one), fill zero (entries zero o.n (fun p => cz (o.two p))), o.core.getD zero⟩ := by
  obtain ⟨hs1, hs2, hk1, hk2, hkc⟩ := h
  unfold twoLines
  rw [dataLoop_map L.vD o.n _ (fun e => Rec.two e.v e.i0 e.i1 e.i2 e.i3) stepTwo]
  · rw [foldl_stepTwo]
    unfold oneLines
    rw [dataLoop_map L.vD o.n _ (fun e => Rec.one e.1 e.2.1 e.2.2) stepOne]
    · rw [foldl_stepOne]
      cases hc : o.core with
      | none => simp [coreLines, dataLoop, st0, fill]
      | some c =>
        simp only [coreLines, dataLoop, parse_core L hL c (hkc c hc), applyRec, st0, fill, Option.getD_some]
    · intro e he
      obtain ⟨_, _, _, h3⟩ := (mem_oneEntries o.n o.one e).mp he
      exact parse_one L hL e.1 (h3 ▸ hk1 _ _) e.2.1 e.2.2
    · intro e he s
      obtain ⟨b0, b1, _, _⟩ := (mem_oneEntries o.n o.one e).mp he
      simp only [applyRec, inR_nat o.n e.2.1 b0, inR_nat o.n e.2.2 (by omega), Bool.and_self, if_true, Int.toNat_natCast]
      rfl
  · intro e he
    have hv := ((mem_entries zero o.n _ e).mp he).2.2.2.2.2
    have : okSci L e.v := by
      rw [hv.2, cz_of_ne (by
        intro hz; exact hv.1 (cz_of_eq hz))]
      exact hk2 _
    exact parse_two L hL e.v this e.i0 e.i1 e.i2 e.i3
  · intro e he s
    obtain ⟨a, b, c, d⟩ := entries_in_range zero o.n _ e he
    simp only [applyRec, inR_nat o.n _ a, inR_nat o.n _ b, inR_nat o.n _ c, inR_nat o.n _ d, Bool.and_self, if_true, Int.toNat_natCast]
    rfl

/-- C02 for FCIDUMP files: every number of orbitals, every symmetric one-electron matrix and 8-fold symmetric two-electron
array (zero elements skipped), present or absent core energy, any real `nelec` / `spinpol` -/
theorem load_dump (L : Layout) (hL : LayoutOK L) (o : Obj) (h : Dom L o) : load L (dump L o) = .ok (norm o) := by
  have hd := dataLoop_dump L hL o h
  obtain ⟨d1, d2, d3⟩ := dict_headerLine o.n (roundOpt o.nelec) (roundOpt o.spinpol)
  unfold dump load
  simp only [List.cons_append, List.nil_append, startsWith_headerLine, Bool.not_true, Bool.false_eq_true, if_false, d1, d2, d3]
  have hneg : ¬ ((o.n : Int) < 0) := by omega
  rw [if_neg hneg, skipHeader_tail]
  simp only [Int.toNat_natCast, hd]
  congr 1
  unfold norm
  congr 1
  · funext i j; exact fillOne_entries o.n o.one h.1 i j
  · funext p; exact fill_two o.n o.two h.2.1 p

/-! ### C15 -/

theorem cz_idem (v : Sci) : cz (cz v) = cz v := by
  unfold cz; by_cases h : v.man = 0 <;> simp [h, zero]

theorem cz_zero : cz zero = zero := by simp [cz, zero]

theorem norm_idem (o : Obj) : norm (norm o).obj = norm o := by
  unfold norm Loaded.obj
  simp only [roundOpt_int, Option.getD_some]
  congr 1
  · funext i j
    by_cases h : i < o.n ∧ j < o.n <;> simp [h, cz_idem]
  · funext p
    by_cases h : inRange o.n p <;> simp [h, cz_idem]

theorem okSci_cz (L : Layout) (v : Sci) (h : okSci L v) : okSci L (cz v) := by
  unfold cz; by_cases hz : v.man = 0
  · simp only [hz, if_true]; unfold okSci zero; exact Nat.pow_pos (by decide)
  · simp only [hz, if_false]; exact h

theorem okSci_zero (L : Layout) : okSci L zero := by unfold okSci zero; exact Nat.pow_pos (by decide)

theorem dom_norm (L : Layout) (o : Obj) (h : Dom L o) : Dom L (norm o).obj := by
  obtain ⟨hs1, hs2, hk1, hk2, hkc⟩ := h
  refine ⟨?_, ⟨?_, ?_, ?_⟩, ?_, ?_, ?_⟩
  · intro i j
    simp only [norm, Loaded.obj]
    by_cases h : i < o.n ∧ j < o.n
    · rw [if_pos h, if_pos ⟨h.2, h.1⟩, hs1 i j]
    · rw [if_neg h, if_neg (fun h' => h ⟨h'.2, h'.1⟩)]
  · intro p
    simp only [norm, Loaded.obj]
    have : inRange o.n (swapE p) ↔ inRange o.n p := by
      unfold inRange swapE; constructor <;> intro h <;> exact ⟨h.2.1, h.1, h.2.2.2, h.2.2.1⟩
    by_cases h : inRange o.n p
    · rw [if_pos h, if_pos (this.mpr h), hs2.1 p]
    · rw [if_neg h, if_neg (fun h' => h (this.mp h'))]
  · intro p
    simp only [norm, Loaded.obj]
    have : inRange o.n (swap1 p) ↔ inRange o.n p := by
      unfold inRange swap1; constructor <;> intro h <;> exact ⟨h.2.2.1, h.2.1, h.1, h.2.2.2⟩
    by_cases h : inRange o.n p
    · rw [if_pos h, if_pos (this.mpr h), hs2.2.1 p]
    · rw [if_neg h, if_neg (fun h' => h (this.mp h'))]
  · intro p
    simp only [norm, Loaded.obj]
    have : inRange o.n (swap2 p) ↔ inRange o.n p := by
      unfold inRange swap2; constructor <;> intro h <;> exact ⟨h.1, h.2.2.2, h.2.2.1, h.2.1⟩
    by_cases h : inRange o.n p
    · rw [if_pos h, if_pos (this.mpr h), hs2.2.2 p]
    · rw [if_neg h, if_neg (fun h' => h (this.mp h'))]
  · intro i j
    simp only [norm, Loaded.obj]
    split
    · exact okSci_cz L _ (hk1 i j)
    · exact okSci_zero L
  · intro p
    simp only [norm, Loaded.obj]
    split
    · exact okSci_cz L _ (hk2 p)
    · exact okSci_zero L
  · intro c hc
    simp only [norm, Loaded.obj, Option.some.injEq] at hc
    subst hc
    cases hcc : o.core with
    | none => exact okSci_zero L
    | some c => exact hkc c hcc

end Iodata.Fmt.FcidumpW
