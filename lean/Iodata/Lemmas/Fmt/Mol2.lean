/- MOL2: records split on whitespace, the section loop, whole files. -/
import Iodata.Lemmas.Fmt.Core
import Iodata.Model.Fmt.Mol2
namespace Iodata.Fmt.Mol2
open Iodata.Chars Iodata.Decimal Iodata.Fmt

theorem splitWs_nl : splitWs ['\n'] = [] := splitWs_allWs _ allWs_nl

theorem sp_ok : AllWs sp ∧ sp ≠ [] := ⟨by decide, by decide⟩

def natP (pre : Str) (w n : Nat) : Padded := ⟨pre ++ spaces (w - (natToDec n).length), natToDec n, []⟩
def fixP (pre : Str) (w d : Nat) (x : Fx) : Padded := ⟨pre ++ spaces (w - (fixCore false d x).length), fixCore false d x, []⟩
def strP (w : Nat) (s : Str) : Padded := ⟨sp, s, spaces (w - s.length)⟩

theorem natP_ok (pre : Str) (hp : AllWs pre) (w n : Nat) : (natP pre w n).OK :=
  ⟨allWs_append hp (allWs_spaces _), (allDigits_natToDec n).noWs, natToDec_ne_nil n, allWs_nil⟩
theorem fixP_ok (pre : Str) (hp : AllWs pre) (w d : Nat) (x : Fx) : (fixP pre w d x).OK :=
  ⟨allWs_append hp (allWs_spaces _), fixCore_noWs d x, fixCore_ne_nil _ d x, allWs_nil⟩
theorem strP_ok (w : Nat) (s : Str) (h1 : NoWs s) (h2 : s ≠ []) : (strP w s).OK := ⟨sp_ok.1, h1, h2, allWs_spaces _⟩

theorem pre_ne (pre rest : Str) (h : pre ≠ []) : pre ++ rest ≠ [] := by
  intro e; exact h (List.append_eq_nil_iff.mp e).1

theorem fmtInt_nat (w n : Nat) : fmtInt w (n : Int) = spaces (w - (natToDec n).length) ++ natToDec n := rfl

theorem pyFix_tok (d : Nat) (x : Fx) : pyFix d (fixCore false d x) = some x := by
  have := pyFix_fixCore false d x [] [] allWs_nil allWs_nil
  simpa using this

theorem pyInt_nat (n : Nat) : pyInt (natToDec n) = some (n : Int) := by
  have := pyInt_intToDec [] [] (Int.ofNat n) allWs_nil allWs_nil
  simpa [intToDec] using this

theorem okZ_spec {T : Tables} {z : Nat} (h : okZ T z = true) :
    ∃ s, T.sym? z = some s ∧ NoWs s ∧ s ≠ [] ∧
      ((T.num? (title (s.take 2))).or (T.num? ((title (s.take 2)).take 1))).getD 0 = z := by
  unfold okZ at h
  cases e : T.sym? z with
  | none => simp [e] at h
  | some s =>
    simp only [e, Bool.and_eq_true, decide_eq_true_eq, Bool.not_eq_true', beq_iff_eq] at h
    refine ⟨s, rfl, h.1.1.1, ?_, h.2⟩
    intro hs; subst hs; simp at h

theorem title_take_ne (s : Str) (h : s ≠ []) : (title (s.take 2)).isEmpty = false := by
  cases s with
  | nil => exact absurd rfl h
  | cons c r => simp [title, titleGo]

theorem atom_words (T : Tables) (L : Layout) (hL : LayoutOK T L) (k : Nat) (a : Atom) (ha : AtomOK T a) :
    ∃ s, T.sym? a.zn = some s ∧
    splitWs (atomLine T L k a) = [natToDec (k + 1), s, fixCore false L.cD a.x, fixCore false L.cD a.y, fixCore false L.cD a.z,
      a.attype.getD s, natToDec 1, L.res, fixCore false L.chD (a.charge.getD ⟨false, 0⟩)] := by
  obtain ⟨s, hs, hnw, hne, _⟩ := okZ_spec ha.1
  refine ⟨s, hs, ?_⟩
  have hsym : T.sym a.zn = s := by simp [Tables.sym, hs]
  have hty : NoWs (a.attype.getD s) ∧ a.attype.getD s ≠ [] := by
    have h2 := ha.2
    cases ht : a.attype with
    | none => simpa using ⟨hnw, hne⟩
    | some t =>
      rw [ht] at h2
      simp only [okType, Bool.and_eq_true, decide_eq_true_eq, Bool.not_eq_true'] at h2
      exact ⟨h2.1, by intro e; subst e; simp at h2⟩
  have e : atomLine T L k a = ([natP [] L.idW (k + 1), strP L.symW s, fixP sp L.xW L.cD a.x, fixP sp L.yW L.cD a.y,
      fixP sp L.yW L.cD a.z, strP L.typeW (a.attype.getD s), natP sp L.oneW 1, strP 0 L.res,
      fixP sp L.chW L.chD (a.charge.getD ⟨false, 0⟩)].map Padded.render).flatten ++ ['\n'] := by
    have e1 : fmtInt L.oneW 1 = spaces (L.oneW - (natToDec 1).length) ++ natToDec 1 := rfl
    simp only [atomLine, hsym, fmtInt_nat, e1, fmtFix, rjust, ljust]
    simp [Padded.render, natP, strP, fixP, spaces, sp]
  rw [e, splitWs_fields _ ['\n'] ?_ ?_ (brk_nl _), splitWs_nl]
  · simp [natP, strP, fixP]
  · intro x hx
    simp only [List.mem_cons, List.not_mem_nil, or_false] at hx
    rcases hx with rfl | rfl | rfl | rfl | rfl | rfl | rfl | rfl | rfl
    · exact natP_ok [] allWs_nil _ _
    · exact strP_ok _ _ hnw hne
    · exact fixP_ok sp sp_ok.1 _ _ _
    · exact fixP_ok sp sp_ok.1 _ _ _
    · exact fixP_ok sp sp_ok.1 _ _ _
    · exact strP_ok _ _ hty.1 hty.2
    · exact natP_ok sp sp_ok.1 _ _
    · exact strP_ok _ _ hL.2.2.1 hL.2.2.2.1
    · exact fixP_ok sp sp_ok.1 _ _ _
  · intro x hx
    simp only [List.tail_cons, List.mem_cons, List.not_mem_nil, or_false] at hx
    rcases hx with rfl | rfl | rfl | rfl | rfl | rfl | rfl | rfl <;>
      first | exact sp_ok.2 | exact pre_ne _ _ sp_ok.2

theorem readAtom_atomLine (T : Tables) (L : Layout) (hL : LayoutOK T L) (k : Nat) (a : Atom) (ha : AtomOK T a) :
    readAtom T L (atomLine T L k a) = .ok (normAtom T a) := by
  obtain ⟨s, hs, hw⟩ := atom_words T L hL k a ha
  obtain ⟨s', hs', _, hne, hz⟩ := okZ_spec ha.1
  have : s' = s := by rw [hs] at hs'; exact (Option.some.inj hs').symm
  subst this
  have hsym : T.sym a.zn = s' := by simp [Tables.sym, hs]
  unfold readAtom
  rw [hw]
  simp [title_take_ne s' hne, pyFix_tok, hz, normAtom, hsym]

theorem readAtoms (T : Tables) (L : Layout) (hL : LayoutOK T L) : ∀ (atoms : List Atom) (k : Nat) (rest : List Str),
    (∀ a ∈ atoms, AtomOK T a) →
    readN (readAtom T L) atoms.length (atomLinesFrom T L k atoms ++ rest) = .ok (atoms.map (normAtom T), rest) := by
  intro atoms; induction atoms with
  | nil => intro k rest _; rfl
  | cons a as ih =>
    intro k rest h
    simp only [List.length_cons, atomLinesFrom, List.cons_append, readN,
      readAtom_atomLine T L hL k a (h a List.mem_cons_self),
      ih (k + 1) rest (fun x hx => h x (List.mem_cons_of_mem _ hx)), List.map_cons]

/-! ### bonds -/

theorem lookupK_key {ν} (t : List (Nat × ν)) (k : Nat) (v : ν) (h : lookupK t k = some v) : (k, v) ∈ t := by
  unfold lookupK at h
  cases hf : t.find? (fun e => e.1 == k) with
  | none => simp [hf] at h
  | some e =>
    simp [hf] at h
    have hm := List.mem_of_find?_eq_some hf
    have hk := List.find?_some hf
    simp at hk
    obtain ⟨a, b⟩ := e
    simp at hk h
    subst hk; subst h; exact hm

theorem bondName_spec (T : Tables) (L : Layout) (hL : LayoutOK T L) (t : Nat) :
    NoWs (bondName T L t) ∧ bondName T L t ≠ [] ∧
    (T.bnum? (bondName T L t)).getD L.unBond = (if (T.bond? t).isSome then t else L.unBond) := by
  have hb := hL.2.2.2.2.2.2.2.2.2.2.1
  have hu := hL.2.2.2.2.2.2.2.2.2.2.2
  unfold bondName
  cases ht : T.bond? t with
  | some nm =>
    have hm := lookupK_key T.num2bond t nm ht
    obtain ⟨h1, h2, h3⟩ := hb (t, nm) hm
    simp only [Option.getD_some, Option.isSome_some, if_true]
    exact ⟨h1, h2, by simp only at h3; rw [h3]; rfl⟩
  | none =>
    cases hu' : T.bond? L.unBond with
    | none => rw [hu'] at hu; simp at hu
    | some nm =>
      have hm := lookupK_key T.num2bond L.unBond nm hu'
      obtain ⟨h1, h2, h3⟩ := hb (L.unBond, nm) hm
      simp only [Option.getD_none, Option.getD_some, Option.isSome_none, Bool.false_eq_true, if_false]
      exact ⟨h1, h2, by simp only at h3; rw [h3]; rfl⟩

theorem readBond_bondLine (T : Tables) (L : Layout) (hL : LayoutOK T L) (k : Nat) (b : Bond) :
    readBond T L (bondLine T L k b) = .ok (normBond T L b) := by
  obtain ⟨h1, h2, h3⟩ := bondName_spec T L hL b.t
  have e : bondLine T L k b = ([natP [] L.bidW (k + 1), natP sp L.batW (b.i + 1), natP sp L.batW (b.j + 1),
      strP L.btW (bondName T L b.t)].map Padded.render).flatten ++ ['\n'] := by
    simp only [bondLine, fmtInt_nat, ljust]
    simp [Padded.render, natP, strP, sp]
  have hw : splitWs (bondLine T L k b) = [natToDec (k + 1), natToDec (b.i + 1), natToDec (b.j + 1), bondName T L b.t] := by
    rw [e, splitWs_fields _ ['\n'] ?_ ?_ (brk_nl _), splitWs_nl]
    · simp [natP, strP]
    · intro x hx
      simp only [List.mem_cons, List.not_mem_nil, or_false] at hx
      rcases hx with rfl | rfl | rfl | rfl
      · exact natP_ok [] allWs_nil _ _
      · exact natP_ok sp sp_ok.1 _ _
      · exact natP_ok sp sp_ok.1 _ _
      · exact strP_ok _ _ h1 h2
    · intro x hx
      simp only [List.tail_cons, List.mem_cons, List.not_mem_nil, or_false] at hx
      rcases hx with rfl | rfl | rfl <;> first | exact sp_ok.2 | exact pre_ne _ _ sp_ok.2
  unfold readBond
  rw [hw]
  simp [pyInt_nat, h3, normBond]

theorem readBonds (T : Tables) (L : Layout) (hL : LayoutOK T L) : ∀ (bs : List Bond) (k : Nat) (rest : List Str),
    readN (readBond T L) bs.length (bondLinesFrom T L k bs ++ rest) = .ok (bs.map (normBond T L), rest) := by
  intro bs; induction bs with
  | nil => intro k rest; rfl
  | cons b bs ih =>
    intro k rest
    simp only [List.length_cons, bondLinesFrom, List.cons_append, readN, readBond_bondLine T L hL k b, ih (k + 1) rest, List.map_cons]

/-! ### the section loop -/

theorem loop_blank (T : Tables) (L : Layout) (f : Nat) (st : St) (line : Str) (ls : List Str) (h : line.length ≤ 1) :
    loop T L (f + 1) st (line :: ls) = loop T L f st ls := by
  simp [loop, h]

theorem loop_blanks (T : Tables) (L : Layout) : ∀ (bl : List Str) (f : Nat) (st : St) (rest : List Str),
    (∀ l ∈ bl, l.length ≤ 1) → loop T L (f + bl.length) st (bl ++ rest) = loop T L f st rest := by
  intro bl; induction bl with
  | nil => intro f st rest _; rfl
  | cons l bl ih =>
    intro f st rest h
    have : f + (l :: bl).length = (f + bl.length) + 1 := by simp; omega
    rw [this, List.cons_append, loop_blank T L _ st l _ (h l List.mem_cons_self)]
    exact ih f st rest (fun x hx => h x (List.mem_cons_of_mem _ hx))

theorem loop_other (T : Tables) (L : Layout) (f : Nat) (st : St) (line : Str) (ls : List Str) (w : Str) (ws : List Str)
    (hlen : 1 < line.length) (hw : splitWs line = w :: ws) (h1 : w ≠ kMol) (h2 : w ≠ kAtom) (h3 : w ≠ kBond) :
    loop T L (f + 1) st (line :: ls) = loop T L f st ls := by
  have : ¬ line.length ≤ 1 := by omega
  simp [loop, this, hw, h1, h2, h3]

theorem kw_words : splitWs (kMol ++ ['\n']) = [kMol] ∧ splitWs (kAtom ++ ['\n']) = [kAtom] ∧ splitWs (kBond ++ ['\n']) = [kBond] ∧
    kAtom ≠ kMol ∧ kBond ≠ kMol ∧ kBond ≠ kAtom := by decide +kernel

theorem counts_words (L : Layout) (a b : Nat) :
    splitWs (countsLine L a b) = [natToDec a, natToDec b, natToDec 0, natToDec 0] := by
  have e : countsLine L a b = ([natP [] L.natW a, natP sp L.cntW b, natP sp L.cntW 0, natP sp L.cntW 0].map Padded.render).flatten ++ ['\n'] := by
    have e0 : fmtInt L.cntW 0 = spaces (L.cntW - (natToDec 0).length) ++ natToDec 0 := rfl
    simp only [countsLine, fmtInt_nat, e0]
    simp [Padded.render, natP, sp]
  rw [e, splitWs_fields _ ['\n'] ?_ ?_ (brk_nl _), splitWs_nl]
  · simp [natP]
  · intro x hx
    simp only [List.mem_cons, List.not_mem_nil, or_false] at hx
    rcases hx with rfl | rfl | rfl | rfl
    · exact natP_ok [] allWs_nil _ _
    · exact natP_ok sp sp_ok.1 _ _
    · exact natP_ok sp sp_ok.1 _ _
    · exact natP_ok sp sp_ok.1 _ _
  · intro x hx
    simp only [List.tail_cons, List.mem_cons, List.not_mem_nil, or_false] at hx
    rcases hx with rfl | rfl | rfl <;> exact pre_ne _ _ sp_ok.2

theorem okTitle_spec {t : Str} (h : okTitle t = true) : Trimmed t := by
  simp only [okTitle, Bool.and_eq_true, decide_eq_true_eq] at h; exact h.1

theorem okTitle_outTitle (T : Tables) (L : Layout) (hL : LayoutOK T L) (t : Str) (h : okTitle t = true) : okTitle (outTitle L t) = true := by
  unfold outTitle; split
  · exact hL.1
  · exact h

theorem loop_end (T : Tables) (L : Layout) (f : Nat) (st : St) : loop T L f st [] = .ok st := by
  cases f <;> rfl

theorem loop_mol (T : Tables) (L : Layout) (f : Nat) (st : St) (t c : Str) (ls : List Str) (a b : Str) (ws : List Str) (na nb : Int)
    (hres : st.result = none) (hw : splitWs c = a :: b :: ws) (pa : pyInt a = some na) (pb : pyInt b = some nb) :
    loop T L (f + 1) st ((kMol ++ ['\n']) :: t :: c :: ls)
      = loop T L f { st with title := strip t, natoms := na, nbonds := nb } ls := by
  have hl : ¬ ((kMol ++ ['\n']).length ≤ 1) := by decide
  simp only [loop, hl, if_false, kw_words.1, if_true, hres, Option.isSome_none, Bool.false_eq_true, hw, List.getElem?_cons_zero,
    List.getElem?_cons_succ, pa, pb]

theorem loop_atom (T : Tables) (L : Layout) (f : Nat) (st : St) (ls ls' : List Str) (atoms : List LAtom) (n : Nat)
    (hn : st.natoms = (n : Int)) (hr : readN (readAtom T L) n ls = .ok (atoms, ls')) :
    loop T L (f + 1) st ((kAtom ++ ['\n']) :: ls) = loop T L f { st with result := some ⟨st.title, atoms, none⟩ } ls' := by
  have hl : ¬ ((kAtom ++ ['\n']).length ≤ 1) := by decide
  have nneg : ¬ ((n : Int) < 0) := by omega
  simp only [loop, hl, if_false, kw_words.2.1, kw_words.2.2.2.1, if_true, hn, nneg, Int.toNat_natCast, hr]

theorem loop_bond (T : Tables) (L : Layout) (f : Nat) (st : St) (ls ls' : List Str) (bonds : List Bond) (n : Nat) (r : Loaded)
    (hn : st.nbonds = (n : Int)) (hres : st.result = some r) (hr : readN (readBond T L) n ls = .ok (bonds, ls')) :
    loop T L (f + 1) st ((kBond ++ ['\n']) :: ls) = loop T L f { st with result := some { r with bonds := some bonds } } ls' := by
  have hl : ¬ ((kBond ++ ['\n']).length ≤ 1) := by decide
  have nneg : ¬ ((n : Int) < 0) := by omega
  simp only [loop, hl, if_false, kw_words.2.2.1, kw_words.2.2.2.2.1, kw_words.2.2.2.2.2, if_true, hn, nneg, Int.toNat_natCast, hr, hres]

theorem length_atomLines (T : Tables) (L : Layout) : ∀ (as : List Atom) (k : Nat), (atomLinesFrom T L k as).length = as.length := by
  intro as; induction as with
  | nil => intro k; rfl
  | cons a as ih => intro k; simp [atomLinesFrom, ih]

/-- C02 for MOL2 -/
theorem load_dump (T : Tables) (L : Layout) (hL : LayoutOK T L) (o : Obj) (h : Dom T L o) :
    load T L (dump T L o) = .ok (norm T L o) := by
  obtain ⟨ht, hat, hne, hb⟩ := h
  have htitle : strip (outTitle L o.title ++ ['\n']) = outTitle L o.title := by
    have := strip_pad [] (outTitle L o.title) ['\n'] allWs_nil allWs_nl (okTitle_spec (okTitle_outTitle T L hL _ ht))
    simpa using this
  have hLok := hL
  obtain ⟨_, _, _, _, hc1, hc2, hc3, hc4, hc5, _, _, _⟩ := hL
  have hcw : splitWs (L.comment ++ ['\n']) = splitWs L.comment := by
    rw [splitWs_append_brk _ _ (brk_nl _), splitWs_nl, List.append_nil]
  have hall : ∀ l ∈ blankLines L, l.length ≤ 1 := by
    intro l hl; simp only [blankLines, List.mem_map] at hl
    obtain ⟨_, _, rfl⟩ := hl; simp
  have cw := counts_words L o.atoms.length ((o.bonds.map List.length).getD 0)
  have main : ∀ m : Nat, loop T L (m + (blankLines L).length + 5) ⟨[], 0, 0, none⟩ (dump T L o) =
      .ok ⟨outTitle L o.title, o.atoms.length, ((o.bonds.map List.length).getD 0 : Nat), some (norm T L o)⟩ := by
    intro m
    cases hw : splitWs L.comment with
    | nil => exact absurd hw hc5
    | cons w ws =>
      have n1 : w ≠ kMol := fun e => hc2 (by rw [hw, e]; rfl)
      have n2 : w ≠ kAtom := fun e => hc3 (by rw [hw, e]; rfl)
      have n3 : w ≠ kBond := fun e => hc4 (by rw [hw, e]; rfl)
      unfold dump
      have f1 : m + (blankLines L).length + 5 = (m + 4 + (blankLines L).length) + 1 := by omega
      rw [f1, loop_other T L _ _ (L.comment ++ ['\n']) _ w ws (by simp; omega) (by rw [hcw, hw]) n1 n2 n3,
        loop_blanks T L (blankLines L) (m + 4) _ _ hall]
      rw [show m + 4 = (m + 3) + 1 by omega,
        loop_mol T L (m + 3) _ _ _ _ _ _ _ (o.atoms.length : Int) (((o.bonds.map List.length).getD 0 : Nat) : Int) rfl cw
          (pyInt_nat _) (pyInt_nat _), htitle]
      cases hbs : o.bonds with
      | none =>
        have hatoms := readAtoms T L hLok o.atoms 0 [] hat
        simp only [List.append_nil] at hatoms ⊢
        rw [show m + 3 = (m + 2) + 1 by omega, loop_atom T L (m + 2) _ _ [] _ o.atoms.length rfl hatoms, loop_end]
        simp [norm, hbs]
      | some bs =>
        have hatoms := readAtoms T L hLok o.atoms 0 ((kBond ++ ['\n']) :: bondLinesFrom T L 0 bs) hat
        have hbonds := readBonds T L hLok bs 0 []
        simp only [List.append_nil] at hbonds
        rw [show m + 3 = (m + 2) + 1 by omega, loop_atom T L (m + 2) _ _ _ _ o.atoms.length rfl hatoms,
          show m + 2 = (m + 1) + 1 by omega, loop_bond T L (m + 1) _ _ [] _ bs.length _ (by simp) rfl hbonds, loop_end]
        simp [norm, hbs]
  have hlen : (dump T L o).length + 1 = ((dump T L o).length + 1 - (blankLines L).length - 5) + (blankLines L).length + 5 := by
    have : (blankLines L).length + 5 ≤ (dump T L o).length := by
      have : 0 < o.atoms.length := List.length_pos_iff.mpr hne
      simp [dump, length_atomLines] <;> omega
    omega
  unfold load
  rw [hlen, main]
  cases hbs : o.bonds with
  | none => simp [norm, hbs]
  | some bs => simp [norm, hbs]

/-! ### C15 -/

theorem outTitle_idem (T : Tables) (L : Layout) (hL : LayoutOK T L) (t : Str) : outTitle L (outTitle L t) = outTitle L t := by
  unfold outTitle
  by_cases h : t.isEmpty = true
  · have : L.defaultTitle.isEmpty = false := by
      cases e : L.defaultTitle with
      | nil => exact absurd e hL.2.1
      | cons _ _ => rfl
    simp [h, this]
  · simp [h]

theorem normBond_idem (T : Tables) (L : Layout) (hL : LayoutOK T L) (b : Bond) : normBond T L (normBond T L b) = normBond T L b := by
  have hu := hL.2.2.2.2.2.2.2.2.2.2.2
  unfold normBond
  by_cases h : (T.bond? b.t).isSome = true
  · simp [h]
  · simp [h, hu]

theorem norm_idem (T : Tables) (L : Layout) (hL : LayoutOK T L) (o : Obj) : norm T L (norm T L o).obj = norm T L o := by
  have h1 : ((o.atoms.map (normAtom T)).map (fun a => (⟨a.zn, a.x, a.y, a.z, some a.attype, some a.charge⟩ : Atom))).map (normAtom T)
      = o.atoms.map (normAtom T) := by
    rw [List.map_map, List.map_map]
    apply List.map_congr_left; intro a _; simp [normAtom]
  have h2 : (o.bonds.map (List.map (normBond T L))).map (List.map (normBond T L)) = o.bonds.map (List.map (normBond T L)) := by
    cases o.bonds with
    | none => rfl
    | some bs =>
      simp only [Option.map_some, List.map_map]
      congr 1
      apply List.map_congr_left; intro b _; exact normBond_idem T L hL b
  simp only [norm, Loaded.obj, outTitle_idem T L hL, h1, h2]

theorem dom_norm (T : Tables) (L : Layout) (hL : LayoutOK T L) (o : Obj) (h : Dom T L o) : Dom T L (norm T L o).obj := by
  obtain ⟨ht, hat, hne, hb⟩ := h
  refine ⟨okTitle_outTitle T L hL _ ht, ?_, ?_, ?_⟩
  · intro a ha
    simp only [norm, Loaded.obj, List.map_map, List.mem_map] at ha
    obtain ⟨a0, ha0, rfl⟩ := ha
    obtain ⟨hz, hty⟩ := hat a0 ha0
    refine ⟨hz, ?_⟩
    obtain ⟨s, hs, hnw, hne', _⟩ := okZ_spec hz
    simp only [Function.comp, normAtom]
    cases hta : a0.attype with
    | none =>
      simp [okType, Tables.sym, hs]
      exact ⟨hnw, hne'⟩
    | some t =>
      rw [hta] at hty
      simpa using hty
  · simp only [norm, Loaded.obj]
    intro e; exact hne (List.map_eq_nil_iff.mp (List.map_eq_nil_iff.mp e))
  · simp only [norm, Loaded.obj]
    cases hbs : o.bonds with
    | none => trivial
    | some bs =>
      rw [hbs] at hb
      simp only [Option.map_some]
      intro e; exact hb (List.map_eq_nil_iff.mp e)

end Iodata.Fmt.Mol2
