/- XYZ: reading back what `dump` writes, line by line. -/
import Iodata.Lemmas.Fmt.Core
import Iodata.Model.Fmt.Xyz
namespace Iodata.Fmt.Xyz
open Iodata.Chars Iodata.Decimal Iodata.Fmt

theorem flip_flip (b : Bool) (x : Fx) : flip b (flip b x) = x := by
  cases b <;> simp [flip]

def valPads : List Col → List Fx → List Padded
  | c :: cs, v :: vs =>
    ⟨spaces (c.w - (fixCore false c.d (flip c.negate v)).length), fixCore false c.d (flip c.negate v), []⟩ :: valPads cs vs
  | _, _ => []

theorem valPads_render : ∀ cs vs, (valPads cs vs).map Padded.render = valWords cs vs := by
  intro cs; induction cs with
  | nil => intro vs; cases vs <;> rfl
  | cons c cs ih =>
    intro vs; cases vs with
    | nil => rfl
    | cons v vs => simp [valPads, valWords, Padded.render, fmtFix, rjust, ih]

theorem valPads_ok : ∀ cs vs, ∀ x ∈ valPads cs vs, x.OK := by
  intro cs; induction cs with
  | nil => intro vs x h; cases vs <;> cases h
  | cons c cs ih =>
    intro vs; cases vs with
    | nil => intro x h; cases h
    | cons v vs =>
      intro x h
      rcases List.mem_cons.mp h with h | h
      · subst h; exact ⟨allWs_spaces _, fixCore_noWs _ _, fixCore_ne_nil _ _ _, allWs_nil⟩
      · exact ih vs x h

theorem loadVals_pads : ∀ cs vs (extra : List Str), vs.length = cs.length →
    loadVals cs ((valPads cs vs).map (·.tok) ++ extra) = .ok vs := by
  intro cs; induction cs with
  | nil => intro vs extra h; cases vs with
    | nil => rfl
    | cons _ _ => simp at h
  | cons c cs ih =>
    intro vs extra h; cases vs with
    | nil => simp at h
    | cons v vs =>
      have hv : pyFix c.d (fixCore false c.d (flip c.negate v)) = some (flip c.negate v) := by
        have := pyFix_fixCore false c.d (flip c.negate v) [] [] allWs_nil allWs_nil
        simpa using this
      have := ih vs extra (by simpa using h)
      simp only [valPads, List.map_cons, List.cons_append, loadVals, hv, this, flip_flip]

theorem okZ_spec {T : Tables} {z : Nat} (h : okZ T z = true) :
    ∃ s, T.sym? z = some s ∧ NoWs s ∧ s ≠ [] ∧ isDigitStr s = false ∧ T.num? (title s) = some z := by
  unfold okZ at h
  cases e : T.sym? z with
  | none => simp [e] at h
  | some s =>
    simp only [e, Bool.and_eq_true, decide_eq_true_eq, Bool.not_eq_true', beq_iff_eq] at h
    refine ⟨s, rfl, h.1.1.1, ?_, h.1.2, h.2⟩
    intro hs; subst hs; simp at h

theorem loadAtom_dumpAtom (T : Tables) (L : Layout) (a : Atom)
    (hz : okZ T a.z = true) (hl : a.vals.length = L.cols.length) :
    loadAtom T L (dumpAtom T L a) = .ok a := by
  obtain ⟨s, hs, hnw, hne, hnd, hback⟩ := okZ_spec hz
  have hsym : T.sym a.z = s := by simp [Tables.sym, hs]
  let pads : List Padded := ⟨[], s, spaces (L.symW - s.length)⟩ :: valPads L.cols a.vals
  have hrender : dumpAtom T L a = joinSp (pads.map Padded.render) ++ ['\n'] := by
    simp [dumpAtom, ln, pads, hsym, Padded.render, ljust, valPads_render]
  have hok : ∀ x ∈ pads, x.OK := by
    intro x hx
    rcases List.mem_cons.mp hx with h | h
    · subst h; exact ⟨allWs_nil, hnw, hne, allWs_spaces _⟩
    · exact valPads_ok _ _ x h
  have hsplit := splitWs_joinSp_padded pads ['\n'] hok (brk_nl [])
  have hnl : splitWs ['\n'] = [] := splitWs_allWs _ allWs_nl
  unfold loadAtom
  rw [hrender, hsplit, hnl]
  simp only [pads, List.map_cons, List.cons_append, loadZ, hnd, Bool.false_eq_true, if_false, hback, optE]
  rw [loadVals_pads L.cols a.vals [] hl]

theorem okTitle_spec {t : Str} (h : okTitle t = true) : Trimmed t ∧ '\n' ∉ t := by
  unfold okTitle at h
  simp only [Bool.and_eq_true, decide_eq_true_eq, Bool.not_eq_true'] at h
  refine ⟨h.1, ?_⟩
  intro hc
  have : t.contains '\n' = true := by simpa using hc
  rw [this] at h; exact absurd h.2 (by decide)

theorem strip_ln (t : Str) (h : Trimmed t) : strip (ln t) = t := by
  have := strip_pad [] t ['\n'] allWs_nil allWs_nl h
  simpa [ln] using this

theorem pyInt_ln_natToDec (n : Nat) : pyInt (ln (natToDec n)) = some (Int.ofNat n) := by
  have := pyInt_intToDec [] ['\n'] (Int.ofNat n) allWs_nil allWs_nl
  simpa [ln, intToDec] using this

theorem okTitle_outTitle (L : Layout) (hL : LayoutOK L) (t : Str) (h : okTitle t = true) :
    okTitle (outTitle L t) = true := by
  unfold outTitle; split
  · exact hL.1
  · exact h

/-- C02 for XYZ, every object of the domain, every column layout -/
theorem load_dump (T : Tables) (L : Layout) (hL : LayoutOK L) (o : Obj) (h : Dom T L o) :
    load T L (dump T L o) = .ok (norm L o) := by
  have ht := okTitle_spec (okTitle_outTitle L hL o.title h.1)
  have hatoms := readN_map (loadAtom T L) (dumpAtom T L) id o.atoms []
    (fun a ha => by simpa using loadAtom_dumpAtom T L a (h.2 a ha).1 (h.2 a ha).2)
  simp only [List.append_nil, List.map_id] at hatoms
  simp only [dump, load, pyInt_ln_natToDec, hatoms, strip_ln _ ht.1, norm]

end Iodata.Fmt.Xyz

namespace Iodata.Fmt.Xyz
open Iodata.Chars Iodata.Decimal Iodata.Fmt

/-! ### C15 -/

theorem outTitle_idem (L : Layout) (hL : LayoutOK L) (t : Str) : outTitle L (outTitle L t) = outTitle L t := by
  unfold outTitle
  by_cases h : t.isEmpty = true
  · have : L.defaultTitle.isEmpty = false := by
      cases e : L.defaultTitle with
      | nil => exact absurd e hL.2
      | cons _ _ => rfl
    simp [h, this]
  · simp [h]

theorem norm_idem (L : Layout) (hL : LayoutOK L) (o : Obj) : norm L (norm L o) = norm L o := by
  simp [norm, outTitle_idem L hL]

theorem dom_norm (T : Tables) (L : Layout) (hL : LayoutOK L) (o : Obj) (h : Dom T L o) : Dom T L (norm L o) :=
  ⟨okTitle_outTitle L hL o.title h.1, h.2⟩

/-! ### C03: any free-format file -/

def specPads : List Col → List (Str × Fx) → List Padded
  | c :: cs, (p, v) :: vs => ⟨p, fixCore false c.d v, []⟩ :: specPads cs vs
  | _, _ => []

theorem specPads_render : ∀ cs vs, ((specPads cs vs).map Padded.render).flatten = specVals cs vs := by
  intro cs; induction cs with
  | nil => intro vs; cases vs <;> rfl
  | cons c cs ih =>
    intro vs; cases vs with
    | nil => rfl
    | cons pv vs => obtain ⟨p, v⟩ := pv; simp [specPads, specVals, Padded.render, ih]

theorem specPads_ok : ∀ cs vs, (∀ pv ∈ vs, AllWs pv.1 ∧ pv.1 ≠ []) →
    ∀ x ∈ specPads cs vs, x.OK ∧ x.pre ≠ [] := by
  intro cs; induction cs with
  | nil => intro vs _ x h; cases vs <;> cases h
  | cons c cs ih =>
    intro vs hv; cases vs with
    | nil => intro x h; cases h
    | cons pv vs =>
      obtain ⟨p, v⟩ := pv
      intro x h
      rcases List.mem_cons.mp h with h | h
      · subst h
        have := hv (p, v) List.mem_cons_self
        exact ⟨⟨this.1, fixCore_noWs _ _, fixCore_ne_nil _ _ _, allWs_nil⟩, this.2⟩
      · exact ih vs (fun y hy => hv y (List.mem_cons_of_mem _ hy)) x h

theorem loadVals_specPads : ∀ cs vs (extra : List Str), vs.length = cs.length → (∀ c ∈ cs, c.negate = false) →
    loadVals cs ((specPads cs vs).map (·.tok) ++ extra) = .ok (vs.map (·.2)) := by
  intro cs; induction cs with
  | nil => intro vs extra h _; cases vs with
    | nil => rfl
    | cons _ _ => simp at h
  | cons c cs ih =>
    intro vs extra h hn; cases vs with
    | nil => simp at h
    | cons pv vs =>
      obtain ⟨p, v⟩ := pv
      have hv : pyFix c.d (fixCore false c.d v) = some v := by
        have := pyFix_fixCore false c.d v [] [] allWs_nil allWs_nil
        simpa using this
      have hc : c.negate = false := hn c List.mem_cons_self
      have := ih vs extra (by simpa using h) (fun y hy => hn y (List.mem_cons_of_mem _ hy))
      simp only [specPads, List.map_cons, List.cons_append, loadVals, hv, this, hc, flip]
      simp

theorem loadAtom_specAtom (T : Tables) (L : Layout) (a : SpecAtom) (h : SpecAtomOK T L a) :
    loadAtom T L (specAtom T L a) = .ok ⟨a.z, a.vals.map (·.2)⟩ := by
  obtain ⟨hel, hlead, htrail, hlen, hneg, hvals⟩ := h
  unfold okEl at hel
  simp only [Bool.and_eq_true, decide_eq_true_eq, Bool.not_eq_true'] at hel
  obtain ⟨⟨hnw, hne⟩, hload⟩ := hel
  have hne' : elTok T a.z a.variant ≠ [] := by intro e; rw [e] at hne; simp at hne
  have hz : loadZ T (elTok T a.z a.variant) = .ok a.z := by
    cases e : loadZ T (elTok T a.z a.variant) with
    | error _ => rw [e] at hload; simp at hload
    | ok z' => rw [e] at hload; simp at hload; rw [hload]
  let pads : List Padded := ⟨a.lead, elTok T a.z a.variant, []⟩ :: specPads L.cols a.vals
  have hrender : specAtom T L a = (pads.map Padded.render).flatten ++ (a.trail ++ ['\n']) := by
    simp [specAtom, pads, Padded.render, specPads_render]
  have hpo := specPads_ok L.cols a.vals hvals
  have hok : ∀ x ∈ pads, x.OK := by
    intro x hx
    rcases List.mem_cons.mp hx with h | h
    · subst h; exact ⟨hlead, hnw, hne', allWs_nil⟩
    · exact (hpo x h).1
  have hsep : ∀ x ∈ pads.tail, x.pre ≠ [] := fun x hx => (hpo x hx).2
  have htail : AllWs (a.trail ++ ['\n']) := allWs_append htrail allWs_nl
  have hsplit := splitWs_fields pads (a.trail ++ ['\n']) hok hsep (brk_of_allWs htail)
  unfold loadAtom
  rw [hrender, hsplit, splitWs_allWs _ htail]
  simp only [pads, List.map_cons, List.cons_append, hz]
  rw [loadVals_specPads L.cols a.vals [] hlen hneg]

/-- C03 for XYZ: every well-formed free-format file is read as the object it denotes -/
theorem load_spec (T : Tables) (L : Layout) (m : SpecObj) (h : SpecOK T L m) :
    load T L (specRender T L m) = .ok m.obj := by
  obtain ⟨h1, h2, h3, h4, h5, hat⟩ := h
  have hatoms := readN_map (loadAtom T L) (specAtom T L) (fun a => (⟨a.z, a.vals.map (·.2)⟩ : Atom)) m.atoms []
    (fun a ha => loadAtom_specAtom T L a (hat a ha))
  simp only [List.append_nil] at hatoms
  have hn : pyInt (m.natomLead ++ (natToDec m.atoms.length ++ (m.natomTrail ++ ['\n']))) = some (Int.ofNat m.atoms.length) := by
    have := pyInt_intToDec m.natomLead (m.natomTrail ++ ['\n']) (Int.ofNat m.atoms.length) h1 (allWs_append h2 allWs_nl)
    simpa [intToDec] using this
  have ht : strip (m.titleLead ++ (m.title ++ (m.titleTrail ++ ['\n']))) = m.title :=
    strip_pad _ _ _ h3 (allWs_append h4 allWs_nl) h5
  simp only [specRender, load, hn, hatoms, ht, SpecObj.obj]

end Iodata.Fmt.Xyz
