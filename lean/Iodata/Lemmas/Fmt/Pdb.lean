/- PDB: the ATOM record cut by column, and whole files without CONECT records. -/
import Iodata.Lemmas.Fmt.Core
import Iodata.Model.Fmt.Pdb
namespace Iodata.Fmt.Pdb
open Iodata.Chars Iodata.Decimal Iodata.Fmt

theorem rjust_split (w : Nat) (s : Str) (hs : s.length ≤ 2) (hw : 2 ≤ w) :
    rjust w s = spaces (w - 2) ++ rjust 2 s := by
  simp only [rjust, spaces, ← List.append_assoc, List.replicate_append_replicate]
  congr 2; omega

theorem getElem?_mid (pre : Str) (c : Char) (post : Str) (n : Nat) (h : pre.length = n) :
    (pre ++ c :: post)[n]? = some c := by subst h; simp

theorem okField_spec {w : Nat} {s : Str} (h : okField w s = true) : Trimmed s ∧ s.length ≤ w := by
  simp only [okField, Bool.and_eq_true, decide_eq_true_eq] at h
  exact ⟨h.1.1, h.1.2⟩

theorem okZ_spec {T : Tables} {z : Nat} (h : okZ T z = true) :
    ∃ s, T.sym? z = some s ∧ NoWs s ∧ s ≠ [] ∧ s.length ≤ 2 ∧ T.num? (title s) = some z := by
  unfold okZ at h
  cases e : T.sym? z with
  | none => simp [e] at h
  | some s =>
    simp only [e, Bool.and_eq_true, decide_eq_true_eq, Bool.not_eq_true', beq_iff_eq] at h
    refine ⟨s, rfl, h.1.1.1, ?_, h.1.2, h.2⟩
    intro hs; subst hs; simp at h

theorem pyFix_fmtFix' (w d : Nat) (v : Fx) : pyFix d (fmtFix false w d v) = some v := by
  have := pyFix_fmtFix false w d v [] allWs_nil
  simpa using this

theorem length_fmtFix {w d : Nat} {v : Fx} (h : fitsFx w d v = true) : (fmtFix false w d v).length = w := by
  simp only [fitsFx, decide_eq_true_eq] at h
  exact length_rjust _ _ h

theorem pyInt_rjust (w : Nat) (i : Int) : pyInt (rjust w (intToDec i)) = some i := by
  have := pyInt_intToDec (spaces (w - (intToDec i).length)) [] i (allWs_spaces _) allWs_nil
  simpa [rjust] using this

/-- the ATOM record written for any atom that fits its columns is parsed back to that atom -/
theorem parseAtom_dumpAtom (T : Tables) (L : Layout) (hL : LayoutOK L) (serial : Nat) (a : Atom)
    (hser : (natToDec serial).length ≤ L.serialW) (ha : AtomOK T L a) :
    parseAtom T L (dumpAtom T L serial a) = .ok a := by
  obtain ⟨hz, hname, hres, _, hrn, hx, hy, hzz, hocc, hb⟩ := ha
  obtain ⟨s, hs, hnw, hne, hlen2, hback⟩ := okZ_spec hz
  have hsym : T.sym a.zn = s := by simp [Tables.sym, hs]
  obtain ⟨hnameT, hnameL⟩ := okField_spec hname
  obtain ⟨hresT, hresL⟩ := okField_spec hres
  obtain ⟨_, _, hsw, _, eName, eRes, eChain, eResnum, eX, eY, eZ, eOcc, eB, eSym⟩ := hL
  -- the fields and their lengths
  let f1 := rjust L.serialW (natToDec serial)
  let f3 := ljust L.nameW a.name
  let f5 := ljust L.resW a.res
  let f8 := rjust L.resnumW (intToDec a.resnum)
  let f9 := spaces L.gap4
  let fx := fmtFix false L.coordW L.coordD a.x
  let fy := fmtFix false L.coordW L.coordD a.y
  let fz := fmtFix false L.coordW L.coordD a.z
  let fo := fmtFix false L.occW L.occD a.occ
  let fb := fmtFix false L.occW L.occD a.b
  let g1 := spaces (L.symW - 2)
  let g2 := rjust 2 s
  have l0 : recAtom.length = 6 := rfl
  have l1 : f1.length = L.serialW := length_rjust _ _ hser
  have l3 : f3.length = L.nameW := length_ljust _ _ hnameL
  have l5 : f5.length = L.resW := length_ljust _ _ hresL
  have l8 : f8.length = L.resnumW := length_rjust _ _ hrn
  have l9 : f9.length = L.gap4 := length_spaces _
  have lx : fx.length = L.coordW := length_fmtFix hx
  have ly : fy.length = L.coordW := length_fmtFix hy
  have lz : fz.length = L.coordW := length_fmtFix hzz
  have lo : fo.length = L.occW := length_fmtFix hocc
  have lb : fb.length = L.occW := length_fmtFix hb
  have lg1 : g1.length = L.symW - 2 := length_spaces _
  have lg2 : g2.length = 2 := length_rjust _ _ hlen2
  have hline : dumpAtom T L serial a =
      [recAtom, f1, [' '], f3, [' '], f5, [' '], [a.chain], f8, f9, fx, fy, fz, fo, fb, g1, g2, ['\n']].flatten := by
    simp only [dumpAtom, atomFields, hsym, rjust_split L.symW s hlen2 hsw, f1, f3, f5, f8, f9, fx, fy, fz, fo, fb, g1, g2]
    simp
  -- every slice
  have sName : sl L.sName (dumpAtom T L serial a) = f3 := by
    rw [hline, eName]
    exact slice_flatten [recAtom, f1, [' ']] f3 _ _ _ (by simp [l0, l1]; omega) (by simp [l3])
  have sRes : sl L.sRes (dumpAtom T L serial a) = f5 := by
    rw [hline, eRes]
    exact slice_flatten [recAtom, f1, [' '], f3, [' ']] f5 _ _ _ (by simp [l0, l1, l3]; omega) (by simp [l5])
  have sChain : (dumpAtom T L serial a)[L.iChain]? = some a.chain := by
    rw [hline, eChain]
    have : [recAtom, f1, [' '], f3, [' '], f5, [' '], [a.chain], f8, f9, fx, fy, fz, fo, fb, g1, g2, ['\n']].flatten
        = (recAtom ++ f1 ++ [' '] ++ f3 ++ [' '] ++ f5 ++ [' ']) ++ (a.chain :: (f8 ++ f9 ++ fx ++ fy ++ fz ++ fo ++ fb ++ g1 ++ g2 ++ ['\n'])) := by
      simp
    rw [this]
    exact getElem?_mid _ _ _ _ (by simp [l0, l1, l3, l5]; omega)
  have sResnum : sl L.sResnum (dumpAtom T L serial a) = f8 := by
    rw [hline, eResnum, eChain]
    exact slice_flatten [recAtom, f1, [' '], f3, [' '], f5, [' '], [a.chain]] f8 _ _ _
      (by simp [l0, l1, l3, l5]; omega) (by simp [l8])
  have sX : sl L.sX (dumpAtom T L serial a) = fx := by
    rw [hline, eX, eChain]
    exact slice_flatten [recAtom, f1, [' '], f3, [' '], f5, [' '], [a.chain], f8, f9] fx _ _ _
      (by simp [l0, l1, l3, l5, l8, l9]; omega) (by simp [lx])
  have sY : sl L.sY (dumpAtom T L serial a) = fy := by
    rw [hline, eY, eX, eChain]
    exact slice_flatten [recAtom, f1, [' '], f3, [' '], f5, [' '], [a.chain], f8, f9, fx] fy _ _ _
      (by simp [l0, l1, l3, l5, l8, l9, lx]; omega) (by simp [ly])
  have sZ : sl L.sZ (dumpAtom T L serial a) = fz := by
    rw [hline, eZ, eY, eX, eChain]
    exact slice_flatten [recAtom, f1, [' '], f3, [' '], f5, [' '], [a.chain], f8, f9, fx, fy] fz _ _ _
      (by simp [l0, l1, l3, l5, l8, l9, lx, ly]; omega) (by simp [lz])
  have sOcc : sl L.sOcc (dumpAtom T L serial a) = fo := by
    rw [hline, eOcc, eZ, eY, eX, eChain]
    exact slice_flatten [recAtom, f1, [' '], f3, [' '], f5, [' '], [a.chain], f8, f9, fx, fy, fz] fo _ _ _
      (by simp [l0, l1, l3, l5, l8, l9, lx, ly, lz]; omega) (by simp [lo])
  have sB : sl L.sB (dumpAtom T L serial a) = fb := by
    rw [hline, eB, eOcc, eZ, eY, eX, eChain]
    exact slice_flatten [recAtom, f1, [' '], f3, [' '], f5, [' '], [a.chain], f8, f9, fx, fy, fz, fo] fb _ _ _
      (by simp [l0, l1, l3, l5, l8, l9, lx, ly, lz, lo]; omega) (by simp [lb])
  have sSym : sl L.sSym (dumpAtom T L serial a) = g2 := by
    rw [hline, eSym, eB, eOcc, eZ, eY, eX, eChain]
    exact slice_flatten [recAtom, f1, [' '], f3, [' '], f5, [' '], [a.chain], f8, f9, fx, fy, fz, fo, fb, g1] g2 _ _ _
      (by simp [l0, l1, l3, l5, l8, l9, lx, ly, lz, lo, lb, lg1]; omega) (by simp [lg2]; omega)
  have stripSym : strip g2 = s := by
    have := strip_noWs_pad (spaces (2 - s.length)) s [] (allWs_spaces _) allWs_nil hnw
    simpa [g2, rjust] using this
  have stripName : strip f3 = a.name := by
    have := strip_pad [] a.name (spaces (L.nameW - a.name.length)) allWs_nil (allWs_spaces _) hnameT
    simpa [f3, ljust] using this
  have stripRes : strip f5 = a.res := by
    have := strip_pad [] a.res (spaces (L.resW - a.res.length)) allWs_nil (allWs_spaces _) hresT
    simpa [f5, ljust] using this
  have hsne : s.isEmpty = false := by cases s with
    | nil => exact absurd rfl hne
    | cons _ _ => rfl
  unfold parseAtom
  simp only [sSym, sName, sRes, sChain, sResnum, sX, sY, sZ, sOcc, sB, stripSym, stripName, stripRes, hsne,
    Bool.not_false, if_true, hback, Option.getD, Bool.false_and, Bool.false_eq_true, if_false]
  simp only [f8, fx, fy, fz, fo, fb, pyInt_rjust, pyFix_fmtFix']

end Iodata.Fmt.Pdb

namespace Iodata.Fmt.Pdb
open Iodata.Chars Iodata.Decimal Iodata.Fmt

/-! ### multi-line TITLE / COMPND records -/

theorem splitNl_ne_nil (s : Str) : splitNl s ≠ [] := by
  cases s with
  | nil => simp [splitNl]
  | cons c cs =>
    unfold splitNl
    by_cases hc : (c == '\n') = true
    · simp [hc]
    · simp only [hc, if_false, Bool.false_eq_true]
      cases splitNl cs <;> simp

theorem joinNl_splitNl (s : Str) : joinNl (splitNl s) = s := by
  induction s with
  | nil => rfl
  | cons c cs ih =>
    unfold splitNl
    cases hsp : splitNl cs with
    | nil => exact absurd hsp (splitNl_ne_nil cs)
    | cons l ls =>
      rw [hsp] at ih
      by_cases hc : (c == '\n') = true
      · have : c = '\n' := by simpa using hc
        subst this
        simp only [beq_self_eq_true, if_true]
        simp only [joinNl] at ih ⊢
        rw [← ih]
        simp [List.intercalate]
      · simp only [hc, if_false, Bool.false_eq_true]
        simp only [joinNl] at ih ⊢
        rw [← ih]
        cases ls <;> simp [List.intercalate]

theorem okLines_spec {w : Nat} {s : Str} (h : okLines w s = true) : (∀ l ∈ splitNl s, Trimmed l) ∧ (splitNl s).length < 10 ^ w := by
  simp only [okLines, Bool.and_eq_true, List.all_eq_true, decide_eq_true_eq] at h
  exact h

theorem okTitle_outTitle (L : Layout) (hL : LayoutOK L) (t : Str) (h : okTitle L t = true) :
    okTitle L (outTitle L t) = true := by
  unfold outTitle; split
  · exact hL.1
  · exact h

theorem step_titleX (T : Tables) (L : Layout) (st : St) (filler t : Str)
    (hs : strip (sliceFrom L.titleFrom (kTitle ++ (filler ++ (t ++ ['\n'])))) = t) :
    step T L st (kTitle ++ (filler ++ (t ++ ['\n']))) = .ok ({ st with titles := st.titles ++ [t] }, false) := by
  generalize hline : kTitle ++ (filler ++ (t ++ ['\n'])) = line at hs
  have p1 : startsWith kTitle line = true := by subst hline; simp [startsWith, kTitle]
  have p2 : startsWith kCompnd line = false := by subst hline; rfl
  have p3 : startsWith kAtom line = false := by subst hline; rfl
  have p4 : startsWith kHetatm line = false := by subst hline; rfl
  have p5 : startsWith kConect line = false := by subst hline; rfl
  have p6 : startsWith kEnd line = false := by subst hline; rfl
  simp [step, p1, p2, p3, p4, p5, p6, hs]

theorem step_compndX (T : Tables) (L : Layout) (st : St) (filler t : Str)
    (hs : strip (sliceFrom L.titleFrom (kCompnd ++ (filler ++ (t ++ ['\n'])))) = t) :
    step T L st (kCompnd ++ (filler ++ (t ++ ['\n']))) = .ok ({ st with compnds := st.compnds ++ [t] }, false) := by
  generalize hline : kCompnd ++ (filler ++ (t ++ ['\n'])) = line at hs
  have p1 : startsWith kTitle line = false := by subst hline; rfl
  have p2 : startsWith kCompnd line = true := by subst hline; simp [startsWith, kCompnd]
  have p3 : startsWith kAtom line = false := by subst hline; rfl
  have p4 : startsWith kHetatm line = false := by subst hline; rfl
  have p5 : startsWith kConect line = false := by subst hline; rfl
  have p6 : startsWith kEnd line = false := by subst hline; rfl
  simp [step, p1, p2, p3, p4, p5, p6, hs]

/-- the text of a record, first or continuation, is what the reader finds after column ten -/
theorem strip_first (L : Layout) (key t : Str) (hk : key.length ≤ L.keyW) (hw : L.keyW = L.titleFrom) (ht : Trimmed t) :
    strip (sliceFrom L.titleFrom (key ++ (spaces (L.keyW - key.length) ++ (t ++ ['\n'])))) = t := by
  have e : key ++ (spaces (L.keyW - key.length) ++ (t ++ ['\n'])) = (key ++ spaces (L.keyW - key.length)) ++ (t ++ ['\n']) := by simp
  rw [e, sliceFrom_append _ _ _ (by simp [length_spaces]; omega)]
  have := strip_pad [] t ['\n'] allWs_nil allWs_nl ht
  simpa using this

theorem strip_cont (L : Layout) (key t : Str) (n : Nat) (hk : key.length ≤ L.keyW) (hw : L.keyW = L.titleFrom) (ht : Trimmed t)
    (hn : (natToDec n).length ≤ L.keyW - key.length) :
    strip (sliceFrom L.titleFrom (key ++ ((rjust (L.keyW - key.length) (natToDec n) ++ [' ']) ++ (t ++ ['\n'])))) = t := by
  have e : key ++ ((rjust (L.keyW - key.length) (natToDec n) ++ [' ']) ++ (t ++ ['\n']))
      = (key ++ rjust (L.keyW - key.length) (natToDec n)) ++ ([' '] ++ (t ++ ['\n'])) := by simp
  rw [e, sliceFrom_append _ _ _ (by rw [List.length_append, length_rjust _ _ hn]; omega)]
  exact strip_pad [' '] t ['\n'] (by decide) allWs_nl ht

/-- the reader over the records of one multi-line value: every line is appended, in order -/
theorem loop_multi (T : Tables) (L : Layout) (key : Str) (hk : key.length ≤ L.keyW) (hw : L.keyW = L.titleFrom)
    (upd : St → Str → St)
    (hstep : ∀ st filler t, strip (sliceFrom L.titleFrom (key ++ (filler ++ (t ++ ['\n'])))) = t →
      step T L st (key ++ (filler ++ (t ++ ['\n']))) = .ok (upd st t, false)) :
    ∀ (ls : List Str) (k : Nat) (st : St) (rest : List Str), (∀ l ∈ ls, Trimmed l) → k + ls.length < 10 ^ (L.keyW - key.length) →
    0 < L.keyW - key.length →
    loop T L st (multiFrom L key k ls ++ rest) = loop T L (ls.foldl upd st) rest := by
  intro ls; induction ls with
  | nil => intro k st rest _ _ _; rfl
  | cons l ls ih =>
    intro k st rest ht hn hpos
    have hfit : (natToDec (k + 1)).length ≤ L.keyW - key.length :=
      length_natToDec_le _ _ (by simp at hn; omega) hpos
    have hs := strip_cont L key l (k + 1) hk hw (ht l List.mem_cons_self) hfit
    have h1 := hstep st _ l hs
    have e : contPrefix L key (k + 1) ++ (l ++ ['\n']) = key ++ ((rjust (L.keyW - key.length) (natToDec (k + 1)) ++ [' ']) ++ (l ++ ['\n'])) := by
      simp [contPrefix]
    simp only [multiFrom, List.cons_append, loop, e, h1, List.foldl_cons]
    exact ih (k + 1) _ rest (fun x hx => ht x (List.mem_cons_of_mem _ hx)) (by simp at hn; omega) hpos

theorem loop_multiLines (T : Tables) (L : Layout) (key : Str) (hk : key.length < L.keyW) (hw : L.keyW = L.titleFrom)
    (upd : St → Str → St)
    (hstep : ∀ st filler t, strip (sliceFrom L.titleFrom (key ++ (filler ++ (t ++ ['\n'])))) = t →
      step T L st (key ++ (filler ++ (t ++ ['\n']))) = .ok (upd st t, false))
    (value : Str) (hv : okLines (L.keyW - key.length) value = true) (st : St) (rest : List Str) :
    loop T L st (multiLines L key value ++ rest) = loop T L ((splitNl value).foldl upd st) rest := by
  obtain ⟨ht, hn⟩ := okLines_spec hv
  unfold multiLines
  cases hsp : splitNl value with
  | nil => rfl
  | cons l ls =>
    rw [hsp] at ht hn
    have hs := strip_first L key l (by omega) hw (ht l List.mem_cons_self)
    have h1 := hstep st _ l hs
    have e : ljust L.keyW key ++ (l ++ ['\n']) = key ++ (spaces (L.keyW - key.length) ++ (l ++ ['\n'])) := by simp [ljust]
    simp only [List.cons_append, loop, e, h1, List.foldl_cons]
    exact loop_multi T L key (by omega) hw upd hstep ls 1 _ rest (fun x hx => ht x (List.mem_cons_of_mem _ hx))
      (by simp at hn; omega) (by omega)

theorem foldl_titles (ls : List Str) (st : St) :
    ls.foldl (fun (s : St) t => { s with titles := s.titles ++ [t] }) st = { st with titles := st.titles ++ ls } := by
  induction ls generalizing st with
  | nil => simp
  | cons l ls ih => simp [ih, List.append_assoc]

theorem foldl_compnds (ls : List Str) (st : St) :
    ls.foldl (fun (s : St) t => { s with compnds := s.compnds ++ [t] }) st = { st with compnds := st.compnds ++ ls } := by
  induction ls generalizing st with
  | nil => simp
  | cons l ls ih => simp [ih, List.append_assoc]

theorem conn_nil_mem (n : Nat) (x : List Nat × Nat) (h : x ∈ (connections n []).zipIdx) : x.1 = [] := by
  have := List.fst_mem_of_mem_zipIdx h
  simp [connections] at this
  exact this.2

theorem step_atom (T : Tables) (L : Layout) (hL : LayoutOK L) (st : St) (serial : Nat) (a : Atom)
    (hser : (natToDec serial).length ≤ L.serialW) (ha : AtomOK T L a) :
    step T L st (dumpAtom T L serial a) = .ok ({ st with atoms := st.atoms ++ [a] }, false) := by
  have hp := parseAtom_dumpAtom T L hL serial a hser ha
  have e : dumpAtom T L serial a = 'A' :: 'T' :: 'O' :: 'M' :: ' ' :: ' ' :: (atomFields T L serial a).tail.flatten := by
    simp [dumpAtom, atomFields, recAtom]
  simp only [step, hp]
  rw [e]
  simp [startsWith, kTitle, kCompnd, kAtom, kHetatm, kConect, kEnd]

theorem step_end (T : Tables) (L : Layout) (st : St) :
    step T L st recEnd = .ok (st, !st.atoms.isEmpty) := by
  simp [step, startsWith, recEnd, kTitle, kCompnd, kAtom, kHetatm, kConect, kEnd]

theorem loop_atoms (T : Tables) (L : Layout) (hL : LayoutOK L) (hw : 0 < L.serialW) (atoms : List Atom) :
    ∀ (st : St) (k : Nat) (rest : List Str), k + atoms.length < 10 ^ L.serialW → (∀ a ∈ atoms, AtomOK T L a) →
    loop T L st (dumpAtomsFrom T L k atoms ++ rest) = loop T L { st with atoms := st.atoms ++ atoms } rest := by
  induction atoms with
  | nil => intro st k rest _ _; simp [dumpAtomsFrom]
  | cons a as ih =>
    intro st k rest hk hok
    have hser : (natToDec (k + 1)).length ≤ L.serialW :=
      length_natToDec_le _ _ (by simp at hk; omega) hw
    have h1 := step_atom T L hL st (k + 1) a hser (hok a List.mem_cons_self)
    simp only [dumpAtomsFrom, List.cons_append, loop, h1]
    rw [ih _ (k + 1) rest (by simp at hk; omega) (fun x hx => hok x (List.mem_cons_of_mem _ hx))]
    simp

theorem normBonds_nil (n : Nat) : normBonds n [] = [] := by
  unfold normBonds
  rw [List.flatMap_eq_nil_iff]
  intro x hx
  have := conn_nil_mem n x hx
  obtain ⟨cs, a⟩ := x
  simp only at this
  subst this; rfl

theorem dumpConect_nil (L : Layout) (n : Nat) : dumpConect L n [] = [] := by
  unfold dumpConect
  rw [List.flatMap_eq_nil_iff]
  intro x hx
  have := conn_nil_mem n x hx
  obtain ⟨cs, a⟩ := x
  simp only at this
  subst this; rfl

/-! ### C15 -/

/-- the object written on the second save: what the first reload returned (chain ids, if any, kept) -/
def Loaded.obj (x : Loaded) : Obj := ⟨x.title, x.atoms, x.bonds, x.compound⟩

theorem outTitle_idem (L : Layout) (hL : LayoutOK L) (t : Str) : outTitle L (outTitle L t) = outTitle L t := by
  unfold outTitle
  by_cases h : t.isEmpty = true
  · have : L.defaultTitle.isEmpty = false := by
      cases e : L.defaultTitle with
      | nil => exact absurd e hL.2.1
      | cons _ _ => rfl
    simp [h, this]
  · simp [h]

end Iodata.Fmt.Pdb
