/- FCIDUMP index layer: the canonical loop writes a representative of every orbit, the 8-fold fill restores the array. -/
import Iodata.Lemmas.Helpers
import Iodata.Model.Fmt.Fcidump
namespace Iodata.Fmt.Fcidump
open Iodata.Helpers

theorem setFour_mem {α : Type} (a : Idx → α) (i j k l : Nat) (v : α) (p : Idx) :
    setFour a i j k l v p = if p ∈ written i j k l then v else a p := by
  unfold setFour; rw [foldl_update]

/-- an 8-fold symmetric array -/
def Sym {α : Type} (T : Idx → α) : Prop := (∀ p, T (swapE p) = T p) ∧ (∀ p, T (swap1 p) = T p) ∧ (∀ p, T (swap2 p) = T p)

theorem sym_written {α : Type} (T : Idx → α) (h : Sym T) (i j k l : Nat) (p : Idx) (hp : p ∈ written i j k l) :
    T p = T (i, j, k, l) := by
  obtain ⟨hE, h1, h2⟩ := h
  simp only [written, List.mem_cons, List.not_mem_nil, or_false] at hp
  rcases hp with rfl | rfl | rfl | rfl | rfl | rfl | rfl | rfl
  · rfl
  · exact hE (i, j, k, l)
  · exact h1 (i, j, k, l)
  · exact h2 (i, j, k, l)
  · have := h2 (swap1 (i, j, k, l)); simp only [swap1, swap2] at this; rw [this]; exact h1 (i, j, k, l)
  · have a := hE (swap2 (swap1 (i, j, k, l))); have b := h2 (swap1 (i, j, k, l))
    simp only [swap1, swap2, swapE] at a b; rw [a, b]; exact h1 (i, j, k, l)
  · have a := h2 (swapE (i, j, k, l)); simp only [swap2, swapE] at a; rw [a]; exact hE (i, j, k, l)
  · have a := h1 (swapE (i, j, k, l)); simp only [swap1, swapE] at a; rw [a]; exact hE (i, j, k, l)

/-- after reading any list of lines whose values are the array's own elements, every position holds its own element
or is still zero -/
theorem fill_inv {α : Type} (zero : α) (T : Idx → α) (h : Sym T) (es : List (Entry α))
    (hv : ∀ e ∈ es, e.v = T (e.i0, e.i2, e.i1, e.i3)) :
    ∀ (a : Idx → α), (∀ p, a p = T p ∨ (a p = zero ∧ True)) →
    ∀ p, (es.foldl (fun a e => setFour a e.i0 e.i2 e.i1 e.i3 e.v) a) p = T p ∨
         ((es.foldl (fun a e => setFour a e.i0 e.i2 e.i1 e.i3 e.v) a) p = zero ∧ a p = zero ∧
          ∀ e ∈ es, p ∉ written e.i0 e.i2 e.i1 e.i3) := by
  induction es with
  | nil =>
    intro a ha p
    rcases ha p with h1 | h1
    · exact Or.inl h1
    · exact Or.inr ⟨h1.1, h1.1, fun _ he => by cases he⟩
  | cons e es ih =>
    intro a ha p
    have hve := hv e List.mem_cons_self
    have ha' : ∀ q, setFour a e.i0 e.i2 e.i1 e.i3 e.v q = T q ∨ (setFour a e.i0 e.i2 e.i1 e.i3 e.v q = zero ∧ True) := by
      intro q
      rw [setFour_mem]
      by_cases hq : q ∈ written e.i0 e.i2 e.i1 e.i3
      · simp only [hq, if_true]
        exact Or.inl (by rw [hve, sym_written T h _ _ _ _ q hq])
      · simp only [hq, if_false]
        exact ha q
    rcases ih (fun x hx => hv x (List.mem_cons_of_mem _ hx)) _ ha' p with h1 | ⟨h1, h2, h3⟩
    · exact Or.inl h1
    · by_cases hq : p ∈ written e.i0 e.i2 e.i1 e.i3
      · left
        simp only [List.foldl_cons]
        -- the position was written by `e` with its own element, and no later line touches it
        rw [setFour_mem] at h2
        simp only [hq, if_true] at h2
        rw [h1, ← h2, hve, sym_written T h _ _ _ _ p hq]
      · right
        rw [setFour_mem] at h2
        simp only [hq, if_false] at h2
        refine ⟨h1, h2, ?_⟩
        intro x hx
        rcases List.mem_cons.mp hx with rfl | hx
        · exact hq
        · exact h3 x hx

/-- chemists' canonical representative of the physicists' position `<ab|cd>` -/
def canon (p : Idx) : Nat × Nat × Nat × Nat :=
  let a := p.1; let b := p.2.1; let c := p.2.2.1; let d := p.2.2.2
  let i0 := max a c; let i1 := min a c; let i2 := max b d; let i3 := min b d
  if tri i0 + i1 ≥ tri i2 + i3 then (i0, i1, i2, i3) else (i2, i3, i0, i1)

theorem canon_spec (p : Idx) (n : Nat) (hp : p.1 < n ∧ p.2.1 < n ∧ p.2.2.1 < n ∧ p.2.2.2 < n) :
    let c := canon p
    c.1 < n ∧ c.2.1 ≤ c.1 ∧ c.2.2.1 < n ∧ c.2.2.2 ≤ c.2.2.1 ∧ tri c.1 + c.2.1 ≥ tri c.2.2.1 + c.2.2.2 ∧
    p ∈ written c.1 c.2.2.1 c.2.1 c.2.2.2 := by
  obtain ⟨a, b, c, d⟩ := p
  simp only at hp
  have key : ∀ (i0 i1 i2 i3 : Nat), max a c = i0 → min a c = i1 → max b d = i2 → min b d = i3 →
      (a, b, c, d) ∈ written i0 i2 i1 i3 → (a, b, c, d) ∈ written i2 i0 i3 i1 →
      i0 < n → i1 ≤ i0 → i2 < n → i3 ≤ i2 →
      (let c' := canon (a, b, c, d)
       c'.1 < n ∧ c'.2.1 ≤ c'.1 ∧ c'.2.2.1 < n ∧ c'.2.2.2 ≤ c'.2.2.1 ∧ tri c'.1 + c'.2.1 ≥ tri c'.2.2.1 + c'.2.2.2 ∧
       (a, b, c, d) ∈ written c'.1 c'.2.2.1 c'.2.1 c'.2.2.2) := by
    intro i0 i1 i2 i3 e0 e1 e2 e3 w1 w2 h0 h1 h2 h3
    by_cases ht : tri i0 + i1 ≥ tri i2 + i3
    · have : canon (a, b, c, d) = (i0, i1, i2, i3) := by simp only [canon, e0, e1, e2, e3, ht, if_true]
      rw [this]; exact ⟨h0, h1, h2, h3, ht, w1⟩
    · have : canon (a, b, c, d) = (i2, i3, i0, i1) := by simp only [canon, e0, e1, e2, e3, ht, if_false]
      rw [this]; exact ⟨h2, h3, h0, h1, by simp only; omega, w2⟩
  by_cases hac : a ≤ c <;> by_cases hbd : b ≤ d
  · exact key c a d b (Nat.max_eq_right hac) (Nat.min_eq_left hac) (Nat.max_eq_right hbd) (Nat.min_eq_left hbd)
      (by simp [written]) (by simp [written]) hp.2.2.1 hac hp.2.2.2 hbd
  · exact key c a b d (Nat.max_eq_right hac) (Nat.min_eq_left hac) (Nat.max_eq_left (by omega)) (Nat.min_eq_right (by omega))
      (by simp [written]) (by simp [written]) hp.2.2.1 hac hp.2.1 (by omega)
  · exact key a c d b (Nat.max_eq_left (by omega)) (Nat.min_eq_right (by omega)) (Nat.max_eq_right hbd) (Nat.min_eq_left hbd)
      (by simp [written]) (by simp [written]) hp.1 (by omega) hp.2.2.2 hbd
  · exact key a c b d (Nat.max_eq_left (by omega)) (Nat.min_eq_right (by omega)) (Nat.max_eq_left (by omega)) (Nat.min_eq_right (by omega))
      (by simp [written]) (by simp [written]) hp.1 (by omega) hp.2.1 (by omega)

theorem mem_entries {α : Type} [DecidableEq α] (zero : α) (n : Nat) (T : Idx → α) (e : Entry α) :
    e ∈ entries zero n T ↔ e.i0 < n ∧ e.i1 ≤ e.i0 ∧ e.i2 < n ∧ e.i3 ≤ e.i2 ∧ tri e.i0 + e.i1 ≥ tri e.i2 + e.i3 ∧
      T (e.i0, e.i2, e.i1, e.i3) ≠ zero ∧ e.v = T (e.i0, e.i2, e.i1, e.i3) := by
  obtain ⟨v, i0, i1, i2, i3⟩ := e
  simp only [entries, List.mem_flatMap, List.mem_range, List.mem_filterMap]
  constructor
  · rintro ⟨a, ha, b, hb, c, hc, d, hd, h⟩
    split at h
    · rename_i hc2
      simp only [Option.some.injEq, Entry.mk.injEq] at h
      obtain ⟨rfl, rfl, rfl, rfl, rfl⟩ := h
      exact ⟨ha, by omega, hc, by omega, hc2.1, hc2.2, rfl⟩
    · cases h
  · rintro ⟨h0, h1, h2, h3, h4, h5, h6⟩
    refine ⟨i0, h0, i1, by omega, i2, h2, i3, by omega, ?_⟩
    simp [h4, h5, h6]

/-- C02 at the index layer: the array rebuilt by the reader from the lines of the writer's canonical loop is the array that
was written, position by position — for every size, every 8-fold symmetric array, zero elements skipped. -/
theorem fill_entries {α : Type} [DecidableEq α] (zero : α) (n : Nat) (T : Idx → α) (h : Sym T) (p : Idx)
    (hp : p.1 < n ∧ p.2.1 < n ∧ p.2.2.1 < n ∧ p.2.2.2 < n) : fill zero (entries zero n T) p = T p := by
  have hv : ∀ e ∈ entries zero n T, e.v = T (e.i0, e.i2, e.i1, e.i3) := fun e he => ((mem_entries zero n T e).mp he).2.2.2.2.2.2
  rcases fill_inv zero T h (entries zero n T) hv (fun _ => zero) (fun q => Or.inr ⟨rfl, trivial⟩) p with h1 | ⟨h1, _, h3⟩
  · exact h1
  · -- not covered by any written line: the canonical element is zero, hence so is `T p`
    obtain ⟨c0, c1, c2, c3, c4, c5⟩ := canon_spec p n hp
    unfold fill; rw [h1]
    by_cases hz : T ((canon p).1, (canon p).2.2.1, (canon p).2.1, (canon p).2.2.2) = zero
    · rw [sym_written T h _ _ _ _ p c5, hz]
    · exfalso
      exact h3 ⟨T ((canon p).1, (canon p).2.2.1, (canon p).2.1, (canon p).2.2.2), (canon p).1, (canon p).2.1, (canon p).2.2.1, (canon p).2.2.2⟩
        ((mem_entries zero n T _).mpr ⟨c0, c1, c2, c3, c4, hz, rfl⟩) c5

/-- outside the written orbits nothing is touched: positions with an index ≥ n stay zero (no out-of-range write) -/
theorem entries_in_range {α : Type} [DecidableEq α] (zero : α) (n : Nat) (T : Idx → α) (e : Entry α) (he : e ∈ entries zero n T) :
    e.i0 < n ∧ e.i1 < n ∧ e.i2 < n ∧ e.i3 < n := by
  have := (mem_entries zero n T e).mp he
  omega

end Iodata.Fmt.Fcidump

namespace Iodata.Fmt.Fcidump
open Iodata.Helpers

theorem flatMap_congr_mem {α β} {l : List α} {f g : α → List β} (h : ∀ x ∈ l, f x = g x) : l.flatMap f = l.flatMap g := by
  induction l with
  | nil => rfl
  | cons a l ih =>
    simp only [List.flatMap_cons, h a List.mem_cons_self, ih (fun x hx => h x (List.mem_cons_of_mem _ hx))]

theorem filterMap_congr_mem {α β} {l : List α} {f g : α → Option β} (h : ∀ x ∈ l, f x = g x) : l.filterMap f = l.filterMap g := by
  induction l with
  | nil => rfl
  | cons a l ih =>
    simp only [List.filterMap_cons, h a List.mem_cons_self, ih (fun x hx => h x (List.mem_cons_of_mem _ hx))]

/-- the written lines depend only on the elements inside the array -/
theorem entries_congr {α : Type} [DecidableEq α] (zero : α) (n : Nat) (T T' : Idx → α)
    (h : ∀ p : Idx, p.1 < n ∧ p.2.1 < n ∧ p.2.2.1 < n ∧ p.2.2.2 < n → T' p = T p) :
    entries zero n T' = entries zero n T := by
  unfold entries
  apply flatMap_congr_mem; intro i0 h0
  apply flatMap_congr_mem; intro i1 h1
  apply flatMap_congr_mem; intro i2 h2
  apply filterMap_congr_mem; intro i3 h3
  have h0' := List.mem_range.mp h0; have h1' := List.mem_range.mp h1
  have h2' := List.mem_range.mp h2; have h3' := List.mem_range.mp h3
  rw [h (i0, i2, i1, i3) ⟨h0', h2', by simp only; omega, by simp only; omega⟩]

/-- C15 at the index layer: the array reloaded from the file writes the same lines again -/
theorem entries_fill {α : Type} [DecidableEq α] (zero : α) (n : Nat) (T : Idx → α) (h : Sym T) :
    entries zero n (fill zero (entries zero n T)) = entries zero n T :=
  entries_congr zero n T _ (fun p hp => fill_entries zero n T h p hp)

end Iodata.Fmt.Fcidump
