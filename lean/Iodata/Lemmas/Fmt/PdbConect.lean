/- PDB: the CONECT writer/reader loop (both directions, chunks of four, de-duplication) and whole files with bonds. -/
import Iodata.Lemmas.Fmt.Pdb
namespace Iodata.Fmt.Pdb
open Iodata.Chars Iodata.Decimal Iodata.Fmt

theorem strip_allWs (s : Str) (h : AllWs s) : strip s = [] := by
  have := lstrip_allWs_append s [] h
  simp only [List.append_nil] at this
  unfold strip; rw [this]; rfl

theorem allWs_slice_tail (pre : Str) (q b : Nat) (h : pre.length ≤ q) : AllWs (slice q b (pre ++ ['\n'])) := by
  intro c hc
  unfold slice at hc
  have h1 := List.mem_of_mem_take hc
  rw [List.drop_append, List.drop_eq_nil_of_le h, List.nil_append] at h1
  have h2 := List.mem_of_mem_drop h1
  simp at h2; subst h2; decide

/-- positions after the last partner: the reader finds blanks (`"\n"` or nothing) and skips them -/
theorem conect_tail (a : Int) (pre : Str) (w : Nat) : ∀ n q, pre.length ≤ q →
    (colsFrom q w n).foldr (conectField a (pre ++ ['\n'])) (.ok []) = .ok [] := by
  intro n; induction n with
  | zero => intro q _; rfl
  | succ n ih =>
    intro q hq
    simp only [colsFrom, List.foldr_cons, ih (q + w) (by omega)]
    simp [conectField, sl, strip_allWs _ (allWs_slice_tail pre q (q + w) hq)]

theorem strip_rjust_nat (w n : Nat) : strip (rjust w (natToDec n)) = natToDec n := by
  have := strip_noWs_pad (spaces (w - (natToDec n).length)) (natToDec n) [] (allWs_spaces _) allWs_nil
    (allDigits_natToDec n).noWs
  simpa [rjust] using this

theorem pyInt_natToDec (n : Nat) : pyInt (natToDec n) = some (n : Int) := by
  have := pyInt_intToDec [] [] (Int.ofNat n) allWs_nil allWs_nil
  simpa [intToDec] using this

/-- the partner fields of one CONECT record, cut by consecutive columns: the larger partners, in order -/
theorem conect_fields (a w : Nat) : ∀ (others : List Nat) (n : Nat) (pre : Str), others.length ≤ n →
    (∀ b ∈ others, (natToDec (b + 1)).length ≤ w) →
    (colsFrom pre.length w n).foldr
      (conectField (a : Int) (pre ++ ((others.map fun b => rjust w (natToDec (b + 1))).flatten ++ ['\n']))) (.ok [])
      = .ok ((others.filter (a < ·)).map fun b => (a, b)) := by
  intro others; induction others with
  | nil => intro n pre _ _; simpa using conect_tail a pre w n pre.length (Nat.le_refl _)
  | cons b bs ih =>
    intro n pre hn hfit
    obtain ⟨m, rfl⟩ : ∃ m, n = m + 1 := ⟨n - 1, by simp at hn; omega⟩
    have hb : (rjust w (natToDec (b + 1))).length = w := length_rjust _ _ (hfit b List.mem_cons_self)
    have hline : pre ++ (((b :: bs).map fun b => rjust w (natToDec (b + 1))).flatten ++ ['\n'])
        = (pre ++ rjust w (natToDec (b + 1))) ++ ((bs.map fun b => rjust w (natToDec (b + 1))).flatten ++ ['\n']) := by
      simp
    have hrec := ih m (pre ++ rjust w (natToDec (b + 1))) (by simp at hn; omega)
      (fun x hx => hfit x (List.mem_cons_of_mem _ hx))
    rw [List.length_append, hb] at hrec
    simp only [colsFrom, List.foldr_cons]
    rw [hline, hrec]
    have hs : sl (pre.length, pre.length + w)
        ((pre ++ rjust w (natToDec (b + 1))) ++ ((bs.map fun b => rjust w (natToDec (b + 1))).flatten ++ ['\n']))
        = rjust w (natToDec (b + 1)) := by
      rw [List.append_assoc]
      exact slice_mid _ _ _ _ _ rfl (by omega)
    have hne : (natToDec (b + 1)).isEmpty = false := by
      cases e : natToDec (b + 1) with
      | nil => exact absurd e (natToDec_ne_nil _)
      | cons _ _ => rfl
    simp only [conectField, hs, strip_rjust_nat, hne, pyInt_natToDec]
    by_cases hab : a < b
    · have h1 : (a : Int) < ((b + 1 : Nat) : Int) - 1 := by omega
      have h2 : (((b + 1 : Nat) : Int) - 1).toNat = b := by omega
      simp [hab]
    · have h1 : ¬ (a : Int) < ((b + 1 : Nat) : Int) - 1 := by omega
      simp [hab]

/-- one CONECT record with at most four partners is read as the bonds to the larger partners -/
theorem parseConect_conectLine (L : Layout) (hC : ConectOK L) (a : Nat) (others : List Nat)
    (ha : (natToDec (a + 1)).length ≤ L.conW) (hlen : others.length ≤ 4)
    (hfit : ∀ b ∈ others, (natToDec (b + 1)).length ≤ L.conW) :
    parseConect L (conectLine L a others) = .ok ((others.filter (a < ·)).map fun b => (a, b)) := by
  obtain ⟨eS, eO, _⟩ := hC
  have hf : (rjust L.conW (natToDec (a + 1))).length = L.conW := length_rjust _ _ ha
  have hser : sl L.cSerial (conectLine L a others) = rjust L.conW (natToDec (a + 1)) := by
    rw [eS]; unfold conectLine
    exact slice_mid _ _ _ _ _ rfl (by simp [hf])
  have hint : pyInt (rjust L.conW (natToDec (a + 1))) = some ((a + 1 : Nat) : Int) := by
    have := pyInt_rjust L.conW (Int.ofNat (a + 1))
    simpa [intToDec] using this
  unfold parseConect
  rw [hser, hint]
  have e1 : ((a + 1 : Nat) : Int) - 1 = (a : Int) := by omega
  have hline : conectLine L a others = (kConect ++ rjust L.conW (natToDec (a + 1))) ++
      ((others.map fun b => rjust L.conW (natToDec (b + 1))).flatten ++ ['\n']) := by
    simp [conectLine]
  have hpl : (kConect ++ rjust L.conW (natToDec (a + 1))).length = 6 + L.conW := by
    rw [List.length_append, hf]; rfl
  have := conect_fields a L.conW others 4 (kConect ++ rjust L.conW (natToDec (a + 1))) hlen hfit
  rw [hpl] at this
  simp only [e1, eO, hline]
  exact this

theorem flatMap_congr' {α β} {l : List α} {f g : α → List β} (h : ∀ x ∈ l, f x = g x) : l.flatMap f = l.flatMap g := by
  induction l with
  | nil => rfl
  | cons a l ih =>
    simp only [List.flatMap_cons, h a List.mem_cons_self, ih (fun x hx => h x (List.mem_cons_of_mem _ hx))]

/-! ### chunks of four -/

theorem chunk4_spec : ∀ (f : Nat) (l : List Nat), l.length < f →
    (chunk4 f l).flatten = l ∧ ∀ ch ∈ chunk4 f l, ch.length ≤ 4 ∧ ∀ x ∈ ch, x ∈ l := by
  intro f; induction f with
  | zero => intro l h; omega
  | succ f ih =>
    intro l h
    unfold chunk4
    by_cases h4 : l.length < 4
    · simp only [h4, if_true]
      refine ⟨by simp, ?_⟩
      intro ch hch; simp at hch; subst hch
      exact ⟨by omega, fun x hx => hx⟩
    · simp only [h4, if_false]
      have hd : (l.drop 4).length < f := by simp; omega
      obtain ⟨h1, h2⟩ := ih (l.drop 4) hd
      refine ⟨by simp [h1], ?_⟩
      intro ch hch
      rcases List.mem_cons.mp hch with e | hm
      · subst e
        exact ⟨by rw [List.length_take]; omega, fun x hx => List.mem_of_mem_take hx⟩
      · obtain ⟨hl, hx⟩ := h2 ch hm
        exact ⟨hl, fun x hxm => List.mem_of_mem_drop (hx x hxm)⟩

theorem chunks_spec (l : List Nat) :
    (chunks l).flatten = l ∧ ∀ ch ∈ chunks l, ch.length ≤ 4 ∧ ∀ x ∈ ch, x ∈ l :=
  chunk4_spec (l.length + 1) l (by omega)

/-- the bonds read from the records of one atom: `filter`/`map` commute with the chunking -/
theorem chunks_flatMap (a : Nat) (l : List Nat) :
    (chunks l).flatMap (fun ch => (ch.filter (a < ·)).map fun b => (a, b)) = (l.filter (a < ·)).map fun b => (a, b) := by
  have h := (chunks_spec l).1
  generalize chunks l = cs at h
  subst h
  induction cs with
  | nil => rfl
  | cons c cs ih => simp [ih]

/-! ### the reader loop over CONECT records -/

theorem step_conect (T : Tables) (L : Layout) (hC : ConectOK L) (st : St) (a : Nat) (others : List Nat)
    (ha : (natToDec (a + 1)).length ≤ L.conW) (hlen : others.length ≤ 4)
    (hfit : ∀ b ∈ others, (natToDec (b + 1)).length ≤ L.conW) :
    step T L st (conectLine L a others)
      = .ok ({ st with bonds := st.bonds ++ (others.filter (a < ·)).map fun b => (a, b) }, false) := by
  have hp := parseConect_conectLine L hC a others ha hlen hfit
  have e : conectLine L a others = 'C' :: 'O' :: 'N' :: 'E' :: 'C' :: 'T' ::
      (rjust L.conW (natToDec (a + 1)) ++ ((others.map fun b => rjust L.conW (natToDec (b + 1))).flatten ++ ['\n'])) := by
    simp [conectLine, kConect]
  simp only [step, hp]
  rw [e]
  simp [startsWith, kTitle, kCompnd, kAtom, kHetatm, kConect, kEnd]

/-- a CONECT item: atom and one chunk of its partners -/
def ItemOK (L : Layout) (it : Nat × List Nat) : Prop :=
  (natToDec (it.1 + 1)).length ≤ L.conW ∧ it.2.length ≤ 4 ∧ ∀ b ∈ it.2, (natToDec (b + 1)).length ≤ L.conW

def itemBonds (it : Nat × List Nat) : List (Nat × Nat) := (it.2.filter (it.1 < ·)).map fun b => (it.1, b)

theorem loop_conect (T : Tables) (L : Layout) (hC : ConectOK L) (items : List (Nat × List Nat)) :
    ∀ (st : St) (rest : List Str), (∀ it ∈ items, ItemOK L it) →
    loop T L st (items.map (fun it => conectLine L it.1 it.2) ++ rest)
      = loop T L { st with bonds := st.bonds ++ items.flatMap itemBonds } rest := by
  induction items with
  | nil => intro st rest _; simp
  | cons it its ih =>
    intro st rest hok
    obtain ⟨h1, h2, h3⟩ := hok it List.mem_cons_self
    have hs := step_conect T L hC st it.1 it.2 h1 h2 h3
    simp only [List.map_cons, List.cons_append, loop, hs]
    rw [ih _ rest (fun x hx => hok x (List.mem_cons_of_mem _ hx))]
    simp [itemBonds, List.append_assoc]

/-- the CONECT items the writer produces, atom by atom -/
def items (natom : Nat) (bonds : List (Nat × Nat)) : List (Nat × List Nat) :=
  (connections natom bonds).zipIdx.flatMap fun (cs, a) => if cs.isEmpty then [] else (chunks cs).map fun ch => (a, ch)

theorem dumpConect_items (L : Layout) (natom : Nat) (bonds : List (Nat × Nat)) :
    dumpConect L natom bonds = (items natom bonds).map fun it => conectLine L it.1 it.2 := by
  unfold dumpConect items
  rw [List.map_flatMap]
  apply flatMap_congr'
  intro x _
  obtain ⟨cs, a⟩ := x
  by_cases h : cs.isEmpty = true <;> simp [h]

theorem items_bonds (natom : Nat) (bonds : List (Nat × Nat)) :
    (items natom bonds).flatMap itemBonds = normBonds natom bonds := by
  unfold items normBonds
  rw [List.flatMap_assoc]
  apply flatMap_congr'
  intro x _
  obtain ⟨cs, a⟩ := x
  by_cases h : cs.isEmpty = true
  · have : cs = [] := by simpa using h
    subst this; simp
  · simp only [h, if_false, Bool.false_eq_true]
    rw [List.flatMap_map]
    exact chunks_flatMap a cs

theorem mem_connections {natom : Nat} {bonds : List (Nat × Nat)} {cs : List Nat} {a : Nat}
    (h : (cs, a) ∈ (connections natom bonds).zipIdx) :
    a < natom ∧ ∀ b ∈ cs, ∃ p ∈ bonds, b = p.1 ∨ b = p.2 := by
  have hm := List.mem_zipIdx h
  simp only [connections, List.length_map, List.length_range, List.getElem_map, List.getElem_range, Nat.zero_add,
    Nat.sub_zero] at hm
  obtain ⟨_, ha, hcs⟩ := hm
  refine ⟨ha, ?_⟩
  intro b hb
  rw [hcs] at hb
  simp only [List.mem_flatMap] at hb
  obtain ⟨p, hp, hb⟩ := hb
  refine ⟨p, hp, ?_⟩
  obtain ⟨i, j⟩ := p
  simp only [partner, List.mem_append] at hb
  rcases hb with hb | hb
  · by_cases e : i = a <;> simp [e] at hb; exact Or.inr hb
  · by_cases e : j = a <;> simp [e] at hb; exact Or.inl hb

theorem items_ok (L : Layout) (natom : Nat) (bonds : List (Nat × Nat)) (hw : 0 < L.conW) (hn : natom < 10 ^ L.conW)
    (hb : ∀ b ∈ bonds, b.1 < natom ∧ b.2 < natom) : ∀ it ∈ items natom bonds, ItemOK L it := by
  intro it hit
  unfold items at hit
  simp only [List.mem_flatMap] at hit
  obtain ⟨x, hx, hit⟩ := hit
  obtain ⟨cs, a⟩ := x
  obtain ⟨ha, hcs⟩ := mem_connections hx
  by_cases h : cs.isEmpty = true
  · simp [h] at hit
  · simp only [h, if_false, Bool.false_eq_true, List.mem_map] at hit
    obtain ⟨ch, hch, rfl⟩ := hit
    obtain ⟨hl, hmem⟩ := (chunks_spec cs).2 ch hch
    refine ⟨length_natToDec_le _ _ (by omega) hw, hl, ?_⟩
    intro b hbm
    obtain ⟨p, hp, e⟩ := hcs b (hmem b hbm)
    have := hb p hp
    exact length_natToDec_le _ _ (by rcases e with e | e <;> omega) hw

/-- C02 for PDB, whole files: multi-line TITLE / COMPND records, ATOM records, CONECT records -/
theorem load_dump_bonds (T : Tables) (L : Layout) (hL : LayoutOK L) (hC : ConectOK L) (o : Obj) (h : DomB T L o) :
    load T L (dump T L o) = .ok (norm L o) := by
  obtain ⟨ht, hcp, hne, hn, hw, hat, hcn, hcw, hb⟩ := h
  have hkw : L.keyW = L.titleFrom := hC.2.2
  have hk10 : L.keyW = 10 := by rw [hkw]; exact hL.2.2.2.1
  have htt := okTitle_outTitle L hL o.title ht
  have hT := loop_multiLines T L kTitle (by rw [hk10]; decide) hkw
    (fun (s : St) t => { s with titles := s.titles ++ [t] }) (fun st filler t hs => step_titleX T L st filler t hs)
    (outTitle L o.title) htt ⟨[], [], [], []⟩
  have hempty : o.atoms.isEmpty = false := by
    cases e : o.atoms with
    | nil => exact absurd e hne
    | cons _ _ => rfl
  have htne : (splitNl (outTitle L o.title)).isEmpty = false := by
    cases e : splitNl (outTitle L o.title) with
    | nil => exact absurd e (splitNl_ne_nil _)
    | cons _ _ => rfl
  unfold load dump
  rw [hT, foldl_titles]
  simp only [List.nil_append]
  cases hcomp : o.compound with
  | none =>
    have hl := loop_atoms T L hL hw o.atoms ⟨splitNl (outTitle L o.title), [], [], []⟩ 0
      (dumpConect L o.atoms.length o.bonds ++ [recEnd]) (by simpa using hn) hat
    have hc := loop_conect T L hC (items o.atoms.length o.bonds) ⟨splitNl (outTitle L o.title), [], o.atoms, []⟩ [recEnd]
      (items_ok L _ _ hcw hcn hb)
    simp only [List.nil_append]
    rw [hl]
    simp only [List.nil_append, dumpConect_items]
    rw [hc]
    simp only [loop, step_end, List.nil_append, hempty, Bool.not_false, items_bonds, htne, joinNl_splitNl]
    simp [norm, hcomp]
  | some c =>
    rw [hcomp] at hcp
    have hCm := loop_multiLines T L kCompnd (by rw [hk10]; decide) hkw
      (fun (s : St) t => { s with compnds := s.compnds ++ [t] }) (fun st filler t hs => step_compndX T L st filler t hs)
      c hcp ⟨splitNl (outTitle L o.title), [], [], []⟩
    have hcne : (splitNl c).isEmpty = false := by
      cases e : splitNl c with
      | nil => exact absurd e (splitNl_ne_nil _)
      | cons _ _ => rfl
    have hl := loop_atoms T L hL hw o.atoms ⟨splitNl (outTitle L o.title), splitNl c, [], []⟩ 0
      (dumpConect L o.atoms.length o.bonds ++ [recEnd]) (by simpa using hn) hat
    have hc := loop_conect T L hC (items o.atoms.length o.bonds) ⟨splitNl (outTitle L o.title), splitNl c, o.atoms, []⟩ [recEnd]
      (items_ok L _ _ hcw hcn hb)
    simp only []
    rw [hCm, foldl_compnds]
    simp only [List.nil_append]
    rw [hl]
    simp only [List.nil_append, dumpConect_items]
    rw [hc]
    simp only [loop, step_end, List.nil_append, hempty, Bool.not_false, items_bonds, htne, hcne, joinNl_splitNl]
    simp [norm, hcomp]

/-! ### C15: the de-duplicated bond list is a fixed point -/

def connAt (bonds : List (Nat × Nat)) (a : Nat) : List Nat := bonds.flatMap (partner a)

/-- partners of `a` with a larger index, in the order the writer meets them -/
def upper (bonds : List (Nat × Nat)) (a : Nat) : List Nat := (connAt bonds a).filter (a < ·)

theorem zipIdx_map_range {β} (f : Nat → β) (n : Nat) :
    ((List.range n).map f).zipIdx = (List.range n).map fun a => (f a, a) := by
  apply List.ext_getElem
  · simp
  · intro i h1 h2; simp

theorem normBonds_eq (n : Nat) (bonds : List (Nat × Nat)) :
    normBonds n bonds = (List.range n).flatMap fun a => (upper bonds a).map fun b => (a, b) := by
  unfold normBonds connections
  rw [zipIdx_map_range, List.flatMap_map]
  rfl

theorem flatMap_range_single {β} (X : List β) (c : Nat) : ∀ n, c < n →
    ((List.range n).flatMap fun a => if a = c then X else []) = X := by
  intro n; induction n with
  | zero => intro h; omega
  | succ n ih =>
    intro h
    rw [List.range_succ, List.flatMap_append]
    by_cases e : c = n
    · subst e
      have : ((List.range c).flatMap fun a => if a = c then X else []) = [] := by
        rw [List.flatMap_eq_nil_iff]; intro a ha
        have := List.mem_range.mp ha
        simp; omega
      simp [this]
    · rw [ih (by omega)]
      have : n ≠ c := fun h => e h.symm
      simp [this]

theorem upper_gt (bonds : List (Nat × Nat)) (a b : Nat) (h : b ∈ upper bonds a) : a < b := by
  unfold upper at h; simpa using (List.mem_filter.mp h).2

theorem upper_normBonds (n : Nat) (bonds : List (Nat × Nat)) (c : Nat) (hc : c < n) :
    upper (normBonds n bonds) c = upper bonds c := by
  have key : ∀ a, (((upper bonds a).map fun b => (a, b)).flatMap (partner c)).filter (c < ·)
      = if a = c then upper bonds c else [] := by
    intro a
    rw [List.flatMap_map, List.filter_flatMap]
    by_cases e : a = c
    · subst e
      have : ∀ b ∈ upper bonds a, ((partner a (a, b)).filter (a < ·)) = [b] := by
        intro b hb
        have := upper_gt bonds a b hb
        have hne : b ≠ a := by omega
        simp [partner, hne, this]
      rw [flatMap_congr' this]
      simp
    · simp only [e, if_false]
      rw [List.flatMap_eq_nil_iff]
      intro b hb
      have := upper_gt bonds a b hb
      by_cases e2 : b = c
      · subst e2; simp [partner, e]; omega
      · simp [partner, e, e2]
  rw [normBonds_eq]
  change (((List.range n).flatMap fun a => (upper bonds a).map fun b => (a, b)).flatMap (partner c)).filter (c < ·) = _
  rw [List.flatMap_assoc, List.filter_flatMap, flatMap_congr' (fun a _ => key a)]
  exact flatMap_range_single _ c n hc

/-- bonds → CONECT records → bonds is idempotent -/
theorem normBonds_idem (n : Nat) (bonds : List (Nat × Nat)) : normBonds n (normBonds n bonds) = normBonds n bonds := by
  rw [normBonds_eq n (normBonds n bonds), normBonds_eq n bonds]
  apply flatMap_congr'
  intro a ha
  rw [← normBonds_eq, upper_normBonds n bonds a (List.mem_range.mp ha)]

theorem normBonds_lt (n : Nat) (bonds : List (Nat × Nat)) (hb : ∀ b ∈ bonds, b.1 < n ∧ b.2 < n) :
    ∀ b ∈ normBonds n bonds, b.1 < n ∧ b.2 < n := by
  intro p hp
  unfold normBonds at hp
  simp only [List.mem_flatMap] at hp
  obtain ⟨x, hx, hp⟩ := hp
  obtain ⟨cs, a⟩ := x
  obtain ⟨ha, hcs⟩ := mem_connections hx
  simp only [List.mem_map, List.mem_filter] at hp
  obtain ⟨b, ⟨hbm, _⟩, rfl⟩ := hp
  obtain ⟨q, hq, e⟩ := hcs b hbm
  have := hb q hq
  exact ⟨ha, by rcases e with e | e <;> omega⟩

theorem norm_idem_bonds (L : Layout) (hL : LayoutOK L) (o : Obj) : norm L (norm L o).obj = norm L o := by
  simp [norm, Loaded.obj, outTitle_idem L hL, normBonds_idem]

theorem domB_norm (T : Tables) (L : Layout) (hL : LayoutOK L) (o : Obj) (h : DomB T L o) : DomB T L (norm L o).obj := by
  obtain ⟨ht, hcp, hne, hn, hw, hat, hcn, hcw, hb⟩ := h
  exact ⟨okTitle_outTitle L hL o.title ht, hcp, hne, hn, hw, hat, hcn, hcw, normBonds_lt _ _ hb⟩

end Iodata.Fmt.Pdb
