/- GRO: an atom record in the published columns is cut into its fields (decimal-point rule for the width included). -/
import Iodata.Lemmas.Fmt.Core
import Iodata.Model.Fmt.Gro
namespace Iodata.Fmt.Gro
open Iodata.Chars Iodata.Decimal Iodata.Fmt

/-! ### finding the decimal points -/

theorem findIdx_append (c : Char) (a r : Str) (h : c ∉ a) : findIdx c (a ++ c :: r) = some a.length := by
  induction a with
  | nil => simp [findIdx]
  | cons x a ih =>
    have hx : (x == c) = false := by
      have : x ≠ c := fun e => h (e ▸ List.mem_cons_self)
      simpa using this
    simp [findIdx, hx, ih (fun hm => h (List.mem_cons_of_mem _ hm))]

theorem dot_not_digits {s : Str} (h : AllDigits s) : '.' ∉ s := fun hc => absurd (h _ hc) (by decide)

theorem dot_not_spaces (n : Nat) : '.' ∉ spaces n := by
  intro h; simp [spaces] at h

/-- a fixed-point field that fits its column: blanks/sign/integer digits (no point), the point, `d` fraction digits -/
theorem fmtFix_shape (w d : Nat) (x : Fx) (hd : 0 < d) (hfit : (fixCore false d x).length ≤ w) :
    ∃ A B, fmtFix false w d x = A ++ '.' :: B ∧ '.' ∉ A ∧ A.length = w - d - 1 ∧ B.length = d ∧ '.' ∉ B ∧ A.length + 1 + d = w := by
  have hdne : d ≠ 0 := by omega
  refine ⟨spaces (w - (fixCore false d x).length) ++ (signStr false x.neg ++ natToDec (x.mag / 10 ^ d)), digitsW d (x.mag % 10 ^ d), ?_, ?_, ?_, ?_, ?_, ?_⟩
  · simp [fmtFix, rjust, fixCore, fixDigits, hdne]
  · intro h
    rcases List.mem_append.mp h with h | h
    · exact dot_not_spaces _ h
    · rcases List.mem_append.mp h with h | h
      · unfold signStr at h; cases x.neg <;> simp at h
      · exact dot_not_digits (allDigits_natToDec _) h
  · have : (fixCore false d x).length = (signStr false x.neg).length + (natToDec (x.mag / 10 ^ d)).length + 1 + d := by
      simp [fixCore, fixDigits, hdne, length_digitsW]; omega
    simp [spaces]; omega
  · exact length_digitsW _ _
  · exact dot_not_digits (allDigits_digitsW _ _)
  · have : (fixCore false d x).length = (signStr false x.neg).length + (natToDec (x.mag / 10 ^ d)).length + 1 + d := by
      simp [fixCore, fixDigits, hdne, length_digitsW]; omega
    simp [spaces]; omega

theorem strip_ne_nil (s : Str) (c : Char) (hc : c ∈ s) (hw : isWs c = false) : (strip s).isEmpty = false := by
  have h1 : ∃ x r, lstrip s = x :: r ∧ isWs x = false := by
    induction s with
    | nil => cases hc
    | cons y s ih =>
      by_cases hy : isWs y = true
      · rcases List.mem_cons.mp hc with rfl | hm
        · rw [hy] at hw; cases hw
        · obtain ⟨x, r, e, hx⟩ := ih hm
          exact ⟨x, r, by simp [lstrip, hy] at e ⊢; exact e, hx⟩
      · have hy' : isWs y = false := by simpa using hy
        exact ⟨y, s, by simp [lstrip, hy'], hy'⟩
  obtain ⟨x, r, e, hx⟩ := h1
  unfold strip
  rw [e]
  simp [rstrip, hx]

theorem okName_spec {s : Str} (h : okName s = true) : NoWs s ∧ s ≠ [] ∧ s.length ≤ 5 := by
  simp only [okName, Bool.and_eq_true, decide_eq_true_eq, Bool.not_eq_true'] at h
  exact ⟨h.1.1, by intro e; subst e; simp at h, h.2⟩

theorem words_ljust (w : Nat) (s : Str) (h1 : NoWs s) (h2 : s ≠ []) : splitWs (ljust w s) = [s] := by
  have := splitWs_field [] s (spaces (w - s.length)) allWs_nil h1 h2 (brk_of_allWs (allWs_spaces _))
  simpa [ljust, splitWs_allWs _ (allWs_spaces _)] using this

theorem words_rjust (w : Nat) (s : Str) (h1 : NoWs s) (h2 : s ≠ []) : splitWs (rjust w s) = [s] := by
  have := splitWs_field (spaces (w - s.length)) s [] (allWs_spaces _) h1 h2 brk_nil
  simpa [rjust, splitWs_allWs [] allWs_nil] using this

theorem pyFix_fmt (w d : Nat) (v : Fx) : pyFix d (fmtFix false w d v) = some v := by
  have := pyFix_fmtFix false w d v [] allWs_nil
  simpa using this

theorem pyInt_fmt (w : Nat) (i : Int) : pyInt (fmtInt w i) = some i := by
  have := pyInt_intToDec (spaces (w - (intToDec i).length)) [] i (allWs_spaces _) allWs_nil
  simpa [fmtInt, rjust] using this

theorem length_fmtFix' {w d : Nat} {v : Fx} (h : fits w d v = true) : (fmtFix false w d v).length = w := by
  simp only [fits, decide_eq_true_eq] at h
  exact length_rjust _ _ h

/-- C03 for one GRO atom record: every field is cut at its published columns, the width is recovered from the two
decimal points, velocities are read when present -/
theorem readAtom_specAtom (L : Layout) (hL : LayoutOK L) (d : Nat) (hd : 0 < d) (a : Atom) (ha : AtomOK L d a) :
    readAtom L (specAtom d a) = .ok (normAtom a, d + 5) := by
  obtain ⟨e1, e2, e3, e4⟩ := hL
  obtain ⟨hrn, hrname, haname, hser, hx, hy, hz, hv⟩ := ha
  obtain ⟨n1, n2, n3⟩ := okName_spec hrname
  obtain ⟨m1, m2, m3⟩ := okName_spec haname
  let w := d + 5
  let f0 := fmtInt 5 a.resnum
  let f1 := ljust 5 a.resname
  let f2 := rjust 5 a.atname
  let f3 := fmtInt 5 a.serial
  let fx := fmtFix false w d a.x
  let fy := fmtFix false w d a.y
  let fz := fmtFix false w d a.z
  let V : Str := match a.vel with
    | none => []
    | some (vx, vy, vz) => fmtFix false w (d + 1) vx ++ (fmtFix false w (d + 1) vy ++ fmtFix false w (d + 1) vz)
  have l0 : f0.length = 5 := length_rjust _ _ hrn
  have l1 : f1.length = 5 := length_ljust _ _ n3
  have l2 : f2.length = 5 := length_rjust _ _ m3
  have l3 : f3.length = 5 := length_rjust _ _ hser
  have lx : fx.length = w := length_fmtFix' hx
  have ly : fy.length = w := length_fmtFix' hy
  have lz : fz.length = w := length_fmtFix' hz
  have hline : specAtom d a = [f0, f1, f2, f3, fx, fy, fz, V, ['\n']].flatten := rfl
  have s0 : sl L.sResnum (specAtom d a) = f0 := by
    rw [hline, e1]; exact slice_flatten [] f0 _ _ _ rfl (by simp [l0])
  have s1 : sl L.sResname (specAtom d a) = f1 := by
    rw [hline, e2]; exact slice_flatten [f0] f1 _ _ _ (by simp [l0]) (by simp [l1])
  have s2 : sl L.sAtname (specAtom d a) = f2 := by
    rw [hline, e3]; exact slice_flatten [f0, f1] f2 _ _ _ (by simp [l0, l1]) (by simp [l2])
  obtain ⟨A, B, hfx, hA, lA, lB, hB, _⟩ := fmtFix_shape w d a.x hd (by simpa [fits] using hx)
  obtain ⟨A', B', hfy, hA', lA', _, _, _⟩ := fmtFix_shape w d a.y hd (by simpa [fits] using hy)
  have hfx' : fx = A ++ '.' :: B := hfx
  have hfy' : fy = A' ++ '.' :: B' := hfy
  have lA4 : A.length = 4 := by omega
  have lA4' : A'.length = 4 := by omega
  have hdrop20 : (specAtom d a).drop 20 = A ++ '.' :: (B ++ (fy ++ (fz ++ (V ++ ['\n'])))) := by
    have : specAtom d a = (f0 ++ f1 ++ f2 ++ f3) ++ (fx ++ (fy ++ (fz ++ (V ++ ['\n'])))) := by rw [hline]; simp
    rw [this, List.drop_append_of_le_length (by simp [l0, l1, l2, l3])]
    have : (f0 ++ f1 ++ f2 ++ f3).drop 20 = [] := List.drop_eq_nil_of_le (by simp [l0, l1, l2, l3])
    rw [this, List.nil_append]
    rw [hfx']; simp
  have dot1 : findFrom '.' L.posFrom (specAtom d a) = some 24 := by
    unfold findFrom; rw [e4, hdrop20, findIdx_append '.' A _ hA, lA4]; rfl
  have hdrop25 : (specAtom d a).drop 25 = (B ++ A') ++ '.' :: (B' ++ (fz ++ (V ++ ['\n']))) := by
    have : (specAtom d a).drop 25 = ((specAtom d a).drop 20).drop 5 := by rw [List.drop_drop]
    rw [this, hdrop20]
    have : (A ++ '.' :: (B ++ (fy ++ (fz ++ (V ++ ['\n']))))) = (A ++ ['.']) ++ (B ++ (fy ++ (fz ++ (V ++ ['\n'])))) := by simp
    rw [this, List.drop_append_of_le_length (by simp [lA4])]
    have : (A ++ ['.']).drop 5 = [] := List.drop_eq_nil_of_le (by simp [lA4])
    rw [this, List.nil_append]
    rw [hfy']; simp
  have dot2 : findFrom '.' (24 + 1) (specAtom d a) = some (24 + w) := by
    unfold findFrom
    rw [hdrop25, findIdx_append '.' (B ++ A') _ (by
      intro h; rcases List.mem_append.mp h with h | h
      · exact hB h
      · exact hA' h)]
    simp [lB, lA4']; omega
  have sF : ∀ (pre : List Str) (f : Str) (post : List Str) (j : Nat), pre.flatten.length = 20 + j * w → f.length = w →
      specAtom d a = (pre ++ f :: post).flatten → slice (L.posFrom + j * w) (L.posFrom + (j + 1) * w) (specAtom d a) = f := by
    intro pre f post j hp hf he
    rw [he, e4]
    exact slice_flatten pre f post _ _ hp (by rw [hf]; simp [Nat.add_mul]; omega)
  have sX := sF [f0, f1, f2, f3] fx [fy, fz, V, ['\n']] 0 (by simp [l0, l1, l2, l3]) lx (by rw [hline]; simp)
  have sY := sF [f0, f1, f2, f3, fx] fy [fz, V, ['\n']] 1 (by simp [l0, l1, l2, l3, lx]; omega) ly (by rw [hline]; simp)
  have sZ := sF [f0, f1, f2, f3, fx, fy] fz [V, ['\n']] 2 (by simp [l0, l1, l2, l3, lx, ly]; omega) lz (by rw [hline]; simp)
  have hw : 24 + w - 24 = w := by omega
  have hdd : w - 5 = d := by omega
  have htail : sliceFrom (L.posFrom + 3 * w) (specAtom d a) = V ++ ['\n'] := by
    have : specAtom d a = (f0 ++ f1 ++ f2 ++ f3 ++ fx ++ fy ++ fz) ++ (V ++ ['\n']) := by rw [hline]; simp
    rw [this, e4]
    exact sliceFrom_append _ _ _ (by simp [l0, l1, l2, l3, lx, ly, lz]; omega)
  unfold readAtom
  simp only [s0, s1, s2, f0, f1, f2, pyInt_fmt, words_ljust 5 _ n1 n2, words_rjust 5 _ m1 m2, List.getLast?_singleton, dot1, dot2, hw, hdd,
    sX, sY, sZ, fx, fy, fz, pyFix_fmt, htail]
  cases hvel : a.vel with
  | none =>
    rw [hvel] at hv
    have hV : V = [] := by simp only [V, hvel]
    simp only at hv
    simp [hV, hv, strip, lstrip, rstrip, normAtom, hvel, isWs]
    rfl
  | some v =>
    obtain ⟨vx, vy, vz⟩ := v
    rw [hvel] at hv
    simp only at hv
    obtain ⟨h1, h2, h3⟩ := hv
    have hV : V = fmtFix false w (d + 1) vx ++ (fmtFix false w (d + 1) vy ++ fmtFix false w (d + 1) vz) := by simp only [V, hvel]
    have lvx : (fmtFix false w (d + 1) vx).length = w := length_fmtFix' h1
    have lvy : (fmtFix false w (d + 1) vy).length = w := length_fmtFix' h2
    have lvz : (fmtFix false w (d + 1) vz).length = w := length_fmtFix' h3
    have hne : (strip (V ++ ['\n'])).isEmpty = false := by
      obtain ⟨A2, B2, hs, _, _, _, _, _⟩ := fmtFix_shape w (d + 1) vx (by omega) (by simpa [fits] using h1)
      exact strip_ne_nil _ '.' (by rw [hV, hs]; simp) (by decide)
    have hl2 : specAtom d a = [f0, f1, f2, f3, fx, fy, fz, fmtFix false w (d + 1) vx, fmtFix false w (d + 1) vy, fmtFix false w (d + 1) vz, ['\n']].flatten := by
      rw [hline, hV]; simp
    have sVx := sF [f0, f1, f2, f3, fx, fy, fz] _ [fmtFix false w (d + 1) vy, fmtFix false w (d + 1) vz, ['\n']] 3
      (by simp [l0, l1, l2, l3, lx, ly, lz]; omega) lvx (by rw [hl2]; simp)
    have sVy := sF [f0, f1, f2, f3, fx, fy, fz, fmtFix false w (d + 1) vx] _ [fmtFix false w (d + 1) vz, ['\n']] 4
      (by simp [l0, l1, l2, l3, lx, ly, lz, lvx]; omega) lvy (by rw [hl2]; simp)
    have sVz := sF [f0, f1, f2, f3, fx, fy, fz, fmtFix false w (d + 1) vx, fmtFix false w (d + 1) vy] _ [['\n']] 5
      (by simp [l0, l1, l2, l3, lx, ly, lz, lvx, lvy]; omega) lvz (by rw [hl2]; simp)
    simp [hne, sVx, sVy, sVz, pyFix_fmt, normAtom, hvel]
    rfl

/-! ### whole files -/

theorem hasSub_nl (s : Str) : hasSub tEq (s ++ ['\n']) = hasSub tEq s := by
  induction s with
  | nil => decide
  | cons c cs ih =>
    simp only [List.cons_append, hasSub, ih]
    congr 1
    cases cs with
    | nil => simp [tEq, List.isPrefixOf]
    | cons x r => simp [tEq, List.isPrefixOf]

theorem box_words (box : List Fx) (h : ∀ v ∈ box, (fixCore false boxD v).length < boxW) :
    splitWs ((box.map (fmtFix false boxW boxD)).flatten ++ ['\n']) = box.map (fixCore false boxD) := by
  have e : box.map (fmtFix false boxW boxD)
      = (box.map fun v => Padded.mk (spaces (boxW - (fixCore false boxD v).length)) (fixCore false boxD v) []).map Padded.render := by
    rw [List.map_map]; apply List.map_congr_left; intro v _; simp [Padded.render, fmtFix, rjust]
  rw [e, splitWs_fields _ ['\n'] ?_ ?_ (brk_nl _), splitWs_allWs _ allWs_nl]
  · simp [List.map_map, Function.comp_def]
  · intro x hx
    obtain ⟨v, _, rfl⟩ := List.mem_map.mp hx
    exact ⟨allWs_spaces _, fixCore_noWs _ _, fixCore_ne_nil _ _ _, allWs_nil⟩
  · intro x hx
    obtain ⟨v, hv, rfl⟩ := List.mem_map.mp (List.mem_of_mem_tail hx)
    have := h v hv
    intro e2; have := congrArg List.length e2; simp [spaces] at this; omega

theorem foldr_box (ws : List Fx) : (ws.map (fixCore false boxD)).foldr boxStep (.ok []) = .ok ws := by
  induction ws with
  | nil => rfl
  | cons v ws ih =>
    simp only [List.map_cons, List.foldr_cons, ih]
    have := pyFix_fixCore false boxD v [] [] allWs_nil allWs_nil
    simp only [List.nil_append, List.append_nil] at this
    simp [boxStep, this]

theorem boxWords_ok (box : List Fx) (h : box.length = 3 ∨ box.length = 9) :
    boxWords (box.map (fixCore false boxD)) = .ok box := by
  unfold boxWords
  rcases h with h | h
  · have h9 : ¬ (box.map (fixCore false boxD)).length = 9 := by simp [h]
    have h3 : (box.map (fixCore false boxD)).length ≥ 3 := by simp [h]
    have ht : (box.map (fixCore false boxD)).take 3 = box.map (fixCore false boxD) := List.take_of_length_le (by simp [h])
    simp only [h9, if_false, h3, if_true, ht]
    exact foldr_box box
  · have h9 : (box.map (fixCore false boxD)).length = 9 := by simp [h]
    simp only [h9, if_true]
    exact foldr_box box

/-- C03 for GRO: a file in the published layout loads as the model it was rendered from — any number of atoms, any
precision `d ≥ 1` (width recovered from the decimal points), touching fields, with or without velocities (when the reader
accepts their absence), rectangular or triclinic box. -/
theorem load_spec (L : Layout) (hL : LayoutOK L) (o : Obj) (h : Dom L o) : load L (specRender o) = .ok (denote o) := by
  obtain ⟨ht, hnl, hd, hat, hbox, hfit⟩ := h
  have h1 : hasSub tEq (o.title ++ ['\n']) = false := by rw [hasSub_nl]; exact ht
  have h2 : pyInt (fmtInt 5 (o.atoms.length : Int) ++ ['\n']) = some (o.atoms.length : Int) := by
    have := pyInt_intToDec (spaces (5 - (intToDec (o.atoms.length : Int)).length)) ['\n'] (o.atoms.length : Int) (allWs_spaces _) allWs_nl
    simpa [fmtInt, rjust] using this
  have h3 := readN_map (readAtom L) (specAtom o.d) (fun a => (normAtom a, o.d + 5)) o.atoms
    [(o.box.map (fmtFix false boxW boxD)).flatten ++ ['\n']] (fun a ha => readAtom_specAtom L hL o.d hd a (hat a ha))
  have nneg : ¬ ((o.atoms.length : Int) < 0) := by omega
  unfold load specRender
  simp only [h1, Bool.false_eq_true, if_false, h2, nneg, Int.toNat_natCast, h3, box_words o.box hfit, boxWords_ok o.box hbox]
  simp [denote, List.map_map, Function.comp_def]

end Iodata.Fmt.Gro
