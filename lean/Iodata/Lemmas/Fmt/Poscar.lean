/- POSCAR structure layer: the grouping is a stable permutation; fractional coordinates invert exactly. -/
import Iodata.Model.Fmt.Poscar
import Mathlib.Tactic.Ring
import Mathlib.Tactic.FieldSimp
import Mathlib.Data.List.Perm.Basic
namespace Iodata.Fmt.Poscar

theorem mem_uniqDesc (zs : List Nat) (z : Nat) : z ∈ uniqDesc zs ↔ z ∈ zs := by
  unfold uniqDesc
  simp only [List.mem_filter, List.mem_reverse, List.mem_range, List.contains_iff_mem]
  constructor
  · exact fun h => h.2
  · intro h
    refine ⟨?_, h⟩
    have : ∀ (l : List Nat) (acc : Nat), z ∈ l → z ≤ l.foldl max acc := by
      intro l; induction l with
      | nil => intro acc hm; cases hm
      | cons a l ih =>
        intro acc hm
        simp only [List.foldl_cons]
        rcases List.mem_cons.mp hm with rfl | hm
        · have : ∀ (l : List Nat) (acc : Nat), acc ≤ l.foldl max acc := by
            intro l; induction l with
            | nil => intro acc; exact Nat.le_refl _
            | cons b l ih2 => intro acc; exact Nat.le_trans (Nat.le_max_left acc b) (ih2 _)
          exact Nat.le_trans (Nat.le_max_right acc z) (this l _)
        · exact ih _ hm
    have := this zs 0 h
    omega

theorem uniqDesc_sorted (zs : List Nat) : (uniqDesc zs).Pairwise (· > ·) := by
  unfold uniqDesc
  apply List.Pairwise.filter
  rw [List.pairwise_reverse]
  exact List.pairwise_lt_range

theorem uniqDesc_nodup (zs : List Nat) : (uniqDesc zs).Nodup :=
  (uniqDesc_sorted zs).imp (fun h => Nat.ne_of_gt h)

/-- grouping over any duplicate-free list of keys that covers the atoms is a permutation of the atoms -/
theorem group_perm_aux {α} (key : α → Nat) : ∀ (ks : List Nat) (atoms : List α), ks.Nodup → (∀ a ∈ atoms, key a ∈ ks) →
    (ks.flatMap fun z => atoms.filter fun a => key a == z).Perm atoms := by
  intro ks; induction ks with
  | nil =>
    intro atoms _ h
    cases atoms with
    | nil => exact List.Perm.refl _
    | cons a as => exact absurd (h a List.mem_cons_self) (by simp)
  | cons z ks ih =>
    intro atoms hnd h
    obtain ⟨hz, hnd'⟩ := List.nodup_cons.mp hnd
    simp only [List.flatMap_cons]
    have hrest : (ks.flatMap fun z' => atoms.filter fun a => key a == z')
        = ks.flatMap fun z' => (atoms.filter fun a => !(key a == z)).filter fun a => key a == z' := by
      apply List.flatMap_congr
      intro z' hz'
      rw [List.filter_filter]
      apply List.filter_congr
      intro a _
      by_cases e : key a = z'
      · have : key a ≠ z := fun e2 => hz (by rw [← e2, e]; exact hz')
        simp [e]
        intro e3; exact this (e.trans e3)
      · simp [e]
    rw [hrest]
    have h2 := ih (atoms.filter fun a => !(key a == z)) hnd' (by
      intro a ha
      obtain ⟨ha1, ha2⟩ := List.mem_filter.mp ha
      have := h a ha1
      rcases List.mem_cons.mp this with e | e
      · simp [e] at ha2
      · exact e)
    exact (List.Perm.append_left _ h2).trans (List.filter_append_perm _ atoms)

/-- C02: the atoms written (and read back) are the atoms of the object, each exactly once -/
theorem group_perm {α} (key : α → Nat) (atoms : List α) : (group key atoms).Perm atoms :=
  group_perm_aux key _ atoms (uniqDesc_nodup _) (fun a ha => (mem_uniqDesc _ _).mpr (List.mem_map.mpr ⟨a, ha, rfl⟩))

theorem group_filter_aux {α} (key : α → Nat) (atoms : List α) (z : Nat) : ∀ (ks : List Nat), ks.Nodup →
    (ks.flatMap fun z' => atoms.filter fun a => key a == z').filter (fun a => key a == z)
      = if z ∈ ks then atoms.filter (fun a => key a == z) else [] := by
  intro ks; induction ks with
  | nil => intro _; rfl
  | cons k ks ih =>
    intro hnd
    obtain ⟨hk, hnd'⟩ := List.nodup_cons.mp hnd
    simp only [List.flatMap_cons, List.filter_append, List.filter_filter, ih hnd']
    by_cases e : z = k
    · subst e
      have h1 : atoms.filter (fun a => (key a == z && key a == z)) = atoms.filter (fun a => key a == z) := by
        apply List.filter_congr; intro a _; simp
      simp [hk]
    · have h1 : atoms.filter (fun a => (key a == z && key a == k)) = [] := by
        rw [List.filter_eq_nil_iff]
        intro a _
        simp only [Bool.and_eq_true, beq_iff_eq, not_and]
        intro e1 e2; exact e (e1.symm.trans e2)
      simp [h1, e]

/-- within an element the file order is kept (the documented re-ordering is a stable one) -/
theorem group_stable {α} (key : α → Nat) (atoms : List α) (z : Nat) :
    (group key atoms).filter (fun a => key a == z) = atoms.filter (fun a => key a == z) := by
  unfold group
  rw [group_filter_aux key atoms z _ (uniqDesc_nodup _)]
  by_cases hz : z ∈ uniqDesc (atoms.map key)
  · simp [hz]
  · simp only [hz, if_false]
    symm
    rw [List.filter_eq_nil_iff]
    intro a ha
    simp only [beq_iff_eq]
    intro e
    exact hz ((mem_uniqDesc _ _).mpr (List.mem_map.mpr ⟨a, ha, e⟩))

/-- the elements appear heaviest first -/
theorem group_keys {α} (key : α → Nat) (atoms : List α) : (group key atoms).map key = expand (counts key atoms) := by
  unfold group counts expand
  rw [List.map_flatMap, List.flatMap_map]
  apply List.flatMap_congr
  intro z _
  simp only
  rw [List.eq_replicate_iff]
  refine ⟨by simp, ?_⟩
  intro b hb
  obtain ⟨a, ha, rfl⟩ := List.mem_map.mp hb
  simpa using (List.mem_filter.mp ha).2

/-- C15: grouping a grouped list changes nothing -/
theorem group_idem {α} (key : α → Nat) (atoms : List α) : group key (group key atoms) = group key atoms := by
  have hk : uniqDesc ((group key atoms).map key) = uniqDesc (atoms.map key) := by
    have h1 := uniqDesc_sorted ((group key atoms).map key)
    have h2 := uniqDesc_sorted (atoms.map key)
    have n1 : (uniqDesc ((group key atoms).map key)).Nodup := uniqDesc_nodup _
    have n2 : (uniqDesc (atoms.map key)).Nodup := uniqDesc_nodup _
    have p : (uniqDesc ((group key atoms).map key)).Perm (uniqDesc (atoms.map key)) := by
      apply (List.perm_ext_iff_of_nodup n1 n2).mpr
      intro z
      rw [mem_uniqDesc, mem_uniqDesc]
      exact ((group_perm key atoms).map key).mem_iff
    exact List.Perm.eq_of_pairwise (fun a b _ _ hab hba => absurd hab (by omega)) h1 h2 p
  have e : group key (group key atoms)
      = (uniqDesc ((group key atoms).map key)).flatMap fun z => (group key atoms).filter fun a => key a == z := rfl
  rw [e, hk]
  conv => rhs; unfold group
  apply List.flatMap_congr
  intro z _
  exact group_stable key atoms z

/-! ### direct coordinates -/

theorem toCart_toFrac (cell : M3) (h : det cell ≠ 0) (r : V3) : toCart cell (toFrac cell r) = r := by
  obtain ⟨⟨a, b, c⟩, ⟨d, e, f⟩, ⟨g, hh, i⟩⟩ := cell
  obtain ⟨x, y, z⟩ := r
  have hD : a * (e * i - f * hh) - b * (d * i - f * g) + c * (d * hh - e * g) ≠ 0 := h
  simp only [toCart, toFrac, vecMat, inv, det]
  generalize hDD : a * (e * i - f * hh) - b * (d * i - f * g) + c * (d * hh - e * g) = D at hD ⊢
  refine Prod.ext ?_ (Prod.ext ?_ ?_) <;> simp only <;> field_simp <;> rw [← hDD] <;> ring

theorem toFrac_toCart (cell : M3) (h : det cell ≠ 0) (s : V3) : toFrac cell (toCart cell s) = s := by
  obtain ⟨⟨a, b, c⟩, ⟨d, e, f⟩, ⟨g, hh, i⟩⟩ := cell
  obtain ⟨x, y, z⟩ := s
  have hD : a * (e * i - f * hh) - b * (d * i - f * g) + c * (d * hh - e * g) ≠ 0 := h
  simp only [toCart, toFrac, vecMat, inv, det]
  generalize hDD : a * (e * i - f * hh) - b * (d * i - f * g) + c * (d * hh - e * g) = D at hD ⊢
  refine Prod.ext ?_ (Prod.ext ?_ ?_) <;> simp only <;> field_simp <;> rw [← hDD] <;> ring

end Iodata.Fmt.Poscar
