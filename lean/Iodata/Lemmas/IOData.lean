/- Helper lemmas for C11 (model: `Iodata/Model/IOData.lean`). -/
import Iodata.Model.IOData

namespace Iodata.IOD

/-! ### `natom` and agreement of the per-atom arrays -/

/-- all per-atom arrays that are set have one common length -/
def Agree (s : St) : Prop :=
  ∀ f g n m, lenOf s f = some n → lenOf s g = some m → n = m

/-- once core charges are stored, `_charge` is not -/
def I1 (s : St) : Prop := s.atcorenums ≠ none → s.charge = none

/-- the invariant of reachable states -/
def Inv (s : St) : Prop :=
  I1 s ∧ Agree s

theorem natomBy_none_iff (o : List Fld) (s : St) :
    natomBy o s = none ↔ ∀ f ∈ o, lenOf s f = none := by
  simp [natomBy, List.findSome?_eq_none_iff]

theorem natomBy_mem {o : List Fld} {s : St} {k : Nat} (h : natomBy o s = some k) :
    ∃ g ∈ o, lenOf s g = some k := by
  induction o with
  | nil => simp [natomBy] at h
  | cons a t ih =>
    simp only [natomBy, List.findSome?_cons] at h
    cases ha : lenOf s a with
    | some v => rw [ha] at h; simp at h; exact ⟨a, by simp, by rw [ha, h]⟩
    | none =>
      rw [ha] at h
      obtain ⟨g, hg, hl⟩ := ih h
      exact ⟨g, by simp [hg], hl⟩

theorem natomBy_eq_of_agree {o : List Fld} {s : St} (ha : Agree s) {f : Fld} {n : Nat}
    (hf : f ∈ o) (hl : lenOf s f = some n) : natomBy o s = some n := by
  cases h : natomBy o s with
  | none => rw [(natomBy_none_iff o s).mp h f hf] at hl; cases hl
  | some k =>
    obtain ⟨g, _, hg⟩ := natomBy_mem h
    rw [ha g f k n hg hl]

theorem mem_natomOrder (f : Fld) : f ∈ natomOrder := by cases f <;> simp [natomOrder]

theorem natom_eq_of_agree {s : St} (ha : Agree s) {f : Fld} {n : Nat}
    (hl : lenOf s f = some n) : natom s = some n :=
  natomBy_eq_of_agree ha (mem_natomOrder f) hl

theorem natom_none_all {s : St} (h : natom s = none) (f : Fld) : lenOf s f = none :=
  (natomBy_none_iff _ s).mp h f (mem_natomOrder f)

/-- under `Agree`, any two priority lists with the same members give the same `natom` -/
theorem natomBy_congr {o1 o2 : List Fld} {s : St} (ha : Agree s)
    (hm : ∀ f, f ∈ o1 ↔ f ∈ o2) : natomBy o1 s = natomBy o2 s := by
  cases h : natomBy o1 s with
  | none =>
    symm; rw [natomBy_none_iff]; intro f hf
    exact (natomBy_none_iff o1 s).mp h f ((hm f).mpr hf)
  | some k =>
    obtain ⟨g, hg, hl⟩ := natomBy_mem h
    exact (natomBy_eq_of_agree ha ((hm g).mp hg) hl).symm

/-- arrays only cleared: agreement is kept -/
theorem agree_of_le {s s' : St} (ha : Agree s)
    (h : ∀ g, lenOf s' g = none ∨ lenOf s' g = lenOf s g) : Agree s' := by
  intro f g n m hf hg
  rcases h f with h1 | h1
  · rw [h1] at hf; cases hf
  · rcases h g with h2 | h2
    · rw [h2] at hg; cases hg
    · exact ha f g n m (h1 ▸ hf) (h2 ▸ hg)

/-- one array replaced by a value that passed the shape validator on the old state -/
theorem agree_of_put {s s' : St} (ha : Agree s) {f : Fld} {n : Nat} (hs : shapeOk s n = true)
    (hother : ∀ g, g ≠ f → lenOf s' g = lenOf s g) (hf : lenOf s' f = some n) : Agree s' := by
  have key : ∀ g m, g ≠ f → lenOf s' g = some m → m = n := by
    intro g m hg hl
    rw [hother g hg] at hl
    have := natom_eq_of_agree ha hl
    simp [shapeOk, this] at hs
    exact hs
  intro g h a b hg hh
  by_cases e1 : g = f
  · by_cases e2 : h = f
    · subst e1; subst e2; rw [hf] at hg hh; cases hg; cases hh; rfl
    · subst e1; rw [hf] at hg; cases hg; exact (key h b e2 hh).symm
  · by_cases e2 : h = f
    · subst e2; rw [hf] at hh; cases hh; exact key g a e1 hg
    · rw [hother g e1] at hg; rw [hother h e2] at hh; exact ha g h a b hg hh

theorem agree_of_lenOf_eq {s s' : St} (ha : Agree s) (h : ∀ g, lenOf s' g = lenOf s g) : Agree s' :=
  agree_of_le ha (fun g => Or.inr (h g))

theorem natom_congr {s s' : St} (h : ∀ g, lenOf s' g = lenOf s g) : natom s' = natom s := by
  have e : lenOf s' = lenOf s := funext h
  simp [natom, natomBy, e]

theorem shapeOk_congr {s s' : St} (h : ∀ g, lenOf s' g = lenOf s g) (n : Nat) :
    shapeOk s' n = shapeOk s n := by
  simp [shapeOk, natom_congr h]

/-! ### setters keep the invariant -/

theorem agree_setNelec {s : St} (v) (ha : Agree s) : Agree (setNelec s v).1 := by
  unfold setNelec; split
  · exact agree_of_lenOf_eq ha (fun g => by cases g <;> rfl)
  · exact ha

theorem agree_setSpinpol {s : St} (v) (ha : Agree s) : Agree (setSpinpol s v).1 := by
  unfold setSpinpol; split
  · exact agree_of_lenOf_eq ha (fun g => by cases g <;> rfl)
  · exact ha

theorem i1_setNelec {s : St} (v) (h : I1 s) : I1 (setNelec s v).1 := by
  unfold setNelec; split <;> exact h

theorem i1_setSpinpol {s : St} (v) (h : I1 s) : I1 (setSpinpol s v).1 := by
  unfold setSpinpol; split <;> exact h

theorem agree_setCore {s : St} (v) (ha : Agree s) : Agree (setCore s v).1 := by
  cases v with
  | none =>
    simp only [setCore]
    apply agree_of_le ha
    intro g
    cases g <;> (try (left; rfl)) <;> (right; split <;> rfl)
  | some v =>
    simp only [setCore]
    split
    · rename_i hs
      have hput : ∀ s' : St, s'.atcorenums = some v → s'.atcoords = s.atcoords → s'.atgradient = s.atgradient →
          s'.atfrozen = s.atfrozen → s'.atmasses = s.atmasses → s'.atnums = s.atnums → Agree s' := by
        intro s' h1 h2 h3 h4 h5 h6
        apply agree_of_put ha hs (f := .atcorenums)
        · intro g hg; cases g <;> simp_all [lenOf]
        · simp [lenOf, h1]
      split
      · exact hput _ rfl rfl rfl rfl rfl rfl
      · split <;> exact hput _ rfl rfl rfl rfl rfl rfl
    · exact ha

theorem i1_setCore {s : St} (v) (h : I1 s) : I1 (setCore s v).1 := by
  cases v with
  | none => simp [setCore, I1]
  | some v =>
    simp only [setCore]
    split
    · split
      · rename_i hc; intro _; exact hc
      · split <;> (intro _; rfl)
    · exact h

/-- a successful explicit assignment of core charges establishes `I1` whatever the state was -/
theorem i1_setCore_ok {s : St} (v) (h : (setCore s (some v)).2 = none) : I1 (setCore s (some v)).1 := by
  simp only [setCore] at h ⊢
  split
  · split
    · rename_i hc; intro _; exact hc
    · split <;> (intro _; rfl)
  · rename_i hs; simp [hs] at h


/-! ### the lazy getter -/

/-- the three possible behaviours of the `atcorenums` getter -/
theorem getCore_cases (s : St) :
    (getCore s = (s.atcorenums, s, none) ∧ (s.atcorenums ≠ none ∨ s.atnums = none)) ∨
    (∃ z, s.atcorenums = none ∧ s.atnums = some z ∧
      ((setCore s (some (toFloat z))).2 = none ∧
        getCore s = ((setCore s (some (toFloat z))).1.atcorenums, (setCore s (some (toFloat z))).1, none) ∨
       (∃ e, (setCore s (some (toFloat z))).2 = some e ∧
        getCore s = (none, (setCore s (some (toFloat z))).1, some e)))) := by
  unfold getCore
  cases hc : s.atcorenums with
  | some a => left; simp
  | none =>
    cases hz : s.atnums with
    | none => left; simp
    | some z =>
      right; refine ⟨z, rfl, rfl, ?_⟩
      simp only
      rcases hr : setCore s (some (toFloat z)) with ⟨s', _ | e⟩
      · left; simp
      · right; exact ⟨e, by simp⟩

theorem setCore_some_ok {s : St} {v : List Rat} (h : (setCore s (some v)).2 = none) :
    (setCore s (some v)).1.atcorenums = some v := by
  simp only [setCore] at h ⊢
  split
  · split
    · rfl
    · split <;> rfl
  · rename_i hs; simp [hs] at h

theorem setCore_some_err {s : St} {v : List Rat} {e} (h : (setCore s (some v)).2 = some e) :
    (setCore s (some v)).1 = s := by
  simp only [setCore] at h ⊢
  split
  · rename_i hs
    simp only [hs, if_true] at h
    split at h
    · simp at h
    · split at h <;> simp at h
  · rfl

theorem agree_getCore {s : St} (ha : Agree s) : Agree (getCore s).2.1 := by
  rcases getCore_cases s with ⟨h, _⟩ | ⟨z, _, _, ⟨_, h⟩ | ⟨e, _, h⟩⟩ <;> rw [h]
  · exact ha
  · exact agree_setCore _ ha
  · exact agree_setCore _ ha

theorem i1_getCore {s : St} (h1 : I1 s) : I1 (getCore s).2.1 := by
  rcases getCore_cases s with ⟨h, _⟩ | ⟨z, _, _, ⟨_, h⟩ | ⟨e, _, h⟩⟩ <;> rw [h]
  · exact h1
  · exact i1_setCore _ h1
  · exact i1_setCore _ h1

/-- under the invariant the lazy default always passes its validator -/
theorem getCore_ok {s : St} (ha : Agree s) : (getCore s).2.2 = none := by
  rcases getCore_cases s with ⟨h, _⟩ | ⟨z, hc, hz, ⟨_, h⟩ | ⟨e, he, _⟩⟩
  · rw [h]
  · rw [h]
  · exfalso
    have hl : lenOf s .atnums = some z.length := by simp [lenOf, hz]
    have hn := natom_eq_of_agree ha hl
    simp [setCore, shapeOk, hn, toFloat] at he
    split at he
    · simp at he
    · split at he <;> simp at he

/-- after the getter ran, the stored value is what it returned and a second read is pure -/
theorem getCore_idem (s : St) :
    getCore (getCore s).2.1 = ((getCore s).1, (getCore s).2.1, none) ∨ (getCore s).2.2 ≠ none := by
  rcases getCore_cases s with ⟨h, hc⟩ | ⟨z, hc, hz, ⟨hok, h⟩ | ⟨e, he, h⟩⟩
  · left; rw [h]; simp only; exact h
  · left; rw [h]; simp only
    have := setCore_some_ok hok
    unfold getCore; rw [this]
  · right; rw [h]; simp


/-! ### charge getter / setter -/

theorem getCharge_state (s : St) : (getCharge s).2.1 = (getCore s).2.1 := by
  unfold getCharge
  rcases h : getCore s with ⟨ac, s1, _ | e⟩
  · simp only; split <;> rfl
  · rfl

theorem getCharge_err (s : St) : (getCharge s).2.2 = (getCore s).2.2 := by
  unfold getCharge
  rcases h : getCore s with ⟨ac, s1, _ | e⟩
  · simp only; split <;> rfl
  · rfl

/-- state after `setCharge`: the lazily initialised state with `_charge` or `_nelec` replaced -/
theorem setCharge_cases (s : St) (c : Option Rat) :
    let s1 := (getCore s).2.1
    ((getCore s).2.2 ≠ none ∧ (setCharge s c) = (s1, (getCore s).2.2)) ∨
    ((getCore s).2.2 = none ∧ (getCore s).1 = none ∧ setCharge s c = ({ s1 with charge := c }, none)) ∨
    (∃ a, (getCore s).2.2 = none ∧ (getCore s).1 = some a ∧
        setCharge s c = setNelec s1 (c.map fun c => sum a - c)) := by
  unfold setCharge
  rcases h : getCore s with ⟨ac, s1, _ | e⟩
  · cases ac with
    | none => right; left; simp
    | some a => right; right; refine ⟨a, rfl, rfl, ?_⟩; cases c <;> rfl
  · left; simp

theorem agree_setCharge {s : St} (c) (ha : Agree s) : Agree (setCharge s c).1 := by
  have h1 := agree_getCore ha
  rcases setCharge_cases s c with ⟨_, h⟩ | ⟨_, _, h⟩ | ⟨a, _, _, h⟩ <;> rw [h]
  · exact h1
  · exact agree_of_lenOf_eq h1 (fun g => by cases g <;> rfl)
  · exact agree_setNelec _ h1

theorem getCore_val_state (s : St) (h : (getCore s).2.2 = none) : (getCore s).2.1.atcorenums = (getCore s).1 := by
  rcases getCore_cases s with ⟨h', _⟩ | ⟨z, _, _, ⟨_, h'⟩ | ⟨e, _, h'⟩⟩
  · rw [h']
  · rw [h']
  · rw [h'] at h; simp at h

theorem i1_setCharge {s : St} (c) (hi : I1 s) : I1 (setCharge s c).1 := by
  have h1 := i1_getCore hi
  rcases setCharge_cases s c with ⟨_, h⟩ | ⟨he, hv, h⟩ | ⟨a, _, _, h⟩ <;> rw [h]
  · exact h1
  · intro hne
    exfalso; apply hne
    show (getCore s).2.1.atcorenums = none
    rw [getCore_val_state s he, hv]
  · exact i1_setNelec _ h1

/-! ### plain arrays -/

theorem agree_setArr {s : St} (f v) (ha : Agree s) : Agree (setArr s f v).1 := by
  unfold setArr
  cases v with
  | none =>
    simp only
    apply agree_of_le ha
    intro g; cases f <;> cases g <;> simp [lenOf]
  | some a =>
    simp only
    split
    · rename_i hs
      cases f
      case atcorenums => exact ha
      case atnums => exact ha
      all_goals
        first
        | (apply agree_of_put ha hs (f := .atcoords)
           · intro g hg; cases g <;> simp_all [lenOf]
           · simp [lenOf])
        | (apply agree_of_put ha hs (f := .atgradient)
           · intro g hg; cases g <;> simp_all [lenOf]
           · simp [lenOf])
        | (apply agree_of_put ha hs (f := .atfrozen)
           · intro g hg; cases g <;> simp_all [lenOf]
           · simp [lenOf])
        | (apply agree_of_put ha hs (f := .atmasses)
           · intro g hg; cases g <;> simp_all [lenOf]
           · simp [lenOf])
    · exact ha

theorem i1_setArr {s : St} (f v) (hi : I1 s) : I1 (setArr s f v).1 := by
  unfold setArr
  cases v with
  | none => cases f <;> exact hi
  | some a => simp only; split
              · cases f <;> exact hi
              · exact hi

theorem agree_setAtnums {s : St} (v) (ha : Agree s) : Agree (setAtnums s v).1 := by
  unfold setAtnums
  cases v with
  | none =>
    apply agree_of_le ha
    intro g; cases g <;> simp [lenOf]
  | some a =>
    simp only; split
    · rename_i hs
      apply agree_of_put ha hs (f := .atnums)
      · intro g hg; cases g <;> simp_all [lenOf]
      · simp [lenOf]
    · exact ha

theorem i1_setAtnums {s : St} (v) (hi : I1 s) : I1 (setAtnums s v).1 := by
  unfold setAtnums
  cases v with
  | none => exact hi
  | some a => simp only; split <;> exact hi


/-! ### construction -/

theorem agree_of_validateAll {a : St} (h : validateAll a = true) : Agree a := by
  have key : ∀ f n, lenOf a f = some n → natom a = some n := by
    intro f n hl
    have hf : f ∈ validatorOrder := by cases f <;> simp [validatorOrder]
    have := (List.all_eq_true.mp h) f hf
    rw [hl] at this
    simp only [shapeOk] at this
    cases hn : natom a with
    | none => rw [natom_none_all hn f] at hl; cases hl
    | some k => rw [hn] at this; simp at this; rw [this]
  intro f g n m hf hg
  have := key f n hf
  rw [key g m hg] at this
  exact (Option.some.inj this).symm

theorem agree_andThen {r : St × Option Err} {f : St → St × Option Err} (h : Agree r.1)
    (hf : ∀ s, Agree s → Agree (f s).1) : Agree (andThen r f).1 := by
  unfold andThen; split
  · exact h
  · exact hf _ h

theorem i1_andThen {r : St × Option Err} {f : St → St × Option Err} (h : r.2 = none → I1 r.1)
    (hf : ∀ s, I1 s → I1 (f s).1) (hok : (andThen r f).2 = none) : I1 (andThen r f).1 := by
  unfold andThen at hok ⊢; split
  · rename_i e he; rw [he] at hok; simp at hok
  · rename_i he; exact hf _ (h he)

theorem andThen_ok {r : St × Option Err} {f : St → St × Option Err} (hok : (andThen r f).2 = none) :
    r.2 = none := by
  unfold andThen at hok; split at hok
  · simp at hok
  · assumption

theorem agree_postInit {s : St} (ha : Agree s) : Agree (postInit s).1 := by
  unfold postInit
  refine agree_andThen (agree_andThen (agree_andThen ?_ ?_) ?_) ?_
  · unfold replayCore; split
    · exact agree_setCore _ ha
    · exact ha
  · intro s h; unfold replayCharge; split
    · exact agree_setCharge _ h
    · exact h
  · intro s h; unfold replayNelec; split
    · exact agree_setNelec _ h
    · exact h
  · intro s h; unfold replaySpinpol; split
    · exact agree_setSpinpol _ h
    · exact h

/-- after a successful post-init the stored charge is gone whenever core charges are stored -/
theorem i1_postInit {s : St} (hok : (postInit s).2 = none) : I1 (postInit s).1 := by
  unfold postInit at hok ⊢
  have h3 := andThen_ok hok
  have h2 := andThen_ok h3
  refine i1_andThen (fun _ => i1_andThen (fun _ => i1_andThen ?_ ?_ h2) ?_ h3) ?_ hok
  · unfold replayCore; split
    · exact i1_setCore_ok _
    · rename_i hc; intro _ hne; exact absurd hc hne
  · intro s h; unfold replayCharge; split
    · exact i1_setCharge _ h
    · exact h
  · intro s h; unfold replayNelec; split
    · exact i1_setNelec _ h
    · exact h
  · intro s h; unfold replaySpinpol; split
    · exact i1_setSpinpol _ h
    · exact h

theorem inv_construct {a s : St} (h : construct a = .ok s) : Inv s := by
  unfold construct at h
  split at h
  · rename_i hv
    have ha := agree_of_validateAll hv
    rcases hp : postInit a with ⟨s', _ | e⟩
    · rw [hp] at h; simp at h; subst h
      have h1 : I1 (postInit a).1 := i1_postInit (by rw [hp])
      have h2 := agree_postInit ha
      rw [hp] at h1 h2
      exact ⟨h1, h2⟩
    · rw [hp] at h; simp at h
  · simp at h

/-! ### histories -/

theorem inv_init : Inv init := by
  refine ⟨fun h => rfl, ?_⟩
  intro f g n m hf; cases f <;> simp [lenOf, init] at hf

theorem inv_step {s : St} (op : Op) (h : Inv s) : Inv (step s op).1 := by
  obtain ⟨hi, ha⟩ := h
  cases op with
  | construct a =>
    simp only [step]
    cases hc : construct a with
    | ok s' => exact inv_construct hc
    | error e => exact ⟨hi, ha⟩
  | setArr f v => exact ⟨i1_setArr f v hi, agree_setArr f v ha⟩
  | setAtnums v => exact ⟨i1_setAtnums v hi, agree_setAtnums v ha⟩
  | setCore v => exact ⟨i1_setCore v hi, agree_setCore v ha⟩
  | setCharge v => exact ⟨i1_setCharge v hi, agree_setCharge v ha⟩
  | setNelec v => exact ⟨i1_setNelec v hi, agree_setNelec v ha⟩
  | setSpinpol v => exact ⟨i1_setSpinpol v hi, agree_setSpinpol v ha⟩
  | setMo m => exact ⟨hi, agree_of_lenOf_eq ha (fun g => by cases g <;> rfl)⟩
  | getCore => exact ⟨i1_getCore hi, agree_getCore ha⟩
  | getCharge =>
    simp only [step]; rw [getCharge_state]; exact ⟨i1_getCore hi, agree_getCore ha⟩
  | getNelec => exact ⟨hi, ha⟩
  | getSpinpol => exact ⟨hi, ha⟩
  | getNatom => exact ⟨hi, ha⟩

theorem inv_run {s : St} (ops : List Op) (h : Inv s) : Inv (run s ops) := by
  induction ops generalizing s with
  | nil => exact h
  | cons op t ih => exact ih (inv_step op h)

/-- states reachable from `IOData()` by any history -/
def Reachable (s : St) : Prop := ∃ ops : List Op, run init ops = s

theorem inv_reachable {s : St} (h : Reachable s) : Inv s := by
  obtain ⟨ops, rfl⟩ := h; exact inv_run ops inv_init

theorem run_append (s : St) (a b : List Op) : run s (a ++ b) = run (run s a) b := by
  simp [run, List.foldl_append]

theorem reachable_step {s : St} (op : Op) (h : Reachable s) : Reachable (step s op).1 := by
  obtain ⟨ops, rfl⟩ := h
  exact ⟨ops ++ [op], by rw [run_append]; rfl⟩


/-! ### finer facts used by the property theorems -/

/-- what a successful `setCore s (some v)` leaves untouched / produces -/
theorem setCore_some_fields {s : St} {v : List Rat} (h : (setCore s (some v)).2 = none) :
    let s' := (setCore s (some v)).1
    s'.atcorenums = some v ∧ s'.charge = none ∧ s'.mo = s.mo ∧ s'.spinpol = s.spinpol ∧
    s'.atnums = s.atnums ∧ s'.atcoords = s.atcoords ∧ s'.atgradient = s.atgradient ∧
    s'.atfrozen = s.atfrozen ∧ s'.atmasses = s.atmasses ∧
    (∀ n, s.nelec = some n → s'.nelec = some n) ∧ (s.charge = none → s'.nelec = s.nelec) := by
  simp only [setCore] at h ⊢
  split
  · split
    · rename_i hc
      simp only [hc] at *
      simp
    · split
      · rename_i hc hn; simp_all
      · rename_i hc _ n hn; simp_all
  · rename_i hs; simp [hs] at h

/-- the value returned by the `atcorenums` getter, in closed form -/
theorem getCore_val (s : St) :
    (getCore s).1 =
      match s.atcorenums, s.atnums with
      | none, some z => if shapeOk s z.length then some (toFloat z) else none
      | _, _ => s.atcorenums := by
  rcases getCore_cases s with ⟨h, hc⟩ | ⟨z, hc, hz, ⟨hok, h⟩ | ⟨e, he, h⟩⟩
  · rw [h]; simp only
    rcases hc with hc | hc
    · cases h1 : s.atcorenums with
      | none => exact absurd h1 hc
      | some a => rfl
    · rw [hc]; cases s.atcorenums <;> rfl
  · rw [h, hc, hz]; simp only
    rw [setCore_some_ok hok]
    have : shapeOk s z.length = true := by
      cases hs : shapeOk s z.length with
      | true => rfl
      | false => simp [setCore, toFloat, hs] at hok
    simp [this]
  · rw [h, hc, hz]; simp only
    have : shapeOk s z.length = false := by
      cases hs : shapeOk s z.length with
      | false => rfl
      | true =>
        exfalso
        simp only [setCore, toFloat, List.length_map, hs, if_true] at he
        split at he
        · simp at he
        · split at he <;> simp at he
    simp [this]

theorem getCore_val_congr {s s' : St} (h1 : s'.atcorenums = s.atcorenums) (h2 : s'.atnums = s.atnums)
    (h3 : ∀ g, lenOf s' g = lenOf s g) : (getCore s').1 = (getCore s).1 := by
  rw [getCore_val, getCore_val, h1, h2]
  cases s.atcorenums <;> cases s.atnums <;> simp [shapeOk_congr h3]

theorem getCore_mo (s : St) : (getCore s).2.1.mo = s.mo := by
  rcases getCore_cases s with ⟨h, _⟩ | ⟨z, _, _, ⟨hok, h⟩ | ⟨e, he, h⟩⟩ <;> rw [h]
  · exact (setCore_some_fields hok).2.2.1
  · simp only; rw [setCore_some_err he]

theorem getCore_nelec_some {s : St} {n : Rat} (h : getNelec s = some n) :
    getNelec (getCore s).2.1 = some n := by
  rcases getCore_cases s with ⟨h', _⟩ | ⟨z, _, _, ⟨hok, h'⟩ | ⟨e, he, h'⟩⟩ <;> rw [h']
  · exact h
  · simp only
    have f := setCore_some_fields hok
    simp only at f
    unfold getNelec at h ⊢
    rw [f.2.2.1]
    cases hm : s.mo with
    | some m => rw [hm] at h; exact h
    | none => rw [hm] at h; simp only at h ⊢; exact f.2.2.2.2.2.2.2.2.2.1 n h
  · simp only; rw [setCore_some_err he]; exact h

/-- the state after the getter is a fixed point of the getter -/
theorem getCore_getCore (s : St) : getCore (getCore s).2.1 = getCore s ∨
    getCore (getCore s).2.1 = ((getCore s).1, (getCore s).2.1, none) := by
  rcases getCore_cases s with ⟨h, hc⟩ | ⟨z, hc, hz, ⟨hok, h⟩ | ⟨e, he, h⟩⟩
  · left; rw [h]; exact h
  · right; rw [h]; simp only
    have := setCore_some_ok hok
    unfold getCore; rw [this]
  · left; rw [h]; simp only; rw [setCore_some_err he]; rw [setCore_some_err he] at h; exact h

theorem getCore_arrays (s : St) :
    let s1 := (getCore s).2.1
    s1.atnums = s.atnums ∧ s1.atcoords = s.atcoords ∧ s1.atgradient = s.atgradient ∧
    s1.atfrozen = s.atfrozen ∧ s1.atmasses = s.atmasses ∧ s1.spinpol = s.spinpol := by
  rcases getCore_cases s with ⟨h, _⟩ | ⟨z, _, _, ⟨hok, h⟩ | ⟨e, he, h⟩⟩ <;> rw [h] <;> simp only
  · simp
  · have f := setCore_some_fields hok
    simp only at f
    exact ⟨f.2.2.2.2.1, f.2.2.2.2.2.1, f.2.2.2.2.2.2.1, f.2.2.2.2.2.2.2.1, f.2.2.2.2.2.2.2.2.1, f.2.2.2.1⟩
  · rw [setCore_some_err he]; simp

/-- under agreement the lazy default does not change `natom` -/
theorem natom_getCore {s : St} (ha : Agree s) : natom (getCore s).2.1 = natom s := by
  rcases getCore_cases s with ⟨h, _⟩ | ⟨z, hc, hz, ⟨hok, h⟩ | ⟨e, he, h⟩⟩
  · rw [h]
  · have ha' := agree_getCore ha
    have f := getCore_arrays s
    simp only at f
    have hl : lenOf s .atnums = some z.length := by simp [lenOf, hz]
    have hl' : lenOf (getCore s).2.1 .atnums = some z.length := by simp [lenOf, f.1, hz]
    rw [natom_eq_of_agree ha hl, natom_eq_of_agree ha' hl']
  · rw [h]; simp only; rw [setCore_some_err he]


/-! ### fixed points of the getters, observables, default core charges -/

/-- the `atcorenums` getter applied to the state it left behind returns the same triple -/
theorem getCore_fix (s : St) :
    getCore (getCore s).2.1 = ((getCore s).1, (getCore s).2.1, (getCore s).2.2) := by
  rcases getCore_cases s with ⟨h, _⟩ | ⟨z, _, _, ⟨hok, h⟩ | ⟨e, he, h⟩⟩
  · rw [h]; exact h
  · rw [h]; simp only
    have := setCore_some_ok hok
    unfold getCore; rw [this]
  · rw [h]; simp only; rw [setCore_some_err he]; rw [setCore_some_err he] at h; exact h

theorem getCharge_fix (s : St) :
    getCharge (getCharge s).2.1 = ((getCharge s).1, (getCharge s).2.1, (getCharge s).2.2) := by
  rw [getCharge_state]
  have hf := getCore_fix s
  unfold getCharge
  rw [hf]
  rcases hg : getCore s with ⟨ac, s1, _ | e⟩
  · simp only; split <;> rfl
  · rfl

/-- the lazy default of the core charges changes no observable, provided the electron count reads
the same before and after (always the case with orbitals present, or when `_nelec` is stored) -/
theorem obs_getCore {s : St} (ha : Agree s) (hn : getNelec (getCore s).2.1 = getNelec s) :
    obs (getCore s).2.1 = obs s := by
  have hfix := getCore_fix s
  have hcfix := getCharge_fix s
  rw [getCharge_state] at hcfix
  have harr := getCore_arrays s
  simp only at harr
  have hmo := getCore_mo s
  have hnat := natom_getCore ha
  simp only [obs, Obs.mk.injEq]
  refine ⟨?_, hn, ?_, ?_, hnat, harr.1, harr.2.1, harr.2.2.1, harr.2.2.2.1, harr.2.2.2.2.1, ?_, ?_⟩
  · rw [hcfix]
  · simp [getSpinpol, hmo, harr.2.2.2.2.2]
  · rw [hfix]
  · rw [hmo]
  · rw [hcfix, hfix]

/-- the stored core charges are absent or equal to the atomic numbers -/
def CoreDef (s : St) : Prop := s.atcorenums = none ∨ s.atcorenums = s.atnums.map toFloat

/-- operations that neither assign core charges explicitly nor re-assign `atnums` on an existing
object (construction with `atnums` is fine) -/
def usesDefault : Op → Bool
  | .setCore (some _) => false
  | .setAtnums _ => false
  | .construct a => a.atcorenums.isNone
  | _ => true

/-- every operation other than an explicit `atcorenums = <array>` (or construction with one) -/
def notExplicit : Op → Bool
  | .setCore (some _) => false
  | .construct a => a.atcorenums.isNone
  | _ => true

theorem coreDef_getCore {s : St} (h : CoreDef s) : CoreDef (getCore s).2.1 := by
  rcases getCore_cases s with ⟨h', _⟩ | ⟨z, hc, hz, ⟨hok, h'⟩ | ⟨e, he, h'⟩⟩ <;> rw [h'] <;> simp only
  · exact h
  · right
    have f := setCore_some_fields hok
    simp only at f
    rw [f.1, f.2.2.2.2.1, hz]; rfl
  · rw [setCore_some_err he]; exact h

theorem coreDef_congr {s s' : St} (h : CoreDef s) (h1 : s'.atcorenums = s.atcorenums)
    (h2 : s'.atnums = s.atnums) : CoreDef s' := by
  unfold CoreDef; rw [h1, h2]; exact h

theorem coreDef_setNelec {s : St} (v) (h : CoreDef s) : CoreDef (setNelec s v).1 := by
  unfold setNelec; split
  · exact coreDef_congr h rfl rfl
  · exact h

theorem coreDef_setSpinpol {s : St} (v) (h : CoreDef s) : CoreDef (setSpinpol s v).1 := by
  unfold setSpinpol; split
  · exact coreDef_congr h rfl rfl
  · exact h

theorem coreDef_setCharge {s : St} (c) (h : CoreDef s) : CoreDef (setCharge s c).1 := by
  have h1 := coreDef_getCore h
  rcases setCharge_cases s c with ⟨_, hs⟩ | ⟨_, _, hs⟩ | ⟨a, _, _, hs⟩ <;> rw [hs]
  · exact h1
  · exact coreDef_congr h1 rfl rfl
  · exact coreDef_setNelec _ h1

theorem coreDef_andThen {r : St × Option Err} {f : St → St × Option Err} (h : CoreDef r.1)
    (hf : ∀ s, CoreDef s → CoreDef (f s).1) : CoreDef (andThen r f).1 := by
  unfold andThen; split
  · exact h
  · exact hf _ h

theorem coreDef_construct {a s : St} (ha : a.atcorenums = none) (h : construct a = .ok s) : CoreDef s := by
  unfold construct at h
  split at h
  · have : CoreDef (postInit a).1 := by
      unfold postInit
      refine coreDef_andThen (coreDef_andThen (coreDef_andThen ?_ ?_) ?_) ?_
      · unfold replayCore; rw [ha]; exact Or.inl ha
      · intro s h; unfold replayCharge; split
        · exact coreDef_setCharge _ h
        · exact h
      · intro s h; unfold replayNelec; split
        · exact coreDef_setNelec _ h
        · exact h
      · intro s h; unfold replaySpinpol; split
        · exact coreDef_setSpinpol _ h
        · exact h
    rcases hp : postInit a with ⟨s', _ | e⟩
    · rw [hp] at h this; simp at h; subst h; exact this
    · rw [hp] at h; simp at h
  · simp at h

theorem coreDef_step {s : St} (op : Op) (hop : usesDefault op = true) (h : CoreDef s) :
    CoreDef (step s op).1 := by
  cases op with
  | construct a =>
    simp only [step]
    cases hc : construct a with
    | ok s' =>
      have : a.atcorenums = none := by simpa [usesDefault] using hop
      exact coreDef_construct this hc
    | error e => exact h
  | setArr f v =>
    simp only [step, setArr]
    cases v with
    | none => cases f <;> exact coreDef_congr h rfl rfl
    | some a => simp only; split
                · cases f <;> exact coreDef_congr h rfl rfl
                · exact h
  | setAtnums v => simp [usesDefault] at hop
  | setCore v =>
    cases v with
    | none => left; simp [step, setCore]
    | some a => simp [usesDefault] at hop
  | setCharge v => exact coreDef_setCharge v h
  | setNelec v => exact coreDef_setNelec v h
  | setSpinpol v => exact coreDef_setSpinpol v h
  | setMo m => exact coreDef_congr h rfl rfl
  | getCore => exact coreDef_getCore h
  | getCharge => simp only [step]; rw [getCharge_state]; exact coreDef_getCore h
  | getNelec => exact h
  | getSpinpol => exact h
  | getNatom => exact h

theorem coreDef_run {s : St} (ops : List Op) (hops : ∀ op ∈ ops, usesDefault op = true) (h : CoreDef s) :
    CoreDef (run s ops) := by
  induction ops generalizing s with
  | nil => exact h
  | cons op t ih =>
    exact ih (fun o ho => hops o (List.mem_cons_of_mem _ ho)) (coreDef_step op (hops op (by simp)) h)

theorem coreDef_read {s : St} (ha : Agree s) (h : CoreDef s) :
    (getCore s).1 = s.atnums.map toFloat := by
  rw [getCore_val]
  cases hc : s.atcorenums with
  | some a =>
    rcases h with h | h
    · rw [hc] at h; cases h
    · rw [hc] at h; cases hz : s.atnums <;> simp [hz] at h ⊢ <;> exact h
  | none =>
    cases hz : s.atnums with
    | none => rfl
    | some z =>
      have hl : lenOf s .atnums = some z.length := by simp [lenOf, hz]
      simp [shapeOk, natom_eq_of_agree ha hl]

end Iodata.IOD
