/- Helper lemmas for C07 (parser part): the exact outcome of the `load_one` funnel for a parser that makes `k`
   successful reads, the line-counter invariant of the reader monad, and the composition reader ∘ funnel. -/
import Iodata.Lemmas.FlowLoad
import Iodata.Model.Rd.All
set_option linter.unusedSimpArgs false
set_option linter.unusedVariables false

namespace Iodata.Flow
open Ref

/-- `k` reads on a file that has them: all succeed -/
theorem runOps_replicate (k : Nat) (l : LineIt) (tr : List Ev) (hs : l.stack = 0) (hk : l.pos + k ≤ l.nlines) :
    runOps (List.replicate k true) l tr
      = (true, { l with lineno := l.lineno + k, pos := l.pos + k }, List.replicate k .next ++ tr) := by
  induction k generalizing l tr with
  | zero => simp [runOps]
  | succ k ih =>
    have hlt : l.pos < l.nlines := by omega
    have hn : l.next = (true, { l with lineno := l.lineno + 1, pos := l.pos + 1 }) := by
      simp [LineIt.next, hs, hlt]
    rw [List.replicate_succ, runOps, hn]
    dsimp only
    have h2 := ih ⟨l.lineno + 1, l.stack, l.pos + 1, l.nlines⟩ (.next :: tr) hs (by simp; omega)
    rw [h2]
    simp only [Prod.mk.injEq, true_and]
    refine ⟨?_, ?_⟩
    · simp; constructor <;> omega
    · rw [List.replicate_succ']; simp

/-- what the `load_one` funnel returns for a parser that read `k` lines and then returned / raised, followed by
the constructor -/
def oneOutcome (it : Item) (k : Nat) : Out :=
  match it.res with
  | some e => funnelLoad e k
  | none =>
    match it.ctor with
    | some e => funnelLoad e k
    | none => .ret

/-- **exact outcome of `load_one`** for a parser whose `k` reads all succeed -/
theorem load_one_exact (it : Item) (n k : Nat) (path : Nat) (fs : FS)
    (hops : it.ops = List.replicate k true) (hk : k ≤ n) :
    (runLoadOne loadOne { nlines := n, items := [it] } path fs).1 = oneOutcome it k := by
  have hr := runOps_replicate k { nlines := n } [Ev.openR] rfl (by simpa using hk)
  unfold runLoadOne loadOne oneOutcome
  rw [exec_seq]
  simp only [exec, execCall, raiseB]
  simp only [openFile, runItem, List.headD, hops, hr]
  cases hres : it.res with
  | some e =>
    cases e <;> simp [raiseB, pep, execH, Pat.matches, Exc.isException, funnelLoad, exec, hres]
  | none =>
    simp only [raiseB, Option.map, if_true]
    cases hc : it.ctor with
    | none => simp [exec, execCall, raiseB, hc, hres]
    | some e =>
      cases e <;> simp [exec, execCall, raiseB, hc, hres, execH, Pat.matches, Exc.isException, funnelLoad]

end Iodata.Flow

namespace Iodata.Rd
open Iodata.Chars

/-! ### bind inversion -/

theorem bind_ok {α β} {m : RM α} {f : α → RM β} {l l' : Lit} {b : β}
    (h : RM.bind m f l = (.ok b, l')) : ∃ a l1, m l = (.ok a, l1) ∧ f a l1 = (.ok b, l') := by
  unfold RM.bind at h
  rcases hm : m l with ⟨r, l1⟩
  rw [hm] at h
  cases r with
  | ok a => exact ⟨a, l1, rfl, h⟩
  | error e => simp at h

theorem liftE_ok {α} {e : Except Cls α} {l l' : Lit} {a : α} (h : liftE e l = (.ok a, l')) :
    e = .ok a ∧ l' = l := by
  cases e with
  | ok x => simp [liftE, RM.pure] at h; exact ⟨by rw [h.1], h.2.symm⟩
  | error c => simp [liftE, raise] at h

theorem pure_ok {α} {a b : α} {l l' : Lit} (h : (RM.pure a : RM α) l = (.ok b, l')) : a = b ∧ l' = l := by
  simp [RM.pure] at h; exact ⟨h.1, h.2.symm⟩

/-! ### the line counter: every line is read at most once and the end is hit at most once -/

/-- nothing has run off the end: `lineno` lines are consumed -/
def Clean (total : Nat) (l : Lit) : Prop := l.lineno + l.rest.length = total
/-- … or the end of the file was hit exactly once (`lineno = N + 1`) -/
def Wf (total : Nat) (l : Lit) : Prop := Clean total l ∨ (l.rest = [] ∧ l.lineno = total + 1)

/-- a parser piece that can be followed by further reads: it returns in a clean state, further on in the file -/
def Good {α} (m : RM α) : Prop :=
  ∀ total l, Clean total l → match m l with
    | (.ok _, l') => Clean total l' ∧ l.lineno ≤ l'.lineno
    | (.error _, l') => Wf total l'

/-- a final parser piece: whatever it does, the counter is consistent at the end -/
def Fin {α} (m : RM α) : Prop := ∀ total l, Clean total l → Wf total (m l).2

theorem Good.fin {α} {m : RM α} (h : Good m) : Fin m := by
  intro total l hl
  have := h total l hl
  rcases hm : m l with ⟨r, l'⟩
  rw [hm] at this
  cases r with
  | ok a => exact Or.inl this.1
  | error e => exact this

theorem good_pure {α} (a : α) : Good (RM.pure a : RM α) := by
  intro total l hl; exact ⟨hl, Nat.le_refl _⟩

theorem good_raise {α} (c : Cls) : Good (raise c : RM α) := by
  intro total l hl; show Wf total l; exact Or.inl hl

theorem good_liftE {α} (e : Except Cls α) : Good (liftE e) := by
  cases e with
  | ok a => exact good_pure a
  | error c => exact good_raise c

theorem good_liftO {α} (c : Cls) (o : Option α) : Good (liftO c o) := by
  cases o with
  | some a => exact good_pure a
  | none => exact good_raise c

theorem good_next : Good nextLine := by
  intro total l hl
  unfold nextLine
  rcases l with ⟨rest, k⟩
  cases rest with
  | nil => simp [Clean] at hl ⊢; right; simp [Wf, Clean, hl]
  | cons x r => simp [Clean] at hl ⊢; omega

theorem good_bind {α β} {m : RM α} {f : α → RM β} (hm : Good m) (hf : ∀ a, Good (f a)) :
    Good (RM.bind m f) := by
  intro total l hl
  have h1 := hm total l hl
  unfold RM.bind
  rcases hml : m l with ⟨r, l1⟩
  rw [hml] at h1
  cases r with
  | ok a =>
    have h2 := hf a total l1 h1.1
    dsimp only
    rcases hfl : f a l1 with ⟨r2, l2⟩
    rw [hfl] at h2
    cases r2 with
    | ok b => exact ⟨h2.1, Nat.le_trans h1.2 h2.2⟩
    | error e => exact h2
  | error e => exact h1

theorem fin_bind {α β} {m : RM α} {f : α → RM β} (hm : Good m) (hf : ∀ a, Fin (f a)) :
    Fin (RM.bind m f) := by
  intro total l hl
  have h1 := hm total l hl
  unfold RM.bind
  rcases hml : m l with ⟨r, l1⟩
  rw [hml] at h1
  cases r with
  | ok a => exact hf a total l1 h1.1
  | error e => exact h1

theorem good_ite {α} {c : Prop} [Decidable c] {a b : RM α} (ha : Good a) (hb : Good b) :
    Good (if c then a else b) := by
  by_cases h : c <;> simp [h, ha, hb]

theorem good_repeatN {body : RM Unit} (hb : Good body) (n : Nat) : Good (repeatN body n) := by
  induction n with
  | zero => exact good_pure ()
  | succ n ih => exact good_bind hb (fun _ => ih)

theorem good_foldN {σ} {body : σ → RM σ} (hb : ∀ s, Good (body s)) (n : Nat) (s : σ) :
    Good (foldN body n s) := by
  induction n generalizing s with
  | zero => exact good_pure s
  | succ n ih => exact good_bind (hb s) (fun s' => ih s')

/-- **termination measure**: a reader whose counter stays consistent made at most `N + 1` reads -/
theorem run_lineno_le {α} {m : RM α} (h : Fin m) (ls : List Str) : (run m ls).lineno ≤ ls.length + 1 := by
  have := h ls.length ⟨ls, 0⟩ (by simp [Clean])
  unfold run
  rcases hm : m ⟨ls, 0⟩ with ⟨r, l'⟩
  rw [hm] at this
  rcases this with h1 | ⟨_, h2⟩
  · simp [Clean] at h1 ⊢; omega
  · exact Nat.le_of_eq h2

/-! ### reader ∘ constructor ∘ funnel -/

open Iodata.Flow in
/-- the funnel's view of an exception class -/
def clsExc : Cls → Exc
  | .stopIter => .stopIter
  | .load => .load
  | _ => .other

open Iodata.Flow in
theorem clsExc_isException (c : Cls) : (clsExc c).isException = true := by cases c <;> rfl

open Iodata.Flow in
/-- the parser behaviour the funnel sees: `lineno` reads, then the reader's outcome, then the constructor's -/
def itemOf (r : Out RObj) : Item :=
  { ops := List.replicate r.lineno true
    res := match r.res with | .ok _ => none | .error c => some (clsExc c)
    ctor := match r.res with | .ok o => (ctorE o).map clsExc | .error _ => none }

open Iodata.Flow in
/-- `load_one` applied to a file of `n` lines whose parser behaves as `r`.  A parser that *catches* the
`StopIteration` of a read past the end (MOL2, PDB, SDF) is, for the funnel, a parser on a file with an extra
readable line: `nlines` is `max n r.lineno`, so the `r.lineno` reads are exactly the reads the funnel counts. -/
def behOf (r : Out RObj) (n : Nat) : Beh := { nlines := max n r.lineno, items := [itemOf r] }

open Iodata.Flow in
/-- what `iodata.api.load_one` returns for reader outcome `r` -/
def apiOutcome (r : Out RObj) : Flow.Out :=
  match r.res with
  | .ok o => if ctorOk o then .ret else .raised .load (some r.lineno)
  | .error .load => .raised .load none
  | .error _ => .raised .load (some r.lineno)

open Iodata.Flow Iodata.Flow.Ref in
/-- **funnel composition** for any reader outcome: object, or `LoadError` carrying the reader's line number
(a `LoadError` raised by the parser itself passes unchanged); never another class. -/
theorem api_of_out (r : Out RObj) (n path : Nat) (fs : FS) :
    (runLoadOne loadOne (behOf r n) path fs).1 = apiOutcome r := by
  have h := load_one_exact (itemOf r) (max n r.lineno) r.lineno path fs rfl (Nat.le_max_right _ _)
  unfold behOf
  rw [h]
  unfold oneOutcome itemOf apiOutcome
  rcases r with ⟨res, k⟩
  cases res with
  | ok o =>
    simp only [ctorE]
    by_cases hc : ctorOk o = true
    · simp [hc]
    · simp [hc, clsExc, funnelLoad, Exc.isException]
  | error c => cases c <;> simp [clsExc, funnelLoad, Exc.isException]

end Iodata.Rd

namespace Iodata.Rd

/-! ### the constructor's validators imply consistent shapes -/

theorem shapeMatch_one {a : Nat} {s : List Nat} (h : shapeMatch [some a] s = true) : s = [a] := by
  rcases s with _ | ⟨x, _ | ⟨y, t⟩⟩ <;> simp [shapeMatch] at h ⊢
  exact h.symm

theorem shapeMatch_two {a b : Nat} {s : List Nat} (h : shapeMatch [some a, some b] s = true) : s = [a, b] := by
  rcases s with _ | ⟨x, _ | ⟨y, _ | ⟨z, t⟩⟩⟩ <;> simp [shapeMatch] at h ⊢
  exact ⟨h.1.symm, h.2.symm⟩

theorem shapeMatch_any3 {s : List Nat} (h : shapeMatch [none, some 3] s = true) : ∃ m, s = [m, 3] := by
  rcases s with _ | ⟨x, _ | ⟨y, _ | ⟨z, t⟩⟩⟩ <;> simp [shapeMatch] at h ⊢
  exact h.symm

/-- **iodata_ctor_shapes**: a result dictionary that passes the validators of `IOData.__init__` has mutually
consistent per-atom shapes (`natom` from the priority list atcoords, atcorenums, atmasses, atnums). -/
theorem ctorOk_consistent (o : RObj) (n : Nat) (hn : o.natom = some n) (h : ctorOk o = true) :
    o.Consistent n := by
  unfold ctorOk at h
  simp only [Bool.and_eq_true] at h
  obtain ⟨⟨⟨⟨⟨⟨h1, h2⟩, h3⟩, h4⟩, h5⟩, h6⟩, h7⟩ := h
  rw [hn] at h1 h2 h3 h4 h7
  refine ⟨?_, ?_, ?_, ?_, ?_, ?_, ?_⟩
  · intro s hs; rw [hs] at h2; exact shapeMatch_two h2
  · intro s hs; rw [hs] at h4; exact shapeMatch_one h4
  · intro s hs; rw [hs] at h3; exact shapeMatch_one h3
  · intro k hk; simp only [List.all_eq_true] at h1; simpa using h1 k hk
  · intro s hs; rw [hs] at h5; exact shapeMatch_any3 h5
  · intro s hs; rw [hs] at h6; exact shapeMatch_any3 h6
  · intro s hs; rw [hs] at h7; exact shapeMatch_one h7

end Iodata.Rd
