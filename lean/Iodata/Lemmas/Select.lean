/- Helper lemmas and specification-side definitions for C17 (`Iodata/Props/C17.lean`). -/
import Iodata.Model.Select
import Mathlib.Data.List.Basic

namespace Iodata.Select

/-- What `fnmatch` means for patterns of literals and `*`: `*` stands for any (possibly empty) run of
characters, every other pattern character for itself. -/
inductive GlobMatch : Str → Str → Prop
  | nil : GlobMatch [] []
  | star (p s1 s2 s : Str) : s = s1 ++ s2 → GlobMatch p s2 → GlobMatch ('*' :: p) s
  | lit (c : Char) (p s : Str) : c ≠ '*' → GlobMatch p s → GlobMatch (c :: p) (c :: s)

lemma mem_suffixes (t s : Str) : t ∈ suffixes s ↔ ∃ s1, s = s1 ++ t := by
  induction s with
  | nil =>
    simp only [suffixes, List.mem_singleton]
    constructor
    · rintro rfl; exact ⟨[], rfl⟩
    · rintro ⟨s1, h⟩
      have := List.append_eq_nil_iff.mp h.symm
      exact this.2
  | cons c s ih =>
    simp only [suffixes, List.mem_cons, ih]
    constructor
    · rintro (rfl | ⟨s1, rfl⟩)
      · exact ⟨[], rfl⟩
      · exact ⟨c :: s1, rfl⟩
    · rintro ⟨s1, h⟩
      cases s1 with
      | nil => left; simpa using h.symm
      | cons d s1 =>
        right
        simp only [List.cons_append, List.cons.injEq] at h
        exact ⟨s1, h.2⟩

lemma glob_nil (s : Str) : glob [] s = s.isEmpty := by
  unfold glob; rfl

lemma glob_star (p s : Str) : glob ('*' :: p) s = (suffixes s).any (glob p) := by
  rw [glob]

lemma glob_lit (c : Char) (hc : c ≠ '*') (p s : Str) :
    glob (c :: p) s = match s with
      | [] => false
      | d :: s' => c == d && glob p s' := by
  conv_lhs => unfold glob
  split
  · rename_i h; cases h
  · rename_i h; simp only [List.cons.injEq] at h; exact absurd h.1 hc
  · rename_i h; simp only [List.cons.injEq] at h; obtain ⟨⟨rfl, rfl⟩, rfl⟩ := h; rfl

lemma glob_iff (p s : Str) : glob p s = true ↔ GlobMatch p s := by
  induction p generalizing s with
  | nil =>
    rw [glob_nil]
    constructor
    · intro h
      cases s with
      | nil => exact .nil
      | cons _ _ => simp at h
    · intro h; cases h; rfl
  | cons c p ih =>
    by_cases hc : c = '*'
    · subst hc
      rw [glob_star, List.any_eq_true]
      constructor
      · rintro ⟨t, ht, hg⟩
        obtain ⟨s1, rfl⟩ := (mem_suffixes t s).mp ht
        exact .star p s1 t _ rfl ((ih t).mp hg)
      · intro h
        cases h with
        | star _ s1 s2 _ hs h' => exact ⟨s2, (mem_suffixes _ _).mpr ⟨s1, hs⟩, (ih s2).mpr h'⟩
        | lit _ _ _ hne _ => exact absurd rfl hne
    · rw [glob_lit c hc]
      cases s with
      | nil =>
        simp only [Bool.false_eq_true, false_iff]
        intro h; cases h
        case star => exact hc rfl
      | cons d s' =>
        simp only [Bool.and_eq_true, beq_iff_eq]
        constructor
        · rintro ⟨rfl, hg⟩
          exact .lit c p s' hc ((ih s').mp hg)
        · intro h
          cases h with
          | star => exact absurd rfl hc
          | lit _ _ _ _ h' => exact ⟨rfl, (ih s').mpr h'⟩

lemma takeWhile_append_of_all {α : Type} (q : α → Bool) (l1 l2 : List α) (h : ∀ x ∈ l1, q x = true) :
    (l1 ++ l2).takeWhile q = l1 ++ l2.takeWhile q := by
  induction l1 with
  | nil => rfl
  | cons a l ih =>
    have ha : q a = true := h a (by simp)
    simp only [List.cons_append, List.takeWhile_cons, ha, if_true]
    rw [ih (fun x hx => h x (by simp [hx]))]

end Iodata.Select
