/- Helper lemmas for C10 (convention conversion). -/
import Iodata.Model.Conv

set_option linter.unusedSectionVars false
set_option linter.unusedSimpArgs false

namespace Iodata.Conv
variable {β : Type} [DecidableEq β]

theorem sgnB_mul_self (b : Bool) : sgnB b * sgnB b = 1 := by cases b <;> simp [sgnB]

theorem sgnB_ne_zero (b : Bool) : sgnB b ≠ 0 := by cases b <;> simp [sgnB]

@[simp] theorem labels_length (c : List (Bool × β)) : (labels c).length = c.length := by simp [labels]
@[simp] theorem signs_length (c : List (Bool × β)) : (signs c).length = c.length := by simp [signs]
@[simp] theorem convFwd_length (c1 c2 : List (Bool × β)) : (convFwd c1 c2).length = c2.length := by
  simp [convFwd]
@[simp] theorem apply_length (r : List (Nat × Int)) (v : List Int) : (apply r v).length = r.length := by
  simp [apply]

/-- position of the `i`-th element of a duplicate-free list -/
theorem idxOf_getElem_of_nodup {α : Type} [DecidableEq α] :
    ∀ (l : List α), l.Nodup → ∀ (i : Nat) (h : i < l.length), l.idxOf l[i] = i
  | [], _, i, h => by simp at h
  | a :: l, hn, i, h => by
    have hn' := List.nodup_cons.mp hn
    cases i with
    | zero => simp [List.idxOf_cons]
    | succ i =>
      have hi : i < l.length := by simpa using h
      have hne : ¬ (a = l[i]) := fun e => hn'.1 (e ▸ List.getElem_mem hi)
      have ih := idxOf_getElem_of_nodup l hn'.2 i hi
      simp only [List.getElem_cons_succ, List.idxOf_cons]
      have : (a == l[i]) = false := by simpa using hne
      simp [this, ih]

def Compatible (c1 c2 : List (Bool × β)) : Prop :=
  c1.length = c2.length ∧ (labels c1).Nodup ∧ (labels c2).Nodup ∧ (∀ x, x ∈ labels c1 ↔ x ∈ labels c2)

theorem Compatible.symm {c1 c2 : List (Bool × β)} (h : Compatible c1 c2) : Compatible c2 c1 :=
  ⟨h.1.symm, h.2.2.1, h.2.1, fun x => (h.2.2.2 x).symm⟩

theorem Compatible.trans {c1 c2 c3 : List (Bool × β)} (h : Compatible c1 c2) (h' : Compatible c2 c3) :
    Compatible c1 c3 :=
  ⟨h.1.trans h'.1, h.2.1, h'.2.2.1, fun x => (h.2.2.2 x).trans (h'.2.2.2 x)⟩

theorem guards_ok_iff (c1 c2 : List (Bool × β)) : guards c1 c2 = .ok () ↔ Compatible c1 c2 := by
  unfold guards Compatible
  by_cases h1 : c1.length = c2.length
  · by_cases h2 : (labels c1).Nodup
    · by_cases h3 : (labels c2).Nodup
      · by_cases h4 : ((labels c1).all (fun x => (labels c2).contains x) ∧
            (labels c2).all (fun x => (labels c1).contains x))
        · simp only [h1, h2, h3, h4]
          simp only [List.all_eq_true, List.contains_iff_mem] at h4
          simp
          intro x; exact ⟨h4.1 x, h4.2 x⟩
        · simp only [h1, h2, h3, h4]
          simp only [List.all_eq_true, List.contains_iff_mem] at h4
          constructor
          · intro hh; simp at hh
          · rintro ⟨_, _, _, hx⟩
            exact absurd ⟨fun x => (hx x).mp, fun x => (hx x).mpr⟩ h4
      · simp [h1, h2, h3]
    · simp [h1, h2]
  · simp [h1]

theorem guards_error_ne_key (c1 c2 : List (Bool × β)) (e : Err) (h : guards c1 c2 = .error e) :
    e ≠ .keyError := by
  unfold guards at h
  split at h
  · cases h; simp
  · split at h
    · cases h; simp
    · split at h
      · cases h; simp
      · split at h
        · cases h; simp
        · cases h

/-- value lookup in a mapped list through `getD` -/
theorem getD_map_zero {α : Type} (f : α → Int) (l : List α) (j : Nat) :
    (l.map f).getD j 0 = match l[j]? with | some a => f a | none => 0 := by
  rw [List.getD_eq_getElem?_getD, List.getElem?_map]
  cases l[j]? <;> simp

/-- Key lemma A: converting preserves the coefficient of every unsigned function. -/
theorem val_apply_convFwd {c1 c2 : List (Bool × β)} (h : Compatible c1 c2) (v : List Int) (x : β) :
    val c2 (apply (convFwd c1 c2) v) x = val c1 v x := by
  obtain ⟨_, _, _, hset⟩ := h
  unfold val apply convFwd signs
  rw [List.map_map, getD_map_zero, getD_map_zero]
  by_cases hx : x ∈ labels c2
  · have hj : (labels c2).idxOf x < c2.length := by
      have := List.idxOf_lt_length_iff.mpr hx; simpa using this
    have hget : (labels c2)[(labels c2).idxOf x]'(by simpa using hj) = x := List.getElem_idxOf _
    rw [List.getElem?_eq_getElem hj]
    have hp : (c2[(labels c2).idxOf x]).2 = x := by
      have := hget
      simp only [labels, List.getElem_map] at this
      exact this
    simp only [Function.comp, hp]
    have := sgnB_mul_self (c2[(labels c2).idxOf x]).1
    grind
  · have hx1 : x ∉ labels c1 := fun hh => hx ((hset x).mp hh)
    have e2 : (labels c2).idxOf x = c2.length := by
      rw [List.idxOf_eq_length hx]; simp
    have e1 : (labels c1).idxOf x = c1.length := by
      rw [List.idxOf_eq_length hx1]; simp
    rw [e2, e1]
    simp

/-- Key lemma B: the coefficients of the unsigned functions determine the vector. -/
theorem val_ext {c : List (Bool × β)} (hn : (labels c).Nodup) {v w : List Int}
    (hv : v.length = c.length) (hw : w.length = c.length)
    (h : ∀ x, val c v x = val c w x) : v = w := by
  apply List.ext_getElem (hv.trans hw.symm)
  intro i h1 h2
  have hi : i < c.length := hv ▸ h1
  have hil : i < (labels c).length := by simpa using hi
  have hx := h ((labels c)[i])
  unfold val at hx
  rw [idxOf_getElem_of_nodup _ hn i hil] at hx
  unfold signs at hx
  rw [getD_map_zero] at hx
  rw [List.getElem?_eq_getElem hi] at hx
  simp only [List.getD_eq_getElem?_getD, List.getElem?_eq_getElem h1, List.getElem?_eq_getElem h2,
    Option.getD_some] at hx
  exact Int.eq_of_mul_eq_mul_left (sgnB_ne_zero _) hx

end Iodata.Conv
