/- Helper lemmas and the hand-written reference for C05 (the property theorems are in Props/C05.lean). -/
import Iodata.Model.Cascade

namespace Iodata.Cascade

/-- The correction (basis fix, coefficient fix) that each warning text names. -/
def Warn.names : Warn → Option (BasisFix × CoeffFix)
  | .orca => some (.orca, .raw)
  | .psi4old => some (.psi4old, .raw)
  | .turbomole => some (.turbomole, .raw)
  | .cfour => some (.raw, .cfour)
  | .unnorm => some (.normalize, .raw)
  | .psi4new => some (.normalize, .psi4new)
  | .other => none

namespace Ref

/-- Hand-written reference of the cascade (reviewed against molden.py:668-763).  Order matters:
ORCA before PSI4<=1.0 (they coincide on s,p), Turbomole before the generic re-normalisation (which would
also repair it but is only "a last resort"), CFOUR before PSI4<=1.3.2. -/
def cascade : List Attempt := [
  { warn := none, testBasis := .raw, testCoeff := .raw, guardBasis := false, guardCoeff := false,
    storeBasis := none, storeCoeff := none },
  { warn := some .orca, testBasis := .orca, testCoeff := .raw, guardBasis := false, guardCoeff := false,
    storeBasis := some .orca, storeCoeff := none },
  { warn := some .psi4old, testBasis := .psi4old, testCoeff := .raw, guardBasis := true, guardCoeff := false,
    storeBasis := some .psi4old, storeCoeff := none },
  { warn := some .turbomole, testBasis := .turbomole, testCoeff := .raw, guardBasis := true, guardCoeff := false,
    storeBasis := some .turbomole, storeCoeff := none },
  { warn := some .cfour, testBasis := .raw, testCoeff := .cfour, guardBasis := false, guardCoeff := true,
    storeBasis := some .raw, storeCoeff := some .cfour },
  { warn := some .unnorm, testBasis := .normalize, testCoeff := .raw, guardBasis := false, guardCoeff := false,
    storeBasis := some .normalize, storeCoeff := none },
  { warn := some .psi4new, testBasis := .normalize, testCoeff := .psi4new, guardBasis := false, guardCoeff := true,
    storeBasis := some .normalize, storeCoeff := some .psi4new }]

/-- monomial whose normalisation constant ORCA folds into the contraction coefficients -/
def orcaMono : Nat → Nat × Nat × Nat
  | 0 => (0, 0, 0) | 1 => (1, 0, 0) | 2 => (1, 1, 0) | 3 => (1, 1, 1) | 4 => (2, 1, 1) | _ => (5, 0, 0)

def orcaScale (s : ShellType) : Scale :=
  if s.1 ≤ 1 ∨ (s.2 = 'p' ∧ s.1 ≤ 5) then .norm (monoQ (orcaMono s.1)) else .one

def psi4oldScale (s : ShellType) : Scale :=
  if s.1 ≤ 1 ∨ (s.2 = 'p' ∧ s.1 ≤ 3) then .norm (oddFact s.1) else .one

def turbomoleScale (s : ShellType) : Scale :=
  if s.2 = 'c' ∧ 2 ≤ s.1 ∧ s.1 ≤ 4 then .const 1 (oddFact s.1) else .one

/-- strip one leading minus sign of a label -/
def strip : List Char → List Char
  | '-' :: r => r
  | l => l

/-- labels ORCA writes with the opposite sign -/
def orcaNegative (s : ShellType) : List (List Char) :=
  if s = (3, 'p') then [['c','3'], ['s','3']]
  else if s = (4, 'p') ∨ s = (5, 'p') then [['c','3'], ['s','3'], ['c','4'], ['s','4']] else []

end Ref

/-- a classified, positive scaling -/
def Scale.okPos : Scale → Bool
  | .one => true | .unit => true | .norm q => 0 < q | .const a b => 0 < a && 0 < b | .unknown => false

theorem lookup_isSome_eq_contains {β : Type} (l : List (ShellType × β)) (k : ShellType) :
    (l.lookup k).isSome = (l.map (·.1)).contains k := by
  induction l with
  | nil => simp
  | cons e rest ih =>
    obtain ⟨k', v⟩ := e
    simp only [List.lookup, List.map_cons, List.contains_cons]
    by_cases h : k == k'
    · simp [h]
    · simp [h, ih]

/-! ### general lemmas about the decision list -/

theorem runFrom_loaded_iff (T : Tables) (sh : List ShellType) (ok : Nat → Bool) (as : List Attempt)
    (i j : Nat) (a : Attempt) :
    runFrom T sh ok i as = .loaded j a ↔
      ∃ k, j = i + k ∧ as[k]? = some a ∧ applicable T sh a = true ∧ ok j = true ∧
        ∀ k' b, k' < k → as[k']? = some b → applicable T sh b = true → ok (i + k') = false := by
  induction as generalizing i with
  | nil => simp [runFrom]
  | cons a0 rest ih =>
    unfold runFrom
    by_cases hap : applicable T sh a0 = true
    · by_cases hok : ok i = true
      · simp only [hap, hok, ↓reduceIte]
        constructor
        · intro h
          injection h with h1 h2
          subst h1; subst h2
          exact ⟨0, by simp, by simp, hap, hok, by intro k' b hk; omega⟩
        · rintro ⟨k, hj, hget, _, _, hprev⟩
          cases k with
          | zero =>
            simp at hget hj
            subst hget; subst hj; rfl
          | succ k =>
            have := hprev 0 a0 (by omega) (by simp) hap
            simp [hok] at this
      · have hok' : ok i = false := by simpa using hok
        simp only [hap, hok', Bool.false_eq_true, ↓reduceIte]
        rw [ih (i + 1)]
        constructor
        · rintro ⟨k, hj, hget, ha, hokj, hprev⟩
          refine ⟨k + 1, by omega, by simpa using hget, ha, hokj, ?_⟩
          intro k' b hk hb hab
          cases k' with
          | zero => simpa using hok'
          | succ k' =>
            have := hprev k' b (by omega) (by simpa using hb) hab
            rw [show i + (k' + 1) = i + 1 + k' by omega]; exact this
        · rintro ⟨k, hj, hget, ha, hokj, hprev⟩
          cases k with
          | zero =>
            simp at hget hj
            subst hget; subst hj
            rw [hok'] at hokj; cases hokj
          | succ k =>
            refine ⟨k, by omega, by simpa using hget, ha, hokj, ?_⟩
            intro k' b hk hb hab
            have := hprev (k' + 1) b (by omega) (by simpa using hb) hab
            rw [show i + 1 + k' = i + (k' + 1) by omega]; exact this
    · have hap' : applicable T sh a0 = false := by simpa using hap
      simp only [hap', Bool.false_eq_true, ↓reduceIte]
      rw [ih (i + 1)]
      constructor
      · rintro ⟨k, hj, hget, ha, hokj, hprev⟩
        refine ⟨k + 1, by omega, by simpa using hget, ha, hokj, ?_⟩
        intro k' b hk hb hab
        cases k' with
        | zero =>
          simp at hb; subst hb; rw [hap'] at hab; cases hab
        | succ k' =>
          have := hprev k' b (by omega) (by simpa using hb) hab
          rw [show i + (k' + 1) = i + 1 + k' by omega]; exact this
      · rintro ⟨k, hj, hget, ha, hokj, hprev⟩
        cases k with
        | zero =>
          simp at hget; subst hget; rw [hap'] at ha; cases ha
        | succ k =>
          refine ⟨k, by omega, by simpa using hget, ha, hokj, ?_⟩
          intro k' b hk hb hab
          have := hprev (k' + 1) b (by omega) (by simpa using hb) hab
          rw [show i + 1 + k' = i + (k' + 1) by omega]; exact this

theorem runFrom_loadError_iff (T : Tables) (sh : List ShellType) (ok : Nat → Bool) (as : List Attempt) (i : Nat) :
    runFrom T sh ok i as = .loadError ↔
      ∀ k b, as[k]? = some b → applicable T sh b = true → ok (i + k) = false := by
  induction as generalizing i with
  | nil => simp [runFrom]
  | cons a0 rest ih =>
    unfold runFrom
    by_cases hap : applicable T sh a0 = true
    · by_cases hok : ok i = true
      · simp only [hap, hok, ↓reduceIte]
        constructor
        · intro h; cases h
        · intro h
          have := h 0 a0 (by simp) hap
          simp [hok] at this
      · have hok' : ok i = false := by simpa using hok
        simp only [hap, hok', Bool.false_eq_true, ↓reduceIte]
        rw [ih (i + 1)]
        constructor
        · intro h k b hb hab
          cases k with
          | zero => simpa using hok'
          | succ k =>
            have := h k b (by simpa using hb) hab
            rw [show i + (k + 1) = i + 1 + k by omega]; exact this
        · intro h k b hb hab
          have := h (k + 1) b (by simpa using hb) hab
          rw [show i + 1 + k = i + (k + 1) by omega]; exact this
    · have hap' : applicable T sh a0 = false := by simpa using hap
      simp only [hap', Bool.false_eq_true, ↓reduceIte]
      rw [ih (i + 1)]
      constructor
      · intro h k b hb hab
        cases k with
        | zero => simp at hb; subst hb; rw [hap'] at hab; cases hab
        | succ k =>
          have := h k b (by simpa using hb) hab
          rw [show i + (k + 1) = i + 1 + k by omega]; exact this
      · intro h k b hb hab
        have := h (k + 1) b (by simpa using hb) hab
        rw [show i + 1 + k = i + (k + 1) by omega]; exact this

/-- every executed norm test is recorded with its real result -/
theorem testsFrom_mem (T : Tables) (sh : List ShellType) (ok : Nat → Bool) (as : List Attempt) (i : Nat)
    (t : Nat × Bool) (h : t ∈ testsFrom T sh ok i as) :
    t.2 = ok t.1 ∧ ∃ k a, t.1 = i + k ∧ as[k]? = some a ∧ applicable T sh a = true := by
  induction as generalizing i with
  | nil => simp [testsFrom] at h
  | cons a0 rest ih =>
    unfold testsFrom at h
    by_cases hap : applicable T sh a0 = true
    · by_cases hok : ok i = true
      · simp only [hap, hok, ↓reduceIte, List.mem_singleton] at h
        subst h
        exact ⟨hok.symm, 0, a0, by simp, by simp, hap⟩
      · have hok' : ok i = false := by simpa using hok
        simp only [hap, hok', Bool.false_eq_true, ↓reduceIte, List.mem_cons] at h
        rcases h with h | h
        · subst h
          exact ⟨hok'.symm, 0, a0, by simp, by simp, hap⟩
        · obtain ⟨h1, k, a, hk, hget, ha⟩ := ih (i + 1) h
          exact ⟨h1, k + 1, a, by omega, by simpa using hget, ha⟩
    · have hap' : applicable T sh a0 = false := by simpa using hap
      simp only [hap', Bool.false_eq_true, ↓reduceIte] at h
      obtain ⟨h1, k, a, hk, hget, ha⟩ := ih (i + 1) h
      exact ⟨h1, k + 1, a, by omega, by simpa using hget, ha⟩

end Iodata.Cascade
