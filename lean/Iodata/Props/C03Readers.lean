/-
C03 for the reader-only formats — loaded values are exactly what the file says under the published layout.

Property theorems only.  Per format: the reader in the source transcribed (`Model/FmtR/*`, constants taken
from the source through `Gen/LayoutsR`), an independent renderer of the published layout (`spec…`), and
`load (specRender m) = ok m` for every model in an explicit domain.
-/
import Iodata.Lemmas.FmtR.GaussianLog
import Iodata.Gen.LayoutsR

namespace Iodata.Props.C03Readers
open Iodata.Chars Iodata.Decimal Iodata.Fmt Iodata.FmtR Iodata.Gen.LayoutsR

/-! ## numbers -/

/-- `float(text)` of a printed decimal is that decimal, exactly: every mantissa, exponent and sign, Fortran
`E`/`e` exponents with or without the leading zero (`-.5E+01`), plain fixed point, any blank padding. -/
theorem float_of_printed (st : Style) (x : Num) (h : StyleOK st x) (p q : Str) (hp : AllWs p) (hq : AllWs q) :
    pyFloat (p ++ (renderNum st x ++ q)) = some x :=
  pyFloat_renderNum st x h p q hp hq

/-- Fortran `D` exponents after `.replace("D", "E")`. -/
theorem float_of_printed_D (d : Nat) (x : Num) (p q : Str) (hp : AllWs p) (hq : AllWs q) :
    pyFloat (p ++ (replaceDE (renderNum (GLog.stD d) x) ++ q)) = some x :=
  GLog.pyFloat_D d x p q hp hq

/-! ## Gaussian log matrices -/

/-- T1: the statements of `load_one`, `_load_twoindex_g09`, `_load_fourindex_g09` are the ones the model
transcribes, and the extracted constants (block step 5, one label word, six skipped lines, slices 3:7 9:13 15:19
21:25 29:, index order `i0, i2, i1, i3`) are those of the published layout. -/
theorem glog_source_shape : glogSkel = GLog.expectedSkel ∧ GLog.LayoutOK glogL := by decide +kernel

/-- Two-index matrices, **every size `n`**: `_load_twoindex_g09` on the lower triangle printed in blocks of five
columns (`D14.6`, any entries that fit their column) consumes exactly the matrix lines and leaves an array whose
element `(r, c)` is the printed entry `(max r c, min r c)` — the blocks reconstruct the lower triangle, the fill is
symmetric, and nothing outside the `n × n` square is written. -/
theorem glog_twoindex_spec (L : GLog.Layout) (hL : GLog.LayoutOK L) (S : GLog.Spec) (hP : S.perBlock = 5) (n : Nat)
    (f : Nat → Nat → Num) (hfit : ∀ r c, GLog.FitsTwo S (f r c)) (rest : List Str) :
    ∃ A, GLog.loadTwo L n (GLog.specTwo S n f ++ rest) = .ok (A, rest) ∧
      (∀ r c, r < n → c < n → getA GLog.zero A (r, c) = f (max r c) (min r c)) ∧
      (∀ kv ∈ A, kv.1.1 < n ∧ kv.1.2 < n) :=
  ⟨GLog.allAssigns S f n, GLog.loadTwo_spec L S n f rest hL.1 hL.2.1 hP hfit,
    fun r c hr hc => GLog.getA_allAssigns S f n hP r c hr hc, GLog.allAssigns_in_range S f n hP⟩

/-- Four-index integrals: every printed line ` I= J= K= L= Int=` (chemists' `(ij|kl)`) is stored at the eight
symmetry-related positions of `<ik|jl>`; an element in the orbit of a printed entry holds that entry's value, all
other elements stay zero; the line that ends the list is consumed. -/
theorem glog_fourindex_spec (L : GLog.Layout) (hL : GLog.LayoutOK L) (S : GLog.Spec) (hw : S.idxW = 3) (n : Nat)
    (pre : List Str) (term : Str) (rest : List Str) (hpre : pre.length = 6)
    (hterm : startsWith [' ','I','='] term = false) (es : List (Helpers.Idx × Num))
    (h : ∀ e ∈ es, GLog.FitsFour S e ∧ e.1.1 < n ∧ e.1.2.1 < n ∧ e.1.2.2.1 < n ∧ e.1.2.2.2 < n) :
    ∃ A, GLog.loadFour L n (GLog.specFour S pre es term ++ rest) = .ok (A, rest) ∧
      (∀ e ∈ es, ∀ p ∈ GLog.orbit e.1, (∀ e' ∈ es, p ∈ GLog.orbit e'.1 → e'.2 = e.2) → getA GLog.zero A p = e.2) ∧
      (∀ p, (∀ e ∈ es, p ∉ GLog.orbit e.1) → getA GLog.zero A p = GLog.zero) :=
  ⟨GLog.fourAssigns es, GLog.loadFour_spec L S hL hw n pre term rest hpre hterm es h,
    fun e he p hp hc => GLog.getA_fourAssigns es e he p hp hc, fun p hp => GLog.getA_fourAssigns_zero es p hp⟩

/-- the orbit used by the loader is the 8-fold symmetry class of C20 (`Helpers.written`) of the physicists' index -/
example : GLog.orbit (5, 1, 4, 0) = Helpers.written 5 4 1 0 := rfl

/-- non-vacuity: the entries of the repository's fixture fit their columns; a 5 × 5 matrix is one block, a 6 × 6
matrix two -/
example : GLog.FitsTwo GLog.g09 ⟨true, 131980, -6⟩ ∧ GLog.FitsTwo GLog.g09 ⟨false, 999999, 93⟩ ∧
    (GLog.specTwo GLog.g09 5 (fun _ _ => GLog.zero)).length = 6 ∧
    (GLog.specTwo GLog.g09 6 (fun _ _ => GLog.zero)).length = 9 := by decide +kernel

end Iodata.Props.C03Readers
