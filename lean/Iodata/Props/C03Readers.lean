/-
C03 for the reader-only formats — loaded values are exactly what the file says under the published layout.

Property theorems only.  Per format: the reader in the source transcribed (`Model/FmtR/*`, constants taken
from the source through `Gen/LayoutsR`), an independent renderer of the published layout (`spec…`), and
`load (specRender m) = ok m` for every model in an explicit domain.
-/
import Iodata.Lemmas.FmtR.GaussianLog
import Iodata.Lemmas.FmtR.Vasp
import Iodata.Lemmas.FmtR.Crd
import Iodata.Lemmas.FmtR.ExtXyz
import Iodata.Gen.LayoutsR
import Iodata.Gen.Layouts
import Iodata.Gen.Conventions

namespace Iodata.Props.C03Readers
open Iodata.Chars Iodata.Decimal Iodata.Fmt Iodata.FmtR Iodata.Gen.LayoutsR

/-! ## numbers -/

/-- `float(text)` of a printed decimal is that decimal, exactly: every mantissa, exponent and sign, Fortran
`E`/`e` exponents with or without the leading zero (`-.5E+01`), plain fixed point, any blank padding. -/
theorem float_of_printed (st : Style) (x : Num) (h : StyleOK st x) (p q : Str) (hp : AllWs p) (hq : AllWs q) :
    pyFloat (p ++ (renderNum st x ++ q)) = some x :=
  pyFloat_renderNum st x h p q hp hq

/-- Fortran `D` exponents after `.replace("D", "E")`. -/
theorem float_of_printed_D (d : Nat) (x : Num) (p q : Str) (hp : AllWs p) (hq : AllWs q) :
    pyFloat (p ++ (replaceDE (renderNum (GLog.stD d) x) ++ q)) = some x :=
  GLog.pyFloat_D d x p q hp hq

/-! ## Gaussian log matrices -/

/-- T1: the statements of `load_one`, `_load_twoindex_g09`, `_load_fourindex_g09` are the ones the model
transcribes, and the extracted constants (block step 5, one label word, six skipped lines, slices 3:7 9:13 15:19
21:25 29:, index order `i0, i2, i1, i3`) are those of the published layout. -/
theorem glog_source_shape : glogSkel = GLog.expectedSkel ∧ GLog.LayoutOK glogL := by decide +kernel

/-- Two-index matrices, **every size `n`**: `_load_twoindex_g09` on the lower triangle printed in blocks of five
columns (`D14.6`, any entries that fit their column) consumes exactly the matrix lines and leaves an array whose
element `(r, c)` is the printed entry `(max r c, min r c)` — the blocks reconstruct the lower triangle, the fill is
symmetric, and nothing outside the `n × n` square is written. -/
theorem glog_twoindex_spec (L : GLog.Layout) (hL : GLog.LayoutOK L) (S : GLog.Spec) (hP : S.perBlock = 5) (n : Nat)
    (f : Nat → Nat → Num) (hfit : ∀ r c, GLog.FitsTwo S (f r c)) (rest : List Str) :
    ∃ A, GLog.loadTwo L n (GLog.specTwo S n f ++ rest) = .ok (A, rest) ∧
      (∀ r c, r < n → c < n → getA GLog.zero A (r, c) = f (max r c) (min r c)) ∧
      (∀ kv ∈ A, kv.1.1 < n ∧ kv.1.2 < n) :=
  ⟨GLog.allAssigns S f n, GLog.loadTwo_spec L S n f rest hL.1 hL.2.1 hP hfit,
    fun r c hr hc => GLog.getA_allAssigns S f n hP r c hr hc, GLog.allAssigns_in_range S f n hP⟩

/-- Four-index integrals: every printed line ` I= J= K= L= Int=` (chemists' `(ij|kl)`) is stored at the eight
symmetry-related positions of `<ik|jl>`; an element in the orbit of a printed entry holds that entry's value, all
other elements stay zero; the line that ends the list is consumed. -/
theorem glog_fourindex_spec (L : GLog.Layout) (hL : GLog.LayoutOK L) (S : GLog.Spec) (hw : S.idxW = 3) (n : Nat)
    (pre : List Str) (term : Str) (rest : List Str) (hpre : pre.length = 6)
    (hterm : startsWith [' ','I','='] term = false) (es : List (Helpers.Idx × Num))
    (h : ∀ e ∈ es, GLog.FitsFour S e ∧ e.1.1 < n ∧ e.1.2.1 < n ∧ e.1.2.2.1 < n ∧ e.1.2.2.2 < n) :
    ∃ A, GLog.loadFour L n (GLog.specFour S pre es term ++ rest) = .ok (A, rest) ∧
      (∀ e ∈ es, ∀ p ∈ GLog.orbit e.1, (∀ e' ∈ es, p ∈ GLog.orbit e'.1 → e'.2 = e.2) → getA GLog.zero A p = e.2) ∧
      (∀ p, (∀ e ∈ es, p ∉ GLog.orbit e.1) → getA GLog.zero A p = GLog.zero) :=
  ⟨GLog.fourAssigns es, GLog.loadFour_spec L S hL hw n pre term rest hpre hterm es h,
    fun e he p hp hc => GLog.getA_fourAssigns es e he p hp hc, fun p hp => GLog.getA_fourAssigns_zero es p hp⟩

/-- Whole log files, sections in **any order**, any number of unrelated lines around and between them: every heading
is recognised, its matrix goes to the attribute the source assigns it to (`olp`, `kin_ao`, `na_ao`, `er_ao`), the matrix
reader stops exactly at the end of its matrix so that the next heading is seen, and reading ends at the termination line. -/
theorem glog_load_spec (L : GLog.Layout) (hL : GLog.LayoutOK L) (hM : GLog.MarkersOK L) (S : GLog.Spec) (hP : S.perBlock = 5)
    (hw : S.idxW = 3) (pre : List Str) (n : Nat) (secs : List GLog.Sec) (post : List Str)
    (hpre : ∀ l ∈ pre, startsWith L.nbasisPrefix l = false) (hn : (natToDec n).length ≤ 4)
    (hs : ∀ s ∈ secs, GLog.SecOK L S n s) :
    GLog.load L (GLog.specFile S pre n secs post) = .ok (secs.foldl (GLog.applySec S n) ⟨n, none, none, none, none⟩) :=
  GLog.load_spec L S hL hM hP hw pre n secs post hpre hn hs

/-- the headings in the source are the ones Gaussian prints -/
theorem glog_markers : GLog.MarkersOK glogL := by decide +kernel

/-- the orbit used by the loader is the 8-fold symmetry class of C20 (`Helpers.written`) of the physicists' index -/
example : GLog.orbit (5, 1, 4, 0) = Helpers.written 5 4 1 0 := rfl

/-- non-vacuity: the entries of the repository's fixture fit their columns; a 5 × 5 matrix is one block, a 6 × 6
matrix two -/
example : GLog.FitsTwo GLog.g09 ⟨true, 131980, -6⟩ ∧ GLog.FitsTwo GLog.g09 ⟨false, 999999, 93⟩ ∧
    (GLog.specTwo GLog.g09 5 (fun _ _ => GLog.zero)).length = 6 ∧
    (GLog.specTwo GLog.g09 6 (fun _ _ => GLog.zero)).length = 9 := by decide +kernel

/-! ## VASP CHGCAR / LOCPOT -/

/-- T1: the statements of `_load_vasp_header`, `_load_vasp_grid` and of the two `load_one` are the ones the model
transcribes (loop nest `i2, i1, i0` around `cube_data[i0, i1, i2]`, `axes=cellvecs / shape.reshape(-1, 1)`,
`/= volume(cellvecs)` for CHGCAR, `*= electronvolt` for LOCPOT), with the constants `['s']`, `['c', 'k']`, `[:3]`. -/
theorem vasp_source_shape : vaspSkel = Vasp.expectedSkel ∧ Vasp.LayoutOK vaspL := by decide +kernel

/-- Header (shared with POSCAR): title, scaling factor, the three lattice vectors as rows, element symbols expanded
by their counts, the optional `Selective dynamics` line, the Direct/Cartesian switch and one position per atom (flags
after the third number ignored) are loaded exactly as printed. -/
theorem vasp_header_spec (L : Vasp.Layout) (T : Tables) (S : Vasp.Spec) (m : Vasp.Model) (h : Vasp.HeaderDom L T S m)
    (rest : List Str) : Vasp.loadHeader L T (Vasp.specHeader T S m ++ rest) = .ok (m.header, rest) :=
  Vasp.loadHeader_spec L T S m h rest

/-- Grid, **every shape and every line length**: a file of the published layout (values cut into lines in any way,
ragged last line included) loads as its header, its shape, and a cube whose element `(i, j, k)` is the
`(i + nx·(j + ny·k))`-th printed value — x is the fastest index; reading stops after the last grid value. -/
theorem vasp_grid_spec (L : Vasp.Layout) (T : Tables) (S : Vasp.Spec) (hd : 0 < S.valD) (m : Vasp.Model)
    (hh : Vasp.HeaderDom L T S m) (hg : Vasp.GridDom S m) :
    ∃ g, Vasp.loadGrid L T (Vasp.specRender T S m) = .ok (g, m.tail) ∧ g.hdr = m.header ∧ g.shape = m.shape ∧
      ∀ i j k, i < m.shape.1 → j < m.shape.2.1 → k < m.shape.2.2 →
        some (getA Vasp.zero g.data (i, j, k)) = m.vals[i + m.shape.1 * (j + m.shape.2.1 * k)]? :=
  ⟨_, Vasp.loadGrid_spec L T S hd m hh hg, rfl, rfl,
    fun i j k hi hj hk => Vasp.getA_grid m.shape m.vals hg.2.1 i j k hi hj hk⟩

/-- the documented factor: `cube.data[i, j, k]` is the stored value divided by the cell volume `|det(cellvecs)|`
(CHGCAR holds ρ·V) or times `electronvolt` (LOCPOT) -/
theorem vasp_data_factor (U : Vasp.Units) (g : Vasp.Grid) (p : Vasp.Idx3) :
    Vasp.dataAt U .chgcar g p = (getA Vasp.zero g.data p).val * (1 / Vasp.cellVolume U g.hdr) ∧
    Vasp.dataAt U .locpot g p = (getA Vasp.zero g.data p).val * U.electronvolt := ⟨rfl, rfl⟩

/-- `axes` rows: lattice vector `i` (in bohr, scaled) divided by the number of grid points along `i` -/
theorem vasp_axes_rows (U : Vasp.Units) (h : Vasp.Header) (s : Vasp.Idx3) (d : List (Vasp.Idx3 × Num)) (a b c : List Rat)
    (hc : Vasp.cellvecs U h = [a, b, c]) :
    Vasp.axes U ⟨h, s, d⟩ = [a.map (· / (s.1 : Rat)), b.map (· / (s.2.1 : Rat)), c.map (· / (s.2.2 : Rat))] := by
  simp [Vasp.axes, hc, Vasp.shapeList]

/-- a fixed number `k > 0` of values per line (last line ragged) is one of the admitted line divisions -/
theorem vasp_chunk_spec (k : Nat) (hk : 0 < k) (xs : List Num) :
    (Vasp.chunk k xs).flatten = xs ∧ ∀ c ∈ Vasp.chunk k xs, c ≠ [] ∧ c.length ≤ k :=
  Vasp.chunk_spec k hk xs

/-- non-vacuity: a 2×1×3 grid on a triclinic cell, selective dynamics, values 4 per line (ragged), is in the domain -/
example : Vasp.HeaderDom vaspL Iodata.Gen.Layouts.tables Vasp.vasp5 Vasp.exampleModel ∧ Vasp.GridDom Vasp.vasp5 Vasp.exampleModel := by
  decide +kernel

/-! ## CHARMM CRD -/

/-- T1: the statements of `load_one` / `_helper_read_crd` are the ones the model transcribes (positions in double
precision, `pos *= angstrom`, `float(words[9]) * amu`), the word indices are 1…9 in the order of the card format, and
the record fields go to `atffparams` (`attypes`, `resnames`, `resnums`), `atcoords`, `atmasses`, `extra` (`segid`, `resid`). -/
theorem crd_source_shape : crdSkel = Crd.expectedSkel ∧ crdReturn = Crd.expectedReturn ∧ Crd.LayoutOK crdL := by
  decide +kernel

/-- CRD: every file of the published card layout `(I5, I5, 1X, A4, 1X, A4, 3F10.5, 1X, A4, 1X, A4, F10.5)` — any number
of title lines, fields separated by at least one blank — loads as the object it denotes: the title is the text of the
title lines, each record's residue number, residue name, atom type, x, y, z, segment id, residue id and weight stay
attached to their atom, in order. -/
theorem crd_load_spec (L : Crd.Layout) (hL : Crd.LayoutOK L) (m : Crd.Model) (h : Crd.Dom m) :
    Crd.load L (Crd.specRender m) = .ok m.obj :=
  Crd.load_spec L hL m h

/-- CRD, counter-example on the complement of `Crd.Dom` (known finding `crd:spec:touching-fields`): the card format has no
separator between its `F10.5` fields, the reader splits on blanks — a record whose y coordinate fills its ten columns
(`-100.00000`) is a valid card and is refused. -/
theorem crd_touching_fields_violated :
    Crd.specAtom 0 ⟨1, ['A','L','A'], ['C','A'], ⟨false, 1000000, -5⟩, ⟨true, 10000000, -5⟩, ⟨false, 462858, -5⟩, ['M','A','I','N'], 1, ⟨false, 1201100, -5⟩⟩
      = "    1    1 ALA  CA    10.00000-100.00000   4.62858 MAIN 1     12.01100\n".toList ∧
    failed (Crd.parseAtom crdL (Crd.specAtom 0 ⟨1, ['A','L','A'], ['C','A'], ⟨false, 1000000, -5⟩, ⟨true, 10000000, -5⟩, ⟨false, 462858, -5⟩, ['M','A','I','N'], 1, ⟨false, 1201100, -5⟩⟩)) = true := by
  decide +kernel

/-- CRD units: positions are the printed Å values times `angstrom`, masses the printed amu values times `amu`. -/
theorem crd_units (U : Crd.Units) (o : Crd.Obj) :
    Crd.atcoords U o = o.atoms.map (fun a => [a.x.val * U.angstrom, a.y.val * U.angstrom, a.z.val * U.angstrom]) ∧
    Crd.atmasses U o = o.atoms.map (fun a => a.mass.val * U.amu) := ⟨rfl, rfl⟩

/-- non-vacuity: the first record of the repository's fixture and a record filling its columns -/
example : Crd.Dom ⟨[" 1CCN FROM PSF OR PDB - OPTIMIZED".toList, "  DATE:     6/ 4/ 8".toList],
    [⟨1, ['T','H','R'], ['N'], ⟨true, 385076, -5⟩, ⟨true, 704232, -5⟩, ⟨false, 462858, -5⟩, ['M','A','I','N'], 1, ⟨false, 1400700, -5⟩⟩,
     ⟨9999, ['T','I','P','3'], ['O','H','2','X'], ⟨false, 99999999, -5⟩, ⟨true, 9999999, -5⟩, ⟨false, 0, -5⟩, ['W'], 9999, ⟨false, 99999999, -5⟩⟩]⟩ := by
  decide +kernel

/-! ## extended XYZ

Full statement: every file of the ASE layout (pairs in any order, any declared columns) loads as the object it
denotes.  Proved: the title-line layer — tokenisation (`extxyz_title_tokens`), `Lattice` (`extxyz_lattice_rows`),
`Properties` column typing (`extxyz_properties_spec`).  Missing: the atom-record loop over the typed columns and
the assembly of the whole object; both are executed in the correspondence (`load-spec:extxyz`, `load-corpus`) on
generated and repository files, and checked against an independent writer in the direct search. -/

/-- T1: the statements of `_convert_title_value`, `_parse_properties`, `_parse_title` (with
`np.array(word.split(), dtype=float).reshape([3, 3]) * angstrom`, `energy`/`charge` as plain `float`) and `load_one` are
the ones the model transcribes. -/
theorem extxyz_source_shape : extxyzSkel = ExtXyz.expectedSkel := by decide +kernel

/-- Title line: `key=value` pairs separated by blanks, values bare or in double quotes (any characters but `"` and
`\` inside, blanks included), are cut into one token per pair with the quotes removed — `shlex.split` as used by
`_parse_title`. -/
theorem extxyz_title_tokens (ps : List (Str × Str × ExtXyz.Quote)) (h : ∀ p ∈ ps, ExtXyz.okPair p) :
    ExtXyz.shlexSplit (ExtXyz.renderTitle ps) = some (ps.map fun p => p.1 ++ '=' :: p.2.1) :=
  ExtXyz.shlexSplit_title ps h

/-- `Lattice="a0 … a8"`: the nine printed numbers are stored in file order and `reshape([3, 3])` makes the cell
vectors the rows: vector `i` is numbers `3i, 3i+1, 3i+2` (times `angstrom` in the driver/`crd_units` style). -/
theorem extxyz_lattice_rows (tb : List (Str × Bool)) (d0 : ExtXyz.TitleData) (d : Nat) (a0 a1 a2 a3 a4 a5 a6 a7 a8 : Num)
    (h : ∀ x ∈ [a0, a1, a2, a3, a4, a5, a6, a7, a8], x.exp = -(d : Int)) :
    ExtXyz.applyPair tb d0 ("Lattice=".toList ++ ExtXyz.renderLattice d [a0, a1, a2, a3, a4, a5, a6, a7, a8])
      = .ok { d0 with cell := some [a0, a1, a2, a3, a4, a5, a6, a7, a8] } ∧
    ExtXyz.cellRows [a0, a1, a2, a3, a4, a5, a6, a7, a8] = [(a0, a1, a2), (a3, a4, a5), (a6, a7, a8)] := by
  refine ⟨?_, rfl⟩
  have hs : ExtXyz.splitEq [] ("Lattice=".toList ++ ExtXyz.renderLattice d [a0, a1, a2, a3, a4, a5, a6, a7, a8])
      = some ("Lattice".toList, ExtXyz.renderLattice d [a0, a1, a2, a3, a4, a5, a6, a7, a8]) := by
    have := ExtXyz.splitEq_spec "Lattice".toList (ExtXyz.renderLattice d [a0, a1, a2, a3, a4, a5, a6, a7, a8]) (by decide) []
    simpa using this
  unfold ExtXyz.applyPair
  rw [hs]
  have k1 : ("Lattice".toList = "Properties".toList) = False := by decide
  have k2 : ("Lattice".toList = "energy".toList) = False := by decide
  simp only [k1, k2, if_false, if_true, ExtXyz.splitWs_renderLattice d _ h, ExtXyz.mapOpt_pyFloat_render d _ h]
  rfl

/-- `Properties=…`, **every list of declarations**: the value `name:type:ncols:…` is typed as the published description
says — `Z` gives `atnums` when present (then `species` is an ordinary string column of `extra`), otherwise `species` does;
`pos` → `atcoords` (3 reals), `masses` → `atmasses`, `force` → `atgradient` (3 reals, negated on loading); every other name
goes to `extra[name]` with the declared type (`S`/`R`/`I`/`L`) and width (`1` = one scalar per atom). -/
theorem extxyz_properties_spec (ps : List ExtXyz.Prop') (hne : ps ≠ []) (hok : ∀ p ∈ ps, ExtXyz.okProp p)
    (cols : List ExtXyz.Column) (hc : ExtXyz.mapOpt (ExtXyz.colOf (decide (ExtXyz.Prop'.z ∈ ps))) ps = some cols) :
    ExtXyz.parseProperties (ExtXyz.renderProps ps) = .ok cols :=
  ExtXyz.parseProperties_spec ps hne hok cols hc

/-- column typing on the declarations of the repository's fixtures: `species:S:1:pos:R:3:Z:I:1:force:R:3` gives
`species` → `extra` (string), `pos` → `atcoords`, `Z` → `atnums`, `force` → `atgradient`; without `Z`, `species` gives
the atomic numbers and `some_label:L:2` a two-column logical `extra` entry. -/
example :
    ExtXyz.parseProperties "species:S:1:pos:R:3:Z:I:1:force:R:3".toList
      = .ok [⟨"extra".toList, "species".toList, 1, false, .str⟩, ⟨"atcoords".toList, [], 3, true, .pos⟩, ExtXyz.atnumsCol,
             ⟨"atgradient".toList, [], 3, true, .force⟩] ∧
    ExtXyz.parseProperties "species:S:1:pos:R:3:some_label:L:2".toList
      = .ok [ExtXyz.atnumsCol, ⟨"atcoords".toList, [], 3, true, .pos⟩, ⟨"extra".toList, "some_label".toList, 2, true, .logical⟩] := by
  decide +kernel

/-- non-vacuity: a title with a quoted lattice and a quoted `pbc` is in the domain of `extxyz_title_tokens` -/
example : ∀ p ∈ [("Lattice".toList, "7.6 0.0 0.0 0.0 7.6 0.0 0.0 0.0 7.6".toList, ExtXyz.Quote.dq),
    ("Properties".toList, "species:S:1:pos:R:3".toList, .bare), ("pbc".toList, "T F T".toList, .dq)], ExtXyz.okPair p := by
  decide +kernel

/-! ### WFN / WFX: the primitive type codes of `TYPE ASSIGNMENTS` / `<Primitive Types>` -/

/-- The published numbering of Cartesian primitive types in AIMPAC WFN / AIMAll WFX files (AIMAll's format
description, repeated in the Multiwfn manual): code 1 = S, 2-4 = P, 5-10 = D, 11-20 = F, 21-35 = G, 36-56 = H,
each written as the monomial it multiplies. -/
def wfnTypeCodes : List String :=
  ["1", "x", "y", "z", "xx", "yy", "zz", "xy", "xz", "yz",
   "xxx", "yyy", "zzz", "xxy", "xxz", "yyz", "xyy", "xzz", "yzz", "xyz",
   "xxxx", "yyyy", "zzzz", "xxxy", "xxxz", "xyyy", "yyyz", "xzzz", "yzzz", "xxyy", "xxzz", "yyzz", "xxyz", "xyyz", "xyzz",
   "zzzzz", "yzzzz", "yyzzz", "yyyzz", "yyyyz", "yyyyy", "xzzzz", "xyzzz", "xyyzz", "xyyyz", "xyyyy", "xxzzz", "xxyzz",
   "xxyyz", "xxyyy", "xxxzz", "xxxyz", "xxxyy", "xxxxz", "xxxxy", "xxxxx"]

/-- the table a module's reader and writer index with the type code minus one (`PRIMITIVE_NAMES`): the Cartesian
conventions of l = 0..5 concatenated in order of l -/
def primitiveNames (t : Iodata.Conv.Table) : List String :=
  (t.filter (fun e => e.1.2 == 'c')).flatMap (fun e => e.2.map String.ofList)

/-- **wfn_type_codes_published.**  The convention tables of `wfn.py` and `wfx.py` (regenerated from the source) list the
56 primitive types in the published order, so code `k` of a file written by another program is read as the `k`-th
published monomial (and written back under the same code). -/
theorem wfn_type_codes_published :
    primitiveNames Iodata.Gen.Conventions.wfn = wfnTypeCodes ∧
    primitiveNames Iodata.Gen.Conventions.wfx = wfnTypeCodes := by decide +kernel

end Iodata.Props.C03Readers
