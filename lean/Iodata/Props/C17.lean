/-
C17 — format selection is deterministic and declared capabilities are truthful.

Property theorems only (helpers in `Iodata/Lemmas/Select.lean`).  The model
(`Iodata/Model/Select.lean`) is tied to `iodata/api.py` by the exhaustive correspondence stream
`select`/`selectin`; `Iodata/Gen/Registry.lean` (registry, patterns, entry points, declared
attribute lists, `IOData` attribute names, CLI help lists) is regenerated from the source on every run.
-/
import Iodata.Lemmas.Select
import Iodata.Gen.Registry

set_option linter.unusedSimpArgs false

namespace Iodata.Props.C17
open Iodata.Select

/-! ## the selection function, for every registry -/

/-- 1. An explicit format always wins: the result does not depend on the file name at all. -/
theorem select_explicit_ignores_name (reg : List Module) (fn1 fn2 attr f : Str) :
    select reg fn1 attr (some f) = select reg fn2 attr (some f) := rfl

/-- 1b. … and it is the module registered under that name iff that module supports the operation;
a registered module without the operation and an unknown name are both errors. -/
theorem select_explicit_spec (reg : List Module) (fn attr f : Str) :
    (∀ n, select reg fn attr (some f) = .ok n →
        n = f ∧ ∃ m ∈ reg, m.name = f ∧ supports m attr = true) ∧
    (select reg fn attr (some f) = .error .unknownFormat ↔ ∀ m ∈ reg, m.name ≠ f) ∧
    (select reg fn attr (some f) = .error .unsupported →
        ∃ m ∈ reg, m.name = f ∧ supports m attr = false) := by
  simp only [select]
  split
  · next m hfind =>
    have hm := List.mem_of_find?_eq_some hfind
    have hn : m.name = f := by simpa using List.find?_some hfind
    by_cases hs : supports m attr = true
    · simp only [hs, if_true, Except.ok.injEq, reduceCtorEq, false_iff, false_imp_iff, and_true]
      exact ⟨fun n h => ⟨by rw [← h, hn], m, hm, hn, hs⟩, fun h => h m hm hn⟩
    · simp only [hs, if_false, reduceCtorEq, false_imp_iff, implies_true, true_and,
        Except.error.injEq, false_iff, true_imp_iff]
      exact ⟨fun h => h m hm hn, m, hm, hn, by simpa using hs⟩
  · next hfind =>
    simp only [reduceCtorEq, false_imp_iff, implies_true, true_iff, true_and]
    rw [List.find?_eq_none] at hfind
    refine ⟨fun m hm => by simpa using hfind m hm, by intro h; cases h⟩

/-- 2. Without an explicit format the chosen module is the FIRST one in registry order that has a
pattern matching the base name and supports the operation — it does match, it does support the
operation, and no earlier module does both. -/
theorem select_guess_ok_iff (reg : List Module) (fn attr n : Str) :
    select reg fn attr none = .ok n ↔
      ∃ pre m post, reg = pre ++ m :: post ∧ m.name = n ∧
        (∃ p ∈ m.patterns, GlobMatch p (basename fn)) ∧ attr ∈ m.attrs ∧
        ∀ m' ∈ pre, ¬ ((∃ p ∈ m'.patterns, GlobMatch p (basename fn)) ∧ attr ∈ m'.attrs) := by
  have key : ∀ m : Module, (matchesAny m (basename fn) && supports m attr) = true ↔
      ((∃ p ∈ m.patterns, GlobMatch p (basename fn)) ∧ attr ∈ m.attrs) := by
    intro m
    simp only [matchesAny, supports, Bool.and_eq_true, List.any_eq_true, List.contains_iff_mem, glob_iff]
  simp only [select]
  cases hfind : reg.find? (fun m => matchesAny m (basename fn) && supports m attr) with
  | none =>
    simp only [reduceCtorEq, false_iff]
    rintro ⟨pre, m, post, rfl, _, h1, h2, _⟩
    rw [List.find?_eq_none] at hfind
    exact hfind m (by simp) ((key m).mpr ⟨h1, h2⟩)
  | some m =>
    simp only [Except.ok.injEq]
    obtain ⟨hp, pre, post, hreg, hpre⟩ := List.find?_eq_some_iff_append.mp hfind
    constructor
    · rintro rfl
      refine ⟨pre, m, post, hreg, rfl, ((key m).mp hp).1, ((key m).mp hp).2, ?_⟩
      intro m' hm' hh
      have := hpre m' hm'
      rw [(key m').mpr hh] at this
      simp at this
    · rintro ⟨pre', m', post', hreg', rfl, h1, h2, hpre'⟩
      have : reg.find? (fun m => matchesAny m (basename fn) && supports m attr) = some m' := by
        apply List.find?_eq_some_iff_append.mpr
        refine ⟨(key m').mpr ⟨h1, h2⟩, pre', post', hreg', ?_⟩
        intro a ha
        have := hpre' a ha
        rw [← key a] at this
        cases hb : (matchesAny a (basename fn) && supports a attr) with
        | true => exact absurd hb this
        | false => rfl
      rw [hfind] at this
      cases this; rfl

/-- 3. Otherwise — no module both matches the base name and supports the operation — the call
raises `FileFormatError`; the only possible errors of the whole function are `FileFormatError`s. -/
theorem select_guess_err_iff (reg : List Module) (fn attr : Str) :
    (∃ e, select reg fn attr none = .error e) ↔
      ∀ m ∈ reg, ¬ ((∃ p ∈ m.patterns, GlobMatch p (basename fn)) ∧ attr ∈ m.attrs) := by
  have key : ∀ m : Module, (matchesAny m (basename fn) && supports m attr) = true ↔
      ((∃ p ∈ m.patterns, GlobMatch p (basename fn)) ∧ attr ∈ m.attrs) := by
    intro m
    simp only [matchesAny, supports, Bool.and_eq_true, List.any_eq_true, List.contains_iff_mem, glob_iff]
  simp only [select]
  cases hfind : reg.find? (fun m => matchesAny m (basename fn) && supports m attr) with
  | none =>
    rw [List.find?_eq_none] at hfind
    simp only [Except.error.injEq, exists_eq', true_iff]
    intro m hm hh
    exact hfind m hm ((key m).mpr hh)
  | some m =>
    simp only [reduceCtorEq, exists_false, false_iff]
    intro h
    have hp : (matchesAny m (basename fn) && supports m attr) = true := by
      have := List.find?_some hfind
      simpa using this
    exact h m (List.mem_of_find?_eq_some hfind) ((key m).mp hp)

/-- 3b. Every error of the selection is a `FileFormatError`. -/
theorem select_error_class (e : Err) : e.cls = "FileFormatError" := by cases e <;> rfl

/-- 4. The result is a function of the base name (and `attr`, `fmt`) only. -/
theorem select_basename_only (reg : List Module) (fn1 fn2 attr : Str) (fmt : Option Str)
    (h : basename fn1 = basename fn2) : select reg fn1 attr fmt = select reg fn2 attr fmt := by
  unfold select; rw [h]

/-- 4b. Directories are irrelevant, whatever text they contain: the base name of `dir/name` is `name`. -/
theorem basename_dir (dir name : Str) (h : '/' ∉ name) : basename (dir ++ '/' :: name) = name := by
  unfold basename
  rw [List.reverse_append, List.reverse_cons, List.append_assoc,
    takeWhile_append_of_all _ _ _ (by
      intro x hx
      have : x ∈ name := List.mem_reverse.mp hx
      simp only [bne_iff_ne, ne_eq]
      rintro rfl; exact h this)]
  simp

/-- 4c. … so two paths with the same final component select the same format. -/
theorem select_ignores_directories (reg : List Module) (d1 d2 name attr : Str) (fmt : Option Str)
    (h : '/' ∉ name) :
    select reg (d1 ++ '/' :: name) attr fmt = select reg (d2 ++ '/' :: name) attr fmt :=
  select_basename_only _ _ _ _ _ (by rw [basename_dir _ _ h, basename_dir _ _ h])

/-- 5. `_select_input_module`: the module named `fmt` if registered, else `FileFormatError`;
the file name is not used. -/
theorem selectInput_spec (inputs : List Str) (fn fmt : Str) :
    (selectInput inputs fn fmt = .ok fmt ↔ fmt ∈ inputs) ∧
    (selectInput inputs fn fmt = .error .noInputFormat ↔ fmt ∉ inputs) ∧
    (∀ fn', selectInput inputs fn' fmt = selectInput inputs fn fmt) := by
  unfold selectInput
  by_cases h : fmt ∈ inputs <;> simp [h]

/-! ## the registry found in the source (closed by computation over `Gen/Registry.lean`) -/

open Iodata.Gen.Registry

/-- 6. Module names are strictly increasing (discovery order is the sorted order, hence deterministic,
and names are unique), and so are the input-module names. -/
theorem registry_sorted :
    sortedStrict (registry.map (·.name)) = true ∧ (registry.map (·.name)).Nodup ∧
    sortedStrict inputModules = true := by
  decide +kernel

/-- 6a. The registered input formats are exactly the modules of the `iodata.inputs` package that define `write_input`
(a helper module such as `common` is not an input format: naming it must give `FileFormatError` before any file is
touched, by `selectInput_spec`). -/
theorem input_modules_are_the_writers :
    inputModules = (inputPackage.filter (·.2)).map (·.1) := by
  decide +kernel

/-- 6b. Every registered pattern is inside the modelled subset of `fnmatch` syntax. -/
theorem patterns_in_subset :
    ∀ m ∈ registry, ∀ p ∈ m.patterns, '?' ∉ p ∧ '[' ∉ p ∧ ']' ∉ p := by
  decide +kernel

/-- 7. Declared capabilities name real attributes: what a loader declares (`guaranteed`, `ifpresent`) is a
keyword of `IOData.__init__`, what a dumper declares (`required`, `optional`) is readable on an `IOData`. -/
theorem declared_attributes_exist :
    ∀ d ∈ declared, (∀ a ∈ d.guaranteed ++ d.ifpresent, a ∈ initParams) ∧
                    (∀ a ∈ d.required ++ d.optional, a ∈ readable) := by
  decide +kernel

/-- 7b. Every entry point of every module carries declared lists, and only existing entry points do;
no attribute is declared twice for one entry point. -/
theorem declared_complete :
    (∀ m ∈ registry, ∀ a ∈ m.attrs, ∃ d ∈ declared, d.module = m.name ∧ d.entry = a) ∧
    (∀ d ∈ declared, ∃ m ∈ registry, m.name = d.module ∧ d.entry ∈ m.attrs) ∧
    (∀ d ∈ declared, d.all.Nodup) := by
  decide +kernel

/-- 8. The command-line help lists, for each of the four operations, exactly the modules that have it. -/
theorem cli_help_exact :
    ∀ op ∈ [['l','o','a','d','_','o','n','e'], ['d','u','m','p','_','o','n','e'],
            ['l','o','a','d','_','m','a','n','y'], ['d','u','m','p','_','m','a','n','y']],
      (cliHelp.find? (fun e => e.1 == op)).map (·.2) =
        some ((registry.filter (fun m => supports m op)).map (·.name)) := by
  decide +kernel

/-! non-vacuity: names matching several patterns, resolved by registry order and by the operation -/
example :
    select registry ['d','/','x','.','c','p','2','k','.','o','u','t'] ['l','o','a','d','_','o','n','e'] none
      = .ok ['c','p','2','k','l','o','g'] ∧
    select registry ['F','C','I','D','U','M','P','.','m','o','l','d','e','n'] ['l','o','a','d','_','o','n','e'] none
      = .ok ['f','c','i','d','u','m','p'] ∧
    select registry ['P','O','S','C','A','R','.','x','y','z'] ['d','u','m','p','_','m','a','n','y'] none
      = .ok ['x','y','z'] ∧
    select registry ['x','.','o','u','t'] ['d','u','m','p','_','o','n','e'] none = .error .noFormat ∧
    select registry ['x','.','X','Y','Z'] ['l','o','a','d','_','o','n','e'] none = .error .noFormat ∧
    select registry ['x','.','x','y','z','/'] ['l','o','a','d','_','o','n','e'] none = .error .noFormat ∧
    select registry ['q'] ['l','o','a','d','_','o','n','e'] (some ['w','f','n']) = .ok ['w','f','n'] ∧
    select registry ['q','.','x','y','z'] ['l','o','a','d','_','m','a','n','y'] (some ['w','f','n']) = .error .unsupported ∧
    select registry ['q','.','x','y','z'] ['l','o','a','d','_','o','n','e'] (some ['n','o']) = .error .unknownFormat := by
  decide +kernel

end Iodata.Props.C17
