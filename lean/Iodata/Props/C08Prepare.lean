/-
C08 — what each format's `prepare_dump` decides, and what `dump_one` makes of it.

Property theorems only.  Model: `Iodata/Model/Prepare.lean` (the six `prepare_dump` bodies transcribed
statement by statement over the C12 orbital model and the C14 models of `prepare_segmented` /
`prepare_unrestricted_aminusb`; the same definitions the driver runs for the `prep` correspondence stream).
`Gen/PrepareSkeleton.lean` is regenerated from the source on every run; `gen_*` tie it to the reference
skeletons the model transcribes.  The API funnel is `Props/C08.lean` (`dump_one_preflight`).

Validity hypotheses: orbitals satisfy the class invariant `Orb.Inv` (C12: exactly the objects the constructor
and the setters can produce).  Nothing else is assumed about the object.
-/
import Iodata.Lemmas.Prepare
import Iodata.Props.C08
import Iodata.Gen.PrepareSkeleton

set_option linter.unusedSimpArgs false
set_option linter.unusedVariables false

namespace Iodata.Props.C08Prepare
open Iodata.Orb Iodata.Seg Iodata.Prep Iodata.Flow Iodata.Flow.Ref

/-! ### T1: the source has the transcribed shape -/

/-- `fchk.prepare_dump`: orbital block (generalized, alpha check, beta check — both unconditional), post-SCF
density guard, `prepare_segmented(data, True, …)` -/
theorem gen_fchk_skeleton : Gen.PrepareSkeleton.fchk = Skel.fchk := by decide +kernel
/-- `molden.prepare_dump`: three guards, un-restriction, segmentation without SP exemption -/
theorem gen_molden_skeleton : Gen.PrepareSkeleton.molden = Skel.moBasis "Molden" false := by decide +kernel
/-- `molekel.prepare_dump`: as Molden plus the electron-count guard right after the generalized-orbitals guard -/
theorem gen_molekel_skeleton : Gen.PrepareSkeleton.molekel = Skel.moBasis "Molekel" false true := by decide +kernel
/-- `wfn.prepare_dump`: as Molden plus the Cartesian-only loop before the conversions -/
theorem gen_wfn_skeleton : Gen.PrepareSkeleton.wfn = Skel.moBasis "WFN" true := by decide +kernel
/-- `wfx.prepare_dump` -/
theorem gen_wfx_skeleton : Gen.PrepareSkeleton.wfx = Skel.moBasis "WFX" true := by decide +kernel
/-- `json_qcschema.prepare_dump` in the variant the source has (`qcschemaStrict`: unknown names refused) -/
theorem gen_qcschema_skeleton :
    Gen.PrepareSkeleton.qcschema = Skel.qcschema Gen.PrepareSkeleton.qcschemaStrict := by decide +kernel
/-- the writer's dispatch on `schema_name`: three names are written, everything else raises after `open` -/
theorem gen_qcschema_writer : Gen.PrepareSkeleton.qcschemaWriter = Skel.qcschemaWriter := by decide +kernel
/-- exactly these six formats have a `prepare_dump`, each with the signature the API calls -/
theorem gen_prepare_signatures :
    Gen.PrepareSkeleton.hasPrepare = ["fchk", "json_qcschema", "molden", "molekel", "wfn", "wfx"] ∧
    [Gen.PrepareSkeleton.fchk_params, Gen.PrepareSkeleton.molden_params, Gen.PrepareSkeleton.molekel_params,
     Gen.PrepareSkeleton.wfn_params, Gen.PrepareSkeleton.wfx_params, Gen.PrepareSkeleton.qcschema_params].all
      (· == Skel.params) = true := by decide +kernel
/-- the helpers of prepare.py the six bodies call: guards in order, what they raise, one `warn` each, the
`keep_sp` exemption `shell.ncon == 2 and (shell.angmoms == [0, 1]).all()` (same reference as C14) -/
theorem gen_helpers_skeleton :
    Gen.PrepareSkeleton.seg_keep = Seg.Skel.seg_keep ∧
    Gen.PrepareSkeleton.prepseg_guards = Seg.Skel.prepseg_guards ∧
    Gen.PrepareSkeleton.prepseg_actions = Seg.Skel.prepseg_actions ∧ Gen.PrepareSkeleton.prepseg_warns = 1 ∧
    Gen.PrepareSkeleton.prepseg_ret = Seg.Skel.prepseg_ret ∧
    Gen.PrepareSkeleton.prepu_guards = Seg.Skel.prepu_guards ∧
    Gen.PrepareSkeleton.prepu_actions = Seg.Skel.prepu_actions ∧ Gen.PrepareSkeleton.prepu_warns = 1 ∧
    Gen.PrepareSkeleton.prepu_ret = Seg.Skel.prepu_ret := by decide +kernel

/-! ### vocabulary of the documented reasons -/

/-- a generalized contraction: the shell does not have exactly one contraction -/
def Generalized (sh : GShell) : Prop := sh.angmoms.length ≠ 1
/-- an SP shell, the only generalized contraction FCHK keeps -/
def IsSP (sh : GShell) : Prop := sh.angmoms = [0, 1]
/-- some function of the basis is not Cartesian -/
def HasPure (b : Basis) : Prop := ∃ sh ∈ b, ∃ k ∈ sh.kinds, k ≠ "c"

theorem isKept_false_iff (sh : GShell) : isKept false sh = true ↔ ¬ Generalized sh := by
  simp [isKept, Generalized]

theorem isKept_true_iff (sh : GShell) : isKept true sh = true ↔ ¬ (Generalized sh ∧ ¬ IsSP sh) := by
  unfold isKept Generalized IsSP
  by_cases h1 : sh.angmoms.length = 1
  · simp [h1]
  · by_cases h2 : sh.angmoms = [0, 1]
    · simp [h2]
    · simp [h1, h2]

theorem needS_false_iff (b : Basis) : needS false b = true ↔ ∃ sh ∈ b, Generalized sh := by
  unfold needS
  rw [Bool.not_eq_true', ← Bool.not_eq_true, List.all_eq_true]
  constructor
  · intro h; by_contra hc
    exact h fun sh hs => (isKept_false_iff sh).mpr fun hg => hc ⟨sh, hs, hg⟩
  · rintro ⟨sh, hs, hg⟩ h; exact (isKept_false_iff sh).mp (h sh hs) hg

theorem needS_true_iff (b : Basis) : needS true b = true ↔ ∃ sh ∈ b, Generalized sh ∧ ¬ IsSP sh := by
  unfold needS
  rw [Bool.not_eq_true', ← Bool.not_eq_true, List.all_eq_true]
  constructor
  · intro h; by_contra hc
    exact h fun sh hs => (isKept_true_iff sh).mpr fun hg => hc ⟨sh, hs, hg⟩
  · rintro ⟨sh, hs, hg⟩ h; exact (isKept_true_iff sh).mp (h sh hs) hg

theorem hasNonCart_iff (b : Basis) : hasNonCart b = true ↔ HasPure b := by
  simp [hasNonCart, HasPure]

/-! ### FCHK -/

/-- **aufbau check.**  The transcribed test — `na = int(np.round(np.sum(o)))` (round half to even),
`(o[:na] == 1).all() and (o[na:] == 0).all()` with Python's slice clamping, negative bounds included —
accepts exactly "k ones followed by zeros": fractional, doubly occupied, negative or out-of-order entries
are all refused, for every length. -/
theorem fchk_aufbau_check_iff (o : List Rat) :
    aufbauOk o = true ↔ ∃ k, k ≤ o.length ∧ o = List.replicate k 1 ++ List.replicate (o.length - k) 0 :=
  aufbauOk_iff o

/-- **each spin channel separately.**  For valid non-generalized orbitals with occupations — restricted
(with or without `occs_aminusb`) or unrestricted — the orbital block passes iff the alpha occupations AND the
beta occupations (as the `occsa` / `occsb` getters of C12 compute them) are each in aufbau form; otherwise
`PrepareDumpError` is raised by the alpha check or, when alpha is fine, by the beta check. -/
theorem fchk_orbitals_iff (m : MO) (hi : Inv m) (hk : m.kind ≠ .generalized) (o : List Rat) (ho : m.occs = some o) :
    ∃ a b, occsa m = .ok (some a) ∧ occsb m = .ok (some b) ∧
      (m.kind = .restricted → List.zipWith (· + ·) a b = o) ∧ (m.kind = .unrestricted → a ++ b = o) ∧
      (fchkMo m = none ↔ Aufbau a ∧ Aufbau b) ∧
      (¬ Aufbau a → fchkMo m = some (.prepareDump, .alphaAufbau)) ∧
      (Aufbau a → ¬ Aufbau b → fchkMo m = some (.prepareDump, .betaAufbau)) := by
  obtain ⟨a, b, ha, hb, hr, hu, -⟩ := spin_facts hi hk ho
  refine ⟨a, b, ha, hb, fun h => (hr h).1, fun h => (hu h).1, ?_, ?_, ?_⟩
  · rw [fchkMo_none_iff]; simp [hk, ha, hb, SpinAufbau]
  · intro h
    have : aufbauOk a = false := by
      cases hq : aufbauOk a with
      | false => rfl
      | true => exact absurd ((aufbauOk_iff a).mp hq) h
    simp [fchkMo, hk, ha, spinCheck, this]
  · intro h1 h2
    have e1 : aufbauOk a = true := (aufbauOk_iff a).mpr h1
    have e2 : aufbauOk b = false := by
      cases hq : aufbauOk b with
      | false => rfl
      | true => exact absurd ((aufbauOk_iff b).mp hq) h2
    simp [fchkMo, hk, ha, hb, spinCheck, e1, e2]

/-- the part of `fchk.prepare_dump` after the orbital block -/
theorem fchk_tail_iff (allow : Bool) (d : Obj) :
    (∃ c r, fchkTail allow d = .raised c r) ↔
      (d.postScf = true ∧ lotNamesPostScf d.lot = false) ∨ d.obasis = none ∨
      (allow = false ∧ ∃ b, d.obasis = some b ∧ ∃ sh ∈ b, Generalized sh ∧ ¬ IsSP sh) := by
  unfold fchkTail
  by_cases hp : (d.postScf && !lotNamesPostScf d.lot) = true
  · simp only [hp, if_true]
    simp only [Bool.and_eq_true, Bool.not_eq_true'] at hp
    constructor
    · intro _; exact Or.inl hp
    · intro _; exact ⟨_, _, rfl⟩
  · simp only [hp, if_false]
    have hp' : ¬ (d.postScf = true ∧ lotNamesPostScf d.lot = false) := by
      simpa [Bool.and_eq_true, Bool.not_eq_true'] using hp
    simp only [hp', false_or]
    rw [prepS_eq]
    cases hb : d.obasis with
    | none => simp
    | some b =>
      simp only [reduceCtorEq, false_or, Option.some.injEq, exists_eq_left']
      by_cases hs : needS true b = true
      · have := (needS_true_iff b).mp hs
        cases allow <;> simp [hs, this]
      · have hn : ¬ ∃ sh ∈ b, Generalized sh ∧ ¬ IsSP sh := fun h => hs ((needS_true_iff b).mpr h)
        have hs' : needS true b = false := by simpa using hs
        simp [hs', hn]

/-- **prepare_rejects_iff (FCHK).**  `fchk.prepare_dump` raises exactly when
* orbitals are present and are generalized, or their alpha or their beta occupations are missing / not in
  aufbau form, or
* a post-SCF density is present and the level of theory names no post-SCF method, or
* there is no orbital basis (the `ValueError` of `prepare_segmented`, see `fchk_no_obasis_refused`), or
* `allow_changes` is off and some shell is a generalized contraction other than an SP shell.
`occs_aminusb` alone is never a reason; with `allow_changes` generalized contractions are not a reason. -/
theorem fchk_rejects_iff (s allow : Bool) (d : Obj) :
    (∃ c r, prepareDump s .fchk allow d = .raised c r) ↔
      (∃ m, d.mo = some m ∧ (m.kind = .generalized ∨ ¬ SpinAufbau (occsa m) ∨ ¬ SpinAufbau (occsb m))) ∨
      (d.postScf = true ∧ lotNamesPostScf d.lot = false) ∨
      d.obasis = none ∨
      (allow = false ∧ ∃ b, d.obasis = some b ∧ ∃ sh ∈ b, Generalized sh ∧ ¬ IsSP sh) := by
  show (∃ c r, Prep.fchk allow d = .raised c r) ↔ _
  cases hm : d.mo with
  | some m =>
    rw [fchk_eq_some allow d m hm]
    cases hf : fchkMo m with
    | some p =>
      have hn : ¬ (m.kind ≠ .generalized ∧ SpinAufbau (occsa m) ∧ SpinAufbau (occsb m)) := by
        rw [← fchkMo_none_iff, hf]; simp
      constructor
      · intro _; left; refine ⟨m, rfl, ?_⟩
        by_cases hg : m.kind = .generalized
        · exact Or.inl hg
        · by_cases ha : SpinAufbau (occsa m)
          · exact Or.inr (Or.inr fun hb => hn ⟨hg, ha, hb⟩)
          · exact Or.inr (Or.inl ha)
      · intro _; exact ⟨p.1, p.2, rfl⟩
    | none =>
      obtain ⟨h1, h2, h3⟩ := (fchkMo_none_iff m).mp hf
      have hno : ¬ ∃ m', some m = some m' ∧ (m'.kind = .generalized ∨ ¬ SpinAufbau (occsa m') ∨ ¬ SpinAufbau (occsb m')) := by
        rintro ⟨m', hm', h⟩; cases hm'
        rcases h with h | h | h
        · exact h1 h
        · exact h h2
        · exact h h3
      simp only [hno, false_or]
      exact fchk_tail_iff allow d
  | none =>
    rw [fchk_eq_none allow d hm]
    simp only [reduceCtorEq, false_and, exists_false, false_or]
    exact fchk_tail_iff allow d

/-- **rejection class (FCHK).**  For valid orbitals that carry occupations every rejection is a
`PrepareDumpError` raised by `prepare_dump` / `prepare_segmented` themselves — except the missing orbital basis,
which is the `ValueError` of `prepare_segmented` (turned into `PrepareDumpError` by the API funnel). -/
theorem fchk_rejection_class (s allow : Bool) (d : Obj)
    (hv : ∀ m, d.mo = some m → Inv m ∧ (m.kind ≠ .generalized → m.occs ≠ none))
    (c : Cls) (r : Reason) (h : prepareDump s .fchk allow d = .raised c r) :
    c = .prepareDump ∨ (d.obasis = none ∧ c = .err .valueError ∧ r = .sNoObasis) := by
  have tail : ∀ c r, fchkTail allow d = .raised c r →
      c = .prepareDump ∨ (d.obasis = none ∧ c = .err .valueError ∧ r = .sNoObasis) := by
    intro c r ht
    unfold fchkTail at ht
    by_cases hp : (d.postScf && !lotNamesPostScf d.lot) = true
    · simp [hp] at ht; exact Or.inl ht.1.symm
    · simp only [hp, if_false] at ht
      rw [prepS_eq] at ht
      cases hb : d.obasis with
      | none => simp [hb] at ht; exact Or.inr ⟨rfl, ht.1.symm, ht.2.symm⟩
      | some b =>
        simp only [hb] at ht
        by_cases hs : needS true b = false
        · simp [hs] at ht
        · cases allow <;> simp [hs] at ht
          exact Or.inl ht.1.symm
  change Prep.fchk allow d = .raised c r at h
  cases hm : d.mo with
  | none => rw [fchk_eq_none allow d hm] at h; exact tail c r h
  | some m =>
    rw [fchk_eq_some allow d m hm] at h
    obtain ⟨hi, hocc⟩ := hv m hm
    cases hf : fchkMo m with
    | none => rw [hf] at h; exact tail c r h
    | some p =>
      rw [hf] at h
      simp only [Outcome.raised.injEq] at h
      left
      by_cases hg : m.kind = .generalized
      · simp [fchkMo, hg] at hf; rw [← h.1, ← hf]
      · cases ho : m.occs with
        | none => exact absurd ho (hocc hg)
        | some o =>
          obtain ⟨a, b, _, _, _, _, _, h6, h7⟩ := fchk_orbitals_iff m hi hg o ho
          by_cases ha : Aufbau a
          · by_cases hb : Aufbau b
            · have := (fchk_orbitals_iff m hi hg o ho)
              obtain ⟨a', b', ha', hb', _, _, h5, _, _⟩ := this
              have e1 : a' = a := by
                have := ‹occsa m = Except.ok (some a)›; rw [ha'] at this; simpa using this
              have e2 : b' = b := by
                have := ‹occsb m = Except.ok (some b)›; rw [hb'] at this; simpa using this
              subst e1; subst e2
              rw [h5.mpr ⟨ha, hb⟩] at hf; cases hf
            · rw [h7 ha hb] at hf; cases hf; exact h.1.symm
          · rw [h6 ha] at hf; cases hf; exact h.1.symm

/-- **the declared-required oddity (FCHK).**  An object without orbitals, without a post-SCF density and
without an orbital basis — e.g. one that holds exactly the attributes `fchk.dump_one` declares as required —
is refused: `prepare_segmented` raises `ValueError`, which `dump_one` reports as `PrepareDumpError`
("Uncaught exception while preparing").  Consistent with C08; recorded because the writer itself copes with a
missing basis. -/
theorem fchk_no_obasis_refused (s allow : Bool) (d : Obj) (hm : d.mo = none) (hp : d.postScf = false)
    (hb : d.obasis = none) : prepareDump s .fchk allow d = .raised (.err .valueError) .sNoObasis := by
  change Prep.fchk allow d = _
  rw [fchk_eq_none allow d hm]
  unfold fchkTail
  simp [hp, prepS_eq, hb]

/-- **prepare_same_iff / prepare_converts_iff (FCHK).**  When no reason of `fchk_rejects_iff` other than a
generalized contraction holds: nothing to segment ⇒ the very same object, no warning (whatever
`allow_changes`); otherwise with `allow_changes` a new object whose only change is the segmented basis
(SP shells kept, same basis functions in the same order — C14), announced by exactly one warning, and without
`allow_changes` a `PrepareDumpError`. -/
theorem fchk_accepts (s allow : Bool) (d : Obj) (b : Basis) (hb : d.obasis = some b)
    (hmo : ∀ m, d.mo = some m → fchkMo m = none) (hlot : ¬ (d.postScf = true ∧ lotNamesPostScf d.lot = false)) :
    ((¬ ∃ sh ∈ b, Generalized sh ∧ ¬ IsSP sh) → prepareDump s .fchk allow d = .ret d true []) ∧
    ((∃ sh ∈ b, Generalized sh ∧ ¬ IsSP sh) → allow = true →
        prepareDump s .fchk allow d = .ret { d with obasis := some (segment true b) } false [.segmented] ∧
        fns (segment true b) = fns b ∧ (segment true b).all (isKept true) = true) ∧
    ((∃ sh ∈ b, Generalized sh ∧ ¬ IsSP sh) → allow = false →
        prepareDump s .fchk allow d = .raised .prepareDump .sContraction) := by
  have hp : (d.postScf && !lotNamesPostScf d.lot) = false := by
    cases h1 : d.postScf <;> cases h2 : lotNamesPostScf d.lot <;> simp_all
  have heq : prepareDump s .fchk allow d = prepS true allow d true [] := by
    change Prep.fchk allow d = _
    cases hm : d.mo with
    | none => rw [fchk_eq_none allow d hm]; simp [fchkTail, hp]
    | some m => rw [fchk_eq_some allow d m hm, hmo m hm]; simp [fchkTail, hp]
  rw [heq, prepS_eq]
  simp only [hb]
  refine ⟨fun h => ?_, fun h ha => ?_, fun h ha => ?_⟩
  · have : needS true b = false := by
      cases hq : needS true b with
      | false => rfl
      | true => exact absurd ((needS_true_iff b).mp hq) h
    simp [this]
  · have := (needS_true_iff b).mpr h
    exact ⟨by simp [this, ha], fns_segment true b, segment_all_kept true b⟩
  · have := (needS_true_iff b).mpr h
    simp [this, ha]

/-! ### Molden, Molekel, WFN, WFX -/

/-- the shared body (`moBasis c`: Molden `c = false`, WFN/WFX `c = true`, and Molekel behind its electron-count
guard): complete list of its rejection reasons, all of class `PrepareDumpError` -/
theorem mobasis_core_rejects_iff (c allow : Bool) (d : Obj) (hv : ∀ m, d.mo = some m → Inv m) :
    ((∃ cl r, moBasis c allow d = .raised cl r) ↔
      d.mo = none ∨ d.obasis = none ∨ (∃ m, d.mo = some m ∧ m.kind = .generalized) ∨
      (c = true ∧ ∃ b, d.obasis = some b ∧ HasPure b) ∨
      (allow = false ∧ ((∃ m, d.mo = some m ∧ m.aminusb ≠ none) ∨
                        (∃ b, d.obasis = some b ∧ ∃ sh ∈ b, Generalized sh)))) ∧
    (∀ cl r, moBasis c allow d = .raised cl r → cl = .prepareDump) := by
  cases hm : d.mo with
  | none => simp [moBasis, hm]
  | some m =>
    cases hb : d.obasis with
    | none => simp [moBasis, hm, hb]
    | some b =>
      have hi := hv m hm
      obtain ⟨t1, t2, t3, t4⟩ := moBasis_table c allow d m b hm hb hi
      have hard_iff : moHard c m b = true ↔ m.kind = .generalized ∨ (c = true ∧ HasPure b) := by
        unfold moHard; rw [← hasNonCart_iff]; simp
      have soft_iff : (needU m || needS false b) = true ↔ m.aminusb ≠ none ∨ ∃ sh ∈ b, Generalized sh := by
        rw [Bool.or_eq_true, needU_iff_of_inv hi, needS_false_iff]
      simp only [reduceCtorEq, false_or, Option.some.injEq, exists_eq_left']
      by_cases hh : moHard c m b = true
      · obtain ⟨r, hr⟩ := t1 hh
        refine ⟨⟨fun _ => ?_, fun _ => ⟨_, _, hr⟩⟩, fun cl r' h => ?_⟩
        · rcases hard_iff.mp hh with h | h
          · exact Or.inl h
          · exact Or.inr (Or.inl h)
        · rw [hr] at h; cases h; rfl
      · have hh' : moHard c m b = false := by simpa using hh
        have nh : ¬ (m.kind = .generalized ∨ (c = true ∧ HasPure b)) := fun h => hh (hard_iff.mpr h)
        by_cases hn : (needU m || needS false b) = true
        · cases allow with
          | false =>
            obtain ⟨r, hr⟩ := t2 hh' rfl hn
            refine ⟨⟨fun _ => Or.inr (Or.inr ⟨rfl, soft_iff.mp hn⟩), fun _ => ⟨_, _, hr⟩⟩, fun cl r' h => ?_⟩
            rw [hr] at h; cases h; rfl
          | true =>
            obtain ⟨m', _, hr⟩ := t4 hh' rfl hn
            refine ⟨⟨fun ⟨cl, r, h⟩ => ?_, fun h => ?_⟩, fun cl r' h => ?_⟩
            · rw [hr] at h; cases h
            · rcases h with h | h | h
              · exact absurd (Or.inl h) nh
              · exact absurd (Or.inr h) nh
              · cases h.1
            · rw [hr] at h; cases h
        · have hn' : (needU m || needS false b) = false := by simpa using hn
          have hr := t3 hh' hn'
          refine ⟨⟨fun ⟨cl, r, h⟩ => ?_, fun h => ?_⟩, fun cl r' h => ?_⟩
          · rw [hr] at h; cases h
          · rcases h with h | h | h
            · exact absurd (Or.inl h) nh
            · exact absurd (Or.inr h) nh
            · exact absurd (soft_iff.mpr h.2) hn
          · rw [hr] at h; cases h

/-- the electron count of the orbitals is not an integer (Molekel's `$CHAR_MULT` holds an integer charge):
`occs` is set and `|Σ occs − round_half_even(Σ occs)| > 1e-4` (the double literal, compared exactly) -/
def FractionalNelec (m : MO) : Prop :=
  ∃ o, m.occs = some o ∧ tolNelec < absR (Orb.sum o - (roundHalfEven (Orb.sum o) : Int))

theorem fractionalNelec_iff (m : MO) : fractionalNelec m = true ↔ FractionalNelec m := by
  unfold fractionalNelec FractionalNelec nelec
  cases m.occs with
  | none => simp
  | some o => simp

/-- **prepare_rejects_iff (Molden, Molekel, WFN, WFX).**  For valid orbitals, `prepare_dump` raises exactly when
* orbitals or orbital basis are missing (both are declared required, so `_check_required` refuses first), or
* the orbitals are generalized, or
* (WFN, WFX only) some basis function is not Cartesian — also with `allow_changes`, or
* (Molekel only) the electron count `Σ occs` is fractional — also with `allow_changes`, or
* `allow_changes` is off and `occs_aminusb` is set or some shell is a generalized contraction (SP included);
and every such rejection is a `PrepareDumpError` (never another class). -/
theorem mobasis_rejects_iff (s : Bool) (f : Fmt) (hf : IsMoBasis f) (allow : Bool) (d : Obj)
    (hv : ∀ m, d.mo = some m → Inv m) :
    ((∃ c r, prepareDump s f allow d = .raised c r) ↔
      d.mo = none ∨ d.obasis = none ∨ (∃ m, d.mo = some m ∧ m.kind = .generalized) ∨
      (cartOnly f = true ∧ ∃ b, d.obasis = some b ∧ HasPure b) ∨
      (f = .molekel ∧ ∃ m, d.mo = some m ∧ FractionalNelec m) ∨
      (allow = false ∧ ((∃ m, d.mo = some m ∧ m.aminusb ≠ none) ∨
                        (∃ b, d.obasis = some b ∧ ∃ sh ∈ b, Generalized sh)))) ∧
    (∀ c r, prepareDump s f allow d = .raised c r → c = .prepareDump) := by
  rw [prepareDump_mo s f hf]
  obtain ⟨core, ccls⟩ := mobasis_core_rejects_iff (cartOnly f) allow d hv
  by_cases hfr : fracReject f d = true
  · obtain ⟨hmk, m, b, hm, hb, hg, hfn⟩ := (fracReject_iff f d).mp hfr
    simp only [hfr, if_true]
    refine ⟨⟨fun _ => ?_, fun _ => ⟨_, _, rfl⟩⟩, fun c r h => by cases h; rfl⟩
    exact Or.inr (Or.inr (Or.inr (Or.inr (Or.inl ⟨hmk, m, hm, (fractionalNelec_iff m).mp hfn⟩))))
  · simp only [hfr, Bool.false_eq_true, if_false]
    refine ⟨?_, ccls⟩
    rw [core]
    constructor
    · rintro (h | h | h | h | h)
      · exact Or.inl h
      · exact Or.inr (Or.inl h)
      · exact Or.inr (Or.inr (Or.inl h))
      · exact Or.inr (Or.inr (Or.inr (Or.inl h)))
      · exact Or.inr (Or.inr (Or.inr (Or.inr (Or.inr h))))
    · rintro (h | h | h | h | h | h)
      · exact Or.inl h
      · exact Or.inr (Or.inl h)
      · exact Or.inr (Or.inr (Or.inl h))
      · exact Or.inr (Or.inr (Or.inr (Or.inl h)))
      · -- the guard did not fire although the count is fractional: basis missing or orbitals generalized
        obtain ⟨hmk, m, hm, hfn⟩ := h
        cases hb : d.obasis with
        | none => exact Or.inr (Or.inl rfl)
        | some b =>
          by_cases hg : m.kind = .generalized
          · exact Or.inr (Or.inr (Or.inl ⟨m, hm, hg⟩))
          · exact absurd ((fracReject_iff f d).mpr ⟨hmk, m, b, hm, hb, hg, (fractionalNelec_iff m).mpr hfn⟩) hfr
      · exact Or.inr (Or.inr (Or.inr (Or.inr h)))

/-- **prepare_same_iff / prepare_converts_iff (Molden, Molekel, WFN, WFX).**  When none of the reasons that
no conversion can remove holds (orbitals valid, not generalized; Cartesian functions only for WFN/WFX; an
integer electron count for Molekel):
* no `occs_aminusb` and no generalized contraction ⇒ the very same object, no warning, whatever `allow_changes`;
* otherwise with `allow_changes`: a new object, the orbitals un-restricted when `occs_aminusb` was set (same alpha
  and beta occupations, coefficients, electron count, spin polarisation — C14), the basis segmented when it had a
  generalized contraction (same functions in the same order — C14), every other attribute untouched, and exactly
  one warning per conversion, in that order. -/
theorem mobasis_accepts (s : Bool) (f : Fmt) (hf : IsMoBasis f) (allow : Bool) (d : Obj) (m : MO) (b : Basis)
    (hm : d.mo = some m) (hb : d.obasis = some b) (hi : Inv m) (hg : m.kind ≠ .generalized)
    (hc : ¬ (cartOnly f = true ∧ HasPure b)) (hfrac : ¬ (f = .molekel ∧ FractionalNelec m)) :
    (m.aminusb = none → (¬ ∃ sh ∈ b, Generalized sh) → prepareDump s f allow d = .ret d true []) ∧
    ((m.aminusb ≠ none ∨ ∃ sh ∈ b, Generalized sh) → allow = true →
      ∃ m', prepareDump s f allow d = .ret (moConverted d m b m') false (moWarns m b) ∧
        moWarns m b = (if m.aminusb.isSome then [.unrestricted] else []) ++
                      (if needS false b then [.segmented] else []) ∧
        (m.aminusb ≠ none → toUnrestricted m = .ok (m', false) ∧ m'.kind = .unrestricted ∧
            occsa m' = occsa m ∧ occsb m' = occsb m ∧ nelec m' = nelec m ∧ spinpol m' = spinpol m) ∧
        fns (segment false b) = fns b) := by
  have hfr : fracReject f d = false := by
    cases hq : fracReject f d with
    | false => rfl
    | true =>
      obtain ⟨hmk, m', b', hm', _, _, hfn⟩ := (fracReject_iff f d).mp hq
      rw [hm] at hm'; cases hm'
      exact absurd ⟨hmk, (fractionalNelec_iff m).mp hfn⟩ hfrac
  rw [prepareDump_mo s f hf]
  simp only [hfr, Bool.false_eq_true, if_false]
  obtain ⟨_, _, t3, t4⟩ := moBasis_table (cartOnly f) allow d m b hm hb hi
  have hh : moHard (cartOnly f) m b = false := by
    unfold moHard
    have : (cartOnly f && hasNonCart b) = false := by
      cases h1 : cartOnly f <;> cases h2 : hasNonCart b <;> simp
      exact hc ⟨h1, (hasNonCart_iff b).mp h2⟩
    simp [hg, this]
  have soft_iff : (needU m || needS false b) = true ↔ m.aminusb ≠ none ∨ ∃ sh ∈ b, Generalized sh := by
    rw [Bool.or_eq_true, needU_iff_of_inv hi, needS_false_iff]
  refine ⟨fun h1 h2 => ?_, fun h ha => ?_⟩
  · apply t3 hh
    cases hq : (needU m || needS false b) with
    | false => rfl
    | true => rcases soft_iff.mp hq with h | h
              · exact absurd h1 h
              · exact absurd h h2
  · obtain ⟨m', hm', hr⟩ := t4 hh ha (soft_iff.mpr h)
    by_cases hu : m.aminusb ≠ none
    · have hr' : m.kind = .restricted := hi.2.2 hu
      obtain ⟨m'', h1, _, h3, _, _, h6, h7, _, _, _, h11, h12⟩ := toUnrestricted_restricted hi hr'
      have hnu : needU m = true := (needU_iff_of_inv hi).mpr hu
      have e := hm' hnu
      rw [h1] at e
      have e' : m'' = m' := by simpa using e
      subst e'
      refine ⟨m'', hr, ?_, fun _ => ⟨h1, h3, h6, h7, h11, h12⟩, fns_segment false b⟩
      unfold moWarns
      cases hd : m.aminusb with
      | none => exact absurd hd hu
      | some x => simp [hnu]
    · have hnu : needU m = false := by
        cases hq : needU m with
        | false => rfl
        | true => exact absurd ((needU_iff_of_inv hi).mp hq) hu
      refine ⟨m', hr, ?_, fun h => absurd h hu, fns_segment false b⟩
      have hd : m.aminusb = none := by simpa using hu
      unfold moWarns
      simp [hnu, hd]

/-! ### QCSchema -/

/-- **prepare_rejects_iff (QCSchema).**  The pre-flight refuses a missing `schema_name` and `qcschema_basis`;
in the `strict` variant of the source also every name the writer cannot write.  `allow_changes` is irrelevant;
an accepted object is returned as the very same object. -/
theorem qcschema_rejects_iff (strict allow : Bool) (d : Obj) :
    ((∃ c r, prepareDump strict .qcschema allow d = .raised c r) ↔
      d.schema = none ∨ d.schema = some "qcschema_basis" ∨
      (strict = true ∧ ∃ n, d.schema = some n ∧ qcschemaWritable n = false)) ∧
    (∀ c r, prepareDump strict .qcschema allow d = .raised c r → c = .prepareDump) ∧
    (∀ d' same ws, prepareDump strict .qcschema allow d = .ret d' same ws → d' = d ∧ same = true ∧ ws = []) := by
  change ((∃ c r, Prep.qcschema strict allow d = .raised c r) ↔ _) ∧
    (∀ c r, Prep.qcschema strict allow d = .raised c r → c = .prepareDump) ∧
    (∀ d' same ws, Prep.qcschema strict allow d = .ret d' same ws → d' = d ∧ same = true ∧ ws = [])
  unfold Prep.qcschema
  cases hs : d.schema with
  | none => simp
  | some n =>
    by_cases hb : n = "qcschema_basis"
    · subst hb; simp
    · by_cases hw : qcschemaWritable n = true
      · simp [hb, hw]
      · have hw' : qcschemaWritable n = false := by simpa using hw
        cases strict
        · simp [hb, hw']
        · simp [hb, hw']

/-- **what the pre-flight of the current source lets through to the writer (QCSchema).**  In the non-strict
variant an unknown schema name passes `prepare_dump`; the writer then raises after the file was opened
(`gen_qcschema_writer`), i.e. `DumpError` with the target truncated — the defect the strict variant repairs. -/
theorem qcschema_unknown_name (allow : Bool) (d : Obj) (n : String) (hs : d.schema = some n)
    (hb : n ≠ "qcschema_basis") (hw : qcschemaWritable n = false) :
    prepareDump false .qcschema allow d = .ret d true [] ∧
    ∃ r, prepareDump true .qcschema allow d = .raised .prepareDump r := by
  change Prep.qcschema false allow d = _ ∧ ∃ r, Prep.qcschema true allow d = _
  unfold Prep.qcschema
  simp [hs, hb, hw]

/-! ### all six formats -/

/-- **identity and warnings.**  Whatever the format and the object: a returned object is the very same object
iff no warning was issued; a different object is returned only with `allow_changes`. -/
theorem prepare_ret_identity (s : Bool) (f : Fmt) (allow : Bool) (d d' : Obj) (same : Bool) (ws : List Warn)
    (hv : ∀ m, d.mo = some m → Inv m)
    (h : prepareDump s f allow d = .ret d' same ws) :
    (same = true ↔ ws = []) ∧ (same = true → d' = d) ∧ (same = false → allow = true) ∧ ws.length ≤ 2 := by
  have fromS : ∀ k, prepS k allow d true [] = .ret d' same ws →
      (same = true ↔ ws = []) ∧ (same = true → d' = d) ∧ (same = false → allow = true) ∧ ws.length ≤ 2 := by
    intro k hk
    rw [prepS_eq] at hk
    cases hb : d.obasis with
    | none => simp [hb] at hk
    | some b =>
      simp only [hb] at hk
      by_cases hs : needS k b = false
      · simp [hs] at hk; obtain ⟨h1, h2, h3⟩ := hk; subst h1 h2 h3; simp
      · cases allow <;> simp [hs] at hk
        obtain ⟨h1, h2, h3⟩ := hk; subst h1 h2 h3; simp
  cases f with
  | fchk =>
    change Prep.fchk allow d = _ at h
    have tail : fchkTail allow d = .ret d' same ws →
        (same = true ↔ ws = []) ∧ (same = true → d' = d) ∧ (same = false → allow = true) ∧ ws.length ≤ 2 := fun ht => by
      unfold fchkTail at ht
      by_cases hp : (d.postScf && !lotNamesPostScf d.lot) = true
      · simp [hp] at ht
      · simp only [hp, if_false] at ht; exact fromS true ht
    cases hm : d.mo with
    | none => rw [fchk_eq_none allow d hm] at h; exact tail h
    | some m =>
      rw [fchk_eq_some allow d m hm] at h
      cases hf : fchkMo m with
      | none => rw [hf] at h; exact tail h
      | some p => rw [hf] at h; cases h
  | qcschema =>
    obtain ⟨h1, h2, h3⟩ := (qcschema_rejects_iff s allow d).2.2 d' same ws h
    subst h1 h2 h3; simp
  | molden => exact mo s .molden (Or.inl rfl) hv h
  | molekel => exact mo s .molekel (Or.inr (Or.inl rfl)) hv h
  | wfn => exact mo s .wfn (Or.inr (Or.inr (Or.inl rfl))) hv h
  | wfx => exact mo s .wfx (Or.inr (Or.inr (Or.inr rfl))) hv h
where
  mo (s : Bool) (f : Fmt) (hf : IsMoBasis f) {allow : Bool} {d d' : Obj} {same : Bool} {ws : List Warn}
      (hv : ∀ m, d.mo = some m → Inv m) (h : prepareDump s f allow d = .ret d' same ws) :
      (same = true ↔ ws = []) ∧ (same = true → d' = d) ∧ (same = false → allow = true) ∧ ws.length ≤ 2 := by
    rw [prepareDump_mo s f hf] at h
    by_cases hfr : fracReject f d = true
    · simp [hfr] at h
    simp only [hfr, if_false] at h
    cases hm : d.mo with
    | none => simp [moBasis, hm] at h
    | some m =>
      cases hb : d.obasis with
      | none => simp [moBasis, hm, hb] at h
      | some b =>
        obtain ⟨t1, t2, t3, t4⟩ := moBasis_table (cartOnly f) allow d m b hm hb (hv m hm)
        by_cases hh : moHard (cartOnly f) m b = true
        · obtain ⟨r, hr⟩ := t1 hh; rw [hr] at h; cases h
        · have hh' : moHard (cartOnly f) m b = false := by simpa using hh
          by_cases hn : (needU m || needS false b) = true
          · cases allow with
            | false => obtain ⟨r, hr⟩ := t2 hh' rfl hn; rw [hr] at h; cases h
            | true =>
              obtain ⟨m', _, hr⟩ := t4 hh' rfl hn
              rw [hr] at h
              injection h with h1 h2 h3
              subst h2 h3
              have : moWarns m b ≠ [] := by
                unfold moWarns
                rcases Bool.or_eq_true _ _ ▸ hn with h | h <;> simp [h]
              refine ⟨by simp [this], by simp, by simp, ?_⟩
              unfold moWarns; split <;> split <;> simp
          · have hn' : (needU m || needS false b) = false := by simpa using hn
            rw [t3 hh' hn'] at h
            injection h with h1 h2 h3
            subst h1 h2 h3; simp

/-! ### through `api.dump_one` -/

/-- **rejection ⇒ PrepareDumpError ∧ file system unchanged.**  Let the callee `prepare_dump` of the API flow
behave as the format's modelled `prepare_dump` does on the object (`prepBeh`), all declared-required attributes
being present.  If the format rejects the object — for whatever reason and with whatever class: its own
`PrepareDumpError`, the `ValueError` of `prepare_segmented`, a `TypeError` from numpy — then `dump_one` raises
`PrepareDumpError`, every path of the file system keeps its content (an existing target keeps its bytes, an
absent one stays absent), and the trace has neither an `open` nor a `write`.  (`Props/C08.dump_one_preflight`
applied to the modelled decision.) -/
theorem dump_one_prepare_rejects (s : Bool) (fmt : Fmt) (allow : Bool) (d : Obj) (b : Beh) (f : Frame)
    (path : Nat) (fs : FS) (hsel : b.select = none) (hp : b.hasPrepare = true) (hreq : checkExc f.attrs = none)
    (hprep : f.prep = prepBeh (prepareDump s fmt allow d))
    (c : Cls) (r : Reason) (h : prepareDump s fmt allow d = .raised c r) :
    (runOne dumpOne b f path fs).1 = .raised .prepareDump none ∧
    (runOne dumpOne b f path fs).2.fs = fs ∧
    Ev.openW ∉ (runOne dumpOne b f path fs).2.trace ∧
    ∀ t, Ev.write t ∉ (runOne dumpOne b f path fs).2.trace := by
  have hbad : preFault b f = some (clsExc c) := by simp [preFault, hreq, hp, hprep, h, prepBeh]
  exact Props.C08.dump_one_preflight b f path fs (clsExc c) hsel hbad (clsExc_isException c)

/-- **…and only then.**  With the same set-up and a target that can be opened, `dump_one` ends in
`PrepareDumpError` exactly when the format's `prepare_dump` rejects the object; otherwise the target is opened
(truncated) and the returned / converted object is handed to the writer. -/
theorem dump_one_prepare_iff (s : Bool) (fmt : Fmt) (allow : Bool) (d : Obj) (b : Beh) (f : Frame)
    (path : Nat) (fs : FS) (hsel : b.select = none) (hp : b.hasPrepare = true) (hreq : checkExc f.attrs = none)
    (hprep : f.prep = prepBeh (prepareDump s fmt allow d)) (hopen : b.openFail = none) :
    ((runOne dumpOne b f path fs).1 = .raised .prepareDump none ↔ ∃ c r, prepareDump s fmt allow d = .raised c r) ∧
    ((∀ c r, prepareDump s fmt allow d ≠ .raised c r) → Ev.openW ∈ (runOne dumpOne b f path fs).2.trace) := by
  constructor
  · constructor
    · intro hout
      cases hd : prepareDump s fmt allow d with
      | raised c r => exact ⟨c, r, rfl⟩
      | ret d' same ws =>
        exfalso
        obtain ⟨st', hmaster, -⟩ := dump_one_master b f path fs
        have hpe : preExc b f = none := by simp [preExc_eq, preFault, hreq, hp, hprep, hd, prepBeh]
        rw [hmaster] at hout
        simp only [dumpOneOut, hsel, hpe, hopen] at hout
        cases hw : f.w.fail with
        | none => simp [hw] at hout
        | some e =>
          simp only [hw, funnelDump] at hout
          cases e <;> simp [Exc.isException] at hout
    · rintro ⟨c, r, h⟩
      exact (dump_one_prepare_rejects s fmt allow d b f path fs hsel hp hreq hprep c r h).1
  · intro hno
    cases hd : prepareDump s fmt allow d with
    | raised c r => exact absurd hd (hno c r)
    | ret d' same ws =>
      obtain ⟨st', hmaster, evs, hev, hif⟩ := dump_one_master b f path fs
      have hpe : preExc b f = none := by simp [preExc_eq, preFault, hreq, hp, hprep, hd, prepBeh]
      have hop : opened b f = true := by simp [opened, hpe, hsel, hopen]
      rw [hmaster]; simp only [hop, if_true] at hif
      rw [hif.2]; simp

/-! ### non-vacuity and witnesses (evaluated by the kernel) -/

private def sShell : GShell := ⟨0, [0], ["c"], [1], [[1]]⟩
private def spShell : GShell := ⟨0, [0, 1], ["c", "c"], [1], [[1], [1/2]]⟩
private def ssShell : GShell := ⟨0, [0, 0], ["c", "c"], [1], [[1], [1/2]]⟩
private def dPure : GShell := ⟨0, [2], ["p"], [1], [[1]]⟩
/-- identity flag, warnings, kind of the returned orbitals, number of returned shells -/
private def retInfo : Outcome → Option (Bool × List Warn × Option Kind × Option Nat)
  | .ret d same ws => some (same, ws, d.mo.map (·.kind), d.obasis.map List.length)
  | .raised _ _ => none
private def rmo (o : List Rat) (ab : Option (List Rat) := none) : MO :=
  { kind := .restricted, norba := some o.length, norbb := some o.length, occs := some o, aminusb := ab }

/-- restricted occupations `[1, 2, 0]`: alpha `[1, 1, 0]` passes, beta `[0, 1, 0]` does not — refused by the
beta check although the orbitals are restricted (and `[2, 1, 0]` is accepted) -/
example :
    prepareDump false .fchk false { mo := some (rmo [1, 2, 0]), obasis := some [sShell] }
      = .raised .prepareDump .betaAufbau ∧
    prepareDump false .fchk false { mo := some (rmo [2, 1, 0]), obasis := some [sShell] }
      = .ret { mo := some (rmo [2, 1, 0]), obasis := some [sShell] } true [] := by decide +kernel

/-- alpha out of order through `occs_aminusb`; fractional spin occupations; an all-zero `occs_aminusb` is kept -/
example :
    prepareDump false .fchk true { mo := some (rmo [2, 1, 1] (some [0, -1, 1])), obasis := some [sShell] }
      = .raised .prepareDump .alphaAufbau ∧
    prepareDump false .fchk true { mo := some (rmo [2, 1] (some [0, 1/2])), obasis := some [sShell] }
      = .raised .prepareDump .alphaAufbau ∧
    prepareDump false .fchk false { mo := some (rmo [2, 0] (some [0, 0])), obasis := some [sShell] }
      = .ret { mo := some (rmo [2, 0] (some [0, 0])), obasis := some [sShell] } true [] := by decide +kernel

/-- FCHK keeps an SP shell `[0, 1]` but not an `[0, 0]` generalized shell; Molden keeps neither -/
example :
    prepareDump false .fchk false { obasis := some [spShell] } = .ret { obasis := some [spShell] } true [] ∧
    prepareDump false .fchk false { obasis := some [ssShell] } = .raised .prepareDump .sContraction ∧
    prepareDump false .molden false { mo := some (rmo [2]), obasis := some [spShell] }
      = .raised .prepareDump .sContraction := by decide +kernel

/-- `occs_aminusb` that is all zero / sums to zero is still a reason for Molden without `allow_changes`;
with `allow_changes` and an SP shell: two conversions, two warnings, in order -/
example :
    prepareDump false .molden false { mo := some (rmo [2, 0] (some [0, 0])), obasis := some [sShell] }
      = .raised .prepareDump .uAminusb ∧
    prepareDump false .wfx false { mo := some (rmo [1, 1] (some [1, -1])), obasis := some [sShell] }
      = .raised .prepareDump .uAminusb ∧
    retInfo (prepareDump false .molekel true { mo := some (rmo [1, 1] (some [1, -1])), obasis := some [spShell] })
      = some (false, [.unrestricted, .segmented], some .unrestricted, some 2) := by decide +kernel

/-- pure functions: WFN refuses them even with `allow_changes`, Molden writes them -/
example :
    prepareDump false .wfn true { mo := some (rmo [2]), obasis := some [dPure] } = .raised .prepareDump .pureFunctions ∧
    prepareDump false .molden false { mo := some (rmo [2]), obasis := some [dPure] }
      = .ret { mo := some (rmo [2]), obasis := some [dPure] } true [] := by decide +kernel

/-- Molekel refuses a fractional electron count even with `allow_changes` (occupations `[2, 2, 5/4]` with
`occs_aminusb`), accepts fractional occupations with an integer total; Molden converts the former -/
example :
    prepareDump false .molekel true { mo := some (rmo [2, 2, 5/4] (some [0, 0, 3/4])), obasis := some [sShell] }
      = .raised .prepareDump .fractionalNelec ∧
    prepareDump false .molekel false { mo := some (rmo [3/2, 1/2]), obasis := some [sShell] }
      = .ret { mo := some (rmo [3/2, 1/2]), obasis := some [sShell] } true [] ∧
    retInfo (prepareDump false .molden true { mo := some (rmo [2, 2, 5/4] (some [0, 0, 3/4])), obasis := some [sShell] })
      = some (false, [.unrestricted], some .unrestricted, some 1) := by decide +kernel

/-- through the extracted `dump_one`: a Molden object with `occs_aminusb`, no `allow_changes`, target
pre-existing with content `[7, 7]` — refused, bytes kept, nothing opened -/
example :
    let d : Obj := { mo := some (rmo [2, 0] (some [0, 0])), obasis := some [sShell] }
    let fr : Frame := ⟨[.val, .val, .val, .val], prepBeh (prepareDump false .molden false d), ⟨3, none⟩⟩
    let r := runOne Gen.ApiFlow.dumpOne {} fr 0 (fun p => if p = 0 then some [7, 7] else none)
    r.1 = .raised .prepareDump none ∧ r.2.fs 0 = some [7, 7] ∧ Ev.openW ∉ r.2.trace := by decide +kernel

end Iodata.Props.C08Prepare
