/-
C02 — save-then-reload returns the same data (byte-level formats).

Property theorems only.  For each format: `load (dump o) = ok (norm o)` for *every* object of the
explicit domain `Dom` and *every* layout satisfying the stated side conditions; the layout actually
used by iodata (`Gen.Layouts`, regenerated from the source on every run) is shown to satisfy them and
to have the shape the model assumes, by computation.  The models are the ones the driver executes in
the `fmt dump` / `fmt load` correspondence streams.
-/
import Iodata.Lemmas.Fmt.Xyz
import Iodata.Lemmas.Fmt.Sdf
import Iodata.Lemmas.Fmt.Pdb
import Iodata.Lemmas.Fmt.PdbConect
import Iodata.Lemmas.Fmt.Fchk
import Iodata.Lemmas.Fmt.Cube
import Iodata.Lemmas.Fmt.Mol2
import Iodata.Lemmas.Fmt.Fcidump
import Iodata.Lemmas.Fmt.Poscar
import Iodata.Gen.Layouts

namespace Iodata.Props.C02
open Iodata.Chars Iodata.Decimal Iodata.Fmt Iodata.Gen.Layouts

/-! ## XYZ -/

/-- XYZ: reading back the written file gives the object (with the default title when it had none),
for every atom list, every element of the table, every coordinate value of any magnitude and sign
(including `-0`), and every list of user-defined fixed-point columns. -/
theorem xyz_load_dump (T : Tables) (L : Xyz.Layout) (hL : Xyz.LayoutOK L) (o : Xyz.Obj) (h : Xyz.Dom T L o) :
    Xyz.load T L (Xyz.dump T L o) = .ok (Xyz.norm L o) :=
  Xyz.load_dump T L hL o h

/-- XYZ: objects of the domain are written, not refused. -/
theorem xyz_written_not_refused (T : Tables) (L : Xyz.Layout) (o : Xyz.Obj) (h : Xyz.Dom T L o) :
    Xyz.dumpE T L o = .ok (Xyz.dump T L o) := by
  unfold Xyz.dumpE
  have : (o.atoms.all fun a => (T.sym? a.z).isSome && decide (a.vals.length = L.cols.length)) = true := by
    rw [List.all_eq_true]; intro a ha
    obtain ⟨s, hs, _⟩ := Xyz.okZ_spec (h.2 a ha).1
    simp [hs, (h.2 a ha).2]
  simp [this]

/-- XYZ: the layout in the source satisfies the side conditions. -/
theorem xyz_layout_ok : Xyz.LayoutOK xyzL := by decide +kernel

/-- XYZ: every element of `num2sym` is written as a blank-free, non-numeric symbol that
`sym2num[word.title()]` maps back to the same atomic number; the table covers Z = 1..118. -/
theorem xyz_elements_ok :
    tables.num2sym.map (·.1) = List.range' 1 118 ∧ ∀ z ∈ List.range' 1 118, Xyz.okZ tables z = true := by
  decide +kernel

/-- XYZ: the writer in the source has exactly the fields the model prints (names of the formatted
expressions included: `value / angstrom`, `num2sym[atnum]`), with three equal coordinate columns. -/
theorem xyz_writer_shape :
    xyz_writes = Xyz.expectedWrites xyzL ∧ (∃ c, xyzL.cols = List.replicate 3 c ∧ c.negate = false) := by
  refine ⟨by decide +kernel, xyzL.cols.headD ⟨0, 0, false⟩, by decide +kernel, by decide +kernel⟩

/-- non-vacuity: a domain object at the column boundary (`-999.9999999999` fills the 15 columns,
`99999.9999999999` overflows them, `-0.0000000000`), with the default title. -/
example : Xyz.Dom tables xyzL ⟨[], [⟨1, [⟨true, 9999999999999⟩, ⟨false, 999999999999999⟩, ⟨true, 0⟩]⟩,
    ⟨118, [⟨false, 0⟩, ⟨false, 1⟩, ⟨true, 1⟩]⟩]⟩ := by decide +kernel

end Iodata.Props.C02

namespace Iodata.Props.C02
open Iodata.Chars Iodata.Decimal Iodata.Fmt Iodata.Gen.Layouts

/-! ## SDF (V2000) -/

/-- SDF: every object the V2000 columns can hold (counts, atom numbers and bond types that fit three
columns — up to 999 atoms and bonds —, coordinates that fit `10.4f`: −9999.9999 … 99999.9999 Å, fields may
touch) is read back from the written file as itself (default title filled in). -/
theorem sdf_load_dump (T : Tables) (L : Sdf.Layout) (hL : Sdf.LayoutOK L) (o : Sdf.Obj) (h : Sdf.Dom T L o) :
    Sdf.load T L (Sdf.dump T L o) = .ok (Sdf.norm L o) :=
  Sdf.load_dump T L hL o h

/-- SDF: objects with known elements are written, not refused. -/
theorem sdf_written_not_refused (T : Tables) (L : Sdf.Layout) (o : Sdf.Obj)
    (h : ∀ a ∈ o.atoms, Sdf.okZ T L a.zn = true) : Sdf.dumpE T L o = .ok (Sdf.dump T L o) := by
  unfold Sdf.dumpE
  have : (o.atoms.all fun a => (T.sym? a.zn).isSome) = true := by
    rw [List.all_eq_true]; intro a ha
    obtain ⟨s, hs, _⟩ := Sdf.okZ_spec (h a ha)
    simp [hs]
  simp [this]

/-- SDF: the layout in the source satisfies the side conditions — in particular the writer's columns
are the reader's slices — and all elements are usable. -/
theorem sdf_layout_ok : Sdf.LayoutOK sdfL ∧ ∀ z ∈ List.range' 1 118, Sdf.okZ tables sdfL z = true := by
  decide +kernel

/-- SDF: the writer and the reader in the source have exactly the fields / slices the model uses. -/
theorem sdf_source_shape : sdf_writes = Sdf.expectedWrites sdfL ∧ sdf_slices = Sdf.expectedSlices sdfL := by
  decide +kernel

def sdfC100 : List Sdf.Atom := List.replicate 100 ⟨⟨false, 0⟩, ⟨false, 0⟩, ⟨false, 0⟩, 6⟩

/-- non-vacuity at the boundaries (the former counter-examples): bond between atoms 101 and 110 written
`101110  1`, x = 99999.9999, y = −9999.9999 touching, 100 bonds (counts line `101100`). -/
example : Sdf.Dom tables sdfL ⟨[], sdfC100 ++ [⟨⟨false, 999999999⟩, ⟨true, 99999999⟩, ⟨true, 0⟩, 118⟩],
    ⟨100, 98, 8⟩ :: List.replicate 99 ⟨99, 100, 1⟩⟩ := by decide +kernel

example : Sdf.load tables sdfL (Sdf.dump tables sdfL ⟨['t'], sdfC100 ++ sdfC100, [⟨100, 109, 1⟩]⟩)
    = .ok ⟨['t'], sdfC100 ++ sdfC100, [⟨100, 109, 1⟩]⟩ := by decide +kernel

/-! ## PDB

`norm` keeps title and atoms and turns the bond list into `normBonds` (each unordered pair once, as
`(a, b)` with `a < b`, ordered by first atom then by the order in which the writer met the partner; a bond
listed twice stays listed twice; PDB stores no bond type). -/

/-- PDB: the ATOM record written for any atom whose fields fit their columns (name ≤ 4, residue ≤ 3,
resSeq ≤ 4 characters incl. sign, x/y/z in `8.3f`, occupancy/B in `6.2f`, serial ≤ 5 digits) is cut by
the reader's slices into exactly that atom — for every layout whose writer columns equal the reader slices. -/
theorem pdb_atom_record (T : Tables) (L : Pdb.Layout) (hL : Pdb.LayoutOK L) (serial : Nat) (a : Pdb.Atom)
    (hser : (natToDec serial).length ≤ L.serialW) (ha : Pdb.AtomOK T L a) :
    Pdb.parseAtom T L (Pdb.dumpAtom T L serial a) = .ok a :=
  Pdb.parseAtom_dumpAtom T L hL serial a hser ha

/-- PDB: the written file — TITLE and COMPND records of any number of lines (continuation numbers 2, 3, …, 10, … right-
justified up to column ten and one blank), ATOM records, CONECT records (every bond in both directions, at most four
partners per record, an extra record without partners when the count is a multiple of four), END — is read back
as the object with its bonds de-duplicated, for any number of atoms the serial columns hold and any list of
bonds between existing atoms (repeated bonds, any order, any number of partners per atom); multi-line titles and
compounds come back line by line. -/
theorem pdb_load_dump (T : Tables) (L : Pdb.Layout) (hL : Pdb.LayoutOK L) (hC : Pdb.ConectOK L) (o : Pdb.Obj)
    (h : Pdb.DomB T L o) : Pdb.load T L (Pdb.dump T L o) = .ok (Pdb.norm L o) :=
  Pdb.load_dump_bonds T L hL hC o h

/-- PDB: one CONECT record with at most four partners is read as the bonds to the partners with a larger index. -/
theorem pdb_conect_record (L : Pdb.Layout) (hC : Pdb.ConectOK L) (a : Nat) (others : List Nat)
    (ha : (natToDec (a + 1)).length ≤ L.conW) (hlen : others.length ≤ 4)
    (hfit : ∀ b ∈ others, (natToDec (b + 1)).length ≤ L.conW) :
    Pdb.parseConect L (Pdb.conectLine L a others) = .ok ((others.filter (a < ·)).map fun b => (a, b)) :=
  Pdb.parseConect_conectLine L hC a others ha hlen hfit

/-- PDB: objects of the domain are written, not refused. -/
theorem pdb_written_not_refused (T : Tables) (L : Pdb.Layout) (o : Pdb.Obj) (h : Pdb.DomB T L o) :
    Pdb.dumpE T L o = .ok (Pdb.dump T L o) := by
  unfold Pdb.dumpE
  have h1 : (o.atoms.all fun a => (T.sym? a.zn).isSome) = true := by
    rw [List.all_eq_true]; intro a ha
    obtain ⟨s, hs, _⟩ := Pdb.okZ_spec (h.2.2.2.2.2.1 a ha).1
    simp [hs]
  have h2 : (o.bonds.all fun b => decide (b.1 < o.atoms.length) && decide (b.2 < o.atoms.length)) = true := by
    rw [List.all_eq_true]; intro b hb
    simp [h.2.2.2.2.2.2.2.2 b hb]
  simp [h1, h2]

/-- PDB: the layout in the source satisfies the side conditions: the writer's ATOM columns are the
reader's slices; every element symbol fits the two element columns and is mapped back. -/
theorem pdb_layout_ok : Pdb.LayoutOK pdbL ∧ Pdb.ConectOK pdbL ∧ ∀ z ∈ List.range' 1 118, Pdb.okZ tables z = true := by
  decide +kernel

/-- PDB: the writer and the reader in the source have the fields / slices the model uses. -/
theorem pdb_source_shape :
    Pdb.expectedAtomWrite pdbL ∈ pdb_writes ∧ Pdb.expectedConectWrite pdbL ∈ pdb_writes ∧
    pdb_slices = Pdb.expectedSlices pdbL := by
  decide +kernel

/-- PDB: the CONECT writer fills the columns the reader cuts (`CONECT`, then five 5-column fields). -/
theorem pdb_conect_writer_columns_eq_reader_slices :
    Pdb.conectWriterColumns pdbL = Pdb.conectColumns pdbL := by decide +kernel

/-- PDB (former counter-example, fixed by ce4a9da): the record `CONECT1000010001` written for the bond
between atoms 10000 and 10001 is read back as that bond; a full record of four partners as well. -/
theorem pdb_conect_examples :
    Pdb.conectLine pdbL 9999 [10000] = "CONECT1000010001\n".toList ∧
    Pdb.parseConect pdbL (Pdb.conectLine pdbL 9999 [10000]) = .ok [(9999, 10000)] ∧
    Pdb.parseConect pdbL (Pdb.conectLine pdbL 5 [99998, 0, 6, 12344]) = .ok [(5, 99998), (5, 6), (5, 12344)] := by
  decide +kernel

/-- non-vacuity at the column boundaries: x = −999.999, y = 9999.999, resSeq −999 and 9999, B = 999.99;
bonds in both orders, a repeated bond, an atom with exactly four partners (extra empty record) and one with five. -/
example : Pdb.DomB tables pdbL ⟨[], [⟨17, ['C','l','1','2'], ['A','B','C'], 'A', -999, ⟨true, 999999⟩, ⟨false, 9999999⟩,
    ⟨true, 0⟩, ⟨false, 100⟩, ⟨false, 99999⟩⟩, ⟨1, [], [], ' ', 9999, ⟨false, 0⟩, ⟨false, 1⟩, ⟨true, 1⟩, ⟨true, 999⟩, ⟨false, 0⟩⟩],
    [(0, 1), (1, 0), (0, 1), (0, 1), (1, 0)], some ['a','\n','b','\n','\n','c']⟩ := by
  decide +kernel

/-- non-vacuity of the chunking: four partners give a full record plus an empty one, five give 4 + 1. -/
example : Pdb.dumpConect pdbL 6 [(0, 1), (0, 2), (0, 3), (0, 4)] =
    ["CONECT    1    2    3    4    5\n".toList, "CONECT    1\n".toList, "CONECT    2    1\n".toList,
     "CONECT    3    1\n".toList, "CONECT    4    1\n".toList, "CONECT    5    1\n".toList] ∧
    (Pdb.dumpConect pdbL 6 [(0, 1), (0, 2), (0, 3), (0, 4), (5, 0)]).take 2 =
    ["CONECT    1    2    3    4    5\n".toList, "CONECT    1    6\n".toList] := by decide +kernel

/-- non-vacuity of the continuation records: a twelve-line title is written with the numbers 2 … 12 ending in column ten. -/
example : (Pdb.multiLines pdbL Pdb.kTitle "a\nb\nc\nd\ne\nf\ng\nh\ni\nj\nk\nl".toList).drop 8 =
    ["TITLE    9 i\n".toList, "TITLE   10 j\n".toList, "TITLE   11 k\n".toList, "TITLE   12 l\n".toList] := by decide +kernel

end Iodata.Props.C02

namespace Iodata.Props.C02
open Iodata.Chars Iodata.Decimal Iodata.Fmt Iodata.Gen.Layouts

/-! ## Scientific notation (shared by FCHK, Cube, FCIDUMP) -/

/-- `float(pad + f"{x: w.dE}" + pad')` is the printed mantissa/exponent pair: every sign (`-0.0` included), every
mantissa of `d+1` digits, every exponent (two or more digits), with or without the `' '` flag, `E` or `e`. -/
theorem sci_roundtrip (sp up : Bool) (w d : Nat) (x : Sci) (hd : 0 < d) (hm : x.man < 10 ^ (d + 1)) (q : Str) (hq : AllWs q) :
    pySci d (fmtSci sp up w d x ++ q) = some x :=
  pySci_fmtSci sp up w d x hd hm q hq

/-! ## FCHK, field layer -/

/-- FCHK: a file made of the two header lines and any list of fields (integer/real scalars, integer/real arrays of any
length ≥ 0 — six integers or five reals per line, ragged last line —, distinct labels of at most 40 characters) is read
back by `_load_fchk_low` + the header part of `load_one` as written: same labels, same values in the same order, arrays
of length zero left out (the writer skips them), title defaulted, level of theory and basis name lower-cased, run type
mapped through the writer's and the reader's tables. -/
theorem fchk_load_dump (L : Fchk.Layout) (hL : Fchk.LayoutOK L) (R : Fchk.RunTypes) (hR : Fchk.RunTypesOK L R)
    (keep : Str → Bool) (o : Fchk.Obj) (h : Fchk.Dom L o) (hk : ∀ f ∈ o.fields, keep f.1 = true) :
    Fchk.load L.reader R keep (Fchk.dump L R o) = .ok (Fchk.norm L R o) :=
  Fchk.load_dump L hL R hR keep o h hk

/-- FCHK: array lines for ALL sizes: the lines hold the elements in order, none is empty, none has more than `k`
elements, and their lengths are `k, …, k, (n-1) mod k + 1`. -/
theorem fchk_chunks (α : Type) (k : Nat) (hk : 0 < k) (l : List α) (hne : l ≠ []) :
    (Fchk.chunks k l).flatten = l ∧ (∀ ch ∈ Fchk.chunks k l, ch ≠ [] ∧ ch.length ≤ k) ∧
    (Fchk.chunks k l).map List.length = List.replicate ((l.length - 1) / k) k ++ [(l.length - 1) % k + 1] :=
  ⟨(Fchk.chunks_spec k hk l hne).1, (Fchk.chunks_spec k hk l hne).2, Fchk.chunkF_lengths k hk l.length l (Nat.le_refl _) hne⟩

/-- FCHK: `arr[np.tril_indices(n)]` applied to `_triangle_to_dense(t)` gives `t` back, for every matrix size `n`
(Hessian, polarizability, density matrices); the dense matrix is symmetric. -/
theorem fchk_tril_dense (α : Type) (d : α) (n : Nat) (t : List α) (h : t.length = n * (n + 1) / 2) :
    Fchk.tril (Fchk.dense d n t) = t ∧
    ∀ i j, ((Fchk.dense d n t).getD i []).getD j d = ((Fchk.dense d n t).getD j []).getD i d :=
  ⟨Fchk.tril_dense d n t h, Fchk.dense_symm d n t⟩

/-- FCHK: the quadrupole index vector of the reader undoes the one of the writer (both extracted from the source):
`q[W][R] = q` for every six-component moment. -/
theorem fchk_quadrupole_inverse (α : Type) (d a b c e f g : α) :
    Fchk.pick d fchkQuadR (Fchk.pick d fchkQuadW [a, b, c, e, f, g]) = [a, b, c, e, f, g] := by
  rfl

/-- FCHK: the writer's order is XX, YY, ZZ, XY, XZ, YZ of an alphabetically stored quadrupole (xx, xy, xz, yy, yz, zz). -/
theorem fchk_quadrupole_order : fchkQuadW = [0, 3, 5, 1, 2, 4] ∧ fchkQuadW.length = 6 ∧ fchkQuadR.length = 6 := by decide

/-- FCHK: the layout and the run-type tables in the source satisfy the side conditions: the label is cut where the writer
ends it, every command the writer emits is one word that the reader maps back (`opt` → `FOpt` → `opt`, …). -/
theorem fchk_layout_ok : Fchk.LayoutOK fchkL ∧ Fchk.RunTypesOK fchkL fchkRunTypes ∧
    ∀ e ∈ fchkRunTypes.writer, lookupK fchkRunTypes.reader e.2 = some e.1 := by decide +kernel

/-- FCHK: the four field writers and the field reader in the source have the shape the model assumes. -/
theorem fchk_source_shape :
    fchk_writes.filter (fun w => w.1 != "dump_one".toList) = Fchk.expectedWrites fchkL ∧
    fchk_slices = [⟨"_load_fchk_field".toList, "label".toList, 0, some fchkL.cut, false⟩,
                   ⟨"_load_fchk_field".toList, "words".toList, fchkL.cut, none, false⟩] := by decide +kernel

/-- non-vacuity: scalars, arrays of 5, 6, 7 and 0 elements, a negative number with a two-digit exponent in every column,
`opt` as run type. -/
example : Fchk.Dom fchkL ⟨['t'], some ['o','p','t'], some ['h','f'], none,
    [(['N'], .int (-12)), (['E',' ','x'], .real ⟨true, 123456789, -99⟩),
     (['A'], .ints [1, -2, 3, 4, 5, 6, 7]), (['B'], .reals (List.replicate 6 ⟨true, 999999999, 99⟩)), (['C'], .reals []),
     (['D'], .ints [0, 0, 0, 0, 0])]⟩ := by decide +kernel

example : Fchk.load fchkL.reader fchkRunTypes (fun _ => true) (Fchk.dump fchkL fchkRunTypes
      ⟨[], some ['o','p','t'], some ['H','f'], none, [(['A'], .ints [1, -2, 3, 4, 5, 6, 7]), (['C'], .reals [])]⟩)
    = .ok ⟨fchkL.defaultTitle, some ['o','p','t'], ['h','f'], some ['n','a'], [(['A'], .ints [1, -2, 3, 4, 5, 6, 7])]⟩ := by
  decide +kernel

end Iodata.Props.C02

namespace Iodata.Props.C02
open Iodata.Chars Iodata.Decimal Iodata.Fmt Iodata.Gen.Layouts

/-! ## Cube -/

/-- Cube: the written file — title, comment line, origin, three axis lines, one line per atom, then the grid values six per
line with a new line at the start of every row of `shape[2]` values — is read back as the object: every shape (also
`shape[2] % 6 ≠ 0`, also empty grids), any number of atoms, header numbers of any magnitude and sign, every value.
`norm` fills in the default title and replaces a core charge of exactly zero by the atomic number (the reader's heuristic;
`cube_ghost_atom_violated` below). -/
theorem cube_load_dump (L : Cube.Layout) (hL : Cube.LayoutOK L) (o : Cube.Obj) (h : Cube.Dom L o) :
    Cube.load L (Cube.dump L o) = .ok (Cube.norm L o) :=
  Cube.load_dump L hL o h

/-- Cube: the data lines hold the values in order and no line is empty, for every row length (ragged rows included). -/
theorem cube_data_lines (L : Cube.Layout) (hL : Cube.LayoutOK L) (bs : Nat) (hbs : 0 < bs) (data : List Sci) :
    (Cube.dataChunks L bs data).flatten = data ∧ ∀ ch ∈ Cube.dataChunks L bs data, ch ≠ [] :=
  Cube.dataChunks_spec L hL bs hbs data

/-- Cube: away from zero core charges the round trip changes nothing but an empty title. -/
theorem cube_norm_identity (L : Cube.Layout) (o : Cube.Obj) (hq : ∀ a ∈ o.atoms, a.q.mag ≠ 0) (ht : o.title ≠ []) :
    Cube.norm L o = o := by
  have h1 : o.atoms.map (Cube.normAtom L) = o.atoms := by
    conv => rhs; rw [← List.map_id o.atoms]
    apply List.map_congr_left
    intro a ha
    simp [Cube.normAtom, hq a ha]
  have h2 : Cube.outTitle L o.title = o.title := by
    cases e : o.title with
    | nil => exact absurd e ht
    | cons _ _ => rfl
  simp [Cube.norm, h1, h2]

/-- Cube (known finding `cube:ghost-atom-core-charge`, proved on the model): a ghost atom (Z = 1, core charge 0) is
written with `0.000000` in the second column and comes back with core charge 1. -/
theorem cube_ghost_atom_violated :
    Cube.load cubeL (Cube.dump cubeL ⟨['g'], ⟨⟨false, 0⟩, ⟨false, 0⟩, ⟨false, 0⟩⟩, [1, 1, 1],
        [⟨⟨false, 1000000⟩, ⟨false, 0⟩, ⟨false, 0⟩⟩, ⟨⟨false, 0⟩, ⟨false, 1000000⟩, ⟨false, 0⟩⟩, ⟨⟨false, 0⟩, ⟨false, 0⟩, ⟨false, 1000000⟩⟩],
        [⟨1, ⟨false, 0⟩, ⟨false, 0⟩, ⟨false, 0⟩, ⟨false, 0⟩⟩], [⟨false, 100000, 0⟩]⟩)
      = .ok ⟨['g'], ⟨⟨false, 0⟩, ⟨false, 0⟩, ⟨false, 0⟩⟩, [1, 1, 1],
        [⟨⟨false, 1000000⟩, ⟨false, 0⟩, ⟨false, 0⟩⟩, ⟨⟨false, 0⟩, ⟨false, 1000000⟩, ⟨false, 0⟩⟩, ⟨⟨false, 0⟩, ⟨false, 0⟩, ⟨false, 1000000⟩⟩],
        [⟨1, ⟨false, 1000000⟩, ⟨false, 0⟩, ⟨false, 0⟩, ⟨false, 0⟩⟩], [⟨false, 100000, 0⟩]⟩ := by decide +kernel

/-- Cube: layout side conditions and the shape of the writer in the source. -/
theorem cube_layout_ok : Cube.LayoutOK cubeL ∧ cube_writes = Cube.expectedWrites cubeL := by decide +kernel

def cubeVals (n : Nat) : List Sci := (List.range n).map fun k => ⟨k % 2 == 1, 100000 + k, (k : Int) - 3⟩

/-- Cube: the writer's counter loop (`counter % 6 == 5`, the reset at the end of a row when `shape[2] % 6 ≠ 0`) produces
exactly the lines of the closed form the theorems speak about — checked by computation for every row length 1 … 14 and
1 … 3 rows (the driver runs both on every generated case as well). -/
theorem cube_loop_is_closed_form :
    ∀ bs ∈ List.range' 1 14, ∀ rows ∈ [1, 2, 3],
      Cube.dataLoop cubeL bs 0 (cubeVals (bs * rows)) = (Cube.dataLines cubeL bs (cubeVals (bs * rows))).flatten := by
  decide +kernel

/-- non-vacuity: a 2 × 1 × 7 grid (row length 7: lines of 6 + 1), two atoms, negative and wide header numbers. -/
example : Cube.Dom cubeL ⟨[], ⟨⟨true, 123456789012⟩, ⟨false, 0⟩, ⟨true, 0⟩⟩, [2, 1, 7],
    [⟨⟨false, 1⟩, ⟨false, 0⟩, ⟨false, 0⟩⟩, ⟨⟨false, 0⟩, ⟨true, 5⟩, ⟨false, 0⟩⟩, ⟨⟨false, 0⟩, ⟨false, 0⟩, ⟨false, 999999999⟩⟩],
    [⟨8, ⟨false, 6000000⟩, ⟨true, 1⟩, ⟨false, 2⟩, ⟨false, 3⟩⟩, ⟨1, ⟨false, 1000000⟩, ⟨false, 0⟩, ⟨false, 0⟩, ⟨false, 0⟩⟩],
    cubeVals 14⟩ := by decide +kernel

end Iodata.Props.C02

namespace Iodata.Props.C02
open Iodata.Chars Iodata.Decimal Iodata.Fmt Iodata.Gen.Layouts

/-! ## MOL2 -/

/-- MOL2: the written file (comment, blank lines, MOLECULE record with title and counts, ATOM records, optional BOND
records) is read back as the object: any number of atoms and bonds (no column limits: every field is blank separated),
every element, coordinates and charges of any magnitude and sign, any blank-free atom type, every bond type of the table
(others come back as `un`); absent atom types come back as the element symbol, absent charges as 0. -/
theorem mol2_load_dump (T : Tables) (L : Mol2.Layout) (hL : Mol2.LayoutOK T L) (o : Mol2.Obj) (h : Mol2.Dom T L o) :
    Mol2.load T L (Mol2.dump T L o) = .ok (Mol2.norm T L o) :=
  Mol2.load_dump T L hL o h

/-- MOL2: objects with known elements are written, not refused. -/
theorem mol2_written_not_refused (T : Tables) (L : Mol2.Layout) (o : Mol2.Obj) (h : Mol2.Dom T L o) :
    Mol2.dumpE T L o = .ok (Mol2.dump T L o) := by
  unfold Mol2.dumpE
  have : (o.atoms.all fun a => (T.sym? a.zn).isSome) = true := by
    rw [List.all_eq_true]; intro a ha
    obtain ⟨s, hs, _⟩ := Mol2.okZ_spec (h.2.1 a ha).1
    simp [hs]
  simp [this]

/-- MOL2: layout side conditions, all 118 elements are recognised from their symbol, every bond type name maps back,
and the writer in the source has the shape the model assumes. -/
theorem mol2_layout_ok : Mol2.LayoutOK tables mol2L ∧ (∀ z ∈ List.range' 1 118, Mol2.okZ tables z = true) ∧
    mol2_writes = Mol2.expectedWrites mol2L := by decide +kernel

/-- non-vacuity: wide and negative coordinates, a long atom type, absent type/charge, every kind of bond type. -/
example : Mol2.Dom tables mol2L ⟨[], [⟨17, ⟨true, 123456789012345⟩, ⟨false, 0⟩, ⟨true, 0⟩, some "Cl.very.long".toList, some ⟨true, 12345⟩⟩,
    ⟨1, ⟨false, 1⟩, ⟨false, 2⟩, ⟨false, 3⟩, none, none⟩], some [⟨0, 1, 1⟩, ⟨1, 0, 4⟩, ⟨0, 1, 99⟩]⟩ := by decide +kernel

/-! ## FCIDUMP, index layer of the two-electron integrals -/

/-- FCIDUMP: for every number of orbitals and every 8-fold symmetric array, the array the reader rebuilds
(`set_four_index_element(two_mo, ii, ik, ij, il, value)` per line, starting from zeros) from the lines of the writer's canonical
loop (`i1 ≤ i0`, `i3 ≤ i2`, `i0(i0+1)/2+i1 ≥ i2(i2+1)/2+i3`, zeros skipped, chemists' `(i0 i1|i2 i3)` = physicists'
`[i0, i2, i1, i3]`) equals the written array at every position: nothing permuted, nothing lost, no element attached to a
different index quadruple. -/
theorem fcidump_two_electron_roundtrip (α : Type) [DecidableEq α] (zero : α) (n : Nat) (T : Helpers.Idx → α) (h : Fcidump.Sym T)
    (p : Helpers.Idx) (hp : p.1 < n ∧ p.2.1 < n ∧ p.2.2.1 < n ∧ p.2.2.2 < n) :
    Fcidump.fill zero (Fcidump.entries zero n T) p = T p :=
  Fcidump.fill_entries zero n T h p hp

/-- FCIDUMP: the writer's loop emits exactly the canonical index quadruples with a non-zero element, all inside the array. -/
theorem fcidump_loop_spec (α : Type) [DecidableEq α] (zero : α) (n : Nat) (T : Helpers.Idx → α) (e : Fcidump.Entry α) :
    e ∈ Fcidump.entries zero n T ↔ e.i0 < n ∧ e.i1 ≤ e.i0 ∧ e.i2 < n ∧ e.i3 ≤ e.i2 ∧
      Fcidump.tri e.i0 + e.i1 ≥ Fcidump.tri e.i2 + e.i3 ∧ T (e.i0, e.i2, e.i1, e.i3) ≠ zero ∧ e.v = T (e.i0, e.i2, e.i1, e.i3) :=
  Fcidump.mem_entries zero n T e

/-- non-vacuity: two orbitals give the six canonical quadruples in the writer's order. -/
example : (Fcidump.entries (0 : Int) 2 (fun _ => 1)).map (fun e => (e.i0, e.i1, e.i2, e.i3)) =
    [(0, 0, 0, 0), (1, 0, 0, 0), (1, 0, 1, 0), (1, 1, 0, 0), (1, 1, 1, 0), (1, 1, 1, 1)] := by decide

/-! ## POSCAR, structure layer -/

/-- POSCAR: the documented re-ordering — atoms grouped by element, heaviest first — is a permutation of the atoms (none
lost, none duplicated, each keeps its own coordinates), keeps the original order inside every element, and the element
and count lines expand (in the reader) to exactly the atomic numbers of the written sequence. -/
theorem poscar_grouping (α : Type) (key : α → Nat) (atoms : List α) :
    (Poscar.group key atoms).Perm atoms ∧
    (∀ z, (Poscar.group key atoms).filter (fun a => key a == z) = atoms.filter (fun a => key a == z)) ∧
    (Poscar.group key atoms).map key = Poscar.expand (Poscar.counts key atoms) ∧
    (Poscar.uniqDesc (atoms.map key)).Pairwise (· > ·) :=
  ⟨Poscar.group_perm key atoms, Poscar.group_stable key atoms, Poscar.group_keys key atoms, Poscar.uniqDesc_sorted _⟩

/-- POSCAR: direct coordinates.  In exact arithmetic the reader's `frac · cell` undoes the writer's `inv(cell)ᵀ · r` for every
cell with non-zero determinant (explicit 3×3 adjugate), so any deviation of the real code is floating-point round-off only. -/
theorem poscar_fractional_roundtrip (cell : Poscar.M3) (h : Poscar.det cell ≠ 0) (r : Poscar.V3) :
    Poscar.toCart cell (Poscar.toFrac cell r) = r :=
  Poscar.toCart_toFrac cell h r

/-- non-vacuity: Z = [1, 8, 1, 6, 8] is written in the order O O C H H = atoms 1, 4, 3, 0, 2. -/
example : Poscar.group (fun (a : Nat × Nat) => a.1) [(1, 0), (8, 1), (1, 2), (6, 3), (8, 4)] = [(8, 1), (8, 4), (6, 3), (1, 0), (1, 2)] ∧
    Poscar.counts (fun (a : Nat × Nat) => a.1) [(1, 0), (8, 1), (1, 2), (6, 3), (8, 4)] = [(8, 2), (6, 1), (1, 2)] := by decide

end Iodata.Props.C02
