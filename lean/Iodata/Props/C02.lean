/-
C02 — save-then-reload returns the same data (byte-level formats).

Property theorems only.  For each format: `load (dump o) = ok (norm o)` for *every* object of the
explicit domain `Dom` and *every* layout satisfying the stated side conditions; the layout actually
used by iodata (`Gen.Layouts`, regenerated from the source on every run) is shown to satisfy them and
to have the shape the model assumes, by computation.  The models are the ones the driver executes in
the `fmt dump` / `fmt load` correspondence streams.
-/
import Iodata.Lemmas.Fmt.Xyz
import Iodata.Lemmas.Fmt.Sdf
import Iodata.Gen.Layouts

namespace Iodata.Props.C02
open Iodata.Chars Iodata.Decimal Iodata.Fmt Iodata.Gen.Layouts

/-! ## XYZ -/

/-- XYZ: reading back the written file gives the object (with the default title when it had none),
for every atom list, every element of the table, every coordinate value of any magnitude and sign
(including `-0`), and every list of user-defined fixed-point columns. -/
theorem xyz_load_dump (T : Tables) (L : Xyz.Layout) (hL : Xyz.LayoutOK L) (o : Xyz.Obj) (h : Xyz.Dom T L o) :
    Xyz.load T L (Xyz.dump T L o) = .ok (Xyz.norm L o) :=
  Xyz.load_dump T L hL o h

/-- XYZ: objects of the domain are written, not refused. -/
theorem xyz_written_not_refused (T : Tables) (L : Xyz.Layout) (o : Xyz.Obj) (h : Xyz.Dom T L o) :
    Xyz.dumpE T L o = .ok (Xyz.dump T L o) := by
  unfold Xyz.dumpE
  have : (o.atoms.all fun a => (T.sym? a.z).isSome && decide (a.vals.length = L.cols.length)) = true := by
    rw [List.all_eq_true]; intro a ha
    obtain ⟨s, hs, _⟩ := Xyz.okZ_spec (h.2 a ha).1
    simp [hs, (h.2 a ha).2]
  simp [this]

/-- XYZ: the layout in the source satisfies the side conditions. -/
theorem xyz_layout_ok : Xyz.LayoutOK xyzL := by decide +kernel

/-- XYZ: every element of `num2sym` is written as a blank-free, non-numeric symbol that
`sym2num[word.title()]` maps back to the same atomic number; the table covers Z = 1..118. -/
theorem xyz_elements_ok :
    tables.num2sym.map (·.1) = List.range' 1 118 ∧ ∀ z ∈ List.range' 1 118, Xyz.okZ tables z = true := by
  decide +kernel

/-- XYZ: the writer in the source has exactly the fields the model prints (names of the formatted
expressions included: `value / angstrom`, `num2sym[atnum]`), with three equal coordinate columns. -/
theorem xyz_writer_shape :
    xyz_writes = Xyz.expectedWrites xyzL ∧ (∃ c, xyzL.cols = List.replicate 3 c ∧ c.negate = false) := by
  refine ⟨by decide +kernel, xyzL.cols.headD ⟨0, 0, false⟩, by decide +kernel, by decide +kernel⟩

/-- non-vacuity: a domain object at the column boundary (`-999.9999999999` fills the 15 columns,
`99999.9999999999` overflows them, `-0.0000000000`), with the default title. -/
example : Xyz.Dom tables xyzL ⟨[], [⟨1, [⟨true, 9999999999999⟩, ⟨false, 999999999999999⟩, ⟨true, 0⟩]⟩,
    ⟨118, [⟨false, 0⟩, ⟨false, 1⟩, ⟨true, 1⟩]⟩]⟩ := by decide +kernel

end Iodata.Props.C02

namespace Iodata.Props.C02
open Iodata.Chars Iodata.Decimal Iodata.Fmt Iodata.Gen.Layouts

/-! ## SDF (V2000)

Full statement (what the property asks): `∀ o, Sdf.ColDom T L o → Sdf.load T L (Sdf.dump T L o) = .ok (Sdf.norm L o)`
— every object the V2000 columns can hold (≤ 999 atoms and bonds, coordinates −9999.9999 … 99999.9999 Å).
It is FALSE for the code as it is (`sdf_colDom_violated_*` below): `load_one` splits the records on
blanks instead of cutting columns, so two fields that touch are read as one word.  Proved is the
statement on `Sdf.Dom` = `ColDom` minus exactly those objects (a field other than the first of its
record fills its column). -/

/-- SDF, partial: on the objects whose y/z coordinates, bond count, second bond atom and bond type leave
a blank in their columns, the written file is read back as the object (default title filled in). -/
theorem sdf_load_dump_partial (T : Tables) (L : Sdf.Layout) (hL : Sdf.LayoutOK L) (o : Sdf.Obj) (h : Sdf.Dom T L o) :
    Sdf.load T L (Sdf.dump T L o) = .ok (Sdf.norm L o) :=
  Sdf.load_dump T L hL o h

/-- a molecule of 100 carbon atoms at the origin -/
def sdfC100 : List Sdf.Atom := List.replicate 100 ⟨⟨false, 0⟩, ⟨false, 0⟩, ⟨false, 0⟩, 6⟩

/-- SDF violated (bond record): a single bond between atoms 1 and 100 of a 100-atom molecule is written
as `  1100  1  0  0  0  0` and read back as a bond between atoms 1100 and 1 of type 0 — silently. -/
theorem sdf_colDom_violated_bond :
    Sdf.ColDom tables sdfL ⟨['t'], sdfC100, [⟨0, 99, 1⟩]⟩ ∧
    Sdf.load tables sdfL (Sdf.dump tables sdfL ⟨['t'], sdfC100, [⟨0, 99, 1⟩]⟩) = .ok ⟨['t'], sdfC100, [⟨1099, 0, 0⟩]⟩ := by
  decide +kernel

/-- SDF violated (atom record): y = −1000.0000 Å fills its ten columns; the file cannot be read back. -/
theorem sdf_colDom_violated_coord :
    Sdf.ColDom tables sdfL ⟨['t'], [⟨⟨false, 10000⟩, ⟨true, 10000000⟩, ⟨false, 0⟩, 6⟩], []⟩ ∧
    Sdf.load tables sdfL (Sdf.dump tables sdfL ⟨['t'], [⟨⟨false, 10000⟩, ⟨true, 10000000⟩, ⟨false, 0⟩, 6⟩], []⟩)
      = .error .float := by
  decide +kernel

/-- SDF violated (counts record): 100 bonds on two atoms: the counts line reads `  2100  0 …`. -/
theorem sdf_colDom_violated_counts :
    let o : Sdf.Obj := ⟨['t'], [⟨⟨false, 0⟩, ⟨false, 0⟩, ⟨false, 0⟩, 6⟩, ⟨⟨false, 0⟩, ⟨false, 0⟩, ⟨false, 0⟩, 6⟩],
      List.replicate 100 ⟨0, 1, 1⟩⟩
    Sdf.ColDom tables sdfL o ∧ failed (Sdf.load tables sdfL (Sdf.dump tables sdfL o)) = true := by
  decide +kernel

/-- SDF: objects with known elements are written, not refused. -/
theorem sdf_written_not_refused (T : Tables) (L : Sdf.Layout) (o : Sdf.Obj)
    (h : ∀ a ∈ o.atoms, Sdf.okZ T a.zn = true) : Sdf.dumpE T L o = .ok (Sdf.dump T L o) := by
  unfold Sdf.dumpE
  have : (o.atoms.all fun a => (T.sym? a.zn).isSome) = true := by
    rw [List.all_eq_true]; intro a ha
    obtain ⟨s, hs, _⟩ := Sdf.okZ_spec (h a ha)
    simp [hs]
  simp [this]

/-- SDF: the layout in the source satisfies the side conditions; all elements usable. -/
theorem sdf_layout_ok : Sdf.LayoutOK sdfL ∧ ∀ z ∈ List.range' 1 118, Sdf.okZ tables z = true := by
  decide +kernel

/-- SDF: the writer in the source has exactly the fields the model prints. -/
theorem sdf_writer_shape : sdf_writes = Sdf.expectedWrites sdfL := by decide +kernel

/-- non-vacuity of the proved part at its boundary: 999 atoms would be too slow to list here, so:
y = −999.9999 and z = 9999.9999 (nine characters), second bond atom 99, 99 bonds is the most. -/
example : Sdf.Dom tables sdfL ⟨[], sdfC100 ++ [⟨⟨true, 99999999⟩, ⟨true, 9999999⟩, ⟨false, 99999999⟩, 118⟩],
    [⟨100, 98, 8⟩, ⟨99, 0, 1⟩]⟩ := by decide +kernel

end Iodata.Props.C02
