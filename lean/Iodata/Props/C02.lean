/-
C02 — save-then-reload returns the same data (byte-level formats).

Property theorems only.  For each format: `load (dump o) = ok (norm o)` for *every* object of the
explicit domain `Dom` and *every* layout satisfying the stated side conditions; the layout actually
used by iodata (`Gen.Layouts`, regenerated from the source on every run) is shown to satisfy them and
to have the shape the model assumes, by computation.  The models are the ones the driver executes in
the `fmt dump` / `fmt load` correspondence streams.
-/
import Iodata.Lemmas.Fmt.Xyz
import Iodata.Lemmas.Fmt.Sdf
import Iodata.Lemmas.Fmt.Pdb
import Iodata.Lemmas.Fmt.PdbConect
import Iodata.Gen.Layouts

namespace Iodata.Props.C02
open Iodata.Chars Iodata.Decimal Iodata.Fmt Iodata.Gen.Layouts

/-! ## XYZ -/

/-- XYZ: reading back the written file gives the object (with the default title when it had none),
for every atom list, every element of the table, every coordinate value of any magnitude and sign
(including `-0`), and every list of user-defined fixed-point columns. -/
theorem xyz_load_dump (T : Tables) (L : Xyz.Layout) (hL : Xyz.LayoutOK L) (o : Xyz.Obj) (h : Xyz.Dom T L o) :
    Xyz.load T L (Xyz.dump T L o) = .ok (Xyz.norm L o) :=
  Xyz.load_dump T L hL o h

/-- XYZ: objects of the domain are written, not refused. -/
theorem xyz_written_not_refused (T : Tables) (L : Xyz.Layout) (o : Xyz.Obj) (h : Xyz.Dom T L o) :
    Xyz.dumpE T L o = .ok (Xyz.dump T L o) := by
  unfold Xyz.dumpE
  have : (o.atoms.all fun a => (T.sym? a.z).isSome && decide (a.vals.length = L.cols.length)) = true := by
    rw [List.all_eq_true]; intro a ha
    obtain ⟨s, hs, _⟩ := Xyz.okZ_spec (h.2 a ha).1
    simp [hs, (h.2 a ha).2]
  simp [this]

/-- XYZ: the layout in the source satisfies the side conditions. -/
theorem xyz_layout_ok : Xyz.LayoutOK xyzL := by decide +kernel

/-- XYZ: every element of `num2sym` is written as a blank-free, non-numeric symbol that
`sym2num[word.title()]` maps back to the same atomic number; the table covers Z = 1..118. -/
theorem xyz_elements_ok :
    tables.num2sym.map (·.1) = List.range' 1 118 ∧ ∀ z ∈ List.range' 1 118, Xyz.okZ tables z = true := by
  decide +kernel

/-- XYZ: the writer in the source has exactly the fields the model prints (names of the formatted
expressions included: `value / angstrom`, `num2sym[atnum]`), with three equal coordinate columns. -/
theorem xyz_writer_shape :
    xyz_writes = Xyz.expectedWrites xyzL ∧ (∃ c, xyzL.cols = List.replicate 3 c ∧ c.negate = false) := by
  refine ⟨by decide +kernel, xyzL.cols.headD ⟨0, 0, false⟩, by decide +kernel, by decide +kernel⟩

/-- non-vacuity: a domain object at the column boundary (`-999.9999999999` fills the 15 columns,
`99999.9999999999` overflows them, `-0.0000000000`), with the default title. -/
example : Xyz.Dom tables xyzL ⟨[], [⟨1, [⟨true, 9999999999999⟩, ⟨false, 999999999999999⟩, ⟨true, 0⟩]⟩,
    ⟨118, [⟨false, 0⟩, ⟨false, 1⟩, ⟨true, 1⟩]⟩]⟩ := by decide +kernel

end Iodata.Props.C02

namespace Iodata.Props.C02
open Iodata.Chars Iodata.Decimal Iodata.Fmt Iodata.Gen.Layouts

/-! ## SDF (V2000) -/

/-- SDF: every object the V2000 columns can hold (counts, atom numbers and bond types that fit three
columns — up to 999 atoms and bonds —, coordinates that fit `10.4f`: −9999.9999 … 99999.9999 Å, fields may
touch) is read back from the written file as itself (default title filled in). -/
theorem sdf_load_dump (T : Tables) (L : Sdf.Layout) (hL : Sdf.LayoutOK L) (o : Sdf.Obj) (h : Sdf.Dom T L o) :
    Sdf.load T L (Sdf.dump T L o) = .ok (Sdf.norm L o) :=
  Sdf.load_dump T L hL o h

/-- SDF: objects with known elements are written, not refused. -/
theorem sdf_written_not_refused (T : Tables) (L : Sdf.Layout) (o : Sdf.Obj)
    (h : ∀ a ∈ o.atoms, Sdf.okZ T L a.zn = true) : Sdf.dumpE T L o = .ok (Sdf.dump T L o) := by
  unfold Sdf.dumpE
  have : (o.atoms.all fun a => (T.sym? a.zn).isSome) = true := by
    rw [List.all_eq_true]; intro a ha
    obtain ⟨s, hs, _⟩ := Sdf.okZ_spec (h a ha)
    simp [hs]
  simp [this]

/-- SDF: the layout in the source satisfies the side conditions — in particular the writer's columns
are the reader's slices — and all elements are usable. -/
theorem sdf_layout_ok : Sdf.LayoutOK sdfL ∧ ∀ z ∈ List.range' 1 118, Sdf.okZ tables sdfL z = true := by
  decide +kernel

/-- SDF: the writer and the reader in the source have exactly the fields / slices the model uses. -/
theorem sdf_source_shape : sdf_writes = Sdf.expectedWrites sdfL ∧ sdf_slices = Sdf.expectedSlices sdfL := by
  decide +kernel

def sdfC100 : List Sdf.Atom := List.replicate 100 ⟨⟨false, 0⟩, ⟨false, 0⟩, ⟨false, 0⟩, 6⟩

/-- non-vacuity at the boundaries (the former counter-examples): bond between atoms 101 and 110 written
`101110  1`, x = 99999.9999, y = −9999.9999 touching, 100 bonds (counts line `101100`). -/
example : Sdf.Dom tables sdfL ⟨[], sdfC100 ++ [⟨⟨false, 999999999⟩, ⟨true, 99999999⟩, ⟨true, 0⟩, 118⟩],
    ⟨100, 98, 8⟩ :: List.replicate 99 ⟨99, 100, 1⟩⟩ := by decide +kernel

example : Sdf.load tables sdfL (Sdf.dump tables sdfL ⟨['t'], sdfC100 ++ sdfC100, [⟨100, 109, 1⟩]⟩)
    = .ok ⟨['t'], sdfC100 ++ sdfC100, [⟨100, 109, 1⟩]⟩ := by decide +kernel

/-! ## PDB

`norm` keeps title and atoms and turns the bond list into `normBonds` (each unordered pair once, as
`(a, b)` with `a < b`, ordered by first atom then by the order in which the writer met the partner; a bond
listed twice stays listed twice; PDB stores no bond type). -/

/-- PDB: the ATOM record written for any atom whose fields fit their columns (name ≤ 4, residue ≤ 3,
resSeq ≤ 4 characters incl. sign, x/y/z in `8.3f`, occupancy/B in `6.2f`, serial ≤ 5 digits) is cut by
the reader's slices into exactly that atom — for every layout whose writer columns equal the reader slices. -/
theorem pdb_atom_record (T : Tables) (L : Pdb.Layout) (hL : Pdb.LayoutOK L) (serial : Nat) (a : Pdb.Atom)
    (hser : (natToDec serial).length ≤ L.serialW) (ha : Pdb.AtomOK T L a) :
    Pdb.parseAtom T L (Pdb.dumpAtom T L serial a) = .ok a :=
  Pdb.parseAtom_dumpAtom T L hL serial a hser ha

/-- PDB: the written file — TITLE, ATOM records, CONECT records (every bond in both directions, at most four
partners per record, an extra record without partners when the count is a multiple of four), END — is read back
as the object with its bonds de-duplicated, for any number of atoms the serial columns hold and any list of
bonds between existing atoms (repeated bonds, any order, any number of partners per atom). -/
theorem pdb_load_dump (T : Tables) (L : Pdb.Layout) (hL : Pdb.LayoutOK L) (hC : Pdb.ConectOK L) (o : Pdb.Obj)
    (h : Pdb.DomB T L o) : Pdb.load T L (Pdb.dump T L o) = .ok (Pdb.norm L o) :=
  Pdb.load_dump_bonds T L hL hC o h

/-- PDB: one CONECT record with at most four partners is read as the bonds to the partners with a larger index. -/
theorem pdb_conect_record (L : Pdb.Layout) (hC : Pdb.ConectOK L) (a : Nat) (others : List Nat)
    (ha : (natToDec (a + 1)).length ≤ L.conW) (hlen : others.length ≤ 4)
    (hfit : ∀ b ∈ others, (natToDec (b + 1)).length ≤ L.conW) :
    Pdb.parseConect L (Pdb.conectLine L a others) = .ok ((others.filter (a < ·)).map fun b => (a, b)) :=
  Pdb.parseConect_conectLine L hC a others ha hlen hfit

/-- PDB: objects of the domain are written, not refused. -/
theorem pdb_written_not_refused (T : Tables) (L : Pdb.Layout) (o : Pdb.Obj) (h : Pdb.DomB T L o) :
    Pdb.dumpE T L o = .ok (Pdb.dump T L o) := by
  unfold Pdb.dumpE
  have h1 : (o.atoms.all fun a => (T.sym? a.zn).isSome) = true := by
    rw [List.all_eq_true]; intro a ha
    obtain ⟨s, hs, _⟩ := Pdb.okZ_spec (h.2.2.2.2.1 a ha).1
    simp [hs]
  have h2 : (o.bonds.all fun b => decide (b.1 < o.atoms.length) && decide (b.2 < o.atoms.length)) = true := by
    rw [List.all_eq_true]; intro b hb
    simp [h.2.2.2.2.2.2.2 b hb]
  simp [h1, h2]

/-- PDB: the layout in the source satisfies the side conditions: the writer's ATOM columns are the
reader's slices; every element symbol fits the two element columns and is mapped back. -/
theorem pdb_layout_ok : Pdb.LayoutOK pdbL ∧ Pdb.ConectOK pdbL ∧ ∀ z ∈ List.range' 1 118, Pdb.okZ tables z = true := by
  decide +kernel

/-- PDB: the writer and the reader in the source have the fields / slices the model uses. -/
theorem pdb_source_shape :
    Pdb.expectedAtomWrite pdbL ∈ pdb_writes ∧ Pdb.expectedConectWrite pdbL ∈ pdb_writes ∧
    pdb_slices = Pdb.expectedSlices pdbL := by
  decide +kernel

/-- PDB: the CONECT writer fills the columns the reader cuts (`CONECT`, then five 5-column fields). -/
theorem pdb_conect_writer_columns_eq_reader_slices :
    Pdb.conectWriterColumns pdbL = Pdb.conectColumns pdbL := by decide +kernel

/-- PDB (former counter-example, fixed by ce4a9da): the record `CONECT1000010001` written for the bond
between atoms 10000 and 10001 is read back as that bond; a full record of four partners as well. -/
theorem pdb_conect_examples :
    Pdb.conectLine pdbL 9999 [10000] = "CONECT1000010001\n".toList ∧
    Pdb.parseConect pdbL (Pdb.conectLine pdbL 9999 [10000]) = .ok [(9999, 10000)] ∧
    Pdb.parseConect pdbL (Pdb.conectLine pdbL 5 [99998, 0, 6, 12344]) = .ok [(5, 99998), (5, 6), (5, 12344)] := by
  decide +kernel

/-- non-vacuity at the column boundaries: x = −999.999, y = 9999.999, resSeq −999 and 9999, B = 999.99;
bonds in both orders, a repeated bond, an atom with exactly four partners (extra empty record) and one with five. -/
example : Pdb.DomB tables pdbL ⟨[], [⟨17, ['C','l','1','2'], ['A','B','C'], 'A', -999, ⟨true, 999999⟩, ⟨false, 9999999⟩,
    ⟨true, 0⟩, ⟨false, 100⟩, ⟨false, 99999⟩⟩, ⟨1, [], [], ' ', 9999, ⟨false, 0⟩, ⟨false, 1⟩, ⟨true, 1⟩, ⟨true, 999⟩, ⟨false, 0⟩⟩],
    [(0, 1), (1, 0), (0, 1), (0, 1), (1, 0)]⟩ := by
  decide +kernel

/-- non-vacuity of the chunking: four partners give a full record plus an empty one, five give 4 + 1. -/
example : Pdb.dumpConect pdbL 6 [(0, 1), (0, 2), (0, 3), (0, 4)] =
    ["CONECT    1    2    3    4    5\n".toList, "CONECT    1\n".toList, "CONECT    2    1\n".toList,
     "CONECT    3    1\n".toList, "CONECT    4    1\n".toList, "CONECT    5    1\n".toList] ∧
    (Pdb.dumpConect pdbL 6 [(0, 1), (0, 2), (0, 3), (0, 4), (5, 0)]).take 2 =
    ["CONECT    1    2    3    4    5\n".toList, "CONECT    1    6\n".toList] := by decide +kernel

end Iodata.Props.C02
