/-
C08 — dump failures follow the error contract; pre-flight errors spare existing files.

Property theorems only.  The model is `Iodata/Model/Flow.lean` (IR + trace semantics `exec`, the same
definitions the driver runs for the `flow` correspondence stream); helper lemmas and the hand-written
reference terms `Ref.*` live in `Iodata/Lemmas/Flow.lean`, `Flow2.lean`.  `Gen/ApiFlow.lean` is regenerated
from `iodata/api.py` on every run; `flow_matches_*` tie the generated terms to the reference terms.

All theorems quantify over ALL behaviours of the callees (`Beh`, `Frame`): what `getattr` does for every
required name (value / `None` / raises), whether `prepare_dump` exists, returns or raises which class, whether
`open` fails, how many `write` calls succeed before which exception, how many frames the user's iterator
yields and how it ends, and over every file system `fs` and target `path`.
-/
import Iodata.Lemmas.Flow2
import Iodata.Gen.ApiFlow
import Iodata.Gen.ApiRegistry

namespace Iodata.Props.C08
open Iodata.Flow Iodata.Flow.Ref

/-! ### T1: the generated flow terms are the reference terms -/

/-- api.py `_check_required` has the transcribed shape. -/
theorem flow_matches_check_required : Gen.ApiFlow.checkRequired = Ref.checkRequired := by decide
/-- api.py `dump_one` has the transcribed shape (pre-flight block before `open`, the two funnels). -/
theorem flow_matches_dump_one : Gen.ApiFlow.dumpOne = Ref.dumpOne := by decide
/-- api.py `dump_many` has the transcribed shape. -/
theorem flow_matches_dump_many : Gen.ApiFlow.dumpMany = Ref.dumpMany := by decide
/-- api.py `write_input` has the transcribed shape. -/
theorem flow_matches_write_input : Gen.ApiFlow.writeInput = Ref.writeInput := by decide

/-- The decorator around every API function, statement by statement: `func` runs inside
`warnings.catch_warnings(record=True)` with the caller's filters left in force (no `simplefilter` inside, so a
caller's warnings-as-errors setting makes the warning raise *inside* `func`, where the funnels turn it into
`PrepareDumpError` before the file is opened, or `DumpError`); what was recorded is re-issued afterwards; the
`try/finally` has no `except`, so exceptions of `func` pass through unchanged and its result is returned. -/
theorem reissue_wrapper_shape :
    Gen.ApiFlow.reissueBody =
      ["def _reissue_warnings(func):", "", "    def inner(*args, **kwargs):", "        warning_list = []",
       "        try:", "            with warnings.catch_warnings(record=True) as warning_list:",
       "                result = func(*args, **kwargs)", "        finally:",
       "            for warning in warning_list:",
       "                warnings.warn(warning.message, warning.category, stacklevel=2)",
       "        return result", "    return inner"] := by decide

/-- every API entry point carries exactly that decorator and no other. -/
theorem api_decorators_pinned :
    Gen.ApiFlow.decorators =
      [("_check_required", []), ("dump_one", ["_reissue_warnings"]), ("dump_many", ["_reissue_warnings"]),
       ("write_input", ["_reissue_warnings"]), ("load_one", ["_reissue_warnings"]),
       ("load_many", ["_reissue_warnings"]), ("convert", []), ("main", [])] := by decide

/-! ### `dump_one` -/

/-- every required attribute is `None` or has a value and at least one is `None` ⇒ the check loop raises
`PrepareDumpError` (any subset of the required attributes, any position) -/
theorem check_missing_attr (as : List AttrB) (h : ∀ a ∈ as, a = .val ∨ a = .none) (hn : AttrB.none ∈ as) :
    checkExc as = some .prepareDump := by
  induction as with
  | nil => cases hn
  | cons a as ih =>
    rcases h a (List.mem_cons_self) with rfl | rfl
    · have : AttrB.none ∈ as := by
        rcases List.mem_cons.mp hn with h' | h'
        · cases h'
        · exact h'
      simpa [checkExc] using ih (fun x hx => h x (List.mem_cons_of_mem _ hx)) this
    · rfl

/-- **dump_one_preflight.**  If `_check_required` or `prepare_dump` fails with any `Exception` (a required
attribute is `None`, a getter raises, `prepare_dump` raises `PrepareDumpError` or anything else), `dump_one`
raises `PrepareDumpError`, the file system is unchanged (a pre-existing target keeps its bytes, an absent
one stays absent) and the trace contains neither an `open` nor a `write`. -/
theorem dump_one_preflight (b : Beh) (f : Frame) (path : Nat) (fs : FS) (e : Exc)
    (hsel : b.select = none) (hbad : preFault b f = some e) (he : e.isException = true) :
    (runOne dumpOne b f path fs).1 = .raised .prepareDump none ∧
    (runOne dumpOne b f path fs).2.fs = fs ∧
    Ev.openW ∉ (runOne dumpOne b f path fs).2.trace ∧
    ∀ t, Ev.write t ∉ (runOne dumpOne b f path fs).2.trace := by
  obtain ⟨st', h, evs, hev, hif⟩ := dump_one_master b f path fs
  have hpe : preExc b f = some .prepareDump := by simp [preExc_eq, hbad, funnelPre, he]
  have hop : opened b f = false := by simp [opened, hpe]
  rw [h]; simp only [hop] at hif
  refine ⟨by simp [dumpOneOut, hsel, hpe], hif.1, ?_, ?_⟩
  · rw [hif.2]; intro hm; rcases hev _ hm with h' | h' <;> cases h'
  · intro t; rw [hif.2]; intro hm; rcases hev _ hm with h' | h' <;> cases h'

/-- corollary: a missing required attribute (any non-empty subset set to `None`). -/
theorem dump_one_missing_attr (b : Beh) (f : Frame) (path : Nat) (fs : FS)
    (hsel : b.select = none) (h : ∀ a ∈ f.attrs, a = .val ∨ a = .none) (hn : AttrB.none ∈ f.attrs) :
    (runOne dumpOne b f path fs).1 = .raised .prepareDump none ∧
    (runOne dumpOne b f path fs).2.fs = fs ∧ Ev.openW ∉ (runOne dumpOne b f path fs).2.trace := by
  have hb : preFault b f = some .prepareDump := by simp [preFault, check_missing_attr f.attrs h hn]
  obtain ⟨h1, h2, h3, -⟩ := dump_one_preflight b f path fs .prepareDump hsel hb rfl
  exact ⟨h1, h2, h3⟩

/-- **dump_one_write.**  After a successful pre-flight and `open`, any `Exception` of the writer (at any
`write` call, after any number of completed ones) surfaces as `DumpError`; the file was opened, holds
exactly the completed writes, other paths are untouched, and the last event is `close`. -/
theorem dump_one_write (b : Beh) (f : Frame) (path : Nat) (fs : FS) (e : Exc)
    (hsel : b.select = none) (hpre : preFault b f = none) (hopen : b.openFail = none)
    (hw : f.w.fail = some e) (he : e.isException = true) :
    (runOne dumpOne b f path fs).1 = .raised .dump none ∧
    (runOne dumpOne b f path fs).2.trace.head? = some .close ∧
    (runOne dumpOne b f path fs).2.fs path = some (List.range' 0 f.w.n) ∧
    ∀ q, q ≠ path → (runOne dumpOne b f path fs).2.fs q = fs q := by
  obtain ⟨st', h, evs, hev, hif⟩ := dump_one_master b f path fs
  have hpe : preExc b f = none := by simp [preExc_eq, hpre]
  have hop : opened b f = true := by simp [opened, hpe, hsel, hopen]
  rw [h]; simp only [hop, if_true] at hif
  refine ⟨by simp [dumpOneOut, hsel, hpe, hopen, hw, funnelDump, he], by simp [hif.2], ?_, ?_⟩
  · rw [hif.1, appendToks_at]; simp [fsSet]
  · intro q hq; rw [hif.1, appendToks_other _ _ _ _ _ hq]; simp [fsSet, hq]

/-- the success case (non-vacuity of the hypotheses above): everything fine ⇒ returns, the target holds all
writes, the file is closed. -/
theorem dump_one_success (b : Beh) (f : Frame) (path : Nat) (fs : FS)
    (hsel : b.select = none) (hpre : preFault b f = none) (hopen : b.openFail = none) (hw : f.w.fail = none) :
    (runOne dumpOne b f path fs).1 = .ret ∧
    (runOne dumpOne b f path fs).2.trace.head? = some .close ∧
    (runOne dumpOne b f path fs).2.fs path = some (List.range' 0 f.w.n) := by
  obtain ⟨st', h, evs, hev, hif⟩ := dump_one_master b f path fs
  have hpe : preExc b f = none := by simp [preExc_eq, hpre]
  have hop : opened b f = true := by simp [opened, hpe, hsel, hopen]
  rw [h]; simp only [hop, if_true] at hif
  refine ⟨by simp [dumpOneOut, hsel, hpe, hopen, hw], by simp [hif.2], ?_⟩
  rw [hif.1, appendToks_at]; simp [fsSet]

/-- **select_first.**  When format selection fails (C17: always with `FileFormatError`) that exception is the
outcome, nothing was touched and nothing else ran. -/
theorem dump_one_select (b : Beh) (f : Frame) (path : Nat) (fs : FS) (e : Exc) (hsel : b.select = some e) :
    (runOne dumpOne b f path fs).1 = .raised e none ∧
    (runOne dumpOne b f path fs).2.fs = fs ∧ (runOne dumpOne b f path fs).2.trace = [] := by
  have : runOne dumpOne b f path fs = (.raised e none, { fs := fs, cur := f }) := by
    unfold runOne dumpOne; rw [exec_seq]; simp [exec, execCall, raiseB, hsel]
  rw [this]; exact ⟨rfl, rfl, rfl⟩

/-- **only_these_escape (dump_one).**  Whatever the callees do, an exception leaving `dump_one` is
`PrepareDumpError`, `DumpError`, the exception of format selection, the error `open` itself raised, or a
non-`Exception` (KeyboardInterrupt-like) raised by a callee. -/
theorem dump_one_only_these_escape (b : Beh) (f : Frame) (path : Nat) (fs : FS) (e : Exc) (ln : Option Int)
    (h : (runOne dumpOne b f path fs).1 = .raised e ln) :
    e = .prepareDump ∨ e = .dump ∨ b.select = some e ∨ b.openFail = some e ∨ e.isException = false := by
  obtain ⟨st', hm, -⟩ := dump_one_master b f path fs
  rw [hm] at h; simp only [dumpOneOut] at h
  cases hs : b.select with
  | some x => simp [hs] at h; simp [h.1]
  | none =>
    simp only [hs] at h
    cases hp : preExc b f with
    | some x =>
      simp [hp] at h
      rw [preExc_eq] at hp
      cases hq : preFault b f with
      | none => simp [hq] at hp
      | some y =>
        simp [hq, funnelPre] at hp
        by_cases hy : y.isException = true
        · simp [hy] at hp; left; rw [← h.1, ← hp]
        · simp [hy] at hp; right; right; right; right; rw [← h.1, ← hp]; simpa using hy
    | none =>
      simp only [hp] at h
      cases ho : b.openFail with
      | some x => simp [ho] at h; simp [h.1]
      | none =>
        simp only [ho] at h
        cases hw : f.w.fail with
        | none => simp [hw] at h
        | some y =>
          simp [hw, funnelDump] at h
          by_cases hy : y.isException = true
          · simp [hy] at h; right; left; exact h.1.symm
          · simp [hy] at h; right; right; right; right; rw [← h.1]; simpa using hy

/-! ### `dump_many` -/

/-- **dump_many_empty.**  An empty frame sequence ⇒ `DumpError`; nothing is created or touched. -/
theorem dump_many_empty (b : Beh) (path : Nat) (fs : FS) (hsel : b.select = none) (hend : b.iterEnd = none) :
    (runMany dumpMany b [] path fs).1 = .raised .dump none ∧
    (runMany dumpMany b [] path fs).2.fs = fs ∧ (runMany dumpMany b [] path fs).2.trace = [] := by
  obtain ⟨st', h, hfs, htr⟩ := dump_many_master b [] path fs
  rw [h]; exact ⟨by simp [manyOut, hsel, firstNextExc, hend], hfs, htr⟩

/-- **dump_many_first.**  A fault of the first frame (as in `dump_one_preflight`) ⇒ `PrepareDumpError`, file
system unchanged, no `open`, whatever the later frames are. -/
theorem dump_many_first (b : Beh) (f0 : Frame) (rest : List Frame) (path : Nat) (fs : FS) (e : Exc)
    (hsel : b.select = none) (hbad : preFault b f0 = some e) (he : e.isException = true) :
    (runMany dumpMany b (f0 :: rest) path fs).1 = .raised .prepareDump none ∧
    (runMany dumpMany b (f0 :: rest) path fs).2.fs = fs ∧
    Ev.openW ∉ (runMany dumpMany b (f0 :: rest) path fs).2.trace := by
  obtain ⟨st', h, evs, hev, hif⟩ := dump_many_master b (f0 :: rest) path fs
  have hpe : preExc b f0 = some .prepareDump := by simp [preExc_eq, hbad, funnelPre, he]
  rw [h]; simp only [hpe, Option.isNone_some, Bool.and_false, Bool.false_and, Bool.false_eq_true, if_false] at hif
  refine ⟨by simp [manyOut, hsel, hpe], hif.1, ?_⟩
  rw [hif.2]; intro hm; rcases hev _ hm with h' | h' <;> cases h'

/-- a frame that passes the checks and is written completely -/
def GoodFrame (b : Beh) (f : Frame) : Prop := preFault b f = none ∧ f.w.fail = none

theorem loop_good_then_bad (b : Beh) (good : List Frame) (bad : Frame) (rest : List Frame) (e : Exc)
    (hg : ∀ f ∈ good, GoodFrame b f) (hb : preFault b bad = some e) :
    loopExc b (good ++ bad :: rest) = some e ∧
    loopWrites b (good ++ bad :: rest) = (good.map (fun f => f.w.n)).sum := by
  induction good with
  | nil => simp [loopExc, loopWrites, frameExc, frameWrites, hb]
  | cons g gs ih =>
    have hgg := hg g (List.mem_cons_self)
    have ih' := ih (fun f hf => hg f (List.mem_cons_of_mem _ hf))
    simp [loopExc, loopWrites, frameExc, frameWrites, hgg.1, hgg.2, ih'.1, ih'.2]

/-- **dump_many_later.**  If the first frame and the frames before index `i` are fine and frame `i > 0` has a
pre-flight fault (missing required attribute, `prepare_dump` rejection, …) then the error is not swallowed:
`PrepareDumpError` stays `PrepareDumpError`, any other `Exception` surfaces as `DumpError`; the target holds
exactly the header and the frames `< i` (the file was overwritten, as documented), and it is closed.
By induction over the frame list. -/
theorem dump_many_later (b : Beh) (f0 : Frame) (good : List Frame) (bad : Frame) (rest : List Frame)
    (path : Nat) (fs : FS) (e : Exc)
    (hsel : b.select = none) (hopen : b.openFail = none) (hpre : b.pre.fail = none)
    (h0 : GoodFrame b f0) (hg : ∀ f ∈ good, GoodFrame b f)
    (hb : preFault b bad = some e) (he : e.isException = true) :
    (runMany dumpMany b (f0 :: (good ++ bad :: rest)) path fs).1
      = .raised (if e = .prepareDump then .prepareDump else .dump) none ∧
    (runMany dumpMany b (f0 :: (good ++ bad :: rest)) path fs).2.trace.head? = some .close ∧
    (runMany dumpMany b (f0 :: (good ++ bad :: rest)) path fs).2.fs path
      = some (List.range' 0 (b.pre.n + f0.w.n + (good.map (fun f => f.w.n)).sum)) := by
  obtain ⟨st', h, evs, hev, hif⟩ := dump_many_master b (f0 :: (good ++ bad :: rest)) path fs
  have hpe : preExc b f0 = none := by simp [preExc_eq, h0.1]
  obtain ⟨hl1, hl2⟩ := loop_good_then_bad b good bad rest e hg hb
  have hc : consumeRes b f0 (good ++ bad :: rest) = (some e, b.pre.n + (f0.w.n + (good.map (fun f => f.w.n)).sum)) := by
    simp [consumeRes, seqRes, hpre, h0.2, hl1, hl2]
  rw [h]
  simp only [hsel, hpe, hopen, Option.isNone_none, Bool.and_self, if_true] at hif
  obtain ⟨hfs, mid, hmid, htr⟩ := hif
  refine ⟨?_, by simp [htr], ?_⟩
  · simp [manyOut, hsel, hpe, hopen, hc, funnelMany, he]
  · rw [hfs, hc, appendToks_at]; simp [fsSet, Nat.add_assoc]

/-- **only_these_escape (dump_many).**  As for `dump_one`; in addition a user iterator whose *first*
`next()` raises something else than `StopIteration` lets that exception through (outside the contract,
listed as such in DESIGN.md). -/
theorem dump_many_only_these_escape (b : Beh) (frames : List Frame) (path : Nat) (fs : FS) (e : Exc)
    (ln : Option Int) (h : (runMany dumpMany b frames path fs).1 = .raised e ln) :
    e = .prepareDump ∨ e = .dump ∨ b.select = some e ∨ b.openFail = some e ∨ e.isException = false
      ∨ (frames = [] ∧ b.iterEnd = some e) := by
  obtain ⟨st', hm, -⟩ := dump_many_master b frames path fs
  rw [hm] at h; simp only [manyOut] at h
  cases hs : b.select with
  | some x => simp [hs] at h; simp [h.1]
  | none =>
    simp only [hs] at h
    cases frames with
    | nil =>
      simp [firstNextExc] at h
      cases hi : b.iterEnd with
      | none => simp [hi] at h; simp [h.1]
      | some y =>
        simp [hi] at h
        by_cases hy : y = .stopIter
        · simp [hy] at h; simp [h.1]
        · simp [hy] at h; right; right; right; right; right; simp [h.1]
    | cons f0 rest =>
      simp only at h
      cases hp : preExc b f0 with
      | some x =>
        simp [hp] at h
        rw [preExc_eq] at hp
        cases hq : preFault b f0 with
        | none => simp [hq] at hp
        | some y =>
          simp [hq, funnelPre] at hp
          by_cases hy : y.isException = true
          · simp [hy] at hp; left; rw [← h.1, ← hp]
          · simp [hy] at hp; right; right; right; right; left; rw [← h.1, ← hp]; simpa using hy
      | none =>
        simp only [hp] at h
        cases ho : b.openFail with
        | some x => simp [ho] at h; simp [h.1]
        | none =>
          simp only [ho] at h
          cases hw : (consumeRes b f0 rest).1 with
          | none => simp [hw] at h
          | some y =>
            simp [hw, funnelMany] at h
            by_cases hy1 : y = .prepareDump
            · simp [hy1] at h; left; exact h.1.symm
            · by_cases hy : y.isException = true
              · simp [hy, hy1] at h; right; left; exact h.1.symm
              · simp [hy, hy1] at h; right; right; right; right; left; rw [← h.1]; simpa using hy

/-! ### `write_input` -/

/-- **write_input_funnel.**  Unknown program ⇒ the selection error before anything is touched; any
`Exception` while writing ⇒ `WriteInputError` with the file closed. -/
theorem write_input_funnel (b : Beh) (f : Frame) (path : Nat) (fs : FS) :
    (∀ e, b.select = some e →
        (runOne writeInput b f path fs).1 = .raised e none ∧ (runOne writeInput b f path fs).2.fs = fs ∧
        (runOne writeInput b f path fs).2.trace = []) ∧
    (∀ e, b.select = none → b.openFail = none → f.w.fail = some e → e.isException = true →
        (runOne writeInput b f path fs).1 = .raised .writeInput none ∧
        (runOne writeInput b f path fs).2.trace.head? = some .close) := by
  obtain ⟨st', h, hif⟩ := write_input_master b f path fs
  rw [h]
  constructor
  · intro e hs; simp [hs] at hif; exact ⟨by simp [inputOut, hs], hif.1, hif.2⟩
  · intro e hs ho hw he
    simp [hs, ho] at hif
    exact ⟨by simp [inputOut, hs, ho, hw, funnelInput, he], by simp [hif.2]⟩

/-- **only_these_escape (write_input).** -/
theorem write_input_only_these_escape (b : Beh) (f : Frame) (path : Nat) (fs : FS) (e : Exc) (ln : Option Int)
    (h : (runOne writeInput b f path fs).1 = .raised e ln) :
    e = .writeInput ∨ b.select = some e ∨ b.openFail = some e ∨ e.isException = false := by
  obtain ⟨st', hm, -⟩ := write_input_master b f path fs
  rw [hm] at h; simp only [inputOut] at h
  cases hs : b.select with
  | some x => simp [hs] at h; simp [h.1]
  | none =>
    simp only [hs] at h
    cases ho : b.openFail with
    | some x => simp [ho] at h; simp [h.1]
    | none =>
      simp only [ho] at h
      cases hw : f.w.fail with
      | none => simp [hw] at h
      | some y =>
        simp [hw, funnelInput] at h
        by_cases hy : y.isException = true
        · simp [hy] at h; left; exact h.1.symm
        · simp [hy] at h; right; right; right; rw [← h.1]; simpa using hy

/-! ### T1: the per-format `required` lists the API trusts -/

/-- the `required` lists as declared at the pinned revision (reference for "declares as required") -/
def pinnedRequired : List (String × String × List String) :=
  [("cube", "dump_one", ["atcoords", "atnums", "cube"]), ("fchk", "dump_one", ["atnums", "atcorenums"]),
   ("fcidump", "dump_one", ["one_ints", "two_ints"]),
   ("json_qcschema", "dump_one", ["atnums", "atcoords", "charge", "spinpol"]),
   ("mol2", "dump_one", ["atcoords", "atnums"]), ("mol2", "dump_many", ["atcoords", "atnums", "atcharges"]),
   ("molden", "dump_one", ["atcoords", "atnums", "mo", "obasis"]),
   ("molekel", "dump_one", ["atcoords", "atnums", "mo", "obasis"]),
   ("pdb", "dump_one", ["atcoords", "atnums", "extra"]), ("pdb", "dump_many", ["atcoords", "atnums", "extra"]),
   ("poscar", "dump_one", ["atcoords", "atnums", "cellvecs"]),
   ("sdf", "dump_one", ["atcoords", "atnums"]), ("sdf", "dump_many", ["atcoords", "atnums"]),
   ("wfn", "dump_one", ["atcoords", "atnums", "mo", "obasis"]),
   ("wfx", "dump_one", ["atcoords", "atnums", "atcorenums", "mo", "obasis", "charge"]),
   ("xyz", "dump_one", ["atcoords", "atnums"]), ("xyz", "dump_many", ["atcoords", "atnums"])]

/-- the `required` list a format function declares in the current source (`Gen/ApiRegistry`) -/
def declared (fmt fn : String) : Option (List String) :=
  match Gen.ApiRegistry.registry.find? (fun e => e.name == fmt && e.kind == "format") with
  | none => none
  | some e =>
    match e.fns.find? (fun p => p.1 == fn) with
    | none => none
    | some p => (p.2.find? (fun q => q.1 == "required")).map (·.2)

/-- every dump function still exists and still declares (at least) the pinned required names: the
pre-flight check of `_check_required` therefore covers them (order and additions are free). -/
theorem required_lists_cover_pinned :
    pinnedRequired.all (fun t => match declared t.1 t.2.1 with
      | none => false
      | some names => t.2.2.all (fun n => names.contains n)) = true := by decide

/-- every dump entry point of the registry is one of the pinned ones (a new dump format must be added to
the cross product of the correspondence before it is covered). -/
theorem dump_entry_points_pinned :
    Gen.ApiRegistry.registry.all (fun e => e.kind != "format" || e.fns.all (fun p =>
      (p.1 != "dump_one" && p.1 != "dump_many") || pinnedRequired.any (fun t => t.1 == e.name && t.2.1 == p.1))) = true := by
  decide

/-! ### non-vacuity: concrete behaviours evaluated by the kernel -/

/-- xyz-like format, `atcoords` is None, target pre-existing with content `[7,7]`: refused, bytes kept. -/
example :
    let r := runOne Gen.ApiFlow.dumpOne { hasPrepare := false } { attrs := [.none, .val], w := ⟨3, none⟩ } 0
      (fun p => if p = 0 then some [7, 7] else none)
    r.1 = .raised .prepareDump none ∧ r.2.fs 0 = some [7, 7] ∧ r.2.trace = [.getattr] := by decide

/-- writer raises `ValueError` at the third write: `DumpError`, two tokens in the (truncated) file, closed. -/
example :
    let r := runOne Gen.ApiFlow.dumpOne {} { attrs := [.val], w := ⟨2, some .other⟩ } 0
      (fun p => if p = 0 then some [7, 7] else none)
    r.1 = .raised .dump none ∧ r.2.fs 0 = some [0, 1] ∧
      r.2.trace = [.close, .write 1, .write 0, .openW, .prep, .getattr] := by decide

/-- dump_many: second frame lacks an attribute — `PrepareDumpError` after the first frame was written. -/
example :
    let r := runMany Gen.ApiFlow.dumpMany {} [{ attrs := [.val], w := ⟨2, none⟩ }, { attrs := [.none] }] 0
      (fun _ => none)
    r.1 = .raised .prepareDump none ∧ r.2.fs 0 = some [0, 1] ∧ r.2.trace.head? = some .close := by decide

end Iodata.Props.C08
