/-
C01 — wavefunction conversion never silently changes the wavefunction.

Property theorems only (helpers: `Iodata/Lemmas/Wf.lean`; model: `Iodata/Model/Wf.lean`).
`den cv shells coeffs κ` is the coefficient an orbital gives to the normalised primitive `κ`;
equal `den` means the same function of space.  The theorems quantify over *all* shell lists
(any order, any centres), all convention dictionaries and all contraction lengths; they are
proved by induction over the shell list, not by enumeration.

Full statement (F):  `den (load_F (dump_F o)) = den o` for the five formats.
What is proved:
  * conventions step, every format ...................... `den_convert`            (full)
  * WFN/WFX writer with scales in target order .......... `wfn_dump_den`           (full)
  * WFN/WFX reader + round trip ......................... `wfn_roundtrip`          (full)
  * WFN/WFX as the code stands (scales in source order) . `wfn_dump_source_violated`, `wfn_dump_source_partial`
  * Molden `[GTO]` sorted, rows not ..................... `molden_violated`, `molden_partial`
  * Molden repaired (rows follow the sort) .............. `molden_sorted_den`       (full)
  * Molekel `$$` separators ............................. `mkl_centers_violated`, `mkl_partial`
  * Molekel beta irreps ................................. `mkl_beta_irreps_violated`, `mkl_beta_irreps_partial`
  * FCHK densities unconverted .......................... `fchk_density_violated`, `fchk_density_partial`
Which variant the code implements is read from the source on every run (`Iodata/Gen/Wf.lean`) and
the correspondence runs the model in that variant.
Not proved here: a repaired Molekel `$$` writer and converted FCHK densities beyond the sub-domains named in
the `_partial` theorems (`bilin (P D Pᵀ) (P x) (P y) = bilin D x y` for all signed permutations is only shown
on a witness), the Molden/Molekel/FCHK *readers* (shell lists are read back as written), and text scanning.
-/
import Iodata.Lemmas.Wf
import Iodata.Gen.Conventions
import Iodata.Gen.Wf

set_option linter.unusedSectionVars false
set_option linter.unusedSimpArgs false
set_option linter.unusedVariables false

namespace Iodata.Props.C01
open Iodata.Conv Iodata.Wf

/-- 1. (all formats) Re-expressing the coefficients in other conventions with `convert_conventions`
does not change what the orbital denotes — for every shell list, every pair of convention
dictionaries that name the same functions, every coefficient vector.  (From C10's key lemma.) -/
theorem den_convert (cv1 cv2 : Cv) (shells : List Shell)
    (hc : ∀ s ∈ shells, Compatible (cv1 s.key) (cv2 s.key)) (coeffs : List Int) (κ : PKey) :
    den cv2 shells (convert cv1 cv2 shells coeffs) κ = den cv1 shells coeffs κ :=
  den_convert_aux cv1 cv2 shells hc coeffs κ

/-- 2. WFN/WFX writer, scales taken in the order of the *target* conventions: the file denotes the
same function.  `fileDen` is in un-normalised primitives, hence the factor `N`. Holds for every
shell order, contraction length, source convention and every (even zero) scale function. -/
theorem wfn_dump_den (N : Nat → Label → Int) (cv1 cvW : Cv) : ∀ (shells : List Shell),
    (∀ s ∈ shells, s.kind = 'c' ∧ Pos (cvW s.key) ∧ Compatible (cv1 s.key) (cvW s.key)) →
    ∀ (coeffs : List Int) (κ : PKey),
      fileDen (wfnDump false N cv1 cvW shells coeffs) κ = den cv1 shells coeffs κ * N κ.2.1 κ.2.2.2.2
  | [], _, _, _ => by simp [wfnDump, fileDen, den]
  | s :: ss, h, coeffs, κ => by
    obtain ⟨hk, hp, hc⟩ := h s (by simp)
    simp only [wfnDump, den]
    rw [fileDen_append, fileDen_wfnShell N _ _ s _ hk hp hc,
      wfn_dump_den N cv1 cvW ss (fun t ht => h t (by simp [ht])), Int.add_mul]

/-- 3. WFN/WFX round trip (writer with target-order scales, reader `build_obasis` + division by the
scales): the reloaded object denotes the same function, for all shell lists / conventions /
contractions and every nowhere-zero scale function. -/
theorem wfn_roundtrip (N : Nat → Label → Int) (hN : ∀ e l, N e l ≠ 0) (cv1 cvW : Cv) : ∀ (shells : List Shell),
    (∀ s ∈ shells, s.kind = 'c' ∧ Pos (cvW s.key) ∧ Compatible (cv1 s.key) (cvW s.key)) →
    ∀ (coeffs : List Int) (κ : PKey),
      den cvW (wfnLoad N cvW (wfnDump false N cv1 cvW shells coeffs)).1
          (wfnLoad N cvW (wfnDump false N cv1 cvW shells coeffs)).2 κ = den cv1 shells coeffs κ := by
  intro shells h coeffs κ
  rw [den_wfnLoad]
  induction shells generalizing coeffs with
  | nil => simp [wfnDump, loadDen, den]
  | cons s ss ih =>
    obtain ⟨hk, hp, hc⟩ := h s (by simp)
    simp only [wfnDump, den]
    have hkey : cvW (s.l, 'c') = cvW s.key := by simp [Shell.key, hk]
    rw [loadDen_append, loadDen_wfnShell N hN cvW _ _ s _ hk hp hc hkey,
      ih (fun t ht => h t (by simp [ht]))]

/-- 3b. … and composing 1–3: dumping from conventions `cv1` and reloading gives the same denotation as
first converting to the WFN conventions. -/
theorem wfn_roundtrip_conv (N : Nat → Label → Int) (hN : ∀ e l, N e l ≠ 0) (cv1 cvW : Cv) (shells : List Shell)
    (h : ∀ s ∈ shells, s.kind = 'c' ∧ Pos (cvW s.key) ∧ Compatible (cv1 s.key) (cvW s.key))
    (coeffs : List Int) (κ : PKey) :
    den cvW (wfnLoad N cvW (wfnDump false N cv1 cvW shells coeffs)).1
        (wfnLoad N cvW (wfnDump false N cv1 cvW shells coeffs)).2 κ
      = den cvW shells (convert cv1 cvW shells coeffs) κ := by
  rw [wfn_roundtrip N hN cv1 cvW shells h, den_convert cv1 cvW shells (fun s hs => (h s hs).2.2)]

/-! #### the code as it stands: scales in the order of the source conventions -/

def h2d : List (Bool × Label) := plus [['x','x'],['x','y'],['x','z'],['y','y'],['y','z'],['z','z']]
def wfnd : List (Bool × Label) := plus [['x','x'],['y','y'],['z','z'],['x','y'],['x','z'],['y','z']]
/-- a stand-in for `N²·const`: 1 for `xx, yy, zz`, 3 for `xy, xz, yz` (the real ratio is √3) -/
def N3 (_ : Nat) (l : Label) : Int := if l = ['x','x'] ∨ l = ['y','y'] ∨ l = ['z','z'] then 1 else 3
def dShell : Shell := { center := 0, l := 2, kind := 'c', prims := [(0, 1)] }

/-- 4. `_violated`: one Cartesian d shell in HORTON2 order (`xx xy xz yy yz zz`), one primitive,
coefficients 1..6: the file written with source-order scales gives `yy` the coefficient
`4·N(xy)` instead of `4·N(yy)`. -/
theorem wfn_dump_source_violated :
    fileDen (wfnDump true N3 (fun _ => h2d) (fun _ => wfnd) [dShell] [1,2,3,4,5,6]) (0, 0, 2, 'c', ['y','y'])
      ≠ den (fun _ => h2d) [dShell] [1,2,3,4,5,6] (0, 0, 2, 'c', ['y','y']) * N3 0 ['y','y'] := by
  decide

/-- 4b. … and after IOData's own reader the orbital has changed. -/
theorem wfn_roundtrip_source_violated :
    den (fun _ => wfnd) (wfnLoad N3 (fun _ => wfnd) (wfnDump true N3 (fun _ => h2d) (fun _ => wfnd) [dShell] [1,2,3,4,5,6])).1
      (wfnLoad N3 (fun _ => wfnd) (wfnDump true N3 (fun _ => h2d) (fun _ => wfnd) [dShell] [1,2,3,4,5,6])).2
      (0, 0, 2, 'c', ['y','y'])
    ≠ den (fun _ => h2d) [dShell] [1,2,3,4,5,6] (0, 0, 2, 'c', ['y','y']) := by
  decide

/-- 4c. `_partial`: with source-order scales the writer is right on the sub-domain where the source
conventions list the functions in the same order as the target's (signs may differ). -/
theorem wfn_dump_source_partial (N : Nat → Label → Int) (cv1 cvW : Cv) (shells : List Shell)
    (hsame : ∀ s ∈ shells, labels (cv1 s.key) = labels (cvW s.key)) (coeffs : List Int) :
    wfnDump true N cv1 cvW shells coeffs = wfnDump false N cv1 cvW shells coeffs := by
  induction shells generalizing coeffs with
  | nil => simp [wfnDump]
  | cons s ss ih =>
    simp only [wfnDump]
    rw [ih (fun t ht => hsame t (by simp [ht]))]
    congr 1
    simp [wfnShell, hsame s (by simp)]

/-! #### Molden -/

theorem insert_head (s : Shell) (ts : List Shell) (h : ∀ t ∈ ts, s.center ≤ t.center) :
    insertByCenter s ts = s :: ts := by
  cases ts with
  | nil => rfl
  | cons t ts => simp [insertByCenter, h t (by simp)]

/-- 5. `_partial`: when the shells are already ordered by centre the Molden file denotes the same
orbitals (any conventions, any contraction). -/
theorem molden_partial (cv1 cvM : Cv) (shells : List Shell)
    (hsorted : shells.Pairwise (fun a b => a.center ≤ b.center))
    (hc : ∀ s ∈ shells, Compatible (cv1 s.key) (cvM s.key)) (coeffs : List Int) (κ : PKey) :
    den cvM (moldenDump cv1 cvM shells coeffs).1 (moldenDump cv1 cvM shells coeffs).2 κ
      = den cv1 shells coeffs κ := by
  have hs : sortByCenter shells = shells := by
    induction shells with
    | nil => rfl
    | cons s ss ih =>
      have hp := List.pairwise_cons.mp hsorted
      simp only [sortByCenter]
      rw [ih hp.2 (fun t ht => hc t (by simp [ht]))]
      exact insert_head s ss hp.1
  simp only [moldenDump, hs]
  exact den_convert cv1 cvM shells hc coeffs κ

def sconv : List (Bool × Label) := plus [['1']]
def sOn (c : Nat) : Shell := { center := c, l := 0, kind := 'c', prims := [(c, 1)] }

/-- 5b. `_violated`: two s shells stored as (centre 1, centre 0) with coefficients (1, 2): the Molden
file lists centre 0 first but keeps the rows, so centre 0 gets 1 instead of 2. -/
theorem molden_violated :
    den (fun _ => sconv) (moldenDump (fun _ => sconv) (fun _ => sconv) [sOn 1, sOn 0] [1, 2]).1
        (moldenDump (fun _ => sconv) (fun _ => sconv) [sOn 1, sOn 0] [1, 2]).2 (0, 0, 0, 'c', ['1'])
      ≠ den (fun _ => sconv) [sOn 1, sOn 0] [1, 2] (0, 0, 0, 'c', ['1']) := by
  decide

/-- 5c. The repaired Molden writer (`moldenDumpSorted`: the coefficient blocks follow the shells sorted by
centre) — full statement: for every shell order, conventions and contraction the file lists the shells
sorted by centre and denotes the same orbitals. -/
theorem molden_sorted_den (cv1 cvM : Cv) (shells : List Shell)
    (hc : ∀ s ∈ shells, Compatible (cv1 s.key) (cvM s.key)) (coeffs : List Int) (κ : PKey) :
    (moldenDumpSorted cv1 cvM shells coeffs).1 = sortByCenter shells ∧
    den cvM (moldenDumpSorted cv1 cvM shells coeffs).1 (moldenDumpSorted cv1 cvM shells coeffs).2 κ
      = den cv1 shells coeffs κ := by
  constructor
  · simp only [moldenDumpSorted, map_fst_sortPairs, map_fst_blocks]
  · simp only [moldenDumpSorted]
    rw [den_of_pairs cvM _ (good_sort cvM _ (good_blocks_convert cv1 cvM shells coeffs)), denPairs_sort,
      ← den_eq_denPairs, den_convert cv1 cvM shells hc]

/-! #### Molekel -/

/-- centres visited in ascending order without skipping one (the first may be 0 or 1) -/
def contigFrom (last : Nat) : List Nat → Bool
  | [] => true
  | c :: cs => (c == last || c == last + 1) && contigFrom c cs

theorem mklCentersFrom_contig : ∀ (cs : List Nat) (last : Nat), contigFrom last cs = true →
    mklCentersFrom last last cs = cs
  | [], _, _ => rfl
  | c :: cs, last, h => by
    simp only [contigFrom, Bool.and_eq_true, Bool.or_eq_true, beq_iff_eq] at h
    obtain ⟨h1, h2⟩ := h
    simp only [mklCentersFrom]
    rcases h1 with rfl | rfl
    · simp [mklCentersFrom_contig cs c h2]
    · have : last + 1 ≠ last := by omega
      simp [this, mklCentersFrom_contig cs (last + 1) h2]

theorem recenter_self : ∀ (shells : List Shell), recenter shells (shells.map (·.center)) = shells
  | [] => rfl
  | s :: ss => by
    have := recenter_self ss
    simp only [recenter, List.map_cons, List.zip_cons_cons] at this ⊢
    rw [this]

/-- 6. `_partial`: when the shells visit the centres in ascending order without skipping one, the
Molekel file denotes the same orbitals. -/
theorem mkl_partial (cv1 cvM : Cv) (shells : List Shell)
    (hcontig : contigFrom 0 (shells.map (·.center)) = true)
    (hc : ∀ s ∈ shells, Compatible (cv1 s.key) (cvM s.key)) (coeffs : List Int) (κ : PKey) :
    den cvM (mklDump cv1 cvM shells coeffs).1 (mklDump cv1 cvM shells coeffs).2 κ = den cv1 shells coeffs κ := by
  simp only [mklDump, mklCenters, mklCentersFrom_contig _ 0 hcontig, recenter_self]
  exact den_convert cv1 cvM shells hc coeffs κ

/-- 6a'. A repaired Molekel writer that lists the shells sorted by centre with one `$$` per centre passed (so the
reader's count equals the centre index) and lets the rows follow is the sorted Molden layout: full statement. -/
theorem mkl_sorted_den (cv1 cvM : Cv) (shells : List Shell)
    (hc : ∀ s ∈ shells, Compatible (cv1 s.key) (cvM s.key)) (coeffs : List Int) (κ : PKey) :
    den cvM (moldenDumpSorted cv1 cvM shells coeffs).1 (moldenDumpSorted cv1 cvM shells coeffs).2 κ
      = den cv1 shells coeffs κ :=
  (molden_sorted_den cv1 cvM shells hc coeffs κ).2

/-- 6b. `_violated`: a skipped centre and an unsorted centre list come back wrong. -/
theorem mkl_centers_violated : mklCenters [0, 2] = [0, 1] ∧ mklCenters [1, 0] = [1, 2] ∧ mklCenters [2] = [1] := by
  decide

/-- 6c. beta irreps: slicing with `norbb` equals slicing with `norba` when the two agree (`_partial`) … -/
theorem mkl_beta_irreps_partial (n : Nat) (irreps : List Nat) :
    mklBetaIrreps true n n irreps = mklBetaIrreps false n n irreps := rfl

/-- 6d. … and not otherwise (`_violated`): 3 alpha + 2 beta orbitals, the beta block gets 3 labels. -/
theorem mkl_beta_irreps_violated :
    mklBetaIrreps true 3 2 [1, 2, 3, 4, 5] = [3, 4, 5] ∧ mklBetaIrreps false 3 2 [1, 2, 3, 4, 5] = [4, 5] := by
  decide

/-! #### FCHK densities -/

/-- 7. `_partial`: writing the density matrix unconverted is right when the conversion is the identity. -/
theorem fchk_density_partial (D : List (List Int)) :
    fchkDensity false [(0, 1), (1, 1)] D = D := rfl

/-- 7b. `_violated`: two functions swapped by the conversion (`r = [(1,1),(0,1)]`), `D = diag(1, 0)`:
the converted orbital values are `(y₁, y₀)`; the unconverted matrix evaluates to `y₁²`, the original to `y₀²`. -/
theorem fchk_density_violated :
    bilin (fchkDensity false [(1, 1), (0, 1)] [[1, 0], [0, 0]]) (apply [(1, 1), (0, 1)] [2, 3]) (apply [(1, 1), (0, 1)] [2, 3])
      ≠ bilin [[1, 0], [0, 0]] [2, 3] [2, 3]
    ∧ bilin (fchkDensity true [(1, 1), (0, 1)] [[1, 0], [0, 0]]) (apply [(1, 1), (0, 1)] [2, 3]) (apply [(1, 1), (0, 1)] [2, 3])
      = bilin [[1, 0], [0, 0]] [2, 3] [2, 3] := by
  decide

/-! #### the built-in tables -/

/-- 8. The WFN and WFX convention tables carry no sign flips (hypothesis `Pos` of theorems 2–3), and
every format's table is compatible with HORTON2 on the keys it has (hypothesis `Compatible`). -/
theorem tables_ok :
    (Iodata.Gen.Conventions.wfn.all fun e => (e.2.map parse).all fun p => !p.1) = true
    ∧ (Iodata.Gen.Conventions.wfx.all fun e => (e.2.map parse).all fun p => !p.1) = true := by
  decide +kernel

/-! #### non-vacuity -/

example : wfnDump false N3 (fun _ => h2d) (fun _ => wfnd) [dShell] [1,2,3,4,5,6]
    = [{ center := 0, l := 2, e := 0,
         types := [['x','x'],['y','y'],['z','z'],['x','y'],['x','z'],['y','z']],
         vals := [1, 4, 6, 6, 9, 15] }] := by decide

example : (wfnLoad N3 (fun _ => wfnd) (wfnDump false N3 (fun _ => h2d) (fun _ => wfnd) [dShell] [1,2,3,4,5,6])).2
    = [1, 4, 6, 2, 3, 5] := by decide

/-- the hypotheses of theorems 2–3 are satisfiable (HORTON2 d shell → WFN d shell) -/
example : Compatible h2d wfnd ∧ Pos wfnd :=
  ⟨(guards_ok_iff h2d wfnd).mp (by
      have : (match guards h2d wfnd with | .ok () => true | .error _ => false) = true := by decide
      revert this; cases guards h2d wfnd with
      | ok u => cases u; intro _; rfl
      | error e => intro h; simp at h), pos_plusG _⟩

end Iodata.Props.C01
