/-
C01 — wavefunction conversion never silently changes the wavefunction.

Property theorems only (helpers: `Iodata/Lemmas/Wf.lean`, `Iodata/Lemmas/WfRead.lean`; models:
`Iodata/Model/Wf.lean`, `Iodata/Model/WfRead.lean`).
`den cv shells coeffs κ` is the coefficient an orbital gives to the normalised primitive `κ`;
equal `den` means the same function of space.  The theorems quantify over *all* shell lists
(any order, any centres), all convention dictionaries and all contraction lengths; they are
proved by induction over the shell list, not by enumeration.

Full statement (F):  `den (load_F (dump_F o)) = den o` for the five formats, densities preserved as
bilinear forms, `dump_F o` succeeds ⇒ `load_F` succeeds.
What is proved, for the code as it is NOW (every theorem about the current variant is tied to the flags and
tables regenerated from the source, `Iodata/Gen/Wf.lean`, by `gen_variant` and the `_current` statements,
so reverting a repair in the source breaks an obligation):
  * conventions step, shell by shell and as the global signed permutation of `convert_conventions`
    (incl. generalized contractions) ......... `den_convert`, `convert_global`, `den_convert_basis`, `gden_convert_basis`
  * WFN/WFX writer, reader, round trip ....... `wfn_dump_den`, `wfn_roundtrip`, `wfn_roundtrip_conv`, `wfn_current`, `wfx_current`
  * Molden writer + reader + round trip ...... `molden_sorted_den`, `molden_current`, `molden_roundtrip`, `molden_roundtrip_current`
  * Molekel writer + reader + round trip ..... `mkl_sorted_den`, `mkl_current`, `mkl_roundtrip`, `mkl_roundtrip_current`, `mkl_beta_irreps_current`
  * FCHK basis section, coefficient blocks, densities `P D Pᵀ` as lower triangle
    ............ `fchk_basis_roundtrip`, `fchk_coeffs_roundtrip`, `bilin_signed_perm`, `fchk_density_roundtrip`, `fchk_density_current`
  * historical `_violated` witnesses of the repaired defects (true statements about the OLD variants of the
    model; documentation of what the `fix:` commits repaired) and `hist_…` sub-domain facts.
Not proved here: text scanning (column widths, number syntax), occupations/energies/spin bookkeeping and the
Molden/Molekel readers' normalisation repair (`_fix_molden_from_buggy_codes`, C05) — covered by the
correspondence and the search.
-/
import Iodata.Lemmas.Wf
import Iodata.Lemmas.WfRead
import Iodata.Gen.Conventions
import Iodata.Gen.Wf

set_option linter.unusedSectionVars false
set_option linter.unusedSimpArgs false
set_option linter.unusedVariables false

namespace Iodata.Props.C01
open Iodata.Conv Iodata.Wf Iodata.Props.C10

/-- 1. (all formats) Re-expressing the coefficients in other conventions with `convert_conventions`
does not change what the orbital denotes — for every shell list, every pair of convention
dictionaries that name the same functions, every coefficient vector.  (From C10's key lemma.) -/
theorem den_convert (cv1 cv2 : Cv) (shells : List Shell)
    (hc : ∀ s ∈ shells, Compatible (cv1 s.key) (cv2 s.key)) (coeffs : List Int) (κ : PKey) :
    den cv2 shells (convert cv1 cv2 shells coeffs) κ = den cv1 shells coeffs κ :=
  den_convert_aux cv1 cv2 shells hc coeffs κ

/-- 0. The variant of every writer for which the full theorems below are stated: scales in target order,
Molden rows follow the sort, Molekel beta irreps after `norba`, Molekel `$$` per centre, FCHK densities
converted.  `Iodata/Gen/Wf.lean` is regenerated from the source on every run: reverting one of the repairs
flips a flag and this obligation (and every `_current` theorem) fails. -/
def currentFlags : List Bool := [false, false, true, false, true, true]

theorem gen_variant :
    [Iodata.Gen.Wf.wfnScalesFromSource, Iodata.Gen.Wf.wfxScalesFromSource, Iodata.Gen.Wf.moldenRowsFollowSort,
     Iodata.Gen.Wf.mklBetaIrrepsUseNorbb, Iodata.Gen.Wf.mklSeparatorsPerCentre,
     Iodata.Gen.Wf.fchkDensitiesConverted] = currentFlags := by decide

/-- 1b. The writers call `convert_conventions` once for the whole basis and index the coefficient matrix with
the returned global permutation (`coeffs[permutation] * signs`).  For every shell list and pair of tables: if
that call succeeds, the global signed permutation acts exactly like the shell-by-shell conversion
(`den_convert`), every shell's conventions are compatible, and the basis sizes agree. -/
theorem convert_global (t1 t2 : Table) (shells : List Shell) (r : List (Nat × Int))
    (h : convBasis t1 t2 (keysOf shells) false = .ok r) :
    (∀ s ∈ shells, Compatible (cvOf t1 s.key) (cvOf t2 s.key)) ∧
    r.length = nfun (cvOf t2) shells ∧ nfun (cvOf t1) shells = nfun (cvOf t2) shells ∧
    ∀ (coeffs : List Int), apply r coeffs = convert (cvOf t1) (cvOf t2) shells coeffs :=
  convBasis_apply t1 t2 shells r h

/-- 1c. `den_convert` at the basis level: whenever `convert_conventions` succeeds, applying its result to the
whole coefficient vector preserves the denotation (no hypothesis on the shells or conventions). -/
theorem den_convert_basis (t1 t2 : Table) (shells : List Shell) (r : List (Nat × Int))
    (h : convBasis t1 t2 (keysOf shells) false = .ok r) (coeffs : List Int) (κ : PKey) :
    den (cvOf t2) shells (apply r coeffs) κ = den (cvOf t1) shells coeffs κ := by
  obtain ⟨hc, _, _, happ⟩ := convBasis_apply t1 t2 shells r h
  rw [happ, den_convert_aux _ _ shells hc]

theorem keysOf_segFrom (g : GShell) : ∀ (ks : List Key) (i : Nat), keysOf (segFrom g i ks) = ks
  | [], _ => rfl
  | k :: ks, i => by
    have := keysOf_segFrom g ks (i + 1)
    simp only [keysOf, segFrom, List.map_cons, Shell.key] at this ⊢
    rw [this]

/-- the key list of a basis with generalized contractions is the key list of its segmentation
(`convert_to_segmented` leaves the order of the basis functions alone) -/
theorem keysOf_segmentAll : ∀ (gs : List GShell), keysOf (segmentAll gs) = gkeys gs
  | [] => rfl
  | g :: gs => by
    have ih := keysOf_segmentAll gs
    simp only [keysOf, segmentAll, gkeys, List.flatMap_cons, List.map_append] at ih ⊢
    rw [ih]
    congr 1
    exact keysOf_segFrom g g.cons 0

/-- 1d. … with generalized contractions (SP shells kept by FCHK, or any shell before `prepare_segmented`):
the conversion computed on the generalized shells preserves the denotation. -/
theorem gden_convert_basis (t1 t2 : Table) (gs : List GShell) (r : List (Nat × Int))
    (h : convBasis t1 t2 (gkeys gs) false = .ok r) (coeffs : List Int) (κ : PKey) :
    gden (cvOf t2) gs (apply r coeffs) κ = gden (cvOf t1) gs coeffs κ := by
  unfold gden
  rw [← keysOf_segmentAll] at h
  exact den_convert_basis t1 t2 (segmentAll gs) r h coeffs κ

/-- 2. WFN/WFX writer, scales taken in the order of the *target* conventions: the file denotes the
same function.  `fileDen` is in un-normalised primitives, hence the factor `N`. Holds for every
shell order, contraction length, source convention and every (even zero) scale function. -/
theorem wfn_dump_den (N : Nat → Label → Int) (cv1 cvW : Cv) : ∀ (shells : List Shell),
    (∀ s ∈ shells, s.kind = 'c' ∧ Pos (cvW s.key) ∧ Compatible (cv1 s.key) (cvW s.key)) →
    ∀ (coeffs : List Int) (κ : PKey),
      fileDen (wfnDump false N cv1 cvW shells coeffs) κ = den cv1 shells coeffs κ * N κ.2.1 κ.2.2.2.2
  | [], _, _, _ => by simp [wfnDump, fileDen, den]
  | s :: ss, h, coeffs, κ => by
    obtain ⟨hk, hp, hc⟩ := h s (by simp)
    simp only [wfnDump, den]
    rw [fileDen_append, fileDen_wfnShell N _ _ s _ hk hp hc,
      wfn_dump_den N cv1 cvW ss (fun t ht => h t (by simp [ht])), Int.add_mul]

/-- 3. WFN/WFX round trip (writer with target-order scales, reader `build_obasis` + division by the
scales): the reloaded object denotes the same function, for all shell lists / conventions /
contractions and every nowhere-zero scale function. -/
theorem wfn_roundtrip (N : Nat → Label → Int) (hN : ∀ e l, N e l ≠ 0) (cv1 cvW : Cv) : ∀ (shells : List Shell),
    (∀ s ∈ shells, s.kind = 'c' ∧ Pos (cvW s.key) ∧ Compatible (cv1 s.key) (cvW s.key)) →
    ∀ (coeffs : List Int) (κ : PKey),
      den cvW (wfnLoad N cvW (wfnDump false N cv1 cvW shells coeffs)).1
          (wfnLoad N cvW (wfnDump false N cv1 cvW shells coeffs)).2 κ = den cv1 shells coeffs κ := by
  intro shells h coeffs κ
  rw [den_wfnLoad]
  induction shells generalizing coeffs with
  | nil => simp [wfnDump, loadDen, den]
  | cons s ss ih =>
    obtain ⟨hk, hp, hc⟩ := h s (by simp)
    simp only [wfnDump, den]
    have hkey : cvW (s.l, 'c') = cvW s.key := by simp [Shell.key, hk]
    rw [loadDen_append, loadDen_wfnShell N hN cvW _ _ s _ hk hp hc hkey,
      ih (fun t ht => h t (by simp [ht]))]

/-- 3b. … and composing 1–3: dumping from conventions `cv1` and reloading gives the same denotation as
first converting to the WFN conventions. -/
theorem wfn_roundtrip_conv (N : Nat → Label → Int) (hN : ∀ e l, N e l ≠ 0) (cv1 cvW : Cv) (shells : List Shell)
    (h : ∀ s ∈ shells, s.kind = 'c' ∧ Pos (cvW s.key) ∧ Compatible (cv1 s.key) (cvW s.key))
    (coeffs : List Int) (κ : PKey) :
    den cvW (wfnLoad N cvW (wfnDump false N cv1 cvW shells coeffs)).1
        (wfnLoad N cvW (wfnDump false N cv1 cvW shells coeffs)).2 κ
      = den cvW shells (convert cv1 cvW shells coeffs) κ := by
  rw [wfn_roundtrip N hN cv1 cvW shells h, den_convert cv1 cvW shells (fun s hs => (h s hs).2.2)]

/-- 3c. The WFN writer *as the source implements it now* (flag read off the real writer) writes a file
denoting the same function and IOData's reader returns it. -/
theorem wfn_current (N : Nat → Label → Int) (hN : ∀ e l, N e l ≠ 0) (cv1 cvW : Cv) (shells : List Shell)
    (h : ∀ s ∈ shells, s.kind = 'c' ∧ Pos (cvW s.key) ∧ Compatible (cv1 s.key) (cvW s.key))
    (coeffs : List Int) (κ : PKey) :
    fileDen (wfnDump Iodata.Gen.Wf.wfnScalesFromSource N cv1 cvW shells coeffs) κ
        = den cv1 shells coeffs κ * N κ.2.1 κ.2.2.2.2 ∧
    den cvW (wfnLoad N cvW (wfnDump Iodata.Gen.Wf.wfnScalesFromSource N cv1 cvW shells coeffs)).1
        (wfnLoad N cvW (wfnDump Iodata.Gen.Wf.wfnScalesFromSource N cv1 cvW shells coeffs)).2 κ
      = den cv1 shells coeffs κ := by
  have hf : Iodata.Gen.Wf.wfnScalesFromSource = false := by decide
  rw [hf]
  exact ⟨wfn_dump_den N cv1 cvW shells h coeffs κ, wfn_roundtrip N hN cv1 cvW shells h coeffs κ⟩

/-- 3d. … and the WFX writer. -/
theorem wfx_current (N : Nat → Label → Int) (hN : ∀ e l, N e l ≠ 0) (cv1 cvW : Cv) (shells : List Shell)
    (h : ∀ s ∈ shells, s.kind = 'c' ∧ Pos (cvW s.key) ∧ Compatible (cv1 s.key) (cvW s.key))
    (coeffs : List Int) (κ : PKey) :
    fileDen (wfnDump Iodata.Gen.Wf.wfxScalesFromSource N cv1 cvW shells coeffs) κ
        = den cv1 shells coeffs κ * N κ.2.1 κ.2.2.2.2 ∧
    den cvW (wfnLoad N cvW (wfnDump Iodata.Gen.Wf.wfxScalesFromSource N cv1 cvW shells coeffs)).1
        (wfnLoad N cvW (wfnDump Iodata.Gen.Wf.wfxScalesFromSource N cv1 cvW shells coeffs)).2 κ
      = den cv1 shells coeffs κ := by
  have hf : Iodata.Gen.Wf.wfxScalesFromSource = false := by decide
  rw [hf]
  exact ⟨wfn_dump_den N cv1 cvW shells h coeffs κ, wfn_roundtrip N hN cv1 cvW shells h coeffs κ⟩

/-! #### historical (before 88dbaff / 675eddd): scales in the order of the source conventions -/

def h2d : List (Bool × Label) := plus [['x','x'],['x','y'],['x','z'],['y','y'],['y','z'],['z','z']]
def wfnd : List (Bool × Label) := plus [['x','x'],['y','y'],['z','z'],['x','y'],['x','z'],['y','z']]
/-- a stand-in for `N²·const`: 1 for `xx, yy, zz`, 3 for `xy, xz, yz` (the real ratio is √3) -/
def N3 (_ : Nat) (l : Label) : Int := if l = ['x','x'] ∨ l = ['y','y'] ∨ l = ['z','z'] then 1 else 3
def dShell : Shell := { center := 0, l := 2, kind := 'c', prims := [(0, 1)] }

/-- 4. `_violated` (repaired defect, old variant `fromSrc = true`): one Cartesian d shell in HORTON2 order (`xx xy xz yy yz zz`), one primitive,
coefficients 1..6: the file written with source-order scales gives `yy` the coefficient
`4·N(xy)` instead of `4·N(yy)`. -/
theorem wfn_dump_source_violated :
    fileDen (wfnDump true N3 (fun _ => h2d) (fun _ => wfnd) [dShell] [1,2,3,4,5,6]) (0, 0, 2, 'c', ['y','y'])
      ≠ den (fun _ => h2d) [dShell] [1,2,3,4,5,6] (0, 0, 2, 'c', ['y','y']) * N3 0 ['y','y'] := by
  decide

/-- 4b. … and after IOData's own reader the orbital has changed. -/
theorem wfn_roundtrip_source_violated :
    den (fun _ => wfnd) (wfnLoad N3 (fun _ => wfnd) (wfnDump true N3 (fun _ => h2d) (fun _ => wfnd) [dShell] [1,2,3,4,5,6])).1
      (wfnLoad N3 (fun _ => wfnd) (wfnDump true N3 (fun _ => h2d) (fun _ => wfnd) [dShell] [1,2,3,4,5,6])).2
      (0, 0, 2, 'c', ['y','y'])
    ≠ den (fun _ => h2d) [dShell] [1,2,3,4,5,6] (0, 0, 2, 'c', ['y','y']) := by
  decide

/-- 4c. (historical) with source-order scales the writer was right on the sub-domain where the source
conventions list the functions in the same order as the target's (signs may differ). -/
theorem hist_wfn_source_same_order (N : Nat → Label → Int) (cv1 cvW : Cv) (shells : List Shell)
    (hsame : ∀ s ∈ shells, labels (cv1 s.key) = labels (cvW s.key)) (coeffs : List Int) :
    wfnDump true N cv1 cvW shells coeffs = wfnDump false N cv1 cvW shells coeffs := by
  induction shells generalizing coeffs with
  | nil => simp [wfnDump]
  | cons s ss ih =>
    simp only [wfnDump]
    rw [ih (fun t ht => hsame t (by simp [ht]))]
    congr 1
    simp [wfnShell, hsame s (by simp)]

/-! #### Molden -/

theorem insert_head (s : Shell) (ts : List Shell) (h : ∀ t ∈ ts, s.center ≤ t.center) :
    insertByCenter s ts = s :: ts := by
  cases ts with
  | nil => rfl
  | cons t ts => simp [insertByCenter, h t (by simp)]

/-- 5. (historical, writer before f1785bb) when the shells are already ordered by centre the old Molden writer
`moldenDump` denoted the same orbitals (any conventions, any contraction). -/
theorem hist_molden_sorted_input (cv1 cvM : Cv) (shells : List Shell)
    (hsorted : shells.Pairwise (fun a b => a.center ≤ b.center))
    (hc : ∀ s ∈ shells, Compatible (cv1 s.key) (cvM s.key)) (coeffs : List Int) (κ : PKey) :
    den cvM (moldenDump cv1 cvM shells coeffs).1 (moldenDump cv1 cvM shells coeffs).2 κ
      = den cv1 shells coeffs κ := by
  have hs : sortByCenter shells = shells := by
    induction shells with
    | nil => rfl
    | cons s ss ih =>
      have hp := List.pairwise_cons.mp hsorted
      simp only [sortByCenter]
      rw [ih hp.2 (fun t ht => hc t (by simp [ht]))]
      exact insert_head s ss hp.1
  simp only [moldenDump, hs]
  exact den_convert cv1 cvM shells hc coeffs κ

def sconv : List (Bool × Label) := plus [['1']]
def sOn (c : Nat) : Shell := { center := c, l := 0, kind := 'c', prims := [(c, 1)] }

/-- 5b. `_violated` (repaired defect, old variant `moldenDump`): two s shells stored as (centre 1, centre 0) with coefficients (1, 2): the Molden
file lists centre 0 first but keeps the rows, so centre 0 gets 1 instead of 2. -/
theorem molden_violated :
    den (fun _ => sconv) (moldenDump (fun _ => sconv) (fun _ => sconv) [sOn 1, sOn 0] [1, 2]).1
        (moldenDump (fun _ => sconv) (fun _ => sconv) [sOn 1, sOn 0] [1, 2]).2 (0, 0, 0, 'c', ['1'])
      ≠ den (fun _ => sconv) [sOn 1, sOn 0] [1, 2] (0, 0, 0, 'c', ['1']) := by
  decide

/-- 5c. The Molden writer as it is now (`moldenDumpSorted`: the coefficient blocks follow the shells sorted by
centre) — full statement: for every shell order, conventions and contraction the file lists the shells
sorted by centre and denotes the same orbitals. -/
theorem molden_sorted_den (cv1 cvM : Cv) (shells : List Shell)
    (hc : ∀ s ∈ shells, Compatible (cv1 s.key) (cvM s.key)) (coeffs : List Int) (κ : PKey) :
    (moldenDumpSorted cv1 cvM shells coeffs).1 = sortByCenter shells ∧
    den cvM (moldenDumpSorted cv1 cvM shells coeffs).1 (moldenDumpSorted cv1 cvM shells coeffs).2 κ
      = den cv1 shells coeffs κ := by
  constructor
  · simp only [moldenDumpSorted, map_fst_sortPairs, map_fst_blocks]
  · simp only [moldenDumpSorted]
    rw [den_of_pairs cvM _ (good_sort cvM _ (good_blocks_convert cv1 cvM shells coeffs)), denPairs_sort,
      ← den_eq_denPairs, den_convert cv1 cvM shells hc]

/-- 5d. The Molden coefficient pipeline *as the source implements it now* (flag read off the real writer). -/
theorem molden_current (cv1 cvM : Cv) (shells : List Shell)
    (hc : ∀ s ∈ shells, Compatible (cv1 s.key) (cvM s.key)) (coeffs : List Int) (κ : PKey) :
    (moldenVariant Iodata.Gen.Wf.moldenRowsFollowSort cv1 cvM shells coeffs).1 = sortByCenter shells ∧
    den cvM (moldenVariant Iodata.Gen.Wf.moldenRowsFollowSort cv1 cvM shells coeffs).1
        (moldenVariant Iodata.Gen.Wf.moldenRowsFollowSort cv1 cvM shells coeffs).2 κ
      = den cv1 shells coeffs κ := by
  have hf : Iodata.Gen.Wf.moldenRowsFollowSort = true := by decide
  simp only [moldenVariant, hf, if_true]
  exact molden_sorted_den cv1 cvM shells hc coeffs κ

/-- 5e. Molden round trip at the structural level, for every header table, pair of convention tables, shell list
(any order) and coefficient vector: if the writer (header tags from the table, `[GTO]` centre blocks of the
sorted shells, `[MO]` rows `coeffs[permutation[rows]] * signs[rows]`) produces a file and the tags say what the
kinds are, then IOData's reader accepts the file, returns the shells sorted by centre, and the orbital denotes
the same function. -/
theorem molden_roundtrip (tab : HdrTable) (t1 tM : Table) (shells : List Shell) (coeffs : List Int)
    (f : MoldenFile) (hw : moldenWrite tab t1 tM shells coeffs = some f)
    (hkind : ∀ s ∈ shells, s.kind = if s.l ∈ pureOf f.tags then 'p' else 'c') :
    ∃ co, moldenLoad (cvOf tM) f = some (sortByCenter shells, co) ∧
      ∀ κ, den (cvOf tM) (sortByCenter shells) co κ = den (cvOf t1) shells coeffs κ :=
  Iodata.Wf.molden_roundtrip tab t1 tM shells coeffs f hw hkind

/-- 5f. The header table read off the real Molden writer is right: for every combination of d/f/g/h kinds for
which the writer produces a file, IOData's reader declares pure exactly the angular momenta that are pure
(this is where `[5D10F]`, `[7F]`, `[9G]` matter; a refused combination is allowed). -/
theorem molden_header_ok : Iodata.Gen.Wf.moldenHeader.all hdrEntryOK = true := by decide

/-- 5g. Every key of the Molden and Molekel convention tables has `l ≤ 5`, kind Cartesian or pure, and s/p
shells Cartesian. -/
theorem molden_keys_ok : Iodata.Gen.Conventions.molden.all (fun e => keyOK e.1) = true
    ∧ Iodata.Gen.Conventions.molekel.all (fun e => keyOK e.1) = true := by decide

theorem moldenWrite_some {tab : HdrTable} {t1 tM : Table} {shells : List Shell} {coeffs : List Int} {f : MoldenFile}
    (hw : moldenWrite tab t1 tM shells coeffs = some f) :
    mixed shells = false ∧ hdrLookup tab (hdrKey shells) = some f.tags ∧
      ∃ r, convBasis t1 tM (keysOf shells) false = .ok r := by
  unfold moldenWrite at hw
  split at hw
  · cases hw
  · rename_i hm
    cases hh : hdrLookup tab (hdrKey shells) with
    | none => simp [hh] at hw
    | some tags =>
      simp only [hh, convertGlobal] at hw
      cases hb : convBasis t1 tM (keysOf shells) false with
      | error e => simp [hb] at hw
      | ok r =>
        simp only [hb, Option.some.injEq] at hw
        subst hw
        exact ⟨by simpa using hm, rfl, r, rfl⟩

/-- 5h. Molden round trip for the code as it is now — the header table and the convention table are the ones
regenerated from the source — without any hypothesis on the kinds: whatever object the real writer logic
accepts (any source conventions table, shell order, centres), IOData reads the file back and every orbital
denotes the same function. -/
theorem molden_roundtrip_current (t1 : Table) (shells : List Shell) (coeffs : List Int) (f : MoldenFile)
    (hw : moldenWrite Iodata.Gen.Wf.moldenHeader t1 Iodata.Gen.Conventions.molden shells coeffs = some f) :
    ∃ co, moldenLoad (cvOf Iodata.Gen.Conventions.molden) f = some (sortByCenter shells, co) ∧
      ∀ κ, den (cvOf Iodata.Gen.Conventions.molden) (sortByCenter shells) co κ = den (cvOf t1) shells coeffs κ := by
  obtain ⟨hmix, hh, r, hr⟩ := moldenWrite_some hw
  apply Iodata.Wf.molden_roundtrip _ t1 _ shells coeffs f hw
  apply kinds_of_header _ molden_header_ok shells hmix f.tags hh
  intro s hs
  obtain ⟨c, hc⟩ := convBasis_lookup t1 _ (keysOf shells) r hr s.key (List.mem_map.mpr ⟨s, hs, rfl⟩)
  obtain ⟨e, he, hek⟩ := lookup_mem hc
  have := List.all_eq_true.mp molden_keys_ok.1 e he
  rw [← hek]; exact this

/-! #### Molekel -/

/-- centres visited in ascending order without skipping one (the first may be 0 or 1) -/
def contigFrom (last : Nat) : List Nat → Bool
  | [] => true
  | c :: cs => (c == last || c == last + 1) && contigFrom c cs

theorem mklCentersFrom_contig : ∀ (cs : List Nat) (last : Nat), contigFrom last cs = true →
    mklCentersFrom last last cs = cs
  | [], _, _ => rfl
  | c :: cs, last, h => by
    simp only [contigFrom, Bool.and_eq_true, Bool.or_eq_true, beq_iff_eq] at h
    obtain ⟨h1, h2⟩ := h
    simp only [mklCentersFrom]
    rcases h1 with rfl | rfl
    · simp [mklCentersFrom_contig cs c h2]
    · have : last + 1 ≠ last := by omega
      simp [this, mklCentersFrom_contig cs (last + 1) h2]

theorem recenter_self : ∀ (shells : List Shell), recenter shells (shells.map (·.center)) = shells
  | [] => rfl
  | s :: ss => by
    have := recenter_self ss
    simp only [recenter, List.map_cons, List.zip_cons_cons] at this ⊢
    rw [this]

/-- 6. (historical, writer before 2b71ddf) when the shells visit the centres in ascending order without skipping
one, the old Molekel writer `mklDump` denoted the same orbitals. -/
theorem hist_mkl_contiguous (cv1 cvM : Cv) (shells : List Shell)
    (hcontig : contigFrom 0 (shells.map (·.center)) = true)
    (hc : ∀ s ∈ shells, Compatible (cv1 s.key) (cvM s.key)) (coeffs : List Int) (κ : PKey) :
    den cvM (mklDump cv1 cvM shells coeffs).1 (mklDump cv1 cvM shells coeffs).2 κ = den cv1 shells coeffs κ := by
  simp only [mklDump, mklCenters, mklCentersFrom_contig _ 0 hcontig, recenter_self]
  exact den_convert cv1 cvM shells hc coeffs κ

/-- 6a'. The Molekel writer as it is now lists the shells sorted by centre with one `$$` per centre passed (so the
reader's count equals the centre index) and lets the rows follow is the sorted Molden layout: full statement. -/
theorem mkl_sorted_den (cv1 cvM : Cv) (shells : List Shell)
    (hc : ∀ s ∈ shells, Compatible (cv1 s.key) (cvM s.key)) (coeffs : List Int) (κ : PKey) :
    den cvM (moldenDumpSorted cv1 cvM shells coeffs).1 (moldenDumpSorted cv1 cvM shells coeffs).2 κ
      = den cv1 shells coeffs κ :=
  (molden_sorted_den cv1 cvM shells hc coeffs κ).2

/-- 6b. `_violated` (repaired defect, old variant `mklDump`): a skipped centre and an unsorted centre list come back wrong. -/
theorem mkl_centers_violated : mklCenters [0, 2] = [0, 1] ∧ mklCenters [1, 0] = [1, 2] ∧ mklCenters [2] = [1] := by
  decide

/-- 6c. (historical) beta irreps: slicing with `norbb` equalled slicing with `norba` when the two agree … -/
theorem hist_mkl_beta_irreps_equal_counts (n : Nat) (irreps : List Nat) :
    mklBetaIrreps true n n irreps = mklBetaIrreps false n n irreps := rfl

/-- 6d. … and not otherwise (`_violated`, repaired by c889048): 3 alpha + 2 beta orbitals, the beta block gets 3 labels. -/
theorem mkl_beta_irreps_violated :
    mklBetaIrreps true 3 2 [1, 2, 3, 4, 5] = [3, 4, 5] ∧ mklBetaIrreps false 3 2 [1, 2, 3, 4, 5] = [4, 5] := by
  decide

/-- 6e. The Molekel coefficient pipeline *as the source implements it now* (flags read off the real writer). -/
theorem mkl_current (cv1 cvM : Cv) (shells : List Shell)
    (hc : ∀ s ∈ shells, Compatible (cv1 s.key) (cvM s.key)) (coeffs : List Int) (κ : PKey) :
    (mklVariant Iodata.Gen.Wf.mklSeparatorsPerCentre cv1 cvM shells coeffs).1 = sortByCenter shells ∧
    den cvM (mklVariant Iodata.Gen.Wf.mklSeparatorsPerCentre cv1 cvM shells coeffs).1
        (mklVariant Iodata.Gen.Wf.mklSeparatorsPerCentre cv1 cvM shells coeffs).2 κ
      = den cv1 shells coeffs κ := by
  have hf : Iodata.Gen.Wf.mklSeparatorsPerCentre = true := by decide
  simp only [mklVariant, hf, if_true]
  exact molden_sorted_den cv1 cvM shells hc coeffs κ

/-- 6f. The beta irreps as the source slices them now are the labels after the `norba` alpha ones. -/
theorem mkl_beta_irreps_current (norba norbb : Nat) (irreps : List Nat) :
    mklBetaIrreps Iodata.Gen.Wf.mklBetaIrrepsUseNorbb norba norbb irreps = irreps.drop norba := by
  have hf : Iodata.Gen.Wf.mklBetaIrrepsUseNorbb = false := by decide
  simp [mklBetaIrreps, hf]

/-- what the Molekel writer does to one orbital column -/
def mklCol (t1 tM : Table) (shells : List Shell) (c : List Int) : List Int :=
  (sortPairs (blocks (cvOf tM) shells (convert (cvOf t1) (cvOf tM) shells c))).flatMap (·.2)

/-- 6g. Molekel round trip at the structural level, for every pair of convention tables, shell list (any order,
any centres, skipped centres) and list of orbital columns: if the writer (`$BASIS` of the sorted shells with
`$$` × (centre − previous centre), `$COEFF` blocks of five columns) produces a file and the announced numbers
of functions determine the kinds, then IOData's reader accepts it, returns the shells sorted by centre —
every shell on its own centre — and as many columns, each denoting the same function. -/
theorem mkl_roundtrip (t1 tM : Table) (shells : List Shell) (cols : List (List Int)) (f : MklFile)
    (hw : mklWrite t1 tM shells cols = some f)
    (hk : ∀ s ∈ shells, mklKind (cvOf tM) s.l (cvOf tM s.key).length = some s.kind) :
    mklLoad (cvOf tM) f = some (sortByCenter shells, cols.map (mklCol t1 tM shells)) ∧
      ∀ c κ, den (cvOf tM) (sortByCenter shells) (mklCol t1 tM shells c) κ = den (cvOf t1) shells c κ := by
  unfold mklWrite at hw
  cases hb : convBasis t1 tM (keysOf shells) false with
  | error e => simp [hb] at hw
  | ok r =>
    simp only [hb, Option.some.injEq] at hw
    obtain ⟨hc, _, _, happ⟩ := convBasis_apply t1 tM shells r hb
    subst hw
    have hgood : ∀ c, GoodBlocks (cvOf tM)
        (sortPairs (blocks (cvOf tM) shells (convert (cvOf t1) (cvOf tM) shells c))) :=
      fun c => good_sort (cvOf tM) _ (good_blocks_convert (cvOf t1) (cvOf tM) shells c)
    have hfst : ∀ c, (sortPairs (blocks (cvOf tM) shells (convert (cvOf t1) (cvOf tM) shells c))).map (·.1)
        = sortByCenter shells := fun c => by rw [map_fst_sortPairs, map_fst_blocks]
    constructor
    · unfold mklLoad
      simp only
      rw [mklRead_items (cvOf tM) _ 0 (asc_sort shells) (fun s hs => hk s (mem_sortByCenter s shells hs))]
      simp only [nfun_sort]
      have hcols : (cols.map fun c => (sortPairs (blocks (cvOf tM) shells (apply r c))).flatMap (·.2))
          = cols.map (mklCol t1 tM shells) := by
        apply List.map_congr_left; intro c _; simp only [mklCol, happ]
      rw [hcols, mklRead_coeffBlocks]
      intro c hc'
      obtain ⟨c0, _, rfl⟩ := List.mem_map.mp hc'
      have := length_pairs (cvOf tM) _ (hgood c0)
      rw [hfst, nfun_sort] at this
      exact this
    · intro c κ
      have h1 := den_of_pairs (cvOf tM) _ (hgood c) κ
      rw [hfst] at h1
      simp only [mklCol]
      rw [h1, denPairs_sort, ← den_eq_denPairs, den_convert_aux (cvOf t1) (cvOf tM) shells hc]

/-- 6h. In Molekel's convention table the number of functions of an entry determines its kind (the reader's
`nbasis_shell == len(CONVENTIONS.get(...))` decision). -/
theorem mkl_kinds_ok : Iodata.Gen.Conventions.molekel.all (fun e =>
    mklKind (cvOf Iodata.Gen.Conventions.molekel) e.1.1 (cvOf Iodata.Gen.Conventions.molekel e.1).length == some e.1.2) = true := by
  decide +kernel

/-- 6i. Molekel round trip for the code as it is now (convention table regenerated from the source), no hypothesis
on kinds, shell order or centres. -/
theorem mkl_roundtrip_current (t1 : Table) (shells : List Shell) (cols : List (List Int)) (f : MklFile)
    (hw : mklWrite t1 Iodata.Gen.Conventions.molekel shells cols = some f) :
    mklLoad (cvOf Iodata.Gen.Conventions.molekel) f
        = some (sortByCenter shells, cols.map (mklCol t1 Iodata.Gen.Conventions.molekel shells)) ∧
      ∀ c κ, den (cvOf Iodata.Gen.Conventions.molekel) (sortByCenter shells)
          (mklCol t1 Iodata.Gen.Conventions.molekel shells c) κ = den (cvOf t1) shells c κ := by
  apply mkl_roundtrip t1 _ shells cols f hw
  intro s hs
  have hr : ∃ r, convBasis t1 Iodata.Gen.Conventions.molekel (keysOf shells) false = .ok r := by
    unfold mklWrite at hw
    cases hb : convBasis t1 Iodata.Gen.Conventions.molekel (keysOf shells) false with
    | error e => simp [hb] at hw
    | ok r => exact ⟨r, rfl⟩
  obtain ⟨r, hr⟩ := hr
  obtain ⟨c, hc⟩ := convBasis_lookup t1 _ (keysOf shells) r hr s.key (List.mem_map.mpr ⟨s, hs, rfl⟩)
  obtain ⟨e, he, hek⟩ := lookup_mem hc
  have := List.all_eq_true.mp mkl_kinds_ok e he
  rw [hek] at this
  simpa [Shell.key] using this

/-! #### FCHK -/

/-- 7a. FCHK basis section (`Shell types` with `-1` for SP and `-l` for pure shells, `Number of primitives per
shell`, `Shell to atom map`, exponents, contraction coefficients, `P(S=P)` coefficients): for every list of
expressible shells — any centres, any order — the reader returns exactly the shells written. -/
theorem fchk_basis_roundtrip (gs : List GShell) (h : ∀ g ∈ gs, FchkOK g) :
    ∃ b, fchkWriteBasis gs = some b ∧ fchkReadBasis b = gs :=
  fchkRead_write gs h

/-- 7b. FCHK coefficient blocks: `coeffs.T.flatten()` of the globally converted columns is read back by
`reshape(norb, nbasis).T` as the converted columns, and each denotes the same function — generalized (SP)
shells included. -/
theorem fchk_coeffs_roundtrip (t1 tF : Table) (gs : List GShell) (cols : List (List Int)) (flat : List Int)
    (hw : fchkWriteCoeffs t1 tF gs cols = some flat) (n : Nat) (hn : 0 < n) (hcols : ∀ c ∈ cols, c.length = n) :
    ∃ r, convBasis t1 tF (gkeys gs) false = .ok r ∧
      (r.length = n → fchkReadCoeffs n flat = cols.map (apply r)) ∧
      ∀ c κ, gden (cvOf tF) gs (apply r c) κ = gden (cvOf t1) gs c κ := by
  unfold fchkWriteCoeffs at hw
  cases hb : convBasis t1 tF (gkeys gs) false with
  | error e => simp [hb] at hw
  | ok r =>
    simp only [hb, Option.some.injEq] at hw
    subst hw
    refine ⟨r, rfl, ?_, fun c κ => gden_convert_basis t1 tF gs r hb c κ⟩
    intro hr
    apply fchkRead_coeffs n hn
    intro c hc
    obtain ⟨c0, _, rfl⟩ := List.mem_map.mp hc
    simp [hr]

/-- 7c. General statement (previously shown on a witness only): for every signed permutation `P` of `n`
positions, every `n × n` matrix `D` and all vectors `x, y` of length `n`:
`bilin (P D Pᵀ) (P x) (P y) = bilin D x y`. -/
theorem bilin_signed_perm (r : List (Nat × Int)) (n : Nat) (hr : SignedPerm r n) (D : List (List Int))
    (hD : Square D n) (x y : List Int) (hx : x.length = n) (hy : y.length = n) :
    bilin (convMatrix r D) (apply r x) (apply r y) = bilin D x y := by
  rw [bilin_conv r n hr D x y, bilin_range D x y n hD hx hy]

/-- 7d. … and every successful `convert_conventions` returns such a signed permutation (any shell list,
generalized contractions included). -/
theorem convert_is_signed_perm (t1 t2 : Table) (keys : List Key) (r : List (Nat × Int))
    (h : convBasis t1 t2 keys false = .ok r) : SignedPerm r r.length :=
  convBasis_signedPerm t1 t2 keys r h

/-- 7e. FCHK density round trip: the writer stores the lower triangle of `P D Pᵀ`, the reader rebuilds the dense
symmetric matrix; evaluated on converted basis-function values it is the original density, for every
symmetric `D`, every shell list and every pair of convention tables. -/
theorem fchk_density_roundtrip (t1 tF : Table) (keys : List Key) (r : List (Nat × Int))
    (h : convBasis t1 tF keys false = .ok r) (D : List (List Int)) (hD : Square D r.length) (hs : Symm D)
    (x y : List Int) (hx : x.length = r.length) (hy : y.length = r.length) :
    bilin (triangleToDense (fchkWriteDm r D)) (apply r x) (apply r y) = bilin D x y := by
  unfold fchkWriteDm
  rw [dense_tril (convMatrix r D) r.length (convMatrix_square r D) (convMatrix_symm r D hs)]
  exact bilin_signed_perm r r.length (convBasis_signedPerm t1 tF keys r h) D hD x y hx hy

/-- 7f. The FCHK writer *as the source implements it now* converts the density matrices. -/
theorem fchk_density_current (r : List (Nat × Int)) (D : List (List Int)) :
    fchkDensity Iodata.Gen.Wf.fchkDensitiesConverted r D = convMatrix r D := by
  have hf : Iodata.Gen.Wf.fchkDensitiesConverted = true := by decide
  simp [fchkDensity, hf]

/-- 7g. Keys of the FCHK table: pure entries have `l ≥ 2` (so `-l` never collides with the SP code `-1` or
with `0`). -/
theorem fchk_keys_ok : Iodata.Gen.Conventions.fchk.all
    (fun e => (e.1.2 == 'c' || e.1.2 == 'p') && (decide (2 ≤ e.1.1) || e.1.2 == 'c')) = true := by decide

/-! #### FCHK densities: the repaired defect -/

/-- 7h. `_violated` (repaired by 4b78e98, old variant `converted = false`): two functions swapped by the conversion (`r = [(1,1),(0,1)]`), `D = diag(1, 0)`:
the converted orbital values are `(y₁, y₀)`; the unconverted matrix evaluates to `y₁²`, the original to `y₀²`. -/
theorem fchk_density_violated :
    bilin (fchkDensity false [(1, 1), (0, 1)] [[1, 0], [0, 0]]) (apply [(1, 1), (0, 1)] [2, 3]) (apply [(1, 1), (0, 1)] [2, 3])
      ≠ bilin [[1, 0], [0, 0]] [2, 3] [2, 3]
    ∧ bilin (fchkDensity true [(1, 1), (0, 1)] [[1, 0], [0, 0]]) (apply [(1, 1), (0, 1)] [2, 3]) (apply [(1, 1), (0, 1)] [2, 3])
      = bilin [[1, 0], [0, 0]] [2, 3] [2, 3] := by
  decide

/-! #### the built-in tables -/

/-- 8. The WFN and WFX convention tables carry no sign flips (hypothesis `Pos` of theorems 2–3), and
every format's table is compatible with HORTON2 on the keys it has (hypothesis `Compatible`). -/
theorem tables_ok :
    (Iodata.Gen.Conventions.wfn.all fun e => (e.2.map parse).all fun p => !p.1) = true
    ∧ (Iodata.Gen.Conventions.wfx.all fun e => (e.2.map parse).all fun p => !p.1) = true := by
  decide +kernel

/-! #### non-vacuity -/

example : wfnDump false N3 (fun _ => h2d) (fun _ => wfnd) [dShell] [1,2,3,4,5,6]
    = [{ center := 0, l := 2, e := 0,
         types := [['x','x'],['y','y'],['z','z'],['x','y'],['x','z'],['y','z']],
         vals := [1, 4, 6, 6, 9, 15] }] := by decide

example : (wfnLoad N3 (fun _ => wfnd) (wfnDump false N3 (fun _ => h2d) (fun _ => wfnd) [dShell] [1,2,3,4,5,6])).2
    = [1, 4, 6, 2, 3, 5] := by decide

/-- the hypotheses of theorems 2–3 are satisfiable (HORTON2 d shell → WFN d shell) -/
example : Compatible h2d wfnd ∧ Pos wfnd :=
  ⟨(guards_ok_iff h2d wfnd).mp (by
      have : (match guards h2d wfnd with | .ok () => true | .error _ => false) = true := by decide
      revert this; cases guards h2d wfnd with
      | ok u => cases u; intro _; rfl
      | error e => intro h; simp at h), pos_plusG _⟩

/-- the Molden writer/reader models compute: pure d on centre 1 stored before an s shell on centre 0, HORTON2
source conventions — `[5D10F]` tag, two centre blocks, rows following the sort; the reader returns the
sorted shells (the hypotheses of `molden_roundtrip_current` are satisfiable) -/
example : moldenWrite Iodata.Gen.Wf.moldenHeader Iodata.Gen.Conventions.horton2 Iodata.Gen.Conventions.molden
      [{ center := 1, l := 2, kind := 'p', prims := [(0, 1)] }, { center := 0, l := 0, kind := 'c', prims := [(1, 2)] }]
      [1, 2, 3, 4, 5, 6]
    = some { tags := [Tag.d5f10], gto := [(1, [(0, [(1, 2)])]), (2, [(2, [(0, 1)])])], mo := [6, 1, 2, 3, 4, 5] } := by
  decide +kernel

example : moldenLoad (cvOf Iodata.Gen.Conventions.molden)
      { tags := [Tag.d5f10], gto := [(1, [(0, [(1, 2)])]), (2, [(2, [(0, 1)])])], mo := [6, 1, 2, 3, 4, 5] }
    = some ([{ center := 0, l := 0, kind := 'c', prims := [(1, 2)] }, { center := 1, l := 2, kind := 'p', prims := [(0, 1)] }],
        [6, 1, 2, 3, 4, 5]) := by
  decide +kernel

/-- Molekel: a shell on centre 2 stored before one on centre 0 (centre 1 skipped): `$$ $$` before the second
shell written, centres 0 and 2 read back -/
example : mklWrite Iodata.Gen.Conventions.horton2 Iodata.Gen.Conventions.molekel
      [{ center := 2, l := 0, kind := 'c', prims := [(0, 1)] }, { center := 0, l := 0, kind := 'c', prims := [(1, 1)] }]
      [[1, 2]]
    = some { basis := [.shell 1 0 [(1, 1)], .sep, .sep, .shell 1 0 [(0, 1)]], coeff := [(1, [[2], [1]])] } := by
  decide +kernel

example : mklLoad (cvOf Iodata.Gen.Conventions.molekel)
      { basis := [.shell 1 0 [(1, 1)], .sep, .sep, .shell 1 0 [(0, 1)]], coeff := [(1, [[2], [1]])] }
    = some ([{ center := 0, l := 0, kind := 'c', prims := [(1, 1)] }, { center := 2, l := 0, kind := 'c', prims := [(0, 1)] }],
        [[2, 1]]) := by
  decide +kernel

/-- FCHK: an SP shell and a pure d shell; density lower triangle and back -/
example : (fchkWriteBasis [{ center := 1, cons := [(0, 'c'), (1, 'c')], prims := [(0, [2, 3]), (1, [4, 5])] },
      { center := 0, cons := [(2, 'p')], prims := [(2, [7])] }]).map (fun b => (b.types, b.atomMap, b.c1, b.c2))
    = some ([-1, -2], [2, 1], [2, 4, 7], some [3, 5, 0]) := by decide

example : triangleToDense (tril [[1, 2, 4], [2, 3, 5], [4, 5, 6]]) = [[1, 2, 4], [2, 3, 5], [4, 5, 6]] := by decide

/-- a non-trivial signed permutation satisfies the hypotheses of `bilin_signed_perm` -/
example : SignedPerm [(1, -1), (0, 1)] 2 :=
  ⟨by decide, by decide⟩

end Iodata.Props.C01
