/-
C04 — every physical quantity is in atomic units, consistently across formats.

Finite proof by kernel evaluation over `Iodata/Gen/Units.lean` (regenerated from /repo on every run: the float
constants of `iodata/utils.py` as exact rationals, and the table of probed effective unit factors of the readers
and writers) against the hand-written reference data of `Iodata/Model/Units.lean` (CODATA 2018 and 2022, the unit
each format prescribes).
-/
import Iodata.Model.Units
import Iodata.Gen.Units

namespace Iodata.Props.C04
open Iodata.Units Iodata.Gen.Units

/-- Each conversion constant of `iodata/utils.py` is within 1e-8 (relative) of the value derived in ℚ from the
CODATA 2018 **and** the CODATA 2022 adjustments; all ten constants are present and there is no other float
constant in the module without a reference value. -/
theorem constants_codata :
    (constants.all fun p => constOk p.1 p.2) = true ∧
    (constantUnits.all fun cu => constants.any fun p => p.1 == cu.1) = true ∧
    otherFloatNames = [] := by
  decide +kernel

/- Full statement (FALSE on the current tree, see the `…_violated` theorems below and known_findings.json):
   theorem units_table : (rows.all (rowOk constants)) = true -/

/-- Every probed reader/writer factor equals the library constant (`Gen.Units.constants`, tied to CODATA by
`constants_codata`) of the unit its format prescribes, to 1e-9 relative plus the print quantum of a writer — except exactly the known rows
`Iodata.Units.knownRows` (GAMESS, Q-Chem, QCSchema masses left in amu; Q-Chem dipole/quadrupole left in
Debye(-Å); existing tests pin those values). -/
theorem units_table_partial : (rows.all fun r => isKnown r.fmt r.qty || rowOk constants r) = true := by
  decide +kernel

/-- Every line of the spec table is exercised by at least one probe row. -/
theorem units_table_covered : covered rows = true := by decide +kernel

/-- Converting between two formats never changes a quantity by a unit factor: for every load row and every dump
row of the same quantity whose formats prescribe the same unit, file number → attribute → file number is the
identity (up to the writers' print quanta).  (Known rows excluded.) -/
theorem cross_format : crossAll rows = true := by decide +kernel

/-- the probe rows of one (format, quantity) all violate the table, and there is at least one -/
def violated (fmt qty : String) : Bool :=
  let rs := rows.filter fun r => r.fmt == fmt && r.qty == qty && r.dir != "redump"
  !rs.isEmpty && rs.all fun r => !rowOk constants r

/-- KNOWN: masses from GAMESS punch files stay in amu (factor 1 instead of `amu`). -/
theorem units_table_violated_gamess_atmasses : violated "gamess" "atmasses" = true := by decide +kernel
/-- KNOWN: masses from Q-Chem logs stay in amu. -/
theorem units_table_violated_qchemlog_atmasses : violated "qchemlog" "atmasses" = true := by decide +kernel
/-- KNOWN: QCSchema `masses` are read and written in amu. -/
theorem units_table_violated_json_atmasses : violated "json" "atmasses" = true := by decide +kernel
/-- KNOWN: Q-Chem dipole moments stay in Debye. -/
theorem units_table_violated_qchemlog_dipole : violated "qchemlog" "dipole" = true := by decide +kernel
/-- KNOWN: Q-Chem quadrupole moments stay in Debye·Å. -/
theorem units_table_violated_qchemlog_quadrupole : violated "qchemlog" "quadrupole" = true := by decide +kernel

/-! non-vacuity: the checks reject wrong factors -/
example : rowOk constants ⟨"xyz", "atcoords", "load", 1, (18897261259 : Rat) / 10000000000, 0⟩ = true := by decide +kernel
example : rowOk constants ⟨"xyz", "atcoords", "load", 1, (18899 : Rat) / 10000, 0⟩ = false := by decide +kernel   -- Å off by 1e-4
example : rowOk constants ⟨"xyz", "atcoords", "load", 1, (10000 : Rat) / 18897, 0⟩ = false := by decide +kernel   -- divided instead of multiplied
example : rowOk constants ⟨"gromacs", "atcoords", "load", 1, (18897261259 : Rat) / 10000000000, 0⟩ = false := by decide +kernel  -- Å instead of nm
example : constOk "angstrom" ((18899 : Rat) / 10000) = false := by decide +kernel
example : constOk "amu" ((1822888486 : Rat) / 1000000) = true := by decide +kernel

end Iodata.Props.C04
