/-
C06 — overlap matrices are the exact L2 inner products of the documented functions.

Property theorems about the model `Iodata/Model/Overlap.lean` (the same definitions the driver runs at
`Rat` in stream `kern` and at doubles-with-error-bound in stream `ovl`).  Helpers: `Lemmas/Overlap.lean`.
The obligations over the generated Cartesian→pure tables are in `Props/C06Tables.lean`.
-/
import Iodata.Lemmas.Overlap
import Iodata.Lemmas.OverlapIntegral
import Iodata.Model.CartPure

set_option linter.unusedSectionVars false
set_option linter.unusedSimpArgs false

namespace Iodata.Props.C06
open Iodata.Overlap Polynomial

section algebra
variable {K : Type} [Field K]

/-- The 1-D kernel — the code's double loop with its `range(i % 2, n2+1, 2)` parity skip and the
`facts` table — is the full binomial double sum against the Gaussian moments
`mom t m = (m-1)‼ / t^(m/2)` (`m` even), `0` (`m` odd). -/
theorem kernel_double_sum (n1 n2 : Nat) (x1 x2 t : K) :
    kernel n1 n2 x1 x2 t =
      ∑ i ∈ Finset.range (n1 + 1), ∑ j ∈ Finset.range (n2 + 1),
        ((Nat.choose n1 i : Nat) : K) * x1 ^ (n1 - i) * (((Nat.choose n2 j : Nat) : K) * x2 ^ (n2 - j)) * mom t (i + j) :=
  kernel_eq_full n1 n2 x1 x2 t

/-- Exchanging the two functions leaves the 1-D integral unchanged. -/
theorem kernel_symm (n1 n2 : Nat) (x1 x2 t : K) : kernel n1 n2 x1 x2 t = kernel n2 n1 x2 x1 t := by
  rw [kernel_eq_gaussL, kernel_eq_gaussL, mul_comm]

/-- `K₀₀ = 1`. -/
theorem kernel_zero_zero (x1 x2 t : K) : kernel 0 0 x1 x2 t = 1 := by
  rw [kernel_eq_gaussL]
  simpa using (gaussL_X_pow t 0).trans (mom_zero t)

/-- Obara–Saika recurrence in the first index (`t = 2(a+b)`, `x1 = P − A`):
`K(n1+1, n2) = x1·K(n1, n2) + (n1/t)·K(n1−1, n2) + (n2/t)·K(n1, n2−1)`.
Together with `kernel_symm` and `kernel_zero_zero` this determines the kernel for all `n1 n2`
(unconditional algebraic characterisation: these are the recurrences of the Gaussian overlap integrals). -/
theorem kernel_rec (n1 n2 : Nat) (x1 x2 t : K) :
    kernel (n1 + 1) n2 x1 x2 t =
      x1 * kernel n1 n2 x1 x2 t + (n1 : K) / t * kernel (n1 - 1) n2 x1 x2 t
        + (n2 : K) / t * kernel n1 (n2 - 1) x1 x2 t := by
  simp only [kernel_eq_gaussL]
  have h : (X + C x1) ^ (n1 + 1) * (X + C x2) ^ n2
      = X * ((X + C x1) ^ n1 * (X + C x2) ^ n2) + C x1 * ((X + C x1) ^ n1 * (X + C x2) ^ n2) := by ring
  rw [h, map_add, gaussL_X_mul, C_mul', map_smul, smul_eq_mul]
  have hd : derivative ((X + C x1) ^ n1 * (X + C x2) ^ n2)
      = C (n1 : K) * ((X + C x1) ^ (n1 - 1) * (X + C x2) ^ n2)
        + C (n2 : K) * ((X + C x1) ^ n1 * (X + C x2) ^ (n2 - 1)) := by
    simp only [derivative_mul, derivative_pow, derivative_add, derivative_X, derivative_C, add_zero, mul_one]
    ring
  rw [hd, map_add, C_mul', C_mul', map_smul, map_smul, smul_eq_mul, smul_eq_mul]
  ring

/-- … and in the second index. -/
theorem kernel_rec_right (n1 n2 : Nat) (x1 x2 t : K) :
    kernel n1 (n2 + 1) x1 x2 t =
      x2 * kernel n1 n2 x1 x2 t + (n2 : K) / t * kernel n1 (n2 - 1) x1 x2 t
        + (n1 : K) / t * kernel (n1 - 1) n2 x1 x2 t := by
  rw [kernel_symm, kernel_rec, kernel_symm n2 n1, kernel_symm (n2 - 1) n1, kernel_symm n2 (n1 - 1)]

/-- At coincident centres (`x1 = x2 = 0`) only the top term survives: `K(n,n) = (2n−1)‼ / t^n`. -/
theorem kernel_coincident (n : Nat) (t : K) : kernel n n 0 0 t = ((facts (2 * n) : Nat) : K) / t ^ n := by
  rw [kernel_eq_gaussL]
  simp only [map_zero, add_zero, ← pow_add, gaussL_X_pow, mom]
  have h1 : (n + n) % 2 = 0 := by omega
  have h2 : (n + n) / 2 = n := by omega
  simp [h1, h2, two_mul]

/-- Normalisation, rational part: with `N(α,n)² = (2α/π)^{3/2} · (4α)^{Σn} / Π(2n_d−1)‼` (the square of
`gob_cart_normalization`) and the primitive self-overlap `(π/2α)^{3/2} · Π_d K(n_d, n_d, 0, 0, 4α)`,
the rational parts multiply to one (the `π`-parts are `(2α/π)^{3/2}·(π/(2α))^{3/2} = 1`,
`normalisation_pi_part`). -/
theorem normalisation_rational [CharZero K] (α : K) (hα : α ≠ 0) (nx ny nz : Nat) :
    ((4 * α) ^ (nx + ny + nz) / ((facts (2 * nx) * facts (2 * ny) * facts (2 * nz) : Nat) : K))
      * (kernel nx nx 0 0 (2 * (α + α)) * kernel ny ny 0 0 (2 * (α + α)) * kernel nz nz 0 0 (2 * (α + α))) = 1 := by
  simp only [kernel_coincident]
  have hf : ∀ m, ((facts m : Nat) : K) ≠ 0 := by
    intro m
    have : facts m ≠ 0 := by
      cases m with
      | zero => simp [facts]
      | succ k =>
        have hk : ∀ k, fact2 k ≠ 0 := by
          intro k
          induction k using Nat.strong_induction_on with
          | _ k ih =>
            match k with
            | 0 => simp [fact2]
            | 1 => simp [fact2]
            | k + 2 => simp only [fact2]; exact Nat.mul_ne_zero (by omega) (ih k (by omega))
        simpa [facts] using hk k
    exact_mod_cast this
  have h4 : (2 * (α + α)) = 4 * α := by ring
  rw [h4]
  have h4α : (4 * α) ≠ 0 := mul_ne_zero (by norm_num) hα
  push_cast
  field_simp [hf]
  ring

/-- non-vacuity: the model evaluates (the value the real code returns for these arguments is -0.42421875) -/
example : kernel 2 3 ((1 : Rat) / 2) (-(3 : Rat) / 4) ((5 : Rat) / 2) = -(543 : Rat) / 1280 := by decide +kernel

end algebra

/-! ### primitive pairs and assembly (abstract `exp`, `sqrt`, `π`, comparisons: any `Ops K` over a field) -/
section assembly
variable {K : Type} [Field K]

/-- the pair data seen from the other side -/
def swapPD (pd : PairData K) : PairData K := ⟨pd.pref, pd.twoAt, pd.d1, pd.d0, pd.sc1, pd.sc0⟩

/-- exchanging the two primitives exchanges the roles in the pair data (same prefactor, same `two_at`) -/
theorem pairData_exchange (ops : Ops K) (r0 r1 : V3 K) (rij2 : K) (p0 p1 : K × List K) :
    pairData ops r1 r0 rij2 p1 p0 = (pairData ops r0 r1 rij2 p0 p1).map swapPD := by
  unfold pairData
  have e1 : -p1.1 * p0.1 / (p1.1 + p0.1) * rij2 = -p0.1 * p1.1 / (p0.1 + p1.1) * rij2 := by
    rw [add_comm p1.1 p0.1]; ring
  simp only [e1]
  split
  · simp
  · simp only [Option.map_some, swapPD, Option.some.injEq]
    have e2 : p1.1 + p0.1 = p0.1 + p1.1 := add_comm _ _
    simp only [e2, V3.sub]
    congr 3 <;> ring

theorem pairTerm_exchange (pd : PairData K) (ip iq : Nat) (n0 n1 : Nat × Nat × Nat) :
    pairTerm (swapPD pd) iq ip n1 n0 = pairTerm pd ip iq n0 n1 := by
  unfold pairTerm swapPD
  simp only
  rw [kernel_symm n1.1 n0.1, kernel_symm n1.2.1 n0.2.1, kernel_symm n1.2.2 n0.2.2]
  ring

/-- **Exchange of the two shells**: element `(q, p)` of the Cartesian block computed for `(shell1, shell0)`
equals element `(p, q)` of the block for `(shell0, shell1)` — for any contraction lengths, including the
screening decisions (`exp`, the `1e-15` test and `π` abstract). -/
theorem entry_exchange (ops : Ops K) (sc0 sc1 : List (K × List K)) (r0 r1 : V3 K)
    (ip iq : Nat) (n0 n1 : Nat × Nat × Nat) :
    entryOf (pairList ops sc1 sc0 r1 r0) iq ip n1 n0 = entryOf (pairList ops sc0 sc1 r0 r1) ip iq n0 n1 := by
  unfold entryOf pairList
  simp only [sumL_eq_sum, sum_flatMap, sum_filterMap]
  have hr : (r1.sub r0).dot (r1.sub r0) = (r0.sub r1).dot (r0.sub r1) := by
    simp only [V3.sub, V3.dot]; ring
  rw [hr, list_sum_comm]
  congr 1
  apply List.map_congr_left
  intro p0 _
  congr 1
  apply List.map_congr_left
  intro p1 _
  rw [pairData_exchange]
  cases pairData ops r0 r1 ((r0.sub r1).dot (r0.sub r1)) p0 p1 with
  | none => simp
  | some pd => simp [pairTerm_exchange]

/-- the diagonal Cartesian block of a single basis is symmetric -/
theorem entry_diag_symm (ops : Ops K) (sc : List (K × List K)) (r : V3 K) (ip iq : Nat) (n0 n1 : Nat × Nat × Nat) :
    entryOf (pairList ops sc sc r r) iq ip n1 n0 = entryOf (pairList ops sc sc r r) ip iq n0 n1 :=
  entry_exchange ops sc sc r r ip iq n0 n1

def shiftV (d r : V3 K) : V3 K := ⟨r.x + d.x, r.y + d.y, r.z + d.z⟩

/-- **Translation invariance**: only differences of centres enter a primitive pair
(`a0 + a1 ≠ 0`, e.g. positive exponents). -/
theorem pairData_translation (ops : Ops K) (d r0 r1 : V3 K) (rij2 : K) (p0 p1 : K × List K)
    (h : p0.1 + p1.1 ≠ 0) :
    pairData ops (shiftV d r0) (shiftV d r1) rij2 p0 p1 = pairData ops r0 r1 rij2 p0 p1 := by
  unfold pairData
  simp only
  split
  · rfl
  · simp only [Option.some.injEq, shiftV, V3.sub]
    congr 2 <;> (field_simp; ring)

theorem pairList_translation (ops : Ops K) (d r0 r1 : V3 K) (sc0 sc1 : List (K × List K))
    (h : ∀ p0 ∈ sc0, ∀ p1 ∈ sc1, p0.1 + p1.1 ≠ 0) :
    pairList ops sc0 sc1 (shiftV d r0) (shiftV d r1) = pairList ops sc0 sc1 r0 r1 := by
  unfold pairList
  have hr : ((shiftV d r0).sub (shiftV d r1)).dot ((shiftV d r0).sub (shiftV d r1)) = (r0.sub r1).dot (r0.sub r1) := by
    simp only [V3.sub, V3.dot, shiftV]; ring
  simp only [hr]
  apply List.flatMap_congr
  intro p0 h0
  apply List.filterMap_congr
  intro p1 h1
  exact pairData_translation ops d r0 r1 _ p0 p1 (h p0 h0 p1 h1)

/-- the shell-level screening test sees only the distance as well -/
theorem shellBlock_translation (ops : Ops K) (tfs : Nat → List (List K)) (s0 s1 : Shell K)
    (sc0 sc1 : List (K × List K)) (d r0 r1 : V3 K) (nb0 nb1 : Nat)
    (h : ∀ p0 ∈ sc0, ∀ p1 ∈ sc1, p0.1 + p1.1 ≠ 0) :
    shellBlock ops tfs s0 s1 sc0 sc1 (shiftV d r0) (shiftV d r1) nb0 nb1
      = shellBlock ops tfs s0 s1 sc0 sc1 r0 r1 nb0 nb1 := by
  unfold shellBlock cartBlock
  have hr : ((shiftV d r0).sub (shiftV d r1)).dot ((shiftV d r0).sub (shiftV d r1)) = (r0.sub r1).dot (r0.sub r1) := by
    simp only [V3.sub, V3.dot, shiftV]; ring
  simp only [hr, pairList_translation ops d r0 r1 sc0 sc1 h]

/-- **Identical bases ⇒ symmetric matrix** (before conventions): elements in different shells are mirrored
by construction (upper triangle = transposed lower blocks); inside one shell the diagonal block must be
symmetric, which `entry_diag_symm` gives for Cartesian shells (`hdiag`). -/
theorem rawEntry_symm (blocks : Nat → Nat → List (List K)) (sizes : List Nat) (r c : Nat)
    (hdiag : ∀ i p q, getM (blocks i i) p q = getM (blocks i i) q p) :
    rawEntry true blocks sizes sizes r c = rawEntry true blocks sizes sizes c r := by
  unfold rawEntry
  cases h0 : locate sizes r with
  | none => cases h1 : locate sizes c <;> simp
  | some a =>
    cases h1 : locate sizes c with
    | none => simp
    | some b =>
      obtain ⟨i0, p⟩ := a
      obtain ⟨i1, q⟩ := b
      simp only [if_true]
      by_cases h : i1 < i0
      · have h' : ¬ i0 < i1 := by omega
        simp [h, h']
      · by_cases h2 : i0 < i1
        · simp [h, h2]
        · have : i0 = i1 := by omega
          subst this
          simp [h, hdiag]

/-- **Exchanging the two bases transposes the matrix** (before conventions), given that the blocks do
(`entry_exchange`). -/
theorem rawEntry_exchange (blocks blocks' : Nat → Nat → List (List K)) (sizes0 sizes1 : List Nat) (r c : Nat)
    (hb : ∀ i0 i1 p q, getM (blocks' i1 i0) q p = getM (blocks i0 i1) p q) :
    rawEntry false blocks' sizes1 sizes0 c r = rawEntry false blocks sizes0 sizes1 r c := by
  unfold rawEntry
  cases h0 : locate sizes0 r with
  | none => cases h1 : locate sizes1 c <;> simp
  | some a =>
    cases h1 : locate sizes1 c with
    | none => simp
    | some b => simp [hb]

/-- running offsets: `locate` inverts "sum of the sizes of the earlier shells + local index" -/
theorem locate_offset (pre : List Nat) (n : Nat) (post : List Nat) (p : Nat) (hp : p < n) :
    locate (pre ++ n :: post) (pre.sum + p) = some (pre.length, p) := by
  induction pre with
  | nil => simp [locate, hp]
  | cons a t ih =>
    have h1 : ¬ (a + t.sum + p < a) := by omega
    have h2 : a + t.sum + p - a = t.sum + p := by omega
    simp [locate, h1, h2, ih]

/-- **Conventions act as the C10 signed permutation on rows and columns**:
element `(i, j)` of the result is `sign1[j] · sign0[i] · raw[perm0[i], perm1[j]]`. -/
theorem applyConv_entry (r0 r1 : List (Nat × Int)) (e : Nat → Nat → K) (i j : Nat)
    (hi : i < r0.length) (hj : j < r1.length) :
    getM (applyConv r0 r1 e sgnMul) i j
      = sgnMul (r1[j]).2 (sgnMul (r0[i]).2 (e (r0[i]).1 (r1[j]).1)) := by
  unfold getM applyConv
  simp [List.getD_eq_getElem?_getD, hi, hj]

/-- the value of `sgnMul` is multiplication by the sign -/
theorem sgnMul_eq (s : Int) (x : K) (hs : s = 1 ∨ s = -1) : sgnMul s x = (s : K) * x := by
  rcases hs with h | h <;> subst h <;> simp [sgnMul]

/-- a successful `compute_overlap` is the raw matrix with the two convention conversions
(`convert_conventions(obasis, OVERLAP_CONVENTIONS, reverse=True)`, i.e. `Conv.convBasis … true` of C10)
applied to rows and columns; for a single basis the same conversion is used on both sides -/
theorem computeOverlap_ok_form (ops : Ops K) (tfs : Nat → List (List K)) (oc : Iodata.Conv.Table)
    (b0 : Basis K) (xyz0 : List (V3 K)) (b1 : Option (Basis K)) (xyz1 : Option (List (V3 K)))
    (M : List (List K)) (h : computeOverlap ops tfs oc b0 xyz0 b1 xyz1 = .ok M) :
    ∃ p0 p1 raw,
      Iodata.Conv.convBasis b0.conventions oc (keysOf (segment b0.shells)) true = .ok p0 ∧
      (b1 = none → p1 = p0) ∧
      (∀ b, b1 = some b → Iodata.Conv.convBasis b.conventions oc (keysOf (segment b.shells)) true = .ok p1) ∧
      M = applyConv p0 p1 raw sgnMul := by
  unfold computeOverlap at h
  split at h
  · cases h
  · split at h
    · cases h
    · rename_i identical sh1 conv1 x1 hsec
      split at h
      · split at h
        · cases h
        · obtain ⟨p0, p1, h0, h1, hM⟩ := finish_ok _ _ _ _ h
          refine ⟨p0, p1, _, h0, ?_, ?_, hM⟩
          · intro hb
            subst hb
            cases xyz1 with
            | some x => simp [secondArgs] at hsec
            | none =>
              simp only [secondArgs, Except.ok.injEq, Prod.mk.injEq] at hsec
              obtain ⟨hi, -, -, -⟩ := hsec
              subst hi
              simp only [if_true] at h1
              rw [h0] at h1
              exact (Except.ok.inj h1).symm
          · intro b hb
            subst hb
            unfold secondArgs at hsec
            simp only [] at hsec
            split at hsec
            · cases hsec
            · cases xyz1 with
              | none => simp at hsec
              | some x =>
                simp only [Except.ok.injEq, Prod.mk.injEq] at hsec
                obtain ⟨hi, hs, hc, -⟩ := hsec
                subst hi; subst hs; subst hc
                simpa using h1
      · cases h

/-- **Unsupported input is rejected**: a first basis that is not L2-normalised ⇒ `ValueError`. -/
theorem rejects_nonL2_first (ops : Ops K) (tfs : Nat → List (List K)) (oc : Iodata.Conv.Table)
    (b0 : Basis K) (xyz0 : List (V3 K)) (b1 : Option (Basis K)) (xyz1 : Option (List (V3 K)))
    (h : b0.l2 = false) : computeOverlap ops tfs oc b0 xyz0 b1 xyz1 = .error .valueError := by
  simp [computeOverlap, h]

/-- … a second basis that is not L2-normalised ⇒ `ValueError`. -/
theorem rejects_nonL2_second (ops : Ops K) (tfs : Nat → List (List K)) (oc : Iodata.Conv.Table)
    (b0 b1 : Basis K) (xyz0 : List (V3 K)) (xyz1 : Option (List (V3 K)))
    (h0 : b0.l2 = true) (h : b1.l2 = false) :
    computeOverlap ops tfs oc b0 xyz0 (some b1) xyz1 = .error .valueError := by
  simp [computeOverlap, secondArgs, h0, h]

/-- … a second basis without its geometry ⇒ `TypeError`. -/
theorem rejects_missing_geometry (ops : Ops K) (tfs : Nat → List (List K)) (oc : Iodata.Conv.Table)
    (b0 b1 : Basis K) (xyz0 : List (V3 K)) (h0 : b0.l2 = true) (h1 : b1.l2 = true) :
    computeOverlap ops tfs oc b0 xyz0 (some b1) none = .error .typeError := by
  simp [computeOverlap, secondArgs, h0, h1]

/-- … a second geometry without a second basis ⇒ `TypeError`. -/
theorem rejects_geometry_without_basis (ops : Ops K) (tfs : Nat → List (List K)) (oc : Iodata.Conv.Table)
    (b0 : Basis K) (xyz0 x1 : List (V3 K)) (h0 : b0.l2 = true) :
    computeOverlap ops tfs oc b0 xyz0 none (some x1) = .error .typeError := by
  simp [computeOverlap, secondArgs, h0]

end assembly

/-! ### over the reals: the kernel IS the integral -/
section real
open Real MeasureTheory

/-- **The 1-D kernel is the Gaussian overlap integral.** -/
theorem kernel_eq_integral (a b A B : ℝ) (ha : 0 < a) (hb : 0 < b) (n1 n2 : ℕ) :
    ∫ x : ℝ, (x - A) ^ n1 * (x - B) ^ n2 * exp (-a * (x - A) ^ 2 - b * (x - B) ^ 2)
      = exp (-(a * b / (a + b)) * (A - B) ^ 2) * √(π / (a + b))
          * kernel n1 n2 ((a * A + b * B) / (a + b) - A) ((a * A + b * B) / (a + b) - B) (2 * (a + b)) := by
  have hp : 0 < a + b := add_pos ha hb
  set P : ℝ := (a * A + b * B) / (a + b) with hPdef
  rw [← integral_add_right_eq_self (fun x : ℝ => (x - A) ^ n1 * (x - B) ^ n2 * exp (-a * (x - A) ^ 2 - b * (x - B) ^ 2)) P]
  have e : (fun x : ℝ => (x + P - A) ^ n1 * (x + P - B) ^ n2 * exp (-a * (x + P - A) ^ 2 - b * (x + P - B) ^ 2))
      = fun x => exp (-(a * b / (a + b)) * (A - B) ^ 2)
          * (((X + C (P - A)) ^ n1 * (X + C (P - B)) ^ n2 : ℝ[X]).eval x * exp (-(a + b) * x ^ 2)) := by
    funext x
    have hexp : -a * (x + P - A) ^ 2 - b * (x + P - B) ^ 2
        = -(a * b / (a + b)) * (A - B) ^ 2 + -(a + b) * x ^ 2 := by
      rw [hPdef]
      field_simp
      ring
    rw [hexp, exp_add]
    simp only [eval_mul, eval_pow, eval_add, eval_X, eval_C]
    ring
  rw [e, integral_const_mul, (integral_poly_gauss (a + b) hp _).2, kernel_eq_gaussL]
  ring

/-- The full statement for a pair of primitive Cartesian Gaussians in one dimension, centres `A`, `B`,
exponents `a`, `b` — with the arguments exactly as `compute_overlap` passes them
(`x1 = rn − r0`, `x2 = rn − r1`, `two_at = 2(a0 + a1)`); the prefactors are the 1-D parts of
`exp(−a0 a1/at · |r0 − r1|²) · (π/at)^{3/2}`. -/
theorem kernel_eq_integral_nonvacuous :
    ∫ x : ℝ, (x - 0) ^ 0 * (x - 0) ^ 0 * exp (-1 * (x - 0) ^ 2 - 1 * (x - 0) ^ 2) = √(π / 2) := by
  have h := kernel_eq_integral 1 1 0 0 one_pos one_pos 0 0
  rw [h, Iodata.Props.C06.kernel_zero_zero]
  norm_num

/-- `π`-part of the normalisation: `(2α/π)^{3/2} · (π/(2α))^{3/2} = 1`. -/
theorem normalisation_pi_part (α : ℝ) (hα : 0 < α) :
    (2 * α / π) ^ ((3 : ℝ) / 2) * (π / (2 * α)) ^ ((3 : ℝ) / 2) = 1 := by
  have h1 : 0 ≤ 2 * α / π := by positivity
  have h2 : 0 ≤ π / (2 * α) := by positivity
  rw [← Real.mul_rpow h1 h2]
  have : 2 * α / π * (π / (2 * α)) = 1 := by
    have := pi_pos
    field_simp
  rw [this, Real.one_rpow]

end real

/-! ### soundness of the interval arithmetic used by `Props/C06Tables.lean`

Every real quantity assembled by the checker `Iodata.CartPure.checkTable` from the table entries with
`I.scale`, `I.add`, `I.mulPos` and the enclosures `invSqrt d` of `1/√d` lies in the rational interval the
checker computes, and `I.within` then bounds its distance from the target by the tolerance `10⁻¹²`.
(The composition over the list folds of `checkTable` itself is by construction, not restated here.) -/
section Intervals
open Iodata.CartPure Real

/-- the real number `x` lies in the rational interval `a` -/
def I.mem (x : ℝ) (a : I) : Prop := ((a.1 : ℚ) : ℝ) ≤ x ∧ x ≤ ((a.2 : ℚ) : ℝ)

theorem I.mem_add {x y : ℝ} {a b : I} (hx : I.mem x a) (hy : I.mem y b) : I.mem (x + y) (I.add a b) := by
  unfold I.mem I.add at *
  push_cast
  constructor <;> linarith [hx.1, hx.2, hy.1, hy.2]

theorem I.mem_scale {x : ℝ} {a : I} (q : ℚ) (hx : I.mem x a) : I.mem ((q : ℝ) * x) (I.scale q a) := by
  unfold I.mem I.scale at *
  by_cases hq : q < 0
  · have hq' : (q : ℝ) < 0 := by exact_mod_cast hq
    simp only [hq, if_true]
    push_cast
    constructor <;> nlinarith [hx.1, hx.2]
  · have hq' : (0 : ℝ) ≤ q := by exact_mod_cast (not_lt.mp hq)
    simp only [hq, if_false]
    push_cast
    constructor <;> nlinarith [hx.1, hx.2]

theorem I.mem_mulPos {x y : ℝ} {a b : I} (ha : 0 ≤ a.1) (hb : 0 ≤ b.1) (hx : I.mem x a) (hy : I.mem y b) :
    I.mem (x * y) (I.mulPos a b) := by
  unfold I.mem I.mulPos at *
  have ha' : (0 : ℝ) ≤ ((a.1 : ℚ) : ℝ) := by exact_mod_cast ha
  have hb' : (0 : ℝ) ≤ ((b.1 : ℚ) : ℝ) := by exact_mod_cast hb
  push_cast
  constructor
  · exact mul_le_mul hx.1 hy.1 hb' (le_trans ha' hx.1)
  · exact mul_le_mul hx.2 hy.2 (le_trans hb' hy.1) (le_trans (le_trans ha' hx.1) hx.2)

theorem I.within_sound {x : ℝ} {a : I} {c tol : ℚ} (h : I.within a c tol = true) (hx : I.mem x a) :
    |x - (c : ℝ)| ≤ (tol : ℝ) := by
  unfold I.within at h
  simp only [Bool.and_eq_true, decide_eq_true_eq] at h
  have h1 : ((c - tol : ℚ) : ℝ) ≤ ((a.1 : ℚ) : ℝ) := by exact_mod_cast h.1
  have h2 : ((a.2 : ℚ) : ℝ) ≤ ((c + tol : ℚ) : ℝ) := by exact_mod_cast h.2
  push_cast at h1 h2
  rw [abs_le]
  constructor <;> linarith [hx.1, hx.2]

/-- the enclosure of `1/√d` is verified by squaring inside the checker: if the flag is set the true value is inside -/
theorem invSqrt_sound (d : ℕ) (h : (invSqrt d).2 = true) : I.mem (1 / √(d : ℝ)) (invSqrt d).1 := by
  unfold invSqrt at h ⊢
  simp only [Bool.and_eq_true, decide_eq_true_eq] at h
  obtain ⟨⟨h1, h2⟩, h3⟩ := h
  set lo : ℚ := ((Nat.sqrt (two64 * two64 / d) : ℕ) : ℚ) / two64 with hlo
  set hi : ℚ := ((Nat.sqrt (two64 * two64 / d) + 1 : ℕ) : ℚ) / two64 with hhi
  have hd : (0 : ℝ) < d := by exact_mod_cast (by omega : 0 < d)
  have hs : 0 < √(d : ℝ) := Real.sqrt_pos.mpr hd
  have hlo0 : (0 : ℝ) ≤ (lo : ℝ) := by
    have : (0 : ℚ) ≤ lo := by rw [hlo]; positivity
    exact_mod_cast this
  have hhi0 : (0 : ℝ) ≤ (hi : ℝ) := by
    have : (0 : ℚ) ≤ hi := by rw [hhi]; positivity
    exact_mod_cast this
  have e1 : (lo : ℝ) * lo * d ≤ 1 := by exact_mod_cast h1
  have e2 : 1 ≤ (hi : ℝ) * hi * d := by exact_mod_cast h2
  have hsq : √(d : ℝ) * √(d : ℝ) = d := Real.mul_self_sqrt hd.le
  unfold I.mem
  constructor
  · -- lo ≤ 1/√d  ⇔  lo·√d ≤ 1
    rw [le_div_iff₀ hs]
    by_contra hc
    have hc := not_le.mp hc
    have : 1 < ((lo : ℝ) * √(d : ℝ)) * ((lo : ℝ) * √(d : ℝ)) := by nlinarith
    nlinarith
  · rw [div_le_iff₀ hs]
    by_contra hc
    have hc := not_le.mp hc
    have hpos : 0 ≤ (hi : ℝ) * √(d : ℝ) := by positivity
    have : ((hi : ℝ) * √(d : ℝ)) * ((hi : ℝ) * √(d : ℝ)) < 1 := by nlinarith
    nlinarith


end Intervals

end Iodata.Props.C06
