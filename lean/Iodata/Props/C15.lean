/-
C15 — after one save/reload cycle, further cycles change nothing.

Property theorems only.  For each byte-level format: the reloaded object `norm o` is a fixed point of
`norm` and lies in the domain again, hence (with the C02 theorem of the same model) the second and
third generation objects and files coincide.  The objects are quantised (DESIGN §4.1): that the
floating-point unit conversion does not move a printed digit is the magnitude bound the harness keeps
(`mag ≤ 10^15 < 2^52/3`) and checks on the real code (bit-identical generations in the search).
-/
import Iodata.Lemmas.Fmt.Xyz
import Iodata.Lemmas.Fmt.Sdf
import Iodata.Lemmas.Fmt.Pdb
import Iodata.Lemmas.Fmt.PdbConect
import Iodata.Lemmas.Fmt.Fchk
import Iodata.Lemmas.Fmt.Cube
import Iodata.Lemmas.Fmt.Mol2
import Iodata.Lemmas.Fmt.Fcidump
import Iodata.Lemmas.Fmt.Poscar
import Iodata.Gen.Layouts

namespace Iodata.Props.C15
open Iodata.Chars Iodata.Decimal Iodata.Fmt Iodata.Gen.Layouts

/-! ## XYZ -/

/-- XYZ: what a reload returns is a fixed point of the normaliser and is again in the domain. -/
theorem xyz_norm_stable (T : Tables) (L : Xyz.Layout) (hL : Xyz.LayoutOK L) (o : Xyz.Obj) (h : Xyz.Dom T L o) :
    Xyz.norm L (Xyz.norm L o) = Xyz.norm L o ∧ Xyz.Dom T L (Xyz.norm L o) :=
  ⟨Xyz.norm_idem L hL o, Xyz.dom_norm T L hL o h⟩

/-- XYZ: generations.  With `o₁` the object reloaded after the first save: saving and reloading `o₁`
returns `o₁` itself, and the file written from that (third generation) equals the second one. -/
theorem xyz_generations (T : Tables) (L : Xyz.Layout) (hL : Xyz.LayoutOK L) (o o₁ : Xyz.Obj) (h : Xyz.Dom T L o)
    (h₁ : Xyz.load T L (Xyz.dump T L o) = .ok o₁) :
    Xyz.load T L (Xyz.dump T L o₁) = .ok o₁ ∧
    ∀ o₂, Xyz.load T L (Xyz.dump T L o₁) = .ok o₂ → Xyz.dump T L o₂ = Xyz.dump T L o₁ := by
  have e : o₁ = Xyz.norm L o := by
    have := Xyz.load_dump T L hL o h
    rw [this] at h₁; exact (Except.ok.inj h₁).symm
  have h2 := Xyz.load_dump T L hL o₁ (e ▸ Xyz.dom_norm T L hL o h)
  have hid : Xyz.norm L o₁ = o₁ := by rw [e]; exact Xyz.norm_idem L hL o
  rw [hid] at h2
  refine ⟨h2, ?_⟩
  intro o₂ h3
  rw [h2] at h3
  rw [← Except.ok.inj h3]

/-! ## SDF -/

/-- SDF: the reloaded object is a fixed point of the normaliser and stays in the domain. -/
theorem sdf_norm_stable (T : Tables) (L : Sdf.Layout) (hL : Sdf.LayoutOK L) (o : Sdf.Obj) (h : Sdf.Dom T L o) :
    Sdf.norm L (Sdf.norm L o) = Sdf.norm L o ∧ Sdf.Dom T L (Sdf.norm L o) :=
  ⟨Sdf.norm_idem L hL o, Sdf.dom_norm T L hL o h⟩

/-- SDF: generations 2 and 3 coincide, for every object the columns can hold. -/
theorem sdf_generations (T : Tables) (L : Sdf.Layout) (hL : Sdf.LayoutOK L) (o o₁ : Sdf.Obj) (h : Sdf.Dom T L o)
    (h₁ : Sdf.load T L (Sdf.dump T L o) = .ok o₁) :
    Sdf.load T L (Sdf.dump T L o₁) = .ok o₁ ∧
    ∀ o₂, Sdf.load T L (Sdf.dump T L o₁) = .ok o₂ → Sdf.dump T L o₂ = Sdf.dump T L o₁ := by
  have e : o₁ = Sdf.norm L o := by
    have := Sdf.load_dump T L hL o h
    rw [this] at h₁; exact (Except.ok.inj h₁).symm
  have h2 := Sdf.load_dump T L hL o₁ (e ▸ Sdf.dom_norm T L hL o h)
  have hid : Sdf.norm L o₁ = o₁ := by rw [e]; exact Sdf.norm_idem L hL o
  rw [hid] at h2
  refine ⟨h2, ?_⟩
  intro o₂ h3
  rw [h2] at h3
  rw [← Except.ok.inj h3]

/-! ## PDB -/

/-- PDB: the reloaded object (bonds de-duplicated and ordered by `normBonds`), saved again, reloads as itself:
`norm` is idempotent through `Loaded.obj` — in particular `normBonds` is a fixed point of bonds → CONECT records
→ bonds — and stays in the domain. -/
theorem pdb_norm_stable (T : Tables) (L : Pdb.Layout) (hL : Pdb.LayoutOK L) (o : Pdb.Obj) (h : Pdb.DomB T L o) :
    Pdb.norm L (Pdb.norm L o).obj = Pdb.norm L o ∧ Pdb.DomB T L (Pdb.norm L o).obj :=
  ⟨Pdb.norm_idem_bonds L hL o, Pdb.domB_norm T L hL o h⟩

/-- PDB: the de-duplicated bond list is unchanged by a further save/reload, for every bond list. -/
theorem pdb_bonds_stable (n : Nat) (bonds : List (Nat × Nat)) :
    Pdb.normBonds n (Pdb.normBonds n bonds) = Pdb.normBonds n bonds :=
  Pdb.normBonds_idem n bonds

/-- PDB: generations 2 and 3 coincide, objects with bonds included. -/
theorem pdb_generations (T : Tables) (L : Pdb.Layout) (hL : Pdb.LayoutOK L) (hC : Pdb.ConectOK L) (o : Pdb.Obj)
    (x₁ : Pdb.Loaded) (h : Pdb.DomB T L o) (h₁ : Pdb.load T L (Pdb.dump T L o) = .ok x₁) :
    Pdb.load T L (Pdb.dump T L x₁.obj) = .ok x₁ ∧
    ∀ x₂, Pdb.load T L (Pdb.dump T L x₁.obj) = .ok x₂ → Pdb.dump T L x₂.obj = Pdb.dump T L x₁.obj := by
  have e : x₁ = Pdb.norm L o := by
    have := Pdb.load_dump_bonds T L hL hC o h
    rw [this] at h₁; exact (Except.ok.inj h₁).symm
  have h2 := Pdb.load_dump_bonds T L hL hC x₁.obj (e ▸ Pdb.domB_norm T L hL o h)
  have hid : Pdb.norm L x₁.obj = x₁ := by rw [e]; exact Pdb.norm_idem_bonds L hL o
  rw [hid] at h2
  refine ⟨h2, ?_⟩
  intro x₂ h3
  rw [h2] at h3
  rw [← Except.ok.inj h3]

/-! ## FCHK, field layer -/

/-- FCHK: what a reload returns (empty arrays dropped, title defaulted, names lower-cased, run type mapped through both
tables) is a fixed point and stays in the domain. -/
theorem fchk_norm_stable (L : Fchk.Layout) (hL : Fchk.LayoutOK L) (R : Fchk.RunTypes) (hR : Fchk.RunTypesOK L R)
    (o : Fchk.Obj) (h : Fchk.Dom L o) :
    Fchk.norm L R (Fchk.norm L R o).obj = Fchk.norm L R o ∧ Fchk.Dom L (Fchk.norm L R o).obj :=
  ⟨Fchk.norm_idem L hL R hR o h, Fchk.dom_norm L hL R hR o h⟩

/-- FCHK: generations 2 and 3 coincide at the field layer. -/
theorem fchk_generations (L : Fchk.Layout) (hL : Fchk.LayoutOK L) (R : Fchk.RunTypes) (hR : Fchk.RunTypesOK L R)
    (o : Fchk.Obj) (x₁ : Fchk.Loaded) (h : Fchk.Dom L o)
    (h₁ : Fchk.load L.reader R (fun _ => true) (Fchk.dump L R o) = .ok x₁) :
    Fchk.load L.reader R (fun _ => true) (Fchk.dump L R x₁.obj) = .ok x₁ ∧
    ∀ x₂, Fchk.load L.reader R (fun _ => true) (Fchk.dump L R x₁.obj) = .ok x₂ → Fchk.dump L R x₂.obj = Fchk.dump L R x₁.obj := by
  have e : x₁ = Fchk.norm L R o := by
    have := Fchk.load_dump L hL R hR (fun _ => true) o h (fun _ _ => rfl)
    rw [this] at h₁; exact (Except.ok.inj h₁).symm
  have h2 := Fchk.load_dump L hL R hR (fun _ => true) x₁.obj (e ▸ Fchk.dom_norm L hL R hR o h) (fun _ _ => rfl)
  have hid : Fchk.norm L R x₁.obj = x₁ := by rw [e]; exact Fchk.norm_idem L hL R hR o h
  rw [hid] at h2
  refine ⟨h2, ?_⟩
  intro x₂ h3
  rw [h2] at h3
  rw [← Except.ok.inj h3]

/-! ## Cube -/

/-- Cube: the reloaded object is a fixed point (the zero-core-charge replacement happens once) and stays in the domain. -/
theorem cube_norm_stable (L : Cube.Layout) (hL : Cube.LayoutOK L) (o : Cube.Obj) (h : Cube.Dom L o) :
    Cube.norm L (Cube.norm L o) = Cube.norm L o ∧ Cube.Dom L (Cube.norm L o) :=
  ⟨Cube.norm_idem L hL o, Cube.dom_norm L hL o h⟩

/-- Cube: generations 2 and 3 coincide. -/
theorem cube_generations (L : Cube.Layout) (hL : Cube.LayoutOK L) (o o₁ : Cube.Obj) (h : Cube.Dom L o)
    (h₁ : Cube.load L (Cube.dump L o) = .ok o₁) :
    Cube.load L (Cube.dump L o₁) = .ok o₁ ∧
    ∀ o₂, Cube.load L (Cube.dump L o₁) = .ok o₂ → Cube.dump L o₂ = Cube.dump L o₁ := by
  have e : o₁ = Cube.norm L o := by
    have := Cube.load_dump L hL o h
    rw [this] at h₁; exact (Except.ok.inj h₁).symm
  have h2 := Cube.load_dump L hL o₁ (e ▸ Cube.dom_norm L hL o h)
  have hid : Cube.norm L o₁ = o₁ := by rw [e]; exact Cube.norm_idem L hL o
  rw [hid] at h2
  refine ⟨h2, ?_⟩
  intro o₂ h3
  rw [h2] at h3
  rw [← Except.ok.inj h3]

/-! ## MOL2 -/

/-- MOL2: the reloaded object (types and charges filled in, unknown bond types mapped to `un`) is a fixed point and stays
in the domain. -/
theorem mol2_norm_stable (T : Tables) (L : Mol2.Layout) (hL : Mol2.LayoutOK T L) (o : Mol2.Obj) (h : Mol2.Dom T L o) :
    Mol2.norm T L (Mol2.norm T L o).obj = Mol2.norm T L o ∧ Mol2.Dom T L (Mol2.norm T L o).obj :=
  ⟨Mol2.norm_idem T L hL o, Mol2.dom_norm T L hL o h⟩

/-- MOL2: generations 2 and 3 coincide. -/
theorem mol2_generations (T : Tables) (L : Mol2.Layout) (hL : Mol2.LayoutOK T L) (o : Mol2.Obj) (x₁ : Mol2.Loaded)
    (h : Mol2.Dom T L o) (h₁ : Mol2.load T L (Mol2.dump T L o) = .ok x₁) :
    Mol2.load T L (Mol2.dump T L x₁.obj) = .ok x₁ ∧
    ∀ x₂, Mol2.load T L (Mol2.dump T L x₁.obj) = .ok x₂ → Mol2.dump T L x₂.obj = Mol2.dump T L x₁.obj := by
  have e : x₁ = Mol2.norm T L o := by
    have := Mol2.load_dump T L hL o h
    rw [this] at h₁; exact (Except.ok.inj h₁).symm
  have h2 := Mol2.load_dump T L hL x₁.obj (e ▸ Mol2.dom_norm T L hL o h)
  have hid : Mol2.norm T L x₁.obj = x₁ := by rw [e]; exact Mol2.norm_idem T L hL o
  rw [hid] at h2
  refine ⟨h2, ?_⟩
  intro x₂ h3
  rw [h2] at h3
  rw [← Except.ok.inj h3]

/-! ## FCIDUMP, index layer -/

/-- FCIDUMP: the array reloaded from the file writes the same index lines again (second generation = first). -/
theorem fcidump_entries_stable (α : Type) [DecidableEq α] (zero : α) (n : Nat) (T : Helpers.Idx → α) (h : Fcidump.Sym T) :
    Fcidump.entries zero n (Fcidump.fill zero (Fcidump.entries zero n T)) = Fcidump.entries zero n T :=
  Fcidump.entries_fill zero n T h

/-! ## POSCAR, structure layer -/

/-- POSCAR: a grouped atom list is written in the same order again: the re-ordering happens once (the remaining drift of
the real code is floating-point round-off of the direct coordinates: known finding `poscar:*drift*`). -/
theorem poscar_group_stable (α : Type) (key : α → Nat) (atoms : List α) :
    Poscar.group key (Poscar.group key atoms) = Poscar.group key atoms :=
  Poscar.group_idem key atoms

end Iodata.Props.C15
