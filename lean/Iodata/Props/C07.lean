/-
C07 — loading ends in a valid object or a LoadError, nothing else (the API funnel part).

Property theorems only.  Model: `Iodata/Model/Flow.lean` (the same `exec` the driver runs for the `flow`
correspondence stream), reference terms and lemmas in `Iodata/Lemmas/Flow.lean`, `FlowLoad.lean`; the terms
extracted from `iodata/api.py` on every run (`Gen/ApiFlow.lean`) are tied to the reference terms below.

The theorems quantify over ALL behaviours of the format's parser: any sequence of `next(lit)` / `lit.back()`
calls (including reading past the end of the file), returning or raising any class at any point, any number
of frames of a `load_many` generator, any way it ends, PEP 479 inside it, any outcome of `IOData(**dict)`,
and over every consumption pattern of the user (exhaust, or take `k` frames and discard).

Not covered here (see the evidence file): termination and outcome classes of the individual format parsers
on arbitrary file contents — that part is direct search on mutated corpus files (exploration, not proof).
-/
import Iodata.Lemmas.FlowLoad
import Iodata.Gen.ApiFlow

namespace Iodata.Props.C07
open Iodata.Flow Iodata.Flow.Ref

/-- api.py `load_one` has the transcribed shape. -/
theorem flow_matches_load_one : Gen.ApiFlow.loadOne = Ref.loadOne := by decide
/-- api.py `load_many` has the transcribed shape. -/
theorem flow_matches_load_many : Gen.ApiFlow.loadMany = Ref.loadMany := by decide

/-- **LineIterator lemma** (utils.py:69-114).  After any sequence of `next` / `back` calls — including a
`next` that runs into the end of the file, which still increments the counter before `StopIteration`
leaves — `lineno = #next − #back`. -/
theorem lineiterator_lineno (ops : List Bool) (nlines : Nat) :
    (runOps ops { nlines := nlines } []).2.1.lineno = lineCount (runOps ops { nlines := nlines } []).2.2 :=
  (runOps_spec ops { nlines := nlines } [] (by simp [lineCount])).1

/-- **load_one_funnel.**  After a successful format selection and `open`, whatever the parser and the
`IOData` constructor do: `load_one` returns an object or raises `LoadError` (or lets a non-`Exception`
such as KeyboardInterrupt through); a `LoadError` made by the funnel carries `lineno = #next − #back`
(one raised by the parser itself is passed on unchanged: `ln = none` here); the file system is unchanged; the
file was opened once and the last event is its `close`. -/
theorem load_one_funnel (b : Beh) (path : Nat) (fs : FS) (hs : b.select = none) (ho : b.openFail = none) :
    ∃ o st', runLoadOne loadOne b path fs = (o, st') ∧ st'.fs = fs ∧
      (∃ evs, st'.trace = .close :: (evs ++ [.openR]) ∧ LoadEvs evs) ∧
      (o = .ret ∨ (∃ ln, o = .raised .load ln ∧ (ln = none ∨ ln = some (lineCount st'.trace)))
        ∨ (∃ e, o = .raised e none ∧ e.isException = false)) := by
  obtain ⟨o, st', h1, h2, h3, h4, h5⟩ := load_one_master b path fs hs ho
  refine ⟨o, st', h1, h2, h3, ?_⟩
  rcases h4 with h | h | h | h
  · exact absurd h h5
  · exact Or.inl h
  · exact Or.inr (Or.inl h)
  · exact Or.inr (Or.inr h)

/-- when no format can be selected the selection error (C17: `FileFormatError`) is the outcome and the file
is never opened. -/
theorem load_one_select (b : Beh) (path : Nat) (fs : FS) (e : Exc) (hs : b.select = some e) :
    (runLoadOne loadOne b path fs).1 = .raised e none ∧ (runLoadOne loadOne b path fs).2.trace = [] := by
  have : runLoadOne loadOne b path fs = (.raised e none, { fs := fs, lit := { nlines := b.nlines } }) := by
    unfold runLoadOne loadOne; rw [exec_seq]; simp [exec, execCall, raiseB, hs]
  rw [this]; exact ⟨rfl, rfl⟩

/-- **load_many_funnel.**  Once the generator has been started: every way the iteration can end — the
format generator is exhausted, raises (any class, `StopIteration` turned into `RuntimeError` by PEP 479
inside a generator), the constructor raises for some frame, or the user discards the generator after `k`
frames — ends normally or with `LoadError` (or a non-`Exception`), with the file closed as the last event.
By induction over the frames. -/
theorem load_many_funnel (b : Beh) (path : Nat) (fs : FS) (hs : b.select = none) (ho : b.openFail = none)
    (hq : b.quota ≠ some 0) :
    ∃ o st', runLoadMany loadMany b path fs = (o, st') ∧ st'.fs = fs ∧
      (∃ evs, st'.trace = .close :: (evs ++ [.openR]) ∧ LoadEvs evs) ∧
      (o = .normal ∨ o = .ret ∨ (∃ ln, o = .raised .load ln ∧ (ln = none ∨ ln = some (lineCount st'.trace)))
        ∨ (∃ e, o = .raised e none ∧ e.isException = false)) :=
  load_many_master b path fs hs ho hq

/-- a `load_many` generator that is created and discarded without being started opens nothing. -/
theorem load_many_unstarted (b : Beh) (path : Nat) (fs : FS) (hq : b.quota = some 0) :
    (runLoadMany loadMany b path fs).1 = .normal ∧ (runLoadMany loadMany b path fs).2.trace = [] := by
  unfold runLoadMany; simp [hq]

/-- selection failure of `load_many` surfaces at the first `next()`; nothing is opened. -/
theorem load_many_select (b : Beh) (path : Nat) (fs : FS) (hs : b.select = some .fileFormat)
    (hq : b.quota ≠ some 0) :
    (runLoadMany loadMany b path fs).1 = .raised .fileFormat none ∧ (runLoadMany loadMany b path fs).2.trace = [] := by
  have : exec { b := b, path := path } loadMany { fs := fs, lit := { nlines := b.nlines } }
      = (.raised .fileFormat none, { fs := fs, lit := { nlines := b.nlines } }) := by
    unfold loadMany; rw [exec_seq]; simp [exec, execCall, raiseB, hs]
  unfold runLoadMany; simp only [hq, if_false]; rw [this]; exact ⟨rfl, rfl⟩

/-! ### non-vacuity: concrete behaviours evaluated by the kernel on the generated terms -/

/-- the parser reads 2 lines, pushes one back, reads again and raises `ValueError`: `LoadError` at line 2. -/
example :
    let r := runLoadOne Gen.ApiFlow.loadOne { nlines := 3, items := [{ ops := [true, true, false, true], res := some .other }] } 0 (fun _ => none)
    r.1 = .raised .load (some 2) ∧ r.2.trace = [.close, .next, .back, .next, .next, .openR] := by decide

/-- reading past the end of a 1-line file: "File ended before all data was read" with lineno 2. -/
example :
    let r := runLoadOne Gen.ApiFlow.loadOne { nlines := 1, items := [{ ops := [true, true] }] } 0 (fun _ => none)
    r.1 = .raised .load (some 2) ∧ r.2.trace.head? = some .close := by decide

/-- the user takes one of three frames and discards the generator: closed. -/
example :
    let r := runLoadMany Gen.ApiFlow.loadMany
      { nlines := 9, items := [{ ops := [true] }, { ops := [true] }, { ops := [true] }], quota := some 1 } 0 (fun _ => none)
    r.1 = .normal ∧ r.2.trace = [.close, .yield, .ctor, .next, .openR] := by decide

/-- a format generator that runs off the end of the file: PEP 479 `RuntimeError` ⇒ `LoadError`. -/
example :
    let r := runLoadMany Gen.ApiFlow.loadMany { nlines := 1, items := [{ ops := [true] }, { ops := [true] }] } 0 (fun _ => none)
    r.1 = .raised .load (some 2) ∧ r.2.trace.head? = some .close := by decide

end Iodata.Props.C07
