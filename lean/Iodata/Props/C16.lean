/-
C16 — results depend only on the arguments, not on call history or interleaving.

Proof part: (1) the effect summary regenerated from /repo's source on every run contains no
store / in-place operation / mutating call rooted at a module-level table; (2) for every history
(any permutation, repetition or thread interleaving of atomic calls) of read-only calls, the
shared state never changes and each call returns exactly what it returns when run alone from the
initial state.
-/
import Iodata.Model.Effects
import Iodata.Gen.Effects

namespace Iodata.Props.C16
open Iodata.Effects

/-- Reviewed global-rooted sites that are not modifications of a module-level table:
* `shell.kinds[0] = "p"` in `molden._load_low`: `shell` iterates over `obasis.shells`, the list of fresh
  `Shell` objects built by `_load_helper_obasis`; the analysis marks every member of the new
  `MolecularBasis(shells, CONVENTIONS, …)` object as possibly aliasing the module table because one
  constructor argument is that table (only `.conventions` does).
* `np.seterr(...)` in `iodata.__main__.main`: `main` is the entry point of the `iodata-convert` process (it parses
  `sys.argv` and is the whole life of that interpreter), not an API call that later calls could follow; the same
  statement in `convert()` or in any format module is *not* allowed (it would leak into the caller's process). -/
def allowed : List (String × String × String × String) :=
  [ ("iodata.formats.molden", "_load_low", "store-subscript", "shell.kinds[0]"),
    ("iodata.__main__", "main", "process-global:seterr", "np.seterr") ]

/-- 1. No function of the package stores into, mutates in place, or calls a mutating method on a
module-level table (periodic table, bond types, convention dictionaries, registries, constants), a function
or class object, a shared default-argument object; none is memoised (`lru_cache` / `cache`); none sets
interpreter- or library-wide state (numpy error mode and print options, warning filters outside a
`catch_warnings` block, working directory, environment, locale, recursion limit, RNG seeds, `sys.path`). -/
theorem no_global_effects :
    (Iodata.Gen.Effects.sites.filter (fun s => s.root == .glob)).all (fun s => allowed.contains s.key) = true := by
  decide +kernel

/-- 2. History independence: in any history of read-only calls the shared state is unchanged and
every call's result equals its result on the initial state (i.e. run alone in a fresh interpreter). -/
theorem history_independent {σ ρ : Type} (hist : List (Nat × Call σ ρ))
    (hro : ∀ tc ∈ hist, ReadOnly tc.2) (s : σ) :
    runHistory hist s = (s, hist.map (fun tc => (tc.1, (tc.2 s).2))) := by
  induction hist with
  | nil => rfl
  | cons tc rest ih =>
    obtain ⟨t, c⟩ := tc
    have hc : ReadOnly c := hro (t, c) List.mem_cons_self
    have hrest : ∀ tc ∈ rest, ReadOnly tc.2 := fun tc hm => hro tc (List.mem_cons_of_mem _ hm)
    have e : (c s).1 = s := hc s
    simp only [runHistory, List.map_cons]
    rw [e, ih hrest]

/-- 2b. Consequently two histories that contain the same tagged calls in different orders give
each call the same result (order, repetition and interleaving are irrelevant). -/
theorem order_irrelevant {σ ρ : Type} (h1 h2 : List (Nat × Call σ ρ))
    (hro1 : ∀ tc ∈ h1, ReadOnly tc.2) (hro2 : ∀ tc ∈ h2, ReadOnly tc.2) (s : σ)
    (t : Nat) (c : Call σ ρ) (_m1 : (t, c) ∈ h1) (_m2 : (t, c) ∈ h2) :
    (t, (c s).2) ∈ (runHistory h1 s).2 ∧ (t, (c s).2) ∈ (runHistory h2 s).2 := by
  rw [history_independent h1 hro1, history_independent h2 hro2]
  exact ⟨List.mem_map.mpr ⟨(t, c), _m1, rfl⟩, List.mem_map.mpr ⟨(t, c), _m2, rfl⟩⟩

/-- 3. The hypothesis is needed: one writing call changes what a later call returns (the shape of
the former `num2sym.update({0: 'Bq'})` defect: after a WFX dump, element 0 was known). -/
theorem writer_breaks_independence :
    let wfxDump : Call (List Nat) Bool := fun tbl => (0 :: tbl, true)
    let knows0 : Call (List Nat) Bool := fun tbl => (tbl, tbl.contains 0)
    (runHistory [(0, knows0)] []).2 ≠ ((runHistory [(1, wfxDump), (0, knows0)] []).2.filter (·.1 == 0)) := by
  decide

end Iodata.Props.C16
