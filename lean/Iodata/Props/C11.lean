/-
C11 — charge, electron count and core charges stay consistent under any assignment history.

Property theorems only (helpers: `Iodata/Lemmas/IOData.lean`).  The model
(`Iodata/Model/IOData.lean`) is tied to `iodata/iodata.py` by the correspondence stream `iod`
(same operation sequences on the real `IOData` object and on `step`, all observables compared
after every operation) and by `Iodata/Gen/IODataFields.lean` (names/orders read from the source).

All history statements quantify over ARBITRARY operation lists (`Reachable s`), proved by
induction through the invariant `Inv` (`inv_init`, `inv_step`, `inv_run`).
-/
import Iodata.Lemmas.IOData
import Iodata.Gen.IODataFields

set_option linter.unusedSimpArgs false

namespace Iodata.Props.C11
open Iodata.IOD

/-- reads (the `atcorenums` and `charge` getters may write) -/
def isRead : Op → Bool
  | .getCore | .getCharge | .getNelec | .getSpinpol | .getNatom => true
  | _ => false

/-- 0. The invariant holds after every history: once core charges are stored the hidden `_charge`
is not, and all per-atom arrays that are set have the same length. -/
theorem invariant_all_histories (ops : List Op) : Inv (run init ops) :=
  inv_run ops inv_init

/-- 1. Whenever core charges and electron count are both known, the charge is their difference
(all three read independently from the same reachable state). -/
theorem charge_spec {s : St} (_h : Reachable s) {ac : List Rat} {ne : Rat}
    (hc : (getCore s).1 = some ac) (hn : getNelec s = some ne) :
    (getCharge s).1 = some (sum ac - ne) := by
  have hn' := getCore_nelec_some hn
  unfold getCharge
  rcases hg : getCore s with ⟨ac', s1, _ | e⟩
  · rw [hg] at hc hn'; simp only at hc hn' ⊢
    rw [hc, hn']
  · rcases getCore_cases s with ⟨h', _⟩ | ⟨z, _, _, ⟨_, h'⟩ | ⟨e', _, h'⟩⟩
    · rw [h'] at hg; simp at hg
    · rw [h'] at hg; simp at hg
    · rw [h'] at hc; simp at hc

/-- 1b. The same when the electron count only becomes known through the lazy default of the core
charges (read `atcorenums`, then `nelec`, then `charge` on the same object). -/
theorem charge_spec_threaded {s : St} (_h : Reachable s) {ac : List Rat} {ne : Rat}
    (hc : (getCore s).1 = some ac) (hn : getNelec (getCore s).2.1 = some ne) :
    (getCharge s).1 = some (sum ac - ne) := by
  unfold getCharge
  rcases hg : getCore s with ⟨ac', s1, _ | e⟩
  · rw [hg] at hc hn; simp only at hc hn ⊢
    rw [hc, hn]
  · rcases getCore_cases s with ⟨h', _⟩ | ⟨z, _, _, ⟨_, h'⟩ | ⟨e', _, h'⟩⟩
    · rw [h'] at hg; simp at hg
    · rw [h'] at hg; simp at hg
    · rw [h'] at hc; simp at hc

/-- 2a. A successful assignment of the charge reads back exactly (ℚ; "to rounding" in doubles). -/
theorem set_charge_reads_back {s : St} (h : Reachable s) (c : Option Rat)
    (hok : (step s (.setCharge c)).2.1 = none) :
    (getCharge (step s (.setCharge c)).1).1 = c := by
  have hinv := inv_reachable h
  simp only [step] at hok ⊢
  rcases setCharge_cases s c with ⟨he, hs⟩ | ⟨he, hv, hs⟩ | ⟨a, he, hv, hs⟩
  · rw [hs] at hok; exact absurd hok he
  · -- no core charges available: `_charge` is stored
    rw [hs]; simp only
    have hst := getCore_val_state s he
    rw [hv] at hst
    -- the getter was pure: atnums is none
    have hz : (getCore s).2.1.atnums = none := by
      rcases getCore_cases s with ⟨h', hc⟩ | ⟨z, _, _, ⟨hok', h'⟩ | ⟨e', _, h'⟩⟩
      · rw [h'] at hv ⊢; simp only at hv ⊢
        rcases hc with hc | hc
        · exact absurd hv hc
        · exact hc
      · rw [h'] at hv; simp only at hv; rw [setCore_some_ok hok'] at hv; cases hv
      · rw [h'] at he; simp at he
    generalize (getCore s).2.1 = s1 at hst hz ⊢
    simp [getCharge, getCore, hst, hz]
  · rw [hs] at hok ⊢
    have hst := getCore_val_state s he
    rw [hv] at hst
    have hi1 : I1 (getCore s).2.1 := i1_getCore hinv.1
    generalize (getCore s).2.1 = s1 at *
    unfold setNelec at hok ⊢
    cases hm : s1.mo with
    | some m => rw [hm] at hok; simp at hok
    | none =>
      simp only
      cases c with
      | none =>
        have : s1.charge = none := hi1 (by rw [hst]; simp)
        simp [getCharge, getCore, hst, getNelec, hm, this]
      | some c =>
        simp [getCharge, getCore, hst, getNelec, hm]
        grind

/-- 2b. … of the electron count (in any state). -/
theorem set_nelec_reads_back (s : St) (v : Option Rat) (hok : (step s (.setNelec v)).2.1 = none) :
    getNelec (step s (.setNelec v)).1 = v := by
  simp only [step, setNelec] at hok ⊢
  cases hm : s.mo with
  | some m => rw [hm] at hok; simp at hok
  | none => simp [getNelec, hm]

/-- 2c. … of the spin polarisation. -/
theorem set_spinpol_reads_back (s : St) (v : Option Rat) (hok : (step s (.setSpinpol v)).2.1 = none) :
    getSpinpol (step s (.setSpinpol v)).1 = v := by
  simp only [step, setSpinpol] at hok ⊢
  cases hm : s.mo with
  | some m => rw [hm] at hok; simp at hok
  | none => simp [getSpinpol, hm]

/-- 3. Assigning charge, electron count or spin polarisation (successfully or not) never changes
what `atcorenums` reads. -/
theorem set_preserves_core (s : St) (op : Op)
    (hop : (∃ c, op = .setCharge c) ∨ (∃ v, op = .setNelec v) ∨ (∃ v, op = .setSpinpol v)) :
    (getCore (step s op).1).1 = (getCore s).1 := by
  rcases hop with ⟨c, rfl⟩ | ⟨v, rfl⟩ | ⟨v, rfl⟩
  · simp only [step]
    have hfix : (getCore (getCore s).2.1).1 = (getCore s).1 := by
      rcases getCore_getCore s with h | h <;> rw [h]
    rcases setCharge_cases s c with ⟨he, hs⟩ | ⟨he, hv, hs⟩ | ⟨a, he, hv, hs⟩ <;> rw [hs]
    · exact hfix
    · rw [← hfix]; exact getCore_val_congr rfl rfl (fun g => by cases g <;> rfl)
    · rw [← hfix]
      unfold setNelec; split
      · exact getCore_val_congr rfl rfl (fun g => by cases g <;> rfl)
      · rfl
  · simp only [step, setNelec]; split
    · exact getCore_val_congr rfl rfl (fun g => by cases g <;> rfl)
    · rfl
  · simp only [step, setSpinpol]; split
    · exact getCore_val_congr rfl rfl (fun g => by cases g <;> rfl)
    · rfl

/-- 4. With orbitals present, electron count and spin polarisation are those of the orbitals, and
assigning either raises `TypeError` and changes nothing. -/
theorem mo_rules (s : St) (m : Mo) (hm : s.mo = some m) (v : Option Rat) :
    getNelec s = m.nelec ∧ getSpinpol s = m.spinpol ∧
    step s (.setNelec v) = (s, some .typeError, .unit) ∧
    step s (.setSpinpol v) = (s, some .typeError, .unit) := by
  simp [getNelec, getSpinpol, step, setNelec, setSpinpol, hm]

/-- 5. All per-atom arrays agree on the number of atoms, and `natom` is that number. -/
theorem natom_agree {s : St} (h : Reachable s) (f : Fld) (n : Nat) (hl : lenOf s f = some n) :
    natom s = some n ∧ ∀ g m, lenOf s g = some m → m = n :=
  ⟨natom_eq_of_agree (inv_reachable h).2 hl, fun g m hg => (inv_reachable h).2 g f m n hg hl⟩

/-- 5b. … so the order of the `if/elif` chain in `natom` is irrelevant in reachable states. -/
theorem natom_order_irrelevant {s : St} (h : Reachable s) (order : List Fld)
    (hall : ∀ f, f ∈ order) : natomBy order s = natom s :=
  natomBy_congr (inv_reachable h).2 (fun f => ⟨fun _ => mem_natomOrder f, fun _ => hall f⟩)

/-- 5c. An assignment that would break the agreement raises `TypeError`. -/
theorem mismatch_rejected (s : St) (k : Nat) (hn : natom s = some k) (a : List Rat) (z : List Int) (f : Fld) :
    (a.length ≠ k → (step s (.setArr f (some a))).2.1 = some .typeError ∧
                    (step s (.setCore (some a))).2.1 = some .typeError) ∧
    (z.length ≠ k → (step s (.setAtnums (some z))).2.1 = some .typeError) := by
  constructor
  · intro h
    have : shapeOk s a.length = false := by simp [shapeOk, hn]; exact fun e => h e.symm
    simp [step, setArr, setCore, this]
  · intro h
    have : shapeOk s z.length = false := by simp [shapeOk, hn]; exact fun e => h e.symm
    simp [step, setAtnums, this]

/-- 6. Reading any property is idempotent: the second read returns the same value, the same
(absent) exception and leaves the state where the first read left it. -/
theorem read_idempotent (s : St) (r : Op) (hr : isRead r = true) :
    step (step s r).1 r = ((step s r).1, (step s r).2) := by
  cases r <;> simp [isRead] at hr
  · simp only [step]; rw [getCore_fix]
  · simp only [step]; rw [getCharge_fix]
  · rfl
  · rfl
  · rfl

/-- 6b. In reachable states no getter raises. -/
theorem reads_never_raise {s : St} (h : Reachable s) (r : Op) (_hr : isRead r = true) :
    (step s r).2.1 = none := by
  have ha := (inv_reachable h).2
  cases r <;> simp [isRead] at _hr <;> simp only [step]
  · exact getCore_ok ha
  · rw [getCharge_err]; exact getCore_ok ha

/-- 7. An assignment (or construction) that raises leaves EVERY observable unchanged
(code as of the `fix:` commit 3383fe5; before it, `failed_set_is_noop` was false at
`IOData(charge=1); atcoords=zeros((2,3)); atcorenums=ones(3)`). -/
theorem failed_set_is_noop {s : St} (h : Reachable s) (op : Op) (hfail : (step s op).2.1 ≠ none) :
    obs (step s op).1 = obs s := by
  have ha := (inv_reachable h).2
  cases op with
  | construct a =>
    simp only [step] at hfail ⊢
    cases hc : construct a with
    | ok s' => rw [hc] at hfail; simp at hfail
    | error e => rfl
  | setArr f v =>
    simp only [step, setArr] at hfail ⊢
    cases v with
    | none => simp at hfail
    | some a => simp only at hfail ⊢; split
                · rename_i hs; simp [hs] at hfail
                · rfl
  | setAtnums v =>
    simp only [step, setAtnums] at hfail ⊢
    cases v with
    | none => simp at hfail
    | some a => simp only at hfail ⊢; split
                · rename_i hs; simp [hs] at hfail
                · rfl
  | setCore v =>
    simp only [step] at hfail ⊢
    cases v with
    | none => simp [setCore] at hfail
    | some a =>
      cases he : (setCore s (some a)).2 with
      | none => exact absurd he hfail
      | some e => rw [setCore_some_err he]
  | setCharge c =>
    simp only [step] at hfail ⊢
    rcases setCharge_cases s c with ⟨he, _⟩ | ⟨_, _, hs⟩ | ⟨a, _, _, hs⟩
    · exact absurd (getCore_ok ha) he
    · rw [hs] at hfail; simp at hfail
    · rw [hs] at hfail ⊢
      unfold setNelec at hfail ⊢
      cases hm : (getCore s).2.1.mo with
      | none => rw [hm] at hfail; simp at hfail
      | some m =>
        simp only
        apply obs_getCore ha
        have hmo := getCore_mo s
        simp [getNelec, hm, ← hmo]
  | setNelec v =>
    simp only [step, setNelec] at hfail ⊢
    split
    · rename_i hm; simp [hm] at hfail
    · rfl
  | setSpinpol v =>
    simp only [step, setSpinpol] at hfail ⊢
    split
    · rename_i hm; simp [hm] at hfail
    · rfl
  | setMo m => simp [step] at hfail
  | getCore => exact absurd (reads_never_raise h .getCore rfl) hfail
  | getCharge => exact absurd (reads_never_raise h .getCharge rfl) hfail
  | getNelec => rfl
  | getSpinpol => rfl
  | getNatom => rfl

/-- 7b. The only exception class of the model is `TypeError`, raised exactly by the shape
validators and by the `nelec`/`spinpol` setters with orbitals present; in particular a raising
`charge` assignment is the `nelec` refusal (orbitals present and core charges known). -/
theorem failed_setCharge_iff {s : St} (h : Reachable s) (c : Option Rat) :
    (step s (.setCharge c)).2.1 ≠ none ↔ (s.mo ≠ none ∧ (getCore s).1 ≠ none) := by
  have ha := (inv_reachable h).2
  simp only [step]
  rcases setCharge_cases s c with ⟨he, _⟩ | ⟨_, hv, hs⟩ | ⟨a, _, hv, hs⟩
  · exact absurd (getCore_ok ha) he
  · rw [hs]; simp [hv]
  · rw [hs, hv]; unfold setNelec
    rw [getCore_mo]
    cases s.mo <;> simp


/-! ### the default of the core charges -/

/-
Full statement (FALSE of the code, see `core_default_violated`):
  for every history `ops` without an explicit core-charge assignment (`notExplicit`),
  `atcorenums` reads as `atnums.astype(float)` (or `None` when `atnums is None`).
The lazy default is materialised in `_atcorenums` by the first read of `atcorenums`/`charge`
(or by assigning `charge`); a later `atnums = …` leaves the stale copy behind.
-/

/-- 8. Core charges default to the atomic numbers — proved for all histories in which `atnums`
is not re-assigned on an existing object (and no explicit core charges are given). -/
theorem core_default_partial (ops : List Op) (hops : ∀ op ∈ ops, usesDefault op = true) :
    (getCore (run init ops)).1 = (run init ops).atnums.map toFloat :=
  coreDef_read (inv_run ops inv_init).2 (coreDef_run ops hops (Or.inl rfl))

/-- 8b. The full statement fails: read the default, then assign other atomic numbers.
Replayed on the real code: `d = IOData(atnums=[1,1]); d.atcorenums; d.atnums = [8,1]` gives
`d.atcorenums == [1., 1.]`. -/
theorem core_default_violated :
    ∃ ops : List Op, (∀ op ∈ ops, notExplicit op = true) ∧
      (getCore (run init ops)).1 ≠ (run init ops).atnums.map toFloat :=
  ⟨[.setAtnums (some [1, 1]), .getCore, .setAtnums (some [8, 1])], by decide +kernel, by decide +kernel⟩

/-! ### tie to the names and orders found in the source (regenerated each run) -/

/-- the `if/elif` chain of `natom` consults exactly the per-atom fields of the model
(its order is irrelevant by `natom_order_irrelevant`) -/
theorem gen_natom_chain :
    Iodata.Gen.IODataFields.natomChain.isPerm (natomOrder.map Fld.name) = true := by decide +kernel

/-- exactly these fields carry a `validate_shape("natom", …)` validator -/
theorem gen_shape_validated :
    (Iodata.Gen.IODataFields.shapeValidated.map Prod.fst).isPerm (validatorOrder.map Fld.name) = true := by
  decide +kernel

/-- `__attrs_post_init__` replays these setters in this order -/
theorem gen_post_init : Iodata.Gen.IODataFields.postInitReplay = postInitOrder := by decide +kernel

/-- `_charge`, `_nelec`, `_spinpol`, `mo` have neither validator nor converter, and exactly
`atcorenums, charge, nelec, spinpol` have property setters -/
theorem gen_plain_fields :
    Iodata.Gen.IODataFields.plainFields.isPerm plainFields = true ∧
    Iodata.Gen.IODataFields.propertySetters.isPerm (postInitOrder.map Prod.snd) = true := by decide +kernel

/-! ### non-vacuity -/

/-- reachable states with core charges, electron count and a non-zero charge exist -/
example : ∃ s, Reachable s ∧ (getCore s).1 = some [1, 1] ∧ getNelec s = some 1 ∧ (getCharge s).1 = some 1 :=
  ⟨_, ⟨[.construct { atnums := some [1, 1], charge := some 1 }], rfl⟩, by decide +kernel, by decide +kernel, by decide +kernel⟩

/-- rejected assignments exist in reachable states (wrong length; electron count with orbitals) -/
example : (step (run init [.setArr .atcoords (some [0, 0])]) (.setCore (some [1, 1, 1]))).2.1 = some .typeError := by
  decide +kernel
example : (step (run init [.setMo (some ⟨some 4, some 0⟩), .setAtnums (some [1, 1])]) (.setCharge (some 1))).2.1
    = some .typeError := by decide +kernel

/-- the witness of the defect repaired by the `fix:` commit is now a no-op -/
example :
    let s := run init [.construct { charge := some 1 }, .setArr .atcoords (some [0, 0])]
    obs (step s (.setCore (some [1, 1, 1]))).1 = obs s := by decide +kernel

/-- reads interfere with OTHER observables (allowed by the property, recorded here): reading the
charge materialises the default core charges and thereby makes the electron count known. -/
example :
    let s := run init [.construct { charge := some 1 }, .setAtnums (some [1, 1])]
    getNelec s = none ∧ getNelec (step s .getCharge).1 = some 1 := by decide +kernel

/-- recorded observation (used by C08/C09/C14, outside C11's statement): `attrs.evolve(data, …)`, as
called by `prepare_*`, replays `__init__`; with a stale hidden `_nelec` and orbitals present the
replay raises `TypeError`.  Replayed on the real code: `d = IOData(nelec=5.0); d.mo = mo;
prepare_segmented(d, False, True, …)` raises `TypeError` instead of converting. -/
example :
    let s := run init [.setNelec (some 5), .setMo (some ⟨some 3, some 1⟩)]
    s.nelec = some 5 ∧ (match construct s with | .error .typeError => true | .ok _ => false) = true := by
  decide +kernel

end Iodata.Props.C11
