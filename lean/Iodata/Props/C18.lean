/-
C18 — the command-line converter does exactly what the API does.

Property theorems only.  `convert` and `main` of `iodata/__main__.py` are extracted into the flow IR on every
run (`Gen/ApiFlow.lean`: `convert`, `main`, `signatures`, `argparseTable`, `cliImports`, `cliRebound`); the
model of argument binding / argparse / evaluation is `Iodata/Model/Cli.lean` (the same functions the driver
runs for the `cli` correspondence stream).  What the API calls then do is C07/C08.

Modelled, not proved: numpy's floating-point traps (`np.seterr(... "raise")`) only turn computations that
would have produced inf/nan silently into exceptions.  That such an exception always reaches `main`'s caller
(⇒ non-zero exit; so exit 0 ⇒ no trap fired ⇒ the API's code path and bytes) is `fp_traps_never_swallowed` over
the handler table regenerated from every module of the package (`Gen/Handlers.lean`).
-/
import Iodata.Model.Cli
import Iodata.Props.C08
import Iodata.Gen.ApiFlow
import Iodata.Gen.Handlers

namespace Iodata.Props.C18
open Iodata.Flow Iodata.Cli Iodata.Gen

/-- hand transcription of `convert` -/
def refConvert : Stmt :=
  .ifVar "many"
    (.seq (.call (.api "load_many") ["infn", "fmt=infmt"] "")
      (.call (.api "dump_many") ["load_many(infn, fmt=infmt)", "outfn", "allow_changes=allow_changes", "fmt=outfmt"] ""))
    (.seq (.call (.api "load_one") ["infn", "fmt=infmt"] "")
      (.call (.api "dump_one") ["load_one(infn, fmt=infmt)", "outfn", "allow_changes=allow_changes", "fmt=outfmt"] ""))

/-- hand transcription of `main`: `np.seterr`, `parse_args`, `convert` -/
def refMain : Stmt :=
  .seq (.call (.pure "np.seterr") ["divide='raise'", "over='raise'", "invalid='raise'"] "")
    (.seq (.call (.pure "parse_args") [] "args")
      (.call (.api "convert")
        ["args.input", "args.output", "args.many", "args.infmt", "args.outfmt", "args.allow_changes"] ""))

/-- `convert` is `dump_one(load_one(…))` / `dump_many(load_many(…))` and nothing else. -/
theorem flow_matches_convert : ApiFlow.convert = refConvert := by decide
/-- `main` = seterr; parse_args; convert. -/
theorem flow_matches_main : ApiFlow.main = refMain := by decide

/-- the names `load_one` … used in `__main__.py` are the API functions (imported from `.api`, never re-bound). -/
theorem cli_uses_api_functions :
    ApiFlow.cliImports = [".api:dump_many:dump_many", ".api:dump_one:dump_one", ".api:load_many:load_many",
                          ".api:load_one:load_one"] ∧ ApiFlow.cliRebound = [] := by decide

def symEnv (many : String) : ValEnv :=
  [("many", many), ("infn", "‹infn›"), ("outfn", "‹outfn›"), ("infmt", "‹infmt›"), ("outfmt", "‹outfmt›"),
   ("allow_changes", "‹allow›")]

/-- **argument_binding (single frame).**  With Python's binding rules applied to the *extracted* call and the
*extracted* signatures of `load_one` / `dump_one`: the input name and input format go to `load_one`, the
output name, output format and the allow-changes flag go to `dump_one`, whose data argument is the result of
that `load_one` call.  (The parameter values are opaque symbols, so this holds for all values.) -/
theorem argument_binding_one :
    apiCalls ApiFlow.signatures (symEnv "False") ApiFlow.convert =
      some [("load_one", [("filename", "‹infn›"), ("fmt", "‹infmt›")]),
            ("dump_one", [("data", "load_one(infn, fmt=infmt)"), ("filename", "‹outfn›"), ("fmt", "‹outfmt›"),
                          ("allow_changes", "‹allow›")])] := by decide

/-- **argument_binding (--many).** -/
theorem argument_binding_many :
    apiCalls ApiFlow.signatures (symEnv "True") ApiFlow.convert =
      some [("load_many", [("filename", "‹infn›"), ("fmt", "‹infmt›")]),
            ("dump_many", [("iter_data", "load_many(infn, fmt=infmt)"), ("filename", "‹outfn›"), ("fmt", "‹outfmt›"),
                           ("allow_changes", "‹allow›")])] := by decide

/-- `main` hands the parsed options to the parameters of `convert` with the same meaning. -/
theorem main_binding :
    apiCalls ApiFlow.signatures
        [("args.input", "‹input›"), ("args.output", "‹output›"), ("args.many", "‹many›"), ("args.infmt", "‹infmt›"),
         ("args.outfmt", "‹outfmt›"), ("args.allow_changes", "‹allow›")] ApiFlow.main =
      some [("convert", [("infn", "‹input›"), ("outfn", "‹output›"), ("many", "‹many›"), ("infmt", "‹infmt›"),
                         ("outfmt", "‹outfmt›"), ("allow_changes", "‹allow›")])] := by decide

/-- the argparse table: `-i` / `--infmt`, `-o` / `--outfmt` take a value (default `None`), `-c` / `--allow-changes` and
`-m` / `--many` are flags (default `False`), two positionals `input`, `output`; destinations as `main` reads them. -/
theorem argparse_table :
    options ApiFlow.argparseTable =
      [{ flags := ["-i", "--infmt"], dest := "infmt", storeTrue := false, positional := false, dflt := "None" },
       { flags := ["-o", "--outfmt"], dest := "outfmt", storeTrue := false, positional := false, dflt := "None" },
       { flags := ["-c", "--allow-changes"], dest := "allow_changes", storeTrue := true, positional := false, dflt := "False" },
       { flags := ["-m", "--many"], dest := "many", storeTrue := true, positional := false, dflt := "False" },
       { flags := ["input"], dest := "input", storeTrue := false, positional := true, dflt := "None" },
       { flags := ["output"], dest := "output", storeTrue := false, positional := true, dflt := "None" }] := by decide

/-- option values are passed to the API verbatim: no `add_argument` call installs a `type=` conversion, a `choices=`
restriction, `nargs=`, `const=` or `required=` (so e.g. a format name is neither normalised nor pre-validated by the CLI) -/
theorem argparse_verbatim :
    ApiFlow.argparseTable.all (fun row => row.all (fun s =>
      !(sw s "type=" || sw s "choices=" || sw s "nargs=" || sw s "const=" || sw s "required="))) = true := by decide

/-- does a term contain a `try`? -/
def hasTry : Stmt → Bool
  | .seq a b => hasTry a || hasTry b
  | .try_ _ _ => true
  | .ifVar _ t e => hasTry t || hasTry e
  | .ifHasattr _ _ t e => hasTry t || hasTry e
  | .ifNone _ t => hasTry t
  | .withOpen _ _ _ b => hasTry b
  | .forEach _ _ b => hasTry b
  | .inl _ _ b => hasTry b
  | .consume _ _ g => hasTry g
  | _ => false

/-- neither `convert` nor `main` catches anything: every exception of an API call leaves `main`, i.e. the
process ends with a traceback and a non-zero status; success is reported only if both API calls returned. -/
theorem cli_catches_nothing : hasTry ApiFlow.convert = false ∧ hasTry ApiFlow.main = false := by decide

/-- end-to-end on concrete argument vectors (evaluated by the kernel): options given or inferred. -/
theorem main_examples :
    runMain ApiFlow.signatures ApiFlow.argparseTable ApiFlow.main ApiFlow.convert ["a.xyz", "b.sdf"]
      = some "load_one(filename=a.xyz,fmt=None) dump_one(filename=b.sdf,fmt=None,allow_changes=False)" ∧
    runMain ApiFlow.signatures ApiFlow.argparseTable ApiFlow.main ApiFlow.convert
        ["-m", "-c", "-i", "xyz", "--outfmt", "pdb", "a", "b"]
      = some "load_many(filename=a,fmt=xyz) dump_many(filename=b,fmt=pdb,allow_changes=True)" ∧
    runMain ApiFlow.signatures ApiFlow.argparseTable ApiFlow.main ApiFlow.convert ["a.xyz"] = some "usage-error" := by
  decide

/-- **composition with C08.**  The dump stage of the CLI is the API's `dump_one` bound to the output name
(`argument_binding_one`), so a pre-flight rejection there leaves every file — in particular an existing
output file — untouched and never opens it (`C08.dump_one_preflight` on the generated term). -/
theorem cli_preflight_spares_output (b : Beh) (f : Frame) (path : Nat) (fs : FS) (e : Exc)
    (hsel : b.select = none) (hbad : preFault b f = some e) (he : e.isException = true) :
    (runOne ApiFlow.dumpOne b f path fs).1 = .raised .prepareDump none ∧
    (runOne ApiFlow.dumpOne b f path fs).2.fs = fs ∧
    Ev.openW ∉ (runOne ApiFlow.dumpOne b f path fs).2.trace := by
  rw [C08.flow_matches_dump_one]
  obtain ⟨h1, h2, h3, -⟩ := C08.dump_one_preflight b f path fs e hsel hbad he
  exact ⟨h1, h2, h3⟩

/-! ### floating-point traps: the only thing the CLI adds to the API -/

/-- exception classes through which a handler would intercept a trapped `FloatingPointError` -/
def fpNames : List String := ["FloatingPointError", "ArithmeticError", "Exception", "BaseException", ""]

def catchesFP (h : Handlers.Handler) : Bool :=
  (h.kind == "except" || h.kind == "suppress") && h.caught.any (fun c => fpNames.contains c)

/-- **fp_traps_never_swallowed.**  In the whole package (1) every `except` clause / `contextlib.suppress` that can
intercept a `FloatingPointError` ends in `raise` on every path (the API funnels, which convert it into
`LoadError` / `DumpError` / …), so a trap that fires under the CLI can never be turned into a normal return with
other content than the API's; (2) the only statement that sets numpy's error mode is the one in `main`. -/
theorem fp_traps_never_swallowed :
    (Handlers.handlers.filter catchesFP).all (fun h => h.reraises) = true ∧
    (Handlers.handlers.filter (fun h => h.kind == "seterr")).all
      (fun h => h.module == "iodata.__main__" && h.func == "main") = true := by
  decide +kernel

/-- non-vacuity: the table does contain FP-intercepting handlers (the API funnels) and the `seterr` of `main`. -/
example : 5 ≤ (Handlers.handlers.filter catchesFP).length ∧
    (Handlers.handlers.filter (fun h => h.kind == "seterr")).length = 1 := by decide +kernel

end Iodata.Props.C18
