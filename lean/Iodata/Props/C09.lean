/-
C09 — dumping never alters the caller's data.

Proof part: (1) the effect summary regenerated from /repo's source on every run
(`Gen/Effects.lean`, produced by `harness/vh/effects.py`) contains no argument-rooted store,
in-place operation or mutating call except the reviewed, named exceptions below; (2) the frame
lemma: a program whose writes all avoid a set of locations leaves them unchanged — so, given the
summary is complete (trusted, cross-checked dynamically by deep snapshots on every run), every
location reachable from the argument keeps its value across dump_one / dump_many / write_input.
-/
import Iodata.Model.Effects
import Iodata.Gen.Effects

namespace Iodata.Props.C09
open Iodata.Effects

/-- Reviewed argument-rooted sites that are not changes of the caller's data:
* the lazy default `self.atcorenums = self.atnums.astype(float)` inside the `atcorenums` getter
  (the property statement exempts it explicitly);
* `connections[i].append(j)` in `pdb.dump_one`: `connections` is a fresh list of fresh lists
  (`[[] for _ in range(natom)]`); the analysis marks it because the appended values come from
  `data.bonds` (numpy scalars, immutable). -/
def allowed : List (String × String × String × String) :=
  [ ("iodata.iodata", "IOData.atcorenums", "store-attr", "self.atcorenums"),
    ("iodata.formats.pdb", "dump_one", "mutcall:append", "connections[iatom0]"),
    ("iodata.formats.pdb", "dump_one", "mutcall:append", "connections[iatom1]") ]

/-- 1. No function reachable from the dump API stores into, mutates in place, or calls a mutating
method on anything that may alias the caller's objects (outside the reviewed list). -/
theorem no_argument_effects :
    (Iodata.Gen.Effects.sites.filter (fun s => s.root == .arg)).all (fun s => allowed.contains s.key) = true := by
  decide +kernel

/-- 2. Frame lemma: if no executed write targets a location in `S`, every location in `S` keeps
its value, for every program (any length) and every initial heap. -/
theorem frame {V : Type} (S : Loc → Prop) (prog : List (Stmt V))
    (hno : ∀ st ∈ prog, ∀ site l v, st = Stmt.write site l v → ¬ S l) :
    ∀ (h : Heap V) (l : Loc), S l → exec h prog l = h l := by
  induction prog with
  | nil => intro h l _; rfl
  | cons st rest ih =>
    intro h l hl
    have hrest : ∀ st' ∈ rest, ∀ site l v, st' = Stmt.write site l v → ¬ S l :=
      fun st' hm => hno st' (List.mem_cons_of_mem _ hm)
    show exec (step h st) rest l = h l
    rw [ih hrest (step h st) l hl]
    cases st with
    | skip => rfl
    | write site l' v =>
      have : ¬ S l' := hno _ (List.mem_cons_self) site l' v rfl
      have hne : l ≠ l' := fun e => this (e ▸ hl)
      simp [step, hne]

/-- 2b. Site-level reading of the frame lemma: if every executed write comes from a site listed in
the summary, and the summary's argument-rooted sites only write to `allowedLocs`, then every
argument-reachable location outside `allowedLocs` is unchanged. -/
theorem argument_unchanged {V : Type} (reach allowedLocs : Loc → Prop) (argSite : Nat → Prop)
    (prog : List (Stmt V))
    (hsites : ∀ st ∈ prog, ∀ site l v, st = Stmt.write site l v → reach l → argSite site)
    (hallowed : ∀ st ∈ prog, ∀ site l v, st = Stmt.write site l v → argSite site → allowedLocs l) :
    ∀ (h : Heap V) (l : Loc), reach l → ¬ allowedLocs l → exec h prog l = h l := by
  intro h l hr hna
  apply frame (fun l => reach l ∧ ¬ allowedLocs l) prog _ h l ⟨hr, hna⟩
  intro st hst site l' v hw hcontra
  exact hcontra.2 (hallowed st hst site l' v hw (hsites st hst site l' v hw hcontra.1))

/-- non-vacuity: a write to a location outside `S` leaves `S` alone, a write into it does not -/
example : exec (fun _ => 0) [Stmt.write 0 5 7, Stmt.skip] 3 = 0 := by decide
example : exec (fun _ => 0) [Stmt.write 0 5 7, Stmt.skip] 5 = 7 := by decide

end Iodata.Props.C09
