/-
C07 — the PARSER part for the formats with a raw reader model (`Model/Rd/*`, the same functions the driver
runs for the `rdr` correspondence stream on malformed files).

For every modelled format and for ALL lists of lines (any content, any length):
* `<fmt>_terminates` — the reader is a total function: it returns an object or an exception of the explicit
  class enumeration, and it made at most `N + 1` reads on a file of `N` lines (every loop of the parser consumes
  a line per iteration or is bounded by a count it has read; the end of the file is hit at most once);
* `<fmt>_shapes` — a returned object has mutually consistent shapes (every per-atom array, the entries of
  `atcharges`, `atffparams` and the per-atom arrays in `extra` have `natom` entries), and passes the `IOData`
  constructor's validators;
* `<fmt>_load_one` — composed with the proved funnel (`Props/C07.lean`): `iodata.api.load_one` returns the object
  or raises `LoadError` (carrying the reader's line number), the file is closed, the file system is unchanged.
VASP (`poscar_*`, `chgcar_*`, `locpot_*`): the read bound of the two grid formats is `N + 2` (their shape loop
`for line in lit` swallows the end of the file and the value loop can hit it once more); their readers CAN return
dictionaries the constructor rejects (a cell line or a Cartesian atom line with other than three numbers, no
atoms): `*_shapes` states what is returned and that whatever passes `IOData(**result)` is consistent (`natom` rows
of three coordinates, `atnums` of length `natom`, cell `(3, 3)`, grid data of three dimensions holding exactly
their product of values), everything else is the constructor's `TypeError` ⇒ `LoadError`; `*_failures` lists the
exception classes each reader can raise (each attained, see the examples).
CHARMM CRD (`crd_*`): read bound `N + 1` (the title loop reads one line per iteration and turns the end of the file
into `LoadError`); every returned dictionary has `atcoords (natom, 3)`, `atmasses (natom,)`, three `atffparams` arrays
and `segid`/`resid` in `extra` of length `natom` and passes the constructor; `crd_failures` lists the classes.
Generic: `ctor_shapes` (validators ⇒ consistent shapes, anything else is `TypeError` ⇒ `LoadError`),
`reader_load_one` (any reader outcome through the funnel), `reader_load_many_partial` (any sequence of reader
outcomes as the frames of a generator-based `load_many`: `StopIteration` ⇒ `RuntimeError` (PEP 479) ⇒ `LoadError`;
partial: see there).
-/
import Iodata.Lemmas.C07Readers
import Iodata.Lemmas.C07Vasp
import Iodata.Lemmas.C07Crd
import Iodata.Props.C07
import Iodata.Gen.Layouts

namespace Iodata.Props.C07Readers
open Iodata.Chars Iodata.Rd Iodata.Flow Iodata.Flow.Ref Iodata.Fmt

/-- the outcome of `iodata.api.load_one` is an object or a `LoadError` -/
def IsObjOrLoadError (o : Flow.Out) : Prop := o = .ret ∨ ∃ ln, o = .raised .load ln

theorem apiOutcome_ok (r : Rd.Out RObj) : IsObjOrLoadError (apiOutcome r) := by
  unfold apiOutcome IsObjOrLoadError
  rcases r with ⟨res, k⟩
  cases res with
  | ok o => by_cases h : ctorOk o = true <;> simp [h]
  | error c => cases c <;> simp

/-- **ctor_shapes** (iodata.py / attrutils.py validators).  A result dictionary either passes
`IOData(**result)` — then all per-atom arrays agree with `natom` (atcoords `(natom, 3)`, atnums and atcorenums
`(natom,)`, every `atcharges` entry `natom` long, bonds and cellvecs `(·, 3)`) — or the constructor raises
`TypeError`, which the funnel turns into `LoadError`. -/
theorem ctor_shapes (o : RObj) :
    (ctorE o = none ∧ ∀ n, o.natom = some n → o.Consistent n) ∨ ctorE o = some .type := by
  unfold ctorE
  by_cases h : ctorOk o = true
  · left; simp only [h, if_true, true_and]; intro n hn; exact ctorOk_consistent o n hn h
  · right; simp [h]

/-- **reader_load_one** (funnel composition, any reader).  For every reader outcome `r` on a file of `n`
lines — an object (then the constructor runs), or any class of the enumeration, `StopIteration` included —
`load_one` returns the object or raises `LoadError` and nothing else; a funnel-made `LoadError` carries the
reader's line counter; the file system is unchanged, the file was opened once and the last event is its close. -/
theorem reader_load_one (r : Rd.Out RObj) (n path : Nat) (fs : FS) :
    ∃ st', runLoadOne loadOne (behOf r n) path fs = (apiOutcome r, st') ∧ IsObjOrLoadError (apiOutcome r) ∧
      st'.fs = fs ∧ ∃ evs, st'.trace = .close :: (evs ++ [.openR]) ∧ LoadEvs evs := by
  obtain ⟨o, st', h1, h2, h3, -⟩ := Iodata.Props.C07.load_one_funnel (behOf r n) path fs rfl rfl
  have h := api_of_out r n path fs
  rw [h1] at h
  simp only at h
  subst h
  exact ⟨st', h1, apiOutcome_ok r, h2, h3⟩


/-- **reader_load_many_partial** (frames of a generator-based `load_many`).  For ANY sequence of reader
outcomes `rs` served as the frames of a format's `load_many` generator (each frame: its reads, then the reader's
outcome — a `StopIteration` leaving the generator body becomes `RuntimeError` by PEP 479 — then the constructor),
any way the generator ends, and a user who exhausts the iterator or discards it after `k` frames: the iteration
ends normally or with `LoadError`, the file is closed, the file system unchanged.
PARTIAL: the statement inherits the fourth alternative of `load_many_funnel` (a class that is not an `Exception`
passes through); that the reader classes — all of them `Exception`s (`clsExc_isException`) — can never produce it
is proved for `load_one` (`reader_load_one`) but not yet carried through the frame induction of `load_many`. -/
theorem reader_load_many_partial (rs : List (Rd.Out RObj)) (n path : Nat) (fs : FS) (quota : Option Nat)
    (iend : Option Exc) (hq : quota ≠ some 0) :
    ∃ o st', runLoadMany loadMany
        { nlines := n, items := rs.map itemOf, fmtIsGen := true, quota := quota, itemsEnd := iend } path fs = (o, st') ∧
      st'.fs = fs ∧ (∃ evs, st'.trace = .close :: (evs ++ [.openR]) ∧ LoadEvs evs) ∧
      (o = .normal ∨ o = .ret ∨ (∃ ln, o = .raised .load ln ∧ (ln = none ∨ ln = some (lineCount st'.trace)))
        ∨ (∃ e, o = .raised e none ∧ e.isException = false)) :=
  Iodata.Props.C07.load_many_funnel _ path fs rfl rfl hq

/-- the object is returned exactly when the reader returned and the validators pass -/
theorem reader_load_one_ret (r : Rd.Out RObj) :
    apiOutcome r = .ret ↔ ∃ o, r.res = .ok o ∧ ctorOk o = true := by
  unfold apiOutcome
  rcases r with ⟨res, k⟩
  cases res with
  | ok o => by_cases h : ctorOk o = true <;> simp [h]
  | error c => cases c <;> simp

/-! ## XYZ -/

theorem xyz_good (T : Tables) : Good (Rd.Xyz.loadOne T) := by
  unfold Rd.Xyz.loadOne
  refine good_bind good_next fun _ => good_bind (good_liftE _) fun _ => good_bind good_next fun _ =>
    good_bind (good_liftE _) fun _ => good_bind (good_liftE _) fun _ =>
    good_bind (good_repeatN (good_bind good_next fun _ => good_liftE _) _) fun _ => good_pure _

/-- **xyz_terminates**: on any list of lines the XYZ reader returns an object or raises a class of the
enumeration, after at most `N + 1` reads. -/
theorem xyz_terminates (T : Tables) (ls : List Str) :
    ((∃ o, (Rd.Xyz.read T ls).res = .ok o) ∨ (∃ c, (Rd.Xyz.read T ls).res = .error c)) ∧
    (Rd.Xyz.read T ls).lineno ≤ ls.length + 1 := by
  refine ⟨?_, run_lineno_le (xyz_good T).fin ls⟩
  cases (Rd.Xyz.read T ls).res with
  | ok o => exact Or.inl ⟨o, rfl⟩
  | error c => exact Or.inr ⟨c, rfl⟩

/-- **xyz_shapes**: a returned XYZ result has `atnums` of shape `(natom,)` and `atcoords` of shape `(natom, 3)`
for one `natom`, and passes the constructor. -/
theorem xyz_shapes (T : Tables) (ls : List Str) (o : RObj) (h : (Rd.Xyz.read T ls).res = .ok o) :
    ∃ n, o.natom = some n ∧ o.FullyConsistent n ∧ ctorE o = none := by
  unfold Rd.Xyz.read run at h
  rcases hm : Rd.Xyz.loadOne T ⟨ls, 0⟩ with ⟨r, l'⟩
  rw [hm] at h
  simp only at h
  subst h
  unfold Rd.Xyz.loadOne at hm
  obtain ⟨_, _, -, hm⟩ := bind_ok hm
  obtain ⟨natom, _, -, hm⟩ := bind_ok hm
  obtain ⟨_, _, -, hm⟩ := bind_ok hm
  obtain ⟨_, _, -, hm⟩ := bind_ok hm
  obtain ⟨_, _, -, hm⟩ := bind_ok hm
  obtain ⟨_, _, -, hm⟩ := bind_ok hm
  obtain ⟨ho, -⟩ := pure_ok hm
  subst ho
  refine ⟨natom.toNat, rfl, ⟨⟨?_, ?_, ?_, ?_, ?_, ?_⟩, ?_, ?_⟩, ?_⟩ <;>
    simp [ctorE, ctorOk, RObj.natom, optShape, shapeMatch, lenOf]

/-- **xyz_load_one**: `load_one` on any XYZ file content returns an object with consistent shapes or raises
`LoadError`; the file is closed. -/
theorem xyz_load_one (T : Tables) (ls : List Str) (path : Nat) (fs : FS) :
    ∃ st', runLoadOne loadOne (behOf (Rd.Xyz.read T ls) ls.length) path fs = (apiOutcome (Rd.Xyz.read T ls), st') ∧
      IsObjOrLoadError (apiOutcome (Rd.Xyz.read T ls)) ∧ st'.fs = fs ∧
      ∃ evs, st'.trace = .close :: (evs ++ [.openR]) ∧ LoadEvs evs :=
  reader_load_one _ _ _ _


/-! ## SDF -/

theorem sdf_seekEnd_good (sep : Str) : Good (Rd.Sdf.seekEnd sep) := by
  intro total l hl
  rcases l with ⟨rest, k⟩
  unfold Rd.Sdf.seekEnd
  simp only [Clean] at hl
  induction rest generalizing k with
  | nil => simp [Rd.Sdf.seekEndGo, Wf, Clean] at hl ⊢; omega
  | cons x r ih =>
    simp only [Rd.Sdf.seekEndGo]
    by_cases hx : x = sep
    · simp [hx, Clean] at hl ⊢; omega
    · simp only [beq_iff_eq, hx, ↓reduceIte]
      have := ih (k + 1) (by simp only [List.length_cons] at hl; omega)
      rcases hgo : Rd.Sdf.seekEndGo sep r (k + 1) with ⟨res, l'⟩
      rw [hgo] at this
      cases res with
      | ok a => exact ⟨this.1, by have := this.2; simp at this ⊢; omega⟩
      | error e => exact this

theorem sdf_good (T : Tables) (L : Rd.Sdf.Layout) : Good (Rd.Sdf.loadOne T L) := by
  unfold Rd.Sdf.loadOne
  refine good_bind good_next fun _ => good_bind good_next fun _ => good_bind good_next fun _ =>
    good_bind good_next fun _ => good_bind (good_liftE _) fun _ => good_bind (good_liftE _) fun _ =>
    good_bind (good_liftE _) fun _ => good_bind (good_liftE _) fun _ => good_bind (good_liftE _) fun _ =>
    good_bind (good_repeatN (good_bind good_next fun _ => good_liftE _) _) fun _ =>
    good_bind (good_liftE _) fun _ =>
    good_bind (good_repeatN (good_bind good_next fun _ => good_liftE _) _) fun _ =>
    good_bind (sdf_seekEnd_good _) fun _ => good_pure _

/-- **sdf_terminates**: on any list of lines the SDF reader (atom loop and bond loop bounded by the counts it
read, the `$$$$` search by the remaining lines) returns an object or raises a class of the enumeration, after at
most `N + 1` reads. -/
theorem sdf_terminates (T : Tables) (L : Rd.Sdf.Layout) (ls : List Str) :
    ((∃ o, (Rd.Sdf.read T L ls).res = .ok o) ∨ (∃ c, (Rd.Sdf.read T L ls).res = .error c)) ∧
    (Rd.Sdf.read T L ls).lineno ≤ ls.length + 1 := by
  refine ⟨?_, run_lineno_le (sdf_good T L).fin ls⟩
  cases (Rd.Sdf.read T L ls).res with
  | ok o => exact Or.inl ⟨o, rfl⟩
  | error c => exact Or.inr ⟨c, rfl⟩

/-- **sdf_shapes**: a returned SDF result has `atcoords (natom, 3)`, `atnums (natom,)` and `bonds (nbond, 3)`,
and passes the constructor. -/
theorem sdf_shapes (T : Tables) (L : Rd.Sdf.Layout) (ls : List Str) (o : RObj)
    (h : (Rd.Sdf.read T L ls).res = .ok o) :
    ∃ n, o.natom = some n ∧ o.FullyConsistent n ∧ ctorE o = none := by
  unfold Rd.Sdf.read run at h
  rcases hm : Rd.Sdf.loadOne T L ⟨ls, 0⟩ with ⟨r, l'⟩
  rw [hm] at h
  simp only at h
  subst h
  unfold Rd.Sdf.loadOne at hm
  obtain ⟨_, _, -, hm⟩ := bind_ok hm
  obtain ⟨_, _, -, hm⟩ := bind_ok hm
  obtain ⟨_, _, -, hm⟩ := bind_ok hm
  obtain ⟨_, _, -, hm⟩ := bind_ok hm
  obtain ⟨natom, _, -, hm⟩ := bind_ok hm
  obtain ⟨nbond, _, -, hm⟩ := bind_ok hm
  obtain ⟨_, _, -, hm⟩ := bind_ok hm
  obtain ⟨_, _, -, hm⟩ := bind_ok hm
  obtain ⟨_, _, -, hm⟩ := bind_ok hm
  obtain ⟨_, _, -, hm⟩ := bind_ok hm
  obtain ⟨_, _, -, hm⟩ := bind_ok hm
  obtain ⟨_, _, -, hm⟩ := bind_ok hm
  obtain ⟨_, _, -, hm⟩ := bind_ok hm
  obtain ⟨ho, -⟩ := pure_ok hm
  subst ho
  refine ⟨natom.toNat, rfl, ⟨⟨?_, ?_, ?_, ?_, ?_, ?_⟩, ?_, ?_⟩, ?_⟩ <;>
    simp [ctorE, ctorOk, RObj.natom, optShape, shapeMatch, lenOf]

/-- **sdf_load_one**: `load_one` on any SDF file content returns an object with consistent shapes or raises
`LoadError`; the file is closed. -/
theorem sdf_load_one (T : Tables) (L : Rd.Sdf.Layout) (ls : List Str) (path : Nat) (fs : FS) :
    ∃ st', runLoadOne loadOne (behOf (Rd.Sdf.read T L ls) ls.length) path fs
        = (apiOutcome (Rd.Sdf.read T L ls), st') ∧
      IsObjOrLoadError (apiOutcome (Rd.Sdf.read T L ls)) ∧ st'.fs = fs ∧
      ∃ evs, st'.trace = .close :: (evs ++ [.openR]) ∧ LoadEvs evs :=
  reader_load_one _ _ _ _


/-! ## MOL2 -/

theorem mol2_molHeader_good (st : Rd.Mol2.LoopSt) : Good (Rd.Mol2.molHeader st) := by
  unfold Rd.Mol2.molHeader
  exact good_bind good_next fun _ => good_bind good_next fun _ => good_bind (good_liftE _) fun _ =>
    good_bind (good_liftE _) fun _ => good_bind (good_liftE _) fun _ => good_bind (good_liftE _) fun _ =>
    good_pure _

theorem mol2_atomSec_good (st : Rd.Mol2.LoopSt) : Good (Rd.Mol2.atomSec st) := by
  unfold Rd.Mol2.atomSec
  split
  · exact good_raise _
  · exact good_bind (good_liftE _) fun _ => good_bind (good_liftE _) fun _ => good_bind (good_liftE _) fun _ =>
      good_bind (good_repeatN (good_bind good_next fun _ => good_liftE _) _) fun _ => good_pure _

theorem mol2_bondSec_good (st : Rd.Mol2.LoopSt) : Good (Rd.Mol2.bondSec st) := by
  unfold Rd.Mol2.bondSec
  split
  · exact good_raise _
  · refine good_bind (good_liftE _) fun _ =>
      good_bind (good_repeatN (good_bind good_next fun _ => good_liftE _) _) fun _ => ?_
    split
    · exact good_raise _
    · exact good_pure _

theorem mol2_body_good (st : Rd.Mol2.LoopSt) (w0 : Str) : Good (Rd.Mol2.body st w0) := by
  unfold Rd.Mol2.body
  exact good_bind (good_ite (mol2_molHeader_good _) (good_pure _)) fun p =>
    good_bind (good_ite (mol2_atomSec_good _) (good_pure _)) fun st2 =>
    good_ite (mol2_bondSec_good _) (good_pure _)

/-- the record loop with more fuel than unread lines ends (every iteration consumes a line), in a state whose
counter is consistent -/
theorem mol2_loop (f : Nat) : ∀ (st : Rd.Mol2.LoopSt) (l : Lit) (total : Nat), Clean total l → l.rest.length < f →
    ∃ r l', Rd.Mol2.loop f st l = some (r, l') ∧ Wf total l' := by
  induction f with
  | zero => intro st l total _ h; omega
  | succ f ih =>
    intro st l total hl hf
    rcases l with ⟨rest, k⟩
    simp only [Clean] at hl
    unfold Rd.Mol2.loop
    cases rest with
    | nil => exact ⟨_, _, rfl, Or.inr ⟨rfl, by simp at hl ⊢; omega⟩⟩
    | cons line r =>
      simp only [List.length_cons] at hl hf
      have hclean : Clean total ⟨r, k + 1⟩ := by simp [Clean]; omega
      dsimp only
      by_cases hlen : line.length > 1
      · simp only [hlen, if_true]
        cases hsp : splitWs line with
        | nil => exact ⟨_, _, rfl, Or.inl hclean⟩
        | cons w0 ws =>
          dsimp only
          by_cases hb : (w0 == Rd.Mol2.tMOLECULE && st.res.isSome) = true
          · simp only [hb, if_true]
            exact ⟨_, _, rfl, Or.inl (by simp [Clean]; omega)⟩
          · simp only [hb]
            have hg := mol2_body_good st w0 total ⟨r, k + 1⟩ hclean
            rcases hbody : Rd.Mol2.body st w0 ⟨r, k + 1⟩ with ⟨res, l'⟩
            rw [hbody] at hg
            cases res with
            | ok st' =>
              dsimp only
              refine ih st' l' total hg.1 ?_
              have h1 := hg.1; have h2 := hg.2
              simp only [Clean] at h1 h2
              omega
            | error e => exact ⟨_, _, rfl, hg⟩
      · simp only [hlen, if_false]
        exact ih st ⟨r, k + 1⟩ total hclean (by simp; omega)

/-- **mol2_fuel** (the fuel bound): `N + 1` iterations of the record loop are enough for a file of `N` lines —
the reader never runs out of fuel, i.e. the real `while True` loop terminates on every content. -/
theorem mol2_fuel (ls : List Str) : (Rd.Mol2.loadOneF (ls.length + 1) ⟨ls, 0⟩).isSome = true := by
  obtain ⟨r, l', h, -⟩ := mol2_loop (ls.length + 1) {} ⟨ls, 0⟩ ls.length (by simp [Clean]) (by simp)
  unfold Rd.Mol2.loadOneF
  rw [h]
  cases r <;> rfl

/-- **mol2_terminates**: on any list of lines the MOL2 reader returns an object or raises a class of the
enumeration (never the out-of-fuel default), after at most `N + 1` reads. -/
theorem mol2_terminates (ls : List Str) :
    (∃ r l', Rd.Mol2.loadOneF (ls.length + 1) ⟨ls, 0⟩ = some (r, l') ∧ Rd.Mol2.read ls = ⟨r, l'.lineno⟩) ∧
    (Rd.Mol2.read ls).lineno ≤ ls.length + 1 := by
  obtain ⟨r, l', h, hw⟩ := mol2_loop (ls.length + 1) {} ⟨ls, 0⟩ ls.length (by simp [Clean]) (by simp)
  have hle : l'.lineno ≤ ls.length + 1 := by
    rcases hw with h1 | ⟨_, h2⟩
    · simp only [Clean] at h1; omega
    · omega
  unfold Rd.Mol2.read Rd.Mol2.loadOneF
  rw [h]
  cases r with
  | ok st => exact ⟨⟨_, _, rfl, rfl⟩, hle⟩
  | error e => exact ⟨⟨_, _, rfl, rfl⟩, hle⟩

/-- **mol2_shapes**: a returned MOL2 result has `atcoords (natom, 3)`, `atnums (natom,)`, `natom` charges and
`natom` atom types (the `atffparams` entry no validator looks at), bonds `(nbond, 3)` when present, and passes the
constructor. -/
theorem mol2_shapes (ls : List Str) (o : RObj) (h : (Rd.Mol2.read ls).res = .ok o) :
    ∃ n, o.natom = some n ∧ o.FullyConsistent n ∧ ctorE o = none := by
  have key : ∀ st, Rd.Mol2.finish st = .ok o → ∃ n, o.natom = some n ∧ o.FullyConsistent n ∧ ctorE o = none := by
    intro st hf
    unfold Rd.Mol2.finish at hf
    split at hf
    · cases hf
    · cases hf
    · rename_i n _ nb _ _
      split at hf
      · cases hf
      · injection hf with hf
        subst hf
        refine ⟨n, rfl, ⟨⟨?_, ?_, ?_, ?_, ?_, ?_⟩, ?_, ?_⟩, ?_⟩ <;>
          (cases st.bonds <;> simp [ctorE, ctorOk, RObj.natom, optShape, shapeMatch, lenOf])
  unfold Rd.Mol2.read Rd.Mol2.loadOneF at h
  cases hl : Rd.Mol2.loop (ls.length + 1) {} ⟨ls, 0⟩ with
  | none => rw [hl] at h; cases h
  | some p =>
    rw [hl] at h
    rcases p with ⟨r, l'⟩
    cases r with
    | ok st => exact key st h
    | error e => cases h

/-- **mol2_load_one**: `load_one` on any MOL2 file content returns an object with consistent shapes or raises
`LoadError` (the unbound-variable paths of the parser included); the file is closed. -/
theorem mol2_load_one (ls : List Str) (path : Nat) (fs : FS) :
    ∃ st', runLoadOne loadOne (behOf (Rd.Mol2.read ls) ls.length) path fs = (apiOutcome (Rd.Mol2.read ls), st') ∧
      IsObjOrLoadError (apiOutcome (Rd.Mol2.read ls)) ∧ st'.fs = fs ∧
      ∃ evs, st'.trace = .close :: (evs ++ [.openR]) ∧ LoadEvs evs :=
  reader_load_one _ _ _ _


/-! ## PDB -/

theorem pdb_loop_wf (L : Rd.Pdb.Layout) : ∀ (rest : List Str) (k : Nat) (acc : Rd.Pdb.Acc),
    Wf (k + rest.length) (Rd.Pdb.loop L rest k acc).2 := by
  intro rest
  induction rest with
  | nil => intro k acc; exact Or.inr ⟨rfl, by simp [Rd.Pdb.loop]⟩
  | cons line r ih =>
    intro k acc
    unfold Rd.Pdb.loop
    have hc : Wf (k + (line :: r).length) ⟨r, k + 1⟩ := Or.inl (by simp [Clean]; omega)
    cases Rd.Pdb.lineStep L line acc with
    | error e => exact hc
    | ok acc' =>
      dsimp only
      split
      · exact hc
      · have := ih (k + 1) acc'
        have e : k + 1 + r.length = k + (line :: r).length := by simp; omega
        rw [e] at this; exact this

theorem pdb_fin (L : Rd.Pdb.Layout) : Fin (Rd.Pdb.loadOne L) := by
  intro total l hl
  rcases l with ⟨rest, k⟩
  simp only [Clean] at hl
  have := pdb_loop_wf L rest k {}
  rw [hl] at this
  unfold Rd.Pdb.loadOne
  dsimp only
  rcases hlp : Rd.Pdb.loop L rest k {} with ⟨r, l'⟩
  rw [hlp] at this
  cases r <;> exact this

/-- **pdb_terminates**: on any list of lines the PDB reader (one line per iteration of the record loop) returns
an object or raises a class of the enumeration, after at most `N + 1` reads. -/
theorem pdb_terminates (L : Rd.Pdb.Layout) (ls : List Str) :
    ((∃ o, (Rd.Pdb.read L ls).res = .ok o) ∨ (∃ c, (Rd.Pdb.read L ls).res = .error c)) ∧
    (Rd.Pdb.read L ls).lineno ≤ ls.length + 1 := by
  refine ⟨?_, run_lineno_le (pdb_fin L) ls⟩
  cases (Rd.Pdb.read L ls).res with
  | ok o => exact Or.inl ⟨o, rfl⟩
  | error c => exact Or.inr ⟨c, rfl⟩

/-- **pdb_shapes**: a returned PDB result has `atcoords (natom, 3)`, `atnums (natom,)`, three `atffparams`
arrays and the occupancies / B-factors / chain identifiers in `extra` all of length `natom ≥ 1` (they are built
from lists appended together), bonds `(nbond, 3)` when present, and passes the constructor. -/
theorem pdb_shapes (L : Rd.Pdb.Layout) (ls : List Str) (o : RObj) (h : (Rd.Pdb.read L ls).res = .ok o) :
    ∃ n, 0 < n ∧ o.natom = some n ∧ o.FullyConsistent n ∧ ctorE o = none := by
  have key : ∀ acc, Rd.Pdb.finish acc = .ok o →
      ∃ n, 0 < n ∧ o.natom = some n ∧ o.FullyConsistent n ∧ ctorE o = none := by
    intro acc hf
    unfold Rd.Pdb.finish at hf
    split at hf
    · cases hf
    · rename_i hn
      injection hf with hf
      subst hf
      refine ⟨acc.natom, Nat.pos_of_ne_zero hn, rfl, ⟨⟨?_, ?_, ?_, ?_, ?_, ?_⟩, ?_, ?_⟩, ?_⟩ <;>
        (by_cases hb : acc.nbond > 0 <;> cases acc.chain <;>
          simp [ctorE, ctorOk, RObj.natom, optShape, shapeMatch, lenOf, hb])
  unfold Rd.Pdb.read run Rd.Pdb.loadOne at h
  dsimp only at h
  rcases hl : Rd.Pdb.loop L ls 0 {} with ⟨r, l'⟩
  rw [hl] at h
  cases r with
  | ok acc => exact key acc h
  | error e => cases h

/-- **pdb_load_one**: `load_one` on any PDB file content returns an object with consistent shapes or raises
`LoadError`; the file is closed. -/
theorem pdb_load_one (L : Rd.Pdb.Layout) (ls : List Str) (path : Nat) (fs : FS) :
    ∃ st', runLoadOne loadOne (behOf (Rd.Pdb.read L ls) ls.length) path fs = (apiOutcome (Rd.Pdb.read L ls), st') ∧
      IsObjOrLoadError (apiOutcome (Rd.Pdb.read L ls)) ∧ st'.fs = fs ∧
      ∃ evs, st'.trace = .close :: (evs ++ [.openR]) ∧ LoadEvs evs :=
  reader_load_one _ _ _ _


/-! ## Gaussian cube -/

theorem cube_dataLoop_good : ∀ (n : Nat) (ws : List Str), Good (Rd.Cube.dataLoop n ws) := by
  intro n
  induction n with
  | zero => intro ws; unfold Rd.Cube.dataLoop; exact good_pure _
  | succ n ih =>
    intro ws
    cases ws with
    | cons w ws => unfold Rd.Cube.dataLoop; exact good_bind (good_liftE _) fun _ => ih ws
    | nil =>
      unfold Rd.Cube.dataLoop
      refine good_bind good_next fun line => ?_
      split
      · exact good_raise _
      · exact good_bind (good_liftE _) fun _ => ih _

theorem cube_good : Good Rd.Cube.loadOne := by
  unfold Rd.Cube.loadOne
  refine good_bind good_next fun _ => good_bind good_next fun _ =>
    good_bind good_next fun _ => good_bind (good_liftE _) fun _ =>
    good_bind good_next fun _ => good_bind (good_liftE _) fun _ =>
    good_bind good_next fun _ => good_bind (good_liftE _) fun _ =>
    good_bind good_next fun _ => good_bind (good_liftE _) fun _ =>
    good_bind (good_liftE _) fun _ => good_bind (good_liftE _) fun _ => good_bind (good_liftE _) fun _ =>
    good_bind (good_liftE _) fun _ =>
    good_bind (good_repeatN (good_bind good_next fun _ => good_liftE _) _) fun _ =>
    good_bind (good_liftE _) fun _ => good_bind (cube_dataLoop_good _ _) fun _ => good_pure _

/-- **cube_terminates**: on any list of lines the cube reader (atom loop bounded by `natom`, data loop by the
grid size, each iteration consuming a word) returns an object or raises a class of the enumeration, after at
most `N + 1` reads. -/
theorem cube_terminates (ls : List Str) :
    ((∃ o, (Rd.Cube.read ls).res = .ok o) ∨ (∃ c, (Rd.Cube.read ls).res = .error c)) ∧
    (Rd.Cube.read ls).lineno ≤ ls.length + 1 := by
  refine ⟨?_, run_lineno_le cube_good.fin ls⟩
  cases (Rd.Cube.read ls).res with
  | ok o => exact Or.inl ⟨o, rfl⟩
  | error c => exact Or.inr ⟨c, rfl⟩

/-- **cube_shapes**: a returned cube result has `atcoords (natom, 3)`, `atnums` and `atcorenums` `(natom,)`,
cell vectors `(3, 3)`, and passes the constructor. -/
theorem cube_shapes (ls : List Str) (o : RObj) (h : (Rd.Cube.read ls).res = .ok o) :
    ∃ n, o.natom = some n ∧ o.FullyConsistent n ∧ ctorE o = none := by
  unfold Rd.Cube.read run at h
  rcases hm : Rd.Cube.loadOne ⟨ls, 0⟩ with ⟨r, l'⟩
  rw [hm] at h
  simp only at h
  subst h
  unfold Rd.Cube.loadOne at hm
  obtain ⟨_, _, -, hm⟩ := bind_ok hm
  obtain ⟨_, _, -, hm⟩ := bind_ok hm
  obtain ⟨_, _, -, hm⟩ := bind_ok hm
  obtain ⟨natom, _, -, hm⟩ := bind_ok hm
  obtain ⟨_, _, -, hm⟩ := bind_ok hm
  obtain ⟨s0, _, -, hm⟩ := bind_ok hm
  obtain ⟨_, _, -, hm⟩ := bind_ok hm
  obtain ⟨s1, _, -, hm⟩ := bind_ok hm
  obtain ⟨_, _, -, hm⟩ := bind_ok hm
  obtain ⟨s2, _, -, hm⟩ := bind_ok hm
  obtain ⟨_, _, -, hm⟩ := bind_ok hm
  obtain ⟨_, _, -, hm⟩ := bind_ok hm
  obtain ⟨_, _, -, hm⟩ := bind_ok hm
  obtain ⟨_, _, -, hm⟩ := bind_ok hm
  obtain ⟨_, _, -, hm⟩ := bind_ok hm
  obtain ⟨_, _, -, hm⟩ := bind_ok hm
  obtain ⟨_, _, -, hm⟩ := bind_ok hm
  obtain ⟨ho, -⟩ := pure_ok hm
  subst ho
  refine ⟨natom.toNat, rfl, ⟨⟨?_, ?_, ?_, ?_, ?_, ?_⟩, ?_, ?_⟩, ?_⟩ <;>
    simp [ctorE, ctorOk, RObj.natom, optShape, shapeMatch, lenOf]

/-- **cube_load_one**: `load_one` on any cube file content returns an object with consistent shapes or raises
`LoadError`; the file is closed. -/
theorem cube_load_one (ls : List Str) (path : Nat) (fs : FS) :
    ∃ st', runLoadOne loadOne (behOf (Rd.Cube.read ls) ls.length) path fs = (apiOutcome (Rd.Cube.read ls), st') ∧
      IsObjOrLoadError (apiOutcome (Rd.Cube.read ls)) ∧ st'.fs = fs ∧
      ∃ evs, st'.trace = .close :: (evs ++ [.openR]) ∧ LoadEvs evs :=
  reader_load_one _ _ _ _


/-! ## GROMACS gro -/

theorem gro_good : Good Rd.Gro.loadOne := by
  unfold Rd.Gro.loadOne
  refine good_bind good_next fun _ => good_bind (good_liftE _) fun _ => good_bind good_next fun _ =>
    good_bind (good_liftE _) fun _ => good_bind (good_liftE _) fun _ => good_bind (good_liftE _) fun _ =>
    good_bind (good_repeatN (good_bind good_next fun _ => good_liftE _) _) fun _ =>
    good_bind good_next fun _ => good_bind (good_liftE _) fun _ => good_pure _

/-- **gro_terminates**: on any list of lines the GRO reader returns an object or raises a class of the
enumeration, after at most `N + 1` reads. -/
theorem gro_terminates (ls : List Str) :
    ((∃ o, (Rd.Gro.read ls).res = .ok o) ∨ (∃ c, (Rd.Gro.read ls).res = .error c)) ∧
    (Rd.Gro.read ls).lineno ≤ ls.length + 1 := by
  refine ⟨?_, run_lineno_le gro_good.fin ls⟩
  cases (Rd.Gro.read ls).res with
  | ok o => exact Or.inl ⟨o, rfl⟩
  | error c => exact Or.inr ⟨c, rfl⟩

/-- **gro_shapes**: a returned GRO result has `atcoords (natom, 3)`, three `atffparams` arrays and the
velocities of length `natom` (none of them seen by a validator), cell vectors `(3, 3)`, and passes the
constructor. -/
theorem gro_shapes (ls : List Str) (o : RObj) (h : (Rd.Gro.read ls).res = .ok o) :
    ∃ n, o.natom = some n ∧ o.FullyConsistent n ∧ ctorE o = none := by
  unfold Rd.Gro.read run at h
  rcases hm : Rd.Gro.loadOne ⟨ls, 0⟩ with ⟨r, l'⟩
  rw [hm] at h
  simp only at h
  subst h
  unfold Rd.Gro.loadOne at hm
  obtain ⟨_, _, -, hm⟩ := bind_ok hm
  obtain ⟨_, _, -, hm⟩ := bind_ok hm
  obtain ⟨_, _, -, hm⟩ := bind_ok hm
  obtain ⟨natoms, _, -, hm⟩ := bind_ok hm
  obtain ⟨_, _, -, hm⟩ := bind_ok hm
  obtain ⟨_, _, -, hm⟩ := bind_ok hm
  obtain ⟨_, _, -, hm⟩ := bind_ok hm
  obtain ⟨_, _, -, hm⟩ := bind_ok hm
  obtain ⟨_, _, -, hm⟩ := bind_ok hm
  obtain ⟨ho, -⟩ := pure_ok hm
  subst ho
  refine ⟨natoms.toNat, rfl, ⟨⟨?_, ?_, ?_, ?_, ?_, ?_⟩, ?_, ?_⟩, ?_⟩ <;>
    simp [ctorE, ctorOk, RObj.natom, optShape, shapeMatch, lenOf]

/-- **gro_load_one**: `load_one` on any GRO file content returns an object with consistent shapes or raises
`LoadError`; the file is closed. -/
theorem gro_load_one (ls : List Str) (path : Nat) (fs : FS) :
    ∃ st', runLoadOne loadOne (behOf (Rd.Gro.read ls) ls.length) path fs = (apiOutcome (Rd.Gro.read ls), st') ∧
      IsObjOrLoadError (apiOutcome (Rd.Gro.read ls)) ∧ st'.fs = fs ∧
      ∃ evs, st'.trace = .close :: (evs ++ [.openR]) ∧ LoadEvs evs :=
  reader_load_one _ _ _ _


/-! ## VASP: POSCAR, CHGCAR, LOCPOT -/

/-- what a result built from a `_load_vasp_header` return value looks like (`n` = `len(atnums)`, the cell is
`(3, k)`), and that it is fully consistent with a `(3, 3)` cell whenever the constructor accepts it -/
def VaspResult (o : RObj) (n : Nat) : Prop :=
  o.natom = some n ∧ o.atnums = some [n] ∧ (∃ k, o.cellvecs = some [3, k]) ∧
  ((n = 0 ∧ o.atcoords = some [0]) ∨ (0 < n ∧ ∃ m, o.atcoords = some [n, m])) ∧
  (ctorE o = none → o.FullyConsistent n ∧ o.atcoords = some [n, 3] ∧ o.cellvecs = some [3, 3]) ∧
  (ctorE o = none ∨ ctorE o = some .type)

theorem vasp_result_of_header (T : Tables) (l l' : Lit) (h : Rd.Vasp.Hdr) (cube : Option (List Nat))
    (hm : Rd.Vasp.loadHeader T l = (.ok h, l')) : VaspResult { h.toObj with cube := cube } h.natom := by
  have hs := Rd.Vasp.header_shapes T l l' h hm
  have hcons : ∀ o : RObj, ctorE o = none → o.natom = some h.natom → o.atffparams = [] → o.extraAtom = [] →
      o.FullyConsistent h.natom := by
    intro o hc hn h1 h2
    refine ⟨ctorOk_consistent o _ hn ?_, by simp [h1], by simp [h2]⟩
    unfold ctorE at hc
    by_cases hk : ctorOk o = true
    · exact hk
    · simp [hk] at hc
  have hty : ∀ o : RObj, ctorE o = none ∨ ctorE o = some .type := by
    intro o; unfold ctorE; by_cases hk : ctorOk o = true <;> simp [hk]
  rcases hs with ⟨hn, hc⟩ | ⟨hn, m, hc⟩
  · refine ⟨by simp [Rd.Vasp.Hdr.toObj, RObj.natom, hc, lenOf, hn], by simp [Rd.Vasp.Hdr.toObj],
      ⟨h.cellK, by simp [Rd.Vasp.Hdr.toObj]⟩, Or.inl ⟨hn, by simp [Rd.Vasp.Hdr.toObj, hc]⟩, ?_, hty _⟩
    intro hct
    exfalso
    simp [ctorE, ctorOk, Rd.Vasp.Hdr.toObj, RObj.natom, hc, lenOf, optShape, shapeMatch] at hct
  · have hnat : ({ h.toObj with cube := cube } : RObj).natom = some h.natom := by
      simp [Rd.Vasp.Hdr.toObj, RObj.natom, hc, lenOf]
    refine ⟨hnat, by simp [Rd.Vasp.Hdr.toObj], ⟨h.cellK, by simp [Rd.Vasp.Hdr.toObj]⟩,
      Or.inr ⟨hn, m, by simp [Rd.Vasp.Hdr.toObj, hc]⟩, ?_, hty _⟩
    intro hct
    refine ⟨hcons _ hct hnat (by simp [Rd.Vasp.Hdr.toObj]) (by simp [Rd.Vasp.Hdr.toObj]), ?_, ?_⟩
    · have : m = 3 := by
        simp [ctorE, ctorOk, Rd.Vasp.Hdr.toObj, RObj.natom, hc, lenOf, optShape, shapeMatch] at hct
        omega
      simp [Rd.Vasp.Hdr.toObj, hc, this]
    · have : h.cellK = 3 := by
        simp [ctorE, ctorOk, Rd.Vasp.Hdr.toObj, RObj.natom, hc, lenOf, optShape, shapeMatch] at hct
        omega
      simp [Rd.Vasp.Hdr.toObj, this]

theorem poscar_good (T : Tables) : Good (Rd.Vasp.loadPoscar T) := by
  unfold Rd.Vasp.loadPoscar
  exact good_bind (Rd.Vasp.header_good T) fun _ => good_pure _

/-- **poscar_terminates**: on any list of lines the POSCAR reader (coordinate loop bounded by the sum of the
counts it read) returns an object or raises a class of the enumeration, after at most `N + 1` reads. -/
theorem poscar_terminates (T : Tables) (ls : List Str) :
    ((∃ o, (Rd.Vasp.readPoscar T ls).res = .ok o) ∨ (∃ c, (Rd.Vasp.readPoscar T ls).res = .error c)) ∧
    (Rd.Vasp.readPoscar T ls).lineno ≤ ls.length + 1 := by
  refine ⟨?_, run_lineno_le (poscar_good T).fin ls⟩
  cases (Rd.Vasp.readPoscar T ls).res with
  | ok o => exact Or.inl ⟨o, rfl⟩
  | error c => exact Or.inr ⟨c, rfl⟩

/-- **poscar_shapes**: a returned POSCAR result has `atnums (n,)`, a cell `(3, k)` and `n` coordinate rows of one
common length (`atcoords (n, m)`, or `(0,)` without atoms); if `IOData(**result)` accepts it, it is fully
consistent: `atcoords (n, 3)`, cell `(3, 3)`; otherwise the constructor raises `TypeError`. -/
theorem poscar_shapes (T : Tables) (ls : List Str) (o : RObj) (h : (Rd.Vasp.readPoscar T ls).res = .ok o) :
    ∃ n, VaspResult o n := by
  unfold Rd.Vasp.readPoscar run at h
  rcases hm : Rd.Vasp.loadPoscar T ⟨ls, 0⟩ with ⟨r, l'⟩
  rw [hm] at h
  simp only at h
  subst h
  unfold Rd.Vasp.loadPoscar at hm
  obtain ⟨hd, l1, hh, hm⟩ := bind_ok hm
  obtain ⟨ho, -⟩ := pure_ok hm
  subst ho
  exact ⟨hd.natom, vasp_result_of_header T _ _ hd none hh⟩

/-- **poscar_load_one**: `load_one` on any POSCAR file content returns an object (consistent by `poscar_shapes`)
or raises `LoadError`; the file is closed. -/
theorem poscar_load_one (T : Tables) (ls : List Str) (path : Nat) (fs : FS) :
    ∃ st', runLoadOne loadOne (behOf (Rd.Vasp.readPoscar T ls) ls.length) path fs
        = (apiOutcome (Rd.Vasp.readPoscar T ls), st') ∧
      IsObjOrLoadError (apiOutcome (Rd.Vasp.readPoscar T ls)) ∧ st'.fs = fs ∧
      ∃ evs, st'.trace = .close :: (evs ++ [.openR]) ∧ LoadEvs evs :=
  reader_load_one _ _ _ _

/-- the read bound of `_load_vasp_grid`: `N + 2` (`for line in lit` swallows the end of the file, the value loop
may hit it once more) -/
theorem vasp_grid_bound (T : Tables) (ls : List Str) : (run (Rd.Vasp.loadGrid T) ls).lineno ≤ ls.length + 2 := by
  unfold run Rd.Vasp.loadGrid RM.bind
  have hg := Rd.Vasp.header_good T ls.length ⟨ls, 0⟩ (by simp [Clean])
  rcases hh : Rd.Vasp.loadHeader T ⟨ls, 0⟩ with ⟨r, l1⟩
  rw [hh] at hg
  cases r with
  | error e => exact Nat.le_succ_of_le (Rd.Vasp.wf_lineno_le hg)
  | ok hd =>
    dsimp only
    have hb := Rd.Vasp.gridPart_bound hd.cellK ls.length l1 hg.1
    rcases hp : Rd.Vasp.gridPart hd.cellK l1 with ⟨r2, l2⟩
    rw [hp] at hb
    cases r2 <;> exact hb

/-- a returned `_load_vasp_grid` result: the header part as for POSCAR, a cell of shape `(3, 3)` already before
the constructor (the `Cube` validator), grid data of three dimensions `a × b × c`, and the value loop stored
exactly `a * b * c` numbers -/
theorem vasp_grid_shapes (T : Tables) (ls : List Str) (o : RObj) (h : (run (Rd.Vasp.loadGrid T) ls).res = .ok o) :
    ∃ n, VaspResult o n ∧ o.cellvecs = some [3, 3] ∧
      ∃ a b c, o.cube = some [a, b, c] ∧
        ∃ k l1 l2, Rd.Vasp.gridPart k l1 = (.ok ([a, b, c], a * b * c), l2) := by
  unfold run at h
  rcases hm : Rd.Vasp.loadGrid T ⟨ls, 0⟩ with ⟨r, l'⟩
  rw [hm] at h
  simp only at h
  subst h
  unfold Rd.Vasp.loadGrid at hm
  obtain ⟨hd, l1, hh, hm⟩ := bind_ok hm
  obtain ⟨g, l2, hgp, hm⟩ := bind_ok hm
  obtain ⟨ho, -⟩ := pure_ok hm
  subst ho
  obtain ⟨hk, a, b, c, hg1, hg2⟩ := Rd.Vasp.gridPart_ok _ _ _ _ hgp
  refine ⟨hd.natom, vasp_result_of_header T _ _ hd _ hh, by simp [Rd.Vasp.Hdr.toObj, hk], a, b, c,
    by simp [hg1], hd.cellK, l1, l2, ?_⟩
  rw [hgp, ← hg1, ← hg2]

/-- **chgcar_terminates**: on any list of lines the CHGCAR reader (coordinate loop bounded by the counts, shape
loop by the remaining lines, value loop by the product of the three dimensions, one word per iteration) returns
an object or raises a class of the enumeration, after at most `N + 2` reads. -/
theorem chgcar_terminates (T : Tables) (ls : List Str) :
    ((∃ o, (Rd.Vasp.readChgcar T ls).res = .ok o) ∨ (∃ c, (Rd.Vasp.readChgcar T ls).res = .error c)) ∧
    (Rd.Vasp.readChgcar T ls).lineno ≤ ls.length + 2 := by
  refine ⟨?_, vasp_grid_bound T ls⟩
  cases (Rd.Vasp.readChgcar T ls).res with
  | ok o => exact Or.inl ⟨o, rfl⟩
  | error c => exact Or.inr ⟨c, rfl⟩

/-- **chgcar_shapes**: a returned CHGCAR result has `atnums (n,)`, `n` coordinate rows, a `(3, 3)` cell and grid
data `a × b × c` filled with exactly `a * b * c` values; if the constructor accepts it, `atcoords` is `(n, 3)`. -/
theorem chgcar_shapes (T : Tables) (ls : List Str) (o : RObj) (h : (Rd.Vasp.readChgcar T ls).res = .ok o) :
    ∃ n, VaspResult o n ∧ o.cellvecs = some [3, 3] ∧
      ∃ a b c, o.cube = some [a, b, c] ∧
        ∃ k l1 l2, Rd.Vasp.gridPart k l1 = (.ok ([a, b, c], a * b * c), l2) :=
  vasp_grid_shapes T ls o h

/-- **chgcar_load_one**: `load_one` on any CHGCAR file content returns an object or raises `LoadError`; the file
is closed. -/
theorem chgcar_load_one (T : Tables) (ls : List Str) (path : Nat) (fs : FS) :
    ∃ st', runLoadOne loadOne (behOf (Rd.Vasp.readChgcar T ls) ls.length) path fs
        = (apiOutcome (Rd.Vasp.readChgcar T ls), st') ∧
      IsObjOrLoadError (apiOutcome (Rd.Vasp.readChgcar T ls)) ∧ st'.fs = fs ∧
      ∃ evs, st'.trace = .close :: (evs ++ [.openR]) ∧ LoadEvs evs :=
  reader_load_one _ _ _ _

/-- **locpot_terminates**: as `chgcar_terminates` (the unit conversion after `_load_vasp_grid` cannot raise). -/
theorem locpot_terminates (T : Tables) (ls : List Str) :
    ((∃ o, (Rd.Vasp.readLocpot T ls).res = .ok o) ∨ (∃ c, (Rd.Vasp.readLocpot T ls).res = .error c)) ∧
    (Rd.Vasp.readLocpot T ls).lineno ≤ ls.length + 2 := by
  refine ⟨?_, vasp_grid_bound T ls⟩
  cases (Rd.Vasp.readLocpot T ls).res with
  | ok o => exact Or.inl ⟨o, rfl⟩
  | error c => exact Or.inr ⟨c, rfl⟩

/-- **locpot_shapes**: as `chgcar_shapes`. -/
theorem locpot_shapes (T : Tables) (ls : List Str) (o : RObj) (h : (Rd.Vasp.readLocpot T ls).res = .ok o) :
    ∃ n, VaspResult o n ∧ o.cellvecs = some [3, 3] ∧
      ∃ a b c, o.cube = some [a, b, c] ∧
        ∃ k l1 l2, Rd.Vasp.gridPart k l1 = (.ok ([a, b, c], a * b * c), l2) :=
  vasp_grid_shapes T ls o h

/-- **locpot_load_one**: `load_one` on any LOCPOT file content returns an object or raises `LoadError`; the file
is closed. -/
theorem locpot_load_one (T : Tables) (ls : List Str) (path : Nat) (fs : FS) :
    ∃ st', runLoadOne loadOne (behOf (Rd.Vasp.readLocpot T ls) ls.length) path fs
        = (apiOutcome (Rd.Vasp.readLocpot T ls), st') ∧
      IsObjOrLoadError (apiOutcome (Rd.Vasp.readLocpot T ls)) ∧ st'.fs = fs ∧
      ∃ evs, st'.trace = .close :: (evs ++ [.openR]) ∧ LoadEvs evs :=
  reader_load_one _ _ _ _

/-- **poscar_failures**: whenever the POSCAR reader raises, the class is one of `StopIteration` (file too short),
`ValueError` (`float()`, `int()`, ragged rows in `np.array`, `np.dot` shapes), `KeyError` (unknown element symbol),
`IndexError` (`line[0]` of an empty string), `OverflowError` / `MemoryError` (`[n] * count`) — all of them
`Exception`s, which the funnel turns into `LoadError` (`poscar_load_one`). -/
theorem poscar_failures (T : Tables) (ls : List Str) (c : Cls) (h : (Rd.Vasp.readPoscar T ls).res = .error c) :
    c ∈ [Cls.stopIter, .value, .key, .index, .overflow, .memory] :=
  run_error_mem (Rd.Vasp.poscar_raises T) ls c h

/-- **chgcar_failures**: whenever the CHGCAR reader raises, the class is one of those of `poscar_failures`, or
`TypeError` (`np.zeros` with `float64` dimensions, the `Cube` validator on a cell that is not `(3, 3)`), or `NameError`
(`UnboundLocalError`: no line after the header, the shape loop never ran). -/
theorem chgcar_failures (T : Tables) (ls : List Str) (c : Cls) (h : (Rd.Vasp.readChgcar T ls).res = .error c) :
    c ∈ [Cls.stopIter, .value, .key, .index, .overflow, .memory, .type, .name] :=
  run_error_mem (Rd.Vasp.grid_raises T) ls c h

/-- **locpot_failures**: as `chgcar_failures`. -/
theorem locpot_failures (T : Tables) (ls : List Str) (c : Cls) (h : (Rd.Vasp.readLocpot T ls).res = .error c) :
    c ∈ [Cls.stopIter, .value, .key, .index, .overflow, .memory, .type, .name] :=
  run_error_mem (Rd.Vasp.grid_raises T) ls c h


/-! ## CHARMM CRD -/

theorem crd_good : Good Rd.Crd.loadOne := by
  unfold Rd.Crd.loadOne Rd.Crd.helper
  refine good_bind Rd.Crd.titleSec_good fun _ => good_bind good_next fun _ =>
    good_bind (good_liftE _) fun _ => good_bind (good_liftE _) fun _ =>
    good_bind (good_repeatN (good_bind good_next fun _ => good_liftE _) _) fun _ => good_pure _

/-- **crd_terminates**: on any list of lines the CRD reader (title loop: one line per iteration, the end of the
file ends it with `LoadError`; atom loop: `natom` iterations, one line each) returns an object or raises a class of
the enumeration, after at most `N + 1` reads. -/
theorem crd_terminates (ls : List Str) :
    ((∃ o, (Rd.Crd.read ls).res = .ok o) ∨ (∃ c, (Rd.Crd.read ls).res = .error c)) ∧
    (Rd.Crd.read ls).lineno ≤ ls.length + 1 := by
  refine ⟨?_, run_lineno_le crd_good.fin ls⟩
  cases (Rd.Crd.read ls).res with
  | ok o => exact Or.inl ⟨o, rfl⟩
  | error c => exact Or.inr ⟨c, rfl⟩

/-- **crd_shapes**: a returned CRD result has `atcoords (natom, 3)`, `atmasses (natom,)`, the three `atffparams`
arrays (`attypes`, `resnames`, `resnums`) and the two per-atom arrays of `extra` (`segid`, `resid`) of length
`natom` — `natom` being the count read from the file — and passes the constructor. -/
theorem crd_shapes (ls : List Str) (o : RObj) (h : (Rd.Crd.read ls).res = .ok o) :
    ∃ n, o.natom = some n ∧ o.FullyConsistent n ∧ ctorE o = none ∧
      o.atcoords = some [n, 3] ∧ o.atmasses = some [n] ∧ o.atffparams = [n, n, n] ∧ o.extraAtom = [n, n] := by
  unfold Rd.Crd.read run at h
  rcases hm : Rd.Crd.loadOne ⟨ls, 0⟩ with ⟨r, l'⟩
  rw [hm] at h
  simp only at h
  subst h
  unfold Rd.Crd.loadOne Rd.Crd.helper at hm
  obtain ⟨_, _, -, hm⟩ := bind_ok hm
  obtain ⟨_, _, -, hm⟩ := bind_ok hm
  obtain ⟨natom, _, -, hm⟩ := bind_ok hm
  obtain ⟨_, _, -, hm⟩ := bind_ok hm
  obtain ⟨_, _, -, hm⟩ := bind_ok hm
  obtain ⟨ho, -⟩ := pure_ok hm
  subst ho
  refine ⟨natom.toNat, rfl, ⟨⟨?_, ?_, ?_, ?_, ?_, ?_, ?_⟩, ?_, ?_⟩, ?_, rfl, rfl, rfl, rfl⟩ <;>
    simp [ctorE, ctorOk, RObj.natom, optShape, shapeMatch, lenOf]

/-- **crd_reads**: the number of atoms of a returned CRD result is the value of the atom-count line (the first
line after the title section's bare `*`), and all `natom` atom lines were read: at least `natom + 2` reads. -/
theorem crd_reads (ls : List Str) (o : RObj) (h : (Rd.Crd.read ls).res = .ok o) :
    ∃ n, o.natom = some n ∧ n + 2 ≤ (Rd.Crd.read ls).lineno := by
  unfold Rd.Crd.read run at h ⊢
  rcases hm : Rd.Crd.loadOne ⟨ls, 0⟩ with ⟨r, l'⟩
  rw [hm] at h
  simp only at h ⊢
  subst h
  unfold Rd.Crd.loadOne Rd.Crd.helper at hm
  obtain ⟨_, l1, ht, hm⟩ := bind_ok hm
  obtain ⟨_, l2, hn, hm⟩ := bind_ok hm
  obtain ⟨natom, l3, hc, hm⟩ := bind_ok hm
  obtain ⟨_, l4, ha, hm⟩ := bind_ok hm
  obtain ⟨_, l5, hr, hm⟩ := bind_ok hm
  obtain ⟨ho, hl⟩ := pure_ok hm
  subst ho; subst hl
  have h1 := Rd.Crd.titleSec_reads ht
  have h2 : l2.lineno = l1.lineno + 1 := by
    unfold nextLine at hn
    split at hn <;> simp at hn
    rw [← hn.2]
  obtain ⟨-, e3⟩ := liftE_ok hc
  obtain ⟨-, e4⟩ := liftE_ok ha
  subst e3; subst e4
  have h5 : ∀ (k : Nat) (a b : Lit), repeatN (RM.bind nextLine fun l => liftE (Rd.Crd.atomLine l)) k a = (.ok (), b) →
      b.lineno = a.lineno + k := by
    intro k
    induction k with
    | zero => intro a b hk; obtain ⟨-, e⟩ := pure_ok hk; subst e; rfl
    | succ k ih =>
      intro a b hk
      unfold repeatN at hk
      obtain ⟨_, a1, hb, hk⟩ := bind_ok hk
      obtain ⟨_, a2, hb1, hb2⟩ := bind_ok hb
      obtain ⟨-, e⟩ := liftE_ok hb2
      have h7 : a2.lineno = a.lineno + 1 := by
        unfold nextLine at hb1
        split at hb1 <;> simp at hb1
        rw [← hb1.2]
      have h8 := ih a1 b hk
      rw [e] at h8
      omega
  have h6 := h5 _ _ _ hr
  refine ⟨natom.toNat, rfl, ?_⟩
  simp only at h1
  omega

/-- **crd_load_one**: `load_one` on any CRD file content returns an object with consistent shapes or raises
`LoadError`; the file is closed. -/
theorem crd_load_one (ls : List Str) (path : Nat) (fs : FS) :
    ∃ st', runLoadOne loadOne (behOf (Rd.Crd.read ls) ls.length) path fs = (apiOutcome (Rd.Crd.read ls), st') ∧
      IsObjOrLoadError (apiOutcome (Rd.Crd.read ls)) ∧ st'.fs = fs ∧
      ∃ evs, st'.trace = .close :: (evs ++ [.openR]) ∧ LoadEvs evs :=
  reader_load_one _ _ _ _

/-- **crd_failures**: whenever the CRD reader raises, the class is one of `LoadError` (no bare `*` before the end
of the file; an atom-count line that is not `isdigit()`), `StopIteration` (no count line, fewer atom lines than the
count), `ValueError` (`int()` of an `isdigit()` string that is not decimal, `int()`/`float()` of a word, `np.zeros`
beyond `intp`), `MemoryError` (`np.zeros`), `IndexError` (an atom line with fewer than ten words) — all of them
`Exception`s, which the funnel turns into `LoadError` (`crd_load_one`). -/
theorem crd_failures (ls : List Str) (c : Cls) (h : (Rd.Crd.read ls).res = .error c) :
    c ∈ [Cls.load, .stopIter, .value, .memory, .index] :=
  run_error_mem Rd.Crd.crd_raises ls c h

/-- a CRD object always went through the constructor unharmed: the API returns it -/
theorem crd_ok_returns (ls : List Str) (o : RObj) (h : (Rd.Crd.read ls).res = .ok o) :
    apiOutcome (Rd.Crd.read ls) = .ret := by
  obtain ⟨n, -, -, hc, -⟩ := crd_shapes ls o h
  rw [reader_load_one_ret]
  refine ⟨o, h, ?_⟩
  unfold ctorE at hc
  by_cases hk : ctorOk o = true
  · exact hk
  · simp [hk] at hc

/-! ### non-vacuity (the generated tables, evaluated by the kernel) -/

example : (Rd.Xyz.read Gen.Layouts.tables
    [['2','\n'], ['t','\n'], ['H',' ','0',' ','0',' ','0','\n'], ['h',' ','0',' ','0',' ','1','\n']]).res
    = .ok { atnums := some [2], atcoords := some [2, 3], hasTitle := true } := by decide +kernel
example : (Rd.Xyz.read Gen.Layouts.tables [['2','\n'], ['t','\n'], ['H',' ','0',' ','0',' ','0','\n']])
    = ⟨.error .stopIter, 4⟩ := by decide +kernel
example : (Rd.Xyz.read Gen.Layouts.tables [['2','\n'], ['t','\n'], ['Q',' ','0',' ','0',' ','0','\n']])
    = ⟨.error .key, 3⟩ := by decide +kernel
example : (Rd.Xyz.read Gen.Layouts.tables [['-','1','\n'], ['t','\n']]) = ⟨.error .value, 2⟩ := by decide +kernel
example : apiOutcome (Rd.Xyz.read Gen.Layouts.tables [['2','\n'], ['t','\n']]) = .raised .load (some 3) := by
  decide +kernel

def vaspHeaderEx : List Str :=
  [['t','\n'], ['1','.','0','\n'], ['4',' ','0',' ','0','\n'], ['0',' ','4',' ','0','\n'], ['0',' ','0',' ','4','\n'],
   ['O',' ','H','\n'], ['1',' ','2','\n'], ['S','e','l','\n'], ['D','i','r','e','c','t','\n'],
   ['0',' ','0',' ','0','\n'], ['.','5',' ','0',' ','0',' ','T','\n'], ['0',' ','.','5',' ','0','\n']]

example : Rd.Vasp.readPoscar Gen.Layouts.tables vaspHeaderEx
    = ⟨.ok { atnums := some [3], atcoords := some [3, 3], cellvecs := some [3, 3], hasTitle := true }, 12⟩ := by
  decide +kernel
example : Rd.Vasp.zsum Gen.Layouts.tables vaspHeaderEx = some 10 := by decide +kernel
example : apiOutcome (Rd.Vasp.readPoscar Gen.Layouts.tables vaspHeaderEx) = .ret := by decide +kernel
example : Rd.Vasp.readChgcar Gen.Layouts.tables
      (vaspHeaderEx ++ [['\n'], ['2',' ','1',' ','2','\n'], ['1',' ','2',' ','3','\n'], ['4','e','0',' ','x','\n']])
    = ⟨.ok { atnums := some [3], atcoords := some [3, 3], cellvecs := some [3, 3], cube := some [2, 1, 2],
             hasTitle := true }, 16⟩ := by decide +kernel
/-- a truncated grid: `StopIteration` at line `N + 1` -/
example : Rd.Vasp.readLocpot Gen.Layouts.tables (vaspHeaderEx ++ [['\n'], ['2',' ','1',' ','2','\n'], ['1','\n']])
    = ⟨.error .stopIter, 16⟩ := by decide +kernel
/-- no line after the header: the shape loop never runs, `shape` is unbound -/
example : Rd.Vasp.readChgcar Gen.Layouts.tables vaspHeaderEx = ⟨.error .name, 13⟩ := by decide +kernel
/-- the bound `N + 2` is attained: the last line has four integers, the shape loop ends at the end of the file and
the value loop reads once more -/
example : Rd.Vasp.readChgcar Gen.Layouts.tables (vaspHeaderEx ++ [['1',' ','1',' ','1',' ','1','\n']])
    = ⟨.error .stopIter, 15⟩ := by decide +kernel
/-- a Cartesian atom line with two numbers: the reader returns, the constructor refuses (`LoadError`) -/
example : apiOutcome (Rd.Vasp.readPoscar Gen.Layouts.tables
      [['t','\n'], ['1','\n'], ['1',' ','0',' ','0','\n'], ['0',' ','1',' ','0','\n'], ['0',' ','0',' ','1','\n'],
       ['H','\n'], ['1','\n'], ['C','\n'], ['0',' ','0','\n']]) = .raised .load (some 9) := by decide +kernel

/-- each class of `poscar_failures` is attained: unknown symbol, empty mode line, huge counts -/
example : Rd.Vasp.readPoscar Gen.Layouts.tables (vaspHeaderEx.take 5 ++ [['o','\n']]) = ⟨.error .key, 6⟩ := by
  decide +kernel
example : Rd.Vasp.readPoscar Gen.Layouts.tables (vaspHeaderEx.take 7 ++ [[]]) = ⟨.error .index, 8⟩ := by
  decide +kernel
example : Rd.Vasp.readPoscar Gen.Layouts.tables
    (vaspHeaderEx.take 6 ++ [['9','9','9','9','9','9','9','9','9','9','9','9','9','9','9','9','9','9','9','9','\n']])
    = ⟨.error .overflow, 7⟩ := by decide +kernel
example : Rd.Vasp.readPoscar Gen.Layouts.tables
    (vaspHeaderEx.take 6 ++ [['3','0','0','0','0','0','0','0','0','0','\n']]) = ⟨.error .memory, 7⟩ := by
  decide +kernel
/-- a cell line with two numbers: `TypeError` from the `Cube` validator in the grid formats -/
example : Rd.Vasp.readChgcar Gen.Layouts.tables
    ([['t','\n'], ['1','\n'], ['1',' ','0','\n'], ['0',' ','1','\n'], ['0',' ','0','\n'], ['H','\n'], ['1','\n'],
      ['C','\n'], ['0',' ','0',' ','0','\n'], ['1',' ','1',' ','1','\n'], ['5','\n']]) = ⟨.error .type, 11⟩ := by
  decide +kernel

/-- a CRD file of two atoms (two title lines, a line without `*` that is skipped, the bare `*`) -/
def crdEx : List Str :=
  [['*',' ','t','\n'], ['x','\n'], ['*','\n'], [' ','2','\n'],
   ['1',' ','1',' ','T','H','R',' ','N',' ','1','.','5',' ','-','2',' ','3','e','0',' ','A',' ','1',' ','0','.','0','\n'],
   ['2',' ','1',' ','T','H','R',' ','C',' ','0',' ','0',' ','0',' ','A',' ','1',' ','1','2','\n']]
example : Rd.Crd.read crdEx
    = ⟨.ok { atcoords := some [2, 3], atmasses := some [2], atffparams := [2, 2, 2], extraAtom := [2, 2],
             hasTitle := true, hasAtffparams := true, hasExtra := true }, 6⟩ := by decide +kernel
example : apiOutcome (Rd.Crd.read crdEx) = .ret := by decide +kernel
example : Rd.Crd.read (crdEx.take 5) = ⟨.error .stopIter, 6⟩ := by decide +kernel
example : Rd.Crd.read (crdEx.take 3) = ⟨.error .stopIter, 4⟩ := by decide +kernel
example : Rd.Crd.read (crdEx.take 2) = ⟨.error .load, 3⟩ := by decide +kernel
example : apiOutcome (Rd.Crd.read (crdEx.take 2)) = .raised .load none := by decide +kernel
example : Rd.Crd.read (crdEx.take 3 ++ [['x','\n']]) = ⟨.error .load, 4⟩ := by decide +kernel
example : Rd.Crd.read (crdEx.take 3 ++ [['\u00b2','\n']]) = ⟨.error .value, 4⟩ := by decide +kernel
example : Rd.Crd.read (crdEx.take 3 ++ [['1','\n'], ['1',' ','1',' ','T','H','R','\n']]) = ⟨.error .index, 5⟩ := by
  decide +kernel
example : Rd.Crd.read (crdEx.take 3 ++ [['3','0','0','0','0','0','0','0','0','0','\n']]) = ⟨.error .memory, 4⟩ := by
  decide +kernel
example : apiOutcome (Rd.Crd.read (crdEx.take 5)) = .raised .load (some 6) := by decide +kernel

end Iodata.Props.C07Readers
