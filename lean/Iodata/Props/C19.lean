/-
C19 — generated Gaussian/ORCA input files describe the molecule they were generated from.

Property theorems only (helpers in `Iodata/Lemmas/Inputs.lean`).  The model
(`Iodata/Model/Inputs.lean`) is tied to `iodata/inputs/*.py` and `api.write_input` by the byte-exact
correspondence stream `input`; `Iodata/Gen/Inputs.lean` (element symbols, default templates, run-type
keyword maps, defaults, atom-line layout) is regenerated from the source on every run.
-/
import Iodata.Lemmas.Inputs
import Iodata.Gen.Inputs

set_option linter.unusedSimpArgs false

namespace Iodata.Props.C19
open Iodata.Inputs
open Iodata.Select (Str)

/-! ## geometry: one line per atom, in order -/

/-- G1. The geometry block exists iff every atom has an element symbol, and then it is the atoms'
lines, one per atom, in the order of the atoms, joined by newlines (all molecules, by induction). -/
theorem geometry_lines (t : List (Nat × Str)) (atoms : List Atom) (g : Str) :
    geometry t atoms = some g ↔
      ∃ lines : List Str, lines.length = atoms.length ∧
        (∀ i (h : i < atoms.length) (h' : i < lines.length), atomLine t atoms[i] = some lines[i]) ∧
        g = joinNl lines := by
  unfold geometry
  constructor
  · intro h
    cases hs : allSome (atoms.map (atomLine t)) with
    | none => rw [hs] at h; cases h
    | some lines =>
      rw [hs] at h
      simp only [Option.map_some, Option.some.injEq] at h
      have hl := (allSome_eq_some _ _).mp hs
      have hlen : lines.length = atoms.length := by
        have := congrArg List.length hl; simpa using this.symm
      refine ⟨lines, hlen, ?_, h.symm⟩
      intro i hi hi'
      have := congrArg (fun l => l[i]?) hl
      simp only [List.getElem?_map, List.getElem?_eq_getElem hi, List.getElem?_eq_getElem hi',
        Option.map_some, Option.some.injEq] at this
      exact this
  · rintro ⟨lines, hlen, hpt, rfl⟩
    have : allSome (atoms.map (atomLine t)) = some lines := by
      apply (allSome_eq_some _ _).mpr
      apply List.ext_getElem (by simp [hlen])
      intro i h1 h2
      simp only [List.getElem_map]
      exact hpt i (by simpa using h1) (by simpa using h2)
    rw [this]; rfl

/-- G2. A reader that splits the block at newlines gets the atom lines back, one per atom
(no atom line contains a newline, so lines cannot merge or split), provided no symbol of the table does. -/
theorem geometry_split (t : List (Nat × Str)) (ht : ∀ e ∈ t, '\n' ∉ e.2) (atoms : List Atom) (hne : atoms ≠ [])
    (g : Str) (h : geometry t atoms = some g) :
    (splitNl g).length = atoms.length ∧ (splitNl g).map some = atoms.map (atomLine t) := by
  unfold geometry at h
  cases hs : allSome (atoms.map (atomLine t)) with
  | none => rw [hs] at h; cases h
  | some lines =>
    rw [hs] at h
    simp only [Option.map_some, Option.some.injEq] at h
    have hl := (allSome_eq_some _ _).mp hs
    have hnl : ∀ l ∈ lines, '\n' ∉ l := by
      intro l hlmem
      have : some l ∈ atoms.map (atomLine t) := by rw [hl]; exact List.mem_map.mpr ⟨l, hlmem, rfl⟩
      obtain ⟨a, _, ha⟩ := List.mem_map.mp this
      unfold atomLine at ha
      cases hf : t.find? (fun e => e.1 == a.atnum) with
      | none => rw [hf] at ha; cases ha
      | some e =>
        rw [hf] at ha
        simp only [Option.some.injEq] at ha
        have he := ht e (List.mem_of_find?_eq_some hf)
        rw [← ha]
        have fx := fmtFix6_noNl a.x
        have fy := fmtFix6_noNl a.y
        have fz := fmtFix6_noNl a.z
        have key : ∀ (u v : Str), '\n' ∉ u → '\n' ∉ v → '\n' ∉ u ++ v := by
          intro u v hu hv h
          rcases List.mem_append.mp h with h | h
          · exact hu h
          · exact hv h
        have sp : ∀ v : Str, '\n' ∉ v → '\n' ∉ ' ' :: v := by
          intro v hv h
          rcases List.mem_cons.mp h with h | h
          · exact absurd h (by decide)
          · exact hv h
        have pr : '\n' ∉ padRight 3 e.2 :=
          key _ _ he (fun h => absurd (List.eq_of_mem_replicate h) (by decide))
        exact key _ _ (key _ _ (key _ _ pr (sp _ fx)) (sp _ fy)) (sp _ fz)
    have hne' : lines ≠ [] := by
      intro hh; rw [hh] at hl; simp at hl; exact hne hl
    rw [← h, splitNl_joinNl lines hne' hnl]
    exact ⟨by have := congrArg List.length hl; simpa using this.symm, hl.symm⟩

/-- G3. An atom line is the element symbol of `num2sym[atnum]` left-aligned in 3 columns followed by the
three coordinates as `10.6f` fields separated by single blanks; no line for an unknown atomic number. -/
theorem atomLine_spec (t : List (Nat × Str)) (a : Atom) :
    (atomLine t a = none ↔ ∀ e ∈ t, e.1 ≠ a.atnum) ∧
    (∀ l, atomLine t a = some l → ∃ sym, (a.atnum, sym) ∈ t ∧
        l = padRight 3 sym ++ [' '] ++ fmtFix6 a.x ++ [' '] ++ fmtFix6 a.y ++ [' '] ++ fmtFix6 a.z) := by
  unfold atomLine
  cases hf : t.find? (fun e => e.1 == a.atnum) with
  | none =>
    rw [List.find?_eq_none] at hf
    simp only [true_iff, reduceCtorEq, false_imp_iff, implies_true, and_true]
    intro e he; simpa using hf e he
  | some e =>
    have hm := List.mem_of_find?_eq_some hf
    have hk : e.1 = a.atnum := by simpa using List.find?_some hf
    simp only [reduceCtorEq, false_iff, not_forall, Option.some.injEq]
    refine ⟨⟨e, hm, by simp [hk]⟩, ?_⟩
    rintro l rfl
    refine ⟨e.2, by rw [← hk]; exact hm, by simp⟩

/-! ## fields: defaults and precedence -/

/-- P1. `geometry` is always the generated block — even a keyword argument named `geometry` cannot replace it. -/
theorem field_geometry (pf : Fields) (m : Mol) (kw : Fields) (g : Str) :
    lookup (allFields pf m kw g) sGeometry = some (.str g) := by
  simp [allFields, override, lookup_cons_self]

/-- P2. Precedence for every other field name: keyword arguments > program defaults > fields derived from the
object. -/
theorem field_precedence (pf : Fields) (m : Mol) (kw : Fields) (g : Str) (k : Str) (hk : k ≠ sGeometry) :
    lookup (allFields pf m kw g) k =
      match lookup kw k with
      | some v => some v
      | none => match lookup pf k with
        | some v => some v
        | none => lookup (baseFields m) k := by
  simp only [allFields, override]
  rw [List.singleton_append, lookup_cons_ne _ _ _ _ (Ne.symm hk), lookup_append, lookup_append]
  cases lookup kw k <;> cases lookup pf k <;> simp

/-- P3. The object-derived fields: title or the documented default; spin multiplicity = |round(spinpol)| + 1
(1 when absent); charge rounded to the nearest integer, ties to even (0 when absent). -/
theorem baseFields_spec (m : Mol) :
    lookup (baseFields m) sTitle = some (.str (m.title.getD defaultTitle)) ∧
    lookup (baseFields m) sSpinmult = some (.int (match m.spinpol with
      | some s => ((roundHalfEven s).natAbs : Int) + 1 | none => 1)) ∧
    lookup (baseFields m) sCharge = some (.int (match m.charge with
      | some c => roundHalfEven c | none => 0)) := by
  refine ⟨?_, ?_, ?_⟩
  · cases h : m.title <;> simp [baseFields, lookup, h, sTitle]
  · cases h : m.spinpol <;> simp [baseFields, lookup, h, sTitle, sSpinmult]
  · cases h : m.charge <;> simp [baseFields, lookup, h, sTitle, sSpinmult, sCharge]

/-- P3b. `roundHalfEven` is rounding to the nearest integer with ties to the even neighbour. -/
theorem roundHalfEven_spec (q : Rat) :
    |q - (roundHalfEven q : Rat)| ≤ 1 / 2 ∧
    (|q - (roundHalfEven q : Rat)| = 1 / 2 → roundHalfEven q % 2 = 0) := by
  have h1 : (q.floor : Rat) ≤ q := Rat.floor_le q
  have h2 : q < (q.floor : Rat) + 1 := by
    have := (Rat.floor_lt_iff (a := q) (x := q.floor + 1)).mp (by omega)
    push_cast at this; exact this
  unfold roundHalfEven
  simp only
  by_cases c1 : q - (q.floor : Rat) < 1 / 2
  · simp only [c1, if_true]
    constructor
    · rw [abs_le]; constructor <;> linarith
    · intro h
      rw [abs_of_nonneg (by linarith)] at h
      linarith
  · simp only [c1, if_false]
    by_cases c2 : 1 / 2 < q - (q.floor : Rat)
    · simp only [c2, if_true]
      push_cast
      constructor
      · rw [abs_le]; constructor <;> linarith
      · intro h
        rw [abs_of_nonpos (by linarith)] at h
        linarith
    · simp only [c2, if_false]
      have he : q - (q.floor : Rat) = 1 / 2 := le_antisymm (not_lt.mp c2) (not_lt.mp c1)
      by_cases c3 : q.floor % 2 = 0
      · simp only [c3, if_true]
        constructor
        · rw [he, abs_of_nonneg (by norm_num)]
        · intro _; first | exact c3 | trivial
      · simp only [c3, if_false]
        push_cast
        constructor
        · rw [abs_le]; constructor <;> linarith
        · intro _; omega

/-- P4. Program-specific fields: level of theory and basis of the object or the program's default (an empty
string counts as absent); run type of the object (default `energy`), lower-cased, mapped through the program's
keyword table — an unknown run type is an error, never a silent default. -/
theorem programFields_spec (p : Program) (m : Mol) :
    (programFields p m = none ↔
      ∀ e ∈ p.keywords, e.1 ≠ (orDefault m.runType p.defaultRunType).map lowerChar) ∧
    (∀ pf, programFields p m = some pf →
      lookup pf sLot = some (.str (orDefault m.lot p.defaultLot)) ∧
      lookup pf sBasis = some (.str (orDefault m.obasisName p.defaultBasis)) ∧
      ∃ kw, ((orDefault m.runType p.defaultRunType).map lowerChar, kw) ∈ p.keywords ∧
        lookup pf sRunType = some (.str kw)) := by
  unfold programFields
  cases hf : p.keywords.find? (fun e => e.1 == (orDefault m.runType p.defaultRunType).map lowerChar) with
  | none =>
    rw [List.find?_eq_none] at hf
    simp only [true_iff, reduceCtorEq, false_imp_iff, implies_true, and_true]
    intro e he; simpa using hf e he
  | some e =>
    have hm := List.mem_of_find?_eq_some hf
    have hk : e.1 = (orDefault m.runType p.defaultRunType).map lowerChar := by simpa using List.find?_some hf
    simp only [reduceCtorEq, false_iff, not_forall, Option.some.injEq]
    refine ⟨⟨e, hm, by simp [hk]⟩, ?_⟩
    rintro pf rfl
    refine ⟨by simp [lookup, sLot], by simp [lookup, sLot, sBasis], e.2, by rw [← hk]; exact hm, ?_⟩
    simp [lookup, sLot, sBasis, sRunType]

/-! ## errors -/

/-- E1. An unknown program name is a `FileFormatError` (and only that is); every failure while rendering —
unknown element, unknown run type, unknown template field, malformed template — is a `WriteInputError`;
no other error class exists. -/
theorem writeInput_errors (t : List (Nat × Str)) (ps : List Program) (m : Mol) (fmt : Str)
    (template : Option Str) (kw : Fields) :
    (writeInput t ps m fmt template kw = .error .fileFormatError ↔ ∀ p ∈ ps, p.name ≠ fmt) ∧
    (∀ p, ps.find? (fun p => p.name == fmt) = some p →
      (writeInput t ps m fmt template kw = .error .writeInputError ↔ render t p m template kw = none) ∧
      (∀ s, writeInput t ps m fmt template kw = .ok s ↔ render t p m template kw = some s)) := by
  unfold writeInput
  cases hf : ps.find? (fun p => p.name == fmt) with
  | none =>
    rw [List.find?_eq_none] at hf
    simp only [true_iff, reduceCtorEq, false_imp_iff, implies_true, and_true]
    intro p hp; simpa using hf p hp
  | some p =>
    have hm := List.mem_of_find?_eq_some hf
    have hk : p.name = fmt := by simpa using List.find?_some hf
    try simp only [hf]
    constructor
    · constructor
      · intro h; split at h <;> cases h
      · intro h; exact absurd hk (h p hm)
    · intro p' hp'
      cases hp'
      split
      · next hr => simp [hr]
      · next s hr => simp [hr]

/-- E2. Rendering fails exactly when the run type is unknown, an atom has no symbol, or the template cannot be
formatted with the available fields. -/
theorem render_none_iff (t : List (Nat × Str)) (p : Program) (m : Mol) (template : Option Str) (kw : Fields) :
    render t p m template kw = none ↔
      programFields p m = none ∨ geometry t m.atoms = none ∨
      ∃ pf g, programFields p m = some pf ∧ geometry t m.atoms = some g ∧
        ∃ e, format (allFields pf m kw g) (template.getD p.template) = .error e := by
  unfold render
  cases h1 : programFields p m with
  | none => simp
  | some pf =>
    cases h2 : geometry t m.atoms with
    | none => simp
    | some g =>
      cases h3 : format (allFields pf m kw g) (template.getD p.template) with
      | error e => simp [h3]
      | ok s => simp [h3]

/-! ## the tables and templates found in the source (closed by computation over `Gen/Inputs.lean`) -/

open Iodata.Gen.Inputs

/-- T1. `num2sym` covers exactly the atomic numbers 1…118, once each, with symbols of one or two letters
(so the 3-column field never overflows) free of blanks and newlines. -/
theorem num2sym_table :
    num2sym.map (·.1) = (List.range 118).map (· + 1) ∧
    (num2sym.map (·.2)).Nodup ∧
    ∀ e ∈ num2sym, 1 ≤ e.2.length ∧ e.2.length ≤ 2 ∧ '\n' ∉ e.2 ∧ ' ' ∉ e.2 := by
  decide +kernel

/-- T2. The run-type keyword maps and defaults are the documented ones. -/
theorem program_tables :
    programs.map (fun p => (p.name, p.keywords, p.defaultLot, p.defaultBasis, p.defaultRunType)) =
      [ ("gaussian".toList,
          [("energy".toList, "sp".toList), ("energy_force".toList, "force".toList), ("opt".toList, "opt".toList),
           ("scan".toList, "scan".toList), ("freq".toList, "freq".toList)],
          "hf".toList, "sto-3g".toList, "energy".toList),
        ("orca".toList,
          [("energy".toList, "Energy".toList), ("freq".toList, "Freq".toList), ("opt".toList, "Opt".toList)],
          "HF".toList, "STO-3G".toList, "energy".toList) ] := by
  decide +kernel

/-- T3. Both default atom lines have the layout the model prints — symbol in `3s`, three `10.6f` coordinates,
single blanks — take the symbol from `num2sym[atnums[i]]` and DIVIDE the coordinates by `angstrom`. -/
theorem atom_line_layout :
    ∀ e ∈ atomLineLayout,
      e.2.1 = ["{symbol:3s}".toList, " ".toList, "{atcoord[0]:10.6f}".toList, " ".toList,
               "{atcoord[1]:10.6f}".toList, " ".toList, "{atcoord[2]:10.6f}".toList] ∧
      e.2.2.1 = "data.atcoords[iatom] / angstrom".toList ∧
      e.2.2.2 = "num2sym[data.atnums[iatom]]".toList := by
  decide +kernel

/-- T4. With the default templates every file contains the level of theory, basis, run-type keyword, title,
charge, multiplicity and the geometry block, in the documented layout (for all field values). -/
theorem default_templates (lot basis rt title geom : Str) (charge mult : Int) (rest : Fields) :
    let fs : Fields := (sGeometry, .str geom) :: (sLot, .str lot) :: (sBasis, .str basis) :: (sRunType, .str rt) ::
      (sTitle, .str title) :: (sSpinmult, .int mult) :: (sCharge, .int charge) :: rest
    (programs.map (fun p => format fs p.template)) =
      [ .ok ("#n ".toList ++ lot ++ '/' :: basis ++ ' ' :: rt ++ '\n' :: '\n' :: title ++ '\n' :: '\n' ::
              intStr charge ++ ' ' :: intStr mult ++ '\n' :: geom ++ ['\n', '\n']),
        .ok ("! ".toList ++ lot ++ ' ' :: basis ++ ' ' :: rt ++ '\n' :: '#' :: ' ' :: title ++ '\n' ::
              "*xyz ".toList ++ intStr charge ++ ' ' :: intStr mult ++ '\n' :: geom ++ ['\n', '*']) ] := by
  intro fs
  simp [programs, format, formatFrom, fieldValue, lookup, isDigits, Val.render, fs,
    sGeometry, sLot, sBasis, sRunType, sTitle, sSpinmult, sCharge, Except.map]

/-! non-vacuity -/
example : fmtFix6 957200 = "  0.957200".toList ∧ fmtFix6 (-1) = " -0.000001".toList ∧
    fmtFix6 12345678901 = "12345.678901".toList ∧ fmtFix6 0 = "  0.000000".toList := by decide +kernel

example : roundHalfEven (1 / 2) = 0 ∧ roundHalfEven (3 / 2) = 2 ∧ roundHalfEven (-1 / 2) = 0 ∧
    roundHalfEven (5 / 2) = 2 ∧ roundHalfEven (3 / 5) = 1 ∧ roundHalfEven (-7 / 4) = -2 := by decide +kernel

end Iodata.Props.C19
