/-
C19 — generated Gaussian/ORCA input files describe the molecule they were generated from.

Property theorems only (helpers in `Iodata/Lemmas/Inputs.lean`).  The model
(`Iodata/Model/Inputs.lean`) is tied to `iodata/inputs/*.py` and `api.write_input` by the byte-exact
correspondence stream `input`; `Iodata/Gen/Inputs.lean` (element symbols, default templates, run-type
keyword maps, defaults, atom-line layout) is regenerated from the source on every run.
-/
import Iodata.Lemmas.Inputs
import Iodata.Gen.Inputs

set_option linter.unusedSimpArgs false

namespace Iodata.Props.C19
open Iodata.Inputs
open Iodata.Select (Str)

/-! ## geometry with the default atom line: one line per atom, in order

`geometry t atoms` is the default block written over the atoms; `geometryWith_default` (G0) shows that it is what
the generic `geometryWith` computes for the programs' `default_atom_line`, so G1–G3 are corollaries about the
model the driver runs. -/

/-- G0. With the default callback the generic geometry is the default block; an atom without a symbol makes the
default callback raise `KeyError` (an `Exception`), never a non-`str` value. -/
theorem geometryWith_default (t : List (Nat × Str)) (m : Mol) :
    geometryWith (defaultAtomLine t) m =
      match geometry t m.atoms with
      | some g => .ok g
      | none => .raised (.exception sKeyError) := by
  unfold geometryWith
  rw [range_map_default]
  exact geomOf_default t m.atoms

/-- G1. The geometry block exists iff every atom has an element symbol, and then it is the atoms'
lines, one per atom, in the order of the atoms, joined by newlines (all molecules, by induction). -/
theorem geometry_lines (t : List (Nat × Str)) (atoms : List Atom) (g : Str) :
    geometry t atoms = some g ↔
      ∃ lines : List Str, lines.length = atoms.length ∧
        (∀ i (h : i < atoms.length) (h' : i < lines.length), atomLine t atoms[i] = some lines[i]) ∧
        g = joinNl lines := by
  unfold geometry
  constructor
  · intro h
    cases hs : allSome (atoms.map (atomLine t)) with
    | none => rw [hs] at h; cases h
    | some lines =>
      rw [hs] at h
      simp only [Option.map_some, Option.some.injEq] at h
      have hl := (allSome_eq_some _ _).mp hs
      have hlen : lines.length = atoms.length := by
        have := congrArg List.length hl; simpa using this.symm
      refine ⟨lines, hlen, ?_, h.symm⟩
      intro i hi hi'
      have := congrArg (fun l => l[i]?) hl
      simp only [List.getElem?_map, List.getElem?_eq_getElem hi, List.getElem?_eq_getElem hi',
        Option.map_some, Option.some.injEq] at this
      exact this
  · rintro ⟨lines, hlen, hpt, rfl⟩
    have : allSome (atoms.map (atomLine t)) = some lines := by
      apply (allSome_eq_some _ _).mpr
      apply List.ext_getElem (by simp [hlen])
      intro i h1 h2
      simp only [List.getElem_map]
      exact hpt i (by simpa using h1) (by simpa using h2)
    rw [this]; rfl

/-- G2. A reader that splits the block at newlines gets the atom lines back, one per atom
(no atom line contains a newline, so lines cannot merge or split), provided no symbol of the table does. -/
theorem geometry_split (t : List (Nat × Str)) (ht : ∀ e ∈ t, '\n' ∉ e.2) (atoms : List Atom) (hne : atoms ≠ [])
    (g : Str) (h : geometry t atoms = some g) :
    (splitNl g).length = atoms.length ∧ (splitNl g).map some = atoms.map (atomLine t) := by
  unfold geometry at h
  cases hs : allSome (atoms.map (atomLine t)) with
  | none => rw [hs] at h; cases h
  | some lines =>
    rw [hs] at h
    simp only [Option.map_some, Option.some.injEq] at h
    have hl := (allSome_eq_some _ _).mp hs
    have hnl : ∀ l ∈ lines, '\n' ∉ l := by
      intro l hlmem
      have : some l ∈ atoms.map (atomLine t) := by rw [hl]; exact List.mem_map.mpr ⟨l, hlmem, rfl⟩
      obtain ⟨a, _, ha⟩ := List.mem_map.mp this
      unfold atomLine at ha
      cases hf : t.find? (fun e => e.1 == a.atnum) with
      | none => rw [hf] at ha; cases ha
      | some e =>
        rw [hf] at ha
        simp only [Option.some.injEq] at ha
        have he := ht e (List.mem_of_find?_eq_some hf)
        rw [← ha]
        have fx := fmtFix6_noNl a.x
        have fy := fmtFix6_noNl a.y
        have fz := fmtFix6_noNl a.z
        have key : ∀ (u v : Str), '\n' ∉ u → '\n' ∉ v → '\n' ∉ u ++ v := by
          intro u v hu hv h
          rcases List.mem_append.mp h with h | h
          · exact hu h
          · exact hv h
        have sp : ∀ v : Str, '\n' ∉ v → '\n' ∉ ' ' :: v := by
          intro v hv h
          rcases List.mem_cons.mp h with h | h
          · exact absurd h (by decide)
          · exact hv h
        have pr : '\n' ∉ padRight 3 e.2 :=
          key _ _ he (fun h => absurd (List.eq_of_mem_replicate h) (by decide))
        exact key _ _ (key _ _ (key _ _ pr (sp _ fx)) (sp _ fy)) (sp _ fz)
    have hne' : lines ≠ [] := by
      intro hh; rw [hh] at hl; simp at hl; exact hne hl
    rw [← h, splitNl_joinNl lines hne' hnl]
    exact ⟨by have := congrArg List.length hl; simpa using this.symm, hl.symm⟩

/-- G3. An atom line is the element symbol of `num2sym[atnum]` left-aligned in 3 columns followed by the
three coordinates as `10.6f` fields separated by single blanks; no line for an unknown atomic number. -/
theorem atomLine_spec (t : List (Nat × Str)) (a : Atom) :
    (atomLine t a = none ↔ ∀ e ∈ t, e.1 ≠ a.atnum) ∧
    (∀ l, atomLine t a = some l → ∃ sym, (a.atnum, sym) ∈ t ∧
        l = padRight 3 sym ++ [' '] ++ fmtFix6 a.x ++ [' '] ++ fmtFix6 a.y ++ [' '] ++ fmtFix6 a.z) := by
  unfold atomLine
  cases hf : t.find? (fun e => e.1 == a.atnum) with
  | none =>
    rw [List.find?_eq_none] at hf
    simp only [true_iff, reduceCtorEq, false_imp_iff, implies_true, and_true]
    intro e he; simpa using hf e he
  | some e =>
    have hm := List.mem_of_find?_eq_some hf
    have hk : e.1 = a.atnum := by simpa using List.find?_some hf
    simp only [reduceCtorEq, false_iff, not_forall, Option.some.injEq]
    refine ⟨⟨e, hm, by simp [hk]⟩, ?_⟩
    rintro l rfl
    refine ⟨e.2, by rw [← hk]; exact hm, by simp⟩

/-! ## geometry with an arbitrary atom-line callback -/

/-- C1 (`geometry_lines_custom`). For EVERY callback and every object: the geometry block exists iff every call
`atom_line(data, i)`, `i = 0 … natom-1`, returns a `str`, and it is then those strings, one per atom, in the order
of the atoms, joined by single newlines.  Nothing is added, dropped, re-ordered, stripped or re-formatted. -/
theorem geometry_lines_custom (f : AtomLineFn) (m : Mol) (g : Str) :
    geometryWith f m = .ok g ↔
      ∃ lines : List Str, lines.length = m.atoms.length ∧
        (∀ i (h : i < lines.length), f m i = .line lines[i]) ∧ g = joinNl lines := by
  unfold geometryWith geomOf
  constructor
  · intro h
    cases hc : collect ((List.range m.atoms.length).map (f m)) with
    | error e => simp only [hc] at h; cases h
    | ok items =>
      simp only [hc] at h
      cases ha : allSome items with
      | none => simp only [ha] at h; cases h
      | some lines =>
        simp only [ha, GeomRes.ok.injEq] at h
        have hl := (collect_ok_lines _ lines).mp ⟨items, hc, ha⟩
        have hlen : lines.length = m.atoms.length := by
          have := congrArg List.length hl; simpa using this.symm
        refine ⟨lines, hlen, ?_, h.symm⟩
        intro i hi
        have := congrArg (fun l => l[i]?) hl
        simpa [List.getElem?_map, List.getElem?_range (hlen ▸ hi), List.getElem?_eq_getElem hi] using this
  · rintro ⟨lines, hlen, hpt, rfl⟩
    have hl : (List.range m.atoms.length).map (f m) = lines.map .line := by
      apply List.ext_getElem (by simp [hlen])
      intro i h1 h2
      simp only [List.getElem_map, List.getElem_range]
      exact hpt i (by simpa using h2)
    obtain ⟨items, hc, ha⟩ := (collect_ok_lines _ lines).mpr hl
    rw [hc]; simp only [ha]

/-- C2. What a reader that splits the block at newlines sees: the lines of the first callback string, then the
lines of the second, … — `natom + (number of newline characters inside the callback strings)` lines in total.
So "one line per atom" holds for a custom callback exactly when none of its strings contains a newline (an empty
string is one empty line); a string with an embedded newline contributes two lines, the model and the code do not
prevent that. -/
theorem geometry_split_custom (f : AtomLineFn) (m : Mol) (hne : m.atoms ≠ []) (lines : List Str)
    (hlen : lines.length = m.atoms.length) (hpt : ∀ i (h : i < lines.length), f m i = .line lines[i]) :
    geometryWith f m = .ok (joinNl lines) ∧
    splitNl (joinNl lines) = lines.flatMap splitNl ∧
    (splitNl (joinNl lines)).length = m.atoms.length + (lines.map (List.count '\n')).sum ∧
    ((splitNl (joinNl lines)).length = m.atoms.length ↔ ∀ l ∈ lines, '\n' ∉ l) := by
  have hne' : lines ≠ [] := by
    intro h; rw [h] at hlen; exact hne (List.eq_nil_of_length_eq_zero hlen.symm)
  have hs := splitNl_joinNl_flatMap lines hne'
  have hl : (splitNl (joinNl lines)).length = m.atoms.length + (lines.map (List.count '\n')).sum := by
    rw [hs, length_flatMap_splitNl, hlen]
  refine ⟨(geometry_lines_custom f m _).mpr ⟨lines, hlen, hpt, rfl⟩, hs, hl, ?_⟩
  rw [hl, ← sum_count_nl_eq_zero]
  omega

/-- C3. The first call that raises ends the comprehension with that exception: the callback has been called for
atoms `0 … k` and for no later atom (whatever earlier calls returned, `str` or not). -/
theorem geometry_raise (f : AtomLineFn) (m : Mol) (k : Nat) (hk : k < m.atoms.length) (r : Raised)
    (hr : f m k = .raises r) (hpre : ∀ j, j < k → (f m j).isRaise = false) :
    geometryWith f m = .raised r ∧ geometryCalls f m = List.range (k + 1) := by
  constructor
  · unfold geometryWith geomOf
    rw [collect_raise ((List.range m.atoms.length).map (f m)) k (by simpa using hk) r
      (by simpa using hr) (fun j hj => by simpa using hpre j hj)]
  · unfold geometryCalls
    rw [callsMade_raise (f m) (List.range m.atoms.length) k (by simpa using hk)
      (by simp [hr, LineRes.isRaise]) (fun j hj => by simpa using hpre j hj)]
    rw [List.take_range]
    congr 1; omega

/-- C4. No call raises but some call returns a non-`str` object: the callback is called for EVERY atom and the
join fails (`TypeError`). -/
theorem geometry_nonStr (f : AtomLineFn) (m : Mol) (hno : ∀ j, j < m.atoms.length → (f m j).isRaise = false)
    (k : Nat) (hk : k < m.atoms.length) (hn : f m k = .nonStr) :
    geometryWith f m = .typeError ∧ geometryCalls f m = List.range m.atoms.length := by
  constructor
  · unfold geometryWith geomOf
    rw [collect_noraise _ (by
      intro r hr
      obtain ⟨j, hj, rfl⟩ := List.mem_map.mp hr
      exact hno j (by simpa using hj))]
    have : allSome (((List.range m.atoms.length).map (f m)).map LineRes.item) = none := by
      rw [allSome_eq_none]
      exact List.mem_map.mpr ⟨.nonStr, List.mem_map.mpr ⟨k, by simpa using hk, hn⟩, rfl⟩
    simp only [this]
  · unfold geometryCalls
    exact callsMade_noraise _ _ (fun i hi => hno i (by simpa using hi))

/-- C5. The calls made are always `atom_line(data, 0), …, atom_line(data, k-1)` for some `k ≤ natom`: in order,
each atom at most once, never an index outside the molecule. -/
theorem calls_initial_segment (f : AtomLineFn) (m : Mol) :
    ∃ k, k ≤ m.atoms.length ∧ geometryCalls f m = List.range k := by
  obtain ⟨k, hk, he⟩ := callsMade_prefix (f m) (List.range m.atoms.length)
  refine ⟨k, by simpa using hk, ?_⟩
  unfold geometryCalls
  rw [he, List.take_range]
  congr 1
  have : k ≤ m.atoms.length := by simpa using hk
  omega

/-! ## fields: defaults and precedence -/

/-- P1. `geometry` is always the generated block — even a keyword argument named `geometry` cannot replace it. -/
theorem field_geometry (pf : Fields) (m : Mol) (kw : Fields) (g : Str) :
    lookup (allFields pf m kw g) sGeometry = some (.str g) := by
  simp [allFields, override, lookup_cons_self]

/-- P2. Precedence for every other field name: keyword arguments > program defaults > fields derived from the
object. -/
theorem field_precedence (pf : Fields) (m : Mol) (kw : Fields) (g : Str) (k : Str) (hk : k ≠ sGeometry) :
    lookup (allFields pf m kw g) k =
      match lookup kw k with
      | some v => some v
      | none => match lookup pf k with
        | some v => some v
        | none => lookup (baseFields m) k := by
  simp only [allFields, override]
  rw [List.singleton_append, lookup_cons_ne _ _ _ _ (Ne.symm hk), lookup_append, lookup_append]
  cases lookup kw k <;> cases lookup pf k <;> simp

/-- P3. The object-derived fields: title or the documented default; spin multiplicity = |round(spinpol)| + 1
(1 when absent); charge rounded to the nearest integer, ties to even (0 when absent). -/
theorem baseFields_spec (m : Mol) :
    lookup (baseFields m) sTitle = some (.str (m.title.getD defaultTitle)) ∧
    lookup (baseFields m) sSpinmult = some (.int (match m.spinpol with
      | some s => ((roundHalfEven s).natAbs : Int) + 1 | none => 1)) ∧
    lookup (baseFields m) sCharge = some (.int (match m.charge with
      | some c => roundHalfEven c | none => 0)) := by
  refine ⟨?_, ?_, ?_⟩
  · cases h : m.title <;> simp [baseFields, lookup, h, sTitle]
  · cases h : m.spinpol <;> simp [baseFields, lookup, h, sTitle, sSpinmult]
  · cases h : m.charge <;> simp [baseFields, lookup, h, sTitle, sSpinmult, sCharge]

/-- P3b. `roundHalfEven` is rounding to the nearest integer with ties to the even neighbour. -/
theorem roundHalfEven_spec (q : Rat) :
    |q - (roundHalfEven q : Rat)| ≤ 1 / 2 ∧
    (|q - (roundHalfEven q : Rat)| = 1 / 2 → roundHalfEven q % 2 = 0) := by
  have h1 : (q.floor : Rat) ≤ q := Rat.floor_le q
  have h2 : q < (q.floor : Rat) + 1 := by
    have := (Rat.floor_lt_iff (a := q) (x := q.floor + 1)).mp (by omega)
    push_cast at this; exact this
  unfold roundHalfEven
  simp only
  by_cases c1 : q - (q.floor : Rat) < 1 / 2
  · simp only [c1, if_true]
    constructor
    · rw [abs_le]; constructor <;> linarith
    · intro h
      rw [abs_of_nonneg (by linarith)] at h
      linarith
  · simp only [c1, if_false]
    by_cases c2 : 1 / 2 < q - (q.floor : Rat)
    · simp only [c2, if_true]
      push_cast
      constructor
      · rw [abs_le]; constructor <;> linarith
      · intro h
        rw [abs_of_nonpos (by linarith)] at h
        linarith
    · simp only [c2, if_false]
      have he : q - (q.floor : Rat) = 1 / 2 := le_antisymm (not_lt.mp c2) (not_lt.mp c1)
      by_cases c3 : q.floor % 2 = 0
      · simp only [c3, if_true]
        constructor
        · rw [he, abs_of_nonneg (by norm_num)]
        · intro _; first | exact c3 | trivial
      · simp only [c3, if_false]
        push_cast
        constructor
        · rw [abs_le]; constructor <;> linarith
        · intro _; omega

/-- P4. Program-specific fields: level of theory and basis of the object or the program's default (an empty
string counts as absent); run type of the object (default `energy`), lower-cased, mapped through the program's
keyword table — an unknown run type is an error, never a silent default. -/
theorem programFields_spec (p : Program) (m : Mol) :
    (programFields p m = none ↔
      ∀ e ∈ p.keywords, e.1 ≠ (orDefault m.runType p.defaultRunType).map lowerChar) ∧
    (∀ pf, programFields p m = some pf →
      lookup pf sLot = some (.str (orDefault m.lot p.defaultLot)) ∧
      lookup pf sBasis = some (.str (orDefault m.obasisName p.defaultBasis)) ∧
      ∃ kw, ((orDefault m.runType p.defaultRunType).map lowerChar, kw) ∈ p.keywords ∧
        lookup pf sRunType = some (.str kw)) := by
  unfold programFields
  cases hf : p.keywords.find? (fun e => e.1 == (orDefault m.runType p.defaultRunType).map lowerChar) with
  | none =>
    rw [List.find?_eq_none] at hf
    simp only [true_iff, reduceCtorEq, false_imp_iff, implies_true, and_true]
    intro e he; simpa using hf e he
  | some e =>
    have hm := List.mem_of_find?_eq_some hf
    have hk : e.1 = (orDefault m.runType p.defaultRunType).map lowerChar := by simpa using List.find?_some hf
    simp only [reduceCtorEq, false_iff, not_forall, Option.some.injEq]
    refine ⟨⟨e, hm, by simp [hk]⟩, ?_⟩
    rintro pf rfl
    refine ⟨by simp [lookup, sLot], by simp [lookup, sLot, sBasis], e.2, by rw [← hk]; exact hm, ?_⟩
    simp [lookup, sLot, sBasis, sRunType]

/-! ## errors, file state and the callback -/

/-- E1. Outcome of `api.write_input` for every program name, object, template, callback and keyword arguments.
An unknown program name is a `FileFormatError` (and only that is) and then the file is NOT opened and the callback
never called.  For a known program the file HAS been opened for writing (created or truncated) before anything is
rendered; every `Exception` while rendering is a `WriteInputError`, a `BaseException` that is not an `Exception`
leaves unchanged, and in both cases the file stays behind EMPTY (the text is printed in one piece after rendering
succeeded).  No other error class exists. -/
theorem run_errors (t : List (Nat × Str)) (ps : List Program) (m : Mol) (fmt : Str)
    (template : Option Str) (cb : Option AtomLineFn) (kw : Fields) :
    ((run t ps m fmt template cb kw).error = some .fileFormatError ↔ ∀ p ∈ ps, p.name ≠ fmt) ∧
    ((∀ p ∈ ps, p.name ≠ fmt) → run t ps m fmt template cb kw = ⟨some .fileFormatError, none, []⟩) ∧
    (∀ p, ps.find? (fun p => p.name == fmt) = some p →
      (run t ps m fmt template cb kw).calls = renderCalls t p m cb ∧
      (run t ps m fmt template cb kw).file ≠ none ∧
      ((run t ps m fmt template cb kw).error ≠ none → (run t ps m fmt template cb kw).file = some []) ∧
      ((run t ps m fmt template cb kw).error = some .writeInputError ↔ render t p m template cb kw = .fail) ∧
      (∀ c, (run t ps m fmt template cb kw).error = some (.passThrough c) ↔ render t p m template cb kw = .pass c) ∧
      (∀ s, ((run t ps m fmt template cb kw).error = none ∧ (run t ps m fmt template cb kw).file = some s) ↔
        render t p m template cb kw = .ok s)) := by
  unfold run
  cases hf : ps.find? (fun p => p.name == fmt) with
  | none =>
    rw [List.find?_eq_none] at hf
    have hall : ∀ p ∈ ps, p.name ≠ fmt := fun p hp => by simpa using hf p hp
    simp
    exact hall
  | some p =>
    have hm := List.mem_of_find?_eq_some hf
    have hk : p.name = fmt := by simpa using List.find?_some hf
    have hnot : ¬ ∀ p ∈ ps, p.name ≠ fmt := fun h => h p hm hk
    refine ⟨?_, fun h => absurd h hnot, ?_⟩
    · simp only [hnot, iff_false]
      generalize render t p m template cb kw = r
      cases r <;> simp
    · intro p' hp'
      cases hp'
      dsimp only
      generalize render t p m template cb kw = r
      cases r <;> simp

/-- E2. Rendering ends with an `Exception` exactly when the run type is unknown, a callback raises an `Exception`,
a callback returns a non-`str` (and none raises), or the template cannot be formatted with the available fields. -/
theorem render_fail_iff (t : List (Nat × Str)) (p : Program) (m : Mol) (template : Option Str)
    (cb : Option AtomLineFn) (kw : Fields) :
    render t p m template cb kw = .fail ↔
      programFields p m = none ∨
      ∃ pf, programFields p m = some pf ∧
        ((∃ c, geometryWith (cb.getD (defaultAtomLine t)) m = .raised (.exception c)) ∨
         geometryWith (cb.getD (defaultAtomLine t)) m = .typeError ∨
         ∃ g e, geometryWith (cb.getD (defaultAtomLine t)) m = .ok g ∧
           format (allFields pf m kw g) (template.getD p.template) = .error e) := by
  unfold render
  cases h1 : programFields p m with
  | none => simp
  | some pf =>
    cases h2 : geometryWith (cb.getD (defaultAtomLine t)) m with
    | raised r => cases r <;> simp
    | typeError => simp
    | ok g =>
      cases h3 : format (allFields pf m kw g) (template.getD p.template) with
      | error e => simp [h3]
      | ok s => simp [h3]

/-- E3. Rendering lets a `BaseException` through exactly when the run type is known and the first raising call of
the callback raises it; the programs' default callbacks never do. -/
theorem render_pass_iff (t : List (Nat × Str)) (p : Program) (m : Mol) (template : Option Str)
    (cb : Option AtomLineFn) (kw : Fields) (c : Str) :
    (render t p m template cb kw = .pass c ↔
      programFields p m ≠ none ∧ geometryWith (cb.getD (defaultAtomLine t)) m = .raised (.baseOnly c)) ∧
    render t p m template none kw ≠ .pass c := by
  constructor
  · unfold render
    cases h1 : programFields p m with
    | none => simp
    | some pf =>
      cases h2 : geometryWith (cb.getD (defaultAtomLine t)) m with
      | raised r => cases r <;> simp
      | typeError => simp
      | ok g => cases h3 : format (allFields pf m kw g) (template.getD p.template) <;> simp [h3]
  · unfold render
    cases h1 : programFields p m with
    | none => simp
    | some pf =>
      simp only [Option.getD_none, geometryWith_default]
      cases geometry t m.atoms with
      | none => simp
      | some g => cases h3 : format (allFields pf m kw g) (template.getD p.template) <;> simp [h3]

/-- E4 (default callback, the former E2). Without a callback rendering fails exactly when the run type is unknown,
an atom has no symbol, or the template cannot be formatted with the available fields. -/
theorem render_default_fail_iff (t : List (Nat × Str)) (p : Program) (m : Mol) (template : Option Str)
    (kw : Fields) :
    render t p m template none kw = .fail ↔
      programFields p m = none ∨ geometry t m.atoms = none ∨
      ∃ pf g, programFields p m = some pf ∧ geometry t m.atoms = some g ∧
        ∃ e, format (allFields pf m kw g) (template.getD p.template) = .error e := by
  unfold render
  cases h1 : programFields p m with
  | none => simp
  | some pf =>
    simp only [Option.getD_none, geometryWith_default]
    cases h2 : geometry t m.atoms with
    | none => simp
    | some g =>
      cases h3 : format (allFields pf m kw g) (template.getD p.template) with
      | error e => simp [h3]
      | ok s => simp [h3]

/-- E5 (`callback_failure_is_WriteInputError`). Known program, known run type, and the callback's first raising
call is at atom `k`.  If it raises an instance of ANY subclass of `Exception`, `write_input` raises
`WriteInputError`; if it raises a `BaseException` that is not an `Exception` (KeyboardInterrupt, SystemExit,
GeneratorExit, …) that exception propagates unchanged.  In both cases the output file has already been opened —
it exists and is empty, previous content is gone — and the callback was called exactly for atoms `0 … k`.
Template, keyword arguments and later atoms play no role. -/
theorem callback_failure_is_WriteInputError (t : List (Nat × Str)) (ps : List Program) (m : Mol) (fmt : Str)
    (template : Option Str) (f : AtomLineFn) (kw : Fields) (p : Program)
    (hp : ps.find? (fun p => p.name == fmt) = some p) (hrt : programFields p m ≠ none)
    (k : Nat) (hk : k < m.atoms.length) (hpre : ∀ j, j < k → (f m j).isRaise = false) :
    (∀ c, f m k = .raises (.exception c) →
      run t ps m fmt template (some f) kw = ⟨some .writeInputError, some [], List.range (k + 1)⟩) ∧
    (∀ c, f m k = .raises (.baseOnly c) →
      run t ps m fmt template (some f) kw = ⟨some (.passThrough c), some [], List.range (k + 1)⟩) := by
  cases hpf : programFields p m with
  | none => exact absurd hpf hrt
  | some pf =>
    constructor <;> intro c hc
    all_goals
      obtain ⟨hg, hcalls⟩ := geometry_raise f m k hk _ hc hpre
      simp [run, hp, render, renderCalls, hpf, hg, hcalls]

/-- E6. Known program and run type, no call raises, some call returns a non-`str`: `WriteInputError`
(from the `TypeError` of the join), file opened and empty, callback called for every atom. -/
theorem callback_nonstring_is_WriteInputError (t : List (Nat × Str)) (ps : List Program) (m : Mol) (fmt : Str)
    (template : Option Str) (f : AtomLineFn) (kw : Fields) (p : Program)
    (hp : ps.find? (fun p => p.name == fmt) = some p) (hrt : programFields p m ≠ none)
    (hno : ∀ j, j < m.atoms.length → (f m j).isRaise = false)
    (k : Nat) (hk : k < m.atoms.length) (hn : f m k = .nonStr) :
    run t ps m fmt template (some f) kw = ⟨some .writeInputError, some [], List.range m.atoms.length⟩ := by
  cases hpf : programFields p m with
  | none => exact absurd hpf hrt
  | some pf =>
    obtain ⟨hg, hcalls⟩ := geometry_nonStr f m hno k hk hn
    simp [run, hp, render, renderCalls, hpf, hg, hcalls]

/-- E7. Failures that precede the callback: for an unknown program or an unknown run type the callback is never
called, whatever it would do (even raise `KeyboardInterrupt`); the former leaves the file untouched, the latter
leaves it opened and empty. -/
theorem callback_not_called (t : List (Nat × Str)) (ps : List Program) (m : Mol) (fmt : Str)
    (template : Option Str) (cb : Option AtomLineFn) (kw : Fields) :
    ((∀ p ∈ ps, p.name ≠ fmt) → run t ps m fmt template cb kw = ⟨some .fileFormatError, none, []⟩) ∧
    (∀ p, ps.find? (fun p => p.name == fmt) = some p → programFields p m = none →
      run t ps m fmt template cb kw = ⟨some .writeInputError, some [], []⟩) := by
  refine ⟨(run_errors t ps m fmt template cb kw).2.1, ?_⟩
  intro p hp hpf
  simp [run, hp, render, renderCalls, hpf]

/-- E8 (precedence). A user callback REPLACES the program's default for every atom: the outcome does not depend on
the element table at all (the default is never consulted), and omitting the callback is the same as passing the
program's `default_atom_line`. -/
theorem callback_replaces_default (t t' : List (Nat × Str)) (ps : List Program) (m : Mol) (fmt : Str)
    (template : Option Str) (f : AtomLineFn) (kw : Fields) :
    run t ps m fmt template (some f) kw = run t' ps m fmt template (some f) kw ∧
    run t ps m fmt template none kw = run t ps m fmt template (some (defaultAtomLine t)) kw := by
  constructor <;> simp [run, render, renderCalls]

/-- E9. With a callback that returns a `str` for every atom the `geometry` field handed to the template is the join
of ITS strings (for any atomic numbers, also ones without an element symbol), the callback is called once per atom
in order, and the only remaining failure is the template. -/
theorem custom_geometry_rendered (t : List (Nat × Str)) (ps : List Program) (m : Mol) (fmt : Str)
    (template : Option Str) (f : AtomLineFn) (kw : Fields) (p : Program) (pf : Fields)
    (hp : ps.find? (fun p => p.name == fmt) = some p) (hpf : programFields p m = some pf)
    (lines : List Str) (hlen : lines.length = m.atoms.length)
    (hpt : ∀ i (h : i < lines.length), f m i = .line lines[i]) :
    run t ps m fmt template (some f) kw =
      match format (allFields pf m kw (joinNl lines)) (template.getD p.template) with
      | .ok s => ⟨none, some (s ++ ['\n']), List.range m.atoms.length⟩
      | .error _ => ⟨some .writeInputError, some [], List.range m.atoms.length⟩ := by
  have hg := (geometry_lines_custom f m _).mpr ⟨lines, hlen, hpt, rfl⟩
  have hcalls : geometryCalls f m = List.range m.atoms.length :=
    callsMade_noraise _ _ (fun i hi => by
      have hi' : i < lines.length := by rw [hlen]; simpa using hi
      simp [hpt i hi', LineRes.isRaise])
  simp only [run, hp, render, renderCalls, hpf, Option.getD_some, hg, hcalls]
  cases format (allFields pf m kw (joinNl lines)) (template.getD p.template) <;> rfl

/-! ## the tables and templates found in the source (closed by computation over `Gen/Inputs.lean`) -/

open Iodata.Gen.Inputs

/-- T1. `num2sym` covers exactly the atomic numbers 1…118, once each, with symbols of one or two letters
(so the 3-column field never overflows) free of blanks and newlines. -/
theorem num2sym_table :
    num2sym.map (·.1) = (List.range 118).map (· + 1) ∧
    (num2sym.map (·.2)).Nodup ∧
    ∀ e ∈ num2sym, 1 ≤ e.2.length ∧ e.2.length ≤ 2 ∧ '\n' ∉ e.2 ∧ ' ' ∉ e.2 := by
  decide +kernel

/-- T2. The run-type keyword maps and defaults are the documented ones. -/
theorem program_tables :
    programs.map (fun p => (p.name, p.keywords, p.defaultLot, p.defaultBasis, p.defaultRunType)) =
      [ ("gaussian".toList,
          [("energy".toList, "sp".toList), ("energy_force".toList, "force".toList), ("opt".toList, "opt".toList),
           ("scan".toList, "scan".toList), ("freq".toList, "freq".toList)],
          "hf".toList, "sto-3g".toList, "energy".toList),
        ("orca".toList,
          [("energy".toList, "Energy".toList), ("freq".toList, "Freq".toList), ("opt".toList, "Opt".toList)],
          "HF".toList, "STO-3G".toList, "energy".toList) ] := by
  decide +kernel

/-- T3. Both default atom lines have the layout the model prints — symbol in `3s`, three `10.6f` coordinates,
single blanks — take the symbol from `num2sym[atnums[i]]` and DIVIDE the coordinates by `angstrom`. -/
theorem atom_line_layout :
    ∀ e ∈ atomLineLayout,
      e.2.1 = ["{symbol:3s}".toList, " ".toList, "{atcoord[0]:10.6f}".toList, " ".toList,
               "{atcoord[1]:10.6f}".toList, " ".toList, "{atcoord[2]:10.6f}".toList] ∧
      e.2.2.1 = "data.atcoords[iatom] / angstrom".toList ∧
      e.2.2.2 = "num2sym[data.atnums[iatom]]".toList := by
  decide +kernel

/-- T4. With the default templates every file contains the level of theory, basis, run-type keyword, title,
charge, multiplicity and the geometry block, in the documented layout (for all field values). -/
theorem default_templates (lot basis rt title geom : Str) (charge mult : Int) (rest : Fields) :
    let fs : Fields := (sGeometry, .str geom) :: (sLot, .str lot) :: (sBasis, .str basis) :: (sRunType, .str rt) ::
      (sTitle, .str title) :: (sSpinmult, .int mult) :: (sCharge, .int charge) :: rest
    (programs.map (fun p => format fs p.template)) =
      [ .ok ("#n ".toList ++ lot ++ '/' :: basis ++ ' ' :: rt ++ '\n' :: '\n' :: title ++ '\n' :: '\n' ::
              intStr charge ++ ' ' :: intStr mult ++ '\n' :: geom ++ ['\n', '\n']),
        .ok ("! ".toList ++ lot ++ ' ' :: basis ++ ' ' :: rt ++ '\n' :: '#' :: ' ' :: title ++ '\n' ::
              "*xyz ".toList ++ intStr charge ++ ' ' :: intStr mult ++ '\n' :: geom ++ ['\n', '*']) ] := by
  intro fs
  simp [programs, format, formatFrom, fieldValue, lookup, isDigits, Val.render, fs,
    sGeometry, sLot, sBasis, sRunType, sTitle, sSpinmult, sCharge, Except.map]

/-! non-vacuity -/
example : fmtFix6 957200 = "  0.957200".toList ∧ fmtFix6 (-1) = " -0.000001".toList ∧
    fmtFix6 12345678901 = "12345.678901".toList ∧ fmtFix6 0 = "  0.000000".toList := by decide +kernel

example : roundHalfEven (1 / 2) = 0 ∧ roundHalfEven (3 / 2) = 2 ∧ roundHalfEven (-1 / 2) = 0 ∧
    roundHalfEven (5 / 2) = 2 ∧ roundHalfEven (3 / 5) = 1 ∧ roundHalfEven (-7 / 4) = -2 := by decide +kernel

/-- a callback that ignores the elements: text with braces for atom 0, two lines for atom 1, empty for atom 2 -/
private def demoCb : AtomLineFn := fun _ i =>
  match i with
  | 0 => .line ['{','l','o','t','}']
  | 1 => .line ['a','\n','b']
  | 2 => .line []
  | 3 => .raises (.baseOnly ['K','I'])
  | 4 => .nonStr
  | _ => .raises (.exception ['Z'])

private def demoMol (n : Nat) : Mol := ⟨List.replicate n ⟨0, 0, 0, 0⟩, none, none, none, none, none, none⟩

/-- atomic number 0 has no symbol, yet the custom callback renders; braces are not re-interpreted; the block of
three atoms splits into four lines -/
example : run num2sym programs (demoMol 3) "orca".toList (some "{geometry}|".toList) (some demoCb) [] =
    ⟨none, some "{lot}\na\nb\n|\n".toList, [0, 1, 2]⟩ := by decide +kernel
example : run num2sym programs (demoMol 3) "orca".toList (some "{geometry}|".toList) none [] =
    ⟨some .writeInputError, some [], [0]⟩ := by decide +kernel
example : run num2sym programs (demoMol 5) "gaussian".toList none (some demoCb) [] =
    ⟨some (.passThrough ['K','I']), some [], [0, 1, 2, 3]⟩ := by decide +kernel
example : run num2sym programs (demoMol 9) "nwchem".toList none (some demoCb) [] =
    ⟨some .fileFormatError, none, []⟩ := by decide +kernel
example : splitNl (joinNl [['{','l','o','t','}'], ['a','\n','b'], []]) =
    [['{','l','o','t','}'], ['a'], ['b'], []] := by decide +kernel

end Iodata.Props.C19
