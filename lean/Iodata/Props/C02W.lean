/-
C02 — save-then-reload returns the same data: second group of formats (FCIDUMP full file, POSCAR text, FCHK object
mapping, WFN / WFX sections, QCSchema molecule core).

Property theorems only, in the form `load (dump o) = ok (norm o)` for *every* object of the explicit domain; the layout and
source facts actually used by iodata (`Gen.LayoutsW`, regenerated from the source on every run) are shown to satisfy the
side conditions and to have the shape the models assume, by computation.  The models are the ones the driver executes in
the `fmtw dump` / `fmtw load` correspondence streams.
-/
import Iodata.Lemmas.Fmt.FcidumpW
import Iodata.Lemmas.Fmt.PoscarW
import Iodata.Lemmas.Fmt.FchkO
import Iodata.Lemmas.Fmt.WfnS
import Iodata.Lemmas.Fmt.WfxS
import Iodata.Lemmas.Fmt.Qcs
import Iodata.Gen.LayoutsW

namespace Iodata.Props.C02W
open Iodata.Chars Iodata.Decimal Iodata.Fmt Iodata.Gen.Layouts Iodata.Gen.LayoutsW

/-! ## FCIDUMP (full file) -/

/-- FCIDUMP: reading back the written file gives the object — for every number of orbitals, every symmetric one-electron
matrix and 8-fold symmetric two-electron array (zero elements, of either sign, are not written and come back as `0.0`),
present or absent core energy (absent → `0.0`), and any real `nelec` / `spinpol` (rounded to the nearest integer, ties to
even, by the writer).  Every real is reproduced to all 17 printed digits (mantissa and exponent). -/
theorem fcidump_load_dump (L : FcidumpW.Layout) (hL : FcidumpW.LayoutOK L) (o : FcidumpW.Obj) (h : FcidumpW.Dom L o) :
    FcidumpW.load L (FcidumpW.dump L o) = .ok (FcidumpW.norm o) :=
  FcidumpW.load_dump L hL o h

/-- FCIDUMP: what `norm` keeps — inside the arrays every non-zero element exactly, position by position (no permutation,
no sign change, no rescaling); integral electron counts exactly. -/
theorem fcidump_norm_faithful (o : FcidumpW.Obj) :
    (∀ i j, i < o.n → j < o.n → (o.one i j).man ≠ 0 → (FcidumpW.norm o).one i j = o.one i j) ∧
    (∀ p, FcidumpW.inRange o.n p → (o.two p).man ≠ 0 → (FcidumpW.norm o).two p = o.two p) ∧
    (∀ k : Int, o.nelec = some (k, 1) → (FcidumpW.norm o).nelec = k) ∧
    (∀ k : Int, o.spinpol = some (k, 1) → (FcidumpW.norm o).spinpol = k) ∧
    (∀ c, o.core = some c → (FcidumpW.norm o).core = c) := by
  refine ⟨?_, ?_, ?_, ?_, ?_⟩
  · intro i j hi hj hm; simp [FcidumpW.norm, hi, hj, FcidumpW.cz_of_ne hm]
  · intro p hp hm; simp [FcidumpW.norm, hp, FcidumpW.cz_of_ne hm]
  · intro k hk; simp [FcidumpW.norm, hk, FcidumpW.roundOpt_int]
  · intro k hk; simp [FcidumpW.norm, hk, FcidumpW.roundOpt_int]
  · intro c hc; simp [FcidumpW.norm, hc]

/-- FCIDUMP: `int(round(x))` as modelled: nearest integer, ties to even — `9.999999999999998 → 10` (a truncating
`int(x)` would give 9), `2.5 → 2`, `3.5 → 4`, `-0.5 → 0`, `-1.5 → -2`. -/
theorem fcidump_round_examples :
    FcidumpW.pyRound 9999999999999998 1000000000000000 = 10 ∧ FcidumpW.pyRound 5 2 = 2 ∧ FcidumpW.pyRound 7 2 = 4 ∧
    FcidumpW.pyRound (-1) 2 = 0 ∧ FcidumpW.pyRound (-3) 2 = -2 ∧ FcidumpW.pyRound 9 1 = 9 := by decide

/-- FCIDUMP: the layout in the source satisfies the side conditions; writer and reader in the source have the shape the
model transcribes (field widths and literals of the seven `print` calls; `int(round(… or 0))` conversions; the element
`two_mo[i0, i2, i1, i3]` printed under the canonical-loop condition; zero tests; the reader's header literal, cut column,
namelist keys, end markers, word positions, and the fill `set_four_index_element(two_mo, ii, ik, ij, il, value)`). -/
theorem fcidump_source_shape :
    FcidumpW.LayoutOK fcidumpL ∧ fcidump_writes = FcidumpW.expectedWrites fcidumpL ∧ fcidumpSource = FcidumpW.expectedSource := by
  decide +kernel

/-- non-vacuity: a domain object with two orbitals (constant arrays are 8-fold symmetric), `nelec = 9.999999999999998`,
and its written header line. -/
example : FcidumpW.Dom fcidumpL ⟨2, fun _ _ => ⟨true, 12345678901234567, -3⟩, fun _ => ⟨false, 10000000000000000, 0⟩,
    some ⟨true, 0, 0⟩, some (9999999999999998, 1000000000000000), none⟩ :=
  ⟨fun _ _ => rfl, ⟨fun _ => rfl, fun _ => rfl, fun _ => rfl⟩,
   fun _ _ => (by decide : (12345678901234567 : Nat) < 10 ^ (16 + 1)), fun _ => (by decide : (10000000000000000 : Nat) < 10 ^ (16 + 1)),
   fun c hc => by cases hc; exact (by decide : (0 : Nat) < 10 ^ (16 + 1))⟩

example : (FcidumpW.dump fcidumpL ⟨1, fun _ _ => ⟨true, 12345678901234567, -3⟩, fun _ => ⟨false, 10000000000000000, 0⟩,
    none, some (9999999999999998, 1000000000000000), some (1, 2)⟩) =
    [" &FCI NORB=1,NELEC=10,MS2=0,\n".toList, "  ORBSYM= 1,\n".toList, "  ISYM=1\n".toList, " &END\n".toList,
     " 1.0000000000000000e+00    1    1    1    1\n".toList, "-1.2345678901234567e-03    1    1    0    0\n".toList] := by
  decide +kernel

/-! ## POSCAR (text layer over the structure layer) -/

/-- POSCAR: reading back the written file gives the numbers of the file digit by digit (cell rows, direct coordinates of
every atom, all 16 decimals, any magnitude and sign incl. `-0`), the title (default when absent), and the atoms in the
documented grouping (by element, heaviest first, original order inside a group) — for every number of atoms and every
element of the table. -/
theorem poscar_load_dump (T : Tables) (L : PoscarW.Layout) (hL : PoscarW.LayoutOK L) (o : PoscarW.Obj) (h : PoscarW.Dom T o) :
    PoscarW.load T L (PoscarW.dump T L o) = .ok (PoscarW.norm L o) :=
  PoscarW.load_dump T L hL o h

/-- POSCAR: the only re-ordering is the grouping, which is a permutation that keeps every atom's element and coordinates
together (records are never split), keeps the order inside an element, and is the identity on an already grouped list. -/
theorem poscar_reordering (L : PoscarW.Layout) (o : PoscarW.Obj) :
    (PoscarW.norm L o).atoms.Perm o.atoms ∧
    (∀ z, (PoscarW.norm L o).atoms.filter (fun a => a.zn == z) = o.atoms.filter (fun a => a.zn == z)) ∧
    (PoscarW.norm L o).cell = o.cell :=
  ⟨Poscar.group_perm _ _, fun z => Poscar.group_stable _ _ z, rfl⟩

/-- POSCAR: the layout in the source satisfies the side conditions, every element Z = 1..118 is usable in the element
line, and writer / reader in the source have the shape the model transcribes (eight `print` calls with their fields;
`rvec / angstrom`, the descending element order, `inv(cell).T`, `np.dot(gvecs, r)`; the reader's `s` / `c k` switches,
`split()[:3]`, `angstrom * scaling`, `np.dot(frac, cellvecs)`). -/
theorem poscar_source_shape :
    PoscarW.LayoutOK poscarL ∧ (∀ z ∈ List.range' 1 118, PoscarW.okZ tables z = true) ∧
    poscar_writes = PoscarW.expectedWrites poscarL ∧ poscarSource = PoscarW.expectedSource ∧
    PoscarW.scaleVal poscarL = ⟨false, 10 ^ poscarL.scaleD⟩ := by
  decide +kernel

/-- non-vacuity: a domain object whose numbers fill and overflow the 21 columns, with `-0`, and its file. -/
example : PoscarW.Dom tables ⟨[], [⟨⟨false, 99999999999999999999⟩, ⟨true, 0⟩, ⟨false, 0⟩⟩, ⟨⟨true, 1234567890123456⟩, ⟨false, 5⟩, ⟨false, 0⟩⟩,
    ⟨⟨false, 0⟩, ⟨false, 0⟩, ⟨true, 123456789012345678901⟩⟩], [⟨1, ⟨⟨false, 0⟩, ⟨false, 5000000000000000⟩, ⟨true, 1⟩⟩⟩, ⟨8, ⟨⟨false, 0⟩, ⟨false, 0⟩, ⟨false, 0⟩⟩⟩]⟩ := by
  decide +kernel

example : PoscarW.dump tables poscarL ⟨[], [⟨⟨false, 99999999999999999999⟩, ⟨true, 0⟩, ⟨false, 0⟩⟩], [⟨1, ⟨⟨false, 0⟩, ⟨false, 5000000000000000⟩, ⟨true, 1⟩⟩⟩, ⟨8, ⟨⟨false, 0⟩, ⟨false, 0⟩, ⟨false, 0⟩⟩⟩]⟩ =
    ["Created with IOData\n".toList, "   1.00000000000000\n".toList,
     " 9999.9999999999999999   -0.0000000000000000    0.0000000000000000\n".toList, "O     H    \n".toList, "    1     1\n".toList,
     "Selective dynamics\n".toList, "Direct\n".toList,
     "     0.0000000000000000    0.0000000000000000    0.0000000000000000   F   F   F\n".toList,
     "     0.0000000000000000    0.5000000000000000   -0.0000000000000001   F   F   F\n".toList] := by
  decide +kernel

/-! ## FCHK object mapping (over the proved field layer of `Props/C02`) -/

/-- FCHK objects: writing an object through the writer table and reading the file through the reader table returns
every attribute the two tables share, under its own name, with its own value: flattened arrays element by element,
symmetric matrices (Hessian, polarizability, the four density matrices) from their row-major lower triangle for every
size, the quadrupole through the two index vectors, the header fields as in the field layer.  For all tables satisfying
`TablesOK` and all objects of the domain. -/
theorem fchkobj_load_dump (L : Fchk.Layout) (hL : Fchk.LayoutOK L) (Rn : Fchk.RunTypes) (hR : Fchk.RunTypesOK L Rn)
    (W R : List FchkO.Row) (o : FchkO.Obj)
    (hT : FchkO.TablesOK (FchkO.resolve (FchkO.levelOf L.absent o.lot) W) R) (h : FchkO.Dom L W o) :
    FchkO.load L Rn R (FchkO.dump L Rn W o) = .ok (FchkO.norm L Rn W R o) :=
  FchkO.load_dump L hL Rn hR W R o hT h

/-- FCHK objects: what `norm` keeps — an attribute with a writer row `w` and a reader row `r` on the same label comes
back as `r.attr = w.attr` with the value it had (nothing permuted, rescaled or attached to another attribute). -/
theorem fchkobj_norm_faithful (W R : List FchkO.Row) (hT : FchkO.TablesOK W R) (s : FchkO.Store) (r w : FchkO.Row) (hr : r ∈ R)
    (hw : FchkO.findW W r.label = some w) :
    w.attr = r.attr ∧ FchkO.get (FchkO.normStore W R s) r.attr = FchkO.get s r.attr := by
  have hwm : w ∈ W := List.mem_of_find?_eq_some hw
  have hwl : w.label = r.label := by have := List.find?_some hw; simpa using this
  have ha := (hT.2.1 r hr w hwm hwl).1
  exact ⟨ha, ha ▸ FchkO.get_normStore_row W R s hT r hr w hw⟩

/-- FCHK: the shuffles of writer and reader are inverse on every value of the domain: `_triangle_to_dense` undoes the
`np.tril_indices` packing for every matrix size (the number of rows is recovered from the length), an index vector is
undone by its inverse. -/
theorem fchk_shuffles_inverse (d : Nat) (tw tr : FchkO.Tr) (v : FchkO.AVal) (x : Fchk.Value)
    (hv : FchkO.okVal tw v = true) (hi : FchkO.invTr tw tr = true) (hx : FchkO.appW d tw v = some x) : FchkO.appR tr x = some v :=
  FchkO.appR_appW d tw tr v x hv hi hx

/-- FCHK: the tables probed from the source fit together, for each of the four post-SCF levels of theory and for any
other level (`NA`): writer labels distinct; on every shared label writer and reader name the same attribute, their index
shuffles are inverse (`[0,3,5,1,2,4]` against `[0,3,4,1,5,2]` for the quadrupole; triangle against dense) and their unit
factors cancel (`/ amu` against `* amu` for the masses); reader rows that can fire set distinct attributes; every label
fits the 40 columns; the absent-level word is upper case. -/
theorem fchk_tables_ok :
    (∀ lv ∈ FchkO.levels ++ [fchkL.absent], FchkO.TablesOK (FchkO.resolve lv fchkW) fchkR ∧
      ∀ w ∈ FchkO.resolve lv fchkW, Fchk.okLabel fchkL w.label = true) ∧ Chars.upper fchkL.absent = fchkL.absent := by
  decide +kernel

/-- FCHK: nothing the writer stores is dropped by the reader: at each post-SCF level every written label is read back,
except the two that repeat information written under another label (`Integer atomic weights`, `SCF Energy`); the
masses are written divided by `amu` (unit −1, both labels) and read multiplied by it (unit +1); all other rows carry no unit. -/
theorem fchk_tables_complete :
    (∀ lv ∈ FchkO.levels, ∀ w ∈ FchkO.resolve lv fchkW,
      w.label ∈ fchkR.map (·.label) ∨ w.label ∈ ["Integer atomic weights".toList, "SCF Energy".toList]) ∧
    (∀ w ∈ fchkW, w.unit = if w.attr = "atmasses".toList then -1 else 0) ∧
    (∀ r ∈ fchkR, r.unit = if r.attr = "atmasses".toList then 1 else 0) := by
  decide +kernel

/-- non-vacuity: a domain object (three atoms) with masses, two charge kinds, a 2×2 SCF density, quadrupole and a
post-SCF density at level CC, and what its reload contains. -/
example : FchkO.Dom fchkL fchkW ⟨['t'], some "opt".toList, some "ccsd".toList, none,
    [("atnums".toList, .ivec [8, 1, 1]), ("atmasses".toList, .vec [⟨false, 159990000, 1⟩, ⟨false, 100800000, 0⟩, ⟨false, 100800000, 0⟩]),
     ("atcharges.esp".toList, .vec [⟨true, 800000000, -1⟩, ⟨false, 400000000, -1⟩, ⟨false, 400000000, -1⟩]),
     ("atcharges.cm5".toList, .vec [⟨true, 700000000, -1⟩, ⟨false, 350000000, -1⟩, ⟨false, 350000000, -1⟩]),
     ("one_rdms.scf".toList, .sym 2 [⟨false, 100000000, 0⟩, ⟨false, 200000000, 0⟩, ⟨false, 300000000, 0⟩]),
     ("one_rdms.post_scf_ao".toList, .sym 1 [⟨false, 123456789, 0⟩]),
     ("moments.2c".toList, .vec [⟨false, 110000000, 1⟩, ⟨false, 120000000, 1⟩, ⟨false, 130000000, 1⟩, ⟨false, 220000000, 1⟩, ⟨false, 230000000, 1⟩, ⟨false, 330000000, 1⟩])]⟩ := by
  decide +kernel

example : ((FchkO.fieldsOf 8 (FchkO.resolve (FchkO.levelOf fchkL.absent (some "ccsd".toList)) fchkW)
    [("one_rdms.post_scf_ao".toList, .sym 1 [⟨false, 123456789, 0⟩]),
     ("moments.2c".toList, .vec [⟨false, 11, 1⟩, ⟨false, 12, 1⟩, ⟨false, 13, 1⟩, ⟨false, 22, 1⟩, ⟨false, 23, 1⟩, ⟨false, 33, 1⟩])]).map
      fun f => (String.ofList f.1, f.2)) =
    [("Total CC Density", .reals [⟨false, 123456789, 0⟩]),
     ("Quadrupole Moment", .reals [⟨false, 11, 1⟩, ⟨false, 22, 1⟩, ⟨false, 33, 1⟩, ⟨false, 12, 1⟩, ⟨false, 13, 1⟩, ⟨false, 23, 1⟩])] := by
  decide +kernel

/-! ## WFN (section layer; the coefficient semantics is C01's) -/

/-- WFN: `load_wfn_low` on the written file returns the written arrays: title, atoms (element through the symbol
heuristic, coordinates cut by column), one-based centre and type assignments as zero-based indices, exponents,
per orbital its number, occupation, energy and coefficients, the energy and virial (`nan` when absent) and the `$MOSPIN`
list — for every number of atoms below 10³, every number of primitives and orbitals (ragged last lines of all sections),
every value that fits its column. -/
theorem wfn_load_dump (T : Tables) (L : WfnS.Layout) (hL : WfnS.LayoutOK L) (o : WfnS.Obj) (h : WfnS.Dom T L o) :
    WfnS.load T L (WfnS.dump T L o) = .ok (WfnS.norm L o) :=
  WfnS.load_dump T L hL o h

/-- WFN / WFX sections: chunk and cut for all sizes — a section written `per` items per line (last line ragged) under a
header of `skip` columns is read back item by item by the cut loop `while len(line) >= step`, whatever was read before
and whatever follows. -/
theorem wfn_section_roundtrip (α : Type) (conv : Str → Option α) (start header : Str) (skip step per : Nat) (render : α → Str)
    (hstep : 2 ≤ step) (hper : 0 < per) (hst : startsWith start (ljust skip (header.take skip)) = true)
    (items : List α) (hx : ∀ x ∈ items, (render x).length = step ∧ conv (replaceD (render x)) = some x) (rest : List Str) :
    WfnS.readSec conv start skip step items.length (WfnS.secLines header skip per render items ++ rest) = .ok (items, rest) :=
  WfnS.readSec_secLines conv start header skip step per render hstep hper hst items hx rest

/-- WFN: the layout in the source satisfies the side conditions (reader slices = writer columns, section names start
their lines, items at least two wide), all 118 elements survive the symbol heuristic, and the `FMT_*` templates, the
five section definitions, the `_dump_helper_section` / `_load_helper_section` calls, the reader's slices and string
constants in the source are the ones the model transcribes. -/
theorem wfn_source_shape :
    WfnS.LayoutOK wfnL ∧ (∀ z ∈ List.range' 1 118, WfnS.okZ tables wfnL z = true) ∧ wfnSource = WfnS.expectedSource wfnL := by
  decide +kernel

/-- non-vacuity: a domain object with 7 primitives (two ragged lines of exponents), two orbitals, no energy, a spin list,
coordinates filling their 12 columns. -/
example : WfnS.Dom tables wfnL ⟨[], [⟨8, ⟨true, 9912345678⟩, ⟨false, 99912345678⟩, ⟨true, 0⟩⟩, ⟨17, ⟨false, 0⟩, ⟨false, 1⟩, ⟨false, 2⟩⟩],
    (List.range 7).map (fun k => (k % 2, k, ⟨false, 12345678 + k, -2⟩)),
    [⟨⟨false, 20000000⟩, ⟨true, 20123456⟩, (List.range 7).map (fun k => ⟨k % 2 == 1, 123456789, 0⟩)⟩,
     ⟨⟨false, 0⟩, ⟨false, 500000⟩, (List.range 7).map (fun k => ⟨false, 100000000 + k, -1⟩)⟩],
    none, some ⟨false, 200000001⟩, some [3, 3]⟩ := by
  decide +kernel

/-! ## WFX (section layer) -/

/-- WFX: `parse_wfx` on the written file holds every section under its tag, with its lines in order, and the orbital
numbers 1, 2, … under `<MO Numbers>` — for every list of sections with distinct well-formed tags: text sections, integer
sections of any length (ten per line), real sections of any length (four or three per line, `NAN` included) and the
orbital section with any number of orbitals and coefficients. -/
theorem wfx_parse_dump (L : WfxS.Layout) (secs : List WfxS.Sec) (h : WfxS.Dom L secs) :
    WfxS.parse (WfxS.dump L secs) = .ok (WfxS.norm L secs) :=
  WfxS.parse_dump L secs h

/-- WFX: the typed decoding of `load_data_wfx` on the lines held for a number section returns the numbers that were
written, in order — every count (ragged last lines), every integer, every real digit by digit (mantissa and exponent),
NaN as NaN. -/
theorem wfx_numbers (L : WfxS.Layout) (hL : WfxS.LayoutOK L) (per : Nat) (hper : 0 < per) :
    (∀ l : List Int, WfxS.decodeInts (WfxS.stripAll (WfxS.numLines per intToDec l)) = some l) ∧
    (∀ l : List (Option Sci), (∀ x ∈ l, WfxS.okSci L x = true) →
      WfxS.decodeReals L.d (WfxS.stripAll (WfxS.numLines per (WfxS.real L) l)) = some l) :=
  ⟨WfxS.decodeInts_lines per hper, fun l hx => WfxS.decodeReals_lines L hL per hper l hx⟩

/-- WFX: the writer's `print` calls and the string constants of `parse_wfx` in the source are the ones the model
transcribes (`{: ,.14E}`, ten integers / four reals / three coordinates per line, the `<MO Number>` records, the
closing tag `"</" + tag.lstrip("<")`). -/
theorem wfx_source_shape :
    WfxS.LayoutOK wfxL ∧ wfx_writes = WfxS.expectedWrites wfxL ∧ wfx_parse_consts = WfxS.expectedParseConsts := by
  decide +kernel

/-- non-vacuity: four sections (text, eleven integers, five reals with a NaN, two orbitals of five coefficients). -/
example : WfxS.Dom wfxL [⟨"<Title>".toList, .text [" t ".toList]⟩, ⟨"<Primitive Centers>".toList, .ints 10 (List.replicate 11 1)⟩,
    ⟨"<Primitive Exponents>".toList, .reals 4 [some ⟨false, 123456789012345, 2⟩, none, some ⟨true, 100000000000000, -3⟩, some ⟨false, 0, 0⟩, some ⟨false, 5, 0⟩]⟩,
    ⟨WfxS.moTag, .mo 4 [List.replicate 5 (some ⟨false, 100000000000000, 0⟩), List.replicate 5 (some ⟨true, 200000000000000, 0⟩)]⟩] := by
  decide +kernel

/-! ## QCSchema JSON, molecule core (dictionary level) -/

/-- QCSchema molecule: reading the written dictionary returns every mapped attribute with its value: atomic numbers
through the symbols, the flattened geometry, charge, `spinpol` through the multiplicity (`+ 1` / `− 1`), the title when
not empty, masses, connectivity, the symmetry number when not zero, every passed-through sub-key of `extra["molecule"]`,
the unparsed keys; core charges come back as "atomic number or ghost" through `real`; absent charge / multiplicity as the
reader's defaults; the provenance trail one entry longer.  For all key tables satisfying `KeysOK` and every object. -/
theorem qcschema_load_dump (T : Tables) (K : Qcs.Keys) (known : List Str) (reshapes : Bool) (hK : Qcs.KeysOK K K known) (m : Qcs.Mol)
    (h : Qcs.Dom T K known reshapes m) : Qcs.load T K known reshapes (Qcs.dump T K m) = .ok (Qcs.norm K.pass m) :=
  Qcs.load_dump T K known reshapes hK m h

/-- QCSchema molecule: the key tables of writer and reader read from the source coincide (same JSON key for every core
attribute, same pass-through pairs), all keys are distinct and known to `_find_passthrough_dict`, all 118 elements map
back through `sym2num[symbol.title()]`, and the value conversions in the source are the ones the model transcribes. -/
theorem qcschema_keys_ok :
    qcsW = qcsR ∧ Qcs.KeysOK qcsW qcsR qcsKnown ∧ (∀ z ∈ List.range' 1 118, Qcs.okZ tables z = true) ∧
    qcsExprs = Qcs.expectedExprs ∧ qcsBondsExpr = Qcs.bondsExprs.getD (if qcsReshapes then 1 else 0) [] := by
  decide +kernel

/-- non-vacuity: water with a ghost atom, half-integral spin, a bond, a passed-through comment, an unparsed key. -/
example : Qcs.Dom tables qcsW qcsKnown false ⟨[8, 1, 1], List.replicate 9 ⟨false, 1, 2⟩, some ⟨false, -1, 1⟩, some ⟨false, 1, 2⟩, some ['w'],
    [⟨false, 6, 1⟩, ⟨false, 0, 1⟩, ⟨false, 1, 1⟩], none, some [(0, 1, 1)], some ⟨true, 0, 1⟩,
    [("comment".toList, "\"c\"".toList)], .one "{}".toList, [("my_key".toList, "[1]".toList)]⟩ := by
  decide +kernel

end Iodata.Props.C02W
