/-
C02 — save-then-reload returns the same data: second group of formats (FCIDUMP full file, POSCAR text, FCHK object
mapping, WFN / WFX sections, QCSchema molecule core).

Property theorems only, in the form `load (dump o) = ok (norm o)` for *every* object of the explicit domain; the layout and
source facts actually used by iodata (`Gen.LayoutsW`, regenerated from the source on every run) are shown to satisfy the
side conditions and to have the shape the models assume, by computation.  The models are the ones the driver executes in
the `fmtw dump` / `fmtw load` correspondence streams.
-/
import Iodata.Lemmas.Fmt.FcidumpW
import Iodata.Lemmas.Fmt.PoscarW
import Iodata.Gen.LayoutsW

namespace Iodata.Props.C02W
open Iodata.Chars Iodata.Decimal Iodata.Fmt Iodata.Gen.Layouts Iodata.Gen.LayoutsW

/-! ## FCIDUMP (full file) -/

/-- FCIDUMP: reading back the written file gives the object — for every number of orbitals, every symmetric one-electron
matrix and 8-fold symmetric two-electron array (zero elements, of either sign, are not written and come back as `0.0`),
present or absent core energy (absent → `0.0`), and any real `nelec` / `spinpol` (rounded to the nearest integer, ties to
even, by the writer).  Every real is reproduced to all 17 printed digits (mantissa and exponent). -/
theorem fcidump_load_dump (L : FcidumpW.Layout) (hL : FcidumpW.LayoutOK L) (o : FcidumpW.Obj) (h : FcidumpW.Dom L o) :
    FcidumpW.load L (FcidumpW.dump L o) = .ok (FcidumpW.norm o) :=
  FcidumpW.load_dump L hL o h

/-- FCIDUMP: what `norm` keeps — inside the arrays every non-zero element exactly, position by position (no permutation,
no sign change, no rescaling); integral electron counts exactly. -/
theorem fcidump_norm_faithful (o : FcidumpW.Obj) :
    (∀ i j, i < o.n → j < o.n → (o.one i j).man ≠ 0 → (FcidumpW.norm o).one i j = o.one i j) ∧
    (∀ p, FcidumpW.inRange o.n p → (o.two p).man ≠ 0 → (FcidumpW.norm o).two p = o.two p) ∧
    (∀ k : Int, o.nelec = some (k, 1) → (FcidumpW.norm o).nelec = k) ∧
    (∀ k : Int, o.spinpol = some (k, 1) → (FcidumpW.norm o).spinpol = k) ∧
    (∀ c, o.core = some c → (FcidumpW.norm o).core = c) := by
  refine ⟨?_, ?_, ?_, ?_, ?_⟩
  · intro i j hi hj hm; simp [FcidumpW.norm, hi, hj, FcidumpW.cz_of_ne hm]
  · intro p hp hm; simp [FcidumpW.norm, hp, FcidumpW.cz_of_ne hm]
  · intro k hk; simp [FcidumpW.norm, hk, FcidumpW.roundOpt_int]
  · intro k hk; simp [FcidumpW.norm, hk, FcidumpW.roundOpt_int]
  · intro c hc; simp [FcidumpW.norm, hc]

/-- FCIDUMP: `int(round(x))` as modelled: nearest integer, ties to even — `9.999999999999998 → 10` (a truncating
`int(x)` would give 9), `2.5 → 2`, `3.5 → 4`, `-0.5 → 0`, `-1.5 → -2`. -/
theorem fcidump_round_examples :
    FcidumpW.pyRound 9999999999999998 1000000000000000 = 10 ∧ FcidumpW.pyRound 5 2 = 2 ∧ FcidumpW.pyRound 7 2 = 4 ∧
    FcidumpW.pyRound (-1) 2 = 0 ∧ FcidumpW.pyRound (-3) 2 = -2 ∧ FcidumpW.pyRound 9 1 = 9 := by decide

/-- FCIDUMP: the layout in the source satisfies the side conditions; writer and reader in the source have the shape the
model transcribes (field widths and literals of the seven `print` calls; `int(round(… or 0))` conversions; the element
`two_mo[i0, i2, i1, i3]` printed under the canonical-loop condition; zero tests; the reader's header literal, cut column,
namelist keys, end markers, word positions, and the fill `set_four_index_element(two_mo, ii, ik, ij, il, value)`). -/
theorem fcidump_source_shape :
    FcidumpW.LayoutOK fcidumpL ∧ fcidump_writes = FcidumpW.expectedWrites fcidumpL ∧ fcidumpSource = FcidumpW.expectedSource := by
  decide +kernel

/-- non-vacuity: a domain object with two orbitals (constant arrays are 8-fold symmetric), `nelec = 9.999999999999998`,
and its written header line. -/
example : FcidumpW.Dom fcidumpL ⟨2, fun _ _ => ⟨true, 12345678901234567, -3⟩, fun _ => ⟨false, 10000000000000000, 0⟩,
    some ⟨true, 0, 0⟩, some (9999999999999998, 1000000000000000), none⟩ :=
  ⟨fun _ _ => rfl, ⟨fun _ => rfl, fun _ => rfl, fun _ => rfl⟩,
   fun _ _ => (by decide : (12345678901234567 : Nat) < 10 ^ (16 + 1)), fun _ => (by decide : (10000000000000000 : Nat) < 10 ^ (16 + 1)),
   fun c hc => by cases hc; exact (by decide : (0 : Nat) < 10 ^ (16 + 1))⟩

example : (FcidumpW.dump fcidumpL ⟨1, fun _ _ => ⟨true, 12345678901234567, -3⟩, fun _ => ⟨false, 10000000000000000, 0⟩,
    none, some (9999999999999998, 1000000000000000), some (1, 2)⟩) =
    [" &FCI NORB=1,NELEC=10,MS2=0,\n".toList, "  ORBSYM= 1,\n".toList, "  ISYM=1\n".toList, " &END\n".toList,
     " 1.0000000000000000e+00    1    1    1    1\n".toList, "-1.2345678901234567e-03    1    1    0    0\n".toList] := by
  decide +kernel

/-! ## POSCAR (text layer over the structure layer) -/

/-- POSCAR: reading back the written file gives the numbers of the file digit by digit (cell rows, direct coordinates of
every atom, all 16 decimals, any magnitude and sign incl. `-0`), the title (default when absent), and the atoms in the
documented grouping (by element, heaviest first, original order inside a group) — for every number of atoms and every
element of the table. -/
theorem poscar_load_dump (T : Tables) (L : PoscarW.Layout) (hL : PoscarW.LayoutOK L) (o : PoscarW.Obj) (h : PoscarW.Dom T o) :
    PoscarW.load T L (PoscarW.dump T L o) = .ok (PoscarW.norm L o) :=
  PoscarW.load_dump T L hL o h

/-- POSCAR: the only re-ordering is the grouping, which is a permutation that keeps every atom's element and coordinates
together (records are never split), keeps the order inside an element, and is the identity on an already grouped list. -/
theorem poscar_reordering (L : PoscarW.Layout) (o : PoscarW.Obj) :
    (PoscarW.norm L o).atoms.Perm o.atoms ∧
    (∀ z, (PoscarW.norm L o).atoms.filter (fun a => a.zn == z) = o.atoms.filter (fun a => a.zn == z)) ∧
    (PoscarW.norm L o).cell = o.cell :=
  ⟨Poscar.group_perm _ _, fun z => Poscar.group_stable _ _ z, rfl⟩

/-- POSCAR: the layout in the source satisfies the side conditions, every element Z = 1..118 is usable in the element
line, and writer / reader in the source have the shape the model transcribes (eight `print` calls with their fields;
`rvec / angstrom`, the descending element order, `inv(cell).T`, `np.dot(gvecs, r)`; the reader's `s` / `c k` switches,
`split()[:3]`, `angstrom * scaling`, `np.dot(frac, cellvecs)`). -/
theorem poscar_source_shape :
    PoscarW.LayoutOK poscarL ∧ (∀ z ∈ List.range' 1 118, PoscarW.okZ tables z = true) ∧
    poscar_writes = PoscarW.expectedWrites poscarL ∧ poscarSource = PoscarW.expectedSource ∧
    PoscarW.scaleVal poscarL = ⟨false, 10 ^ poscarL.scaleD⟩ := by
  decide +kernel

/-- non-vacuity: a domain object whose numbers fill and overflow the 21 columns, with `-0`, and its file. -/
example : PoscarW.Dom tables ⟨[], [⟨⟨false, 99999999999999999999⟩, ⟨true, 0⟩, ⟨false, 0⟩⟩, ⟨⟨true, 1234567890123456⟩, ⟨false, 5⟩, ⟨false, 0⟩⟩,
    ⟨⟨false, 0⟩, ⟨false, 0⟩, ⟨true, 123456789012345678901⟩⟩], [⟨1, ⟨⟨false, 0⟩, ⟨false, 5000000000000000⟩, ⟨true, 1⟩⟩⟩, ⟨8, ⟨⟨false, 0⟩, ⟨false, 0⟩, ⟨false, 0⟩⟩⟩]⟩ := by
  decide +kernel

example : PoscarW.dump tables poscarL ⟨[], [⟨⟨false, 99999999999999999999⟩, ⟨true, 0⟩, ⟨false, 0⟩⟩], [⟨1, ⟨⟨false, 0⟩, ⟨false, 5000000000000000⟩, ⟨true, 1⟩⟩⟩, ⟨8, ⟨⟨false, 0⟩, ⟨false, 0⟩, ⟨false, 0⟩⟩⟩]⟩ =
    ["Created with IOData\n".toList, "   1.00000000000000\n".toList,
     " 9999.9999999999999999   -0.0000000000000000    0.0000000000000000\n".toList, "O     H    \n".toList, "    1     1\n".toList,
     "Selective dynamics\n".toList, "Direct\n".toList,
     "     0.0000000000000000    0.0000000000000000    0.0000000000000000   F   F   F\n".toList,
     "     0.0000000000000000    0.5000000000000000   -0.0000000000000001   F   F   F\n".toList] := by
  decide +kernel

end Iodata.Props.C02W
