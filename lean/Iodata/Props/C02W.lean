/-
C02 — save-then-reload returns the same data: second group of formats (FCIDUMP full file, POSCAR text, FCHK object
mapping, WFN / WFX sections, QCSchema molecule core).

Property theorems only, in the form `load (dump o) = ok (norm o)` for *every* object of the explicit domain; the layout and
source facts actually used by iodata (`Gen.LayoutsW`, regenerated from the source on every run) are shown to satisfy the
side conditions and to have the shape the models assume, by computation.  The models are the ones the driver executes in
the `fmtw dump` / `fmtw load` correspondence streams.
-/
import Iodata.Lemmas.Fmt.FcidumpW
import Iodata.Gen.LayoutsW

namespace Iodata.Props.C02W
open Iodata.Chars Iodata.Decimal Iodata.Fmt Iodata.Gen.Layouts Iodata.Gen.LayoutsW

/-! ## FCIDUMP (full file) -/

/-- FCIDUMP: reading back the written file gives the object — for every number of orbitals, every symmetric one-electron
matrix and 8-fold symmetric two-electron array (zero elements, of either sign, are not written and come back as `0.0`),
present or absent core energy (absent → `0.0`), and any real `nelec` / `spinpol` (rounded to the nearest integer, ties to
even, by the writer).  Every real is reproduced to all 17 printed digits (mantissa and exponent). -/
theorem fcidump_load_dump (L : FcidumpW.Layout) (hL : FcidumpW.LayoutOK L) (o : FcidumpW.Obj) (h : FcidumpW.Dom L o) :
    FcidumpW.load L (FcidumpW.dump L o) = .ok (FcidumpW.norm o) :=
  FcidumpW.load_dump L hL o h

/-- FCIDUMP: what `norm` keeps — inside the arrays every non-zero element exactly, position by position (no permutation,
no sign change, no rescaling); integral electron counts exactly. -/
theorem fcidump_norm_faithful (o : FcidumpW.Obj) :
    (∀ i j, i < o.n → j < o.n → (o.one i j).man ≠ 0 → (FcidumpW.norm o).one i j = o.one i j) ∧
    (∀ p, FcidumpW.inRange o.n p → (o.two p).man ≠ 0 → (FcidumpW.norm o).two p = o.two p) ∧
    (∀ k : Int, o.nelec = some (k, 1) → (FcidumpW.norm o).nelec = k) ∧
    (∀ k : Int, o.spinpol = some (k, 1) → (FcidumpW.norm o).spinpol = k) ∧
    (∀ c, o.core = some c → (FcidumpW.norm o).core = c) := by
  refine ⟨?_, ?_, ?_, ?_, ?_⟩
  · intro i j hi hj hm; simp [FcidumpW.norm, hi, hj, FcidumpW.cz_of_ne hm]
  · intro p hp hm; simp [FcidumpW.norm, hp, FcidumpW.cz_of_ne hm]
  · intro k hk; simp [FcidumpW.norm, hk, FcidumpW.roundOpt_int]
  · intro k hk; simp [FcidumpW.norm, hk, FcidumpW.roundOpt_int]
  · intro c hc; simp [FcidumpW.norm, hc]

/-- FCIDUMP: `int(round(x))` as modelled: nearest integer, ties to even — `9.999999999999998 → 10` (a truncating
`int(x)` would give 9), `2.5 → 2`, `3.5 → 4`, `-0.5 → 0`, `-1.5 → -2`. -/
theorem fcidump_round_examples :
    FcidumpW.pyRound 9999999999999998 1000000000000000 = 10 ∧ FcidumpW.pyRound 5 2 = 2 ∧ FcidumpW.pyRound 7 2 = 4 ∧
    FcidumpW.pyRound (-1) 2 = 0 ∧ FcidumpW.pyRound (-3) 2 = -2 ∧ FcidumpW.pyRound 9 1 = 9 := by decide

/-- FCIDUMP: the layout in the source satisfies the side conditions; writer and reader in the source have the shape the
model transcribes (field widths and literals of the seven `print` calls; `int(round(… or 0))` conversions; the element
`two_mo[i0, i2, i1, i3]` printed under the canonical-loop condition; zero tests; the reader's header literal, cut column,
namelist keys, end markers, word positions, and the fill `set_four_index_element(two_mo, ii, ik, ij, il, value)`). -/
theorem fcidump_source_shape :
    FcidumpW.LayoutOK fcidumpL ∧ fcidump_writes = FcidumpW.expectedWrites fcidumpL ∧ fcidumpSource = FcidumpW.expectedSource := by
  decide +kernel

/-- non-vacuity: a domain object with two orbitals (constant arrays are 8-fold symmetric), `nelec = 9.999999999999998`,
and its written header line. -/
example : FcidumpW.Dom fcidumpL ⟨2, fun _ _ => ⟨true, 12345678901234567, -3⟩, fun _ => ⟨false, 10000000000000000, 0⟩,
    some ⟨true, 0, 0⟩, some (9999999999999998, 1000000000000000), none⟩ :=
  ⟨fun _ _ => rfl, ⟨fun _ => rfl, fun _ => rfl, fun _ => rfl⟩,
   fun _ _ => (by decide : (12345678901234567 : Nat) < 10 ^ (16 + 1)), fun _ => (by decide : (10000000000000000 : Nat) < 10 ^ (16 + 1)),
   fun c hc => by cases hc; exact (by decide : (0 : Nat) < 10 ^ (16 + 1))⟩

example : (FcidumpW.dump fcidumpL ⟨1, fun _ _ => ⟨true, 12345678901234567, -3⟩, fun _ => ⟨false, 10000000000000000, 0⟩,
    none, some (9999999999999998, 1000000000000000), some (1, 2)⟩) =
    [" &FCI NORB=1,NELEC=10,MS2=0,\n".toList, "  ORBSYM= 1,\n".toList, "  ISYM=1\n".toList, " &END\n".toList,
     " 1.0000000000000000e+00    1    1    1    1\n".toList, "-1.2345678901234567e-03    1    1    0    0\n".toList] := by
  decide +kernel

end Iodata.Props.C02W
