/-
C14 — basis segmentation and orbital un-restriction preserve the physics.

Property theorems only (helpers: `Iodata/Lemmas/Segment.lean`, `Iodata/Lemmas/Orbitals.lean`).
The model (`Iodata/Model/Segment.lean`, orbitals from C12) is tied to `iodata/convert.py` and
`iodata/prepare.py` by the correspondence streams `seg`, `tou`, `prepseg`, `prepu` (object identity
compared through `is`) and by the control-flow skeleton in `Iodata/Gen/ConvertSkeleton.lean`.
-/
import Iodata.Lemmas.Segment
import Iodata.Gen.ConvertSkeleton

set_option linter.unusedSimpArgs false

namespace Iodata.Props.C14
open Iodata.Orb Iodata.Seg

/-- 1. Segmentation keeps the contracted function sets — centre, angular momentum, kind, exponents,
contraction coefficients — in the same order, for ALL bases and both values of `keep_sp`. -/
theorem contractions_preserved (keepSp : Bool) (b : Basis) :
    contractions (segment keepSp b) = contractions b :=
  contractions_segment keepSp b

/-- 1b. Hence the same basis functions in the same order, the same number of them, and any quantity
computed from the function list (overlap matrix, the meaning of every coefficient row) is identical. -/
theorem fns_preserved (keepSp : Bool) (b : Basis) :
    fns (segment keepSp b) = fns b ∧ nbasis (segment keepSp b) = nbasis b ∧
    ∀ {β : Type} (overlap : List (Contraction × Nat) → β), overlap (fns (segment keepSp b)) = overlap (fns b) := by
  have h : fns (segment keepSp b) = fns b := by simp [fns, contractions_segment]
  exact ⟨h, by simp [nbasis, h], fun ov => by rw [h]⟩

/-- 1c. For shells as the constructor accepts them no contraction is dropped by the `zip`, and the
new shells are well formed again. -/
theorem segment_wellformed (keepSp : Bool) (b : Basis) (hw : ∀ sh ∈ b, sh.WF) :
    (∀ sh ∈ b, (zip3 sh).length = sh.angmoms.length) ∧ ∀ s ∈ segment keepSp b, s.WF := by
  refine ⟨fun sh hs => zip3_length sh (hw sh hs), ?_⟩
  induction b with
  | nil => intro s hs; cases hs
  | cons sh t ih =>
    intro s hs
    rw [segment_cons, List.mem_append] at hs
    rcases hs with hs | hs
    · split at hs
      · simp only [List.mem_cons, List.not_mem_nil, or_false] at hs; subst hs; exact hw s (by simp)
      · exact wf_split sh s (hw sh (by simp)) hs
    · exact ih (fun x hx => hw x (List.mem_cons_of_mem _ hx)) s hs

/-- 2. After segmentation no generalized contraction is left (other than SP shells when kept), and
segmenting again returns the very same shell objects: idempotent. -/
theorem segment_idempotent (keepSp : Bool) (b : Basis) :
    (segment keepSp b).all (isKept keepSp) = true ∧
    segmentFlagged keepSp (segment keepSp b) = (segment keepSp b).map (fun sh => (sh, true)) ∧
    segment keepSp (segment keepSp b) = segment keepSp b :=
  ⟨segment_all_kept keepSp b,
   segmentFlagged_of_all_kept keepSp _ (segment_all_kept keepSp b),
   segment_of_all_kept keepSp _ (segment_all_kept keepSp b)⟩

/-- 3. Identity short-cut: when nothing needs converting every shell of the result is the very
same object, and the pre-dump preparation returns the very same IOData object without warning. -/
theorem segment_identity (keepSp allow : Bool) (b : Basis) (h : b.all (isKept keepSp) = true) :
    segmentFlagged keepSp b = b.map (fun sh => (sh, true)) ∧ segment keepSp b = b ∧
    prepareSegmented (some b) keepSp allow = .same :=
  ⟨segmentFlagged_of_all_kept keepSp b h, segment_of_all_kept keepSp b h, by simp [prepareSegmented, h]⟩

/-- 4. `prepare_segmented`: complete decision table.  No basis: `ValueError`; nothing to convert: the
same object; otherwise `PrepareDumpError` without `allow_changes`, and with it exactly one warning
and a basis with the same functions. -/
theorem prepare_segmented_spec (ob : Option Basis) (keepSp allow : Bool) :
    (ob = none → prepareSegmented ob keepSp allow = .valueError) ∧
    (∀ b, ob = some b → b.all (isKept keepSp) = true → prepareSegmented ob keepSp allow = .same) ∧
    (∀ b, ob = some b → b.all (isKept keepSp) = false → allow = false →
        prepareSegmented ob keepSp allow = .prepareDumpError) ∧
    (∀ b, ob = some b → b.all (isKept keepSp) = false → allow = true →
        ∃ b', prepareSegmented ob keepSp allow = .converted 1 b' ∧ fns b' = fns b ∧ b'.all (isKept keepSp) = true) := by
  refine ⟨fun h => by simp [prepareSegmented, h], fun b h hk => by simp [prepareSegmented, h, hk],
    fun b h hk ha => by simp [prepareSegmented, h, hk, ha], fun b h hk ha => ?_⟩
  exact ⟨segment keepSp b, by simp [prepareSegmented, h, hk, ha], (fns_preserved keepSp b).1, segment_all_kept keepSp b⟩

/-- 5. Un-restriction of restricted orbitals (reached by any C12 history, with or without explicit
`occs_aminusb`, with or without occupations/coefficients/energies/irreps): a new, valid unrestricted
object with the same alpha and beta occupations, coefficients, energies and irreps, hence the same
electron count and spin polarisation. -/
theorem unrestricted_preserves {m : MO} (h : Reachable m) (hk : m.kind = .restricted) :
    ∃ m', toUnrestricted m = .ok (m', false) ∧ Reachable m' ∧ m'.kind = .unrestricted ∧
      occsa m' = occsa m ∧ occsb m' = occsb m ∧
      (∀ beta, view m' beta m'.coeffs = view m beta m.coeffs) ∧
      (∀ beta, view m' beta m'.energies = view m beta m.energies) ∧
      (∀ beta, view m' beta m'.irreps = view m beta m.irreps) ∧
      nelec m' = nelec m ∧ spinpol m' = spinpol m := by
  obtain ⟨m', h1, h2, h3, _, _, h6, h7, h8, h9, h10, h11, h12⟩ := toUnrestricted_restricted (inv_reachable h) hk
  exact ⟨m', h1, reachable_of_inv h2, h3, h6, h7, h8, h9, h10, h11, h12⟩

/-- the data the (spin) density is built from: alpha and beta occupations with their orbitals;
density = Σ occ·|orbital⟩⟨orbital| over both lists, spin density = alpha part − beta part -/
def densityData (m : MO) :=
  (occsa m, view m false m.coeffs, occsb m, view m true m.coeffs)

/-- 5b. … hence the same density and spin density. -/
theorem unrestricted_same_density {m : MO} (h : Reachable m) (hk : m.kind = .restricted) :
    ∃ m', toUnrestricted m = .ok (m', false) ∧ densityData m' = densityData m := by
  obtain ⟨m', h1, _, _, ha, hb, hc, _⟩ := unrestricted_preserves h hk
  exact ⟨m', h1, by simp [densityData, ha, hb, hc]⟩

/-- 6. Unrestricted orbitals are returned as the very same object; so the conversion is idempotent
(the second call returns its argument); generalized orbitals are rejected with `ValueError`. -/
theorem unrestricted_identity_idempotent_rejects (m : MO) :
    (m.kind = .unrestricted → toUnrestricted m = .ok (m, true)) ∧
    (∀ m' same, m.kind ≠ .generalized → toUnrestricted m = .ok (m', same) → Inv m → toUnrestricted m' = .ok (m', true)) ∧
    (m.kind = .generalized → toUnrestricted m = .error .valueError) := by
  refine ⟨fun hk => by simp [toUnrestricted, hk], ?_, fun hk => by simp [toUnrestricted, hk]⟩
  intro m' same hg h hi
  rcases inv_kind_cases hi with hr | hu | hgen
  · obtain ⟨m'', h1, _, hk'', _⟩ := toUnrestricted_restricted hi hr
    rw [h1] at h; cases h
    simp [toUnrestricted, hk'']
  · simp [toUnrestricted, hu] at h
    obtain ⟨rfl, _⟩ := h
    simp [toUnrestricted, hu]
  · exact absurd hgen hg

/-- 7. `prepare_unrestricted_aminusb`: complete decision table.  No orbitals or generalized ones:
`ValueError`; unrestricted or no `occs_aminusb`: the very same object; otherwise `PrepareDumpError`
without `allow_changes`, and with it exactly one warning and the converted orbitals of theorem 5. -/
theorem prepare_unrestricted_spec (mo : Option MO) (allow : Bool) :
    (mo = none → prepareUnrestricted mo allow = .valueError) ∧
    (∀ m, mo = some m → m.kind = .generalized → prepareUnrestricted mo allow = .valueError) ∧
    (∀ m, mo = some m → (m.kind = .unrestricted ∨ (m.kind = .restricted ∧ m.aminusb = none)) →
        prepareUnrestricted mo allow = .same) ∧
    (∀ m, mo = some m → m.kind = .restricted → m.aminusb ≠ none → allow = false →
        prepareUnrestricted mo allow = .prepareDumpError) ∧
    (∀ m, mo = some m → Reachable m → m.kind = .restricted → m.aminusb ≠ none → allow = true →
        ∃ m', prepareUnrestricted mo allow = .converted 1 (.ok m') ∧ toUnrestricted m = .ok (m', false) ∧
          densityData m' = densityData m ∧ nelec m' = nelec m ∧ spinpol m' = spinpol m) := by
  refine ⟨fun h => by simp [prepareUnrestricted, h], fun m h hk => by simp [prepareUnrestricted, h, hk],
    fun m h hk => ?_, fun m h hk hab ha => ?_, fun m h hr hk hab ha => ?_⟩
  · rcases hk with hk | ⟨hk, hab⟩
    · simp [prepareUnrestricted, h, hk]
    · simp [prepareUnrestricted, h, hk, hab]
  · cases hd : m.aminusb with
    | none => exact absurd hd hab
    | some d => simp [prepareUnrestricted, h, hk, hd, ha]
  · obtain ⟨m', h1, _, _, ha', hb', hc', _, _, hn, hs⟩ := unrestricted_preserves hr hk
    refine ⟨m', ?_, h1, by simp [densityData, ha', hb', hc'], hn, hs⟩
    cases hd : m.aminusb with
    | none => exact absurd hd hab
    | some d => simp [prepareUnrestricted, h, hk, hd, ha, h1, Except.map]

/-! ### tie to the source (regenerated each run) -/

open Iodata.Gen.ConvertSkeleton in
/-- the loop of `convert_to_segmented`: keep-condition, zip, new single-contraction shell, evolve -/
theorem gen_segment_skeleton :
    seg_keep = Skel.seg_keep ∧ seg_zip = Skel.seg_zip ∧ seg_new = Skel.seg_new ∧ seg_ret = Skel.seg_ret := by
  decide +kernel

open Iodata.Gen.ConvertSkeleton in
/-- guards, their order and actions, the single `warn` call and the conversion of both `prepare_*` -/
theorem gen_prepare_skeleton :
    prepseg_guards = Skel.prepseg_guards ∧ prepseg_actions = Skel.prepseg_actions ∧ prepseg_warns = 1 ∧
    prepseg_ret = Skel.prepseg_ret ∧ prepu_guards = Skel.prepu_guards ∧ prepu_actions = Skel.prepu_actions ∧
    prepu_warns = 1 ∧ prepu_ret = Skel.prepu_ret := by
  decide +kernel

open Iodata.Gen.ConvertSkeleton in
/-- guards and constructor arguments of `convert_to_unrestricted` -/
theorem gen_unrestricted_skeleton : tou_guards = Skel.tou_guards ∧ tou_ret = Skel.tou_ret := by decide +kernel

/-! ### non-vacuity -/

/-- an SP shell and a (d, d, s) generalized shell: 3 shells with `keep_sp`, 5 without; same functions -/
example :
    let b : Basis := [⟨0, [0, 1], ["c", "c"], [1, 1/2], [[1, 1/4], [1/2, 2]]⟩, ⟨1, [2, 2, 0], ["p", "c", "c"], [3/2], [[1], [1/2], [2]]⟩]
    (segmentFlagged true b).map Prod.snd = [true, false, false, false] ∧
    (segment false b).length = 5 ∧ nbasis b = 16 ∧ nbasis (segment false b) = 16 := by decide +kernel

/-- restricted orbitals with a negative alpha-minus-beta occupation: converted, spin polarisation 1 -/
example :
    let m : MO := { kind := .restricted, norba := some 1, norbb := some 1, occs := some [1], aminusb := some [-1] }
    (toUnrestricted m).map (fun p => (p.1.occs, p.2)) = .ok (some [0, 1], false) ∧
    prepareUnrestricted (some m) false = .prepareDumpError := by decide +kernel

end Iodata.Props.C14
