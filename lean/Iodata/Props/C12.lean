/-
C12 — MolecularOrbitals and Shell keep their derived quantities consistent.

Property theorems only (helpers: `Iodata/Lemmas/Orbitals.lean`).  The model
(`Iodata/Model/Orbitals.lean`) is tied to `iodata/orbitals.py` and `iodata/basis.py` by the
correspondence streams `mo` / `shl` (same operation sequences on the real objects and on `step`,
all observables compared after every operation) and by `Iodata/Gen/OrbitalFields.lean`.

History statements quantify over ARBITRARY operation lists: `Reachable m` = some successful
construction followed by any `List Op`, where `Op` = construct | assignment of occs / coeffs /
energies / irreps / occs_aminusb | occsa= | occsb= | kind= | norba= | norbb=; they are proved through
the invariant `Inv` (`construct_ok_iff`, `inv_step`, `inv_run`).
-/
import Iodata.Lemmas.Orbitals
import Iodata.Gen.OrbitalFields

set_option linter.unusedSimpArgs false

namespace Iodata.Props.C12
open Iodata.Orb

/-- 0. Every object reached by any history (including re-assignments of `kind`, `norba`, `norbb`)
satisfies the invariant: kind and counts fit, every array that is set has `norb` entries,
`occs_aminusb` only on restricted orbitals. -/
theorem invariant_all_histories {a m0 : MO} (hc : construct a = .ok m0) (ops : List Op) : Inv (run m0 ops) :=
  inv_run (inv_construct hc) ops

/-- 1. Construction accepts exactly the consistent arguments (kind legal, counts fitting the kind,
every array of length `norb`, `occs_aminusb` only when restricted) and stores them unchanged;
everything else raises. -/
theorem construct_accepts_iff (a : MO) :
    (∃ m, construct a = .ok m) ↔ Inv a := by
  constructor
  · intro ⟨m, h⟩
    have := construct_ok_eq h; subst this
    exact (construct_ok_iff m).mp h
  · intro h; exact ⟨a, (construct_ok_iff a).mpr h⟩

/-- 1b. In a reachable object an array of the wrong length is refused with `TypeError` (also for
`occs_aminusb`), `occs_aminusb` on non-restricted orbitals with `ValueError`; the object is unchanged. -/
theorem assignment_rejects {m : MO} (h : Reachable m) (hk : m.kind ≠ .generalized) (f : Fld) (a : List Rat) :
    ∃ n, norb m = some n ∧
      (a.length ≠ n → step m (.set f (some a)) = (m, some .typeError)) ∧
      (a.length = n → m.kind ≠ .restricted → step m (.set .aminusb (some a)) = (m, some .valueError)) := by
  have hi := inv_reachable h
  obtain ⟨n, hn⟩ := norb_isSome_of_counts hi.1 hk
  refine ⟨n, hn, fun ha => store_wrong_length hn f ha, fun ha hr => ?_⟩
  exact store_ab_wrong_kind hr (by simp [shapeOk, hn, ha])

/-- 2. Restricted orbitals: alpha + beta occupations give the stored occupations entry by entry. -/
theorem occs_sum_restricted {m : MO} (h : Reachable m) (hk : m.kind = .restricted) {o : List Rat}
    (ho : m.occs = some o) :
    ∃ a b, occsa m = .ok (some a) ∧ occsb m = .ok (some b) ∧
      List.zipWith (· + ·) a b = o ∧ a.length = o.length ∧ b.length = o.length := by
  obtain ⟨a, b, ha, hb, hr, _⟩ := spin_facts (inv_reachable h) (by rw [hk]; decide) ho
  exact ⟨a, b, ha, hb, hr hk⟩

/-- 2b. Unrestricted orbitals: the stored occupations are the alpha ones followed by the beta ones,
`norba` resp. `norbb` of them. -/
theorem occs_sum_unrestricted {m : MO} (h : Reachable m) (hk : m.kind = .unrestricted) {o : List Rat}
    (ho : m.occs = some o) :
    ∃ a b, occsa m = .ok (some a) ∧ occsb m = .ok (some b) ∧
      a ++ b = o ∧ some a.length = m.norba ∧ some b.length = m.norbb := by
  obtain ⟨a, b, ha, hb, _, hu, _⟩ := spin_facts (inv_reachable h) (by rw [hk]; decide) ho
  exact ⟨a, b, ha, hb, hu hk⟩

/-- 3. Electron count = sum of the stored occupations = alpha total + beta total;
4. spin polarisation = |alpha total − beta total| (code as of the `fix:` commit 4621cf7). -/
theorem nelec_and_spinpol {m : MO} (h : Reachable m) (hk : m.kind ≠ .generalized) {o : List Rat}
    (ho : m.occs = some o) :
    ∃ a b, occsa m = .ok (some a) ∧ occsb m = .ok (some b) ∧
      nelec m = some (sum o) ∧ nelec m = some (sum a + sum b) ∧
      spinpol m = .ok (some (absR (sum a - sum b))) := by
  obtain ⟨a, b, ha, hb, _, _, hs, hn, hsp⟩ := spin_facts (inv_reachable h) hk ho
  exact ⟨a, b, ha, hb, by rw [hn, hs], hn, hsp⟩

/-- 3b. Without occupations every derived quantity is `None`. -/
theorem no_occs_all_none {m : MO} (hk : m.kind ≠ .generalized) (ho : m.occs = none) :
    occsa m = .ok none ∧ occsb m = .ok none ∧ nelec m = none ∧ spinpol m = .ok none := by
  simp [occsa, occsb, nelec, spinpol, hk, ho]

/-- 5. Alpha/beta views of coefficients (columns), energies and irreps are the documented slices:
the whole array for restricted orbitals, the first `norba` / remaining `norbb` entries otherwise. -/
theorem views_are_slices {m : MO} (h : Reachable m) (f : Fld) (_hf : f = .coeffs ∨ f = .energies ∨ f = .irreps)
    {x : List Rat} (hx : get m f = some x) :
    (m.kind = .restricted → view m false (some x) = .ok (some x) ∧ view m true (some x) = .ok (some x)) ∧
    (m.kind = .unrestricted → ∃ na nb, m.norba = some na ∧ m.norbb = some nb ∧
        view m false (some x) = .ok (some (x.take na)) ∧ view m true (some x) = .ok (some (x.drop na)) ∧
        (x.take na).length = na ∧ (x.drop na).length = nb) := by
  have hi := inv_reachable h
  constructor
  · intro hk; simp [view, hk]
  · intro hk
    obtain ⟨na, nb, hna, hnb, hn⟩ := inv_unrestricted hi hk
    have hlen : x.length = na + nb := by
      have := hi.2.1 f x hx; rw [hn] at this; exact (Option.some.inj this).symm
    refine ⟨na, nb, hna, hnb, by simp [view, hk, hna], by simp [view, hk, hna], ?_, ?_⟩
    · simp [List.length_take]; omega
    · simp [List.length_drop]; omega

/-- 6a. Restricted orbitals with occupations: `mo.occsa = v` (with `norb` entries) succeeds, reads
back as `v` exactly and leaves the beta occupations unchanged; symmetrically for `occsb`. -/
theorem set_spin_reads_back_restricted {m : MO} (h : Reachable m) (hk : m.kind = .restricted) {o : List Rat}
    (ho : m.occs = some o) {v : List Rat} (hv : v.length = o.length) :
    ((step m (.setOccsa v)).2 = none ∧ occsa (step m (.setOccsa v)).1 = .ok (some v) ∧
        occsb (step m (.setOccsa v)).1 = occsb m) ∧
    ((step m (.setOccsb v)).2 = none ∧ occsb (step m (.setOccsb v)).1 = .ok (some v) ∧
        occsa (step m (.setOccsb v)).1 = occsa m) :=
  ⟨setOccsa_restricted_reads_back (inv_reachable h) hk ho hv,
   setOccsb_restricted_reads_back (inv_reachable h) hk ho hv⟩

/-- 6b. Restricted orbitals without occupations: `mo.occsa = v` creates them; beta reads zero. -/
theorem set_spin_fresh_restricted {m : MO} (h : Reachable m) (hk : m.kind = .restricted) (ho : m.occs = none)
    {n : Nat} (hn : m.norba = some n) {v : List Rat} (hv : v.length = n) :
    (step m (.setOccsa v)).2 = none ∧ occsa (step m (.setOccsa v)).1 = .ok (some v) ∧
      occsb (step m (.setOccsa v)).1 = .ok (some (v.map fun _ => 0)) :=
  setOccsa_restricted_fresh (inv_reachable h) hk ho hn hv

/-- 6c. Unrestricted orbitals with occupations: in-place assignment of the alpha (beta) block reads
back and leaves the other block unchanged. -/
theorem set_spin_reads_back_unrestricted {m : MO} (h : Reachable m) (hk : m.kind = .unrestricted) {o : List Rat}
    (ho : m.occs = some o) {na nb : Nat} (hna : m.norba = some na) (hnb : m.norbb = some nb) :
    (∀ v : List Rat, v.length = na →
      (step m (.setOccsa v)).2 = none ∧ occsa (step m (.setOccsa v)).1 = .ok (some v) ∧
        occsb (step m (.setOccsa v)).1 = occsb m) ∧
    (∀ v : List Rat, v.length = nb →
      (step m (.setOccsb v)).2 = none ∧ occsb (step m (.setOccsb v)).1 = .ok (some v) ∧
        occsa (step m (.setOccsb v)).1 = occsa m) :=
  ⟨fun _ hv => setOccsa_unrestricted_reads_back (inv_reachable h) hk ho hna hv,
   fun _ hv => setOccsb_unrestricted_reads_back (inv_reachable h) hk ho hnb hv⟩

/-- 7. Generalized orbitals expose the combined quantities only: every spin-resolved accessor and
both setters raise `NotImplementedError` (setters change nothing), `nelec` is the plain total. -/
theorem generalized_refuses {m : MO} (hk : m.kind = .generalized) (x : Option (List Rat)) (v : List Rat) :
    occsa m = .error .notImpl ∧ occsb m = .error .notImpl ∧ spinpol m = .error .notImpl ∧
    view m false x = .error .notImpl ∧ view m true x = .error .notImpl ∧
    step m (.setOccsa v) = (m, some .notImpl) ∧ step m (.setOccsb v) = (m, some .notImpl) ∧
    nelec m = m.occs.map sum := by
  simp [occsa, occsb, spinpol, view, step, setOccsa, setOccsb, nelec, hk]

/-- 8. A shell is accepted exactly when `coeffs` is a matrix of shape (nexp, ncon) and angmoms and
kinds have ncon entries; every refusal is a `TypeError`; assignments keep this. -/
theorem shell_accepts_iff (s : Shell) :
    ((∃ s', Shell.construct s = .ok s') ↔ s.Ok) ∧
    (∀ e, Shell.construct s = .error e → e = .typeError) := by
  unfold Shell.construct
  constructor
  · cases hf : firstErr (shellChecks s) with
    | none => simp [(shell_checks_iff s).mp hf]
    | some e =>
      simp only [reduceCtorEq, exists_false, false_iff]
      intro hok; rw [(shell_checks_iff s).mpr hok] at hf; cases hf
  · intro e he
    cases hf : firstErr (shellChecks s) with
    | none => rw [hf] at he; cases he
    | some e' => rw [hf] at he; cases he; exact firstErr_shell_type s e hf

/-- 8b. … for every assignment history on an accepted shell. -/
theorem shell_invariant {s0 s : Shell} (h0 : Shell.construct s0 = .ok s) (ops : List ShellOp) :
    (ops.foldl (fun s op => (s.step op).1) s).Ok := by
  have hs : s.Ok := by
    unfold Shell.construct at h0
    cases hf : firstErr (shellChecks s0) with
    | none => rw [hf] at h0; cases h0; exact (shell_checks_iff s0).mp hf
    | some e => rw [hf] at h0; cases h0
  clear h0
  induction ops generalizing s with
  | nil => exact hs
  | cons op t ih => exact ih (shell_inv_step hs op)

/-- 9. A shell's function count follows its angular momenta and kinds: the sum of (l+1)(l+2)/2 for
Cartesian and 2l+1 for pure (l ≥ 2) contractions; any other kind raises `TypeError`. -/
theorem nbasis_spec (s : Shell) :
    ((∀ p ∈ s.angmoms.zip s.kinds, legal p) → s.nbasis = .ok ((s.angmoms.zip s.kinds).map nfnSpec).sum) ∧
    ((∃ p ∈ s.angmoms.zip s.kinds, ¬ legal p) → s.nbasis = .error .typeError) := by
  constructor
  · intro h; simpa [Shell.nbasis] using nbasisFrom_legal _ 0 h
  · intro h; exact nbasisFrom_illegal _ 0 h

/-! ### re-assignment of `kind`, `norba`, `norbb` after construction -/

/-- 10. In a reachable object `mo.kind = k`, `mo.norba = v`, `mo.norbb = v` either raise and leave the
object unchanged, or store exactly the assigned value and the resulting object again satisfies the
invariant (kind fits the counts, every stored array has the new `norb` entries, `occs_aminusb` only
on restricted orbitals). -/
theorem reassign_raises_or_preserves {m : MO} (h : Reachable m) :
    (∀ k, (∃ e, step m (.setKind k) = (m, some e)) ∨
      (step m (.setKind k) = ({ m with kind := k }, none) ∧ Inv { m with kind := k })) ∧
    (∀ v, (∃ e, step m (.setNorba v) = (m, some e)) ∨
      (step m (.setNorba v) = ({ m with norba := v }, none) ∧ Inv { m with norba := v })) ∧
    (∀ v, (∃ e, step m (.setNorbb v) = (m, some e)) ∨
      (step m (.setNorbb v) = ({ m with norbb := v }, none) ∧ Inv { m with norbb := v })) := by
  have hi := inv_reachable h
  refine ⟨fun k => ?_, fun v => ?_, fun v => ?_⟩
  · rcases reassign_cases m { m with kind := k } (vKind k) (m.kind == k) with he | he
    · exact Or.inl he
    · have := inv_setKind hi k
      refine Or.inr ⟨he, ?_⟩
      unfold setKind at this; rw [he] at this; exact this
  · rcases reassign_cases m { m with norba := v } (vNorbab m true v) (m.norba == v) with he | he
    · exact Or.inl he
    · have := inv_setNorba hi v
      refine Or.inr ⟨he, ?_⟩
      unfold setNorba at this; rw [he] at this; exact this
  · rcases reassign_cases m { m with norbb := v } (vNorbab m false v) (m.norbb == v) with he | he
    · exact Or.inl he
    · have := inv_setNorbb hi v
      refine Or.inr ⟨he, ?_⟩
      unfold setNorbb at this; rw [he] at this; exact this

/-- 10a. `mo.kind = k` on a reachable object is accepted exactly when the object with the new kind
satisfies the invariant, i.e. exactly when the constructor would accept it. -/
theorem setKind_accepted_iff {m : MO} (h : Reachable m) (k : Kind) :
    (step m (.setKind k)).2 = none ↔ Inv { m with kind := k } :=
  reassign_ok_iff (inv_reachable h) (setKind_same m k) (fun hi => vKind_of_counts k hi.1)

/-- 10b. … same for `mo.norba = v` -/
theorem setNorba_accepted_iff {m : MO} (h : Reachable m) (v : Option Nat) :
    (step m (.setNorba v)).2 = none ↔ Inv { m with norba := v } :=
  reassign_ok_iff (inv_reachable h) (setNorba_same m v) (fun hi => vNorba_of_counts v hi.1)

/-- 10c. … and `mo.norbb = v` -/
theorem setNorbb_accepted_iff {m : MO} (h : Reachable m) (v : Option Nat) :
    (step m (.setNorbb v)).2 = none ↔ Inv { m with norbb := v } :=
  reassign_ok_iff (inv_reachable h) (setNorbb_same m v) (fun hi => vNorbb_of_counts v hi.1)

/-- 10d. Unrestricted orbitals, spelled out: a new `norba` is accepted exactly when it is the stored
one or no array is stored; symmetrically for `norbb`.  (Restricted and generalized orbitals never
accept a different count, see `count_change_rejected`.) -/
theorem setNorb_unrestricted_accepted_iff {m : MO} (h : Reachable m) (hk : m.kind = .unrestricted) (k : Nat) :
    ((step m (.setNorba (some k))).2 = none ↔ (m.norba = some k ∨ ∀ f, get m f = none)) ∧
    ((step m (.setNorbb (some k))).2 = none ↔ (m.norbb = some k ∨ ∀ f, get m f = none)) := by
  have hi := inv_reachable h
  obtain ⟨na, nb, hna, hnb, hn⟩ := inv_unrestricted hi hk
  have hc := hi.1
  unfold CountsOk at hc; simp only [hk] at hc
  constructor
  · rw [setNorba_accepted_iff h]
    constructor
    · intro hi'
      by_cases hall : ∀ f, get m f = none
      · exact Or.inr hall
      · obtain ⟨f, hf⟩ := Classical.not_forall.mp hall
        cases hg : get m f with
        | none => exact absurd hg hf
        | some a =>
          have h1 := hi.2.1 f a hg
          have h2 := hi'.2.1 f a (by cases f <;> exact hg)
          rw [hn] at h1
          simp only [norb, hk, hnb] at h2
          have e1 := Option.some.inj h1
          have e2 := Option.some.inj h2
          left; rw [hna]; congr 1; omega
    · rintro (he | hall)
      · rw [setNorba_same m (some k) (by simp [he])]; exact hi
      · refine ⟨?_, ?_, ?_⟩
        · unfold CountsOk; simp only [hk]; exact ⟨rfl, hc.2⟩
        · intro f a hg
          have : get m f = some a := by cases f <;> exact hg
          rw [hall f] at this; cases this
        · intro hne; exact absurd (hall .aminusb) hne
  · rw [setNorbb_accepted_iff h]
    constructor
    · intro hi'
      by_cases hall : ∀ f, get m f = none
      · exact Or.inr hall
      · obtain ⟨f, hf⟩ := Classical.not_forall.mp hall
        cases hg : get m f with
        | none => exact absurd hg hf
        | some a =>
          have h1 := hi.2.1 f a hg
          have h2 := hi'.2.1 f a (by cases f <;> exact hg)
          rw [hn] at h1
          simp only [norb, hk, hna] at h2
          have e1 := Option.some.inj h1
          have e2 := Option.some.inj h2
          left; rw [hnb]; congr 1; omega
    · rintro (he | hall)
      · rw [setNorbb_same m (some k) (by simp [he])]; exact hi
      · refine ⟨?_, ?_, ?_⟩
        · unfold CountsOk; simp only [hk]; exact ⟨hc.1, rfl⟩
        · intro f a hg
          have : get m f = some a := by cases f <;> exact hg
          rw [hall f] at this; cases this
        · intro hne; exact absurd (hall .aminusb) hne

/-- 11. The exception of a rejected re-assignment to a DIFFERENT value (any object `m`; `m'` is the
object with the new value): `ValueError` when the new kind and counts contradict each other,
otherwise `TypeError` when a stored array does not have the new `norb` entries, otherwise
`ValueError` for a stored `occs_aminusb` on a kind that is no longer restricted.  The object is
unchanged in every case. -/
theorem setKind_rejects (m : MO) (k : Kind) (hne : m.kind ≠ k) :
    (¬ CountsOk { m with kind := k } → step m (.setKind k) = (m, some .valueError)) ∧
    (CountsOk { m with kind := k } →
      (∃ f x, get m f = some x ∧ shapeOk { m with kind := k } x.length = false) →
      step m (.setKind k) = (m, some .typeError)) ∧
    (CountsOk { m with kind := k } →
      (∀ f x, get m f = some x → shapeOk { m with kind := k } x.length = true) → m.aminusb ≠ none →
      k ≠ .restricted → step m (.setKind k) = (m, some .valueError)) := by
  have hs : (m.kind == k) = false := beq_eq_false_iff_ne.mpr hne
  have := reassign_error_class (m := m) (m' := { m with kind := k }) (own := vKind k)
    (fun hc => vKind_of_counts k hc) (vKind_err k)
  simp only [step, setKind, hs]
  refine ⟨this.1, fun hc ⟨f, x, hg, hx⟩ => this.2.1 hc ⟨f, x, by cases f <;> exact hg, hx⟩,
    fun hc hall => this.2.2 hc (fun f x hg => hall f x (by cases f <;> exact hg))⟩

/-- 11b. … for `mo.norba = v` -/
theorem setNorba_rejects (m : MO) (v : Option Nat) (hne : m.norba ≠ v) :
    (¬ CountsOk { m with norba := v } → step m (.setNorba v) = (m, some .valueError)) ∧
    (CountsOk { m with norba := v } →
      (∃ f x, get m f = some x ∧ shapeOk { m with norba := v } x.length = false) →
      step m (.setNorba v) = (m, some .typeError)) ∧
    (CountsOk { m with norba := v } →
      (∀ f x, get m f = some x → shapeOk { m with norba := v } x.length = true) → m.aminusb ≠ none →
      m.kind ≠ .restricted → step m (.setNorba v) = (m, some .valueError)) := by
  have hs : (m.norba == v) = false := beq_eq_false_iff_ne.mpr hne
  have := reassign_error_class (m := m) (m' := { m with norba := v }) (own := vNorbab m true v)
    (fun hc => vNorba_of_counts v hc) (vNorbab_err m true v)
  simp only [step, setNorba, hs]
  refine ⟨this.1, fun hc ⟨f, x, hg, hx⟩ => this.2.1 hc ⟨f, x, by cases f <;> exact hg, hx⟩,
    fun hc hall => this.2.2 hc (fun f x hg => hall f x (by cases f <;> exact hg))⟩

/-- 11c. … and `mo.norbb = v` -/
theorem setNorbb_rejects (m : MO) (v : Option Nat) (hne : m.norbb ≠ v) :
    (¬ CountsOk { m with norbb := v } → step m (.setNorbb v) = (m, some .valueError)) ∧
    (CountsOk { m with norbb := v } →
      (∃ f x, get m f = some x ∧ shapeOk { m with norbb := v } x.length = false) →
      step m (.setNorbb v) = (m, some .typeError)) ∧
    (CountsOk { m with norbb := v } →
      (∀ f x, get m f = some x → shapeOk { m with norbb := v } x.length = true) → m.aminusb ≠ none →
      m.kind ≠ .restricted → step m (.setNorbb v) = (m, some .valueError)) := by
  have hs : (m.norbb == v) = false := beq_eq_false_iff_ne.mpr hne
  have := reassign_error_class (m := m) (m' := { m with norbb := v }) (own := vNorbab m false v)
    (fun hc => vNorbb_of_counts v hc) (vNorbab_err m false v)
  simp only [step, setNorbb, hs]
  refine ⟨this.1, fun hc ⟨f, x, hg, hx⟩ => this.2.1 hc ⟨f, x, by cases f <;> exact hg, hx⟩,
    fun hc hall => this.2.2 hc (fun f x hg => hall f x (by cases f <;> exact hg))⟩

/-- 12. The defect this closes (unrestricted orbitals with a stored array): a different `norba` or
`norbb` is refused with `TypeError`, nothing changes. -/
theorem count_change_with_arrays_rejected {m : MO} (h : Reachable m) (hk : m.kind = .unrestricted)
    {f : Fld} {a : List Rat} (hg : get m f = some a) (k : Nat) :
    (m.norba ≠ some k → step m (.setNorba (some k)) = (m, some .typeError)) ∧
    (m.norbb ≠ some k → step m (.setNorbb (some k)) = (m, some .typeError)) := by
  have hi := inv_reachable h
  obtain ⟨na, nb, hna, hnb, hn⟩ := inv_unrestricted hi hk
  have hlen : a.length = na + nb := by
    have := hi.2.1 f a hg; rw [hn] at this; exact (Option.some.inj this).symm
  constructor
  · intro hne
    refine (setNorba_rejects m (some k) hne).2.1 ?_ ⟨f, a, hg, ?_⟩
    · unfold CountsOk; simp [hk, hnb]
    · have : k ≠ na := fun e => hne (by rw [hna, e])
      simp [shapeOk, norb, hk, hnb, hlen]; omega
  · intro hne
    refine (setNorbb_rejects m (some k) hne).2.1 ?_ ⟨f, a, hg, ?_⟩
    · unfold CountsOk; simp [hk, hna]
    · have : k ≠ nb := fun e => hne (by rw [hnb, e])
      simp [shapeOk, norb, hk, hna, hlen]; omega

/-- 12b. Counts that contradict the kind are refused with `ValueError`: `None` on (un)restricted
orbitals, a number on generalized ones, and on restricted orbitals any count different from the
other one (so a restricted object never changes its counts). -/
theorem count_change_rejected {m : MO} (h : Reachable m) :
    (m.kind ≠ .generalized → step m (.setNorba none) = (m, some .valueError) ∧
      step m (.setNorbb none) = (m, some .valueError)) ∧
    (m.kind = .generalized → ∀ k, step m (.setNorba (some k)) = (m, some .valueError) ∧
      step m (.setNorbb (some k)) = (m, some .valueError)) ∧
    (m.kind = .restricted → ∀ k, m.norba ≠ some k → step m (.setNorba (some k)) = (m, some .valueError) ∧
      step m (.setNorbb (some k)) = (m, some .valueError)) := by
  have hi := inv_reachable h
  refine ⟨fun hk => ?_, fun hk k => ?_, fun hk k hne => ?_⟩
  · simp [step, setNorba, setNorbb, reassign, vNorbab, hk]
  · simp [step, setNorba, setNorbb, reassign, vNorbab, hk]
  · obtain ⟨n, hna, hnb, _⟩ := inv_restricted hi hk
    have h1 : ¬ (some k = m.norbb) := fun e => hne (by rw [hna, ← hnb, e])
    have h2 : ¬ (some k = m.norba) := fun e => hne e.symm
    simp [step, setNorba, setNorbb, reassign, vNorbab, hk, h1, h2]

/-- 12c. Kinds that contradict the counts: switching a reachable object to or from `generalized`
(or to an illegal name) is refused with `ValueError`; switching restricted orbitals with `n > 0`
orbitals and a stored array to `unrestricted` is refused with `TypeError`. -/
theorem kind_change_rejected {m : MO} (h : Reachable m) (k : Kind) (hne : m.kind ≠ k) :
    ((m.kind = .generalized ∨ k = .generalized ∨ k = .other) → step m (.setKind k) = (m, some .valueError)) ∧
    (m.kind = .restricted → k = .unrestricted → ∀ f a, get m f = some a → a ≠ [] →
      step m (.setKind k) = (m, some .typeError)) := by
  have hi := inv_reachable h
  have hc := hi.1
  constructor
  · intro hcase
    refine (setKind_rejects m k hne).1 ?_
    unfold CountsOk at hc ⊢
    rcases hcase with hg | hg | hg
    · rw [hg] at hc hne
      cases k <;> simp_all
    · subst hg
      cases hk : m.kind <;> simp_all <;> (intro hn; rw [hn] at hc; simp at hc)
    · subst hg; simp
  · intro hr hu f a hg hnil
    subst hu
    obtain ⟨n, hna, hnb, hn⟩ := inv_restricted hi hr
    have hlen : a.length = n := by
      have := hi.2.1 f a hg; rw [hn] at this; exact (Option.some.inj this).symm
    refine (setKind_rejects m .unrestricted hne).2.1 ?_ ⟨f, a, hg, ?_⟩
    · unfold CountsOk; simp [hna, hnb]
    · have : a.length ≠ 0 := fun e => hnil (List.eq_nil_of_length_eq_zero e)
      simp [shapeOk, norb, hna, hnb, hlen]; omega

/-! ### tie to the source (regenerated each run) -/

/-- field order and validators of `MolecularOrbitals` are the ones the model transcribes -/
theorem gen_mo_fields : Iodata.Gen.OrbitalFields.moFields = moFieldSpec := by decide +kernel

/-- exactly these accessors/setters start with the generalized refusal -/
theorem gen_refusing : Iodata.Gen.OrbitalFields.refusing = refusingSpec := by decide +kernel

/-- field order and validators of `Shell` -/
theorem gen_shell_fields : Iodata.Gen.OrbitalFields.shellFields = shellFieldSpec := by decide +kernel

/-! ### non-vacuity and recorded behaviours -/

/-- open-shell restricted orbitals: alpha [1,1,0], beta [1,0,0], spin polarisation 1 -/
example :
    let m : MO := { kind := .restricted, norba := some 3, norbb := some 3, occs := some [2, 1, 0] }
    construct m = .ok m ∧ occsa m = .ok (some [1, 1, 0]) ∧ occsb m = .ok (some [1, 0, 0]) ∧
      spinpol m = .ok (some 1) := by decide +kernel

/-- the witness of the repaired defect: negative `occs_aminusb` now gives a positive spin polarisation -/
example :
    spinpol { kind := .restricted, norba := some 1, norbb := some 1, occs := some [1], aminusb := some [-1] }
      = .ok (some 1) := by decide +kernel

/-- a rejected and an accepted assignment in a reachable state -/
example :
    let m : MO := { kind := .unrestricted, norba := some 2, norbb := some 1, occs := some [1, 1, 0] }
    (step m (.set .energies (some [1, 2]))).2 = some .typeError ∧
    (step m (.setOccsa [1/2, 1/4])).1.occs = some [1/2, 1/4, 0] := by decide +kernel

/-- the repaired defect, accepted side: without arrays an unrestricted object may change its counts,
the same value may always be re-assigned, and restricted <-> unrestricted is possible without arrays -/
example :
    let m : MO := { kind := .unrestricted, norba := some 2, norbb := some 1 }
    let w : MO := { kind := .unrestricted, norba := some 2, norbb := some 1, occs := some [1, 1, 0] }
    let r : MO := { kind := .restricted, norba := some 2, norbb := some 2 }
    construct m = .ok m ∧ construct w = .ok w ∧ construct r = .ok r ∧
    step m (.setNorba (some 3)) = ({ m with norba := some 3 }, none) ∧
    norb (step m (.setNorba (some 3))).1 = some 4 ∧
    step w (.setNorba (some 2)) = (w, none) ∧ step w (.setKind .unrestricted) = (w, none) ∧
    step r (.setKind .unrestricted) = ({ r with kind := .unrestricted }, none) ∧
    norb (step r (.setKind .unrestricted)).1 = some 4 := by decide +kernel

/-- the repaired defect, rejected side (all of these were accepted before the `fix:` commit): counts
of unrestricted orbitals with arrays, kind switches that double / halve `norb` or contradict the
counts, `occs_aminusb` surviving a switch away from restricted -/
example :
    let w : MO := { kind := .unrestricted, norba := some 2, norbb := some 1, occs := some [1, 1, 0] }
    let r : MO := { kind := .restricted, norba := some 2, norbb := some 2, energies := some [1, 2] }
    let g : MO := { kind := .generalized, norba := none, norbb := none, occs := some [1, 0] }
    let z : MO := { kind := .restricted, norba := some 0, norbb := some 0, occs := some [], aminusb := some [] }
    let u : MO := { kind := .unrestricted, norba := some 2, norbb := some 1 }
    construct w = .ok w ∧ construct r = .ok r ∧ construct g = .ok g ∧ construct z = .ok z ∧ construct u = .ok u ∧
    step w (.setNorba (some 3)) = (w, some .typeError) ∧ step w (.setNorbb (some 0)) = (w, some .typeError) ∧
    step w (.setNorba none) = (w, some .valueError) ∧
    step r (.setKind .unrestricted) = (r, some .typeError) ∧ step r (.setNorba (some 3)) = (r, some .valueError) ∧
    step g (.setKind .restricted) = (g, some .valueError) ∧ step g (.setNorba (some 2)) = (g, some .valueError) ∧
    step z (.setKind .unrestricted) = (z, some .valueError) ∧
    step u (.setKind .restricted) = (u, some .valueError) ∧ step u (.setKind .other) = (u, some .valueError) := by
  decide +kernel

/-- the hypotheses of `count_change_with_arrays_rejected` / `setNorb_unrestricted_accepted_iff` are
satisfiable: a reachable unrestricted object with a stored array, reached through re-assignments -/
example : Reachable (run { kind := .restricted, norba := some 1, norbb := some 1 }
    [.setKind .unrestricted, .setNorba (some 2), .set .occs (some [1, 1, 0])]) ∧
    run { kind := .restricted, norba := some 1, norbb := some 1 }
      [.setKind .unrestricted, .setNorba (some 2), .set .occs (some [1, 1, 0])] =
    { kind := .unrestricted, norba := some 2, norbb := some 1, occs := some [1, 1, 0] } :=
  ⟨⟨{ kind := .restricted, norba := some 1, norbb := some 1 }, _, _, by decide +kernel, rfl⟩, by decide +kernel⟩

/-- numpy broadcasting is part of the model: a one-element right-hand side fills the block -/
example :
    let m : MO := { kind := .restricted, norba := some 2, norbb := some 2, occs := some [2, 1] }
    (step m (.setOccsa [1])).1.occs = some [2, 1] ∧ (step m (.setOccsa [1])).1.aminusb = some [0, 1] := by
  decide +kernel

/-- shells: SP shell has 4 functions; a pure p contraction is refused -/
example : (Shell.mk [0, 1] ["c", "c"] 2 [2, 2]).nbasis = .ok 4 ∧
    (Shell.mk [0, 1] ["c", "p"] 2 [2, 2]).nbasis = .error .typeError := by decide +kernel

end Iodata.Props.C12
