/-
C12 — MolecularOrbitals and Shell keep their derived quantities consistent.

Property theorems only (helpers: `Iodata/Lemmas/Orbitals.lean`).  The model
(`Iodata/Model/Orbitals.lean`) is tied to `iodata/orbitals.py` and `iodata/basis.py` by the
correspondence streams `mo` / `shl` (same operation sequences on the real objects and on `step`,
all observables compared after every operation) and by `Iodata/Gen/OrbitalFields.lean`.

History statements quantify over ARBITRARY operation lists: `Reachable m` = some successful
construction followed by any `List Op`; they are proved through the invariant `Inv`
(`construct_ok_iff`, `inv_step`, `inv_run`).
-/
import Iodata.Lemmas.Orbitals
import Iodata.Gen.OrbitalFields

set_option linter.unusedSimpArgs false

namespace Iodata.Props.C12
open Iodata.Orb

/-- 0. Every object reached by any history satisfies the invariant: kind and counts fit, every
array that is set has `norb` entries, `occs_aminusb` only on restricted orbitals. -/
theorem invariant_all_histories {a m0 : MO} (hc : construct a = .ok m0) (ops : List Op) : Inv (run m0 ops) :=
  inv_run (inv_construct hc) ops

/-- 1. Construction accepts exactly the consistent arguments (kind legal, counts fitting the kind,
every array of length `norb`, `occs_aminusb` only when restricted) and stores them unchanged;
everything else raises. -/
theorem construct_accepts_iff (a : MO) :
    (∃ m, construct a = .ok m) ↔ Inv a := by
  constructor
  · intro ⟨m, h⟩
    have := construct_ok_eq h; subst this
    exact (construct_ok_iff m).mp h
  · intro h; exact ⟨a, (construct_ok_iff a).mpr h⟩

/-- 1b. In a reachable object an array of the wrong length is refused with `TypeError` (also for
`occs_aminusb`), `occs_aminusb` on non-restricted orbitals with `ValueError`; the object is unchanged. -/
theorem assignment_rejects {m : MO} (h : Reachable m) (hk : m.kind ≠ .generalized) (f : Fld) (a : List Rat) :
    ∃ n, norb m = some n ∧
      (a.length ≠ n → step m (.set f (some a)) = (m, some .typeError)) ∧
      (a.length = n → m.kind ≠ .restricted → step m (.set .aminusb (some a)) = (m, some .valueError)) := by
  have hi := inv_reachable h
  obtain ⟨n, hn⟩ := norb_isSome_of_counts hi.1 hk
  refine ⟨n, hn, fun ha => store_wrong_length hn f ha, fun ha hr => ?_⟩
  exact store_ab_wrong_kind hr (by simp [shapeOk, hn, ha])

/-- 2. Restricted orbitals: alpha + beta occupations give the stored occupations entry by entry. -/
theorem occs_sum_restricted {m : MO} (h : Reachable m) (hk : m.kind = .restricted) {o : List Rat}
    (ho : m.occs = some o) :
    ∃ a b, occsa m = .ok (some a) ∧ occsb m = .ok (some b) ∧
      List.zipWith (· + ·) a b = o ∧ a.length = o.length ∧ b.length = o.length := by
  obtain ⟨a, b, ha, hb, hr, _⟩ := spin_facts (inv_reachable h) (by rw [hk]; decide) ho
  exact ⟨a, b, ha, hb, hr hk⟩

/-- 2b. Unrestricted orbitals: the stored occupations are the alpha ones followed by the beta ones,
`norba` resp. `norbb` of them. -/
theorem occs_sum_unrestricted {m : MO} (h : Reachable m) (hk : m.kind = .unrestricted) {o : List Rat}
    (ho : m.occs = some o) :
    ∃ a b, occsa m = .ok (some a) ∧ occsb m = .ok (some b) ∧
      a ++ b = o ∧ some a.length = m.norba ∧ some b.length = m.norbb := by
  obtain ⟨a, b, ha, hb, _, hu, _⟩ := spin_facts (inv_reachable h) (by rw [hk]; decide) ho
  exact ⟨a, b, ha, hb, hu hk⟩

/-- 3. Electron count = sum of the stored occupations = alpha total + beta total;
4. spin polarisation = |alpha total − beta total| (code as of the `fix:` commit 4621cf7). -/
theorem nelec_and_spinpol {m : MO} (h : Reachable m) (hk : m.kind ≠ .generalized) {o : List Rat}
    (ho : m.occs = some o) :
    ∃ a b, occsa m = .ok (some a) ∧ occsb m = .ok (some b) ∧
      nelec m = some (sum o) ∧ nelec m = some (sum a + sum b) ∧
      spinpol m = .ok (some (absR (sum a - sum b))) := by
  obtain ⟨a, b, ha, hb, _, _, hs, hn, hsp⟩ := spin_facts (inv_reachable h) hk ho
  exact ⟨a, b, ha, hb, by rw [hn, hs], hn, hsp⟩

/-- 3b. Without occupations every derived quantity is `None`. -/
theorem no_occs_all_none {m : MO} (hk : m.kind ≠ .generalized) (ho : m.occs = none) :
    occsa m = .ok none ∧ occsb m = .ok none ∧ nelec m = none ∧ spinpol m = .ok none := by
  simp [occsa, occsb, nelec, spinpol, hk, ho]

/-- 5. Alpha/beta views of coefficients (columns), energies and irreps are the documented slices:
the whole array for restricted orbitals, the first `norba` / remaining `norbb` entries otherwise. -/
theorem views_are_slices {m : MO} (h : Reachable m) (f : Fld) (_hf : f = .coeffs ∨ f = .energies ∨ f = .irreps)
    {x : List Rat} (hx : get m f = some x) :
    (m.kind = .restricted → view m false (some x) = .ok (some x) ∧ view m true (some x) = .ok (some x)) ∧
    (m.kind = .unrestricted → ∃ na nb, m.norba = some na ∧ m.norbb = some nb ∧
        view m false (some x) = .ok (some (x.take na)) ∧ view m true (some x) = .ok (some (x.drop na)) ∧
        (x.take na).length = na ∧ (x.drop na).length = nb) := by
  have hi := inv_reachable h
  constructor
  · intro hk; simp [view, hk]
  · intro hk
    obtain ⟨na, nb, hna, hnb, hn⟩ := inv_unrestricted hi hk
    have hlen : x.length = na + nb := by
      have := hi.2.1 f x hx; rw [hn] at this; exact (Option.some.inj this).symm
    refine ⟨na, nb, hna, hnb, by simp [view, hk, hna], by simp [view, hk, hna], ?_, ?_⟩
    · simp [List.length_take]; omega
    · simp [List.length_drop]; omega

/-- 6a. Restricted orbitals with occupations: `mo.occsa = v` (with `norb` entries) succeeds, reads
back as `v` exactly and leaves the beta occupations unchanged; symmetrically for `occsb`. -/
theorem set_spin_reads_back_restricted {m : MO} (h : Reachable m) (hk : m.kind = .restricted) {o : List Rat}
    (ho : m.occs = some o) {v : List Rat} (hv : v.length = o.length) :
    ((step m (.setOccsa v)).2 = none ∧ occsa (step m (.setOccsa v)).1 = .ok (some v) ∧
        occsb (step m (.setOccsa v)).1 = occsb m) ∧
    ((step m (.setOccsb v)).2 = none ∧ occsb (step m (.setOccsb v)).1 = .ok (some v) ∧
        occsa (step m (.setOccsb v)).1 = occsa m) :=
  ⟨setOccsa_restricted_reads_back (inv_reachable h) hk ho hv,
   setOccsb_restricted_reads_back (inv_reachable h) hk ho hv⟩

/-- 6b. Restricted orbitals without occupations: `mo.occsa = v` creates them; beta reads zero. -/
theorem set_spin_fresh_restricted {m : MO} (h : Reachable m) (hk : m.kind = .restricted) (ho : m.occs = none)
    {n : Nat} (hn : m.norba = some n) {v : List Rat} (hv : v.length = n) :
    (step m (.setOccsa v)).2 = none ∧ occsa (step m (.setOccsa v)).1 = .ok (some v) ∧
      occsb (step m (.setOccsa v)).1 = .ok (some (v.map fun _ => 0)) :=
  setOccsa_restricted_fresh (inv_reachable h) hk ho hn hv

/-- 6c. Unrestricted orbitals with occupations: in-place assignment of the alpha (beta) block reads
back and leaves the other block unchanged. -/
theorem set_spin_reads_back_unrestricted {m : MO} (h : Reachable m) (hk : m.kind = .unrestricted) {o : List Rat}
    (ho : m.occs = some o) {na nb : Nat} (hna : m.norba = some na) (hnb : m.norbb = some nb) :
    (∀ v : List Rat, v.length = na →
      (step m (.setOccsa v)).2 = none ∧ occsa (step m (.setOccsa v)).1 = .ok (some v) ∧
        occsb (step m (.setOccsa v)).1 = occsb m) ∧
    (∀ v : List Rat, v.length = nb →
      (step m (.setOccsb v)).2 = none ∧ occsb (step m (.setOccsb v)).1 = .ok (some v) ∧
        occsa (step m (.setOccsb v)).1 = occsa m) :=
  ⟨fun _ hv => setOccsa_unrestricted_reads_back (inv_reachable h) hk ho hna hv,
   fun _ hv => setOccsb_unrestricted_reads_back (inv_reachable h) hk ho hnb hv⟩

/-- 7. Generalized orbitals expose the combined quantities only: every spin-resolved accessor and
both setters raise `NotImplementedError` (setters change nothing), `nelec` is the plain total. -/
theorem generalized_refuses {m : MO} (hk : m.kind = .generalized) (x : Option (List Rat)) (v : List Rat) :
    occsa m = .error .notImpl ∧ occsb m = .error .notImpl ∧ spinpol m = .error .notImpl ∧
    view m false x = .error .notImpl ∧ view m true x = .error .notImpl ∧
    step m (.setOccsa v) = (m, some .notImpl) ∧ step m (.setOccsb v) = (m, some .notImpl) ∧
    nelec m = m.occs.map sum := by
  simp [occsa, occsb, spinpol, view, step, setOccsa, setOccsb, nelec, hk]

/-- 8. A shell is accepted exactly when `coeffs` is a matrix of shape (nexp, ncon) and angmoms and
kinds have ncon entries; every refusal is a `TypeError`; assignments keep this. -/
theorem shell_accepts_iff (s : Shell) :
    ((∃ s', Shell.construct s = .ok s') ↔ s.Ok) ∧
    (∀ e, Shell.construct s = .error e → e = .typeError) := by
  unfold Shell.construct
  constructor
  · cases hf : firstErr (shellChecks s) with
    | none => simp [(shell_checks_iff s).mp hf]
    | some e =>
      simp only [reduceCtorEq, exists_false, false_iff]
      intro hok; rw [(shell_checks_iff s).mpr hok] at hf; cases hf
  · intro e he
    cases hf : firstErr (shellChecks s) with
    | none => rw [hf] at he; cases he
    | some e' => rw [hf] at he; cases he; exact firstErr_shell_type s e hf

/-- 8b. … for every assignment history on an accepted shell. -/
theorem shell_invariant {s0 s : Shell} (h0 : Shell.construct s0 = .ok s) (ops : List ShellOp) :
    (ops.foldl (fun s op => (s.step op).1) s).Ok := by
  have hs : s.Ok := by
    unfold Shell.construct at h0
    cases hf : firstErr (shellChecks s0) with
    | none => rw [hf] at h0; cases h0; exact (shell_checks_iff s0).mp hf
    | some e => rw [hf] at h0; cases h0
  clear h0
  induction ops generalizing s with
  | nil => exact hs
  | cons op t ih => exact ih (shell_inv_step hs op)

/-- 9. A shell's function count follows its angular momenta and kinds: the sum of (l+1)(l+2)/2 for
Cartesian and 2l+1 for pure (l ≥ 2) contractions; any other kind raises `TypeError`. -/
theorem nbasis_spec (s : Shell) :
    ((∀ p ∈ s.angmoms.zip s.kinds, legal p) → s.nbasis = .ok ((s.angmoms.zip s.kinds).map nfnSpec).sum) ∧
    ((∃ p ∈ s.angmoms.zip s.kinds, ¬ legal p) → s.nbasis = .error .typeError) := by
  constructor
  · intro h; simpa [Shell.nbasis] using nbasisFrom_legal _ 0 h
  · intro h; exact nbasisFrom_illegal _ 0 h

/-! ### tie to the source (regenerated each run) -/

/-- field order and validators of `MolecularOrbitals` are the ones the model transcribes -/
theorem gen_mo_fields : Iodata.Gen.OrbitalFields.moFields = moFieldSpec := by decide +kernel

/-- exactly these accessors/setters start with the generalized refusal -/
theorem gen_refusing : Iodata.Gen.OrbitalFields.refusing = refusingSpec := by decide +kernel

/-- field order and validators of `Shell` -/
theorem gen_shell_fields : Iodata.Gen.OrbitalFields.shellFields = shellFieldSpec := by decide +kernel

/-! ### non-vacuity and recorded behaviours -/

/-- open-shell restricted orbitals: alpha [1,1,0], beta [1,0,0], spin polarisation 1 -/
example :
    let m : MO := { kind := .restricted, norba := some 3, norbb := some 3, occs := some [2, 1, 0] }
    construct m = .ok m ∧ occsa m = .ok (some [1, 1, 0]) ∧ occsb m = .ok (some [1, 0, 0]) ∧
      spinpol m = .ok (some 1) := by decide +kernel

/-- the witness of the repaired defect: negative `occs_aminusb` now gives a positive spin polarisation -/
example :
    spinpol { kind := .restricted, norba := some 1, norbb := some 1, occs := some [1], aminusb := some [-1] }
      = .ok (some 1) := by decide +kernel

/-- a rejected and an accepted assignment in a reachable state -/
example :
    let m : MO := { kind := .unrestricted, norba := some 2, norbb := some 1, occs := some [1, 1, 0] }
    (step m (.set .energies (some [1, 2]))).2 = some .typeError ∧
    (step m (.setOccsa [1/2, 1/4])).1.occs = some [1/2, 1/4, 0] := by decide +kernel

/-- numpy broadcasting is part of the model: a one-element right-hand side fills the block -/
example :
    let m : MO := { kind := .restricted, norba := some 2, norbb := some 2, occs := some [2, 1] }
    (step m (.setOccsa [1])).1.occs = some [2, 1] ∧ (step m (.setOccsa [1])).1.aminusb = some [0, 1] := by
  decide +kernel

/-- shells: SP shell has 4 functions; a pure p contraction is refused -/
example : (Shell.mk [0, 1] ["c", "c"] 2 [2, 2]).nbasis = .ok 4 ∧
    (Shell.mk [0, 1] ["c", "p"] 2 [2, 2]).nbasis = .error .typeError := by decide +kernel

end Iodata.Props.C12
