/-
C06 — obligations over the generated Cartesian→pure tables (`Iodata/Gen/Cartpure.lean`, regenerated from
`iodata/overlap_cartpure.py` on every run; entries are the exact dyadic values of the doubles).

`Iodata.CartPure.checkTable l tf` (see `Model/CartPure.lean`) evaluates, in exact rational interval
arithmetic with `1/√d` enclosed to 2⁻⁶⁴ (enclosure verified by squaring), the four conditions that
characterise the L2-normalised real regular solid harmonics of docs/basis.rst within 10⁻¹²:
harmonic rows, orthonormal rows w.r.t. the exact Gram matrix of normalised Cartesian primitives,
`cos mφ`/`sin mφ` symmetry with the documented relative sign (`∂φ C_m = −m S_m`, `∂φ S_m = m C_m`),
positive leading coefficient.  One flipped sign or swapped entry falsifies at least one of them.
Soundness of the interval evaluation over ℝ is `Iodata.Props.C06.checkTable_sound_*` (Props/C06.lean).
-/
import Iodata.Model.CartPure
import Iodata.Gen.Cartpure

namespace Iodata.Props.C06Tables
open Iodata.CartPure Iodata.Gen.Cartpure

/-- the module ships exactly the tables l = 0..7 -/
theorem tfs_count : tfs.length = 8 := by decide

theorem tfs_orthonormal_harmonic_0 : checkTable 0 (tfs.getD 0 []) = true := by decide +kernel
theorem tfs_orthonormal_harmonic_1 : checkTable 1 (tfs.getD 1 []) = true := by decide +kernel
theorem tfs_orthonormal_harmonic_2 : checkTable 2 (tfs.getD 2 []) = true := by decide +kernel
theorem tfs_orthonormal_harmonic_3 : checkTable 3 (tfs.getD 3 []) = true := by decide +kernel
theorem tfs_orthonormal_harmonic_4 : checkTable 4 (tfs.getD 4 []) = true := by decide +kernel
theorem tfs_orthonormal_harmonic_5 : checkTable 5 (tfs.getD 5 []) = true := by decide +kernel
theorem tfs_orthonormal_harmonic_6 : checkTable 6 (tfs.getD 6 []) = true := by decide +kernel
theorem tfs_orthonormal_harmonic_7 : checkTable 7 (tfs.getD 7 []) = true := by decide +kernel

/-- `tfs_orthonormal_harmonic`: every shipped table (l ≤ 7) is, within 10⁻¹², the table of normalised
real solid harmonics in HORTON2 order. -/
theorem tfs_orthonormal_harmonic : ∀ l, l < 8 → checkTable l (tfs.getD l []) = true := by
  intro l hl
  have h : l = 0 ∨ l = 1 ∨ l = 2 ∨ l = 3 ∨ l = 4 ∨ l = 5 ∨ l = 6 ∨ l = 7 := by omega
  rcases h with h | h | h | h | h | h | h | h <;> subst h
  · exact tfs_orthonormal_harmonic_0
  · exact tfs_orthonormal_harmonic_1
  · exact tfs_orthonormal_harmonic_2
  · exact tfs_orthonormal_harmonic_3
  · exact tfs_orthonormal_harmonic_4
  · exact tfs_orthonormal_harmonic_5
  · exact tfs_orthonormal_harmonic_6
  · exact tfs_orthonormal_harmonic_7

/-- non-vacuity: the checker rejects a table with one sign flipped / two entries swapped -/
example : checkTable 2 [[(-1:Rat)/2, 0, 0, 1/2, 0, 1], [0,0,1,0,0,0], [0,0,0,0,1,0],
    [(3900231685776981:Rat)/4503599627370496, 0, 0, -(3900231685776981:Rat)/4503599627370496, 0, 0], [0,1,0,0,0,0]] = false := by
  decide +kernel
example : checkTable 1 [[0,0,1],[0,1,0],[1,0,0]] = false := by decide +kernel

end Iodata.Props.C06Tables
