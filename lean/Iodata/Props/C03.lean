/-
C03 — loaded values are exactly what the file says under the published layout.

Property theorems only.  Per format an *independent renderer of the published layout* (`specRender`,
hand-written from the format documents: free-format token order for XYZ/MOL2, column tables for
SDF V2000 / PDB v3.3 / GRO) and the theorem `load (specRender m) = ok m` for every model `m`; where the
reader in the source deviates from the published columns the deviation is *proved* by a concrete
counter-example (`…_violated`) and the theorem is stated on the complement (`…_partial`).
-/
import Iodata.Lemmas.Fmt.Xyz
import Iodata.Lemmas.Fmt.Sdf
import Iodata.Gen.Layouts

namespace Iodata.Props.C03
open Iodata.Chars Iodata.Decimal Iodata.Fmt Iodata.Gen.Layouts

/-! ## XYZ (free format) -/

/-- XYZ: every well-formed free-format file — any blank runs before/between/after the fields, the
element given as symbol in any case or as atomic number, numbers of any magnitude and sign — loads as
the object it denotes: the i-th line's element and numbers stay attached to atom i, in order. -/
theorem xyz_load_spec (T : Tables) (L : Xyz.Layout) (m : Xyz.SpecObj) (h : Xyz.SpecOK T L m) :
    Xyz.load T L (Xyz.specRender T L m) = .ok m.obj :=
  Xyz.load_spec T L m h

/-- XYZ: each element of the table is recognised in all four spellings (`Cl`, `CL`, `cl`, `17`). -/
theorem xyz_spec_elements_ok :
    ∀ z ∈ List.range' 1 118, ∀ v ∈ [0, 1, 2, 3], Xyz.okEl tables z v = true := by
  decide +kernel

/-- non-vacuity: a spec file with tabs and several blanks as separators. -/
example : Xyz.SpecOK tables xyzL
    ⟨[' '], [' ', ' '], [], ['w','a','t','e','r',' ','1'], [' '],
     [⟨8, 1, ['\t'], [([' ', ' '], ⟨true, 12345678901⟩), (['\t'], ⟨false, 0⟩), ([' '], ⟨false, 99999999999999⟩)], []⟩,
      ⟨1, 3, [], [([' '], ⟨false, 5⟩), ([' '], ⟨true, 0⟩), ([' ', '\t'], ⟨false, 7⟩)], [' ']⟩]⟩ := by
  decide +kernel

/-! ## SDF (CTfile V2000 column table) -/

/-- SDF: the slices of the reader in the source are the published columns (counts 1-3, 4-6; atom
1-10, 11-20, 21-30, 32-34; bond 1-3, 4-6, 7-9), as are the columns of the hand-written spec layout. -/
theorem sdf_reader_columns_match_spec :
    Sdf.readerColumns sdfL = Sdf.specColumns ∧ Sdf.readerColumns Sdf.specV2000 = Sdf.specColumns ∧
    sdfL.coordD = Sdf.specV2000.coordD ∧ Sdf.LayoutOK Sdf.specV2000 := by decide +kernel

/-- SDF: a file rendered from the published column table is loaded as the model it was rendered from —
every model the columns can hold, touching fields included — by any reader whose slices and decimals are
the published ones (the reader in the source is one: `sdf_reader_columns_match_spec`). -/
theorem sdf_load_spec (T : Tables) (L : Sdf.Layout) (hd : L.coordD = Sdf.specV2000.coordD)
    (hs : Sdf.readerColumns L = Sdf.specColumns) (m : Sdf.Obj) (h : Sdf.Dom T Sdf.specV2000 m) :
    Sdf.load T L (Sdf.dump T Sdf.specV2000 m) = .ok (Sdf.norm Sdf.specV2000 m) := by
  rw [Sdf.load_congr T L Sdf.specV2000 hd (by rw [hs]; decide +kernel)]
  exact Sdf.load_dump T Sdf.specV2000 (by decide +kernel) m h

/-- non-vacuity: the bond record `101110  1  0  0  0  0` of the published layout is in the domain and
is read as the bond (100, 109, 1). -/
example : Sdf.dumpBond Sdf.specV2000 ⟨100, 109, 1⟩ = "101110  1  0  0  0  0\n".toList ∧
    Sdf.loadBond sdfL (Sdf.dumpBond Sdf.specV2000 ⟨100, 109, 1⟩) = .ok ⟨100, 109, 1⟩ := by decide +kernel

end Iodata.Props.C03
