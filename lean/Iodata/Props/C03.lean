/-
C03 — loaded values are exactly what the file says under the published layout.

Property theorems only.  Per format an *independent renderer of the published layout* (`specRender`,
hand-written from the format documents: free-format token order for XYZ/MOL2, column tables for
SDF V2000 / PDB v3.3 / GRO) and the theorem `load (specRender m) = ok m` for every model `m`; where the
reader in the source deviates from the published columns the deviation is *proved* by a concrete
counter-example (`…_violated`) and the theorem is stated on the complement (`…_partial`).
-/
import Iodata.Lemmas.Fmt.Xyz
import Iodata.Lemmas.Fmt.Sdf
import Iodata.Lemmas.Fmt.Pdb
import Iodata.Lemmas.Fmt.PdbConect
import Iodata.Lemmas.Fmt.Fchk
import Iodata.Lemmas.Fmt.Cube
import Iodata.Lemmas.Fmt.Mol2
import Iodata.Lemmas.Fmt.Fcidump
import Iodata.Lemmas.Fmt.Poscar
import Iodata.Lemmas.Fmt.Gro
import Iodata.Gen.Layouts

namespace Iodata.Props.C03
open Iodata.Chars Iodata.Decimal Iodata.Fmt Iodata.Gen.Layouts

/-! ## XYZ (free format) -/

/-- XYZ: every well-formed free-format file — any blank runs before/between/after the fields, the
element given as symbol in any case or as atomic number, numbers of any magnitude and sign — loads as
the object it denotes: the i-th line's element and numbers stay attached to atom i, in order. -/
theorem xyz_load_spec (T : Tables) (L : Xyz.Layout) (m : Xyz.SpecObj) (h : Xyz.SpecOK T L m) :
    Xyz.load T L (Xyz.specRender T L m) = .ok m.obj :=
  Xyz.load_spec T L m h

/-- XYZ: each element of the table is recognised in all four spellings (`Cl`, `CL`, `cl`, `17`). -/
theorem xyz_spec_elements_ok :
    ∀ z ∈ List.range' 1 118, ∀ v ∈ [0, 1, 2, 3], Xyz.okEl tables z v = true := by
  decide +kernel

/-- non-vacuity: a spec file with tabs and several blanks as separators. -/
example : Xyz.SpecOK tables xyzL
    ⟨[' '], [' ', ' '], [], ['w','a','t','e','r',' ','1'], [' '],
     [⟨8, 1, ['\t'], [([' ', ' '], ⟨true, 12345678901⟩), (['\t'], ⟨false, 0⟩), ([' '], ⟨false, 99999999999999⟩)], []⟩,
      ⟨1, 3, [], [([' '], ⟨false, 5⟩), ([' '], ⟨true, 0⟩), ([' ', '\t'], ⟨false, 7⟩)], [' ']⟩]⟩ := by
  decide +kernel

/-! ## SDF (CTfile V2000 column table) -/

/-- SDF: the slices of the reader in the source are the published columns (counts 1-3, 4-6; atom
1-10, 11-20, 21-30, 32-34; bond 1-3, 4-6, 7-9), as are the columns of the hand-written spec layout. -/
theorem sdf_reader_columns_match_spec :
    Sdf.readerColumns sdfL = Sdf.specColumns ∧ Sdf.readerColumns Sdf.specV2000 = Sdf.specColumns ∧
    sdfL.coordD = Sdf.specV2000.coordD ∧ Sdf.LayoutOK Sdf.specV2000 := by decide +kernel

/-- SDF: a file rendered from the published column table is loaded as the model it was rendered from —
every model the columns can hold, touching fields included — by any reader whose slices and decimals are
the published ones (the reader in the source is one: `sdf_reader_columns_match_spec`). -/
theorem sdf_load_spec (T : Tables) (L : Sdf.Layout) (hd : L.coordD = Sdf.specV2000.coordD)
    (hs : Sdf.readerColumns L = Sdf.specColumns) (m : Sdf.Obj) (h : Sdf.Dom T Sdf.specV2000 m) :
    Sdf.load T L (Sdf.dump T Sdf.specV2000 m) = .ok (Sdf.norm Sdf.specV2000 m) := by
  rw [Sdf.load_congr T L Sdf.specV2000 hd (by rw [hs]; decide +kernel)]
  exact Sdf.load_dump T Sdf.specV2000 (by decide +kernel) m h

/-- non-vacuity: the bond record `101110  1  0  0  0  0` of the published layout is in the domain and
is read as the bond (100, 109, 1). -/
example : Sdf.dumpBond Sdf.specV2000 ⟨100, 109, 1⟩ = "101110  1  0  0  0  0\n".toList ∧
    Sdf.loadBond sdfL (Sdf.dumpBond Sdf.specV2000 ⟨100, 109, 1⟩) = .ok ⟨100, 109, 1⟩ := by decide +kernel

/-! ## PDB (wwPDB format v3.3 column tables)

Every file rendered from the published ATOM/CONECT column tables loads as the model: the reader's slices
*are* the published columns (`pdb_reader_columns_match_spec`, by computation on the slices extracted from the
source); any ATOM record laid out in those columns is cut into its model atom (`pdb_spec_atom_record`), in
either spelling of the element (`Cl`/`CL`); any CONECT record with serials of up to five digits — touching
fields included — gives the bonds to the larger partners; whole files (`pdb_load_spec`). -/

/-- PDB: the reader's ATOM and CONECT slices are the columns of the specification. -/
theorem pdb_reader_columns_match_spec :
    Pdb.readerColumns pdbL = Pdb.specAtomColumns ∧ Pdb.conectColumns pdbL = Pdb.specConectColumns ∧ pdbL.titleFrom = 10 := by
  decide +kernel

/-- PDB: an ATOM record in the published columns is cut into exactly its atom (for every layout whose
writer columns — here: the renderer of the published table — equal the reader slices). -/
theorem pdb_spec_atom_record (T : Tables) (L : Pdb.Layout) (hL : Pdb.LayoutOK L) (serial : Nat) (a : Pdb.Atom)
    (hser : (natToDec serial).length ≤ L.serialW) (ha : Pdb.AtomOK T L a) :
    Pdb.parseAtom T L (Pdb.dumpAtom T L serial a) = .ok a :=
  Pdb.parseAtom_dumpAtom T L hL serial a hser ha

/-- PDB: a file in the published layout (TITLE, ATOM, CONECT with at most four partners per record, END)
loads as its model, bonds as zero-based pairs `(a, b)`, `a < b`, for every reader whose slices are the
columns the renderer fills. -/
theorem pdb_load_spec (T : Tables) (L : Pdb.Layout) (hL : Pdb.LayoutOK L) (hC : Pdb.ConectOK L) (m : Pdb.Obj)
    (h : Pdb.DomB T L m) : Pdb.load T L (Pdb.dump T L m) = .ok (Pdb.norm L m) :=
  Pdb.load_dump_bonds T L hL hC m h

/-- PDB: the layout whose renderer the theorem speaks about has the published CONECT columns. -/
theorem pdb_spec_conect_columns : Pdb.ConectOK pdbL ∧ Pdb.conectColumns pdbL = Pdb.specConectColumns := by
  decide +kernel

/-- PDB: upper-case element columns (`CL`, `FE`: the wwPDB spelling; fixed by ec6ad10) denote the element. -/
theorem pdb_upper_case_elements :
    ∀ z ∈ List.range' 1 118, tables.num? (title (upper (tables.sym z))) = some z := by decide +kernel

/-- PDB (former counter-example, fixed by ce4a9da): CONECT serials ≥ 10000 in the published columns. -/
example : Pdb.parseConect pdbL "CONECT1000010001\n".toList = .ok [(9999, 10000)] := by decide +kernel

/-! ## Fortran `D` exponents -/

/-- a real printed by Fortran as `±D.DDDD…D±XX` is read, after the readers' `.replace("D", "E")`, as the printed
mantissa/exponent pair (WFN sections, Molden exponents/coefficients, Gaussian-log integrals use this spelling). -/
theorem sci_fortran_D (sp : Bool) (d : Nat) (x : Sci) (hd : 0 < d) (hm : x.man < 10 ^ (d + 1)) (p q : Str)
    (hp : AllWs p) (hq : AllWs q) : pySci d (replaceD (p ++ (sciCoreC sp 'D' d x ++ q))) = some x :=
  pySci_replaceD sp d x hd hm p q hp hq

/-! ## FCHK (Gaussian's formatted checkpoint: `A40,3X,A1,5X,I12` / `E22.15`; `A40,3X,A1,3X,'N=',I12`; `6I12`; `5E16.8`) -/

/-- FCHK: the column at which the reader in the source separates label and words is the one Gaussian's layout defines,
and the published widths satisfy the side conditions of the model. -/
theorem fchk_reader_cut_matches_spec :
    fchkL.cut = 43 ∧ (Fchk.specG fchkL).reader.cut = fchkL.reader.cut ∧ Fchk.LayoutOK (Fchk.specG fchkL) ∧
    Fchk.RunTypesOK (Fchk.specG fchkL) fchkRunTypes := by decide +kernel

/-- FCHK: a file rendered with Gaussian's widths (real scalars with 15 decimals, arrays `6I12` / `5E16.8`, any number of
elements, touching columns excluded by the format's own widths) loads as its model, for every reader that separates
label and words at the published column. -/
theorem fchk_load_spec (L : Fchk.Layout) (hS : Fchk.LayoutOK (Fchk.specG L)) (R : Fchk.RunTypes)
    (hR : Fchk.RunTypesOK (Fchk.specG L) R) (keep : Str → Bool) (m : Fchk.Obj) (h : Fchk.Dom (Fchk.specG L) m)
    (hk : ∀ f ∈ m.fields, keep f.1 = true) :
    Fchk.load (Fchk.specG L).reader R keep (Fchk.dump (Fchk.specG L) R m) = .ok (Fchk.norm (Fchk.specG L) R m) :=
  Fchk.load_dump (Fchk.specG L) hS R hR keep m h hk

/-- FCHK: triangular storage is unpacked to the right elements: element `(i, j)` of the dense matrix is entry
`max(i,j)·(max(i,j)+1)/2 + min(i,j)` of the stored triangle, for every size. -/
theorem fchk_dense_entry (α : Type) (d : α) (n : Nat) (t : List α) (i j : Nat) (hi : i < n) (hj : j < n) :
    ((Fchk.dense d n t).getD i []).getD j d = t.getD (Fchk.triIdx i j) d := by
  simp [Fchk.dense, List.getD, hi, hj]

/-! ## Cube (free format: whitespace-separated header numbers, values in row-major order x, y, z) -/

/-- Cube: a header line `n x y z` is read as these four numbers, an atom line `Z q x y z` as that atom, whatever the
widths (fields are blank-separated); the k-th value of the data block, wherever the line breaks fall, is element k of the
row-major grid. -/
theorem cube_load_spec (L : Cube.Layout) (hL : Cube.LayoutOK L) (m : Cube.Obj) (h : Cube.Dom L m) :
    Cube.load L (Cube.dump L m) = .ok (Cube.norm L m) ∧
    (∀ n v, Cube.readGrid L.hD (Cube.gridLine L n v) = .ok (n, v)) :=
  ⟨Cube.load_dump L hL m h, Cube.readGrid_gridLine L⟩

/-! ## MOL2 (Tripos free-format records) -/

/-- MOL2: an ATOM record `id name x y z type subst_id subst_name charge` is read as element (from the first two characters
of the name), coordinates, type and charge of that atom; a BOND record `id a b type` as the zero-based pair and the bond
type number — whatever the widths, for every record of the domain. -/
theorem mol2_records (T : Tables) (L : Mol2.Layout) (hL : Mol2.LayoutOK T L) (k : Nat) (a : Mol2.Atom) (ha : Mol2.AtomOK T a)
    (b : Mol2.Bond) :
    Mol2.readAtom T L (Mol2.atomLine T L k a) = .ok (Mol2.normAtom T a) ∧
    Mol2.readBond T L (Mol2.bondLine T L k b) = .ok (Mol2.normBond T L b) :=
  ⟨Mol2.readAtom_atomLine T L hL k a ha, Mol2.readBond_bondLine T L hL k b⟩

/-- MOL2: whole files in the published record order load as their model. -/
theorem mol2_load_spec (T : Tables) (L : Mol2.Layout) (hL : Mol2.LayoutOK T L) (m : Mol2.Obj) (h : Mol2.Dom T L m) :
    Mol2.load T L (Mol2.dump T L m) = .ok (Mol2.norm T L m) :=
  Mol2.load_dump T L hL m h

/-! ## FCIDUMP (chemists' notation, 8-fold symmetry) -/

/-- FCIDUMP: one line `value i j k l` (chemists' `(ij|kl)`) sets exactly the eight physicists' positions of its orbit,
`[i,k,j,l]` and its images, and touches nothing else. -/
theorem fcidump_line_fill (α : Type) (a : Helpers.Idx → α) (i j k l : Nat) (v : α) (p : Helpers.Idx) :
    Helpers.setFour a i k j l v p = if p ∈ Helpers.written i k j l then v else a p :=
  Fcidump.setFour_mem a i k j l v p

/-! ## POSCAR / CHGCAR header (VASP 5: element line, count line, direct coordinates) -/

/-- VASP header: the k-th coordinate line belongs to the k-th atom of the expanded element/count lines, and direct
coordinates `s` denote the Cartesian position `s · cell` (rows of the cell are the lattice vectors); converting that
position back gives `s` again. -/
theorem poscar_direct_coordinates (cell : Poscar.M3) (h : Poscar.det cell ≠ 0) (s : Poscar.V3) :
    Poscar.toFrac cell (Poscar.toCart cell s) = s :=
  Poscar.toFrac_toCart cell h s

/-! ## GRO (GROMACS manual: `%5d%-5s%5s%5d%8.3f%8.3f%8.3f%8.4f%8.4f%8.4f`, any precision by the decimal-point rule) -/

/-- GRO: the reader's fixed slices are the published columns (residue number 1-5, residue name 6-10, atom name 11-15,
positions from column 21). -/
theorem gro_reader_columns_match_spec : Gro.LayoutOK groL := by decide +kernel

/-- GRO: an atom record in the published columns is cut into residue number, residue name, atom name, three positions
and (when present) three velocities — fields may touch (five-digit residue numbers, `-999.999`), the field width is
recovered from the distance between the first two decimal points for every precision `d ≥ 1`. -/
theorem gro_atom_record (L : Gro.Layout) (hL : Gro.LayoutOK L) (d : Nat) (hd : 0 < d) (a : Gro.Atom) (ha : Gro.AtomOK L d a) :
    Gro.readAtom L (Gro.specAtom d a) = .ok (Gro.normAtom a, d + 5) :=
  Gro.readAtom_specAtom L hL d hd a ha

/-- GRO: a whole file in the published layout (title without time stamp, `%5d` atom count, atom records, box line of three
or nine numbers with the off-diagonal entries in the order v1(y) v1(z) v2(x) v2(z) v3(x) v3(y)) loads as the model it was
rendered from. -/
theorem gro_load_spec (L : Gro.Layout) (hL : Gro.LayoutOK L) (m : Gro.Obj) (h : Gro.Dom L m) :
    Gro.load L (Gro.specRender m) = .ok (Gro.denote m) :=
  Gro.load_spec L hL m h

/-- non-vacuity: touching fields (residue 99999, x = −999.999 directly after the atom number), a triclinic box. -/
example : Gro.Dom groL ⟨['w'], 3, [⟨99999, ['S','O','L'], ['O','W','1','2','3'], 99999, ⟨true, 999999⟩, ⟨false, 9999999⟩, ⟨true, 0⟩,
    some (⟨true, 999999⟩, ⟨false, 0⟩, ⟨false, 1⟩)⟩], (List.range 9).map fun k => ⟨false, k⟩⟩ := by decide +kernel

end Iodata.Props.C03
