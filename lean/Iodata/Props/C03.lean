/-
C03 — loaded values are exactly what the file says under the published layout.

Property theorems only.  Per format an *independent renderer of the published layout* (`specRender`,
hand-written from the format documents: free-format token order for XYZ/MOL2, column tables for
SDF V2000 / PDB v3.3 / GRO) and the theorem `load (specRender m) = ok m` for every model `m`; where the
reader in the source deviates from the published columns the deviation is *proved* by a concrete
counter-example (`…_violated`) and the theorem is stated on the complement (`…_partial`).
-/
import Iodata.Lemmas.Fmt.Xyz
import Iodata.Lemmas.Fmt.Sdf
import Iodata.Gen.Layouts

namespace Iodata.Props.C03
open Iodata.Chars Iodata.Decimal Iodata.Fmt Iodata.Gen.Layouts

/-! ## XYZ (free format) -/

/-- XYZ: every well-formed free-format file — any blank runs before/between/after the fields, the
element given as symbol in any case or as atomic number, numbers of any magnitude and sign — loads as
the object it denotes: the i-th line's element and numbers stay attached to atom i, in order. -/
theorem xyz_load_spec (T : Tables) (L : Xyz.Layout) (m : Xyz.SpecObj) (h : Xyz.SpecOK T L m) :
    Xyz.load T L (Xyz.specRender T L m) = .ok m.obj :=
  Xyz.load_spec T L m h

/-- XYZ: each element of the table is recognised in all four spellings (`Cl`, `CL`, `cl`, `17`). -/
theorem xyz_spec_elements_ok :
    ∀ z ∈ List.range' 1 118, ∀ v ∈ [0, 1, 2, 3], Xyz.okEl tables z v = true := by
  decide +kernel

/-- non-vacuity: a spec file with tabs and several blanks as separators. -/
example : Xyz.SpecOK tables xyzL
    ⟨[' '], [' ', ' '], [], ['w','a','t','e','r',' ','1'], [' '],
     [⟨8, 1, ['\t'], [([' ', ' '], ⟨true, 12345678901⟩), (['\t'], ⟨false, 0⟩), ([' '], ⟨false, 99999999999999⟩)], []⟩,
      ⟨1, 3, [], [([' '], ⟨false, 5⟩), ([' '], ⟨true, 0⟩), ([' ', '\t'], ⟨false, 7⟩)], [' ']⟩]⟩ := by
  decide +kernel

/-! ## SDF (CTfile V2000 column table)

Full statement: `∀ m, Sdf.ColDom T Sdf.specV2000 m → Sdf.load T sdfL (Sdf.dump T Sdf.specV2000 m) = .ok m'` for every
model the published columns can hold.  FALSE for the code as it is (`sdf_spec_violated_*`): the reader
cuts no columns at all (`sdf_reader_splits`).  Proved on the complement of the touching-field files. -/

/-- SDF: the reader in the source slices no record by column; it uses `words[i]` of a blank split. -/
theorem sdf_reader_splits : sdf_slices = [] ∧ sdf_words = Sdf.expectedWords := by decide +kernel

/-- SDF: the columns the *writer* uses are the published ones (so C02 files are spec files), and the
reader re-quantises to the published number of decimals. -/
theorem sdf_writer_columns_match_spec :
    Sdf.columns sdfL = Sdf.specColumns ∧ Sdf.columns Sdf.specV2000 = Sdf.specColumns ∧
    sdfL.coordD = Sdf.specV2000.coordD := by decide +kernel

/-- SDF, partial: a file rendered from the published column table whose fields do not touch is loaded
as the model it was rendered from. -/
theorem sdf_load_spec_partial (T : Tables) (L : Sdf.Layout) (hd : L.coordD = Sdf.specV2000.coordD)
    (m : Sdf.Obj) (h : Sdf.Dom T Sdf.specV2000 m) :
    Sdf.load T L (Sdf.dump T Sdf.specV2000 m) = .ok (Sdf.norm Sdf.specV2000 m) := by
  rw [Sdf.load_congr T L Sdf.specV2000 hd]
  exact Sdf.load_dump T Sdf.specV2000 (by decide +kernel) m h

def sdfC110 : List Sdf.Atom := List.replicate 110 ⟨⟨false, 0⟩, ⟨false, 0⟩, ⟨false, 0⟩, 6⟩

/-- SDF violated: the well-formed bond record `101110  1  0  0  0  0` (atoms 101 and 110, single bond)
is loaded as a bond between atoms 101110 and 1 of type 0. -/
theorem sdf_spec_violated_bond :
    Sdf.ColDom tables Sdf.specV2000 ⟨['t'], sdfC110, [⟨100, 109, 1⟩]⟩ ∧
    Sdf.dumpBond Sdf.specV2000 ⟨100, 109, 1⟩ = "101110  1  0  0  0  0\n".toList ∧
    Sdf.load tables sdfL (Sdf.dump tables Sdf.specV2000 ⟨['t'], sdfC110, [⟨100, 109, 1⟩]⟩)
      = .ok ⟨['t'], sdfC110, [⟨101109, 0, 0⟩]⟩ := by
  decide +kernel

/-- SDF violated: y = −1234.5678 directly after x is not read at all. -/
theorem sdf_spec_violated_coord :
    Sdf.ColDom tables Sdf.specV2000 ⟨['t'], [⟨⟨false, 5⟩, ⟨true, 12345678⟩, ⟨false, 0⟩, 1⟩], []⟩ ∧
    failed (Sdf.load tables sdfL (Sdf.dump tables Sdf.specV2000 ⟨['t'], [⟨⟨false, 5⟩, ⟨true, 12345678⟩, ⟨false, 0⟩, 1⟩], []⟩))
      = true := by
  decide +kernel

end Iodata.Props.C03
